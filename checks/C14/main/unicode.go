// Leg FU/FV — the regex dialect on node names / subscription tags "with arbitrary characters".
//
// Dimension: (a) a second field alphabet with non-ASCII letters, digits, spaces, connector punctuation,
// combining marks and embedded / trailing newlines; (b) a bounded pattern grammar over the shorthand
// character classes (\w \W \d \D \s \S, also inside [...]), '.', literals, quantifiers and the anchors
// ^ and $; (c) patterns that are NOT valid in the dialect (escapes / group syntax borrowed from other
// dialects), which must stay a configuration error.
//
// Reference dialect: the one group filters have always been compiled with (regexp2 default options, the
// .NET dialect). Its documented meaning is written down here by hand and evaluated by Go's regexp over
// Go's unicode tables (no regexp2 involved):
//
//	\w = [\p{L}\p{Mn}\p{Nd}\p{Pc}]     \d = \p{Nd}     \s = [\f\n\r\t\v\x85\p{Z}]
//	.  = any character except \n       ^  = start of the text
//	$  = end of the text or before a final \n
//	a backslash before a word character that is not a defined escape (\_ \Q \i) and the (?P<name>...)
//	group spelling are syntax errors (\pL without braces is NOT demanded to be one: regexp2 documents it as accepted)
package main

import (
	"fmt"
	"regexp"
)

// field alphabet, simplest first. Every string is used once as a node name and once as a subscription tag.
var uFields = []string{
	"hk1",            // ASCII control
	"HK1",            // case
	"",               // empty
	"\u9999\u6e2f1",  // letters outside ASCII (Lo)
	"hk\uff11",       // FULLWIDTH DIGIT ONE (Nd)
	"hk 1",           // ASCII space
	"hk\u30001",      // IDEOGRAPHIC SPACE (Zs)
	"hk\u00a01",      // NO-BREAK SPACE (Zs)
	"hk_1",           // ASCII connector punctuation (Pc)
	"hk\u203f1",      // UNDERTIE (Pc)
	"hk-1",           // dash (Pd): neither word nor space
	"hk\u00b2",       // SUPERSCRIPT TWO (No): neither \d nor \w
	"hke\u03011",     // COMBINING ACUTE ACCENT (Mn) is a word character
	"hk1\n",          // final newline: $ matches before it
	"sg\nhk1",        // inner newline: '.' does not cross it, ^ does not match after it
	" hk1 ",          // leading / trailing space is part of the name
	"hk\u0663",       // ARABIC-INDIC DIGIT THREE (Nd)
	"hk\u2167",       // ROMAN NUMERAL EIGHT (Nl): neither \d nor \w
	"hk\u00851",      // NEXT LINE (Cc) is white space
	"\u673a\u573a",   // CJK only, no digit
}

// one pattern atom: its spelling in the configuration and its documented meaning spelled for Go's regexp
type uAtom struct{ dae, ref string }

const (
	refW = `\p{L}\p{Mn}\p{Nd}\p{Pc}`
	refS = `\f\n\r\t\v\x{85}\p{Z}`
)

var uAtoms = []uAtom{
	{`hk`, `hk`},
	{`1`, `1`},
	{`[0-9]`, `[0-9]`},
	{`.`, `[^\n]`},
	{`\w`, `[` + refW + `]`},
	{`\d`, `\p{Nd}`},
	{`\s`, `[` + refS + `]`},
	{`\W`, `[^` + refW + `]`},
	{`\D`, `\P{Nd}`},
	{`\S`, `[^` + refS + `]`},
	{`[\w\s]`, `[` + refW + refS + `]`},
	{`[^\w\s]`, `[^` + refW + refS + `]`},
	{`[\d_]`, `[\p{Nd}_]`},
}

// whole patterns people actually write, with their meaning
var uExtras = []uAtom{
	{`[\u4e00-\u9fa5]`, `[\x{4e00}-\x{9fa5}]`},
	{`\p{Lo}`, `\p{Lo}`},
	{`^\P{L}*$`, `^\P{L}*\n?\z`},
	{`(?i)^hk\s?\d+$`, `(?i)^hk[` + refS + `]?\p{Nd}+\n?\z`},
	{`^(\w|\s)+$`, `^([` + refW + `]|[` + refS + `])+\n?\z`},
	{`^hk.1$`, `^hk[^\n]1\n?\z`},
	{`hk1\n`, `hk1\n`},
	{`\Ahk\S*\z`, `\Ahk[^` + refS + `]*\z`},
}

// not patterns of the dialect: each must be reported as a bad regex
var uInvalid = []string{
	`hk\_1`,      // unrecognized escape
	`\Qhk\E`,     // no literal-quoting construct
	`\i`,         // unrecognized escape
	`(?P<n>hk)1`, // named groups are spelled (?<n>...)
}

var uNameVals, uTagVals []value // regex values (valid then invalid), the same patterns for both inputs
var uPlainName, uPlainTag []value // exact / keyword values over the new field alphabet

func uMkValue(dae, ref string) value {
	re, err := regexp.Compile(ref)
	if err != nil {
		panic(fmt.Sprintf("C14 reference: %q does not compile: %v", ref, err))
	}
	hits := map[string]bool{}
	for _, f := range uFields {
		hits[f] = re.MatchString(f)
	}
	return value{text: "regex: '" + dae + "'", pred: func(s string) bool {
		h, ok := hits[s]
		if !ok {
			h = re.MatchString(s)
		}
		return h
	}}
}

// uBuildValues: every pattern [^] item [item] [$] with item = atom x quantifier, plus the extras and the
// invalid ones. Quick: quantifiers {none, +}; thorough adds {*, ?}.
func uBuildValues(thorough bool) {
	quants := []string{"", "+"}
	if thorough {
		quants = []string{"", "+", "*", "?"}
	}
	var items []uAtom
	for _, q := range quants {
		for _, a := range uAtoms {
			items = append(items, uAtom{a.dae + q, a.ref + q})
		}
	}
	var bodies []uAtom
	bodies = append(bodies, items...)
	for _, a := range items {
		for _, b := range items {
			bodies = append(bodies, uAtom{a.dae + b.dae, a.ref + b.ref})
		}
	}
	var vals []value
	for _, anch := range []struct{ pre, post, rpre, rpost string }{
		{"", "", "", ""}, {"^", "", "^", ""}, {"", "$", "", `\n?\z`}, {"^", "$", "^", `\n?\z`},
	} {
		for _, b := range bodies {
			vals = append(vals, uMkValue(anch.pre+b.dae+anch.post, anch.rpre+"(?:"+b.ref+")"+anch.rpost))
		}
	}
	for _, e := range uExtras {
		vals = append(vals, uMkValue(e.dae, e.ref))
	}
	for _, p := range uInvalid {
		vals = append(vals, value{text: "regex: '" + p + "'", invalid: kBadRegex})
	}
	uNameVals = vals
	uTagVals = append([]value{}, vals...)

	// exact and keyword values with the new characters (a value is compared as written: no trimming, no folding)
	for _, f := range []string{"hk1", "\u9999\u6e2f1", "hk\uff11", "hk 1", "hk\u30001", " hk1 ", "hk\u2167", "hke\u03011", "hke1", "hk"} {
		f := f
		uPlainName = append(uPlainName, value{text: "'" + f + "'", pred: eq(f)})
		uPlainTag = append(uPlainTag, value{text: "'" + f + "'", pred: eq(f)})
	}
	for _, k := range []string{"1", "\uff11", " ", "\u3000", "\u9999", "e\u0301", "\u00e9", "hk1", "HK", " hk1"} {
		uPlainName = append(uPlainName, value{text: "keyword: '" + k + "'", pred: has(k)})
	}
}

// uEnumerate adds the families
//
//	FU  one line, one condition name()/subtag(), '!' on/off, one value (every pattern; every plain value)
//	FV  two lines: <condition> [add_latency: 5ms] then name(keyword: '') - the first satisfied line
//	    supplies the annotation, and a node the first line wrongly drops is still a member, with 0s
func uEnumerate(thorough bool, add func(family string, pol *policy, lines ...*line)) {
	uBuildValues(thorough)
	polMin := policies[0]
	all := &line{conds: []*cond{{input: "name", vals: []*value{nv("keyword: ''")}}}, anno: annos[0]}
	for _, in := range []struct {
		name string
		vals [][]value
	}{{"name", [][]value{uPlainName, uNameVals}}, {"subtag", [][]value{uPlainTag, uTagVals}}} {
		for _, vs := range in.vals {
			for i := range vs {
				for _, not := range []bool{false, true} {
					c := &cond{input: in.name, not: not, vals: []*value{&vs[i]}}
					add("FU:unicode-1line", polMin, &line{conds: []*cond{c}, anno: annos[0]})
					if !not {
						add("FV:unicode-2lines", polMin, &line{conds: []*cond{c}, anno: annos[1]}, all)
					}
				}
			}
		}
	}
}

func uAtomTexts() []string {
	var s []string
	for _, a := range uAtoms {
		s = append(s, a.dae)
	}
	return s
}
