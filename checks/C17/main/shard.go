package main

import (
	"encoding/json"
	"fmt"
	"hash/fnv"
	"os"
	"runtime/pprof"
	"sort"
	"strings"
	"time"
)

// Shard mode (legs 1-3: parse-only; every panic of config_parser.Parse is recoverable in-process).
// Each shard process enumerates the WHOLE leg (generation is cheap) and evaluates the texts whose
// hash falls into its residue class: duplicates meet in one shard, so distinct counts are exact, and
// the ANTLR runtime (shared DFA cache) is only ever used from one goroutine per process, as in production.

type shardViol struct {
	Sig    string `json:"sig"`
	Input  string `json:"input"`
	Detail string `json:"detail"`
	Count  int64  `json:"count"`
}

type shardResult struct {
	Leg         string           `json:"leg"`
	Shard       int              `json:"shard"`
	Evaluations int64            `json:"evaluations"`
	Distinct    int64            `json:"distinct"` // distinct AND non-trivial (see verdict.Parsed)
	Accepted    int64            `json:"accepted"`
	Rejected    int64            `json:"rejected"`
	Base        int64            `json:"base"`
	Shapes      int64            `json:"shapes"` // distinct canonical trees among accepted
	Harness     []shardViol      `json:"harness"`
	Viol        []shardViol      `json:"viol"`
	Samples     []string         `json:"samples"`
	Extra       map[string]int64 `json:"extra"`
	Capped      bool             `json:"capped"`
}

type shardCtx struct {
	res        shardResult
	shard      int
	of         int
	seen       map[uint64]struct{}
	shapes     map[uint64]struct{}
	viol       map[string]*shardViol
	harn       map[string]*shardViol
	preSharded bool // the leg assigns whole base cases to shards itself
	deadline   time.Time
	tick       int
}

// over: the shard's internal deadline has passed (checked every 64 cases); the shard then stops evaluating
// and reports Capped — never an oracle, only a cap (the run is then reported as not exhaustive).
func (c *shardCtx) over() bool {
	if c.res.Capped {
		return true
	}
	c.tick++
	if c.tick%64 == 0 && !c.deadline.IsZero() && time.Now().After(c.deadline) {
		c.res.Capped = true
	}
	return c.res.Capped
}

var dryRun = os.Getenv("C17_DRY") != "" // count texts only (sizing aid)

func h64(s string) uint64 {
	h := fnv.New64a()
	h.Write([]byte(s))
	return h.Sum64()
}

func better(a, b string) bool { // a better (smaller) counterexample than b
	if len(a) != len(b) {
		return len(a) < len(b)
	}
	return a < b
}

func (c *shardCtx) mine(text string) bool {
	h := h64(text)
	if !c.preSharded && int(h%uint64(c.of)) != c.shard {
		return false
	}
	if _, dup := c.seen[h]; dup {
		return false
	}
	c.seen[h] = struct{}{}
	return true
}

func (c *shardCtx) eval(text string, wantCanon string) {
	if !c.mine(text) || c.over() {
		return
	}
	c.res.Evaluations++
	if dryRun {
		return
	}
	v := checkText(text, wantCanon)
	if v.Parsed {
		c.res.Distinct++
	}
	if v.Accept {
		c.res.Accepted++
		c.shapes[h64(v.Canon)] = struct{}{}
	} else {
		c.res.Rejected++
	}
	if v.Kind == "" {
		if len(c.res.Samples) < 2 && v.Accept && len(text) > 12 {
			c.res.Samples = append(c.res.Samples, text)
		}
		return
	}
	m := c.viol
	if v.Kind == "harness" {
		m = c.harn
	}
	e := m[v.Sig]
	if e == nil {
		m[v.Sig] = &shardViol{Sig: v.Sig, Input: text, Detail: v.Detail, Count: 1}
		return
	}
	e.Count++
	if better(text, e.Input) {
		e.Input, e.Detail = text, v.Detail
	}
}

func flatten(m map[string]*shardViol) []shardViol {
	keys := make([]string, 0, len(m))
	for k := range m {
		keys = append(keys, k)
	}
	sort.Strings(keys)
	out := make([]shardViol, 0, len(keys))
	for _, k := range keys {
		v := *m[k]
		if len(v.Detail) > 3000 {
			v.Detail = v.Detail[:3000]
		}
		out = append(out, v)
	}
	return out
}

func runShard(leg string, shard, of int, thorough bool, budget time.Duration) {
	c := &shardCtx{deadline: time.Now().Add(budget), shard: shard, of: of, seen: map[uint64]struct{}{}, shapes: map[uint64]struct{}{},
		viol: map[string]*shardViol{}, harn: map[string]*shardViol{}}
	c.res.Leg, c.res.Shard = leg, shard
	if pf := os.Getenv("C17_PROF"); pf != "" { // sizing aid
		if f, err := os.Create(pf); err == nil {
			pprof.StartCPUProfile(f)
			defer pprof.StopCPUProfile()
		}
	}
	c.res.Extra = map[string]int64{}
	switch leg {
	case "grammar":
		c.preSharded = true
		legGrammar(c, thorough)
	case "nearmiss":
		legNearMiss(c, thorough)
	case "bytes":
		legBytes(c, thorough)
	case "include":
		legIncludeShard(c, thorough)
	default:
		fmt.Fprintln(os.Stderr, "unknown leg", leg)
		os.Exit(2)
	}
	c.res.Shapes = int64(len(c.shapes))
	c.res.Viol = flatten(c.viol)
	c.res.Harness = flatten(c.harn)
	b, _ := json.Marshal(&c.res)
	os.Stdout.Write(append(b, '\n'))
}

// leg 1 (sharded by base derivation; texts de-duplicated inside the shard)
func legGrammar(c *shardCtx, thorough bool) {
	genPrograms(thorough, func(p gProgram, mode int, junc int) {
		c.res.Base++
		base := render(p.toks)
		if int(h64(base)%uint64(c.of)) != c.shard {
			return
		}
		want := canonSections(p.secs)
		c.eval(base, want)
		c.eval(strings.Join(p.toks, " "), want) // fully spaced spelling
		lo, hi := 0, len(p.toks)
		switch mode {
		case trivNone:
			return
		case trivJunc:
			lo, hi = junc, junc
		}
		trs := triviaFor(thorough)
		if mode == trivJunc {
			trs = []triv{triviaAll[0], triviaAll[2], triviaAll[4], triviaAll[5]} // " ", " # c } \n", "#c\n", "/*c*/"
		}
		for pos := lo; pos <= hi; pos++ {
			for _, tr := range trs {
				w := ""
				if tr.safe {
					w = want
				}
				c.eval(renderInsert(p.toks, pos, tr.s), w)
			}
		}
	})
}

// leg 3
var byteAlphabet = []string{"a", "1", "'", "\"", "{", "}", "(", ")", ":", "!", "&", "-", ">", "[", "]", ",", "#", "\n", " ", "\x00", "\xff"}

// Syntactic contexts the byte strings are placed in. The production parser decides the FIRST section with
// unbounded look-ahead (a syntax error anywhere inside it empties the whole tree), while later sections are
// entered on one token of look-ahead and repaired by error recovery — only there does the tree walker meet
// malformed sub-trees. Hence most contexts start with a valid section.
var byteContexts = [][2]string{
	{"", ""},                // bare
	{"a{}a{", "}"},          // body of a later section
	{"a{", "}"},             // body of the first section
	{"a{}a{f(", ")->o}"},    // parameter list of a rule condition
	{"a{}a{k:", "}"},        // declaration value
	{"a{}a{f(x)->o(", ")}"}, // parameter list of an outbound function
	{"a{}a{k:v[", "]}"},     // annotation
	{"a{}a{f(x)->", "}"},    // outbound position
}

func legBytes(c *shardCtx, thorough bool) {
	// quick: length<=4 bare and inside a later section's body, length<=3 in the six inner contexts;
	// thorough: length<=5 bare, <=4 in all other contexts
	maxLen := []int{4, 4, 3, 3, 3, 3, 3, 3}
	if thorough {
		maxLen = []int{5, 4, 4, 4, 4, 4, 4, 4}
	}
	c.res.Extra["max_len"] = int64(maxLen[0])
	c.res.Extra["max_len_inner_contexts"] = int64(maxLen[2])
	// by increasing length (so that an internal deadline only ever cuts the longest strings)
	var rec func(prefix string, depth, target int)
	rec = func(prefix string, depth, target int) {
		if depth == target {
			for i, ctx := range byteContexts {
				if depth <= maxLen[i] {
					c.eval(ctx[0]+prefix+ctx[1], "")
				}
			}
			c.res.Base++
			return
		}
		for _, s := range byteAlphabet {
			rec(prefix+s, depth+1, target)
		}
	}
	for l := 0; l <= maxLen[0]; l++ {
		rec("", 0, l)
	}
}
