package main

// DNS pipelines: request list #i and response list #i share one configuration document ->
// config.New -> dns.New (component/dns/dns.go: the production optimizer chain DatReader, MergeAndSort,
// DeduplicateParams on both programs) -> RequestSelect / ResponseSelect; the same request list through
// daedns.NewWithOption (component/daedns/router.go) -> selectUpstream. Reference: dnsref (copy of C07's
// reference interpreter) on the list as written, geodata references replaced by the listed values.
// Second leg: the matchers built by NewRequestMatcherBuilder / NewResponseMatcherBuilder from the same
// (expanded) list with no optimizer at all.

import (
	"context"
	"fmt"
	"net"
	"net/netip"
	"os"
	"strings"
	"sync/atomic"

	"github.com/daeuniverse/dae/common/assets"
	"github.com/daeuniverse/dae/common/consts"
	"github.com/daeuniverse/dae/component/daedns"
	"github.com/daeuniverse/dae/component/dns"
	"github.com/daeuniverse/dae/component/routing"
	"github.com/daeuniverse/dae/config"
	"github.com/daeuniverse/dae/pkg/config_parser"
	ref "github.com/daeuniverse/dae/verifx/c04_dnsref"
	"github.com/daeuniverse/dae/verifx/vlib"
	dnsmessage "github.com/miekg/dns"
)

// upstream tags are deliberately not in alphabetical order so that a name/index mix-up shows.
var upTags = []string{"ub", "ua"}
var upURLs = []string{"udp://192.0.2.1:53", "udp://192.0.2.2:53"}

const (
	reqFallback  = "asis"
	respFallback = "ub"
)

func dnsConfText(reqBlock, respBlock string) string {
	var b strings.Builder
	b.WriteString("global{}\nrouting{ fallback: direct }\ndns {\n  upstream {\n")
	for i := range upTags {
		fmt.Fprintf(&b, "    %s: '%s'\n", upTags[i], upURLs[i])
	}
	b.WriteString("  }\n  routing {\n    request {\n" + reqBlock + "    }\n    response {\n" + respBlock + "    }\n  }\n}\n")
	return b.String()
}

func dq(not bool, kv ...string) ref.Cond {
	c := ref.Cond{Fn: "qname", Not: not}
	for i := 0; i+1 < len(kv); i += 2 {
		c.Params = append(c.Params, ref.Param{Key: kv[i], Val: kv[i+1]})
	}
	return c
}

func dk(fn string, not bool, kv ...string) ref.Cond {
	c := ref.Cond{Fn: fn, Not: not}
	for i := 0; i+1 < len(kv); i += 2 {
		c.Params = append(c.Params, ref.Param{Key: kv[i], Val: kv[i+1]})
	}
	return c
}

func dp(fn string, not bool, vs ...string) ref.Cond {
	c := ref.Cond{Fn: fn, Not: not}
	for _, v := range vs {
		c.Params = append(c.Params, ref.Param{Val: v})
	}
	return c
}

func dr(out string, cs ...ref.Cond) ref.Rule { return ref.Rule{Conds: cs, Out: out} }

// request alphabet: the first reqCore symbols are the core used for the longest lists.
const reqCore = 15

func requestAlphabet() []ref.Rule {
	return []ref.Rule{
		dr("ua", dq(false, "full", "a.com")),
		dr("ua", dq(false, "full", "x.net")),
		dr("ua", dq(true, "full", "a.com")),
		dr("ua", dq(true, "suffix", "b.org")),
		dr("ua", dq(false, "suffix", "b.org")),
		dr("ua", dp("qtype", false, "a")),
		dr("ua", dp("qtype", false, "aaaa")),
		dr("ua", dp("qtype", true, "a")),
		dr("ua", dp("qtype", true, "aaaa")),
		dr("ub", dq(false, "full", "a.com")),
		dr("ub", dq(true, "full", "x.net")),
		dr("ub", dq(false, "suffix", "a.com", "full", "a.com")),
		dr("ua", dq(false, "keyword", "goo", "full", "www.a.com", "suffix", "b.org")),
		dr("ua", dq(false, "geosite", "tiny")),
		dr("ua", dq(true, "geosite", "tiny")),
		// beyond the core
		dr("reject", dq(false, "full", "a.com", "full", "a.com")),
		dr("asis", dq(false, "regex", "^yes")),
		dr("ub", dq(false, "geosite", "tiny", "full", "a.com", "suffix", "tiny.org")),
		dr("reject", dq(false, "geosite", "tiny@ads")),
		dr("ua", dq(false, "ext", "c04site:tiny")),
		dr("ub", dp("qtype", false, "aaaa", "a", "28")),
		dr("ua", dp("qtype", true, "28")),
		dr("reject", dp("qtype", false, "a")),
		dr("ub", dp("qtype", false, "a"), dq(false, "suffix", "b.org")),
		dr("ua", dp("qtype", true, "aaaa"), dq(true, "keyword", "goo")),
		// conditions whose value list is empty after expansion
		dr("ub", dq(false, "geosite", "tiny@nomatch")),
		dr("ub", dq(true, "geosite", "tiny@nomatch")),
		dr("ub", dp("qtype", false, "a"), dq(false, "geosite", "tiny@nomatch")),
		dr("ub", dq(false, "suffix", "b.org"), dq(false, "geosite", "tiny@nomatch")),
		dr("ub", dp("qtype", false, "aaaa"), dq(true, "geosite", "tiny@nomatch")),
		// the same value in two conditions of one rule
		dr("ub", dq(false, "suffix", "b.org", "full", "a.com"), dq(true, "full", "a.com")),
	}
}

const respCore = 14

func responseAlphabet() []ref.Rule {
	return []ref.Rule{
		dr("reject", dp("ip", false, "10.0.0.0/8")),
		dr("reject", dp("ip", false, "8.8.8.8")),
		dr("reject", dp("ip", true, "10.0.0.0/8")),
		dr("reject", dp("ip", true, "8.8.8.8")),
		dr("accept", dp("upstream", false, "ua")),
		dr("accept", dp("upstream", false, "ub")),
		dr("accept", dp("upstream", true, "ua")),
		dr("accept", dp("upstream", true, "ub")),
		dr("accept", dp("ip", false, "8.8.8.8")),
		dr("ua", dp("ip", true, "8.8.8.8")),
		dr("reject", dk("ip", false, "geoip", "tiny")),
		dr("reject", dk("ip", true, "geoip", "tiny")),
		dr("accept", dq(false, "suffix", "b.org")),
		dr("reject", dp("qtype", true, "a")),
		// beyond the core
		dr("reject", dp("ip", false, "2001:db8::/32", "10.0.0.0/8")),
		dr("ua", dp("ip", false, "10.0.0.0/8", "10.1.2.3", "10.0.0.0/8")),
		dr("ua", ref.Cond{Fn: "ip", Params: []ref.Param{{Key: "geoip", Val: "tiny"}, {Val: "8.8.8.8"}}}),
		dr("reject", dk("ip", false, "ext", "c04ip:tiny")),
		dr("reject", dp("upstream", false, "ub", "ua")),
		dr("accept", dp("upstream", false, "ua", "ua")),
		dr("reject", dp("qtype", true, "aaaa")),
		dr("accept", dq(true, "suffix", "b.org")),
		dr("accept", dq(true, "full", "a.com")),
		dr("reject", dp("upstream", false, "ua"), dp("ip", false, "8.8.8.8")),
		dr("ua", dp("ip", false, "10.0.0.0/8"), dq(true, "suffix", "b.org")),
		dr("accept", dp("qtype", false, "aaaa"), dq(false, "geosite", "tiny")),
		// conditions whose value list is empty after expansion
		dr("reject", dk("ip", false, "geoip", "empty")),
		dr("reject", dk("ip", true, "geoip", "empty")),
		dr("reject", dp("upstream", false, "ua"), dk("ip", false, "geoip", "empty")),
		dr("reject", dp("ip", false, "8.8.8.8"), dk("ip", false, "geoip", "empty")),
		dr("reject", dp("upstream", false, "ub"), dk("ip", true, "geoip", "empty")),
		// the same value in two conditions of one rule
		dr("reject", dp("ip", false, "10.0.0.0/8", "8.8.8.8"), dp("ip", true, "8.8.8.8")),
	}
}

var reqNames = []string{
	"a.com", "A.cOm.", "www.a.com", "x.net", "b.org", "W.B.oRg.", "ab.org", "goo.net", "yes.io",
	"tiny.org", "www.tiny.org", "xtiny.org", "www.test.org", "atinykb.net", "ext.example.com", "zzz.example", ".",
}
var reqQtypes = []uint16{1, 28, 65}

func requestInputs() []ref.Input {
	var in []ref.Input
	for _, n := range reqNames {
		for _, t := range reqQtypes {
			in = append(in, ref.Input{Name: n, Qtype: t})
		}
	}
	return in
}

var answerPool = []ref.RR{
	{Kind: "A", Addr: netip.MustParseAddr("10.1.2.3")},         // inside 10.0.0.0/8
	{Kind: "A", Addr: netip.MustParseAddr("8.8.8.8")},          // the host value
	{Kind: "A", Addr: netip.MustParseAddr("10.7.1.1")},         // geoip:tiny (and 10.0.0.0/8)
	{Kind: "AAAA", Addr: netip.MustParseAddr("2001:db8:7::5")}, // geoip:tiny v6 (and 2001:db8::/32)
	{Kind: "A", Addr: netip.MustParseAddr("10.8.0.9")},         // ext c04ip:tiny (and 10.0.0.0/8)
	{Kind: "A", Addr: netip.MustParseAddr("203.0.113.5")},      // geoip:last only — in no rule
}

// (name, qtype) of the answered question
var respQuestions = []struct {
	name  string
	qtype uint16
}{{"a.com.", 1}, {"W.B.oRg.", 28}, {"www.tiny.org.", 28}, {"a.com.", 28}}
var respFroms = []string{"ub", "ua", "asis"}

type respInput struct {
	ref.Input
	msg  *dnsmessage.Msg
	from int
	ips  []netip.Addr
}

func mkMsg(name string, qtype uint16, ans []ref.RR) *dnsmessage.Msg {
	m := new(dnsmessage.Msg)
	m.Id = 0x1234
	m.Response = true
	m.RecursionAvailable = true
	m.Question = []dnsmessage.Question{{Name: name, Qtype: qtype, Qclass: dnsmessage.ClassINET}}
	for _, a := range ans {
		switch a.Kind {
		case "A":
			m.Answer = append(m.Answer, &dnsmessage.A{Hdr: dnsmessage.RR_Header{Name: name, Rrtype: dnsmessage.TypeA, Class: dnsmessage.ClassINET, Ttl: 300}, A: net.IP(a.Addr.AsSlice())})
		case "AAAA":
			m.Answer = append(m.Answer, &dnsmessage.AAAA{Hdr: dnsmessage.RR_Header{Name: name, Rrtype: dnsmessage.TypeAAAA, Class: dnsmessage.ClassINET, Ttl: 300}, AAAA: net.IP(a.Addr.AsSlice())})
		}
	}
	return m
}

// responseInputs: every question of respQuestions x every answer section with at most two records of the
// pool (enough to tell "some address matches" from "every address matches") x every answering upstream.
func responseInputs() []respInput {
	var out []respInput
	for _, q := range respQuestions {
		for sub := 0; sub < 1<<len(answerPool); sub++ {
			var ans []ref.RR
			var ips []netip.Addr
			for b := range answerPool {
				if sub>>b&1 == 1 {
					ans = append(ans, answerPool[b])
					ips = append(ips, answerPool[b].Addr)
				}
			}
			if len(ans) > 2 {
				continue
			}
			for fi, f := range respFroms {
				out = append(out, respInput{Input: ref.Input{Name: q.name, Qtype: q.qtype, Answers: ans, From: f}, msg: mkMsg(q.name, q.qtype, ans), from: fi, ips: ips})
			}
		}
	}
	return out
}

// ---------------------------------------------------------------------------------------------------

// dnsSym is one alphabet symbol with everything that is computed once for it.
type dnsSym struct {
	rule     ref.Rule // as written
	exp      ref.Rule // geodata references replaced by the listed values
	expanded bool
	text     string
	etext    string
	mask     *ref.RuleMask // reference truth of the (expanded) rule on every input of the pipeline's input list
	// hasEmpty: some condition has an empty value list after expansion (the reference takes it literally: no value
	// matches, so f() never holds and !f() always holds); unconditional: every condition is such a negation
	hasEmpty, unconditional bool
}

func expandDNSRule(r ref.Rule) (ref.Rule, bool) {
	any := false
	out := ref.Rule{Out: r.Out}
	for _, c := range r.Conds {
		in := make([]kv, len(c.Params))
		for i, p := range c.Params {
			in[i] = kv{p.Key, p.Val}
		}
		ex, did := expandGeo(c.Fn == "qname", in)
		any = any || did
		nc := ref.Cond{Fn: c.Fn, Not: c.Not}
		for _, x := range ex {
			nc.Params = append(nc.Params, ref.Param{Key: x.Key, Val: x.Val})
		}
		out.Conds = append(out.Conds, nc)
	}
	return out, any
}

func mkSyms(alpha []ref.Rule, inputs []ref.Input) []*dnsSym {
	var out []*dnsSym
	for _, r := range alpha {
		s := &dnsSym{rule: r, text: r.Text()}
		s.exp, s.expanded = expandDNSRule(r)
		s.etext = s.exp.Text()
		s.unconditional = true
		for _, c := range s.exp.Conds {
			if len(c.Params) == 0 {
				s.hasEmpty = true
			}
			if len(c.Params) != 0 || !c.Not {
				s.unconditional = false
			}
		}
		s.mask = ref.MaskRule(s.exp, inputs)
		out = append(out, s)
	}
	return out
}

type dnsPipe struct {
	name                                                    string
	lists, evals, changed, nontrivial, merged, deduped, geo *atomic.Int64
	byRule, negMergeable, emptyExp, rejected                *atomic.Int64
	outcomes                                                hist
}

func newDNSPipe(r *vlib.Run, name string) *dnsPipe {
	p := name + "_"
	return &dnsPipe{name: name, lists: r.Counter(p + "lists"), evals: r.Counter(p + "decisions"), changed: r.Counter(p + "lists_changed_by_optimizers"),
		nontrivial: r.Counter(p + "decisions_on_changed_lists"), merged: r.Counter(p + "lists_with_merged_rules"), deduped: r.Counter(p + "lists_with_removed_values"),
		geo: r.Counter(p + "lists_with_geodata"), byRule: r.Counter(p + "decisions_by_a_rule"),
		negMergeable: r.Counter(p + "lists_with_adjacent_negated_same_function_same_outbound"),
		emptyExp:     r.Counter(p + "lists_with_empty_expansion"), rejected: r.Counter(p + "lists_rejected_unconditional_after_expansion")}
}

type dnsLeg struct {
	r      *vlib.Run
	f      *findings
	finder *assets.LocationFinder

	reqIn   []ref.Input
	respIn  []respInput
	respRef []ref.Input
	req     []*dnsSym
	resp    []*dnsSym

	pReq, pResp, pRouter *dnsPipe
	name2id              map[string]uint8
}

func newDNSLeg(r *vlib.Run, f *findings, finder *assets.LocationFinder) *dnsLeg {
	d := &dnsLeg{r: r, f: f, finder: finder}
	d.reqIn = requestInputs()
	d.respIn = responseInputs()
	d.respRef = make([]ref.Input, len(d.respIn))
	for i := range d.respIn {
		d.respRef[i] = d.respIn[i].Input
	}
	d.req = mkSyms(requestAlphabet(), d.reqIn)
	d.resp = mkSyms(responseAlphabet(), d.respRef)
	d.pReq, d.pResp, d.pRouter = newDNSPipe(r, "dnsreq"), newDNSPipe(r, "dnsresp"), newDNSPipe(r, "daedns")
	d.name2id = map[string]uint8{}
	for i, t := range upTags {
		d.name2id[t] = uint8(i)
	}
	r.Set("dnsreq_inputs", len(d.reqIn))
	r.Set("dnsresp_inputs", len(d.respIn))
	return d
}

func tagOfUpstream(u *dns.Upstream) string {
	if u == nil {
		return "<nil>"
	}
	s := u.String()
	for i, url := range upURLs {
		if s == url {
			return upTags[i]
		}
	}
	return "<unknown " + s + ">"
}

func reqOutcome(idx consts.DnsRequestOutboundIndex, u *dns.Upstream, err error) string {
	if err != nil {
		return "error: " + err.Error()
	}
	switch idx {
	case consts.DnsRequestOutboundIndex_AsIs:
		if u != nil {
			return "asis+upstream?"
		}
		return "asis"
	case consts.DnsRequestOutboundIndex_Reject:
		if u != nil {
			return "reject+upstream?"
		}
		return "reject"
	}
	t := tagOfUpstream(u)
	for i, tg := range upTags {
		if tg == t && int(idx) != i {
			return fmt.Sprintf("%s(index %d?)", t, idx)
		}
	}
	return t
}

func reqIndexName(idx consts.DnsRequestOutboundIndex, err error) string {
	if err != nil {
		return "error: " + err.Error()
	}
	switch idx {
	case consts.DnsRequestOutboundIndex_AsIs:
		return "asis"
	case consts.DnsRequestOutboundIndex_Reject:
		return "reject"
	}
	if int(idx) < len(upTags) {
		return upTags[idx]
	}
	return fmt.Sprintf("#%d", idx)
}

func respOutcome(idx consts.DnsResponseOutboundIndex, u *dns.Upstream, err error) string {
	if err != nil {
		return "error: " + err.Error()
	}
	switch idx {
	case consts.DnsResponseOutboundIndex_Accept:
		if u != nil {
			return "accept+upstream?"
		}
		return "accept"
	case consts.DnsResponseOutboundIndex_Reject:
		if u != nil {
			return "reject+upstream?"
		}
		return "reject"
	}
	t := tagOfUpstream(u)
	for i, tg := range upTags {
		if tg == t && int(idx) != i {
			return fmt.Sprintf("%s(index %d?)", t, idx)
		}
	}
	return t
}

func respIndexName(idx consts.DnsResponseOutboundIndex, err error) string {
	if err != nil {
		return "error: " + err.Error()
	}
	switch idx {
	case consts.DnsResponseOutboundIndex_Accept:
		return "accept"
	case consts.DnsResponseOutboundIndex_Reject:
		return "reject"
	}
	if int(idx) < len(upTags) {
		return upTags[idx]
	}
	return fmt.Sprintf("#%d", idx)
}

// dnsChain mirrors component/dns/dns.go and component/daedns/router.go; it is used ONLY to see what the
// production chain turned the list into (classification "changed by the optimizers" and the "lowered=" part of
// a signature). The decisions come from dns.New / daedns.NewWithOption themselves.
func (d *dnsLeg) dnsChain() []routing.RulesOptimizer {
	return []routing.RulesOptimizer{
		&routing.DatReaderOptimizer{Logger: quietLogger(), LocationFinder: d.finder},
		&routing.MergeAndSortRulesOptimizer{},
		&routing.DeduplicateParamsOptimizer{},
	}
}

type dnsDetail struct {
	Pipeline  string       `json:"pipeline"`
	Leg       string       `json:"leg"`
	Diag      string       `json:"diag"`
	Program   *ref.Program `json:"program_as_written"`
	Config    string       `json:"config"`
	Input     ref.Input    `json:"input"`
	InputText string       `json:"input_text"`
	Want      string       `json:"want"`
	Got       string       `json:"got"`
	HitRule   int          `json:"reference_hit_rule"`
	Written   string       `json:"rules_as_written"`
	Optimised string       `json:"rules_actually_lowered"`
}

type dnsList struct {
	syms                    []*dnsSym
	masks                   []*ref.RuleMask
	prog                    *ref.Program // as written
	exp                     *ref.Program // expanded
	expanded                bool
	texts                   []string
	etexts                  []string
	hasEmpty, unconditional bool
}

func mkList(syms []*dnsSym, idx []int, fallback string) *dnsList {
	l := &dnsList{prog: &ref.Program{Fallback: fallback}, exp: &ref.Program{Fallback: fallback}}
	for _, k := range idx {
		s := syms[k]
		l.syms = append(l.syms, s)
		l.masks = append(l.masks, s.mask)
		l.prog.Rules = append(l.prog.Rules, s.rule)
		l.exp.Rules = append(l.exp.Rules, s.exp)
		l.texts = append(l.texts, s.text)
		l.etexts = append(l.etexts, s.etext)
		l.expanded = l.expanded || s.expanded
		l.hasEmpty = l.hasEmpty || s.hasEmpty
		l.unconditional = l.unconditional || s.unconditional
	}
	return l
}

func dnsShape(p *ref.Program) string {
	seen := map[string]bool{}
	var ks []string
	for _, r := range p.Rules {
		var cs []string
		for _, c := range r.Conds {
			n := ""
			if c.Not {
				n = "!"
			}
			geo := ""
			for _, x := range c.Params {
				if x.Key == "geosite" || x.Key == "geoip" || x.Key == "ext" {
					geo = "@geo"
				}
			}
			cs = append(cs, n+c.Fn+geo)
		}
		k := strings.Join(cs, "&")
		if !seen[k] {
			seen[k] = true
			ks = append(ks, k)
		}
	}
	return strings.Join(ks, ",")
}

// mismatch bookkeeping of one list
type listMism struct {
	first map[string]*finding
	n     map[string]int64
}

func (m *listMism) note(pipeline, leg string, l *dnsList, ord, idx int, config, lowered string, in *ref.Input, want string, by int, got string, routerGot bool) {
	diag := "other"
	if leg == "optimised" && strings.Count(lowered, " ; ") < len(l.prog.Rules)-1 { // only when rules really were fused
		if mp, ch := ref.MergedNegated(l.exp); ch {
			o, _ := ref.Decide(mp, in)
			if o == got || (routerGot && (o == "asis" || o == "reject") && got == "passthrough") {
				diag = "merge-negated"
			}
		}
	}
	cls := pipeline + "|" + leg + "|" + diag
	if diag == "other" {
		cls += "|" + dnsShape(l.prog)
	}
	if m.first == nil {
		m.first, m.n = map[string]*finding{}, map[string]int64{}
	}
	m.n[cls]++
	if m.first[cls] != nil {
		return
	}
	m.first[cls] = &finding{class: cls, length: len(l.prog.Rules), space: ord, index: idx,
		sig: fmt.Sprintf("pipeline=%s leg=%s diag=%s list=[%s] lowered=[%s] input=%s want=%s got=%s", pipeline, leg, diag, l.prog.Text(), lowered, in.String(), want, got),
		detail: dnsDetail{Pipeline: pipeline, Leg: leg, Diag: diag, Program: l.prog, Config: config, Input: *in, InputText: in.String(), Want: want, Got: got, HitRule: by,
			Written: strings.Join(l.texts, " ; "), Optimised: lowered}}
}

func (m *listMism) flush(f *findings) {
	for k, x := range m.first {
		f.add(x, m.n[k])
	}
}

func (d *dnsLeg) buildErr(pipeline string, ord, idx int, l *dnsList, config, what string) {
	cls := "build-error"
	if strings.Contains(what, "panic") {
		cls = "build-panic"
	}
	n := 0
	text := ""
	if l != nil {
		n, text = len(l.prog.Rules), l.prog.Text()
	}
	d.f.add(&finding{class: pipeline + "|build|" + cls, length: n, space: ord, index: idx,
		sig:    fmt.Sprintf("pipeline=%s %s list=[%s]", pipeline, what, text),
		detail: map[string]any{"pipeline": pipeline, "config": config, "error": what}}, 1)
}

// classify records how the production chain changed the list (coverage only).
func (d *dnsLeg) classify(p *dnsPipe, l *dnsList, written []*config_parser.RoutingRule, lowered []*config_parser.RoutingRule, nIn int, nRule int64) (loweredText string, changed bool) {
	loweredText = renderRules(lowered)
	wText := renderRules(written)
	changed = loweredText != wText
	p.lists.Add(1)
	if changed {
		p.changed.Add(1)
		p.nontrivial.Add(int64(nIn))
	}
	if l.expanded {
		p.geo.Add(1)
	}
	if l.hasEmpty {
		p.emptyExp.Add(1)
	}
	if len(lowered) < len(written) {
		p.merged.Add(1)
	}
	if !l.expanded && countParams(lowered) < countParams(written) {
		p.deduped.Add(1)
	}
	if _, ch := ref.MergedNegated(l.exp); ch {
		p.negMergeable.Add(1)
	}
	p.evals.Add(int64(nIn))
	p.byRule.Add(nRule)
	return
}

func (d *dnsLeg) one(ord, i int, reqIdx, respIdx []int, viaText bool, withRouter bool) {
	ctx := context.Background()
	log := quietLogger()
	var rl, pl *dnsList
	var rTexts, pTexts []string
	if reqIdx != nil {
		rl = mkList(d.req, reqIdx, reqFallback)
		rTexts = rl.texts
	}
	if respIdx != nil {
		pl = mkList(d.resp, respIdx, respFallback)
		pTexts = pl.texts
	}
	block := func(ts []string, fb string) string {
		var b strings.Builder
		for _, t := range ts {
			b.WriteString("      " + t + "\n")
		}
		b.WriteString("      fallback: " + fb + "\n")
		return b.String()
	}
	var text string
	var conf *config.Config
	var dd *dns.Dns
	var err error
	for {
		text = dnsConfText(block(rTexts, reqFallback), block(pTexts, respFallback))
		conf, dd, err = nil, nil, nil
		pk, msg := vlib.Try(func() {
			var secs []*config_parser.Section
			if viaText {
				if secs, err = config_parser.Parse(text); err != nil {
					return
				}
			} else {
				secs = dnsSections(rTexts, reqFallback, pTexts, respFallback)
			}
			if conf, err = config.New(secs); err != nil {
				return
			}
			dd, err = dns.New(&conf.Dns, &dns.NewOption{Logger: log, LocationFinder: d.finder,
				UpstreamReadyCallback: func(*dns.Upstream) error { return nil }, UpstreamResolverNetwork: "udp"})
		})
		if pk {
			d.buildErr("dns", ord, i, firstList(rl, pl), text, "leg=optimised build panic at "+vlib.PanicSite(msg)+" response=["+strings.Join(pTexts, " ; ")+"]")
			return
		}
		if err == nil {
			break
		}
		// a rule that holds for every input after expansion (all its conditions are negations of empty lists) may
		// be refused with an explicit configuration error: then no program is compiled for that list; the
		// partner list of the document is still evaluated
		if rl != nil && rl.unconditional {
			d.pReq.rejected.Add(1)
			d.pReq.lists.Add(1)
			rl, rTexts = nil, nil
			continue
		}
		if pl != nil && pl.unconditional {
			d.pResp.rejected.Add(1)
			d.pResp.lists.Add(1)
			pl, pTexts = nil, nil
			continue
		}
		d.buildErr("dns", ord, i, firstList(rl, pl), text, "leg=optimised build error: "+err.Error()+" response=["+strings.Join(pTexts, " ; ")+"]")
		return
	}

	// ---------------- request ----------------
	if rl != nil {
		written := conf.Dns.Routing.Request.Rules
		var lowered []*config_parser.RoutingRule
		if prog, e := dns.NewNormalizedRequestRoutingProgram(written, conf.Dns.Routing.Request.Fallback, d.dnsChain()...); e == nil {
			lowered = prog.Rules
		}
		loweredText := renderRules(lowered)
		needBase := !rl.hasEmpty && (viaText || rl.expanded || loweredText != renderRules(written)) // an empty value list cannot be written as text
		var base *dns.RequestMatcher
		if needBase {
			if pk, msg := vlib.Try(func() {
				var b *dns.RequestMatcherBuilder
				if b, err = dns.NewRequestMatcherBuilder(log, rulesAST("request", rl.etexts), d.name2id, conf.Dns.Routing.Request.Fallback); err == nil {
					base, err = b.Build()
				}
			}); pk {
				d.buildErr("dns-request", ord, i, rl, text, "leg=unoptimised build panic at "+vlib.PanicSite(msg))
				base = nil
			} else if err != nil {
				d.buildErr("dns-request", ord, i, rl, text, "leg=unoptimised build error: "+err.Error())
				base = nil
			}
		}
		var rt *daedns.Router
		if withRouter {
			if pk, msg := vlib.Try(func() {
				rt, err = daedns.NewWithOption(log, &conf.Global, &conf.Dns, &daedns.NewOption{LocationFinder: d.finder})
			}); pk {
				d.buildErr("daedns-router", ord, i, rl, text, "build panic at "+vlib.PanicSite(msg))
				rt = nil
			} else if err != nil || rt == nil {
				d.buildErr("daedns-router", ord, i, rl, text, fmt.Sprintf("build error: %v (router nil=%v)", err, rt == nil))
				rt = nil
			}
		}
		var mm listMism
		local := map[string]int64{}
		var nRule, nRouter, nRouterRule int64
		for k := range d.reqIn {
			in := &d.reqIn[k]
			want, by := ref.DecideMask(rl.masks, reqFallback, k)
			local[want]++
			if by >= 0 {
				nRule++
			}
			got := ""
			if pk, msg := vlib.Try(func() { got = reqOutcome(dd.RequestSelect(ctx, in.Name, in.Qtype)) }); pk {
				got = "panic at " + vlib.PanicSite(msg)
			}
			if got != want {
				mm.note("dns-request", "optimised", rl, ord, i, text, loweredText, in, want, by, got, false)
			}
			if base != nil {
				if pk, msg := vlib.Try(func() { got = reqIndexName(base.Match(in.Name, in.Qtype)) }); pk {
					got = "panic at " + vlib.PanicSite(msg)
				}
				if got != want {
					mm.note("dns-request", "unoptimised", rl, ord, i, text, loweredText, in, want, by, got, false)
				}
			}
			if rt != nil && in.Name != "." {
				wantS := want
				if want == "asis" || want == "reject" {
					wantS = "passthrough" // both hand dae's own lookup to the base resolver
				}
				nRouter++
				if by >= 0 {
					nRouterRule++
				}
				if got = routerOutcome(rt, in); got != wantS {
					mm.note("daedns-router", "optimised", rl, ord, i, text, loweredText, in, wantS, by, got, true)
				}
			}
		}
		mm.flush(d.f)
		_, changed := d.classify(d.pReq, rl, written, lowered, len(d.reqIn), nRule)
		d.pReq.outcomes.add(local)
		if rt != nil {
			d.classify(d.pRouter, rl, written, lowered, int(nRouter), nRouterRule)
		}
		if _ = changed; (ord == 1 && i == 1) || (ord == 2 && i == 13) { // fixed positions
			in := d.reqIn[(i/7)%len(d.reqIn)]
			w, by := ref.Decide(rl.exp, &in)
			d.r.Sample(map[string]any{"pipeline": "dns-request", "list_as_written": rl.prog.Text(), "lowered": loweredText, "question": in.String(), "expected": w, "by_rule": by})
		}
	}

	// ---------------- response ----------------
	if pl != nil {
		written := conf.Dns.Routing.Response.Rules
		var lowered []*config_parser.RoutingRule
		if prog, e := routing.NewNormalizedProgram(written, conf.Dns.Routing.Response.Fallback, d.dnsChain()...); e == nil {
			lowered = prog.Rules
		}
		loweredText := renderRules(lowered)
		needBase := !pl.hasEmpty && (viaText || pl.expanded || loweredText != renderRules(written))
		var base *dns.ResponseMatcher
		if needBase {
			if pk, msg := vlib.Try(func() {
				var b *dns.ResponseMatcherBuilder
				if b, err = dns.NewResponseMatcherBuilder(log, rulesAST("response", pl.etexts), d.name2id, conf.Dns.Routing.Response.Fallback); err == nil {
					base, err = b.Build()
				}
			}); pk {
				d.buildErr("dns-response", ord, i, pl, text, "leg=unoptimised build panic at "+vlib.PanicSite(msg))
				base = nil
			} else if err != nil {
				d.buildErr("dns-response", ord, i, pl, text, "leg=unoptimised build error: "+err.Error())
				base = nil
			}
		}
		ups := make([]*dns.Upstream, len(respFroms))
		fromIdx := make([]consts.DnsRequestOutboundIndex, len(respFroms))
		for fi, fr := range respFroms {
			if fr == "asis" {
				fromIdx[fi] = consts.DnsRequestOutboundIndex_AsIs
				continue
			}
			for ui, tg := range upTags {
				if tg == fr {
					u, e := dd.VerifUpstream(ui)
					if e != nil || tagOfUpstream(u) != fr {
						fmt.Fprintf(os.Stderr, "C04: harness: cannot obtain upstream %s: %v %v\n", fr, tagOfUpstream(u), e)
						os.Exit(2)
					}
					ups[fi] = u
					fromIdx[fi] = consts.DnsRequestOutboundIndex(ui)
				}
			}
		}
		var mm listMism
		local := map[string]int64{}
		var nRule int64
		for k := range d.respIn {
			in := &d.respIn[k]
			want, by := ref.DecideMask(pl.masks, respFallback, k)
			local[want]++
			if by >= 0 {
				nRule++
			}
			got := ""
			if pk, msg := vlib.Try(func() { got = respOutcome(dd.ResponseSelect(ctx, in.msg, ups[in.from])) }); pk {
				got = "panic at " + vlib.PanicSite(msg)
			}
			if got != want {
				mm.note("dns-response", "optimised", pl, ord, i, text, loweredText, &in.Input, want, by, got, false)
			}
			if base != nil {
				if pk, msg := vlib.Try(func() { got = respIndexName(base.Match(in.Name, in.Qtype, in.ips, fromIdx[in.from])) }); pk {
					got = "panic at " + vlib.PanicSite(msg)
				}
				if got != want {
					mm.note("dns-response", "unoptimised", pl, ord, i, text, loweredText, &in.Input, want, by, got, false)
				}
			}
		}
		mm.flush(d.f)
		_, changed := d.classify(d.pResp, pl, written, lowered, len(d.respIn), nRule)
		d.pResp.outcomes.add(local)
		if _ = changed; (ord == 1 && i == 1) || (ord == 2 && i == 10) { // fixed positions
			in := d.respRef[(i/5)%len(d.respRef)]
			w, by := ref.Decide(pl.exp, &in)
			d.r.Sample(map[string]any{"pipeline": "dns-response", "list_as_written": pl.prog.Text(), "lowered": loweredText, "input": in.String(), "expected": w, "by_rule": by})
		}
	}
}

func firstList(a, b *dnsList) *dnsList {
	if a != nil {
		return a
	}
	return b
}

func routerOutcome(rt *daedns.Router, in *ref.Input) string {
	got := ""
	if pk, msg := vlib.Try(func() {
		u, pass, e := rt.VerifSelect(in.Name, in.Qtype)
		switch {
		case e != nil:
			got = "error: " + e.Error()
		case pass:
			got = "passthrough"
		default:
			got = "<unknown " + u + ">"
			for j, url := range upURLs {
				if u == url {
					got = upTags[j]
				}
			}
		}
	}); pk {
		got = "panic at " + vlib.PanicSite(msg)
	}
	return got
}

// runSpace: request list #i and response list #i of the same length range travel in one document.
func (d *dnsLeg) runSpace(ord int, name string, nReq, nResp, minLen, maxLen int, viaText, withRouter bool, deadline func() bool) {
	rs := &seqSpace{name: name, n: nReq, minLen: minLen, maxLen: maxLen}
	ps := &seqSpace{name: name, n: nResp, minLen: minLen, maxLen: maxLen}
	cr, cp := rs.count(), ps.count()
	n := max(cr, cp)
	l0, m0 := d.pReq.lists.Load(), d.pResp.lists.Load()
	d.r.ParallelFor(n, func(i int) {
		if deadline() {
			d.r.CapHit("internal time budget reached inside dns space " + name)
			return
		}
		var a, b []int
		if i < cr {
			a = rs.decode(i)
		}
		if i < cp {
			b = ps.decode(i)
		}
		d.one(ord, i, a, b, viaText, withRouter)
	})
	fmt.Printf("C04: dns space %-10s alphabets=%d/%d len=%d..%d request lists=%d response lists=%d t=%.0fs\n", name, nReq, nResp, minLen, maxLen,
		d.pReq.lists.Load()-l0, d.pResp.lists.Load()-m0, d.r.Elapsed().Seconds())
}
