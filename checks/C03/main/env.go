package main

// The environment of one exploration: a kdrv process with PARAM, sockets, listeners, health bits, the cookie->pid table
// and a rule program loaded the way the control plane loads them (every byte from the repo's own encoders).

import (
	"encoding/binary"
	"fmt"
	"net/netip"
	"strings"

	"github.com/daeuniverse/dae/common/consts"
	"github.com/daeuniverse/dae/component/routing"
	"github.com/daeuniverse/dae/control"
	"github.com/daeuniverse/dae/verifx/vkern"
)

const (
	daeIfindex    = 77
	peerIfindex   = 78
	lanIfindex    = 3
	wanIfindex    = 2
	daeNetns      = 9
	controlPid    = 4242
	appPid        = 555
	daeMark       = 0x2000 // a configured so_mark_from_dae
	cookieApp     = 1001
	cookieDae     = 1002
	baseTimeNs    = 1000 * 1000000000
	sockTCP4      = 1
	sockUDP       = 2
	sockTCP6      = 3
	sockLocalUDP4 = 4
	sockLocalUDP6 = 5
	localSvcPort  = 5353
	groupG1       = 2 // consts.OutboundUserDefinedMin
	groupG2       = 3
	learnedDomain = "www.d.example"
)

var (
	macClient = [6]byte{0x02, 0xaa, 0xbb, 0xcc, 0xdd, 0x01}
	macRouter = [6]byte{0x02, 0x11, 0x22, 0x33, 0x44, 0x55}
	macHost   = [6]byte{0x02, 0x66, 0x77, 0x88, 0x99, 0x0a}
	macGw     = [6]byte{0x02, 0x0b, 0x0c, 0x0d, 0x0e, 0x0f}
	macPeer   = [6]byte{0x06, 0x5e, 0x00, 0x77, 0x88, 0x99}
	appComm   = [16]byte{'c', 'u', 'r', 'l'}
	daeComm   = [16]byte{'d', 'a', 'e'}
)

// rule programs (group ids: g1 = 2, g2 = 3). Every program has a domain rule on d.example deciding differently from its
// fallback, so that "the control plane learns a domain for the destination address" changes the decision of a flow.
type ruleProgram struct {
	name string
	text string
	hi   uint8 // id of the high-numbered group the program routes to (0: none)
	v    *control.VerifRouting
	kern [][]byte
}

// Outbound ids are positional (consts.OutboundUserDefinedMin + index in the group list): the list is filled up so that
// the groups h43, h45 and h251 get exactly those ids (the connectivity map has 6 slots per outbound id, 0..255).
var highGroups = []uint8{43, 45, 251}

func groupName(id uint8) string {
	switch id {
	case groupG1:
		return "g1"
	case groupG2:
		return "g2"
	}
	for _, h := range highGroups {
		if id == h {
			return fmt.Sprintf("h%d", h)
		}
	}
	return fmt.Sprintf("f%d", id)
}

func allGroups() []string {
	var g []string
	for id := int(consts.OutboundUserDefinedMin); id <= int(consts.OutboundUserDefinedMax); id++ {
		g = append(g, groupName(uint8(id)))
	}
	return g
}

func confText(body string) string {
	var b strings.Builder
	b.WriteString("global{}\ngroup{\n")
	for _, g := range allGroups() {
		b.WriteString(" " + g + "{policy:min}\n")
	}
	b.WriteString("}\nrouting{\n" + body + "\n}\n")
	return b.String()
}

var programTexts = []struct {
	name, body string
	hi         uint8
}{
	{"direct", "domain(suffix: d.example) -> g1\nfallback: direct", 0},
	{"proxy", "domain(suffix: d.example) -> g2\nfallback: g1", 0},
	{"block", "domain(suffix: d.example) -> direct\nfallback: block", 0},
	{"dmark", "domain(suffix: d.example) -> block\nfallback: direct(mark: 0x800)", 0},
	{"pmust", "domain(suffix: d.example) -> direct\nfallback: g1(must)", 0},
	{"mustrules", "l4proto(udp) -> must_rules\ndomain(suffix: d.example) -> g1\nfallback: direct", 0},
	{"pmark", "pname(curl) -> g2(mark: 0x66)\ndomain(suffix: d.example) -> block\nfallback: g1(mark: 0x55)", 0},
	// proxy groups with high outbound ids (the health-bit slot of id o is o*6+domain*2+family: beyond 255 from id 43 on)
	{"hi43", "domain(suffix: d.example) -> g1\nfallback: h43", 43},
	{"hi45", "domain(suffix: d.example) -> direct\nfallback: h45", 45},
	{"hi251", "domain(suffix: d.example) -> g1\nfallback: h251(mark: 0x251)", 251},
}

func compilePrograms() ([]*ruleProgram, error) {
	var out []*ruleProgram
	for _, p := range programTexts {
		v, err := control.VerifCompileRouting(confText(p.body), allGroups(), []routing.RulesOptimizer{&routing.AliasOptimizer{}})
		if err != nil {
			return nil, fmt.Errorf("program %q: %w", p.name, err)
		}
		if len(v.LpmSets()) != 0 {
			return nil, fmt.Errorf("program %q unexpectedly needs LPM tries", p.name)
		}
		if v.Name2Id["g1"] != groupG1 || v.Name2Id["g2"] != groupG2 {
			return nil, fmt.Errorf("group ids changed: %v", v.Name2Id)
		}
		if p.hi != 0 && v.Name2Id[groupName(p.hi)] != p.hi {
			return nil, fmt.Errorf("group %s did not get id %d: %v", groupName(p.hi), p.hi, v.Name2Id[groupName(p.hi)])
		}
		out = append(out, &ruleProgram{name: p.name, text: p.body, hi: p.hi, v: v, kern: v.KernRuleBytes()})
	}
	return out, nil
}

func progIndex(ps []*ruleProgram, name string) int {
	for i, p := range ps {
		if p.name == name {
			return i
		}
	}
	panic("no program " + name)
}

func le32(v uint32) []byte { return binary.LittleEndian.AppendUint32(nil, v) }
func le64(v uint64) []byte { return binary.LittleEndian.AppendUint64(nil, v) }

type addrSet struct {
	client, host, remote, wanPeer, gw netip.Addr
}

func addrsFor(v6 bool) addrSet {
	if v6 {
		return addrSet{client: netip.MustParseAddr("fd00:1::10"), host: netip.MustParseAddr("2001:db8:1::2"), remote: netip.MustParseAddr("2001:db8:2::34"),
			wanPeer: netip.MustParseAddr("2001:db8:3::7"), gw: netip.MustParseAddr("fd00:1::1")}
	}
	return addrSet{client: netip.MustParseAddr("192.168.1.10"), host: netip.MustParseAddr("203.0.113.2"), remote: netip.MustParseAddr("93.184.216.34"),
		wanPeer: netip.MustParseAddr("198.51.100.7"), gw: netip.MustParseAddr("192.168.1.1")}
}

type kenv struct {
	k     *kc
	mir   *control.VerifC03Mirror // the control plane's view: real BPF maps + the real RetrieveRoutingResult
	progs []*ruleProgram
	base  uint32 // snapshot: boot state of the scenario
}

// loadProgram writes routing_map + routing_meta_map as buildRoutingKernspace does (entries 0..n-1, then the length).
func (s *script) loadProgram(p *ruleProgram) {
	keys := make([][]byte, len(p.kern))
	for i := range keys {
		keys[i] = le32(uint32(i))
	}
	s.mapUpdate("routing_map", keys, p.kern)
	s.mapUpdate("routing_meta_map", [][]byte{le32(0)}, [][]byte{le32(uint32(len(p.kern)))})
}

// setDomain writes (learned=true) or removes the domain_routing_map entry of the remote address for the program.
func (s *script) setDomain(p *ruleProgram, remote netip.Addr, learned bool) {
	keys, val, nonzero, err := control.VerifC03DomainRouting(p.v, learnedDomain, []netip.Addr{remote})
	if err != nil {
		broken("domain routing snapshot: %v", err)
	}
	if learned && nonzero {
		s.mapUpdate("domain_routing_map", [][]byte{keys[0]}, [][]byte{val})
		return
	}
	s.mapDelete("domain_routing_map", keys[0])
}

func (s *script) setAlive(outbound uint8, udp, v6 bool, alive bool) {
	v := uint32(0)
	if alive {
		v = 1
	}
	s.mapUpdate("outbound_connectivity_map", [][]byte{control.VerifC03ConnectivityKey(outbound, udp, v6)}, [][]byte{le32(v)})
}

// boot brings kdrv into the scenario's initial state and snapshots it.
func (e *kenv) boot(sc *scenario) {
	var s script
	if e.base != 0 {
		s.snapFree(e.base)
		e.base = 0
	}
	s.reset()
	peer := uint8(0)
	if sc.redirectPeer {
		peer = 1
	}
	s.setParam(control.VerifC03Param(uint32(common16(12345)), controlPid, daeIfindex, daeNetns, macPeer, peer, 0, daeMark), func(msg string) {
		broken("PARAM bytes of the Go mirror struct bpfDaeParam are not accepted by the C program: %s", msg)
	})
	s.setKnobs(vkern.PullKernel)
	var gw4, gw6 [16]byte
	g4 := addrsFor(false).gw.As4()
	copy(gw4[:], g4[:])
	gw6 = addrsFor(true).gw.As16()
	s.setSocks([]vkern.Sock{
		{ID: sockTCP4, Family: 2, Proto: ipTCP, State: vkern.TCPListen, Flags: vkern.SockLocalWildcard | vkern.SockUnconnected, LPort: 12345, Mark: daeMark, Netns: daeNetns},
		{ID: sockUDP, Family: 10, Proto: ipUDP, State: 7, Flags: vkern.SockLocalWildcard | vkern.SockUnconnected | vkern.SockDualStack, LPort: 12345, Mark: daeMark, Netns: daeNetns},
		{ID: sockTCP6, Family: 10, Proto: ipTCP, State: vkern.TCPListen, Flags: vkern.SockLocalWildcard | vkern.SockUnconnected, LPort: 12345, Mark: daeMark, Netns: daeNetns},
		{ID: sockLocalUDP4, Family: 2, Proto: ipUDP, State: 7, Flags: vkern.SockUnconnected, Local: gw4, LPort: localSvcPort, Netns: daeNetns},
		{ID: sockLocalUDP6, Family: 10, Proto: ipUDP, State: 7, Flags: vkern.SockUnconnected, Local: gw6, LPort: localSvcPort, Netns: daeNetns},
	})
	t4, u, t6 := control.VerifC03ListenKeys()
	s.mapUpdate("listen_socket_map", [][]byte{le32(t4), le32(u), le32(t6)}, [][]byte{le64(sockTCP4), le64(sockUDP), le64(sockTCP6)})
	// health bits: at start-up the control plane reports every outbound (direct, block, every group) alive for every
	// (protocol, family), each through outboundConnectivityMapKey
	var hk, hv [][]byte
	for ob := 0; ob <= int(consts.OutboundUserDefinedMax); ob++ {
		for _, v6 := range []bool{false, true} {
			hk = append(hk, control.VerifC03ConnectivityKey(uint8(ob), false, v6), control.VerifC03ConnectivityKey(uint8(ob), true, v6), control.VerifC03ConnectivityKeyDns(uint8(ob), v6))
			hv = append(hv, le32(1), le32(1), le32(1))
		}
	}
	s.mapUpdate("outbound_connectivity_map", hk, hv)
	s.setTime(baseTimeNs)
	// cookie -> (pid, pname) through the real cgroup program
	s.setTask(uint64(appPid)<<32|appPid, appComm, "/usr/bin/curl https://x")
	s.inject("tproxy_wan_cg_connect4", &vkern.Skb{Cookie: cookieApp}, nil)
	s.setTask(uint64(controlPid)<<32|controlPid, daeComm, "/usr/bin/dae run")
	s.inject("tproxy_wan_cg_connect4", &vkern.Skb{Cookie: cookieDae}, nil)
	s.loadProgram(e.progs[sc.progA])
	s.snapshot(&e.base)
	e.k.run(&s)
}

func common16(p uint16) uint16 { return p<<8 | p>>8 }

var _ = consts.OutboundDirect
