// Package dnsref (import path verifx/c04_dnsref): reference interpreter for dns.routing request/response
// programs. It is a copy of the reference of check C07 (checks/C07/main/ref.go) with exported names; it is
// written from the property statement and docs/en/configuration/dns.md only:
//
//	rules are tried top to bottom, the first rule whose conditions ALL hold decides, otherwise the fallback;
//	the values inside one condition are alternatives (any one suffices); '!' negates the condition;
//	qname: full = identical name; suffix = the name itself or any name ending in "."+pattern;
//	       keyword = name contains pattern; regex = Go regexp on the name;
//	       names compare lower-cased and without the trailing dot;
//	qtype: the question type equals the value (mnemonic or number);
//	ip:    some address in the answer section lies inside one of the prefixes (bare address = host prefix);
//	upstream: the upstream that produced the answer has that name.
//
// Nothing in this file calls the implementation. geosite:/geoip: values are NOT understood here: the harness
// replaces them by the values it wrote into the data files before asking.
package dnsref

import (
	"fmt"
	"net/netip"
	"regexp"
	"strconv"
	"strings"
	"sync"
)

type Param struct {
	Key string `json:"k,omitempty"`
	Val string `json:"v"`
}

type Cond struct {
	Fn     string  `json:"f"`
	Not    bool    `json:"not,omitempty"`
	Params []Param `json:"p"`
}

type Rule struct {
	Conds []Cond `json:"conds"`
	Out   string `json:"out"`
}

type Program struct {
	Rules    []Rule `json:"rules"`
	Fallback string `json:"fallback"`
}

// ---- text form (what a user would write) ----

func QuoteVal(v string) string {
	for _, c := range v {
		if !(c >= 'a' && c <= 'z' || c >= 'A' && c <= 'Z' || c >= '0' && c <= '9' || c == '.' || c == '-' || c == '_' || c == '/') {
			return "'" + v + "'"
		}
	}
	return v
}

func (c Cond) Text() string {
	var ps []string
	for _, p := range c.Params {
		if p.Key != "" {
			ps = append(ps, p.Key+": "+QuoteVal(p.Val))
		} else {
			ps = append(ps, QuoteVal(p.Val))
		}
	}
	n := ""
	if c.Not {
		n = "!"
	}
	return n + c.Fn + "(" + strings.Join(ps, ", ") + ")"
}

func (r Rule) Text() string {
	var cs []string
	for _, c := range r.Conds {
		cs = append(cs, c.Text())
	}
	return strings.Join(cs, " && ") + " -> " + r.Out
}

// Text is the compact one-line form used in signatures.
func (p *Program) Text() string {
	var b strings.Builder
	for _, r := range p.Rules {
		b.WriteString(r.Text())
		b.WriteString(" ; ")
	}
	b.WriteString("fallback: " + p.Fallback)
	return b.String()
}

// Block is the body of a `request { ... }` / `response { ... }` section.
func (p *Program) Block() string {
	var b strings.Builder
	for _, r := range p.Rules {
		b.WriteString("      " + r.Text() + "\n")
	}
	b.WriteString("      fallback: " + p.Fallback + "\n")
	return b.String()
}

func CloneRule(r Rule) Rule {
	c := Rule{Out: r.Out}
	for _, cd := range r.Conds {
		c.Conds = append(c.Conds, Cond{Fn: cd.Fn, Not: cd.Not, Params: append([]Param(nil), cd.Params...)})
	}
	return c
}

// ---- inputs ----

type RR struct {
	Kind string // "A", "AAAA", "CNAME"
	Addr netip.Addr
	Tgt  string
}

type Input struct {
	Name    string // as asked (any case, maybe trailing dot)
	Qtype   uint16
	Answers []RR   // response side only
	From    string // response side only: tag of the answering upstream, or "asis"
}

func (in Input) String() string {
	s := fmt.Sprintf("%s/%d", in.Name, in.Qtype)
	if in.From != "" {
		var as []string
		for _, a := range in.Answers {
			if a.Kind == "CNAME" {
				as = append(as, "CNAME:"+a.Tgt)
			} else {
				as = append(as, a.Kind+":"+a.Addr.String())
			}
		}
		s += " ans=[" + strings.Join(as, ",") + "] from=" + in.From
	}
	return s
}

func normName(n string) string {
	return strings.ToLower(strings.TrimSuffix(n, "."))
}

var qtypeNames = map[string]uint16{"a": 1, "ns": 2, "cname": 5, "aaaa": 28, "https": 65, "any": 255, "txt": 16, "mx": 15}

func refQtype(v string) (uint16, bool) {
	if t, ok := qtypeNames[strings.ToLower(v)]; ok {
		return t, true
	}
	n, err := strconv.ParseUint(v, 0, 16)
	if err != nil {
		return 0, false
	}
	return uint16(n), true
}

var (
	reMu    sync.Mutex
	reCache = map[string]*regexp.Regexp{}
)

func refRegex(p string) *regexp.Regexp {
	reMu.Lock()
	defer reMu.Unlock()
	if r, ok := reCache[p]; ok {
		return r
	}
	r := regexp.MustCompile(p)
	reCache[p] = r
	return r
}

func refParam(fn string, p Param, in *Input) bool {
	switch fn {
	case "qname":
		n := normName(in.Name)
		switch p.Key {
		case "full":
			return n == p.Val
		case "suffix":
			return n == p.Val || strings.HasSuffix(n, "."+p.Val)
		case "keyword":
			return strings.Contains(n, p.Val)
		case "regex":
			return refRegex(p.Val).MatchString(n)
		}
		panic("dnsref: bad qname key " + p.Key)
	case "qtype":
		t, ok := refQtype(p.Val)
		if !ok {
			panic("dnsref: bad qtype " + p.Val)
		}
		return in.Qtype == t
	case "ip":
		if p.Key != "" {
			panic("dnsref: bad ip key " + p.Key)
		}
		v := p.Val
		if !strings.Contains(v, "/") {
			if strings.Contains(v, ":") {
				v += "/128"
			} else {
				v += "/32"
			}
		}
		pf := netip.MustParsePrefix(v).Masked()
		for _, a := range in.Answers {
			if a.Kind != "A" && a.Kind != "AAAA" {
				continue
			}
			if pf.Contains(a.Addr) {
				return true
			}
		}
		return false
	case "upstream":
		return in.From == p.Val
	}
	panic("dnsref: unknown function " + fn)
}

// Holds: a condition holds iff (any value matches) XOR '!'.
func Holds(c Cond, in *Input) bool {
	hit := false
	for _, p := range c.Params {
		if refParam(c.Fn, p, in) {
			hit = true
			break
		}
	}
	return hit != c.Not
}

// Decide returns the outbound the statement prescribes and the index of the deciding rule (-1 = fallback).
func Decide(p *Program, in *Input) (string, int) {
	for i, r := range p.Rules {
		all := true
		for _, c := range r.Conds {
			if !Holds(c, in) {
				all = false
				break
			}
		}
		if all {
			return r.Out, i
		}
	}
	return p.Fallback, -1
}

// ---- bitset form of the same reference (one bit per input of a fixed input list), for speed ----

type Bits []uint64

func NewBits(n int) Bits { return make(Bits, (n+63)/64) }
func (b Bits) Set(i int) { b[i/64] |= 1 << uint(i%64) }
func (b Bits) Get(i int) bool {
	return b[i/64]>>uint(i%64)&1 == 1
}

// RuleMask is a rule together with the set of inputs (of one fixed input list) on which all its conditions hold.
type RuleMask struct {
	Rule
	M Bits
}

func MaskRule(r Rule, inputs []Input) *RuleMask {
	m := NewBits(len(inputs))
	for i := range inputs {
		all := true
		for _, c := range r.Conds {
			if !Holds(c, &inputs[i]) {
				all = false
				break
			}
		}
		if all {
			m.Set(i)
		}
	}
	return &RuleMask{Rule: r, M: m}
}

// DecideMask: first rule whose mask has bit i, else fallback.
func DecideMask(rules []*RuleMask, fallback string, i int) (string, int) {
	for k, r := range rules {
		if r.M.Get(i) {
			return r.Out, k
		}
	}
	return fallback, -1
}

// MergedNegated returns the program in which adjacent single-condition rules with the same function,
// both negated, and the same outbound are fused into one negated condition over the union of the
// values. It is used ONLY to label a violation (diag=merge-negated) when the implementation behaves
// exactly like this different program; it never changes what is expected.
func MergedNegated(p *Program) (*Program, bool) {
	if len(p.Rules) < 2 {
		return p, false
	}
	changed := false
	out := &Program{Fallback: p.Fallback}
	cur := CloneRule(p.Rules[0])
	for i := 1; i < len(p.Rules); i++ {
		n := p.Rules[i]
		if len(cur.Conds) == 1 && len(n.Conds) == 1 && cur.Conds[0].Fn == n.Conds[0].Fn &&
			cur.Conds[0].Not && n.Conds[0].Not && cur.Out == n.Out {
			cur.Conds[0].Params = append(cur.Conds[0].Params, n.Conds[0].Params...)
			changed = true
			continue
		}
		out.Rules = append(out.Rules, cur)
		cur = CloneRule(n)
	}
	out.Rules = append(out.Rules, cur)
	return out, changed
}
