//go:build verif

package dns

import (
	"context"
	"fmt"
	"sort"
	"strings"

	"github.com/daeuniverse/dae/config"
	"github.com/daeuniverse/dae/pkg/config_parser"
	"github.com/daeuniverse/dae/verifx/vsched"
	dnsmessage "github.com/miekg/dns"
	"github.com/sirupsen/logrus"
)

// C07 concurrency leg: several DNS handlers use an upstream for the FIRST time concurrently (lazy
// UpstreamResolver.GetUpstream), then present "the answering upstream" to ResponseSelect exactly as
// control/dns_control.go does. Whatever the interleaving, an answer that came from upstream `ua` must be routed by
// the response rule `upstream(ua) -> reject`.

type upRaceObs struct {
	got  []string
	errs []string
	done int
}

var upRaceCur *upRaceObs

func VerifUpstreamRaceScenario(threads int, log *logrus.Logger) *vsched.Scenario {
	text := "global{}\ndns {\n  upstream {\n    ua: 'udp://192.0.2.1:53'\n    ub: 'udp://192.0.2.2:53'\n  }\n  routing {\n    request {\n      fallback: ua\n    }\n    response {\n      upstream(ua) -> reject\n      fallback: accept\n    }\n  }\n}\nrouting{ fallback: direct }\n"
	body := func() {
		o := &upRaceObs{}
		upRaceCur = o
		sections, err := config_parser.Parse(text)
		if err != nil {
			panic(err)
		}
		conf, err := config.New(sections)
		if err != nil {
			panic(err)
		}
		d, err := New(&conf.Dns, &NewOption{Logger: log, UpstreamReadyCallback: func(*Upstream) error { return nil }, UpstreamResolverNetwork: "udp"})
		if err != nil {
			panic(err)
		}
		msg := new(dnsmessage.Msg)
		msg.SetQuestion("example.com.", dnsmessage.TypeA)
		msg.Response = true
		for i := 0; i < threads; i++ {
			go func() {
				defer func() { o.done++ }()
				// request side: the first matching request rule names ua; the handler resolves it lazily
				idx, up, err := d.RequestSelect(context.Background(), "example.com.", dnsmessage.TypeA)
				if err != nil {
					o.errs = append(o.errs, "RequestSelect: "+err.Error())
					return
				}
				_ = idx
				ctx := context.Background()
				// response side: the answer came from `up`
				ridx, _, err := d.ResponseSelect(ctx, msg, up)
				if err != nil {
					o.errs = append(o.errs, "ResponseSelect: "+err.Error())
					return
				}
				o.got = append(o.got, ridx.String())
			}()
		}
		vsched.WaitUntil(func() bool { return o.done == threads })
	}
	check := func(r *vsched.Result) (string, any) {
		o := upRaceCur
		if r.Status == vsched.StPanic {
			return "panic: " + strings.SplitN(r.PanicMsg, "\n", 2)[0], r.PanicMsg
		}
		if r.Status == vsched.StHorizon {
			return "", nil
		}
		if o.done != threads {
			return "deadlock: " + strings.Join(r.Blocked, "; "), nil
		}
		if len(o.errs) > 0 {
			return "error: " + o.errs[0], nil
		}
		for _, g := range o.got {
			if g != "reject" {
				return fmt.Sprintf("an answer from upstream ua was routed as %q although the first matching response rule is upstream(ua) -> reject", g), o.got
			}
		}
		return "", nil
	}
	outcome := func(r *vsched.Result) string {
		o := upRaceCur
		g := append([]string(nil), o.got...)
		sort.Strings(g)
		return fmt.Sprintf("%v steps=%d", g, len(r.Steps))
	}
	return &vsched.Scenario{Name: fmt.Sprintf("upstream-first-use-%dthreads", threads), Body: body, Check: check, Outcome: outcome, MaxSteps: 3000}
}
