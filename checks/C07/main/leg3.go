// Leg 3 — upstream identity. "…for all rule lists over ANY SET OF UPSTREAMS": the sets here are twins, i.e. upstreams
// that differ in exactly one component of their URL (path, scheme, port, server name, address family) or only in the
// name they resolve from, down to two server names behind one address. Everything the controller keeps per upstream
// between questions (pooled forwarders, the response cache scope, the answering-upstream index) is keyed by some
// rendering of the upstream; a key that is too coarse lets the twin that was used first answer for the other one.
//
// Enumeration: every upstream set x request route x response program (<=1 rule quick, <=2 thorough) x answer table
// (every upstream answers differently, so the reply identifies who answered) x EVERY ORDER of the question list on a
// fresh controller:  cold pass in that order -> the same order again (pool and cache warm) -> reload onto the request
// route with the upstream names rotated (same upstream section, same response rules; the pool is rebuilt, the cache
// survives) -> the same questions once more.
//
// Reference: refChain (leg2.go) — written from the statement. The scripted forwarder is bound to the upstream it was
// created for, exactly like the production forwarders (DoH/DoH3/DoT/DoQ/DoTCP/DoUDP embed a copy of the upstream).
package main

import (
	"fmt"
	"strings"
	"sync/atomic"

	"github.com/daeuniverse/dae/component/dns"
	"github.com/daeuniverse/dae/control"
	"github.com/daeuniverse/dae/verifx/vlib"
	"github.com/sirupsen/logrus"
)

// upSet: Conf is what the user writes, Canon is the identity of that upstream as documented
// (scheme://host:port + path with the defaults filled in: 53, 853, 443 and /dns-query; udp+tcp is tcp+udp).
type upSet struct {
	Name  string   `json:"name"`
	Conf  []string `json:"conf"`
	Canon []string `json:"canon"`
}

var upSetsPairs = []upSet{
	{"path", []string{"https://192.0.2.1:443/aaaaaa", "https://192.0.2.1:443/bbbbbb"}, nil},
	{"path-default-vs-longer", []string{"h3://192.0.2.1", "h3://192.0.2.1:443/dns-query/kids"}, []string{"h3://192.0.2.1:443/dns-query", "h3://192.0.2.1:443/dns-query/kids"}},
	{"scheme-tcp-tls", []string{"tcp://192.0.2.1:853", "tls://192.0.2.1:853"}, nil},
	{"scheme-udp-tcp", []string{"udp://192.0.2.1:53", "tcp://192.0.2.1:53"}, nil},
	{"scheme-https-h3", []string{"https://192.0.2.1:443/dns-query", "h3://192.0.2.1:443/dns-query"}, nil},
	{"scheme-quic-udp", []string{"quic://192.0.2.1:853", "udp://192.0.2.1:853"}, nil},
	{"scheme-tcpudp-udp", []string{"tcp+udp://192.0.2.1:53", "udp://192.0.2.1"}, []string{"tcp+udp://192.0.2.1:53", "udp://192.0.2.1:53"}},
	{"port", []string{"udp://192.0.2.1:53", "udp://192.0.2.1:5353"}, nil},
	{"server-name-same-address", []string{"tls://dns-a.test:853", "tls://dns-b.test"}, []string{"tls://dns-a.test:853", "tls://dns-b.test:853"}},
	{"server-name-vs-literal", []string{"https://dns-a.test/dns-query", "https://192.0.2.1:443/dns-query"}, []string{"https://dns-a.test:443/dns-query", "https://192.0.2.1:443/dns-query"}},
	{"address-family", []string{"udp://192.0.2.1:53", "udp://[2001:db8::53]:53"}, nil},
	{"twins-of-the-asis-server", []string{"tcp://198.51.100.53:53", "udp://198.51.100.53:5353"}, nil}, // as-is = udp://198.51.100.53:53
	{"unrelated", []string{"udp://192.0.2.1:53", "tcp://192.0.2.2:5353"}, nil},                        // control: nothing in common
}

var upSetsTriples = []upSet{
	{"3-paths", []string{"https://192.0.2.1:443/aaaaaa", "https://192.0.2.1:443/bbbbbb", "https://192.0.2.1:443/aaaaaa/b"}, nil},
	{"3-schemes-53", []string{"udp://192.0.2.1:53", "tcp://192.0.2.1:53", "udp+tcp://192.0.2.1:53"}, []string{"udp://192.0.2.1:53", "tcp://192.0.2.1:53", "tcp+udp://192.0.2.1:53"}},
	{"3-schemes-853", []string{"tls://192.0.2.1", "quic://192.0.2.1", "tcp://192.0.2.1:853"}, []string{"tls://192.0.2.1:853", "quic://192.0.2.1:853", "tcp://192.0.2.1:853"}},
	{"3-server-names", []string{"tls://dns-a.test:853", "tls://dns-b.test:853", "tls://192.0.2.1:853"}, nil},
}

func (s *upSet) canon() []string {
	if s.Canon != nil {
		return s.Canon
	}
	return s.Conf
}

func (s *upSet) urlOfTag(tag string) string {
	if tag == "asis" {
		return asisURL
	}
	for i := range s.Conf {
		if upTags[i] == tag {
			return s.canon()[i]
		}
	}
	return "?" + tag
}

func (s *upSet) tagsOfTrace(tr []string) []string {
	out := make([]string, len(tr))
	for i, u := range tr {
		out[i] = "<" + u + ">"
		if u == asisURL {
			out[i] = "asis"
		}
		for j, url := range s.canon() {
			if u == url {
				out[i] = upTags[j]
			}
		}
	}
	return out
}

func (s *upSet) text() string {
	var p []string
	for i, u := range s.Conf {
		p = append(p, upTags[i]+": "+u)
	}
	return strings.Join(p, ", ")
}

// rotateTags: the request program with every upstream name replaced by the next one of the set (2 upstreams: swapped).
func rotateTags(p *Program, n int) *Program {
	next := func(o string) string {
		for i := 0; i < n; i++ {
			if upTags[i] == o {
				return upTags[(i+1)%n]
			}
		}
		return o
	}
	q := &Program{Fallback: next(p.Fallback)}
	for _, rl := range p.Rules {
		c := cloneRule(rl)
		c.Out = next(rl.Out)
		q.Rules = append(q.Rules, c)
	}
	return q
}

var l3Questions = l2Questions

// all orders of 0..n-1, in lexicographic order (identity first)
func permutations(n int) [][]int {
	var out [][]int
	var rec func(cur []int, used uint)
	rec = func(cur []int, used uint) {
		if len(cur) == n {
			out = append(out, append([]int(nil), cur...))
			return
		}
		for i := 0; i < n; i++ {
			if used>>uint(i)&1 == 0 {
				rec(append(cur, i), used|1<<uint(i))
			}
		}
	}
	rec(nil, 0)
	return out
}

type twinCounters struct {
	asks, envs, evals, nontriv, cacheHits, reasks *atomic.Int64
	bySet                                         hist
}

func newTwinCounters(r *vlib.Run) *twinCounters {
	return &twinCounters{
		asks: r.Counter("leg3_asks"), envs: r.Counter("leg3_histories"), evals: r.Counter("evaluations"),
		nontriv:   r.Counter("leg3_asks_after_another_upstream_of_the_set_was_used"),
		cacheHits: r.Counter("leg3_cache_hits_observed"), reasks: r.Counter("leg3_asks_with_reask"),
	}
}

// twinCase is one history: an upstream set, a request route, a response program, an answer table and an order.
type twinCase struct {
	Set      upSet
	Request  *Program
	Response *Program
	Table    map[string][]RR // by tag
	Order    []int
	Seq      int // only feeds the DNS message ids
}

func (tc *twinCase) flipped() *Program { return rotateTags(tc.Request, len(tc.Set.Conf)) }

func (tc *twinCase) texts() (string, string) {
	tags := upTags[:len(tc.Set.Conf)]
	return confTextURLs(tags, tc.Set.Conf, tc.Request.Block(), tc.Response.Block()),
		confTextURLs(tags, tc.Set.Conf, tc.flipped().Block(), tc.Response.Block())
}

func (tc *twinCase) build(r *vlib.Run, log *logrus.Logger) (d, dFlip *dns.Dns, ok bool) {
	text, textFlip := tc.texts()
	var err error
	if pk, msg := vlib.Try(func() {
		d, _, err = buildDns(text, log)
		if err == nil {
			dFlip, _, err = buildDns(textFlip, log)
		}
	}); pk || err != nil {
		if caps.ok("leg3/build/"+tc.Set.Name, 1) {
			r.Violation(fmt.Sprintf("leg=twins build set=%s upstreams={%s} response=[%s] request=[%s] err=%v", tc.Set.Name, tc.Set.text(), tc.Response.Text(), tc.Request.Text(), err),
				map[string]any{"config": text, "panic": msg})
		}
		return nil, nil, false
	}
	return d, dFlip, true
}

func (tc *twinCase) run(r *vlib.Run, d, dFlip *dns.Dns, bound int, cnt *twinCounters) {
	text, textFlip := tc.texts()
	set := &tc.Set
	vt := map[string][]control.VerifRR{}
	for tag, rrs := range tc.Table {
		var v []control.VerifRR
		for _, a := range rrs {
			v = append(v, control.VerifRR{Kind: a.Kind, Addr: a.Addr, Tgt: a.Tgt})
		}
		vt[set.urlOfTag(tag)] = v
	}
	nviol := 0
	report := func(phase string, step int, q l2Question, what string, a control.VerifAsk, c chainResult) {
		nviol++
		if !caps.ok("twins/"+set.Name+"/"+phase, 1) || !caps.ok("twins", 16) {
			return
		}
		var tb []string
		for i := range set.Conf {
			tb = append(tb, fmt.Sprintf("%s:%v", upTags[i], rrSet(tc.Table[upTags[i]])))
		}
		tb = append(tb, fmt.Sprintf("asis:%v", rrSet(tc.Table["asis"])))
		r.Violation(fmt.Sprintf("leg=twins set=%s upstreams={%s} request=[%s] response=[%s] table={%s} order=%v phase=%s step=%d question=%s/%d: %s (asked=%v, reference chain=%v terminal=%v)",
			set.Name, set.text(), tc.Request.Text(), tc.Response.Text(), strings.Join(tb, " "), tc.Order, phase, step, q.Name, q.Qtype, what, set.tagsOfTrace(a.Trace), c.chain, c.terminal),
			map[string]any{"config": text, "config_after_reload": textFlip, "documented_depth": bound, "asked_urls": a.Trace,
				"replay": map[string]any{"kind": "twins", "twins": tc}})
	}
	var e *control.VerifDnsEnv
	var err error
	if pk, msg := vlib.Try(func() { e, err = control.VerifNewDnsEnv(d, asisServer) }); pk || err != nil {
		r.Violation(fmt.Sprintf("leg=twins cannot build controller: %v %s", err, msg), text)
		return
	}
	cnt.envs.Add(1)
	e.SetTable(vt)
	defer e.Close()
	var local int64
	prior := map[string]bool{} // tags the reference has asked so far in this history
	for phaseNo, phase := range []string{"cold", "again", "rerouted"} {
		reqProg := tc.Request
		if phaseNo == 2 {
			if err := e.Reload(dFlip); err != nil {
				r.Violation("leg=twins reload failed: "+err.Error(), textFlip)
				return
			}
			reqProg = tc.flipped()
			prior = map[string]bool{} // ReuseForReload rebuilds the forwarder pool
		}
		for step, qi := range tc.Order {
			q := l3Questions[qi]
			c := refChain(reqProg, tc.Response, q, tc.Table, bound)
			id := uint16(0x2000 + (tc.Seq%500)*16 + phaseNo*4 + step)
			var a control.VerifAsk
			if pk, msg := vlib.Try(func() { a = e.Ask(q.Name, q.Qtype, id) }); pk {
				report(phase, step, q, "panic at "+vlib.PanicSite(msg), a, c)
				continue
			}
			cnt.asks.Add(1)
			cnt.evals.Add(1)
			other := false
			for _, t := range c.chain {
				for p := range prior {
					if p != t {
						other = true
					}
				}
			}
			if other {
				cnt.nontriv.Add(1)
				local++
			}
			if len(c.chain) >= 2 {
				cnt.reasks.Add(1)
			}
			for _, t := range c.chain {
				prior[t] = true
			}
			if nviol >= 1 {
				continue
			}
			tr := set.tagsOfTrace(a.Trace)
			if len(tr) > bound {
				report(phase, step, q, fmt.Sprintf("exchanges exceed documented depth: %d > %d", len(tr), bound), a, c)
				continue
			}
			if c.reqReject {
				if len(tr) != 0 {
					report(phase, step, q, "a rejected question was sent upstream", a, c)
				} else if why := checkReply(a, q, id, nil); why != "" {
					report(phase, step, q, "reject reply: "+why, a, c)
				}
				continue
			}
			if c.terminal {
				if phaseNo > 0 && len(tr) == 0 && len(c.chain) > 0 {
					cnt.cacheHits.Add(1) // answered from the cache: the reply must still be the one the rules prescribe NOW
				} else if !eqStrs(tr, c.chain) {
					report(phase, step, q, "the question was not sent to the upstream(s) the rules name", a, c)
					continue
				}
				if why := checkReply(a, q, id, rrSet(c.final)); why != "" {
					report(phase, step, q, "reply: "+why, a, c)
				}
			} else if !eqStrs(tr, c.chain[:len(tr)]) {
				report(phase, step, q, "the question was not sent to the upstream(s) the rules name (bouncing set)", a, c)
			}
		}
	}
	cnt.bySet.add(map[string]int64{set.Name: local})
}

func runLeg3(r *vlib.Run) {
	thorough := r.Thorough()
	bound := control.MaxDnsLookupDepth

	upB := plain("upstream", false, "ub")
	upA := plain("upstream", false, "ua")
	upC := plain("upstream", false, "uc")
	ipIn := plain("ip", false, "10.0.0.0/8")
	qtA := plain("qtype", false, "a")
	qtAAAA, sfx := l2qtAAAA, l2sfx
	dummy := []Input{{Name: "x.", Qtype: 1, From: "ub"}}

	type group struct {
		name   string
		sets   []upSet
		spaces []*space
		routes []*Program
		tables []map[string][]RR
	}
	outs2 := []string{"accept", "reject", "ub", "ua"}
	conds2 := [][]Cond{{upB}, {upA}, {neg(upB)}, {ipIn}, {neg(ipIn)}, {qtA}, {sfx}}
	pairs := group{name: "pairs", sets: upSetsPairs,
		spaces: []*space{{name: "leg3_upto1rule", nUp: 2, inputs: dummy, fallbacks: outs2, maxRules: 1, rules: mkRules(conds2, outs2, dummy)}},
		routes: []*Program{
			{Rules: []Rule{{Conds: []Cond{qtAAAA}, Out: "ua"}}, Fallback: "ub"},
			{Rules: []Rule{{Conds: []Cond{sfx}, Out: "ub"}}, Fallback: "ua"},
			{Fallback: "ub"}, // ua is reached by re-asks only
			{Rules: []Rule{{Conds: []Cond{sfx}, Out: "ua"}}, Fallback: "asis"},
		},
		// every upstream answers differently; both twins appear on either side of ip(10.0.0.0/8)
		tables: []map[string][]RR{
			{"ub": answerKinds[0], "ua": answerKinds[1], "asis": answerKinds[3]},
			{"ub": answerKinds[1], "ua": answerKinds[0], "asis": answerKinds[4]},
		},
	}
	groups := []group{pairs}
	if thorough {
		g := &groups[0]
		g.spaces = append(g.spaces, &space{name: "leg3_2rules", nUp: 2, inputs: dummy, fallbacks: outs2, minRules: 2, maxRules: 2,
			rules: mkRules([][]Cond{{upB}, {upA}, {ipIn}, {sfx}}, outs2, dummy)})
		g.routes = append(g.routes, &Program{Rules: []Rule{{Conds: []Cond{qtA}, Out: "asis"}}, Fallback: "ua"})
		outs3 := []string{"accept", "reject", "ub", "ua", "uc"}
		conds3 := append(append([][]Cond{}, conds2...), []Cond{upC})
		groups = append(groups, group{name: "triples", sets: upSetsTriples,
			spaces: []*space{{name: "leg3_triples_upto1rule", nUp: 3, inputs: dummy, fallbacks: outs3, maxRules: 1, rules: mkRules(conds3, outs3, dummy)}},
			routes: []*Program{
				{Rules: []Rule{{Conds: []Cond{qtAAAA}, Out: "ua"}, {Conds: []Cond{sfx}, Out: "uc"}}, Fallback: "ub"},
				{Rules: []Rule{{Conds: []Cond{sfx}, Out: "ub"}}, Fallback: "uc"},
				{Rules: []Rule{{Conds: []Cond{sfx, qtA}, Out: "uc"}, {Conds: []Cond{qtA}, Out: "asis"}}, Fallback: "ua"},
			},
			tables: []map[string][]RR{
				{"ub": answerKinds[0], "ua": answerKinds[1], "uc": answerKinds[4], "asis": answerKinds[3]},
				{"ub": answerKinds[1], "ua": answerKinds[4], "uc": answerKinds[0], "asis": answerKinds[2]},
			}})
	}
	perms := permutations(len(l3Questions))
	nSets := 0
	for _, g := range groups {
		nSets += len(g.sets)
	}
	r.Set("leg3_upstream_sets", nSets)
	r.Set("leg3_question_orders", len(perms))
	r.Set("leg3_request_routes", len(groups[0].routes))
	r.Set("leg3_answer_tables", len(groups[0].tables))

	cnt := newTwinCounters(r)
	log := quietLogger()
	for _, g := range groups {
		for _, s := range g.spaces {
			n := s.count()
			r.Add("programs_leg3", int64(n))
			nS, nR := len(g.sets), len(g.routes)
			// the upstream set varies fastest, so that even a run cut short by the budget has seen every set
			r.ParallelFor(n*nR*nS, func(w int) {
				if overBudget() {
					r.CapHit("time budget share reached inside " + s.name)
					return
				}
				si, ri, i := w%nS, (w/nS)%nR, w/(nS*nR)
				fb, rs := s.decode(i)
				base := twinCase{Set: g.sets[si], Request: g.routes[ri], Response: progOf(fb, rs)}
				d, dFlip, ok := base.build(r, log)
				if !ok {
					return
				}
				for ti, tb := range g.tables {
					for pi, order := range perms {
						tc := base
						tc.Table, tc.Order, tc.Seq = tb, order, ti*len(perms)+pi
						tc.run(r, d, dFlip, bound, cnt)
					}
				}
				if w%997 == 5 && len(rs) > 0 {
					q := l3Questions[w%len(l3Questions)]
					c := refChain(base.Request, base.Response, q, g.tables[0], bound)
					r.Sample(map[string]any{"leg": "twins", "set": base.Set.Name, "upstreams": base.Set.text(), "response": base.Response.Text(), "request": base.Request.Text(),
						"question": fmt.Sprintf("%s/%d", q.Name, q.Qtype), "reference_chain": c.chain, "terminal_within_depth": c.terminal, "final_answer": rrSet(c.final)})
				}
			})
		}
	}
	r.Set("leg3_nontrivial_asks_by_upstream_set", cnt.bySet.m)
	leg3Assumes(r)
}

func leg3Assumes(r *vlib.Run) {
	r.Assume("Leg 3 (upstream identity): upstream sets are pairs (thorough: also triples) that differ in exactly one URL component — path, scheme (same and different transport), port, server name (two names resolved to one address by a static in-process table standing in for the bootstrap resolver), address family, twins of the as-is server — plus one unrelated pair; the scripted forwarder is bound to the upstream it was created for, like every production forwarder (they embed a copy of the upstream); the dialer chooser is the production shape with all dialers healthy (first supported ip version and transport, target = address:port)")
	r.Assume("Leg 3 histories: every order of the 4 questions on a fresh controller, the same order again, then a reload (ReuseForReload) onto the request route with the upstream names rotated and the questions once more; upstream section and response rules are the same before and after, so a cached answer is accepted only if it is the reply the current rules prescribe; sequential (no concurrent questions), nothing expires")
}

func replayTwins(r *vlib.Run, tc *twinCase) {
	d, dFlip, ok := tc.build(r, quietLogger())
	if !ok {
		return
	}
	tc.run(r, d, dFlip, control.MaxDnsLookupDepth, newTwinCounters(r))
}
