#!/bin/bash
# Runs the repository's pinned baseline with the verif guard OFF (no tags) and compares with BASELINE.json.
export GOFLAGS=-mod=mod GOPROXY=off GOSUMDB=off GOTOOLCHAIN=local
REPO="${VERIF_REPO:-/repo}"
OUT="$(mktemp /var/tmp/verif-baseline.XXXXXX.json)"
(cd "$REPO" && go1.26 test -json -vet=off -count=1 -timeout 25m ./... > "$OUT" 2>/dev/null)
python3 - "$OUT" <<'PY'
import json,sys
base=json.load(open('/root/.vp/BASELINE.json'))['stable_pass']
res={}
for l in open(sys.argv[1]):
    try: e=json.loads(l)
    except: continue
    if e.get('Test') and e.get('Action') in('pass','fail','skip'):
        res[e['Package']+'::'+e['Test']]=e['Action']
bad=[t for t in base if res.get(t)!='pass']
print(f"baseline: {len(base)-len(bad)}/{len(base)} stable tests pass")
for t in bad[:20]: print("  NOT PASSING:",t,res.get(t))
sys.exit(1 if bad else 0)
PY
rc=$?
rm -f "$OUT"
exit $rc
