// C09 — every DNS client gets an answer to its own question under its own ID (engine S).
//
// Closed 2–3 client systems around the REAL DnsController; three harness layers (scripted forwarder / real DoUDP
// over simulated datagram sockets with TCP fallback / real DoTCP pipelining over a simulated stream). Every
// execution is checked against the statement: own transaction ID and question on every reply, only answers
// generated for that question in replies and cache entries, one upstream resolution at a time per identical
// question whose result reaches every waiter, every forwarder / socket closed exactly once and never under a
// query in flight, nothing left blocked.
package main

import (
	"fmt"
	"os"
	"time"

	"github.com/daeuniverse/dae/control"
	"github.com/daeuniverse/dae/verifx/vdrive"
	"github.com/daeuniverse/dae/verifx/vlib"
	"github.com/daeuniverse/dae/verifx/vsched"
)

const (
	tA     = 1
	tAAAA  = 28
	tSVCB  = 64
	tHTTPS = 65
	tTXT   = 16
	tCAA   = 257
)

func q(name string, qtype uint16, id uint16) control.C09Query {
	return control.C09Query{Name: name, Qtype: qtype, ID: id}
}

func qg(name string, qtype uint16, id uint16, gap time.Duration) control.C09Query {
	return control.C09Query{Name: name, Qtype: qtype, ID: id, Gap: gap}
}

func cl(qs ...control.C09Query) control.C09Client { return control.C09Client{Queries: qs} }

type B = vsched.Bound

func main() {
	if err := control.VerifC09Prepare(); err != nil {
		fmt.Fprintln(os.Stderr, "C09: prepare:", err)
		os.Exit(2)
	}
	// Whole scenarios are distributed over worker processes, one scenario per process (33 quick / 38 thorough; no
	// redundant shallow executions — the machine is shared). Every scenario deepens its bounds cheapest first until
	// its list is done or the common deadline is reached (exhaustive:false).
	thorough, worker := false, false
	for i, a := range os.Args {
		if (a == "-tier" || a == "--tier") && i+1 < len(os.Args) && os.Args[i+1] == "thorough" {
			thorough = true
		}
		if (a == "-vsworker" || a == "--vsworker") && i+1 < len(os.Args) && os.Args[i+1] != "@multi" {
			worker = true
		}
		if (a == "-vsbounds" || a == "--vsbounds") && i+1 < len(os.Args) && os.Args[i+1] == "thorough" {
			thorough = true
		}
	}
	a, b, c := "a.c9.test.", "b.c9.test.", "c.c9.test."
	var scs []*vsched.Scenario
	per := map[string]map[string][]B{}
	// add registers a scenario; quick == nil means thorough tier only
	add := func(p *control.C09Params, quick, deep []B) {
		if p.MaxSteps == 0 {
			p.MaxSteps = 4000
		}
		if quick == nil && !thorough && !worker {
			return
		}
		scs = append(scs, control.C09Scenario(p))
		per[p.Name] = map[string][]B{"quick": quick, "thorough": deep}
	}
	C := func(cs ...control.C09Client) []control.C09Client { return cs }

	// ---- small sequential histories first ----
	// a truncated (TC=1) UDP reply precedes a retirement of the forwarder, by each retirement route: retire-all
	// (every scenario ends with it), error retirement by a later failed exchange, idle eviction; plain udp
	// (scripted forwarder handing back ErrDNSTruncated like DoUDP) and tcp+udp (real DoUDP, fallback to TCP)
	one := []B{{0, 0}, {1, 0}, {0, 1}}
	deep1 := []B{{0, 0}, {1, 0}, {0, 1}, {2, 0}, {1, 1}, {0, 2}}
	add(&control.C09Params{Name: "L1/tc-then-reset", Layer: 1, Script: []string{"truncated"}, Clients: C(cl(q(a, tA, 0x7a01), q(b, tA, 0x7a02)))}, one, deep1)
	add(&control.C09Params{Name: "L1/tc-then-error", Layer: 1, Script: []string{"truncated", "error"}, Clients: C(cl(q(a, tA, 0x7a01), q(b, tA, 0x7a02)))}, one, deep1)
	add(&control.C09Params{Name: "L1/tc-then-evict", Layer: 1, Script: []string{"truncated"}, After: "evict", Clients: C(cl(q(a, tA, 0x7a01), q(b, tA, 0x7a02)))}, one, deep1)
	add(&control.C09Params{Name: "L2/tc-then-reset", Layer: 2, Script: []string{"truncated"}, Clients: C(cl(q(a, tA, 0x7b01), q(b, tA, 0x7b02)))}, one, deep1)
	add(&control.C09Params{Name: "L2/tc-then-error", Layer: 2, Script: []string{"truncated", "sockerr"}, Clients: C(cl(q(a, tA, 0x7b01), q(b, tA, 0x7b02)))}, one, deep1)
	add(&control.C09Params{Name: "L2/tc-then-evict", Layer: 2, Script: []string{"truncated"}, After: "evict", Clients: C(cl(q(a, tA, 0x7b01), q(b, tA, 0x7b02)))}, one, deep1)
	// chain-form answers (Answer[0] owned by the CNAME target) and an entry that ages past the re-pack threshold
	// (15s) while fresh: miss at 0s, hit at 20s (re-pack, other spelling of the name), hit at 21s (re-packed bytes)
	add(&control.C09Params{Name: "L1/chain-aging", Layer: 1, Chain: true, Behaviours: []string{"ok", "error"},
		Clients: C(cl(q(a, tA, 0x7c01)), cl(qg("A.C9.Test.", tA, 0x7c02, 20*time.Second)), cl(qg(a, tA, 0x7c03, 21*time.Second)))}, one, deep1)

	// transparent-UDP reply path (Handle_, lConn set, replies through sendRuntimeTrackedPkt onto loopback sockets):
	// a large TXT answer (> 1024 bytes packed) is resolved at 0s and hit 1s later by two clients at once, every
	// client under its own transaction ID; besides the replies, the published pre-packed image must stay untouched
	add(&control.C09Params{Name: "L1/udp-path-big-txt", Layer: 1, PacketPath: true, Behaviours: []string{"ok"},
		Clients: C(cl(q(a, tTXT, 0x8101)), cl(qg(a, tTXT, 0x8202, time.Second)), cl(qg(a, tTXT, 0x8303, time.Second)))},
		[]B{{0, 0}, {1, 0}, {0, 1}, {2, 0}}, deep1)

	// ---- layer 1: scripted forwarder behind the real controller --------------------------------------------
	// identical question (0x20 mixed case on one side), different transaction IDs: coalescing, per-waiter ID
	add(&control.C09Params{Name: "L1/same-name", Layer: 1, Clients: C(cl(q(a, tA, 0x1001)), cl(q("A.C9.Test.", tA, 0x2002)))},
		[]B{{0, 0}, {1, 0}, {0, 1}, {2, 0}, {1, 1}}, []B{{0, 0}, {1, 0}, {0, 1}, {2, 0}, {1, 1}, {0, 2}, {2, 1}, {1, 2}})
	// the same system again, two environment deviations (own worker in the quick tier)
	if !thorough {
		add(&control.C09Params{Name: "L1/same-name/2dev", Layer: 1, Clients: C(cl(q(a, tA, 0x1001)), cl(q("A.C9.Test.", tA, 0x2002)))},
			[]B{{0, 2}}, []B{{0, 2}})
	}
	// different names under one transaction ID
	add(&control.C09Params{Name: "L1/diff-names-same-id", Layer: 1, Clients: C(cl(q(a, tA, 0x3003)), cl(q(b, tA, 0x3003)))},
		[]B{{0, 0}, {1, 0}, {0, 1}, {2, 0}}, []B{{0, 0}, {1, 0}, {0, 1}, {2, 0}, {1, 1}, {0, 2}, {2, 1}})
	// one name, two types, one ID: the type is part of every key (quick tier; the thorough tier runs the SVCB/HTTPS pair)
	if !thorough {
		add(&control.C09Params{Name: "L1/name-vs-type", Layer: 1, Clients: C(cl(q(a, tA, 0x3003)), cl(q(a, tAAAA, 0x3003)))},
			[]B{{0, 0}, {1, 0}, {0, 1}, {2, 0}}, []B{{0, 0}, {1, 0}, {0, 1}, {2, 0}})
	}
	// one name asked as SVCB (64) and HTTPS (65): concurrently (client 0's first question against client 1) and
	// sequentially inside the TTL (client 0's second question)
	add(&control.C09Params{Name: "L1/svcb-vs-https", Layer: 1, Clients: C(cl(q(a, tSVCB, 0x6464), q(a, tHTTPS, 0x6565)), cl(q(a, tHTTPS, 0x6464)))},
		[]B{{0, 0}, {1, 0}, {0, 1}, {2, 0}}, []B{{0, 0}, {1, 0}, {0, 1}, {2, 0}, {1, 1}, {0, 2}, {2, 1}})
	// one name asked as A (1) and CAA (257 = 0x0101: a two-byte type whose low byte is A), concurrently and sequentially
	add(&control.C09Params{Name: "L1/a-vs-caa", Layer: 1, Clients: C(cl(q(a, tA, 0x0101), q(a, tCAA, 0x0257)), cl(q(a, tCAA, 0x0101)))},
		[]B{{0, 0}, {1, 0}, {0, 1}, {2, 0}}, []B{{0, 0}, {1, 0}, {0, 1}, {2, 0}, {1, 1}, {0, 2}, {2, 1}})
	// two queries per client, crossing: cache hits and coalescing mixed
	add(&control.C09Params{Name: "L1/two-queries", Layer: 1, Clients: C(cl(q(a, tA, 0x0101), q(b, tA, 0x0102)), cl(q(b, tA, 0x0201), q(a, tA, 0x0202)))},
		[]B{{0, 0}, {1, 0}, {0, 1}, {2, 0}}, []B{{0, 0}, {1, 0}, {0, 1}, {2, 0}, {1, 1}, {0, 2}, {2, 1}})
	// idle eviction of the cached forwarder racing with a query
	add(&control.C09Params{Name: "L1/evict", Layer: 1, Background: "evict", Behaviours: []string{"ok", "error", "slow"}, Clients: C(cl(q(a, tA, 0x0a0a)), cl(q(b, tA, 0x0b0b)))},
		[]B{{0, 0}, {1, 0}, {0, 1}, {2, 0}, {1, 1}}, []B{{0, 0}, {1, 0}, {0, 1}, {2, 0}, {1, 1}, {3, 0}, {2, 1}, {3, 1}})
	// retirement of all forwarders (configuration reload) racing with queries
	add(&control.C09Params{Name: "L1/retire", Layer: 1, Background: "retire", Behaviours: []string{"ok", "error"}, Clients: C(cl(q(a, tA, 0x0a0a)), cl(q(b, tA, 0x0b0b)))},
		[]B{{0, 0}, {1, 0}, {0, 1}, {2, 0}}, []B{{0, 0}, {1, 0}, {0, 1}, {2, 0}, {1, 1}, {3, 0}, {2, 1}})
	add(&control.C09Params{Name: "L1/3-mixed", Layer: 1, Clients: C(cl(q(a, tA, 0x1001)), cl(q(a, tA, 0x2002)), cl(q(b, tA, 0x1001)))},
		nil, []B{{0, 0}, {1, 0}, {0, 1}, {2, 0}, {1, 1}, {0, 2}})
	add(&control.C09Params{Name: "L1/3-evict", Layer: 1, Background: "evict", Behaviours: []string{"ok", "error"}, Clients: C(cl(q(a, tA, 0x0a0a)), cl(q(c, tA, 0x0c0c)), cl(q(b, tA, 0x0b0b)))},
		nil, []B{{0, 0}, {1, 0}, {0, 1}, {2, 0}, {1, 1}, {3, 0}})
	add(&control.C09Params{Name: "L1/3-retire", Layer: 1, Background: "retire", Behaviours: []string{"ok", "error"}, Clients: C(cl(q(a, tA, 0x0a0a)), cl(q(c, tA, 0x0c0c)), cl(q(b, tA, 0x0b0b)))},
		nil, []B{{0, 0}, {1, 0}, {0, 1}, {2, 0}, {1, 1}, {3, 0}})

	// ---- layer 2: real DoUDP + udpConnPool over datagram sockets, tcp+udp upstream (fallback to real DoTCP) ----
	// one client, two questions under one ID, the second reuses the pooled socket
	add(&control.C09Params{Name: "L2/udp-reuse-same-id", Layer: 2, Clients: C(cl(q(a, tA, 0x4004), q(b, tA, 0x4004)))},
		[]B{{0, 0}, {1, 0}, {0, 1}, {2, 0}}, []B{{0, 0}, {1, 0}, {0, 1}, {2, 0}, {1, 1}, {0, 2}, {2, 1}})
	// two clients, different names, one ID, concurrently (two sockets) and then the sockets are reused
	add(&control.C09Params{Name: "L2/udp-2clients", Layer: 2, Clients: C(cl(q(a, tA, 0x4004)), cl(q(b, tA, 0x4004), q(c, tA, 0x4004)))},
		[]B{{0, 0}, {1, 0}, {0, 1}, {2, 0}}, []B{{0, 0}, {1, 0}, {0, 1}, {2, 0}, {1, 1}, {0, 2}})
	add(&control.C09Params{Name: "L2/udp-same-name", Layer: 2, Clients: C(cl(q(a, tA, 0x4004)), cl(q(a, tA, 0x4114)))},
		[]B{{0, 0}, {1, 0}, {0, 1}, {2, 0}}, []B{{0, 0}, {1, 0}, {0, 1}, {2, 0}, {1, 1}, {0, 2}, {2, 1}})
	add(&control.C09Params{Name: "L2/3-clients", Layer: 2, Clients: C(cl(q(a, tA, 0x4004)), cl(q(b, tA, 0x4004)), cl(q(a, tA, 0x4224), q(c, tA, 0x4004)))},
		nil, []B{{0, 0}, {1, 0}, {0, 1}, {2, 0}, {1, 1}})

	// ---- layer 3: real DoTCP (connPool + pipelinedConn) over a stream ----------------------------------------
	add(&control.C09Params{Name: "L3/tcp-2clients", Layer: 3, Clients: C(cl(q(a, tA, 0x5005)), cl(q(b, tA, 0x5005)))},
		[]B{{0, 0}, {1, 0}, {0, 1}}, []B{{0, 0}, {1, 0}, {0, 1}, {2, 0}, {1, 1}, {0, 2}})
	// ID reuse on the pipelined connection: the second question of client 0 gets the ID of its first
	add(&control.C09Params{Name: "L3/tcp-seq-reuse", Layer: 3, Clients: C(cl(q(a, tA, 0x5005), q(b, tA, 0x5115)), cl(q(c, tA, 0x5005)))},
		[]B{{0, 0}, {1, 0}, {0, 1}}, []B{{0, 0}, {1, 0}, {0, 1}, {2, 0}, {1, 1}, {0, 2}})
	add(&control.C09Params{Name: "L3/3-clients", Layer: 3, Clients: C(cl(q(a, tA, 0x5005)), cl(q(b, tA, 0x5005)), cl(q(c, tA, 0x5005)))},
		nil, []B{{0, 0}, {1, 0}, {0, 1}, {2, 0}, {1, 1}})

	// ---- connection sets: more dials under way than the pipelined-connection pool may hold --------------------------
	// a cold-start burst of different questions to one TCP upstream: every query finds the pool empty and dials
	// (the handshake takes virtual time); the pool fills while the later dials are still under way. Every connection
	// ever dialed belongs to the forwarder's set: closed exactly once by the time every forwarder has been retired.
	shallow := []B{{0, 0}, {1, 0}, {0, 1}}
	burst := 5 * time.Millisecond
	dn, en := "d.c9.test.", "e.c9.test."
	three := C(cl(q(a, tA, 0x5005)), cl(q(b, tA, 0x5005)), cl(q(c, tA, 0x5005)))
	// "fail so that UDP falls back to TCP": three truncated UDP replies, the three fallbacks reach the TCP pool together
	add(&control.C09Params{Name: "L2/burst-fallback-pool2", Layer: 2, DialLatency: burst, PoolMax: 2, Script: []string{"truncated", "truncated", "truncated"},
		Clients: C(cl(q(a, tA, 0x4004)), cl(q(b, tA, 0x4004)), cl(q(c, tA, 0x4004)))},
		shallow, []B{{0, 0}, {1, 0}, {0, 1}, {2, 0}})
	// the burst while a configuration reload retires the forwarder: the set is closed after its last in-flight query
	add(&control.C09Params{Name: "L3/burst-3-pool2-retire", Layer: 3, DialLatency: burst, PoolMax: 2, Background: "retire", Behaviours: []string{"ok", "close", "silent"}, Clients: three},
		shallow, []B{{0, 0}, {1, 0}, {0, 1}, {2, 0}, {1, 1}})
	// pool capacity lowered to 2, three clients, the three dials complete in every order
	add(&control.C09Params{Name: "L3/burst-3-pool2", Layer: 3, DialLatency: burst, PoolMax: 2, Clients: three},
		shallow, []B{{0, 0}, {1, 0}, {0, 1}, {2, 0}, {1, 1}})
	// production pool capacity (4), five clients, the dials complete in the order they were started
	add(&control.C09Params{Name: "L3/burst-5", Layer: 3, DialLatency: burst, DialStagger: time.Microsecond, MaxSteps: 8000,
		Clients: C(cl(q(a, tA, 0x5005)), cl(q(b, tA, 0x5005)), cl(q(c, tA, 0x5005)), cl(q(dn, tA, 0x5005)), cl(q(en, tA, 0x5005)))},
		[]B{{0, 0}, {1, 0}}, []B{{0, 0}, {1, 0}, {0, 1}, {1, 1}})
	// without a dial latency the same over-subscription needs two stalled goroutines (thorough tier)
	add(&control.C09Params{Name: "L3/burst-3-pool2/instant-dial", Layer: 3, PoolMax: 2, Behaviours: []string{"ok"}, Clients: three},
		nil, []B{{0, 0}, {1, 0}, {2, 0}})

	// ---- forwarder generations: a retired forwarder still draining while its replacement is already cached ----------
	// Three different questions, one client asks two of them (a then c), the other one b: when the exchange for a fails
	// the forwarder is retired under b's query, question c creates the replacement under the same cache key, and then
	// the query still running on the retired forwarder ends (fails, mismatches, times out) too. Whatever that late
	// completion — or a racing reload / idle eviction that picked the old forwarder — does must be aimed at ITS
	// forwarder: the replacement stays in service and is closed (once) by retire-all.
	gen := C(cl(q(a, tA, 0x9101), q(c, tA, 0x9103)), cl(q(b, tA, 0x9202)))
	// idle eviction as the racing route: the evictor has picked the idle forwarder (created by a), question b fails on
	// it (error retirement) and question c installs the replacement before the evictor acts
	add(&control.C09Params{Name: "L1/gen-evict/after-error", Layer: 1, Background: "evict", Script: []string{"ok", "error"}, Behaviours: []string{"ok", "error", "foreign-name", "slow"},
		Clients: C(cl(q(a, tA, 0x9101)), cl(q(b, tA, 0x9202), q(c, tA, 0x9203)))},
		[]B{{0, 0}, {1, 0}, {0, 1}, {1, 1}}, []B{{0, 0}, {1, 0}, {0, 1}, {2, 0}, {1, 1}, {0, 2}, {2, 1}})
	// real DoUDP (tcp+udp upstream): the retired UDP forwarder owns pooled sockets, the replacement dials its own;
	// question a gets no reply at all (its exchange ends at the read deadline); one transaction ID throughout
	gen2 := C(cl(q(a, tA, 0x4004), q(c, tA, 0x4004)), cl(q(b, tA, 0x4004)))
	add(&control.C09Params{Name: "L2/gen-overlap/after-timeout", Layer: 2, Script: []string{"nothing"}, Clients: gen2},
		shallow, []B{{0, 0}, {1, 0}, {0, 1}, {2, 0}, {1, 1}})
	add(&control.C09Params{Name: "L2/gen-overlap", Layer: 2, Clients: gen2},
		nil, []B{{0, 0}, {1, 0}, {0, 1}, {0, 2}})

	// the same with a configuration reload (retire-all) in the evictor's place
	add(&control.C09Params{Name: "L1/gen-retire-last/after-error", Layer: 1, Background: "retire-last", Script: []string{"ok", "error"}, Behaviours: []string{"ok", "error", "foreign-name", "slow"},
		Clients: C(cl(q(a, tA, 0x9101)), cl(q(b, tA, 0x9202), q(c, tA, 0x9203)))},
		[]B{{0, 0}, {1, 0}, {0, 1}, {1, 1}}, []B{{0, 0}, {1, 0}, {0, 1}, {2, 0}, {1, 1}, {0, 2}, {2, 1}})
	// every upstream behaviour free (the overlap needs two failures: deviation bound 2 is reached in the thorough tier)
	add(&control.C09Params{Name: "L1/gen-overlap", Layer: 1, Clients: gen},
		shallow, []B{{0, 0}, {1, 0}, {0, 1}, {2, 0}, {1, 1}, {0, 2}, {2, 1}, {1, 2}})
	// the first exchange (question a) is forced to end in a retirement, by each route a reply can take there: a failed
	// exchange, an answer to another question (mismatch). Everything after it is enumerated.
	add(&control.C09Params{Name: "L1/gen-overlap/after-error", Layer: 1, Script: []string{"error"}, Clients: gen},
		shallow, []B{{0, 0}, {1, 0}, {0, 1}, {2, 0}, {1, 1}, {0, 2}})
	add(&control.C09Params{Name: "L1/gen-overlap/after-mismatch", Layer: 1, Script: []string{"foreign-name"}, Clients: gen},
		shallow, []B{{0, 0}, {1, 0}, {0, 1}, {2, 0}, {1, 1}, {0, 2}})
	// a configuration reload (retire-all) arriving at the instant the first exchanges of both clients complete
	add(&control.C09Params{Name: "L1/gen-retire/after-error", Layer: 1, Background: "retire-late", Script: []string{"error"}, Behaviours: []string{"ok", "error", "foreign-name", "slow"}, Clients: gen},
		shallow, []B{{0, 0}, {1, 0}, {0, 1}, {2, 0}, {1, 1}, {0, 2}})

	p := &vdrive.Plan{
		Scenarios:     scs,
		ManyScenarios: true,
		// one worker process per scenario (GOMAXPROCS=1 each; the OS shares the 16 cores among them): every scenario
		// starts at once and deepens its own bound list until it is done or the common deadline is reached, so a
		// long list never keeps another scenario from running at all
		Shards:         len(scs),
		QuickBounds:    []B{{0, 0}, {1, 1}},
		ThoroughBounds: []B{{0, 0}, {1, 1}, {2, 1}},
		PerScenario:    per,
		BudgetQuick:    110 * time.Second,
		BudgetThorough: 21 * time.Minute,
		Finish: func(r *vlib.Run) {
			r.Rule("bound (p,d): p = switches away from the default scheduler choice (preemptions and non-default picks when the running thread blocks), d = environment deviations = scripted-upstream misbehaviours (vsched.Choose != 0) plus timers fired while a thread could still run (a stalled goroutine: context and socket deadlines expire early)")
			r.Assume("golang.org/x/sync/singleflight (coalescing) is the module's own file, copied verbatim by checks/C09/prebuild into a virtual package and instrumented like the repo files; control/dns_control.go is taken from the working tree with exactly its singleflight import path swapped")
			r.Assume("dnsPipelineMaxIDs lowered from 4096 to 8 by an overlay constant (pipelinedConn.closeWithErr walks the whole pending table; at most 3 requests are in flight here)")
			r.Assume("clients enter through DnsController.HandleWithResponseWriter_ with a capturing ResponseWriter (the path of the DNS listener and DNS-over-TCP); the transparent-UDP packet path (Handle_, sendRuntimeTrackedPkt) is executed in L1/udp-path-big-txt only, onto real loopback sockets read without blocking after the clients are done. A handler error is what the listeners turn into SERVFAIL built from the request")
			r.Assume("packet path: the pre-packed reply image of a cache entry, once published, must never change (identity of the published slice; a re-pack publishes a new one) — a sufficient condition for hits under different transaction IDs not to race on it")
			r.Assume("an upstream reply whose question section is the client's question but whose records are garbage cannot be told from an answer by a forwarder and is not in the behaviour alphabet; foreign answers are whole messages generated for another question (other name or other type) under the request's ID")
			r.Assume("cache hits are served from the pre-packed bytes (live since 822787e); the re-pack slow path (entry older than 15s, still fresh) is reached in L1/chain-aging only; optimistic (stale) serving is off")
			r.Assume("every scenario ends with retire-all (ResetDnsForwarders) + quiescence before the controller is closed: from then on every forwarder ever created must have seen Close exactly once")
			r.Assume("layers 2/3: simulated sockets (simnet), direct dialer profile (no proxy): DoH/DoQ/DoTLS transports are not executed")
			r.Assume("burst scenarios: an upstream TCP dial takes 5ms of virtual time (elsewhere it completes within the caller's step); in the *-pool2 scenarios the capacity of the real DoTCP connPool is lowered from 4 to 2 by the harness (field connPool.maxConns, set before the first query) so that three clients over-subscribe it; L3/burst-5 runs the production capacity with five clients whose dials complete in the order they were started (1us apart; the *-pool2 scenarios take every completion order)")
			r.Assume("once every forwarder has been retired and no query is in flight, every upstream UDP socket and TCP connection ever dialed must have been closed (checked before DnsController.Close, which would sweep the forwarder cache again)")
			r.Assume("generation scenarios (gen-*): the first exchange(s) are scripted to end in an error retirement where named /after-*; L1/gen-overlap and L2/gen-overlap leave every exchange free and need deviation bound 2 for the overlap (thorough tier)")
		},
	}
	vdrive.Main("C09", p)
}
