#!/bin/bash
# Runs every mutants/<ID>-*.patch and every seeded/<ID>-seed*/patch.diff against the quick check of its property
# (scratch worktrees of /repo HEAD, never /repo itself) and writes mutants/RESULTS.tsv.  Usage: tools/run_all_mutants.sh [ID ...]
VERIF="$(cd "$(dirname "$0")/.." && pwd)"
OUT="${MUT_RESULTS:-$VERIF/mutants/RESULTS.tsv}"
IDS="$@"; [ -z "$IDS" ] && IDS=$(cat "$VERIF/tools/claimed.txt")
: > "$OUT.tmp"
for ID in $IDS; do
  P=$(ls "$VERIF"/mutants/$ID-*.patch 2>/dev/null)
  S=$(ls "$VERIF"/seeded/$ID-seed*/patch.diff 2>/dev/null)
  [ "${MUT_ONLY:-}" = seeds ] && P=""
  [ "${MUT_ONLY:-}" = own ] && S=""
  [ -z "$P$S" ] && continue
  MUT_TESTS=${MUT_TESTS:-1} "$VERIF/run-mutants" "$ID" $P $S 2>&1 | grep '^MUTANT' | while read -r line; do
    name=$(echo "$line" | sed -E 's/^MUTANT ([^:]+):.*/\1/')
    res=$(echo "$line" | sed -E 's/^MUTANT [^:]+: ([A-Z]+).*/\1/')
    tests=$(echo "$line" | sed -nE 's/.*tests=([^),]+).*/\1/p')
    sig=$(echo "$line" | sed -nE 's/.*signature: (.*)/\1/p' | cut -c1-160)
    printf "%s\t%s\t%s\t%s\t%s\n" "$ID" "$name" "$res" "$tests" "$sig" >> "$OUT.tmp"
  done
done
mv "$OUT.tmp" "$OUT"
echo "wrote $OUT: $(grep -c DETECTED "$OUT") detected, $(grep -vc DETECTED "$OUT") not detected"
