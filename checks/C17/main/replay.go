package main

import (
	"encoding/json"
	"fmt"
	"os"
	"strings"
)

// replayFile re-runs the minimal input recorded in a violation file and exits 1 if it still violates.
func replayFile(path string) {
	b, err := os.ReadFile(path)
	if err != nil {
		fmt.Fprintln(os.Stderr, "replay:", err)
		os.Exit(2)
	}
	var v struct {
		Signature string         `json:"signature"`
		Detail    map[string]any `json:"detail"`
	}
	if err := json.Unmarshal(b, &v); err != nil {
		fmt.Fprintln(os.Stderr, "replay:", err)
		os.Exit(2)
	}
	fmt.Println("replaying:", v.Signature)
	switch {
	case strings.Contains(v.Signature, "leg=typed"):
		text, _ := v.Detail["full_text"].(string)
		kind := "new"
		if strings.Contains(v.Signature, "kind=compile") || strings.Contains(text, "\nrouting{\n") {
			kind = "compile"
		}
		if strings.Contains(v.Signature, "kind=dns") || strings.Contains(text, "dns{ upstream") {
			kind = "dns"
		}
		res, err := runStream([]*sreq{{Kind: kind, Text: text, Groups: groups}}, 1)
		if err != nil {
			fmt.Fprintln(os.Stderr, "replay:", err)
			os.Exit(2)
		}
		switch {
		case res[0].crashed:
			fmt.Println("STILL VIOLATES: worker process died\n" + tailOf(res[0].tail))
			os.Exit(1)
		case res[0].resp != nil && res[0].resp.Panic != "":
			fmt.Println("STILL VIOLATES: panic\n" + res[0].resp.Panic)
			os.Exit(1)
		default:
			fmt.Printf("no crash now: stage=%s err=%q match_sets=%d (content oracles are only re-evaluated by a full run)\n", res[0].resp.Stage, res[0].resp.Err, res[0].resp.MatchSets)
		}
	case strings.Contains(v.Signature, "leg=include"):
		fmt.Println("include-tree cases are rebuilt only by a full run:", v.Detail["minimal_case"])
	default:
		text, _ := v.Detail["minimal_input"].(string)
		r := checkText(text, "")
		fmt.Printf("input=%q\nreference accepts=%v\nverdict kind=%q %s\n%s\n", text, r.Accept, r.Kind, r.Sig, r.Detail)
		if r.Kind != "" {
			fmt.Println("STILL VIOLATES")
			os.Exit(1)
		}
		fmt.Println("holds now")
	}
	os.Exit(0)
}
