// Package vlib: shared plumbing of every check binary — flags, evidence file, violation
// reporting with replay artefacts, known-findings matching, counters, worker pool.
package vlib

import (
	"crypto/sha256"
	"encoding/hex"
	"encoding/json"
	"flag"
	"fmt"
	"os"
	"path/filepath"
	"regexp"
	"runtime"
	"sort"
	"strings"
	"sync"
	"sync/atomic"
	"time"
)

type Finding struct {
	Property string `json:"property"`
	Status   string `json:"status"` // "known" suppresses (prints KNOWN-FINDING); "fixed" suppresses nothing
	Match    string `json:"match,omitempty"`
	MatchRe  string `json:"match_re,omitempty"`
	Commit   string `json:"commit,omitempty"`
	What     string `json:"what"`
	re       *regexp.Regexp
}

type violation struct {
	Sig    string `json:"signature"`
	Detail any    `json:"detail"`
	path   string
	known  *Finding
}

type Run struct {
	ID        string
	Level     string
	tier      string
	seed      int64
	evidence  string
	knownPath string
	replayDir string
	ReplayArg string
	budget    time.Duration
	start     time.Time

	mu          sync.Mutex
	counters    map[string]*atomic.Int64
	distinct    map[string]struct{}
	samples     []any
	maxSamples  int
	extra       map[string]any
	assumptions []string
	rule        string
	viol        []*violation
	violSeen    map[string]bool
	findings    []*Finding
	exhaustive  bool
	capsHit     []string
	Workers     int
}

var (
	fTier      = flag.String("tier", "quick", "quick|thorough")
	fEvidence  = flag.String("evidence", "", "evidence file")
	fKnown     = flag.String("known", "/verif/known_findings.json", "known findings file")
	fReplayDir = flag.String("replaydir", "", "replay dir")
	fReplay    = flag.String("replay", "", "replay one recorded violation file")
	fBudget    = flag.Duration("budget", 0, "internal time budget (0 = tier default)")
	fWorkers   = flag.Int("workers", 0, "worker count (0 = NumCPU)")
)

func Start(id, level string) *Run {
	if !flag.Parsed() {
		flag.Parse()
	}
	r := &Run{ID: id, Level: level, tier: *fTier, evidence: *fEvidence, knownPath: *fKnown,
		replayDir: *fReplayDir, ReplayArg: *fReplay, start: time.Now(),
		counters: map[string]*atomic.Int64{}, distinct: map[string]struct{}{}, extra: map[string]any{},
		violSeen: map[string]bool{}, maxSamples: 6, exhaustive: true}
	if r.tier != "quick" && r.tier != "thorough" {
		fmt.Fprintln(os.Stderr, "bad -tier")
		os.Exit(2)
	}
	if s := os.Getenv("VERIF_SEED"); s != "" {
		fmt.Sscan(s, &r.seed)
	}
	if r.evidence == "" {
		r.evidence = "/verif/evidence/" + id + ".json"
	}
	if r.replayDir == "" {
		r.replayDir = "/verif/replays/" + id
	}
	r.budget = *fBudget
	r.Workers = *fWorkers
	if r.Workers <= 0 {
		r.Workers = runtime.NumCPU()
	}
	r.loadKnown()
	return r
}

func (r *Run) Tier() string   { return r.tier }
func (r *Run) Thorough() bool { return r.tier == "thorough" }
func (r *Run) Seed() int64    { return r.seed }

// Budget returns the internal time budget: flag value, or the given per-tier defaults.
func (r *Run) Budget(quick, thorough time.Duration) time.Duration {
	if r.budget > 0 {
		return r.budget
	}
	if r.Thorough() {
		return thorough
	}
	return quick
}

func (r *Run) Elapsed() time.Duration { return time.Since(r.start) }

// OverBudget reports whether the internal deadline passed; callers then stop, call CapHit and Finish (exit 0).
func (r *Run) OverBudget(quick, thorough time.Duration) bool {
	return time.Since(r.start) > r.Budget(quick, thorough)
}

func (r *Run) CapHit(what string) {
	r.mu.Lock()
	defer r.mu.Unlock()
	r.exhaustive = false
	for _, c := range r.capsHit {
		if c == what {
			return
		}
	}
	r.capsHit = append(r.capsHit, what)
}

func (r *Run) loadKnown() {
	b, err := os.ReadFile(r.knownPath)
	if err != nil {
		return
	}
	var f struct {
		Findings []*Finding `json:"findings"`
	}
	if err := json.Unmarshal(b, &f); err != nil {
		fmt.Fprintf(os.Stderr, "known findings file unreadable: %v\n", err)
		os.Exit(2)
	}
	for _, k := range f.Findings {
		if k.Property != r.ID || k.Status != "known" {
			continue
		}
		if k.MatchRe != "" {
			k.re = regexp.MustCompile(k.MatchRe)
		}
		r.findings = append(r.findings, k)
	}
}

func (r *Run) Counter(name string) *atomic.Int64 {
	r.mu.Lock()
	defer r.mu.Unlock()
	c := r.counters[name]
	if c == nil {
		c = new(atomic.Int64)
		r.counters[name] = c
	}
	return c
}

func (r *Run) Add(name string, n int64) { r.Counter(name).Add(n) }

// Distinct records one distinct non-trivial case key (hashed, so memory stays bounded per key).
func (r *Run) Distinct(key string) {
	h := sha256.Sum256([]byte(key))
	k := string(h[:12])
	r.mu.Lock()
	r.distinct[k] = struct{}{}
	r.mu.Unlock()
}

func (r *Run) DistinctCount() int {
	r.mu.Lock()
	defer r.mu.Unlock()
	return len(r.distinct)
}

func (r *Run) Sample(v any) {
	r.mu.Lock()
	if len(r.samples) < r.maxSamples {
		r.samples = append(r.samples, v)
	}
	r.mu.Unlock()
}

func (r *Run) Set(key string, v any) {
	r.mu.Lock()
	r.extra[key] = v
	r.mu.Unlock()
}

func (r *Run) Rule(s string) { r.rule = s }

func (r *Run) Assume(s string) {
	r.mu.Lock()
	r.assumptions = append(r.assumptions, s)
	r.mu.Unlock()
}

// Violation records a violation. sig is the stable identification (the failing input, call site or
// history) used for de-duplication and known-finding matching; detail is written to the replay file.
func (r *Run) Violation(sig string, detail any) {
	r.mu.Lock()
	defer r.mu.Unlock()
	if r.violSeen[sig] {
		return
	}
	r.violSeen[sig] = true
	v := &violation{Sig: sig, Detail: detail}
	for _, k := range r.findings {
		if (k.Match != "" && k.Match == sig) || (k.re != nil && k.re.MatchString(sig)) {
			v.known = k
			break
		}
	}
	r.viol = append(r.viol, v)
}

func (r *Run) ViolationCount() int {
	r.mu.Lock()
	defer r.mu.Unlock()
	n := 0
	for _, v := range r.viol {
		if v.known == nil {
			n++
		}
	}
	return n
}

// Finish writes the evidence file, prints KNOWN-FINDING / VIOLATION lines and exits.
func (r *Run) Finish() {
	r.mu.Lock()
	defer r.mu.Unlock()
	os.MkdirAll(r.replayDir, 0o755)
	// stale replays of earlier runs are removed so that the directory describes this run
	if ents, err := os.ReadDir(r.replayDir); err == nil {
		for _, e := range ents {
			if strings.HasPrefix(e.Name(), "viol-") {
				os.Remove(filepath.Join(r.replayDir, e.Name()))
			}
		}
	}
	sort.SliceStable(r.viol, func(i, j int) bool { return len(r.viol[i].Sig) < len(r.viol[j].Sig) })
	unknown := 0
	knownPrinted := map[*Finding]bool{}
	for _, v := range r.viol {
		if v.known != nil {
			if !knownPrinted[v.known] {
				knownPrinted[v.known] = true
				fmt.Printf("KNOWN-FINDING: property=%s %s\n", r.ID, v.known.What)
			}
			continue
		}
		unknown++
		if unknown > 200 {
			continue
		}
		h := sha256.Sum256([]byte(v.Sig))
		v.path = filepath.Join(r.replayDir, "viol-"+hex.EncodeToString(h[:6])+".json")
		b, _ := json.MarshalIndent(map[string]any{"property": r.ID, "signature": v.Sig, "detail": v.Detail}, "", " ")
		os.WriteFile(v.path, b, 0o644)
		if unknown <= 25 {
			fmt.Printf("VIOLATION property=%s replay=%s\n", r.ID, v.path)
			fmt.Printf("  signature: %s\n", trunc(v.Sig, 400))
		}
	}
	cov := map[string]any{}
	for k, v := range r.extra {
		cov[k] = v
	}
	for k, c := range r.counters {
		cov[k] = c.Load()
	}
	if _, ok := cov["distinct_nontrivial"]; !ok {
		cov["distinct_nontrivial"] = len(r.distinct)
	}
	if r.rule != "" {
		cov["rule"] = r.rule
	}
	if len(r.samples) == 0 {
		r.samples = []any{"(no sample recorded)"}
	}
	cov["samples"] = r.samples
	cov["exhaustive"] = r.exhaustive
	if len(r.capsHit) > 0 {
		cov["caps_hit"] = r.capsHit
	}
	cov["known_findings_reported"] = len(knownPrinted)
	ev := map[string]any{
		"property_id": r.ID, "tier": r.tier, "seed": r.seed, "level": r.Level,
		"coverage": cov, "assumptions": r.assumptions, "wall_s": time.Since(r.start).Seconds(),
		"violations": unknown,
	}
	if r.assumptions == nil {
		ev["assumptions"] = []string{}
	}
	b, _ := json.MarshalIndent(ev, "", " ")
	os.MkdirAll(filepath.Dir(r.evidence), 0o755)
	if err := os.WriteFile(r.evidence, b, 0o644); err != nil {
		fmt.Fprintf(os.Stderr, "cannot write evidence: %v\n", err)
		os.Exit(2)
	}
	fmt.Printf("%s %s: wall=%.1fs exhaustive=%v violations=%d known=%d", r.ID, r.tier, time.Since(r.start).Seconds(), r.exhaustive, unknown, len(knownPrinted))
	keys := make([]string, 0, len(cov))
	for k := range cov {
		keys = append(keys, k)
	}
	sort.Strings(keys)
	for _, k := range keys {
		switch cov[k].(type) {
		case int, int64, uint64, float64:
			fmt.Printf(" %s=%v", k, cov[k])
		}
	}
	fmt.Println()
	if unknown > 0 {
		os.Exit(1)
	}
	os.Exit(0)
}

func trunc(s string, n int) string {
	if len(s) <= n {
		return s
	}
	return s[:n] + "…"
}

// ParallelFor runs fn(i) for i in [0,n) on r.Workers goroutines (for pure, sequential code under test).
func (r *Run) ParallelFor(n int, fn func(i int)) {
	var next atomic.Int64
	var wg sync.WaitGroup
	w := r.Workers
	if w > n {
		w = n
	}
	for k := 0; k < w; k++ {
		wg.Add(1)
		go func() {
			defer wg.Done()
			for {
				i := int(next.Add(1) - 1)
				if i >= n {
					return
				}
				fn(i)
			}
		}()
	}
	wg.Wait()
}

// Try runs fn and converts a panic into (true, message with a short stack).
func Try(fn func()) (panicked bool, msg string) {
	defer func() {
		if e := recover(); e != nil {
			buf := make([]byte, 4096)
			buf = buf[:runtime.Stack(buf, false)]
			panicked = true
			msg = fmt.Sprintf("%v\n%s", e, buf)
		}
	}()
	fn()
	return
}

// PanicSite extracts "file.go:line" frames of repo code from a Try message (stable part of a signature).
func PanicSite(msg string) string {
	re := regexp.MustCompile(`/(?:repo|[^\s]*dae[^\s/]*)/((?:[a-z_]+/)+[a-zA-Z0-9_]+\.go):(\d+)`)
	for _, ln := range strings.Split(msg, "\n") {
		if strings.Contains(ln, "verifx/") || strings.Contains(ln, "zz_verif") {
			continue
		}
		if m := re.FindStringSubmatch(ln); m != nil {
			return m[1] + ":" + m[2]
		}
	}
	return "unknown-site"
}

func JSON(v any) string {
	b, _ := json.Marshal(v)
	return string(b)
}
