//go:build verif

// Shared in-package harness of checks C15/C16 (package dialer): construction of goroutine-free nodes on a fake
// transport, scripted probes through the REAL d.check(), virtual-time helpers, reset of the package globals and
// exact dumps of the private state (collections, counters, latency windows, recovery timers, AliveDialerSet
// arrays/index maps). This file is listed under "instrument" in check.json, so time.* below is the VIRTUAL clock
// whenever the caller runs inside vsched.Run.
package dialer

import (
	"context"
	"errors"
	"time"

	"github.com/daeuniverse/dae/verifx/vsched"
	"github.com/daeuniverse/outbound/netproxy"
)

type verifNoopDialer struct{}

func (verifNoopDialer) DialContext(context.Context, string, string) (netproxy.Conn, error) {
	return nil, errors.New("verif: fake transport does not dial")
}

// ---- package globals -------------------------------------------------------------------------------------

var verifLastStored int64

// VerifReset puts every package-level global the health code reads back to its start-of-process value and
// takes ownership of cachedTimeNano (virtual now). Call it first in every history.
func VerifReset() {
	resetGlobalProxyState()
	reloadProxyFailureSuppression.Store(0)
	reloadProxyFailureSuppressUntil.Store(0)
	now := time.Now().UnixNano()
	cachedTimeNano.Store(now)
	verifLastStored = now
}

// VerifClockSync stores the virtual now into cachedTimeNano (in production a 1 s ticker does that). It reports
// whether somebody else wrote the variable since the harness' last store: the package init starts an UNMANAGED
// goroutine that stores the REAL wall clock once per real second; a history during which that happened is
// discarded and replayed by the caller (the outcome of an accepted history is therefore a pure function of it).
func VerifClockSync() (interfered bool) {
	interfered = cachedTimeNano.Load() != verifLastStored
	now := time.Now().UnixNano()
	cachedTimeNano.Store(now)
	verifLastStored = now
	return interfered
}

// VerifClockInterfered is the end-of-history variant (no store).
func VerifClockInterfered() bool { return cachedTimeNano.Load() != verifLastStored }

func VerifNowNano() int64 { return time.Now().UnixNano() }

// VerifSleep advances the virtual clock by d (due timers fire in deadline order, their goroutines run) and
// waits until every background thread has settled.
func VerifSleep(d time.Duration) {
	if d > 0 {
		time.Sleep(d)
	}
	vsched.Quiesce()
}

var VerifErrProbe = errors.New("verif: scripted probe failure")

// VerifProbe runs ONE real connectivity check d.check() for typ whose CheckFunc is scripted: it takes `latency`
// of virtual time and then answers (ok, err). ok=true,err=nil: success; err!=nil: failure (the real code retries
// once, the script fails again); ok=false,err=nil: "no applicable IP" skip; err=context.Canceled: teardown.
func (d *Dialer) VerifProbe(typ *NetworkType, latency time.Duration, ok bool, err error) {
	nt := *typ
	_, _ = d.check(&CheckOption{
		networkType: &nt,
		CheckFunc: func(ctx context.Context, t *NetworkType) (bool, error) {
			if latency > 0 {
				time.Sleep(latency)
			}
			return ok, err
		},
	}, false, nil)
	vsched.Quiesce()
}

