// C01 — traffic is routed by the first matching rule, exactly as the rules are written.
// Bounded-exhaustive enumeration (engine Q): every program of the vroute generator (tier 1: all single rules
// over the per-function boundary alphabets; tier 2: interaction programs over three atoms; tier 3: lists of
// single-condition rules that trigger rule merging) is pushed through the production pipeline
//
//	rule text -> config_parser.Parse -> config.New (patchMustOutbound) -> routing.NewNormalizedProgram(chain)
//	-> NewRoutingMatcherBuilderFromProgram -> BuildUserspace -> ControlPlane.Route
//
// in two legs: "alias" (chain = AliasOptimizer only: rules lowered in written order) and "prod" (chain = the one
// wired in control/control_plane.go of the tree under test: the program the control plane really decides on),
// and decided for every packet of the boundary product of the program's own constants; each decision
// (outbound, mark, must) is compared with the vroute reference interpreter, which reads the raw parsed AST
// of the rules AS WRITTEN and is built from the property statement only.
package main

import (
	"encoding/json"
	"fmt"
	"go/ast"
	"go/parser"
	"go/token"
	"hash/fnv"
	"net/netip"
	"os"
	"path/filepath"
	"sort"
	"strings"
	"sync"
	"sync/atomic"
	"time"

	"github.com/daeuniverse/dae/common/assets"
	"github.com/daeuniverse/dae/common/consts"
	"github.com/daeuniverse/dae/component/routing"
	"github.com/daeuniverse/dae/control"
	"github.com/daeuniverse/dae/pkg/config_parser"
	"github.com/daeuniverse/dae/verifx/vlib"
	"github.com/daeuniverse/dae/verifx/vroute"
)

const maxRecorded = 60 // violations recorded in detail; after that the run stops early (it already failed)

type checker struct {
	r        *vlib.Run
	id2name  []string
	evals    *atomic.Int64
	programs *atomic.Int64
	byRule   *atomic.Int64 // decisions taken by a rule (or after a must_rules hit): the non-trivial cases
	byFb     *atomic.Int64
	mustDec  *atomic.Int64
	markDec  *atomic.Int64
	mism     atomic.Int64

	mu       sync.Mutex
	outcomes map[string]int64
	textSeen map[uint64]struct{}
	dupText  int64
	lone     map[string][2]int64 // per [!]function as the only condition of the only rule: packets where it held / did not
}

func l4Of(s string) consts.L4ProtoType {
	if s == "udp" {
		return consts.L4ProtoType_UDP
	}
	return consts.L4ProtoType_TCP
}

func pname16(s string) (o [16]uint8) { copy(o[:], s); return }

type caseDetail struct {
	Leg          string          `json:"leg"`
	Lowered      string          `json:"rules_actually_lowered"`
	Program      *vroute.Program `json:"program"`
	Config       string          `json:"config"`
	Packet       pktJSON         `json:"packet"`
	Want         string          `json:"want"`
	Got          string          `json:"got"`
	HitRule      int             `json:"reference_hit_rule"`
	MustRulesHit int             `json:"reference_must_rules_hit"`
}

type pktJSON struct {
	Src, Dst string
	L4       string
	Domain   string
	Pname    string
	Mac      string
	Dscp     uint8
}

func toJSON(p *vroute.Packet) pktJSON {
	return pktJSON{Src: p.Src.String(), Dst: p.Dst.String(), L4: p.L4, Domain: p.Domain, Pname: p.Pname,
		Mac: fmt.Sprintf("%02x:%02x:%02x:%02x:%02x:%02x", p.Mac[0], p.Mac[1], p.Mac[2], p.Mac[3], p.Mac[4], p.Mac[5]), Dscp: p.Dscp}
}

func fromJSON(j pktJSON) (vroute.Packet, error) {
	var p vroute.Packet
	var err error
	if p.Src, err = netip.ParseAddrPort(j.Src); err != nil {
		return p, err
	}
	if p.Dst, err = netip.ParseAddrPort(j.Dst); err != nil {
		return p, err
	}
	p.L4, p.Domain, p.Pname, p.Dscp = j.L4, j.Domain, j.Pname, j.Dscp
	_, err = fmt.Sscanf(j.Mac, "%02x:%02x:%02x:%02x:%02x:%02x", &p.Mac[0], &p.Mac[1], &p.Mac[2], &p.Mac[3], &p.Mac[4], &p.Mac[5])
	return p, err
}

// leg = which optimizer chain lowers the rules. "alias": only AliasOptimizer (the minimum the builder needs for
// dip/dport/domain-key spellings; rules are compiled in written order). "prod": the chain the control plane runs,
// read from the source of the tree under test (control/control_plane.go, the arguments of
// routing.NewNormalizedProgram), in that order.
type leg struct {
	name  string
	chain func() []routing.RulesOptimizer
}

var (
	legAlias = &leg{name: "alias", chain: func() []routing.RulesOptimizer { return []routing.RulesOptimizer{&routing.AliasOptimizer{}} }}
	legProd  *leg
	legs     = map[string]*leg{}

	prodChainNames []string
)

// wiredChain reads the optimizer type names from the single routing.NewNormalizedProgram call in control_plane.go.
func wiredChain(repo string) ([]string, error) {
	fset := token.NewFileSet()
	f, err := parser.ParseFile(fset, filepath.Join(repo, "control", "control_plane.go"), nil, 0)
	if err != nil {
		return nil, err
	}
	var names []string
	found := 0
	ast.Inspect(f, func(n ast.Node) bool {
		call, ok := n.(*ast.CallExpr)
		if !ok {
			return true
		}
		sel, ok := call.Fun.(*ast.SelectorExpr)
		if !ok || sel.Sel.Name != "NewNormalizedProgram" {
			return true
		}
		if x, ok := sel.X.(*ast.Ident); !ok || x.Name != "routing" {
			return true
		}
		found++
		for _, a := range call.Args[2:] {
			name := "?"
			if u, ok := a.(*ast.UnaryExpr); ok {
				if cl, ok := u.X.(*ast.CompositeLit); ok {
					if s, ok := cl.Type.(*ast.SelectorExpr); ok {
						name = s.Sel.Name
					}
				}
			}
			names = append(names, name)
		}
		return true
	})
	if found != 1 || len(names) == 0 {
		return nil, fmt.Errorf("expected exactly one routing.NewNormalizedProgram(rules, fallback, optimizers...) call in control_plane.go, found %d with %d optimizers", found, len(names))
	}
	return names, nil
}

func prodLeg(names []string, assetDir string) (*leg, error) {
	for _, n := range names {
		switch n {
		case "AliasOptimizer", "DatReaderOptimizer", "MergeAndSortRulesOptimizer", "DeduplicateParamsOptimizer":
		default:
			return nil, fmt.Errorf("unknown optimizer %q in the chain of control_plane.go", n)
		}
	}
	return &leg{name: "prod", chain: func() []routing.RulesOptimizer {
		var out []routing.RulesOptimizer
		for _, n := range names {
			switch n {
			case "AliasOptimizer":
				out = append(out, &routing.AliasOptimizer{})
			case "DatReaderOptimizer": // the generated programs carry no geoip:/geosite:/ext: values: no data file is ever opened
				out = append(out, &routing.DatReaderOptimizer{Logger: control.VerifQuietLogger(), LocationFinder: assets.NewLocationFinder([]string{assetDir})})
			case "MergeAndSortRulesOptimizer":
				out = append(out, &routing.MergeAndSortRulesOptimizer{})
			case "DeduplicateParamsOptimizer":
				out = append(out, &routing.DeduplicateParamsOptimizer{})
			}
		}
		return out
	}}, nil
}

// compile: parse once; reference from the raw AST first (config.New patches the AST in place, the optimizers
// rewrite it), then the production pipeline on the same sections through the leg's optimizer chain.
func compile(text string, lg *leg) (*vroute.Reference, *control.VerifRouting, error) {
	sections, err := config_parser.Parse(text)
	if err != nil {
		return nil, nil, fmt.Errorf("parse: %w", err)
	}
	ref, err := vroute.NewReferenceFromSections(sections)
	if err != nil {
		return nil, nil, fmt.Errorf("reference (harness): %w", err)
	}
	v, err := control.VerifCompileRoutingSections(sections, vroute.Groups, lg.chain())
	if err != nil {
		return nil, nil, err
	}
	return ref, v, nil
}

// route returns the implementation's decision with the outbound id translated back to its written name.
func (c *checker) route(v *control.VerifRouting, p *vroute.Packet) (vroute.Decision, error) {
	ob, mark, must, err := v.Route(p.Src, p.Dst, p.Domain, l4Of(p.L4), pname16(p.Pname), p.Mac, p.Dscp)
	if err != nil {
		return vroute.Decision{}, err
	}
	name := ""
	if int(ob) < len(c.id2name) {
		name = c.id2name[ob]
	}
	if name == "" {
		name = fmt.Sprintf("#%d", ob)
	}
	return vroute.Decision{Outbound: name, Mark: mark, Must: must}, nil
}

// the alias leg keeps the bare signature form (stable for known-finding matching), other legs are prefixed
func legPrefix(lg *leg) string {
	if lg == legAlias {
		return ""
	}
	return "leg=" + lg.name + " "
}

func lowered(v *control.VerifRouting) string {
	var rs []string
	for _, r := range v.OptRules {
		rs = append(rs, r.String(false, false, false))
	}
	return strings.Join(rs, " ; ")
}

func (c *checker) violate(sig string, d any) {
	if c.mism.Add(1) <= maxRecorded {
		c.r.Violation(sig, d)
	}
}

func (c *checker) one(prog *vroute.Program, lg *leg, opts vroute.PacketOpts, trackText bool, sample bool) {
	text := prog.ConfigText()
	if trackText {
		h := fnv.New64a()
		h.Write([]byte(lg.name + "|" + text))
		k := h.Sum64()
		c.mu.Lock()
		if _, dup := c.textSeen[k]; dup {
			c.dupText++
			if c.dupText <= 3 {
				fmt.Fprintf(os.Stderr, "C01: duplicate program (leg %s, %s): %s\n", lg.name, prog.Label, prog.OneLine())
			}
		}
		c.textSeen[k] = struct{}{}
		c.mu.Unlock()
	}
	var ref *vroute.Reference
	var v *control.VerifRouting
	var err error
	if p, msg := vlib.Try(func() { ref, v, err = compile(text, lg) }); p {
		c.violate("leg="+lg.name+" build panic at "+vlib.PanicSite(msg)+" prog="+prog.OneLine(), map[string]any{"config": text, "panic": msg, "leg": lg.name})
		return
	}
	if err != nil {
		c.violate("leg="+lg.name+" build error prog="+prog.OneLine()+" err="+err.Error(), map[string]any{"config": text, "program": prog, "leg": lg.name})
		return
	}
	c.programs.Add(1)
	pkts := vroute.PacketsFor(prog, opts)
	local := map[vroute.Decision]int64{}
	var nRule, nFb, nMust, nMark int64
	nviol := 0
	for i := range pkts {
		p := &pkts[i]
		want, hit := ref.Decide(p)
		local[want]++
		if hit.Rule >= 0 || hit.MustRules > 0 {
			nRule++
		} else {
			nFb++
		}
		if want.Must {
			nMust++
		}
		if want.Mark != 0 {
			nMark++
		}
		var got vroute.Decision
		var rerr error
		if pn, msg := vlib.Try(func() { got, rerr = c.route(v, p) }); pn {
			rerr = fmt.Errorf("panic at %s", vlib.PanicSite(msg))
		}
		if (rerr != nil || got != want) && nviol < 2 {
			nviol++
			ws, got := want.String(), got.String()
			if rerr != nil {
				got = "error: " + rerr.Error()
			}
			c.violate(fmt.Sprintf("%sprog=%s pkt=%s want=%s got=%s", legPrefix(lg), prog.OneLine(), p.Key(), ws, got),
				caseDetail{Leg: lg.name, Lowered: lowered(v), Program: prog, Config: text, Packet: toJSON(p), Want: ws, Got: got, HitRule: hit.Rule, MustRulesHit: hit.MustRules})
		}
	}
	if lg == legAlias && len(prog.Rules) == 1 && len(prog.Rules[0].Conds) == 1 {
		// vacuity guard: every function must be seen both holding and not holding as a lone condition
		cd := prog.Rules[0].Conds[0]
		k := cd.Func
		if cd.Not {
			k = "!" + k
		}
		c.mu.Lock()
		t := c.lone[k]
		t[0] += nRule
		t[1] += nFb
		c.lone[k] = t
		c.mu.Unlock()
	}
	c.evals.Add(int64(len(pkts)))
	c.byRule.Add(nRule)
	c.byFb.Add(nFb)
	c.mustDec.Add(nMust)
	c.markDec.Add(nMark)
	c.mu.Lock()
	for k, n := range local {
		c.outcomes[k.String()] += n
	}
	c.mu.Unlock()
	if sample && len(pkts) > 0 {
		d, hit := ref.Decide(&pkts[len(pkts)/2])
		c.r.Sample(map[string]any{"leg": lg.name, "routing": prog.RoutingBody(), "packets": len(pkts), "one_packet": pkts[len(pkts)/2].Key(), "its_decision": d.String(), "by_rule": hit.Rule})
	}
}

func (c *checker) runSpace(s *vroute.Space, lg *leg, opts vroute.PacketOpts, trackText bool) {
	n := s.Len()
	name := s.Name
	if lg != legAlias {
		name += "@" + lg.name
	}
	e0, p0 := c.evals.Load(), c.programs.Load()
	stride := n/3 + 1
	var done atomic.Int64
	c.r.ParallelFor(n, func(i int) {
		if c.mism.Load() > maxRecorded {
			return
		}
		if c.r.OverBudget(6*time.Minute, 60*time.Minute) { // runaway guard only (a heavily loaded host), never an oracle
			c.r.CapHit("internal time budget reached inside space " + name)
			return
		}
		c.one(s.At(i), lg, opts, trackText, i%stride == stride/2)
		if d := done.Add(1); n >= 1000000 && d%int64(n/5) == 0 && d < int64(n) {
			fmt.Printf("C01: space %-14s %d%% t=%.0fs\n", name, d*100/int64(n), c.r.Elapsed().Seconds())
		}
	})
	c.r.Set("space_"+name+"_programs", int(c.programs.Load()-p0))
	c.r.Set("space_"+name+"_decisions", int(c.evals.Load()-e0))
	fmt.Printf("C01: space %-14s programs=%d decisions=%d (%s) t=%.0fs\n", name, c.programs.Load()-p0, c.evals.Load()-e0, s.Descr, c.r.Elapsed().Seconds())
}

// alphabetDistinct verifies at run time that the rule alphabet of a tier-2 space is duplicate-free; programs are
// mixed-radix sequences over it, hence pairwise distinct (used where hashing every program text would need GBs).
func alphabetDistinct(r *vlib.Run) {
	for _, outs := range [][]string{vroute.Tier2Outbounds, vroute.Tier2OutboundsSmall} {
		s := vroute.Tier2Over(vroute.AllRotations(), 1, true, outs)
		per := s.Len() / len(vroute.AllRotations())
		for rot := range vroute.AllRotations() {
			seen := map[string]bool{}
			for i := rot * per; i < (rot+1)*per; i++ {
				t := s.At(i).Rules[0].Text()
				if seen[t] {
					fmt.Fprintf(os.Stderr, "C01: duplicate rule in tier-2 alphabet: %s\n", t)
					os.Exit(2)
				}
				seen[t] = true
			}
		}
	}
}

func replay(r *vlib.Run, c *checker) {
	b, err := os.ReadFile(r.ReplayArg)
	if err != nil {
		fmt.Fprintln(os.Stderr, err)
		os.Exit(2)
	}
	var f struct {
		Detail caseDetail `json:"detail"`
	}
	if err := json.Unmarshal(b, &f); err != nil || f.Detail.Config == "" {
		fmt.Fprintln(os.Stderr, "replay file has no program/packet (build-leg violation?)", err)
		os.Exit(2)
	}
	lg := legs[f.Detail.Leg]
	if lg == nil {
		lg = legAlias
	}
	ref, v, err := compile(f.Detail.Config, lg)
	if err != nil {
		fmt.Println("REPLAY build error:", err)
		os.Exit(1)
	}
	p, err := fromJSON(f.Detail.Packet)
	if err != nil {
		fmt.Fprintln(os.Stderr, err)
		os.Exit(2)
	}
	want, hit := ref.Decide(&p)
	got, rerr := c.route(v, &p)
	fmt.Printf("REPLAY leg=%s routing:\n%slowered: %s\npacket: %s\nreference: %s (rule %d)\nimplementation: %s err=%v\n", lg.name, f.Detail.Program.RoutingBody(), lowered(v), p.Key(), want, hit.Rule, got, rerr)
	if rerr != nil || got != want {
		fmt.Println("VIOLATION property=C01 replay=" + r.ReplayArg)
		os.Exit(1)
	}
	os.Exit(0)
}

func main() {
	r := vlib.Start("C01", "exploration")
	c := &checker{r: r, evals: r.Counter("evaluations"), programs: r.Counter("programs"), byRule: r.Counter("decided_by_rule_or_must_rules"),
		byFb: r.Counter("decided_by_plain_fallback"), mustDec: r.Counter("decisions_with_must"), markDec: r.Counter("decisions_with_mark"),
		outcomes: map[string]int64{}, textSeen: map[uint64]struct{}{}, lone: map[string][2]int64{}}
	c.id2name = make([]string, int(consts.OutboundUserDefinedMin)+len(vroute.Groups))
	c.id2name[consts.OutboundDirect], c.id2name[consts.OutboundBlock] = "direct", "block"
	for i, g := range vroute.Groups { // ids in the order VerifCompileRoutingSections assigns them
		c.id2name[int(consts.OutboundUserDefinedMin)+i] = g
	}
	if err := vroute.SelfTest(); err != nil { // hand-derived expectations for the reference: a failure is a broken harness
		fmt.Fprintln(os.Stderr, "C01:", err)
		os.Exit(2)
	}
	repo := os.Getenv("VERIF_REPO")
	if repo == "" {
		repo = "/repo"
	}
	names, err := wiredChain(repo)
	if err != nil {
		fmt.Fprintln(os.Stderr, "C01: cannot read the production optimizer chain:", err)
		os.Exit(2)
	}
	assetDir := os.Getenv("VERIF_WORKDIR")
	if assetDir == "" {
		assetDir = os.TempDir()
	}
	if legProd, err = prodLeg(names, assetDir); err != nil {
		fmt.Fprintln(os.Stderr, "C01:", err)
		os.Exit(2)
	}
	prodChainNames = names
	legs["alias"], legs["prod"] = legAlias, legProd
	fmt.Printf("C01: production chain read from %s/control/control_plane.go: %s\n", repo, strings.Join(names, " -> "))
	if r.ReplayArg != "" {
		replay(r, c)
	}
	alphabetDistinct(r)

	alias, prod := legAlias, legProd
	full := vroute.PacketOpts{MappedForms: true}
	compact := vroute.PacketOpts{Compact: true}
	rots := vroute.AllRotations()
	nVal := 2
	if r.Thorough() {
		nVal = 3
	}
	t1 := vroute.Tier1()
	c.runSpace(t1, alias, full, true)
	c.runSpace(vroute.Tier2Over(rots, 1, true, vroute.Tier2Outbounds), alias, full, true)
	// production-chain leg: the same single-rule programs (values and conditions get re-sorted, de-duplicated) and the
	// tier-3 lists of single-condition rules (neighbours get merged)
	c.runSpace(vroute.Tier3(2, 3), prod, compact, true)
	c.runSpace(t1, prod, full, true)
	c.runSpace(vroute.Tier2Over(rots, 1, true, vroute.Tier2Outbounds), prod, full, true)
	c.runSpace(vroute.Tier3(3, nVal), prod, compact, true)
	rule := "leg alias (rules lowered in written order, AliasOptimizer only): " + t1.Descr + fmt.Sprintf("; tier 2: %d rotations of three independent atoms (all ten functions; one rotation is mac x sip x dip), rule = any non-empty conjunction of {A,!A,B,!B,C,!C} (26) x single/multi-valued realisation (per rule) x 5 outbounds (incl. must_rules), all programs of exactly 1 and exactly 2 rules", len(rots))
	if !r.Thorough() {
		c.runSpace(vroute.Tier2Over(rots, 2, true, vroute.Tier2Outbounds), alias, compact, true)
		rule += " (2-rule programs with the compact packet product: one inside + one outside neighbour per constant)"
	} else {
		c.runSpace(vroute.Tier2Over(rots, 2, true, vroute.Tier2Outbounds), alias, vroute.PacketOpts{}, true)
		c.runSpace(vroute.Tier2Over(rots, 3, false, vroute.Tier2OutboundsSmall), alias, compact, false)
		rule += ", and all programs of exactly 3 rules over 3 outbounds {g1, must_g2, must_rules} with the realisation chosen per program (compact packet product)"
	}
	rule += fmt.Sprintf(". leg prod (the optimizer chain wired in control/control_plane.go of the tree under test: %s): tier 1 and the 1-rule tier-2 programs again, plus tier 3 = all programs of exactly 2 rules (3 values per function) and exactly 3 rules (%d values per function) where a rule is one condition [!]f(v), f in {domain(full:), dip, dport}, x outbounds {g1, g2, direct, must_g1, g1(mark:0x7)} (compact packet product); decisions compared with the reference on the rules as written", strings.Join(prodChainNames, ","), nVal)
	r.Rule(rule)
	for _, f := range []string{"domain", "dip", "ip", "sip", "dport", "port", "sport", "l4proto", "ipversion", "mac", "pname", "dscp"} {
		for _, k := range []string{f, "!" + f} {
			if c.mism.Load() == 0 && (c.lone[k][0] == 0 || c.lone[k][1] == 0) {
				fmt.Fprintf(os.Stderr, "C01: vacuous exploration: condition %s was never seen both holding and not holding\n", k)
				os.Exit(2)
			}
		}
	}
	loneOut := map[string]map[string]int64{}
	for k, t := range c.lone {
		loneOut[k] = map[string]int64{"held": t[0], "not_held": t[1]}
	}
	r.Set("lone_condition_truth", loneOut)
	r.Set("distinct_nontrivial", int(c.byRule.Load()))
	r.Set("duplicate_program_texts", int(c.dupText))
	r.Set("distinct_outcomes", len(c.outcomes))
	r.Set("mismatches", int(c.mism.Load()))
	var ks []string
	for k := range c.outcomes {
		ks = append(ks, k)
	}
	sort.Strings(ks)
	oc := map[string]int64{}
	for _, k := range ks {
		oc[k] = c.outcomes[k]
	}
	r.Set("outcome_histogram", oc)
	if c.mism.Load() > maxRecorded {
		r.CapHit(fmt.Sprintf("stopped early after %d mismatches (the run had already failed)", maxRecorded))
	}
	if c.dupText != 0 {
		fmt.Fprintf(os.Stderr, "C01: generator emitted %d duplicate program texts\n", c.dupText)
		os.Exit(2)
	}
	r.Assume("ControlPlane.Route is driven through a ControlPlane literal holding only the built RoutingMatcher (the fields Route reads); real-mode build of package control (no dae_stub_ebpf encoders)")
	r.Assume("leg alias applies only routing.AliasOptimizer (required for dip/dport/domain-key spellings) so that rules are lowered in written order; leg prod applies the chain of control_plane.go in its order (read from the source of the tree under test; NewControlPlane itself is not executed; no geodata values, so DatReaderOptimizer opens no file); the optimizers as such, over geodata and the DNS pipelines, are the subject of C04")
	r.Assume("a packet without a known domain matches no domain pattern; the generated regexes do not match the empty string")
	r.Assume("well-formed programs only: port ranges with start<=end, lower-case patterns over the host-name alphabet, groups defined")
	r.Finish()
}
