//go:build verif

// C09 harness inside package control — "every DNS client gets an answer to its own question under its own ID".
//
// The REAL DnsController (HandleWithResponseWriter_ -> singleflight -> handleWithResponseWriter_ -> dialSend ->
// forwardWithFallback -> forwardWithDialArg -> cached forwarder) runs under the vsched scheduler on the virtual
// clock. Three harness layers differ only in what stands behind the forwarder cache:
//
//	layer 1: a scripted forwarder installed through the package seam dnsForwarderFactory
//	layer 2: the real DoUDP (udpConnPool) over simnet datagram sockets, upstream scheme tcp+udp, so that a UDP
//	         failure / truncation falls back to the real DoTCP (connPool + pipelinedConn) over a simnet stream
//	layer 3: the real DoTCP over a simnet stream, upstream scheme tcp
//
// Every answer the scripted upstream generates is tagged in its rdata with the question it was generated for,
// so a foreign answer is recognisable wherever it ends up (client reply, cache entry, packed cache bytes).
// This file is itself rewritten by vbuild (it is listed under "instrument"): go/select/time/sync below are the
// scheduler-aware forms.
package control

import (
	"context"
	"encoding/binary"
	"errors"
	"fmt"
	"io"
	"net"
	"net/netip"
	"sort"
	"strconv"
	"strings"
	"sync"
	"time"

	"github.com/daeuniverse/dae/common/consts"
	"github.com/daeuniverse/dae/component/dns"
	"github.com/daeuniverse/dae/component/outbound/dialer"
	"github.com/daeuniverse/dae/config"
	"github.com/daeuniverse/dae/pkg/config_parser"
	"github.com/daeuniverse/dae/verifx/simnet"
	"github.com/daeuniverse/dae/verifx/vsched"
	D "github.com/daeuniverse/outbound/dialer"
	"github.com/daeuniverse/outbound/netproxy"
	dnsmessage "github.com/miekg/dns"
	"github.com/sirupsen/logrus"
)

// ---- scenario description (built by main) -----------------------------------------------------------------

type C09Query struct {
	Name  string
	Qtype uint16
	ID    uint16
	Gap   time.Duration // virtual pause before this query
}

type C09Client struct {
	Queries []C09Query
}

type C09Params struct {
	Name    string
	Layer   int // 1, 2, 3
	Clients []C09Client
	// Background operation racing with the LAST client ("evict": evictIdleDnsForwarders(now), "retire":
	// ResetDnsForwarders(), "retire-late": the same after one upstream latency, i.e. at the instant the first
	// exchanges complete, "retire-last": ResetDnsForwarders() racing with the last client only). With "evict" and
	// "retire-last" every client but the last runs first; with "evict" the idle TTL passes then.
	Background string
	// After: a retirement route taken sequentially once every client is done ("evict": the idle TTL passes, then
	// evictIdleDnsForwarders(now)). Every scenario ends with retire-all (ResetDnsForwarders) + quiescence anyway.
	After string
	// Script forces the behaviour of the first upstream exchanges (no environment choice for them): histories in
	// which a given fault precedes a retirement are then part of the default schedule.
	Script []string
	// Chain: the upstream's correct answers list the address record of the CNAME target first, then the CNAME of
	// the queried name (Answer[0] is not owned by the query name).
	Chain bool
	// PacketPath: clients enter through Handle_ (transparent UDP path: no ResponseWriter, replies leave through
	// sendRuntimeTrackedPkt onto loopback sockets, see c09udp.go); at most 3 clients.
	PacketPath bool
	// Upstream behaviours enabled (names, choice 0 = "ok" is always first). Empty = all of the layer.
	Behaviours []string
	MaxSteps   int
	// DialLatency: establishing an upstream TCP connection takes this much (virtual) time, so that several
	// queries can be dialing at once (a cold-start burst); 0 = a dial completes within the caller's step.
	DialLatency time.Duration
	// DialStagger: the k-th dial started takes k*DialStagger longer, so that dials started together
	// complete one after the other in a fixed order instead of in every order (n! free timer orders).
	DialStagger time.Duration
	// PoolMax > 0 lowers the capacity of the real DoTCP connection pool (production: 4) for this scenario, so that a
	// burst of PoolMax+1 queries already has more dials under way than the pool may hold.
	PoolMax int
}

const (
	c9IdleTTL    = 10 * time.Second
	c9Latency    = 5 * time.Millisecond
	c9UpstreamIP = "192.0.2.1"
)

var c9Names = []string{"a.c9.test.", "b.c9.test.", "c.c9.test.", "d.c9.test.", "e.c9.test."}

// c9BaseNames: foreign answers for the first three names stay within them (a->b->c->a), d and e wrap around all five.
const c9BaseNames = 3

// ---- tagged answers ---------------------------------------------------------------------------------------

type c9Q struct {
	name  string // lower case fqdn
	qtype uint16
}

func (q c9Q) String() string { return q.name + "/" + strconv.Itoa(int(q.qtype)) }

func c9QOf(q dnsmessage.Question) c9Q { return c9Q{strings.ToLower(q.Name), q.Qtype} }

func c9NameIdx(name string) int {
	l := strings.ToLower(name)
	for i, n := range c9Names {
		if n == l {
			return i
		}
	}
	return -1
}

// c9TagRR: the one answer record the scripted upstream generates for q; its rdata encodes (name index, qtype):
// A 10.9.<i>.1, AAAA fd09::<i>:1c, SVCB/HTTPS priority <i>*100+qtype.
func c9TagRR(q dnsmessage.Question) dnsmessage.RR {
	i := byte(c9NameIdx(q.Name) + 1)
	switch q.Qtype {
	case dnsmessage.TypeAAAA:
		ip := make(net.IP, 16)
		ip[0], ip[1], ip[14], ip[15] = 0xfd, 0x09, i, 28
		return &dnsmessage.AAAA{Hdr: dnsmessage.RR_Header{Name: q.Name, Rrtype: dnsmessage.TypeAAAA, Class: dnsmessage.ClassINET, Ttl: 300}, AAAA: ip}
	case dnsmessage.TypeTXT:
		// a large answer (> 1024 bytes packed): the tag string, then padding
		pad := strings.Repeat("x", 250)
		return &dnsmessage.TXT{Hdr: dnsmessage.RR_Header{Name: q.Name, Rrtype: dnsmessage.TypeTXT, Class: dnsmessage.ClassINET, Ttl: 300}, Txt: []string{c9TextTag(int(i), q.Qtype), pad, pad, pad, pad, pad}}
	case dnsmessage.TypeCAA:
		return &dnsmessage.CAA{Hdr: dnsmessage.RR_Header{Name: q.Name, Rrtype: dnsmessage.TypeCAA, Class: dnsmessage.ClassINET, Ttl: 300}, Tag: "issue", Value: c9TextTag(int(i), q.Qtype)}
	case dnsmessage.TypeSVCB:
		return &dnsmessage.SVCB{Hdr: dnsmessage.RR_Header{Name: q.Name, Rrtype: dnsmessage.TypeSVCB, Class: dnsmessage.ClassINET, Ttl: 300}, Priority: uint16(i)*100 + dnsmessage.TypeSVCB, Target: "svc.c9.test."}
	case dnsmessage.TypeHTTPS:
		return &dnsmessage.HTTPS{SVCB: dnsmessage.SVCB{Hdr: dnsmessage.RR_Header{Name: q.Name, Rrtype: dnsmessage.TypeHTTPS, Class: dnsmessage.ClassINET, Ttl: 300}, Priority: uint16(i)*100 + dnsmessage.TypeHTTPS, Target: "svc.c9.test."}}
	}
	return &dnsmessage.A{Hdr: dnsmessage.RR_Header{Name: q.Name, Rrtype: dnsmessage.TypeA, Class: dnsmessage.ClassINET, Ttl: 300}, A: net.IPv4(10, 9, i, 1).To4()}
}

func c9TextTag(i int, qtype uint16) string {
	return "c9-" + strconv.Itoa(i) + "-" + strconv.Itoa(int(qtype))
}

func c9TextTagQ(tag string, want uint16) c9Q {
	var i, t int
	if n, err := fmt.Sscanf(tag, "c9-%d-%d", &i, &t); err != nil || n != 2 || i < 1 || i > len(c9Names) || uint16(t) != want {
		return c9Q{}
	}
	return c9Q{c9Names[i-1], want}
}

func c9SvcTag(prio uint16) c9Q {
	i, t := int(prio/100), prio%100
	if i >= 1 && i <= len(c9Names) && (t == dnsmessage.TypeSVCB || t == dnsmessage.TypeHTTPS) {
		return c9Q{c9Names[i-1], t}
	}
	return c9Q{}
}

// c9RRFor: which question was this record generated for ("" name = not a harness record).
func c9RRFor(rr dnsmessage.RR) c9Q {
	switch x := rr.(type) {
	case *dnsmessage.A:
		ip := x.A.To4()
		if ip != nil && ip[0] == 10 && ip[1] == 9 && (ip[3] == 1 || ip[3] == 2) && int(ip[2]) >= 1 && int(ip[2]) <= len(c9Names) {
			return c9Q{c9Names[ip[2]-1], dnsmessage.TypeA}
		}
	case *dnsmessage.CNAME:
		return c9ChainTargetQ(x.Target)
	case *dnsmessage.AAAA:
		ip := x.AAAA.To16()
		if ip != nil && ip[0] == 0xfd && ip[1] == 0x09 && ip[15] == 28 && int(ip[14]) >= 1 && int(ip[14]) <= len(c9Names) {
			return c9Q{c9Names[ip[14]-1], dnsmessage.TypeAAAA}
		}
	case *dnsmessage.TXT:
		if len(x.Txt) > 0 {
			return c9TextTagQ(x.Txt[0], dnsmessage.TypeTXT)
		}
	case *dnsmessage.CAA:
		return c9TextTagQ(x.Value, dnsmessage.TypeCAA)
	case *dnsmessage.SVCB:
		return c9SvcTag(x.Priority)
	case *dnsmessage.HTTPS:
		return c9SvcTag(x.Priority)
	}
	return c9Q{}
}

// c9RRAnswers: rr is an answer to q (owner name, type and the generation tag all agree).
func c9RRAnswers(rr dnsmessage.RR, q c9Q) bool {
	h := rr.Header()
	if c9RRFor(rr) != q {
		return false
	}
	switch x := rr.(type) {
	case *dnsmessage.CNAME: // chain-form answer: the alias record is owned by the queried name
		return strings.EqualFold(h.Name, q.name)
	case *dnsmessage.A:
		if ip := x.A.To4(); ip != nil && ip[3] == 2 { // chain-form answer: the address record is owned by the target
			return strings.EqualFold(h.Name, c9ChainTarget(q)) && q.qtype == dnsmessage.TypeA
		}
	}
	return strings.EqualFold(h.Name, q.name) && h.Rrtype == q.qtype
}

func c9Answer(id uint16, q dnsmessage.Question) *dnsmessage.Msg {
	m := new(dnsmessage.Msg)
	m.Id = id
	m.Response = true
	m.RecursionDesired = true
	m.RecursionAvailable = true
	m.Question = []dnsmessage.Question{q}
	m.Answer = []dnsmessage.RR{c9TagRR(q)}
	if c9Cur != nil && c9Cur.p.Chain && q.Qtype == dnsmessage.TypeA {
		// address record of the target first, then the CNAME of the queried name
		tgt := c9ChainTarget(c9QOf(q))
		i := byte(c9NameIdx(q.Name) + 1)
		m.Answer = []dnsmessage.RR{
			&dnsmessage.A{Hdr: dnsmessage.RR_Header{Name: tgt, Rrtype: dnsmessage.TypeA, Class: dnsmessage.ClassINET, Ttl: 300}, A: net.IPv4(10, 9, i, 2).To4()},
			&dnsmessage.CNAME{Hdr: dnsmessage.RR_Header{Name: q.Name, Rrtype: dnsmessage.TypeCNAME, Class: dnsmessage.ClassINET, Ttl: 300}, Target: tgt},
		}
	}
	return m
}

// c9ChainTarget: the CNAME target the upstream uses in chain-form answers to q ("t<name index>-<qtype>.c9.test.").
func c9ChainTarget(q c9Q) string {
	return "t" + strconv.Itoa(c9NameIdx(q.name)+1) + "-" + strconv.Itoa(int(q.qtype)) + ".c9.test."
}

func c9ChainTargetQ(name string) c9Q {
	var i, t int
	if n, err := fmt.Sscanf(strings.ToLower(name), "t%d-%d.c9.test.", &i, &t); err != nil || n != 2 || i < 1 || i > len(c9Names) {
		return c9Q{}
	}
	return c9Q{c9Names[i-1], uint16(t)}
}

// c9Foreign: another question of the harness alphabet (kind "name": same type, next name; "type": same name, A<->AAAA).
func c9Foreign(q dnsmessage.Question, kind string) dnsmessage.Question {
	f := q
	if kind == "type" {
		switch q.Qtype {
		case dnsmessage.TypeA:
			f.Qtype = dnsmessage.TypeAAAA
		case dnsmessage.TypeSVCB:
			f.Qtype = dnsmessage.TypeHTTPS
		case dnsmessage.TypeHTTPS:
			f.Qtype = dnsmessage.TypeSVCB
		case dnsmessage.TypeCAA:
			f.Qtype = dnsmessage.TypeA
		default:
			f.Qtype = dnsmessage.TypeA
		}
		return f
	}
	if i := c9NameIdx(q.Name); i < c9BaseNames {
		f.Name = c9Names[(i+1)%c9BaseNames]
	} else {
		f.Name = c9Names[(i+1)%len(c9Names)]
	}
	return f
}

// ---- observation record -----------------------------------------------------------------------------------

type c9Exchange struct {
	via       string // "fwd" = one ForwardDNS call on a cached forwarder; "udp"/"tcp" = one request on the wire
	q         c9Q
	start     int
	end       int // 0 while in flight ("fwd" only)
	behaviour string
	ok        bool // "fwd": returned without error and the message is a genuine answer to q
	cacheable bool // "fwd": ok and rcode NOERROR
	thread    int
	errs      string
}

type c9QueryObs struct {
	q    C09Query
	msgs []*dnsmessage.Msg // what a writer that packs immediately puts on the wire (copy taken inside WriteMsg)
	held []*dnsmessage.Msg // the very objects handed to WriteMsg, read after the run (a writer may keep the message:
	// dae's own msgCapturer does, and dns.ResponseWriter implementations may pack after WriteMsg's caller moved on)
	err   error
	done  bool
	start int
	end   int
}

type c9ClientObs struct {
	idx     int
	queries []*c9QueryObs
	done    bool
}

type c9Spy struct {
	env            *c9Env
	id             int
	real           DnsForwarder // nil on layer 1
	l4             string
	inflight       int
	uses           int
	closes         int
	closedInFlight bool
	usedAfterClose bool
	closesAtRetire int // Close calls seen once every forwarder had been retired and nothing was in flight
}

type c9CacheSnap struct {
	key     string
	answers []dnsmessage.RR
	packed  []byte
}

type c9Env struct {
	p          *C09Params
	ctrl       *DnsController
	tick       int
	deviations int
	clients    []*c9ClientObs
	exchanges  []*c9Exchange
	spies      []*c9Spy
	udpSocks   []*c9UDPSock
	tcpConns   []*c9TCPConn
	cache      []c9CacheSnap
	bgDone     bool
	finished   bool
	behaviours []string
	scriptPos  int
	images     map[*[]byte][]byte // every published pre-packed cache image as first seen
	imageSig   string             // set when a published image was seen with other bytes later
	dialer     *dialer.Dialer
	setupErr   string
	dials      int // TCP dials started (DialLatency > 0)
	dialing    int // TCP dials under way (DialLatency > 0)
	maxDialing int
}

var c9Cur *c9Env

func (e *c9Env) next() int { e.tick++; return e.tick }

func (e *c9Env) choose(what string) string {
	if e.scriptPos < len(e.p.Script) {
		e.scriptPos++
		return e.p.Script[e.scriptPos-1]
	}
	i := vsched.Choose(len(e.behaviours), what)
	if i != 0 {
		e.deviations++
	}
	return e.behaviours[i]
}

// ---- layer 1: scripted forwarder / layers 2,3: spy around the real forwarder ------------------------------------

var c9L1Behaviours = []string{"ok", "nxdomain", "foreign-name", "foreign-type", "truncated", "error", "slow"}
var c9L2Behaviours = []string{"ok", "twice", "late", "foreign-name", "truncated", "malformed", "nothing", "sockerr"}
var c9L3Behaviours = []string{"ok", "defer", "swap-id", "twice", "close", "silent"}

func (f *c9Spy) ForwardDNS(ctx context.Context, data []byte) (*dnsmessage.Msg, error) {
	e := f.env
	if f.closes > 0 {
		f.usedAfterClose = true
	}
	f.inflight++
	f.uses++
	defer func() { f.inflight-- }()
	var q dnsmessage.Msg
	if err := q.Unpack(data); err != nil || len(q.Question) == 0 {
		return nil, fmt.Errorf("scripted upstream: bad query")
	}
	ex := &c9Exchange{via: "fwd", q: c9QOf(q.Question[0]), start: e.next(), thread: vsched.ThreadID()}
	e.exchanges = append(e.exchanges, ex)
	var m *dnsmessage.Msg
	var err error
	if f.real != nil {
		ex.behaviour = "real-" + f.l4
		m, err = f.real.ForwardDNS(ctx, data)
	} else {
		m, err = f.scripted(ctx, &q, ex)
	}
	ex.end = e.next()
	if err != nil {
		ex.errs = err.Error()
	} else if m != nil && len(m.Question) == 1 && c9QOf(m.Question[0]) == ex.q {
		ex.ok = true
		for _, rr := range m.Answer {
			if !c9RRAnswers(rr, ex.q) {
				ex.ok = false
			}
		}
		ex.cacheable = ex.ok && m.Rcode == dnsmessage.RcodeSuccess
	}
	return m, err
}

func (f *c9Spy) scripted(ctx context.Context, q *dnsmessage.Msg, ex *c9Exchange) (*dnsmessage.Msg, error) {
	e := f.env
	b := e.choose("upstream")
	ex.behaviour = b
	if b == "slow" {
		// the answer would come after 20s; a forwarder bound to the request context gives up at its deadline
		t := time.NewTimer(20 * time.Second)
		defer t.Stop()
		select {
		case <-ctx.Done():
			return nil, ctx.Err()
		case <-t.C:
			return nil, context.DeadlineExceeded
		}
	}
	time.Sleep(c9Latency) // the exchange takes (virtual) time: other clients arrive meanwhile
	switch b {
	case "ok":
		return c9Answer(q.Id, q.Question[0]), nil
	case "nxdomain":
		m := c9Answer(q.Id, q.Question[0])
		m.Answer = nil
		m.Rcode = dnsmessage.RcodeNameError
		return m, nil
	case "foreign-name":
		return c9Answer(q.Id, c9Foreign(q.Question[0], "name")), nil
	case "foreign-type":
		return c9Answer(q.Id, c9Foreign(q.Question[0], "type")), nil
	case "truncated":
		m := c9Answer(q.Id, q.Question[0])
		m.Answer = nil
		m.Truncated = true
		return m, ErrDNSTruncated // what DoUDP hands back for a TC=1 reply
	default:
		return nil, errors.New("scripted upstream: exchange failed")
	}
}

func (f *c9Spy) Close() error {
	f.closes++
	if f.inflight > 0 {
		f.closedInFlight = true
	}
	if f.real != nil {
		return f.real.Close()
	}
	return nil
}

// ---- simulated sockets (layers 2, 3) ------------------------------------------------------------------------

type c9UDPSock struct {
	*simnet.PacketConn
	env            *c9Env
	id             int
	reader         int // managed thread blocked in ReadFrom, -1 = none
	foreignClose   bool
	held           [][]byte
	closesAtRetire int // Close calls seen once every forwarder had been retired and nothing was in flight
}

func (s *c9UDPSock) String() string { return "udpsock" + strconv.Itoa(s.id) }

func (s *c9UDPSock) ReadFrom(p []byte) (int, netip.AddrPort, error) {
	s.reader = vsched.ThreadID()
	defer func() { s.reader = -1 }()
	return s.PacketConn.ReadFrom(p)
}

func (s *c9UDPSock) Read(p []byte) (int, error) {
	n, _, err := s.ReadFrom(p)
	return n, err
}

func (s *c9UDPSock) Close() error {
	if s.reader >= 0 && s.reader != vsched.ThreadID() {
		s.foreignClose = true
	}
	return s.PacketConn.Close()
}

func c9Pack(m *dnsmessage.Msg) []byte {
	b, err := m.Pack()
	if err != nil {
		panic("c09 harness: pack: " + err.Error())
	}
	return b
}

var c9UpstreamAddr = netip.MustParseAddrPort(c9UpstreamIP + ":53")

// udpUpstream is the scripted peer of one datagram socket; it runs in the writer's thread (PacketConn.OnWrite).
func (e *c9Env) udpUpstream(s *c9UDPSock, d simnet.Datagram) error {
	var q dnsmessage.Msg
	if err := q.Unpack(d.Data); err != nil || len(q.Question) == 0 {
		return nil
	}
	ex := &c9Exchange{via: "udp", q: c9QOf(q.Question[0]), start: e.next(), thread: vsched.ThreadID()}
	e.exchanges = append(e.exchanges, ex)
	// answers held back earlier ("late") arrive now: after the next request reuses the socket
	for _, h := range s.held {
		s.Inject(h, c9UpstreamAddr)
	}
	s.held = nil
	b := e.choose("udp-upstream")
	ex.behaviour = b
	ans := c9Pack(c9Answer(q.Id, q.Question[0]))
	switch b {
	case "ok":
		ex.ok = true
		s.Inject(ans, c9UpstreamAddr)
	case "twice":
		ex.ok = true
		s.Inject(ans, c9UpstreamAddr)
		s.Inject(ans, c9UpstreamAddr)
	case "late":
		s.held = append(s.held, ans)
	case "foreign-name":
		s.Inject(c9Pack(c9Answer(q.Id, c9Foreign(q.Question[0], "name"))), c9UpstreamAddr)
	case "truncated":
		m := c9Answer(q.Id, q.Question[0])
		m.Answer = nil
		m.Truncated = true
		s.Inject(c9Pack(m), c9UpstreamAddr)
	case "malformed":
		s.Inject([]byte{byte(q.Id >> 8), byte(q.Id), 0xff, 0xff, 0x00}, c9UpstreamAddr)
	case "nothing":
	case "sockerr":
		return errors.New("sendto: network is unreachable")
	}
	return nil
}

type c9TCPConn struct {
	id             int
	a, b           *simnet.Conn
	served         int
	closesAtRetire int // Close calls seen once every forwarder had been retired and nothing was in flight
}

// tcpServe is the scripted DNS-over-TCP peer of one stream (its own managed thread).
func (e *c9Env) tcpServe(c *c9TCPConn) {
	ub := c.b
	var held [][]byte
	write := func(m *dnsmessage.Msg) []byte {
		p := c9Pack(m)
		f := make([]byte, 2+len(p))
		binary.BigEndian.PutUint16(f, uint16(len(p)))
		copy(f[2:], p)
		return f
	}
	for {
		var hdr [2]byte
		if _, err := io.ReadFull(ub, hdr[:]); err != nil {
			return
		}
		buf := make([]byte, binary.BigEndian.Uint16(hdr[:]))
		if _, err := io.ReadFull(ub, buf); err != nil {
			return
		}
		var q dnsmessage.Msg
		if err := q.Unpack(buf); err != nil || len(q.Question) == 0 {
			continue
		}
		c.served++
		ex := &c9Exchange{via: "tcp", q: c9QOf(q.Question[0]), start: e.next(), thread: vsched.ThreadID()}
		e.exchanges = append(e.exchanges, ex)
		b := "ok"
		if e.p.Layer == 3 {
			b = e.choose("tcp-upstream")
		}
		ex.behaviour = b
		ans := c9Answer(q.Id, q.Question[0])
		switch b {
		case "ok":
			ex.ok = true
			_, _ = ub.Write(write(ans))
			for _, h := range held { // deferred replies go out after a later one: out of order
				_, _ = ub.Write(h)
			}
			held = nil
		case "defer":
			ex.ok = true
			held = append(held, write(ans))
		case "swap-id":
			ans.Id = q.Id ^ 1 // the reply carries the ID of the other request in flight on this stream
			_, _ = ub.Write(write(ans))
		case "twice":
			ex.ok = true
			f := write(ans)
			_, _ = ub.Write(f)
			_, _ = ub.Write(f)
		case "close":
			_ = ub.Close()
			return
		case "silent":
		}
	}
}

type c9NetDialer struct{ env *c9Env }

func (d *c9NetDialer) DialContext(_ context.Context, network, addr string) (netproxy.Conn, error) {
	e := d.env
	mn, err := netproxy.ParseMagicNetwork(network)
	if err != nil {
		return nil, err
	}
	if strings.HasPrefix(mn.Network, "udp") {
		s := &c9UDPSock{PacketConn: simnet.NewPacketConn("udp"+strconv.Itoa(len(e.udpSocks)), &net.UDPAddr{IP: net.IPv4(10, 0, 0, 2), Port: 40000 + len(e.udpSocks)}), env: e, id: len(e.udpSocks), reader: -1}
		s.PacketConn.OnWrite = func(_ *simnet.PacketConn, dg simnet.Datagram) error { return e.udpUpstream(s, dg) }
		e.udpSocks = append(e.udpSocks, s)
		return s, nil
	}
	if e.p.DialLatency > 0 {
		// the handshake takes time: other queries reach the pool (and start dialing) meanwhile
		e.dialing++
		if e.dialing > e.maxDialing {
			e.maxDialing = e.dialing
		}
		k := e.dials
		e.dials++
		time.Sleep(e.p.DialLatency + time.Duration(k)*e.p.DialStagger)
		e.dialing--
	}
	a, b := simnet.Pair(&net.TCPAddr{IP: net.IPv4(10, 0, 0, 2), Port: 50000 + len(e.tcpConns)}, &net.TCPAddr{IP: net.ParseIP(c9UpstreamIP), Port: 53})
	c := &c9TCPConn{id: len(e.tcpConns), a: a, b: b}
	e.tcpConns = append(e.tcpConns, c)
	vsched.GoNamed("tcp-upstream"+strconv.Itoa(c.id), func() { e.tcpServe(c) })
	return a, nil
}

// ---- DNS routing programs (built once, outside the scheduler; immutable afterwards) ----------------------------

var c9Routings = map[int]*dns.Dns{}

func c9BuildRouting(scheme string) (*dns.Dns, error) {
	text := "global{}\nrouting{ fallback: direct }\ndns {\n  upstream {\n    u1: '" + scheme + "://" + c9UpstreamIP + ":53'\n  }\n" +
		"  routing {\n    request {\n      fallback: u1\n    }\n    response {\n      fallback: accept\n    }\n  }\n}\n"
	sections, err := config_parser.Parse(text)
	if err != nil {
		return nil, fmt.Errorf("parse: %w", err)
	}
	conf, err := config.New(sections)
	if err != nil {
		return nil, fmt.Errorf("config.New: %w", err)
	}
	d, err := dns.New(&conf.Dns, &dns.NewOption{
		Logger:                  VerifQuietLogger(),
		UpstreamReadyCallback:   func(*dns.Upstream) error { return nil },
		UpstreamResolverNetwork: "udp",
	})
	if err != nil {
		return nil, fmt.Errorf("dns.New: %w", err)
	}
	// force the lazy upstream initialisation now (IP literal: no resolver, no network)
	if _, _, err := d.RequestSelect(context.Background(), "warm.", dnsmessage.TypeA); err != nil {
		return nil, fmt.Errorf("warm-up: %w", err)
	}
	return d, nil
}

// VerifC09Prepare must be called once per process before any scenario runs.
func VerifC09Prepare() error {
	for layer, scheme := range map[int]string{1: "udp", 2: "tcp+udp", 3: "tcp"} {
		d, err := c9BuildRouting(scheme)
		if err != nil {
			return fmt.Errorf("layer %d routing: %w", layer, err)
		}
		c9Routings[layer] = d
	}
	return nil
}

// ---- capturing response writer --------------------------------------------------------------------------------

type c9Writer struct{ obs *c9QueryObs }

func (w *c9Writer) LocalAddr() net.Addr  { return nil }
func (w *c9Writer) RemoteAddr() net.Addr { return nil }
func (w *c9Writer) WriteMsg(m *dnsmessage.Msg) error {
	w.obs.msgs = append(w.obs.msgs, m.Copy()) // a real writer packs the message now
	w.obs.held = append(w.obs.held, m)
	return nil
}
func (w *c9Writer) Write(b []byte) (int, error) {
	var m dnsmessage.Msg
	if err := m.Unpack(b); err != nil {
		return 0, err
	}
	w.obs.msgs = append(w.obs.msgs, &m)
	return len(b), nil
}
func (w *c9Writer) Close() error        { return nil }
func (w *c9Writer) TsigStatus() error   { return nil }
func (w *c9Writer) TsigTimersOnly(bool) {}
func (w *c9Writer) Hijack()             {}

// ---- scenario --------------------------------------------------------------------------------------------------

func c9Behaviours(p *C09Params) []string {
	all := c9L1Behaviours
	switch p.Layer {
	case 2:
		all = c9L2Behaviours
	case 3:
		all = c9L3Behaviours
	}
	if len(p.Behaviours) == 0 {
		return all
	}
	out := []string{"ok"}
	for _, b := range p.Behaviours {
		ok := false
		for _, a := range all {
			if a == b {
				ok = true
			}
		}
		if !ok {
			panic("c09 harness: unknown behaviour " + b + " for layer " + strconv.Itoa(p.Layer))
		}
		if b != "ok" {
			out = append(out, b)
		}
	}
	return out
}

func (e *c9Env) runClient(co *c9ClientObs) {
	for _, qo := range co.queries {
		if qo.q.Gap > 0 {
			time.Sleep(qo.q.Gap)
		}
		m := new(dnsmessage.Msg)
		m.Id = qo.q.ID
		m.RecursionDesired = true
		m.Question = []dnsmessage.Question{{Name: qo.q.Name, Qtype: qo.q.Qtype, Qclass: dnsmessage.ClassINET}}
		src := netip.AddrPortFrom(netip.AddrFrom4([4]byte{192, 168, 7, byte(10 + co.idx)}), uint16(40000+co.idx))
		req := &udpRequest{realSrc: src, realDst: netip.MustParseAddrPort("192.0.2.53:53"), src: src, routingResult: &bpfRoutingResult{}}
		qo.start = e.next()
		if e.p.PacketPath {
			// transparent UDP path: lConn set, replies go to the client's own (loopback) address
			req.realDst, req.realSrc, req.src, req.lConn = c9PktSendAddr, c9PktRecvAddr[co.idx], c9PktRecvAddr[co.idx], c9PktSend
			qo.err = e.ctrl.Handle_(context.Background(), m, req)
			e.watchImages(fmt.Sprintf("after client %d's query", co.idx))
		} else {
			qo.err = e.ctrl.HandleWithResponseWriter_(context.Background(), m, req, &c9Writer{obs: qo})
		}
		qo.end = e.next()
		qo.done = true
	}
	co.done = true
}

func (e *c9Env) setup() error {
	p := e.p
	log := VerifQuietLogger()
	// package-level state that survives an execution
	newSlot, newBuf := responseSlotPool.New, dnsResponseBufPool.New
	responseSlotPool = sync.Pool{New: newSlot}
	dnsResponseBufPool = sync.Pool{New: newBuf}
	gopt := &dialer.GlobalOption{Log: log, CheckInterval: time.Second}
	e.dialer = dialer.NewDialer(&c9NetDialer{env: e}, gopt, dialer.InstanceOption{DisableCheck: true},
		&dialer.Property{Property: D.Property{Name: "direct", Address: "", Protocol: ""}})
	dnsForwarderFactory = func(upstream *dns.Upstream, dialArg dialArgument, l *logrus.Logger) (DnsForwarder, error) {
		spy := &c9Spy{env: e, id: len(e.spies), l4: string(dialArg.l4proto)}
		if p.Layer != 1 {
			real, err := newDnsForwarder(upstream, dialArg, l)
			if err != nil {
				return nil, err
			}
			spy.real = real
			if t, ok := real.(*DoTCP); ok && p.PoolMax > 0 {
				pool := t.getPool()
				if pool == nil {
					return nil, errors.New("c09 harness: DoTCP has no pool")
				}
				pool.maxConns = p.PoolMax
			}
		}
		e.spies = append(e.spies, spy)
		return spy, nil
	}
	opt := &DnsControllerOption{
		Log:                 log,
		LifecycleContext:    context.Background(),
		CacheAccessCallback: func(cache *DnsCache) error { return nil },
		CacheRemoveCallback: func(cache *DnsCache) error { return nil },
		CacheDeleteCallback: func(cacheKey string, cache *DnsCache) error { return nil },
		NewCache: func(fqdn string, answers, ns, extra []dnsmessage.RR, deadline time.Time, originalDeadline time.Time) (*DnsCache, error) {
			return &DnsCache{NS: ns, Extra: extra, Answer: answers, Deadline: deadline, OriginalDeadline: originalDeadline}, nil
		},
		BestDialerChooser: func(ctx context.Context, req *udpRequest, upstream *dns.Upstream) (*dialArgument, error) {
			l4 := consts.L4ProtoStr_UDP
			if upstream.Scheme == dns.UpstreamScheme_TCP {
				l4 = consts.L4ProtoStr_TCP
			}
			da := &dialArgument{l4proto: l4, ipversion: consts.IpVersionStr_4, bestTarget: c9UpstreamAddr}
			if p.Layer != 1 {
				da.bestDialer = e.dialer
			}
			return da, nil
		},
		TimeoutExceedCallback: func(*dialArgument, error) {},
	}
	if p.PacketPath {
		if len(p.Clients) > c9PktClients {
			return fmt.Errorf("packet path: at most %d clients", c9PktClients)
		}
		if err := c9PktInstall(); err != nil {
			return err
		}
	}
	c, err := NewDnsController(c9Routings[p.Layer], opt)
	if err != nil {
		return err
	}
	c.dnsForwarderIdleTTL = c9IdleTTL
	e.ctrl = c
	return nil
}

// watchImages: the pre-packed reply of a cache entry is one byte slice shared by every hit (and by the next
// generation after a reload); once published it must never change — a hit that writes into it (e.g. its
// transaction ID) races with every other hit. Compared by identity of the published slice: a re-pack publishes a
// new slice.
func (e *c9Env) watchImages(when string) {
	if e.images == nil {
		e.images = map[*[]byte][]byte{}
	}
	e.ctrl.dnsCache.Range(func(k, v any) bool {
		dc, _ := v.(*DnsCache)
		if dc == nil {
			return true
		}
		ptr := dc.packedResponse.Load()
		if ptr == nil || *ptr == nil {
			return true
		}
		if first, ok := e.images[ptr]; !ok {
			e.images[ptr] = append([]byte(nil), (*ptr)...)
		} else if string(first) != string(*ptr) && e.imageSig == "" {
			d := 0
			for d < len(first) && d < len(*ptr) && first[d] == (*ptr)[d] {
				d++
			}
			e.imageSig = fmt.Sprintf("the published pre-packed reply of cache entry %q (%d bytes, shared by every cache hit) was modified in place %s: byte %d", k, len(first), when, d)
		}
		return true
	})
}

// collectPackets: what each client's socket received becomes that client's replies (in arrival order; a client
// has at most one query in flight, and every query of a client precedes its next one).
func (e *c9Env) collectPackets() {
	for _, co := range e.clients {
		want := 0
		for _, qo := range co.queries {
			if qo.err == nil {
				want++
			}
		}
		pkts := c9PktDrain(co.idx, want)
		// attribute in order: the k-th datagram belongs to the k-th query that reported success
		k := 0
		for _, qo := range co.queries {
			if qo.err != nil || k >= len(pkts) {
				continue
			}
			var m dnsmessage.Msg
			if err := m.Unpack(pkts[k]); err != nil {
				m = dnsmessage.Msg{}
				m.Id = 0xffff
			}
			qo.msgs = append(qo.msgs, &m)
			k++
		}
		for ; k < len(pkts); k++ { // surplus datagrams: checked against the client's last query
			var m dnsmessage.Msg
			if err := m.Unpack(pkts[k]); err == nil && len(co.queries) > 0 {
				last := co.queries[len(co.queries)-1]
				last.msgs = append(last.msgs, &m)
			}
		}
	}
}

func (e *c9Env) snapshotCache() {
	e.ctrl.dnsCache.Range(func(k, v any) bool {
		ks, _ := k.(string)
		dc, _ := v.(*DnsCache)
		if dc == nil {
			e.cache = append(e.cache, c9CacheSnap{key: ks})
			return true
		}
		s := c9CacheSnap{key: ks, answers: append([]dnsmessage.RR(nil), dc.Answer...)}
		if b := dc.GetPackedResponse(); b != nil {
			s.packed = append([]byte(nil), b...)
		}
		e.cache = append(e.cache, s)
		return true
	})
}

// C09Scenario builds the closed system for one parameter point.
func C09Scenario(p *C09Params) *vsched.Scenario {
	body := func() {
		e := &c9Env{p: p, behaviours: c9Behaviours(p)}
		c9Cur = e
		for i, cl := range p.Clients {
			co := &c9ClientObs{idx: i}
			for _, q := range cl.Queries {
				co.queries = append(co.queries, &c9QueryObs{q: q})
			}
			e.clients = append(e.clients, co)
		}
		if err := e.setup(); err != nil {
			e.setupErr = err.Error()
			return
		}
		last := len(e.clients) - 1
		switch p.Background {
		case "evict", "retire-last":
			// the earlier clients create and use the forwarder, then ("evict") it sits idle past the idle TTL
			for _, co := range e.clients[:last] {
				co := co
				vsched.GoNamed("client"+strconv.Itoa(co.idx), func() { e.runClient(co) })
			}
			vsched.WaitUntil(func() bool {
				for _, co := range e.clients[:last] {
					if !co.done {
						return false
					}
				}
				return true
			})
			if p.Background == "retire-last" {
				vsched.GoNamed("reload-retire", func() {
					_ = e.ctrl.ResetDnsForwarders()
					e.bgDone = true
				})
			} else {
				time.Sleep(c9IdleTTL + time.Second)
				vsched.GoNamed("janitor-evict", func() {
					e.ctrl.evictIdleDnsForwarders(time.Now())
					e.bgDone = true
				})
			}
			co := e.clients[last]
			vsched.GoNamed("client"+strconv.Itoa(co.idx), func() { e.runClient(co) })
		case "retire", "retire-late":
			for _, co := range e.clients {
				co := co
				vsched.GoNamed("client"+strconv.Itoa(co.idx), func() { e.runClient(co) })
			}
			vsched.GoNamed("reload-retire", func() {
				if p.Background == "retire-late" {
					// the reload arrives while the first exchanges are under way and completes with them (same virtual
					// instant: which of the simultaneous timers fires first is a free choice of the scheduler)
					time.Sleep(c9Latency)
				}
				_ = e.ctrl.ResetDnsForwarders()
				e.bgDone = true
			})
		default:
			e.bgDone = true
			for _, co := range e.clients {
				co := co
				vsched.GoNamed("client"+strconv.Itoa(co.idx), func() { e.runClient(co) })
			}
		}
		vsched.WaitUntil(func() bool {
			if !e.bgDone {
				return false
			}
			for _, co := range e.clients {
				if !co.done {
					return false
				}
			}
			return true
		})
		vsched.Quiesce()
		if p.After == "evict" {
			time.Sleep(c9IdleTTL + time.Second)
			e.ctrl.evictIdleDnsForwarders(time.Now())
			vsched.Quiesce()
		}
		if p.PacketPath {
			e.watchImages("by the end of the run")
			e.collectPackets()
		}
		e.snapshotCache()
		// retire-all (what a configuration reload does) with no query in flight: from here on every forwarder
		// ever created must have been closed
		_ = e.ctrl.ResetDnsForwarders()
		vsched.Quiesce()
		for _, f := range e.spies {
			f.closesAtRetire = f.closes
		}
		for _, s := range e.udpSocks {
			s.closesAtRetire = s.CloseCount
		}
		for _, c := range e.tcpConns {
			c.closesAtRetire = c.a.CloseCount
		}
		_ = e.ctrl.Close() // stops the janitor and the evictor
		e.finished = true
	}
	return &vsched.Scenario{Name: p.Name, Body: body, Check: func(r *vsched.Result) (string, any) { return c9Check(p, r) },
		Outcome: func(r *vsched.Result) string { return c9Outcome(r) }, MaxSteps: p.MaxSteps, HorizonNs: int64(120 * time.Second), CostedSwitch: true}
}

// ---- oracle (written from the statement only) ----------------------------------------------------------------------

func c9QuestionsAsked(e *c9Env) []c9Q {
	// every (name, type) of the harness alphabet: a cache entry must belong to one of them
	var out []c9Q
	for _, n := range c9Names {
		out = append(out, c9Q{n, dnsmessage.TypeA}, c9Q{n, dnsmessage.TypeAAAA}, c9Q{n, dnsmessage.TypeSVCB}, c9Q{n, dnsmessage.TypeHTTPS}, c9Q{n, dnsmessage.TypeTXT}, c9Q{n, dnsmessage.TypeCAA})
	}
	return out
}

func c9KeyOwner(key string, qs []c9Q) (c9Q, bool) {
	for _, q := range qs {
		base := q.name + strconv.Itoa(int(q.qtype))
		if key == base || strings.HasPrefix(key, base+"|") {
			return q, true
		}
	}
	return c9Q{}, false
}

func c9FmtQ(qs []dnsmessage.Question) string {
	var parts []string
	for _, q := range qs {
		parts = append(parts, fmt.Sprintf("%s type %d class %d", q.Name, q.Qtype, q.Qclass))
	}
	return "[" + strings.Join(parts, "; ") + "]"
}

func c9Check(p *C09Params, r *vsched.Result) (string, any) {
	e := c9Cur
	if r.Status == vsched.StPanic {
		return "panic: " + c9FirstLine(r.PanicMsg), r.PanicMsg
	}
	if r.Status == vsched.StHorizon {
		return "", nil
	}
	if e.setupErr != "" {
		return "HARNESS: setup failed: " + e.setupErr, nil
	}
	detail := c9Detail(e)
	if !e.finished {
		return "deadlock: clients or controller shutdown never finished; blocked: " + strings.Join(r.Blocked, "; "), detail
	}
	// 1. every reply written to client i carries client i's transaction ID and question, and only answers to it
	for _, co := range e.clients {
		for qi, qo := range co.queries {
			want := c9Q{strings.ToLower(qo.q.Name), qo.q.Qtype}
			who := fmt.Sprintf("client %d query %d (%s type %d id %#04x)", co.idx, qi, qo.q.Name, qo.q.Qtype, qo.q.ID)
			for vi, view := range [][]*dnsmessage.Msg{qo.msgs, qo.held} {
				what := "reply to "
				if vi == 1 {
					what = "the message object handed to the writer of "
				}
				for _, m := range view {
					if m.Id != qo.q.ID {
						return fmt.Sprintf("%s%s carries transaction ID %#04x", what, who, m.Id), detail
					}
					if len(m.Question) != 1 || !strings.EqualFold(m.Question[0].Name, qo.q.Name) || m.Question[0].Qtype != qo.q.Qtype || m.Question[0].Qclass != dnsmessage.ClassINET {
						return fmt.Sprintf("%s%s carries question %s", what, who, c9FmtQ(m.Question)), detail
					}
					for _, rr := range m.Answer {
						if !c9RRAnswers(rr, want) {
							return fmt.Sprintf("%s%s contains an answer generated for %s", what, who, c9RRFor(rr)), detail
						}
					}
				}
			}
			if qo.err == nil && len(qo.msgs) == 0 {
				return fmt.Sprintf("%s: the handler reported success but nothing was written to the client", who), detail
			}
		}
	}
	if e.imageSig != "" {
		return e.imageSig, detail
	}
	// 2. after quiescence every cache entry holds answers to the entry's own name and type
	qs := c9QuestionsAsked(e)
	for _, s := range e.cache {
		owner, ok := c9KeyOwner(s.key, qs)
		if !ok {
			return fmt.Sprintf("cache entry under key %q, which is no question of this run", s.key), detail
		}
		for _, rr := range s.answers {
			if !c9RRAnswers(rr, owner) {
				return fmt.Sprintf("cache entry %q (%s) holds an answer generated for %s", s.key, owner, c9RRFor(rr)), detail
			}
		}
		if s.packed != nil {
			var m dnsmessage.Msg
			if err := m.Unpack(s.packed); err != nil {
				return fmt.Sprintf("cache entry %q: packed reply does not parse: %v", s.key, err), detail
			}
			if len(m.Question) != 1 || c9QOf(m.Question[0]) != owner {
				return fmt.Sprintf("cache entry %q (%s): packed reply is for question %s", s.key, owner, c9FmtQ(m.Question)), detail
			}
			for _, rr := range m.Answer {
				if !c9RRAnswers(rr, owner) {
					return fmt.Sprintf("cache entry %q (%s): packed reply holds an answer generated for %s", s.key, owner, c9RRFor(rr)), detail
				}
			}
		}
	}
	// 3. concurrent identical questions: one upstream resolution, its result reaches every waiter
	if sig := c9CheckCoalescing(e); sig != "" {
		return sig, detail
	}
	// 4. every forwarder is closed exactly once, never under a query, never used afterwards
	for _, f := range e.spies {
		name := fmt.Sprintf("forwarder #%d (%s)", f.id, f.l4)
		if f.closedInFlight {
			return name + " was closed while a query was in flight on it", detail
		}
		if f.usedAfterClose {
			return name + " was handed a query after it had been closed", detail
		}
		if f.closesAtRetire != 1 {
			return fmt.Sprintf("%s saw Close %d times by the time every forwarder had been retired and no query was in flight", name, f.closesAtRetire), detail
		}
		if f.closes != 1 {
			return fmt.Sprintf("%s saw Close %d times", name, f.closes), detail
		}
	}
	for _, s := range e.udpSocks {
		if s.foreignClose {
			return fmt.Sprintf("upstream UDP socket #%d was closed by another goroutine while a query was waiting on it", s.id), detail
		}
		if s.CloseCount == 0 {
			return fmt.Sprintf("upstream UDP socket #%d was never closed (leaked)", s.id), detail
		}
		if s.closesAtRetire == 0 {
			return fmt.Sprintf("upstream UDP socket #%d was still open when every forwarder had been retired and no query was in flight", s.id), detail
		}
		if s.CloseCount > 1 {
			return fmt.Sprintf("upstream UDP socket #%d saw Close %d times", s.id, s.CloseCount), detail
		}
	}
	for _, c := range e.tcpConns {
		if c.a.CloseCount == 0 {
			return fmt.Sprintf("upstream TCP connection #%d was never closed (leaked)", c.id), detail
		}
		if c.closesAtRetire == 0 {
			return fmt.Sprintf("upstream TCP connection #%d was still open when every forwarder had been retired and no query was in flight", c.id), detail
		}
		if c.a.CloseCount > 1 {
			return fmt.Sprintf("upstream TCP connection #%d saw Close %d times", c.id, c.a.CloseCount), detail
		}
	}
	// 5. nothing is left blocked after shutdown
	if len(r.Blocked) > 0 {
		return "threads left blocked after the controller was closed: " + strings.Join(r.Blocked, "; "), detail
	}
	return "", nil
}

func c9CheckCoalescing(e *c9Env) string {
	type grp struct {
		ex      []*c9Exchange // ForwardDNS calls on a cached forwarder for this question, in start order
		queries []*c9QueryObs
		who     []string
	}
	groups := map[c9Q]*grp{}
	var order []c9Q
	get := func(q c9Q) *grp {
		g := groups[q]
		if g == nil {
			g = &grp{}
			groups[q] = g
			order = append(order, q)
		}
		return g
	}
	for _, ex := range e.exchanges {
		if ex.via == "fwd" {
			g := get(ex.q)
			g.ex = append(g.ex, ex)
		}
	}
	for _, co := range e.clients {
		for qi, qo := range co.queries {
			g := get(c9Q{strings.ToLower(qo.q.Name), qo.q.Qtype})
			g.queries = append(g.queries, qo)
			g.who = append(g.who, fmt.Sprintf("client %d query %d", co.idx, qi))
		}
	}
	sort.Slice(order, func(i, j int) bool { return order[i].String() < order[j].String() })
	for _, q := range order {
		g := groups[q]
		// one resolution at a time per question: two upstream exchanges for it never overlap
		// (a UDP attempt followed by its TCP fallback, or a retry, are sequential)
		for i := 0; i < len(g.ex); i++ {
			for j := i + 1; j < len(g.ex); j++ {
				a, b := g.ex[i], g.ex[j]
				if a.end == 0 || b.start < a.end {
					return fmt.Sprintf("two upstream exchanges for the identical question %s were in flight at the same time (not coalesced)", q)
				}
			}
		}
		// a successful cacheable answer (TTL 300s, the run lasts < 120s) serves every later identical question
		for i, a := range g.ex {
			if a.cacheable && i+1 < len(g.ex) {
				return fmt.Sprintf("question %s was resolved upstream again although an earlier resolution had succeeded", q)
			}
		}
		// all exchanges made by one thread = one resolution (every client asks a question at most once):
		// its result reaches every waiter — all answered, or all fail with the same error
		one := len(g.ex) > 0
		for _, a := range g.ex {
			if a.thread != g.ex[0].thread {
				one = false
			}
		}
		if one {
			last := g.ex[len(g.ex)-1]
			if last.ok {
				for i, qo := range g.queries {
					if qo.err != nil || len(qo.msgs) == 0 {
						return fmt.Sprintf("%s (%s) got no answer although the one upstream resolution succeeded: err=%v", g.who[i], q, qo.err)
					}
				}
			} else {
				var first string
				for i, qo := range g.queries {
					if qo.err == nil {
						return fmt.Sprintf("%s (%s) was answered although the one upstream resolution failed (%s %s)", g.who[i], q, last.behaviour, last.errs)
					}
					if i == 0 {
						first = qo.err.Error()
					} else if qo.err.Error() != first {
						return fmt.Sprintf("waiters of the one failed resolution of %s got different errors: %q vs %q", q, first, qo.err.Error())
					}
				}
			}
		}
		if len(g.ex) == 0 {
			for i, qo := range g.queries {
				if qo.err == nil && len(qo.msgs) > 0 {
					return fmt.Sprintf("%s (%s) was answered although no upstream was ever asked", g.who[i], q)
				}
			}
		}
	}
	return ""
}

func c9Detail(e *c9Env) map[string]any {
	d := map[string]any{}
	var cl []string
	for _, co := range e.clients {
		for qi, qo := range co.queries {
			s := fmt.Sprintf("c%d.%d ask %s/%d id=%#04x [%d..%d] err=%v", co.idx, qi, qo.q.Name, qo.q.Qtype, qo.q.ID, qo.start, qo.end, qo.err)
			for _, m := range qo.msgs {
				s += fmt.Sprintf(" | reply id=%#04x q=%s rcode=%d tc=%v ans=", m.Id, c9FmtQ(m.Question), m.Rcode, m.Truncated)
				for _, rr := range m.Answer {
					s += "<" + c9RRFor(rr).String() + ">"
				}
			}
			for _, m := range qo.held {
				s += fmt.Sprintf(" | held-object id=%#04x", m.Id)
			}
			cl = append(cl, s)
		}
	}
	d["clients"] = cl
	var ex []string
	for _, x := range e.exchanges {
		ex = append(ex, fmt.Sprintf("%s %s [%d..%d] %s ok=%v T%d %s", x.via, x.q, x.start, x.end, x.behaviour, x.ok, x.thread, x.errs))
	}
	d["upstream_exchanges"] = ex
	var fw []string
	for _, f := range e.spies {
		fw = append(fw, fmt.Sprintf("fwd#%d %s uses=%d closes=%d closesAtRetireAll=%d closedInFlight=%v usedAfterClose=%v", f.id, f.l4, f.uses, f.closes, f.closesAtRetire, f.closedInFlight, f.usedAfterClose))
	}
	d["forwarders"] = fw
	var so []string
	for _, s := range e.udpSocks {
		so = append(so, fmt.Sprintf("udp#%d closes=%d closesAtRetireAll=%d foreignClose=%v", s.id, s.CloseCount, s.closesAtRetire, s.foreignClose))
	}
	for _, c := range e.tcpConns {
		so = append(so, fmt.Sprintf("tcp#%d closes=%d closesAtRetireAll=%d served=%d", c.id, c.a.CloseCount, c.closesAtRetire, c.served))
	}
	d["sockets"] = so
	var ca []string
	for _, s := range e.cache {
		t := s.key + " ="
		for _, rr := range s.answers {
			t += " <" + c9RRFor(rr).String() + ">"
		}
		ca = append(ca, t)
	}
	d["cache"] = ca
	return d
}

func c9Outcome(r *vsched.Result) string {
	e := c9Cur
	if e == nil {
		return "nil"
	}
	var sb strings.Builder
	for _, co := range e.clients {
		for _, qo := range co.queries {
			fmt.Fprintf(&sb, "c%d:%d/%v;", co.idx, len(qo.msgs), qo.err != nil)
		}
	}
	for _, x := range e.exchanges {
		fmt.Fprintf(&sb, "%s:%s:%s;", x.via, x.q, x.behaviour)
	}
	for _, f := range e.spies {
		fmt.Fprintf(&sb, "f%d:%d/%d;", f.id, f.uses, f.closes)
	}
	for _, s := range e.udpSocks {
		fmt.Fprintf(&sb, "u%d:%d;", s.id, s.CloseCount)
	}
	for _, c := range e.tcpConns {
		fmt.Fprintf(&sb, "t%d:%d/%d;", c.id, c.a.CloseCount, c.served)
	}
	if e.p.DialLatency > 0 {
		fmt.Fprintf(&sb, "dials=%d;", e.maxDialing)
	}
	fmt.Fprintf(&sb, "cache=%d;fin=%v", len(e.cache), e.finished)
	return sb.String()
}

func c9FirstLine(s string) string {
	if i := strings.IndexByte(s, '\n'); i >= 0 {
		return s[:i]
	}
	return s
}
