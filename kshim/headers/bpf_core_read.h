#ifndef KSHIM_BPF_CORE_READ_H
#define KSHIM_BPF_CORE_READ_H
/* native build: no relocations, plain dereference (the fake task_struct lives in kdrv) */
#define KSHIM_CR1(s, a) ((s)->a)
#define KSHIM_CR2(s, a, b) ((s)->a->b)
#define KSHIM_CR3(s, a, b, c) ((s)->a->b->c)
#define KSHIM_CR_PICK(_1, _2, _3, NAME, ...) NAME
#define BPF_CORE_READ(src, ...) \
	KSHIM_CR_PICK(__VA_ARGS__, KSHIM_CR3, KSHIM_CR2, KSHIM_CR1)(src, __VA_ARGS__)
#define bpf_core_read(dst, sz, src) bpf_probe_read_kernel(dst, sz, (const void *)(src))
#define bpf_core_read_user_str(dst, sz, src) bpf_probe_read_user_str(dst, sz, (const void *)(src))
#endif
