// TLS ClientHello generator and the independent reference parser (written from RFC 8446 §4.1.2 / §5.1,
// RFC 5246 §7.4.1.2 and RFC 6066 §3 field layouts — not from component/sniffing/tls.go).
package main

import (
	"strings"
)

// ---- generator ----------------------------------------------------------------------------------

type sniEntry struct {
	typ  byte
	name string
}

const (
	extSNI = iota
	extALPN
	extSV
	extGREASE
	extPAD
	nExtKinds
)

var extKindName = [...]string{"sni", "alpn", "sv", "grease", "pad"}

type helloSpec struct {
	ver        int // 12 or 13
	sidLen     int
	nCS        int
	exts       []int
	sni        []sniEntry
	noExtBlock bool // TLS 1.2 form without any extensions block
	quicTP     bool // append a quic_transport_parameters extension (QUIC hellos)
	// one bulky extension that decides the size of the hello (large-hello family): kind, position in the emitted
	// extension list (0 = first, len(exts) = last) and the exact length of its extension_data
	bulkKind int
	bulkAt   int
	bulkLen  int
}

// bulky extensions a real client sends: RFC 7685 padding (all zero), a post-quantum sized key_share, a long ALPN list,
// a pre_shared_key with a long ticket identity (always the last extension, RFC 8446 section 4.2.11).
const (
	bulkNone = iota
	bulkPadding
	bulkKeyShare
	bulkALPN
	bulkPSK
)

var bulkKindName = [...]string{"none", "padding", "key_share", "alpn", "psk"}
var bulkMinLen = [...]int{0, 0, 7, 4, 44}

func patternBytes(n, salt int) []byte {
	b := make([]byte, n)
	for i := range b {
		b[i] = byte(i*31 + i>>8 + salt)
	}
	return b
}

// bulkData: extension type and an extension_data of exactly n bytes, well-formed for its kind.
func bulkData(kind, n int) (typ int, data []byte) {
	switch kind {
	case bulkPadding:
		return 21, make([]byte, n)
	case bulkKeyShare: // client_shares<0..2^16-1>: group(2) key_exchange<1..2^16-1>
		data = append(be16(n-2), 0x11, 0xec)
		data = append(data, be16(n-6)...)
		return 51, append(data, patternBytes(n-6, 5)...)
	case bulkALPN: // ProtocolName protocol_name_list<2..2^16-1>, ProtocolName = opaque<1..2^8-1>
		data = be16(n - 2)
		for left := n - 2; left > 0; {
			e := left
			if e > 256 {
				e = 256
			}
			if left-e == 1 {
				e--
			}
			data = append(data, byte(e-1))
			data = append(data, patternBytes(e-1, 'a')...)
			left -= e
		}
		return 16, data
	case bulkPSK: // identities<7..>: identity<1..> obfuscated_ticket_age(4); binders<33..>: PskBinderEntry<32..255>
		x := n - 43
		data = be16(2 + x + 4)
		data = append(data, be16(x)...)
		data = append(data, patternBytes(x, 9)...)
		data = append(data, 1, 2, 3, 4)
		data = append(data, be16(33)...)
		data = append(data, 32)
		return 41, append(data, patternBytes(32, 77)...)
	}
	panic("bulk kind")
}

// sizedHello: the spec with its bulky extension sized so that the handshake message is exactly hsLen bytes long
// (ok=false when the bulky extension would have to be shorter than its kind allows).
func sizedHello(h helloSpec, hsLen int) (helloSpec, bool) {
	h.bulkLen = bulkMinLen[h.bulkKind]
	base := len(buildHello(h).hs)
	if hsLen < base {
		return h, false
	}
	h.bulkLen += hsLen - base
	return h, true
}

func (h helloSpec) String() string {
	var e []string
	for _, k := range h.exts {
		e = append(e, extKindName[k])
	}
	var s []string
	for _, x := range h.sni {
		s = append(s, string('0'+x.typ)+":"+x.name)
	}
	bulk := ""
	if h.bulkKind != bulkNone {
		bulk = " bulk=" + bulkKindName[h.bulkKind] + ":" + itoa(h.bulkLen) + "@" + itoa(h.bulkAt)
	}
	return "tls1." + string(rune('0'+h.ver-10)) + " sid=" + itoa(h.sidLen) + " cs=" + itoa(h.nCS) + " exts=[" + strings.Join(e, ",") + "] sni=[" + strings.Join(s, " ") + "]" + bulk
}

func itoa(n int) string {
	if n == 0 {
		return "0"
	}
	neg := n < 0
	if neg {
		n = -n
	}
	var b []byte
	for n > 0 {
		b = append([]byte{byte('0' + n%10)}, b...)
		n /= 10
	}
	if neg {
		b = append([]byte{'-'}, b...)
	}
	return string(b)
}

func be16(v int) []byte { return []byte{byte(v >> 8), byte(v)} }
func be24(v int) []byte { return []byte{byte(v >> 16), byte(v >> 8), byte(v)} }

// lenField is the position of a length field inside the handshake message (for the perturbation family).
type lenField struct {
	name string
	off  int
	size int
}

type builtHello struct {
	hs     []byte     // handshake message: type(1) length(3) body
	fields []lenField // every length field of the message
	marks  []int      // structurally interesting offsets inside hs (field boundaries)
}

func buildHello(h helloSpec) builtHello {
	var out builtHello
	b := []byte{1, 0, 0, 0}
	out.fields = append(out.fields, lenField{"hs", 1, 3})
	mark := func() { out.marks = append(out.marks, len(b)) }
	mark()
	b = append(b, 0x03, 0x03) // legacy_version
	for i := 0; i < 32; i++ {
		b = append(b, byte(0xA0+i))
	}
	mark()
	out.fields = append(out.fields, lenField{"sid", len(b), 1})
	b = append(b, byte(h.sidLen))
	for i := 0; i < h.sidLen; i++ {
		b = append(b, byte(0x50+i))
	}
	mark()
	suites := [][]byte{{0x13, 0x01}}
	if h.nCS == 2 {
		suites = [][]byte{{0x0a, 0x0a}, {0x13, 0x01}}
	} else if h.nCS >= 3 {
		suites = [][]byte{{0x0a, 0x0a}, {0x13, 0x01}, {0xc0, 0x2f}}
	}
	out.fields = append(out.fields, lenField{"cs", len(b), 2})
	b = append(b, be16(2*len(suites))...)
	for _, s := range suites {
		b = append(b, s...)
	}
	mark()
	out.fields = append(out.fields, lenField{"comp", len(b), 1})
	b = append(b, 1, 0)
	mark()
	if !h.noExtBlock {
		extLenOff := len(b)
		out.fields = append(out.fields, lenField{"exts", extLenOff, 2})
		b = append(b, 0, 0)
		kinds := append([]int(nil), h.exts...)
		if h.bulkKind != bulkNone {
			at := h.bulkAt
			if at > len(kinds) {
				at = len(kinds)
			}
			kinds = append(kinds[:at:at], append([]int{-2}, kinds[at:]...)...)
		}
		if h.quicTP {
			kinds = append(kinds, -1)
		}
		for _, k := range kinds {
			mark()
			var typ int
			var data []byte
			switch k {
			case extSNI:
				typ = 0
				var list []byte
				var offs []int
				for _, e := range h.sni {
					list = append(list, e.typ)
					offs = append(offs, len(list))
					list = append(list, be16(len(e.name))...)
					list = append(list, e.name...)
				}
				data = append(be16(len(list)), list...)
				base := len(b) + 4
				out.fields = append(out.fields, lenField{"snilist", base, 2})
				for _, o := range offs {
					out.fields = append(out.fields, lenField{"sniname", base + 2 + o, 2})
					out.marks = append(out.marks, base+2+o-1, base+2+o+2, base+2+o+3)
				}
			case extALPN:
				typ = 16
				list := []byte("\x02h2\x08http/1.1")
				data = append(be16(len(list)), list...)
			case extSV:
				typ = 43
				if h.ver == 13 {
					data = []byte{4, 0x03, 0x04, 0x03, 0x03}
				} else {
					data = []byte{2, 0x03, 0x03}
				}
			case extGREASE:
				typ = 0x0a0a
				data = []byte{0}
			case extPAD:
				typ = 21
				data = make([]byte, 7)
			case -2:
				typ, data = bulkData(h.bulkKind, h.bulkLen)
			case -1:
				typ = 0x39
				data = []byte{0x01, 0x02, 0x67, 0x10, 0x03, 0x02, 0x45, 0xc0}
			}
			out.fields = append(out.fields, lenField{"ext", len(b) + 2, 2})
			b = append(b, be16(typ)...)
			b = append(b, be16(len(data))...)
			b = append(b, data...)
		}
		n := len(b) - extLenOff - 2
		b[extLenOff], b[extLenOff+1] = byte(n>>8), byte(n)
	}
	mark()
	n := len(b) - 4
	b[1], b[2], b[3] = byte(n>>16), byte(n>>8), byte(n)
	out.hs = b
	return out
}

func tlsRecord(ver int, hs []byte) []byte {
	minor := byte(0x03)
	if ver == 13 {
		minor = 0x01 // TLS 1.3 clients put 0x0301 on the first record for middlebox compatibility
	}
	r := []byte{22, 0x03, minor}
	r = append(r, be16(len(hs))...)
	return append(r, hs...)
}

// ---- reference ----------------------------------------------------------------------------------

// verdict of the reference on one input.
//
//	name/required: the input is strictly well-formed and carries exactly one host_name (normalised:
//	               lower case, one trailing dot removed) — the sniffer MUST report it (under the
//	               arrival assumptions of the statement).
//	carried:       every host name a length-tolerant reader of the same field layout can find (raw
//	               bytes as written). A name the sniffer reports must be DNS-equal to one of them.
type verdict struct {
	required bool
	name     string
	carried  []string
}

func normName(s string) string {
	s = strings.ToLower(s)
	return strings.TrimSuffix(s, ".")
}

func (v verdict) allows(got string) bool {
	g := normName(got)
	for _, c := range v.carried {
		if normName(c) == g {
			return true
		}
	}
	return false
}

type cur struct {
	b   []byte
	p   int
	bad bool
}

func (c *cur) left() int { return len(c.b) - c.p }
func (c *cur) take(n int) []byte {
	if c.bad || n < 0 || c.left() < n {
		c.bad = true
		return nil
	}
	s := c.b[c.p : c.p+n]
	c.p += n
	return s
}
func (c *cur) u(n int) int {
	s := c.take(n)
	if s == nil {
		return 0
	}
	v := 0
	for _, x := range s {
		v = v<<8 | int(x)
	}
	return v
}

func validHostName(s string) bool {
	if len(s) == 0 || len(s) > 255 {
		return false
	}
	t := strings.TrimSuffix(s, ".")
	if t == "" {
		return false
	}
	for _, lab := range strings.Split(t, ".") {
		if lab == "" || len(lab) > 63 {
			return false
		}
		for i := 0; i < len(lab); i++ {
			ch := lab[i]
			if !(ch >= 'a' && ch <= 'z' || ch >= 'A' && ch <= 'Z' || ch >= '0' && ch <= '9' || ch == '-' || ch == '_') {
				return false
			}
		}
	}
	return true
}

// strictHello parses one complete handshake message (type, length, ClientHello body), nothing else.
func strictHello(hs []byte) (ok bool, name string, has bool) {
	c := &cur{b: hs}
	if c.u(1) != 1 {
		return
	}
	if n := c.u(3); c.bad || n != c.left() {
		return
	}
	ver := c.u(2)
	if ver < 0x0301 || ver > 0x0303 {
		return
	}
	c.take(32)
	if sl := c.u(1); sl > 32 {
		return
	} else {
		c.take(sl)
	}
	csl := c.u(2)
	if csl < 2 || csl%2 != 0 {
		return
	}
	c.take(csl)
	cml := c.u(1)
	if cml < 1 {
		return
	}
	c.take(cml)
	if c.bad {
		return
	}
	if c.left() == 0 {
		return true, "", false
	}
	if el := c.u(2); c.bad || el != c.left() {
		return
	}
	seen := map[int]bool{}
	for c.left() > 0 {
		typ := c.u(2)
		dl := c.u(2)
		data := c.take(dl)
		if c.bad || seen[typ] {
			return
		}
		seen[typ] = true
		if typ != 0 {
			continue
		}
		d := &cur{b: data}
		ll := d.u(2)
		if d.bad || ll != d.left() || ll < 1 {
			return
		}
		types := map[int]bool{}
		for d.left() > 0 {
			nt := d.u(1)
			nl := d.u(2)
			nm := d.take(nl)
			if d.bad || nl < 1 || types[nt] {
				return
			}
			types[nt] = true
			if nt == 0 {
				if !validHostName(string(nm)) {
					return
				}
				name, has = string(nm), true
			}
		}
	}
	return true, name, has
}

// carriedHello collects the host_name entries a tolerant reader finds in a (possibly truncated or inconsistent)
// handshake message: every length is clamped to the bytes present, nothing is required to add up.
func carriedHello(hs []byte) (names []string) {
	c := &cur{b: hs}
	if c.u(1) != 1 {
		return
	}
	c.u(3)
	c.u(2)
	c.take(32)
	c.take(c.u(1))
	c.take(c.u(2))
	c.take(c.u(1))
	if c.bad {
		return
	}
	el := c.u(2)
	if c.bad {
		return
	}
	if el < c.left() {
		c.b = c.b[:c.p+el]
	}
	for c.left() >= 4 {
		typ := c.u(2)
		dl := c.u(2)
		if dl > c.left() {
			dl = c.left() // an extension that claims more than the block holds: read what is there
		}
		data := c.take(dl)
		if typ != 0 || len(data) < 2 {
			continue
		}
		d := &cur{b: data[2:]}
		for d.left() >= 3 {
			nt := d.u(1)
			nl := d.u(2)
			nm := d.take(nl)
			if d.bad {
				break
			}
			if nt == 0 {
				names = append(names, string(nm))
			}
		}
	}
	return
}

func refHello(hs []byte) verdict {
	var v verdict
	ok, name, has := strictHello(hs)
	v.carried = carriedHello(hs)
	if ok && has {
		v.required, v.name = true, normName(name)
		v.carried = append(v.carried, name)
	}
	return v
}

// refTLSStream: the reference on a TCP byte stream that starts with (what may be) a TLS record.
func refTLSStream(s []byte) verdict {
	var v verdict
	if len(s) < 5 || s[0] != 22 || s[1] != 3 {
		return v
	}
	rl := int(s[3])<<8 | int(s[4])
	// strict: one complete record of legal size holding exactly one ClientHello
	if s[2] <= 4 && rl <= 16384 && rl >= 4 && len(s) >= 5+rl {
		if ok, name, has := strictHello(s[5 : 5+rl]); ok && has {
			v.required, v.name = true, normName(name)
			v.carried = append(v.carried, name)
		}
	}
	// tolerant: reassemble consecutive handshake records as far as bytes are present
	var hs []byte
	p := 0
	for p+5 <= len(s) && s[p] == 22 && s[p+1] == 3 {
		n := int(s[p+3])<<8 | int(s[p+4])
		end := p + 5 + n
		if end > len(s) {
			end = len(s)
		}
		hs = append(hs, s[p+5:end]...)
		p = end
		if len(hs) >= 4 && len(hs) >= 4+(int(hs[1])<<16|int(hs[2])<<8|int(hs[3])) {
			break
		}
	}
	v.carried = append(v.carried, carriedHello(hs)...)
	// a reader that ignores the handshake length sees only the first record
	first := 5 + rl
	if first > len(s) {
		first = len(s)
	}
	v.carried = append(v.carried, carriedHello(s[5:first])...)
	return v
}
