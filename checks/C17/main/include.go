package main

import (
	"encoding/json"
	"fmt"
	"os"
	"path/filepath"
	"sort"
	"strings"
	"sync/atomic"
	"syscall"
	"time"
	"unsafe"

	"github.com/daeuniverse/dae/verifx/vlib"
)

// ---- leg 5: include graphs over a real directory tree ----
//
// Observable for "never read": Linux inotify (IN_OPEN|IN_ACCESS) on every regular file of the scratch tree,
// armed after the tree is written and read back after Merge() returns — the kernel reports every open(2) of
// those inodes by this process, whatever Go API was used. stat/lstat (needed by glob expansion) are not opens.

type incFile struct {
	rel      string // path below the scratch root
	mode     os.FileMode
	isDir    bool
	tag      string   // files with a tag carry the standard tagged content
	includes []string // include specs exactly as written in the file (%R = scratch root)
	raw      string   // explicit content (overrides tag content)
	incLast  bool     // write the include section after the other sections
	extra    string   // extra text appended (e.g. a second 'node' section)
	light    bool     // no routing section (the 5000+ graph cases: parsing a rule is the expensive part)
}

type incCase struct {
	label   string
	files   []incFile
	entry   string   // below the scratch root unless absolute / cwd-relative (see chdir)
	chdir   string   // if set: chdir there (below root) and use entry as given
	expect  string   // ok | err | ok-or-err
	order   []string // tags in expected merge order (entry first)
	comment string
}

var repeatedRejected atomic.Int64

func tagItems(tag string) map[string][]*RItem {
	return map[string][]*RItem{
		"node":    {{P: &RParam{Val: tag + ".1"}}, {P: &RParam{Val: tag + ".2"}}},
		"routing": {{R: &RRule{And: []*RFunc{{Name: "pname", Params: []*RParam{{Val: tag}}}}, Out: &RFunc{Name: "direct"}}}},
		"marker":  {{P: &RParam{Key: "k" + tag, Val: tag}}},
	}
}

func (f *incFile) content(root string) string {
	if f.raw != "" {
		return strings.ReplaceAll(f.raw, "%R", root)
	}
	var inc string
	if len(f.includes) > 0 {
		inc = "include {\n"
		for _, s := range f.includes {
			inc += "  " + strings.ReplaceAll(s, "%R", root) + "\n"
		}
		inc += "}\n"
	}
	body := fmt.Sprintf("node { '%s.1' '%s.2' }\nrouting { pname(%s) -> direct }\nmarker { k%s: %s }\n", f.tag, f.tag, f.tag, f.tag, f.tag)
	if f.light {
		body = fmt.Sprintf("node { '%s.1' '%s.2' }\nmarker { k%s: %s }\n", f.tag, f.tag, f.tag, f.tag)
	}
	if f.incLast {
		return body + inc + f.extra
	}
	return inc + body + f.extra
}

type inoWatch struct {
	fd     int
	paths  map[int32]string
	byPath map[string]bool
	buf    []byte
}

var procWatch *inoWatch

func newWatch() (*inoWatch, error) {
	fd, err := syscall.InotifyInit1(syscall.IN_NONBLOCK | syscall.IN_CLOEXEC)
	if err != nil {
		return nil, err
	}
	return &inoWatch{fd: fd, paths: map[int32]string{}, byPath: map[string]bool{}}, nil
}
func (w *inoWatch) add(path string) error {
	wd, err := syscall.InotifyAddWatch(w.fd, path, syscall.IN_OPEN|syscall.IN_ACCESS)
	if err != nil {
		return err
	}
	w.paths[int32(wd)] = path
	return nil
}
func (w *inoWatch) opened() map[string]bool {
	out := map[string]bool{}
	if w.buf == nil {
		w.buf = make([]byte, 64*1024)
	}
	buf := w.buf
	for {
		n, err := syscall.Read(w.fd, buf)
		if n <= 0 || err != nil {
			break
		}
		for off := 0; off+syscall.SizeofInotifyEvent <= n; {
			ev := (*syscall.InotifyEvent)(unsafe.Pointer(&buf[off]))
			if p, ok := w.paths[ev.Wd]; ok {
				out[p] = true
			}
			off += syscall.SizeofInotifyEvent + int(ev.Len)
		}
	}
	return out
}
func (w *inoWatch) close() { syscall.Close(w.fd) }

type incOutcome struct {
	sig    string
	detail any
}

var (
	treeLayout  string
	treeContent map[string]string
)

func runIncCase(root string, c *incCase, inotifyOK *bool) []incOutcome {
	var out []incOutcome
	viol := func(sig string, detail any) { out = append(out, incOutcome{sig, detail}) }
	// the tree is rebuilt only when the set of paths changes; otherwise only changed files are rewritten
	var layout []string
	for i := range c.files {
		layout = append(layout, c.files[i].rel)
	}
	lay := strings.Join(layout, "\x00")
	rebuilt := false
	if lay != treeLayout {
		rebuilt = true
		os.RemoveAll(root)
		if err := os.MkdirAll(root, 0o755); err != nil {
			panic(err)
		}
		treeLayout = lay
		treeContent = map[string]string{}
	}
	byTag := map[string]*incFile{}
	var regular []string
	for i := range c.files {
		f := &c.files[i]
		p := filepath.Join(root, f.rel)
		if f.isDir {
			os.MkdirAll(p, 0o755)
			continue
		}
		mode := f.mode
		if mode == 0 {
			mode = 0o600
		}
		content := f.content(root)
		key := fmt.Sprintf("%04o|%s", mode, content)
		if treeContent[p] != key {
			os.MkdirAll(filepath.Dir(p), 0o755)
			if err := os.WriteFile(p, []byte(content), 0o600); err != nil {
				panic(err)
			}
			os.Chmod(p, mode)
			treeContent[p] = key
		}
		regular = append(regular, p)
		if f.tag != "" {
			byTag[f.tag] = f
		}
	}
	entry := strings.ReplaceAll(c.entry, "%R", root)
	if c.chdir != "" {
		// the child changes directory for this case
	} else if !filepath.IsAbs(entry) {
		entry = filepath.Join(root, entry)
	}
	// forbidden = regular files that are not *.dae or not (lexically) below the entry directory
	entryDirAbs := filepath.Join(root, "conf")
	forbidden := map[string]bool{}
	for _, p := range regular {
		rel, err := filepath.Rel(entryDirAbs, p)
		inside := err == nil && rel != ".." && !strings.HasPrefix(rel, "../")
		if !inside || !strings.HasSuffix(p, ".dae") {
			forbidden[p] = true
		}
	}
	// one inotify instance per process (closing one is slow); watches follow the tree layout
	var w *inoWatch
	if *inotifyOK {
		if procWatch == nil {
			var err error
			if procWatch, err = newWatch(); err != nil {
				*inotifyOK = false
			}
		}
		if procWatch != nil {
			w = procWatch
			if rebuilt {
				w.paths = map[int32]string{}
				w.byPath = map[string]bool{}
			}
			for _, p := range regular {
				if !w.byPath[p] {
					if err := w.add(p); err != nil {
						*inotifyOK = false
					}
					w.byPath[p] = true
				}
			}
			w.opened() // drop the events caused by writing the tree
		}
	}
	// Merge runs in a child process (stream worker, kind "merge") while this process watches the tree:
	// a merge that does not terminate (an unrecognised include cycle recurses for ever, re-reading the files,
	// until stack or memory is exhausted) is recognised deterministically — some file has been opened more
	// than maxOpensPerFile times, which no terminating merge of these trees can do — and the child is killed.
	chdir := ""
	if c.chdir != "" {
		chdir = filepath.Join(root, c.chdir)
	}
	var opened map[string]bool
	mres := mergeInChild(entry, chdir, w, *inotifyOK)
	opened = mres.opened
	switch {
	case mres.runaway != "":
		viol("include cycle not rejected: merge does not terminate", map[string]any{"case": c.label, "criterion": mres.runaway, "expected": c.expect})
		return out
	case mres.stalled:
		guardStalls.Add(1)
		return out
	case mres.crashed:
		viol("include: merge killed the process site="+vlib.PanicSite(mres.tail), map[string]any{"case": c.label, "stderr_tail": tailOf(mres.tail)})
		return out
	case mres.resp.Panic != "":
		viol("panic site="+vlib.PanicSite(mres.resp.Panic), map[string]any{"case": c.label, "panic": mres.resp.Panic})
		return out
	}
	var err error
	if mres.resp.Err != "" {
		err = fmt.Errorf("%s", mres.resp.Err)
		if mres.resp.Err == "<empty error message>" {
			err = fmt.Errorf("")
		}
	}
	if w != nil && *inotifyOK {
		var bad []string
		for p := range opened {
			if forbidden[p] {
				r, _ := filepath.Rel(root, p)
				bad = append(bad, r)
			}
		}
		sort.Strings(bad)
		if len(bad) > 0 {
			kind := "outside the entry directory"
			if !strings.HasSuffix(bad[0], ".dae") {
				kind = "not a .dae file"
			}
			viol("include: a file "+kind+" was opened", map[string]any{"case": c.label, "opened": bad})
		}
	}
	if err != nil {
		if strings.TrimSpace(err.Error()) == "" {
			viol("include: rejected with an empty error message", c.label)
		}
		repeated := false
		seenTag := map[string]bool{}
		for _, tg := range c.order {
			if seenTag[tg] {
				repeated = true
			}
			seenTag[tg] = true
		}
		if c.expect == "ok" && repeated && strings.Contains(err.Error(), "circular include") {
			// Reading decision (DESIGN 6.2): a file that would be merged twice (diamond, or listed twice) is not a
			// cycle, but the statement does not demand that repeated inclusion be accepted; a clean rejection is
			// within "rejected with an error message". Counted, not a violation.
			repeatedRejected.Add(1)
			return out
		}
		if c.expect == "ok" {
			cls := "other"
			for _, k := range []string{"circular include", "out of scope", "permissions", "must has suffix", "failed to parse", "cannot include a directory", "failed to read"} {
				if strings.Contains(err.Error(), k) {
					cls = k
					break
				}
			}
			viol("include: valid include tree rejected ("+cls+")", map[string]any{"case": c.label, "comment": c.comment, "expected_merge_order": c.order, "error": err.Error()})
		}
		return out
	}
	if c.expect == "err" {
		viol("include: tree that must be refused was merged ("+classOfLabel(c.label)+")", map[string]any{"case": c.label, "comment": c.comment})
		return out
	}
	// expected merged content: for each tag in order, that file's items, per section
	want := map[string][]*RItem{}
	for _, tag := range c.order {
		f := byTag[tag]
		if f == nil {
			panic("harness: unknown tag " + tag)
		}
		if len(f.includes) > 0 {
			// what the include section of that file spells (read by the reference reader)
			rs, rerr := refParse("include {\n" + strings.ReplaceAll(strings.Join(f.includes, "\n"), "%R", root) + "\n}")
			if rerr != nil || len(rs) != 1 {
				panic("harness: include specs do not parse: " + strings.Join(f.includes, " "))
			}
			want["include"] = append(want["include"], rs[0].Items...)
		}
		for name, items := range tagItems(tag) {
			if f.light && name == "routing" {
				continue
			}
			want[name] = append(want[name], items...)
		}
		if f.extra != "" { // the only extra used: a second node section
			want["node"] = append(want["node"], &RItem{P: &RParam{Val: tag + ".3"}})
		}
	}
	got := mres.resp.Sections
	if got == nil {
		got = map[string]string{}
	}
	if mres.resp.DupSection {
		viol("include: merged result has two sections of one name", c.label)
	}
	var diffs []string
	for name, items := range want {
		var b strings.Builder
		canonSection(&b, &RSection{Name: name, Items: items})
		if got[name] != b.String() {
			diffs = append(diffs, fmt.Sprintf("section %s:\n want %s\n got  %s", name, b.String(), got[name]))
		}
	}
	for name := range got {
		if _, ok := want[name]; !ok {
			diffs = append(diffs, "unexpected section "+name+": "+got[name])
		}
	}
	sort.Strings(diffs)
	if len(diffs) > 0 {
		viol("include: merged content/order differs from 'including file first, then each included file in listed order'",
			map[string]any{"case": c.label, "expected_merge_order": c.order, "diff": diffs})
	}
	return out
}

// ---- the merge child and its guard ----

// maxOpensPerFile: in these trees a file is named by at most 6 spellings (plus the entry spelling); a merger that
// terminates reads a file at most once per spelling — far below this bound. Exceeding it is the
// deterministic criterion for "does not terminate"; the wall-clock guard below only prevents a hang of the
// check itself and never produces a violation.
const maxOpensPerFile = 64

var guardStalls atomic.Int64

var spelledCases int

type mergeResult struct {
	resp    *sresp
	opened  map[string]bool
	runaway string // non-empty: the criterion that fired
	crashed bool
	stalled bool
	tail    string
}

var mergeChild *sworker

func stopMergeChild() {
	if mergeChild != nil {
		mergeChild.stop()
		mergeChild = nil
	}
}

func mergeInChild(entry, chdir string, w *inoWatch, inotifyOK bool) mergeResult {
	res := mergeResult{opened: map[string]bool{}}
	if mergeChild == nil {
		var err error
		if mergeChild, err = startWorker(); err != nil {
			fmt.Fprintln(os.Stderr, "C17: cannot start the merge child:", err)
			os.Exit(2)
		}
	}
	ch := mergeChild
	b, _ := json.Marshal(&sreq{ID: 1, Kind: "merge", Text: entry, Chdir: chdir})
	_, werr := ch.in.Write(append(b, '\n'))
	type rd struct {
		line []byte
		err  error
	}
	done := make(chan rd, 1)
	go func() {
		line, err := ch.out.ReadBytes('\n')
		done <- rd{line, err}
	}()
	counts := map[string]int{}
	poll := func() string {
		if w == nil || !inotifyOK {
			return ""
		}
		for p := range w.opened() {
			res.opened[p] = true
			counts[p]++ // one poll that saw an open = at least one more open(2) of that file
			if counts[p] > maxOpensPerFile {
				return fmt.Sprintf("%s was opened more than %d times during one Merge()", filepath.Base(p), maxOpensPerFile)
			}
		}
		return ""
	}
	start := time.Now()
	tick := time.NewTicker(2 * time.Millisecond)
	defer tick.Stop()
	var got rd
loop:
	for {
		select {
		case got = <-done:
			poll()
			break loop
		case <-tick.C:
			if why := poll(); why != "" {
				ch.cmd.Process.Kill()
				<-done
				ch.in.Close()
				ch.cmd.Wait()
				mergeChild = nil
				res.runaway = why
				return res
			}
			if time.Since(start) > 10*time.Minute { // hang guard of the check itself; classifies nothing
				ch.cmd.Process.Kill()
				<-done
				ch.in.Close()
				ch.cmd.Wait()
				mergeChild = nil
				res.stalled = true
				return res
			}
		}
	}
	var resp sresp
	if werr == nil && got.err == nil && json.Unmarshal(got.line, &resp) == nil {
		res.resp = &resp
		return res
	}
	ch.in.Close()
	ch.cmd.Wait()
	res.crashed, res.tail = true, ch.stderr.String()
	mergeChild = nil
	return res
}

// reference expansion of a graph on named files: including file first, then each included file in listed order;
// a file that includes itself directly or indirectly is an error.
func refExpand(inc map[string][]string, entry string) (order []string, cyclic bool) {
	onStack := map[string]bool{}
	var rec func(x string) bool
	rec = func(x string) bool {
		if onStack[x] {
			return false
		}
		onStack[x] = true
		order = append(order, x)
		for _, ch := range inc[x] {
			if !rec(ch) {
				return false
			}
		}
		onStack[x] = false
		return true
	}
	if !rec(entry) {
		return nil, true
	}
	return order, false
}

func orderedSubsets(names []string) [][]string {
	var out [][]string
	var rec func(cur []string, used map[string]bool)
	rec = func(cur []string, used map[string]bool) {
		out = append(out, append([]string{}, cur...))
		for _, n := range names {
			if !used[n] {
				used[n] = true
				rec(append(cur, n), used)
				used[n] = false
			}
		}
	}
	rec(nil, map[string]bool{})
	return out
}

func buildIncCases(root string, thorough bool) (cases []*incCase, nGraphs int) {

	// --- every ordered include graph on three files a,b,c (entry a) ---
	names := []string{"a", "b", "c"}
	tagOf := map[string]string{"a": "A", "b": "B", "c": "C"}
	lists := orderedSubsets(names) // 16 ordered lists without repetition
	decoys := []incFile{
		{rel: "conf/x.txt", raw: "node { 'DECOY' }\n"},
		{rel: "outside/o.dae", raw: "node { 'DECOY' }\n"},
	}
	for _, la := range lists {
		for _, lb := range lists {
			for _, lc := range lists {
				inc := map[string][]string{"a": la, "b": lb, "c": lc}
				c := &incCase{entry: "conf/a.dae"}
				var lab []string
				for _, n := range names {
					var specs []string
					for _, t := range inc[n] {
						specs = append(specs, t+".dae")
					}
					c.files = append(c.files, incFile{rel: "conf/" + n + ".dae", tag: tagOf[n], includes: specs, incLast: n == "b", light: len(cases)%64 != 0})
					lab = append(lab, n+"->["+strings.Join(inc[n], ",")+"]")
				}
				c.files = append(c.files, decoys...)
				c.label = "graph " + strings.Join(lab, " ")
				order, cyclic := refExpand(inc, "a")
				if cyclic {
					c.expect = "err"
					c.label = "cyclic " + c.label
				} else {
					c.expect = "ok"
					for _, n := range order {
						c.order = append(c.order, tagOf[n])
					}
					seen := map[string]bool{}
					for _, n := range order {
						if seen[n] {
							c.comment = "acyclic: a file is reachable along two paths (no file includes itself)"
						}
						seen[n] = true
					}
				}
				cases = append(cases, c)
			}
		}
	}
	nGraphs = len(cases)

	// --- path SPELLING as a dimension of the graphs ---
	// Each edge x->y names y in one of six ways; the cycle / repeated-inclusion verdict must not depend on it.
	spell := func(y string, k int) string {
		switch k {
		case 0:
			return y + ".dae"
		case 1:
			return "./" + y + ".dae"
		case 2:
			return "'%R/conf/" + y + ".dae'"
		case 3:
			return "'%R/conf/./" + y + ".dae'"
		case 4:
			return "'%R/conf//" + y + ".dae'"
		default:
			return "'%R/conf/sub/../" + y + ".dae'"
		}
	}
	spellName := []string{"rel", "dot-rel", "abs", "abs/./", "abs//", "abs/sub/../"}
	const nSpell = 6
	type edge struct{ from, to string }
	spelledCase := func(shape string, edges []edge, ks []int) *incCase {
		inc := map[string][]string{}
		specs := map[string][]string{}
		var lab []string
		for i, e := range edges {
			inc[e.from] = append(inc[e.from], e.to)
			specs[e.from] = append(specs[e.from], spell(e.to, ks[i]))
			lab = append(lab, e.from+"->"+e.to+"["+spellName[ks[i]]+"]")
		}
		c := &incCase{entry: "conf/a.dae"}
		for _, n := range names {
			c.files = append(c.files, incFile{rel: "conf/" + n + ".dae", tag: tagOf[n], includes: specs[n], incLast: n == "b", light: true})
		}
		c.files = append(c.files, incFile{rel: "conf/sub", isDir: true})
		c.files = append(c.files, decoys...)
		order, cyclic := refExpand(inc, "a")
		if cyclic {
			c.expect = "err"
			c.label = "spelling cyclic " + shape + ": " + strings.Join(lab, " ")
		} else {
			c.expect = "ok"
			c.label = "spelling acyclic " + shape + ": " + strings.Join(lab, " ")
			for _, n := range order {
				c.order = append(c.order, tagOf[n])
			}
		}
		return c
	}
	// (a) the full per-edge product on the canonical cyclic and repeated-inclusion shapes
	shapes := []struct {
		name  string
		edges []edge
	}{
		{"self-loop", []edge{{"a", "a"}}},
		{"2-cycle", []edge{{"a", "b"}, {"b", "a"}}},
		{"3-cycle", []edge{{"a", "b"}, {"b", "c"}, {"c", "a"}}},
		{"cycle-off-entry", []edge{{"a", "b"}, {"b", "c"}, {"c", "b"}}},
		{"self-loop-off-entry", []edge{{"a", "b"}, {"b", "b"}}},
		{"diamond", []edge{{"a", "b"}, {"a", "c"}, {"b", "c"}}},
		{"diamond-2", []edge{{"a", "b"}, {"a", "c"}, {"c", "b"}}},
		{"listed-twice", []edge{{"a", "b"}, {"a", "b"}}},
		{"chain", []edge{{"a", "b"}, {"b", "c"}}},
	}
	nSpelled := 0
	for _, sh := range shapes {
		total := 1
		for range sh.edges {
			total *= nSpell
		}
		for code := 0; code < total; code++ {
			ks := make([]int, len(sh.edges))
			x := code
			for i := range ks {
				ks[i] = x % nSpell
				x /= nSpell
			}
			cases = append(cases, spelledCase(sh.name, sh.edges, ks))
			nSpelled++
		}
	}
	// (b) thorough: every one of the 4096 graphs again, all edges in one spelling, for each non-plain spelling
	if thorough {
		for k := 1; k < nSpell; k++ {
			for _, la := range lists {
				for _, lb := range lists {
					for _, lc := range lists {
						var edges []edge
						for _, t := range la {
							edges = append(edges, edge{"a", t})
						}
						for _, t := range lb {
							edges = append(edges, edge{"b", t})
						}
						for _, t := range lc {
							edges = append(edges, edge{"c", t})
						}
						ks := make([]int, len(edges))
						for i := range ks {
							ks[i] = k
						}
						cases = append(cases, spelledCase("graph", edges, ks))
						nSpelled++
					}
				}
			}
		}
	}
	spelledCases = nSpelled

	// --- path spelling / file kind / permission matrix ---
	base := func(aIncludes ...string) []incFile {
		return []incFile{
			{rel: "conf/a.dae", tag: "A", includes: aIncludes},
			{rel: "conf/b.dae", tag: "B", mode: 0o640},
			{rel: "conf/c.dae", tag: "C"},
			{rel: "conf/sub/d.dae", tag: "D"},
			{rel: "conf/sub/deep/e.dae", tag: "E"},
			{rel: "conf/sub/notes.txt", raw: "node { 'DECOY' }\n"},
			{rel: "conf/..x/f.dae", tag: "F"},
			{rel: "conf/dir.dae/g.dae", tag: "G"},
			{rel: "conf/x.conf", raw: "node { 'DECOY' }\n"},
			{rel: "conf/b.dae.bak", raw: "node { 'DECOY' }\n"},
			{rel: "conf/xdae", raw: "node { 'DECOY' }\n"},
			{rel: "conf2/o2.dae", raw: "node { 'DECOY' }\n"},
			{rel: "outside/o.dae", raw: "node { 'DECOY' }\n"},
			{rel: "outside/p.txt", raw: "node { 'DECOY' }\n"},
			{rel: "o3.dae", raw: "node { 'DECOY' }\n"},
		}
	}
	m := func(label, expect string, order []string, specs ...string) {
		cases = append(cases, &incCase{label: "path " + label + ": include { " + strings.Join(specs, " ") + " }", files: base(specs...), entry: "conf/a.dae", expect: expect, order: order})
	}
	safeRoot := true
	for _, ch := range root {
		if !isSafe(ch) {
			safeRoot = false
		}
	}
	m("relative", "ok", []string{"A", "B"}, "b.dae")
	m("relative dot", "ok", []string{"A", "B"}, "./b.dae")
	m("relative quoted", "ok", []string{"A", "B"}, "'b.dae'")
	m("relative dquoted", "ok", []string{"A", "B"}, "\"b.dae\"")
	m("nested dir", "ok", []string{"A", "D"}, "sub/d.dae")
	m("nested dir 2", "ok", []string{"A", "E"}, "sub/deep/e.dae")
	m("dotdot staying inside", "ok", []string{"A", "B"}, "sub/../b.dae")
	m("dotdot staying inside 2", "ok", []string{"A", "C"}, "sub/deep/../../c.dae")
	m("dotdot leaving and re-entering", "ok", []string{"A", "B"}, "../conf/b.dae")
	m("absolute", "ok", []string{"A", "B"}, "'%R/conf/b.dae'")
	if safeRoot {
		m("absolute bare", "ok", []string{"A", "B"}, "%R/conf/b.dae")
	}
	m("absolute unclean dot", "ok", []string{"A", "B"}, "'%R/conf/./b.dae'")
	m("absolute unclean dotdot", "ok", []string{"A", "B"}, "'%R/conf/sub/../b.dae'")
	m("absolute via outside", "ok", []string{"A", "B"}, "'%R/outside/../conf/b.dae'")
	m("two listed", "ok", []string{"A", "B", "C"}, "b.dae", "c.dae")
	m("two listed reversed", "ok", []string{"A", "C", "B"}, "c.dae", "b.dae")
	m("three listed mixed", "ok", []string{"A", "D", "C", "B"}, "sub/d.dae", "'%R/conf/c.dae'", "./b.dae")
	m("same file listed twice", "ok", []string{"A", "B", "B"}, "b.dae", "b.dae")
	m("glob dir", "ok", []string{"A", "D"}, "sub/*.dae")
	m("glob star in dir (mixed kinds)", "ok-or-err", []string{"A", "D"}, "sub/*")
	m("glob class", "ok", []string{"A", "B", "C"}, "'[bc].dae'")
	m("glob prefix", "ok", []string{"A", "B"}, "b*.dae")
	m("glob dir component", "ok", []string{"A", "E"}, "sub/*/e.dae")
	m("glob absolute", "ok", []string{"A", "D"}, "'%R/conf/sub/*.dae'")
	m("glob then file", "ok", []string{"A", "D", "B"}, "sub/*.dae", "b.dae")
	m("glob matching the entry itself", "err", nil, "*.dae")
	m("glob question matching the entry itself", "err", nil, "?.dae")
	m("file inside a directory named *.dae", "ok", []string{"A", "G"}, "dir.dae/g.dae")
	m("directory whose name starts with two dots", "ok", []string{"A", "F"}, "..x/f.dae")
	m("directory named *.dae", "ok-or-err", []string{"A"}, "dir.dae")
	m("missing file", "ok-or-err", []string{"A"}, "nosuch.dae")
	m("escape relative", "ok-or-err", []string{"A"}, "../outside/o.dae")
	m("escape relative deep", "ok-or-err", []string{"A"}, "sub/../../outside/o.dae")
	m("escape to parent", "ok-or-err", []string{"A"}, "../o3.dae")
	m("escape to sibling with common prefix", "ok-or-err", []string{"A"}, "../conf2/o2.dae")
	m("escape absolute", "ok-or-err", []string{"A"}, "'%R/outside/o.dae'")
	m("escape absolute sibling prefix", "ok-or-err", []string{"A"}, "'%R/conf2/o2.dae'")
	m("escape absolute unclean", "ok-or-err", []string{"A"}, "'%R/conf/../outside/o.dae'")
	m("escape glob", "ok-or-err", []string{"A"}, "../outside/*.dae")
	m("escape glob any", "ok-or-err", []string{"A"}, "../outside/*")
	m("escape glob dir", "ok-or-err", []string{"A"}, "../*/o.dae")
	m("escape then valid", "ok-or-err", []string{"A", "B"}, "../outside/o.dae", "b.dae")
	m("non-dae suffix", "ok-or-err", []string{"A"}, "x.conf")
	m("non-dae suffix bak", "ok-or-err", []string{"A"}, "b.dae.bak")
	m("non-dae no dot", "ok-or-err", []string{"A"}, "xdae")
	m("non-dae in subdir", "ok-or-err", []string{"A"}, "sub/notes.txt")
	m("non-dae outside absolute", "ok-or-err", []string{"A"}, "'%R/outside/p.txt'")
	m("non-dae then valid", "ok-or-err", []string{"A", "B"}, "x.conf", "b.dae")
	m("keyed include item", "ok-or-err", []string{"A"}, "k: b.dae")
	m("rule inside include", "err", nil, "f(x) -> b.dae")
	m("section inside include", "err", nil, "s { b.dae }")
	// nested relative paths are relative to the ENTRY directory (documented)
	{
		fs := base("sub/d.dae")
		fs[3].includes = []string{"b.dae"} // d.dae includes b.dae = conf/b.dae
		cases = append(cases, &incCase{label: "nested include resolves against the entry directory", files: fs, entry: "conf/a.dae", expect: "ok", order: []string{"A", "D", "B"}})
		fs = base("sub/d.dae", "c.dae")
		fs[3].includes = []string{"sub/deep/e.dae", "b.dae"}
		cases = append(cases, &incCase{label: "depth-first order over two levels", files: fs, entry: "conf/a.dae", expect: "ok", order: []string{"A", "D", "E", "B", "C"}})
		fs = base("b.dae")
		fs[1].extra = "node { 'B.3' }\n"
		cases = append(cases, &incCase{label: "same section twice in an included file", files: fs, entry: "conf/a.dae", expect: "ok", order: []string{"A", "B"}})
		fs = base("sub/d.dae")
		fs[3].includes = []string{"../outside/o.dae"}
		cases = append(cases, &incCase{label: "escape from a nested include", files: fs, entry: "conf/a.dae", expect: "ok-or-err", order: []string{"A", "D"}})
		fs = base("b.dae")
		fs[1].raw = "node { 'B.1' \n" // unparsable included file
		cases = append(cases, &incCase{label: "path unparsable included file", files: fs, entry: "conf/a.dae", expect: "err"})
	}
	// entry spellings
	cases = append(cases,
		&incCase{label: "entry relative to cwd", files: base("b.dae"), chdir: ".", entry: "conf/a.dae", expect: "ok", order: []string{"A", "B"}},
		&incCase{label: "entry in cwd", files: base("b.dae", "sub/d.dae"), chdir: "conf", entry: "a.dae", expect: "ok", order: []string{"A", "B", "D"}},
		&incCase{label: "entry unclean absolute", files: base("b.dae"), entry: "%R/conf/sub/../a.dae", expect: "ok", order: []string{"A", "B"}},
		&incCase{label: "entry relative, include absolute", files: base("'%R/conf/b.dae'"), chdir: ".", entry: "conf/a.dae", expect: "ok-or-err", order: []string{"A", "B"}},
		&incCase{label: "entry not .dae", files: base(), entry: "conf/x.conf", expect: "err"},
		&incCase{label: "entry not .dae (suffix .dae.bak)", files: base(), entry: "conf/b.dae.bak", expect: "err"},
		&incCase{label: "entry not .dae (no dot)", files: base(), entry: "conf/xdae", expect: "err"},
		&incCase{label: "entry is a directory", files: base(), entry: "conf/dir.dae", expect: "err"},
		&incCase{label: "entry missing", files: base(), entry: "conf/nosuch.dae", expect: "err"},
	)
	// permissions: documented rule = not writable by group, not accessible by others
	for _, mode := range []os.FileMode{0o600, 0o640, 0o400, 0o440, 0o700, 0o644, 0o660, 0o666, 0o604, 0o602, 0o601, 0o620, 0o610, 0o650, 0o750, 0o777} {
		exp := "ok"
		switch {
		case mode&0o020 != 0 || mode&0o007 != 0:
			exp = "err"
		case mode&0o010 != 0:
			exp = "ok-or-err" // group-executable only: the documented rule does not mention it
		}
		fs := base("b.dae")
		fs[1].mode = mode
		cases = append(cases, &incCase{label: fmt.Sprintf("mode of included file %04o", mode), files: fs, entry: "conf/a.dae", expect: exp, order: []string{"A", "B"}})
		fs = base("b.dae")
		fs[0].mode = mode
		cases = append(cases, &incCase{label: fmt.Sprintf("mode of entry file %04o", mode), files: fs, entry: "conf/a.dae", expect: exp, order: []string{"A", "B"}})
	}

	return cases, nGraphs
}

// legIncludeShard: the cases whose index falls into this shard, on a private scratch tree.
func legIncludeShard(c *shardCtx, thorough bool) {
	if os.Getenv("VERIF_WORKDIR") == "" {
		fmt.Fprintln(os.Stderr, "C17: VERIF_WORKDIR is not set")
		os.Exit(2)
	}
	root := filepath.Join(os.Getenv("VERIF_WORKDIR"), fmt.Sprintf("c17-include-tree-%d", c.shard))
	defer os.RemoveAll(root)
	defer stopMergeChild()
	cases, nGraphs := buildIncCases(root, thorough)
	c.res.Base = int64(len(cases))
	c.res.Extra["graph_cases"] = int64(nGraphs)
	c.res.Extra["spelled_graph_cases"] = int64(spelledCases)
	c.res.Extra["matrix_cases"] = int64(len(cases) - nGraphs - spelledCases)
	inotifyOK := true
	for i, cs := range cases {
		if i%c.of != c.shard || c.over() {
			continue
		}
		c.res.Evaluations++
		c.res.Distinct++
		outs := runIncCase(root, cs, &inotifyOK)
		if len(outs) == 0 {
			if cs.expect == "err" {
				c.res.Rejected++
			} else {
				c.res.Accepted++
			}
		}
		for _, o := range outs {
			det := vlib.JSON(o.detail)
			e := c.viol[o.sig]
			if e == nil {
				c.viol[o.sig] = &shardViol{Sig: o.sig, Input: cs.label, Detail: det, Count: 1}
				continue
			}
			e.Count++
			if better(cs.label, e.Input) {
				e.Input, e.Detail = cs.label, det
			}
		}
		if i == 777 {
			c.res.Samples = append(c.res.Samples, fmt.Sprintf("%s expect=%s order=%v", cs.label, cs.expect, cs.order))
		}
	}
	if !inotifyOK {
		c.res.Extra["inotify_unavailable"] = 1
	}
	if n := guardStalls.Load(); n > 0 {
		c.res.Extra["merge_guard_stalls"] = n
	}
	if n := repeatedRejected.Load(); n > 0 {
		c.res.Extra["repeated_inclusion_rejected"] = n
	}
}

func includeAssumptions(r *vlib.Run) {
	r.Assume("include leg: 'never read' is observed with inotify IN_OPEN|IN_ACCESS on every regular file of the scratch tree (kernel-level, this process only); directory listings done by glob expansion and stat calls are not counted as reading a file; containment is lexical after cleaning '.' and '..' — symbolic links are out of scope")
	r.Assume("include leg: the order of SECTIONS in Merger.Merge()'s result is map-iteration order; config.New looks sections up by name, so the check compares per section name (item order inside each section is compared exactly)")
	r.Assume("include leg: relative include paths resolve against the ENTRY file's directory also from nested files (docs/en/configuration/separate-config.md); permission rule taken from the error text/docs: not group-writable, no access for others (0640/0600 suggested); group-execute-only modes are not asserted either way")
}
