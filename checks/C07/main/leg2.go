// Leg 2 — controller flow. The real control.DnsController is driven through HandleWithResponseWriter_
// (the dnsmessage.ResponseWriter path) with a scripted upstream fake (table: upstream -> answer section).
// Sequential per environment; environments run in parallel (they share no state but the read-only fake factory).
//
// Reference (from the statement):
//
//	first := request decision for the question; reject => empty NOERROR reply, nobody is asked — cached answer or not.
//	otherwise ask `first`; decide its answer with the response rules (first match, else fallback):
//	accept => reply that answer; reject => reply an empty answer; upstream X => ask X with the same question, decide again…
//	the number of exchanges per client question never exceeds the documented depth (control.MaxDnsLookupDepth).
package main

import (
	"fmt"
	"net/netip"
	"sort"
	"strings"
	"sync/atomic"

	"github.com/daeuniverse/dae/component/dns"
	"github.com/daeuniverse/dae/control"
	"github.com/daeuniverse/dae/verifx/vlib"
	dnsmessage "github.com/miekg/dns"
	"github.com/sirupsen/logrus"
)

const asisURL = "udp://198.51.100.53:53"

var asisServer = netip.MustParseAddrPort("198.51.100.53:53")

func urlOf(tag string) string {
	if tag == "asis" {
		return asisURL
	}
	for i, t := range upTags {
		if t == tag {
			return upURLs[i]
		}
	}
	return "?" + tag
}

var answerKinds = [][]RR{
	{answerPool[0]},                // A inside 10/8
	{answerPool[1]},                // A outside
	{},                             // empty NOERROR
	{answerPool[0], answerPool[2]}, // A inside + AAAA inside 2001:db8::/32
	{answerPool[3]},                // CNAME only
}

type l2Question struct {
	Name  string
	Qtype uint16
}

var l2Questions = []l2Question{{"w.B.org.", 1}, {"w.B.org.", 28}, {"zzz.example.", 1}, {"zzz.example.", 28}}

type chainResult struct {
	chain     []string // tags asked, in order
	terminal  bool     // reached accept/reject within the bound
	final     []RR
	rejected  bool // ended by a (request or response) reject
	reqReject bool
}

func refChain(reqProg, respProg *Program, q l2Question, table map[string][]RR, bound int) chainResult {
	first, _ := refDecide(reqProg, &Input{Name: q.Name, Qtype: q.Qtype})
	if first == "reject" {
		return chainResult{terminal: true, rejected: true, reqReject: true}
	}
	cur := first
	var res chainResult
	for n := 1; ; n++ {
		res.chain = append(res.chain, cur)
		ans := table[cur]
		d, _ := refDecide(respProg, &Input{Name: q.Name, Qtype: q.Qtype, Answers: ans, From: cur})
		switch d {
		case "accept":
			res.terminal, res.final = true, ans
			return res
		case "reject":
			res.terminal, res.rejected = true, true
			return res
		}
		if n == bound {
			return res // would need one more exchange than the documented depth allows
		}
		cur = d
	}
}

func rrSet(rrs []RR) []string {
	var s []string
	for _, a := range rrs {
		if a.Kind == "CNAME" {
			s = append(s, "CNAME:"+strings.ToLower(a.Tgt))
		} else {
			s = append(s, a.Kind+":"+a.Addr.String())
		}
	}
	sort.Strings(s)
	return s
}

func msgSet(m *dnsmessage.Msg) []string {
	var s []string
	for _, rr := range m.Answer {
		switch b := rr.(type) {
		case *dnsmessage.A:
			ip, _ := netip.AddrFromSlice(b.A)
			s = append(s, "A:"+ip.Unmap().String())
		case *dnsmessage.AAAA:
			ip, _ := netip.AddrFromSlice(b.AAAA)
			s = append(s, "AAAA:"+ip.String())
		case *dnsmessage.CNAME:
			s = append(s, "CNAME:"+strings.ToLower(b.Target))
		default:
			s = append(s, "OTHER:"+rr.String())
		}
	}
	sort.Strings(s)
	return s
}

func eqStrs(a, b []string) bool {
	if len(a) != len(b) {
		return false
	}
	for i := range a {
		if a[i] != b[i] {
			return false
		}
	}
	return true
}

func traceTags(tr []string) []string {
	out := make([]string, len(tr))
	for i, u := range tr {
		out[i] = "<" + u + ">"
		if u == asisURL {
			out[i] = "asis"
		}
		for j, url := range upURLs {
			if u == url {
				out[i] = upTags[j]
			}
		}
	}
	return out
}

// checkReply: exactly one reply, a NOERROR response echoing id and question, carrying exactly `want`.
func checkReply(a control.VerifAsk, q l2Question, id uint16, want []string) string {
	if a.Err != nil {
		return "handler error: " + a.Err.Error()
	}
	if len(a.Replies) != 1 {
		return fmt.Sprintf("%d replies written", len(a.Replies))
	}
	m := a.Replies[0]
	if !m.Response {
		return "reply is not a response"
	}
	if m.Rcode != dnsmessage.RcodeSuccess {
		return fmt.Sprintf("rcode %d", m.Rcode)
	}
	if m.Id != id {
		return fmt.Sprintf("id %#x want %#x", m.Id, id)
	}
	if len(m.Question) != 1 || !strings.EqualFold(m.Question[0].Name, q.Name) || m.Question[0].Qtype != q.Qtype {
		return fmt.Sprintf("question not echoed: %v", m.Question)
	}
	if got := msgSet(m); !eqStrs(got, want) {
		return fmt.Sprintf("answer section %v want %v", got, want)
	}
	return ""
}

type flowCounters struct {
	asks, envs, evals, nontriv, exhausted, cacheHits, rejCached, rejAll *atomic.Int64
	maxEx                                                               atomic.Int64
	chainHist                                                           [8]atomic.Int64
}

func newFlowCounters(r *vlib.Run) *flowCounters {
	return &flowCounters{
		asks: r.Counter("leg2_asks"), envs: r.Counter("leg2_envs"), evals: r.Counter("evaluations"),
		nontriv: r.Counter("leg2_questions_with_reask_or_reject"), exhausted: r.Counter("leg2_chains_longer_than_depth"),
		cacheHits: r.Counter("leg2_cache_hits_observed"), rejCached: r.Counter("leg2_rejects_while_cached_answer_existed"),
		rejAll: r.Counter("leg2_request_rejects"),
	}
}

// flowCase is one environment: a response program, a request route, the reload target and an answer table.
type flowCase struct {
	Request  *Program
	Reload   *Program // request side after the reload (rejects some of the questions)
	Response *Program
	Table    map[string][]RR
	Seq      int // only feeds the DNS message ids
}

func (fc *flowCase) texts() (string, string) {
	return confText(2, fc.Request.Block(), fc.Response.Block()), confText(2, fc.Reload.Block(), fc.Response.Block())
}

// run drives one fresh controller through: cold questions, the same questions again, reload, questions again.
func (fc *flowCase) run(r *vlib.Run, d, dRej *dns.Dns, bound int, fcnt *flowCounters) {
	text, textRej := fc.texts()
	table := fc.Table
	vt := map[string][]control.VerifRR{}
	for tag, rrs := range table {
		var v []control.VerifRR
		for _, a := range rrs {
			v = append(v, control.VerifRR{Kind: a.Kind, Addr: a.Addr, Tgt: a.Tgt})
		}
		vt[urlOf(tag)] = v
	}
	nviol := 0
	report := func(phase string, q l2Question, what string, a control.VerifAsk, c chainResult) {
		nviol++
		class := "flow/" + phase + "/" + strings.SplitN(what, ":", 2)[0]
		if len(class) > 60 {
			class = class[:60]
		}
		if !caps.ok(class, 3) {
			return
		}
		r.Violation(fmt.Sprintf("leg=flow phase=%s response=[%s] request=[%s] table={ub:%v ua:%v asis:%v} question=%s/%d: %s (asked=%v, reference chain=%v terminal=%v)",
			phase, fc.Response.Text(), fc.Request.Text(), rrSet(table["ub"]), rrSet(table["ua"]), rrSet(table["asis"]), q.Name, q.Qtype, what, traceTags(a.Trace), c.chain, c.terminal),
			map[string]any{"config": text, "config_after_reload": textRej, "documented_depth": bound, "replay": map[string]any{"kind": "flow", "case": fc}})
	}
	var e *control.VerifDnsEnv
	var err error
	if pk, msg := vlib.Try(func() { e, err = control.VerifNewDnsEnv(d, asisServer) }); pk || err != nil {
		r.Violation(fmt.Sprintf("leg=flow cannot build controller: %v %s", err, msg), text)
		return
	}
	fcnt.envs.Add(1)
	e.SetTable(vt)
	defer e.Close()
	// ---- phase A: cold questions; phase A2: the same questions again (may be served from the cache) ----
	for pass := 0; pass < 2; pass++ {
		phase := []string{"cold", "again"}[pass]
		for qi, q := range l2Questions {
			c := refChain(fc.Request, fc.Response, q, table, bound)
			id := uint16(0x1000 + (fc.Seq%200)*16 + qi*2 + pass)
			var a control.VerifAsk
			if pk, msg := vlib.Try(func() { a = e.Ask(q.Name, q.Qtype, id) }); pk {
				report(phase, q, "panic at "+vlib.PanicSite(msg), a, c)
				continue
			}
			fcnt.asks.Add(1)
			fcnt.evals.Add(1)
			if pass == 0 {
				if len(c.chain) >= 2 || c.rejected {
					fcnt.nontriv.Add(1)
				}
				fcnt.chainHist[len(c.chain)].Add(1)
				if !c.terminal {
					fcnt.exhausted.Add(1)
				}
			}
			for {
				m := fcnt.maxEx.Load()
				if int64(len(a.Trace)) <= m || fcnt.maxEx.CompareAndSwap(m, int64(len(a.Trace))) {
					break
				}
			}
			if nviol >= 2 {
				continue
			}
			tr := traceTags(a.Trace)
			if len(tr) > bound {
				report(phase, q, fmt.Sprintf("exchanges exceed documented depth: %d > %d", len(tr), bound), a, c)
				continue
			}
			if c.terminal {
				if pass == 1 && len(tr) == 0 && len(c.chain) > 0 {
					fcnt.cacheHits.Add(1) // answered without asking anybody: from the cache; the reply must still be the prescribed one
				} else if !eqStrs(tr, c.chain) {
					report(phase, q, "asked upstreams differ from the rule-prescribed sequence", a, c)
					continue
				}
				if why := checkReply(a, q, id, rrSet(c.final)); why != "" {
					report(phase, q, "reply: "+why, a, c)
				}
			} else {
				// the rules bounce beyond the documented depth: the handler must stop (it returned, we are here)
				// and must have followed the rules as far as it went
				if !eqStrs(tr, c.chain[:len(tr)]) {
					report(phase, q, "asked upstreams differ from the rule-prescribed sequence (bouncing set)", a, c)
				}
			}
		}
	}
	// ---- phase B: reload to a configuration that rejects some of the questions whose answers are cached ----
	if err := e.Reload(dRej); err != nil {
		r.Violation("leg=flow reload failed: "+err.Error(), textRej)
		return
	}
	for qi, q := range l2Questions {
		c := refChain(fc.Reload, fc.Response, q, table, bound)
		id := uint16(0x5000 + (fc.Seq%200)*16 + qi)
		hadCached := false
		for _, n := range e.CachedAnswers(q.Name, q.Qtype) {
			if n > 0 {
				hadCached = true
			}
		}
		var a control.VerifAsk
		if pk, msg := vlib.Try(func() { a = e.Ask(q.Name, q.Qtype, id) }); pk {
			report("reload", q, "panic at "+vlib.PanicSite(msg), a, c)
			continue
		}
		fcnt.asks.Add(1)
		fcnt.evals.Add(1)
		if nviol >= 2 {
			continue
		}
		tr := traceTags(a.Trace)
		if c.reqReject {
			fcnt.rejAll.Add(1)
			if hadCached {
				fcnt.rejCached.Add(1)
			}
			if len(tr) != 0 {
				report("reload", q, "a rejected question was sent upstream", a, c)
				continue
			}
			if why := checkReply(a, q, id, nil); why != "" {
				tag := "reject reply: "
				if hadCached {
					tag = "reject reply while a cached answer existed: "
				}
				report("reload", q, tag+why, a, c)
			}
			continue
		}
		if len(tr) > bound {
			report("reload", q, fmt.Sprintf("exchanges exceed documented depth: %d > %d", len(tr), bound), a, c)
			continue
		}
		if c.terminal {
			if len(tr) == 0 && len(c.chain) > 0 {
				fcnt.cacheHits.Add(1)
			} else if !eqStrs(tr, c.chain) {
				report("reload", q, "asked upstreams differ from the rule-prescribed sequence", a, c)
				continue
			}
			if why := checkReply(a, q, id, rrSet(c.final)); why != "" {
				report("reload", q, "reply: "+why, a, c)
			}
		} else if !eqStrs(tr, c.chain[:len(tr)]) {
			report("reload", q, "asked upstreams differ from the rule-prescribed sequence (bouncing set)", a, c)
		}
	}
}

// build both routings of a flow case through the production path.
func (fc *flowCase) build(r *vlib.Run, log *logrus.Logger) (d, dRej *dns.Dns, ok bool) {
	text, textRej := fc.texts()
	var err error
	if pk, msg := vlib.Try(func() {
		d, _, err = buildDns(text, log)
		if err == nil {
			dRej, _, err = buildDns(textRej, log)
		}
	}); pk || err != nil {
		if caps.ok("leg2/build", 3) {
			r.Violation(fmt.Sprintf("leg=flow build response=[%s] request=[%s] err=%v", fc.Response.Text(), fc.Request.Text(), err), map[string]any{"config": text, "panic": msg})
		}
		return nil, nil, false
	}
	return d, dRej, true
}

var (
	l2qtAAAA = plain("qtype", false, "aaaa")
	l2sfx    = qn(false, "suffix", "b.org")
)

// reloadTarget: same fallback, but AAAA questions and *.b.org are now rejected.
func reloadTarget(req *Program) *Program {
	return &Program{Fallback: req.Fallback, Rules: []Rule{{Conds: []Cond{l2qtAAAA}, Out: "reject"}, {Conds: []Cond{l2sfx}, Out: "reject"}}}
}

func runLeg2(r *vlib.Run) {
	thorough := r.Thorough()
	bound := control.MaxDnsLookupDepth
	r.Set("leg2_documented_depth", bound)

	upB := plain("upstream", false, "ub")
	upA := plain("upstream", false, "ua")
	ipIn := plain("ip", false, "10.0.0.0/8")
	qtA := plain("qtype", false, "a")
	qtAAAA, sfx := l2qtAAAA, l2sfx
	conds := [][]Cond{{upB}, {upA}, {neg(upB)}, {ipIn}, {neg(ipIn)}, {qtA}, {sfx}, {ipIn, upB}, {ipIn, neg(sfx)}, {upA, qtAAAA}}
	outs := []string{"accept", "reject", "ub", "ua"}

	// inputs only serve the bit-mask machinery of the generic enumerator; leg 2 uses refDecide directly
	dummy := []Input{{Name: "x.", Qtype: 1, From: "ub"}}
	sp := &space{name: "leg2", nUp: 2, inputs: dummy, fallbacks: outs, maxRules: 2, rules: mkRules(conds, outs, dummy)}
	spaces := []*space{sp}
	if thorough {
		spaces = append(spaces, &space{name: "leg2_3rules", nUp: 2, inputs: dummy, fallbacks: outs, minRules: 3, maxRules: 3,
			rules: mkRules(conds[:4], outs, dummy)})
	}
	type tbl struct{ ub, ua, as int }
	mkTables := func(nk int, asisKinds []int) []tbl {
		var ts []tbl
		for i := 0; i < nk; i++ {
			for j := 0; j < nk; j++ {
				for _, k := range asisKinds {
					ts = append(ts, tbl{i, j, k})
				}
			}
		}
		return ts
	}
	tables3 := mkTables(3, []int{0})
	tablesFull := tables3
	if thorough {
		tablesFull = mkTables(5, []int{0})
	}
	reqRoutes := []*Program{
		{Fallback: "ub"},
		{Fallback: "ua"},
		{Fallback: "asis"},
		{Rules: []Rule{{Conds: []Cond{qtAAAA}, Out: "ua"}}, Fallback: "ub"},
	}
	if !thorough {
		reqRoutes = []*Program{reqRoutes[0], reqRoutes[2], reqRoutes[3]} // quick: "fallback: ua" is the mirror image of "fallback: ub"
	}
	r.Set("leg2_answer_tables", len(tablesFull))
	r.Set("leg2_request_routes", len(reqRoutes))

	fcnt := newFlowCounters(r)
	log := quietLogger()

	for si, s := range spaces {
		tables := tablesFull
		if si > 0 {
			tables = tables3
		}
		n := s.count()
		r.Add("programs_"+s.name, int64(n))
		r.ParallelFor(n*len(reqRoutes), func(w int) {
			if overBudget() {
				r.CapHit("time budget share reached inside " + s.name)
				return
			}
			i, ri := w/len(reqRoutes), w%len(reqRoutes)
			fb, rs := s.decode(i)
			base := flowCase{Request: reqRoutes[ri], Reload: reloadTarget(reqRoutes[ri]), Response: progOf(fb, rs)}
			d, dRej, ok := base.build(r, log)
			if !ok {
				return
			}
			for ti, tb := range tables {
				fc := base
				fc.Seq = ti
				fc.Table = map[string][]RR{"ub": answerKinds[tb.ub], "ua": answerKinds[tb.ua], "asis": answerKinds[tb.as]}
				fc.run(r, d, dRej, bound, fcnt)
			}
			if w%9973 == 3 && len(rs) > 0 {
				q := l2Questions[w%len(l2Questions)]
				tb := tables[w%len(tables)]
				table := map[string][]RR{"ub": answerKinds[tb.ub], "ua": answerKinds[tb.ua], "asis": answerKinds[tb.as]}
				c := refChain(base.Request, base.Response, q, table, bound)
				r.Sample(map[string]any{"leg": "flow", "response": base.Response.Text(), "request": base.Request.Text(), "question": fmt.Sprintf("%s/%d", q.Name, q.Qtype),
					"table":           map[string][]string{"ub": rrSet(table["ub"]), "ua": rrSet(table["ua"]), "asis": rrSet(table["asis"])},
					"reference_chain": c.chain, "terminal_within_depth": c.terminal, "final_answer": rrSet(c.final), "rejected": c.rejected})
			}
		})
	}
	r.Set("leg2_max_exchanges_observed", fcnt.maxEx.Load())
	hist := map[string]int64{}
	for i := range fcnt.chainHist {
		if v := fcnt.chainHist[i].Load(); v > 0 {
			hist[fmt.Sprintf("chain_len_%d", i)] = v
		}
	}
	r.Set("leg2_reference_chain_length_hist", hist)
	leg2Assumes(r)
}

func leg2Assumes(r *vlib.Run) {
	r.Assume("Leg 2 runs each environment sequentially on the real controller without the scheduler: singleflight executes the resolution in the caller's goroutine, ip_version_prefer is 0 (no preference wait), answers carry TTL 300 so nothing expires and no background refresh starts; janitor/evictor goroutines exist but never act within a run; concurrent client questions (coalescing) are C09's subject, not covered here")
	r.Assume("Leg 2 replaces only control.dnsForwarderFactory (scripted table, no network) and supplies the DnsControllerOption callbacks in the production shape minus bpf side effects (CacheAccessCallback/CacheDeleteCallback are no-ops, DomainBitmap nil)")
	r.Assume("when the response rules bounce beyond MaxDnsLookupDepth the client gets no reply (the handler returns an error); the check demands termination, exchanges <= depth and rule-conformant asking order, not a particular reply")
	r.Assume("'a cached answer exists' is produced the production way: the same question is first resolved under an accepting route (cache insert by NormalizeAndCacheDnsResp_), then the configuration is reloaded through DnsController.ReuseForReload (shared cache store) onto request rules that reject it")
}

// replayFlow re-runs one recorded flow case.
func replayFlow(r *vlib.Run, fc *flowCase) {
	d, dRej, ok := fc.build(r, quietLogger())
	if !ok {
		return
	}
	fc.run(r, d, dRej, control.MaxDnsLookupDepth, newFlowCounters(r))
}
