// HTTP/1 request-head generator and the independent reference (RFC 9112 §2–§5: request-line, field lines,
// no whitespace before the colon, obs-fold lines are continuations; RFC 9110 §7.2: Host = uri-host [":" port]).
package main

import (
	"strings"
)

// refHTTPStream: what Host does the byte stream carry.
//
//	required: a complete head (terminated by an empty line) whose request-line is well-formed (one of the nine RFC 9110
//	          core methods), with exactly one Host field line, non-empty, of the form uri-host[:port]
//	carried:  the uri-host of every CRLF-terminated Host field line of the header section (also the RFC-invalid
//	          spelling "Host :"), whether or not the head is complete. Lines that start with SP / HTAB are never
//	          field lines (obs-fold continuation, RFC 9112 §5.2), nor is anything after the empty line.
func refHTTPStream(s []byte) verdict {
	var v verdict
	str := string(s)
	i := strings.Index(str, "\r\n")
	if i < 0 {
		return v
	}
	reqLine := str[:i]
	rest := str[i+2:]
	parts := strings.Split(reqLine, " ")
	lineOK := len(parts) == 3 && isToken(parts[0]) && parts[1] != "" && (parts[2] == "HTTP/1.1" || parts[2] == "HTTP/1.0")
	if len(parts) < 1 || !isToken(parts[0]) {
		return v // not HTTP at all
	}
	complete := false
	strictHosts := []string{}
	strictOK := lineOK
	for {
		j := strings.Index(rest, "\r\n")
		if j < 0 {
			break // unterminated last line: not a field line yet
		}
		line := rest[:j]
		rest = rest[j+2:]
		if line == "" {
			complete = true
			break
		}
		if line[0] == ' ' || line[0] == '\t' {
			continue // obs-fold: continuation of the previous field value
		}
		k := strings.IndexByte(line, ':')
		if k < 0 {
			strictOK = false
			continue
		}
		name, val := line[:k], strings.Trim(line[k+1:], " \t")
		if !isToken(name) {
			strictOK = false
			if strings.EqualFold(strings.TrimRight(name, " \t"), "host") {
				if val != "" {
					v.carried = append(v.carried, looseHosts(val)...)
				}
			}
			continue
		}
		if !strings.EqualFold(name, "host") {
			continue
		}
		if val != "" {
			v.carried = append(v.carried, looseHosts(val)...)
		}
		if h, ok := uriHost(val); ok {
			strictHosts = append(strictHosts, h)
		} else {
			strictOK = false
		}
	}
	if complete && strictOK && len(strictHosts) == 1 && coreMethods[parts[0]] {
		v.required, v.name = true, normName(strictHosts[0])
	}
	return v
}

func isToken(s string) bool {
	if s == "" {
		return false
	}
	for i := 0; i < len(s); i++ {
		c := s[i]
		if c >= 'a' && c <= 'z' || c >= 'A' && c <= 'Z' || c >= '0' && c <= '9' || strings.IndexByte("!#$%&'*+-.^_`|~", c) >= 0 {
			continue
		}
		return false
	}
	return true
}

// uriHost: Host = uri-host [ ":" port ]; returns the host without brackets / port.
func uriHost(v string) (string, bool) {
	if v == "" {
		return "", false
	}
	if v[0] == '[' {
		e := strings.IndexByte(v, ']')
		if e < 2 {
			return "", false
		}
		rest := v[e+1:]
		if rest != "" && (rest[0] != ':' || !allDigits(rest[1:])) {
			return "", false
		}
		return v[1:e], true
	}
	if k := strings.LastIndexByte(v, ':'); k >= 0 {
		if !allDigits(v[k+1:]) || k == 0 {
			return "", false
		}
		v = v[:k]
	}
	if strings.ContainsAny(v, " \t:[]/@") {
		return "", false
	}
	return v, true
}

// looseHosts: what tolerant readers may take as the host of a Host value whatever bytes it holds: the value as it
// stands, the inside of a leading bracket pair, the part before the last colon.
func looseHosts(v string) []string {
	out := []string{v}
	if v[0] == '[' {
		if e := strings.IndexByte(v, ']'); e >= 1 {
			out = append(out, v[1:e])
		}
	}
	if k := strings.LastIndexByte(v, ':'); k > 0 {
		out = append(out, v[:k])
	}
	return out
}

func allDigits(s string) bool {
	for i := 0; i < len(s); i++ {
		if s[i] < '0' || s[i] > '9' {
			return false
		}
	}
	return true
}

type httpCase struct {
	desc string
	data []byte
}

// genHTTPHeads: {methods} x {Host position, field-name case, spacing, missing, empty, duplicate, decoys} x host forms.
func genHTTPHeads() []httpCase {
	methods := []string{"GET", "POST", "HEAD", "PUT", "DELETE", "OPTIONS", "PATCH", "CONNECT", "TRACE", "PROPFIND", "get", "BREW"}
	hosts := []string{"example.com", "ExAmple.COM", "example.com:8080", "example.com.", "[2001:db8::1]:443", "[::1]", "10.0.0.1:80"}
	type hostLine struct{ desc, line string }
	var out []httpCase
	others := []string{"User-Agent: curl/8", "Accept: */*", "X-Host: decoy.invalid"}
	for _, m := range methods {
		target := "/index.html?a=b"
		if m == "CONNECT" {
			target = "example.com:443"
		}
		for _, h := range hosts {
			lines := []hostLine{
				{"Host", "Host: " + h}, {"host", "host: " + h}, {"HOST", "HOST: " + h}, {"hOsT", "hOsT: " + h},
				{"nospace", "Host:" + h}, {"twospace", "Host:  " + h + "  "}, {"tab", "Host:\t" + h + "\t"},
				{"space-before-colon", "Host : " + h},
			}
			for _, hl := range lines {
				for pos := 0; pos <= len(others); pos++ {
					var ls []string
					ls = append(ls, others[:pos]...)
					ls = append(ls, hl.line)
					ls = append(ls, others[pos:]...)
					out = append(out, httpCase{m + " " + hl.desc + " pos=" + itoa(pos) + " host=" + h,
						[]byte(m + " " + target + " HTTP/1.1\r\n" + strings.Join(ls, "\r\n") + "\r\n\r\n")})
				}
			}
		}
		h := "example.com"
		add := func(desc string, lines ...string) {
			out = append(out, httpCase{m + " " + desc, []byte(m + " " + target + " HTTP/1.1\r\n" + strings.Join(lines, "\r\n") + "\r\n\r\n")})
		}
		add("missing", others...)
		add("empty", "Host:", others[0])
		add("empty-sp", "Host: ", others[0])
		add("duplicate-diff", "Host: "+h, "Host: other.example.org")
		add("duplicate-same", "Host: "+h, "Host: "+h)
		add("decoy-suffix-name", "X-Forwarded-Host: decoy.invalid", "Host: "+h)
		add("decoy-prefix-name", "Hostx: decoy.invalid", "Host: "+h)
		add("decoy-in-value", "X-A: Host: decoy.invalid", "Host: "+h)
		add("obs-fold-decoy", "X-A: b", " Host: decoy.invalid", "Host: "+h)
		add("obs-fold-decoy-tab", "X-A: b", "\tHost: decoy.invalid", "Host: "+h)
		add("leading-ws-first-line", " Host: decoy.invalid", "Host: "+h)
		add("obs-fold-only", "X-A: b", " Host: decoy.invalid")
		add("no-colon-line", "garbage line", "Host: "+h)
		out = append(out, httpCase{m + " host-in-body", []byte(m + " " + target + " HTTP/1.1\r\nContent-Length: 20\r\n\r\nHost: decoy.invalid\r\n")})
		out = append(out, httpCase{m + " body-after-head", []byte(m + " " + target + " HTTP/1.1\r\nHost: " + h + "\r\nContent-Length: 20\r\n\r\nHost: decoy.invalid\r\n")})
		out = append(out, httpCase{m + " http1.0", []byte(m + " " + target + " HTTP/1.0\r\nHost: " + h + "\r\n\r\n")})
		out = append(out, httpCase{m + " bare-lf", []byte(m + " " + target + " HTTP/1.1\nHost: " + h + "\n\n")})
		out = append(out, httpCase{m + " absolute-form", []byte(m + " http://" + h + "/x HTTP/1.1\r\nHost: " + h + "\r\n\r\n")})
	}
	return out
}

// methods for which recognition is demanded (RFC 9110 §9.3 registry of core methods).
var coreMethods = map[string]bool{"GET": true, "POST": true, "HEAD": true, "PUT": true, "DELETE": true, "OPTIONS": true, "PATCH": true, "CONNECT": true, "TRACE": true}

func httpMethodOf(s []byte) string {
	if i := strings.IndexByte(string(s), ' '); i > 0 {
		return string(s[:i])
	}
	return ""
}
