package main

import "errors"

func rewriteFile(src, dst string, rewrite bool, consts map[string]string) error {
	return errors.New("engine S rewriter not built yet")
}
