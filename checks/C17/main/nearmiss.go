package main

import "strings"

// ---- leg 2: near misses of valid configurations ----
// Every seed is a valid text (asserted: the reference reader and the production parser must both accept it).
// Mutations, each applied at every position: delete one token, duplicate one token, swap two adjacent tokens;
//   (A) on the parser-visible tokens, re-spelled with single spaces;
//   (B) on ALL tokens including white space and comments, re-spelled by plain concatenation
//       (so deleting a separator fuses its neighbours, duplicating a quote-less '#' swallows a line, ...).

var nearMissSeeds = []string{
	"global{}",
	"global { tproxy_port: 12345 log_level: info }",
	"global{ lan_interface: docker0, eth0\n wan_interface: auto }",
	"global { tcp_check_url: 'http://cp.cloudflare.com', '1.1.1.1', \"2606:4700:4700::1111\" }",
	"subscription { 'https://example.test/sub?a=1&b=2' my_sub: 'file://relative/path' }",
	"node { n1: 'socks5://127.0.0.1:1080' 'ss://YWVzLTEyOC1nY206cGFzcw@1.2.3.4:8388#name' }",
	"group { g1 { policy: min } }",
	"group { g1 { filter: name(n1, n2) policy: fixed(0) } g2 { policy: random } }",
	"group { g { filter: name(keyword: 'HK') && !name(keyword: 'x2') [add_latency: 500ms] policy: min_moving_avg } }",
	"group { g { filter: subtag(regex: '^my_', another_sub) && !name(regex: \"ExpireAt:\") policy: min } }",
	"group { g { filter: name(a) [add_latency: -1s, k2: v2] filter: name(b) policy: min } }",
	"routing { fallback: direct }",
	"routing { pname(NetworkManager) -> direct\n dip(224.0.0.0/3, 'ff00::/8') -> direct\n fallback: g1 }",
	"routing { dip(1.1.1.1) -> proxy }",
	"routing { dip(1.1.1.1) -> proxy(mark: 0x800) }",
	"routing { dip(1.1.1.1) && dport(53) && l4proto(udp) -> must_direct }",
	"routing { !dip(geoip:private) && !domain(geosite:cn) -> g1 }",
	"routing { domain(suffix: example.com, full: 'a.example.org', keyword: goog, regex: '^ad[sx]?\\.') -> block }",
	"routing { domain(ext: \"geosite.dat:cn\") -> direct\n ip(ext: 'geoip.dat:cn') -> direct }",
	"routing { sip(192.168.0.0/24) && sport(1000-2000) && ipversion(4) -> g1(mark: 1)\n fallback: g2 }",
	"routing { mac('02:42:ac:11:00:02') -> direct\n dscp(0x4) -> direct\n fallback: must_rules }",
	"routing { l4proto(tcp) && !pname(curl, wget) -> !weird(x) }",
	"dns { upstream { alidns: 'udp://dns.alidns.com:53' googledns: 'tcp+udp://dns.google:53' } }",
	"dns { ipversion_prefer: 4 fixed_domain_ttl { ddns.example.org: 10 test.example.org: 3600 } }",
	"dns { routing { request { qname(geosite:cn) -> alidns\n qtype(aaaa) -> reject\n fallback: asis } } }",
	"dns { routing { response { upstream(googledns) -> accept\n !qname(geosite:cn) && ip(geoip:private) -> googledns\n fallback: accept } } }",
	"dns { bind: 'udp://127.0.0.1:5353' optimistic_cache: false }",
	"include { a.dae sub/*.dae '/etc/dae/x.dae' }",
	"a{b{c{d:e}}}",
	"a{b{} c{} d}",
	"a { b c 'd' \"e\" 1 2.3 -4 */5 }",
	"a{k:v}b{k:v}",
	"a{k:v1,v2,'v3'[x:y]}",
	"a{k:f(x)[y]}",
	"a{k:f(x)&&g(y)&&h(z)}",
	"a{k:!f(k1:v1,k2:'v2',v3)}",
	"a{f(x)->o f(y)->p(q) k:v w}",
	"# leading comment\nglobal { # trailing\n  log_level: info # c\n}\n",
	"/* block */ global /* c */ { /* c */ log_level /* c */ : /* c */ info /* c */ }",
	"a {\r\n  k: v\r\n  f(x) -> o\r\n}\r\n",
	"a{'x y' z:1}",
	"a{k:'it''s'}",
	"a{k:\"q\\\"q\"}",
	"a{k:'q\\'q'}",
	"a{k:'multi\nline'}",
	"a{k:''}",
	"a{k:\"\"}",
	"a{k:a!b#c$d%e=f@g}",
	"a{k:\\d+^x*}",
	"a_1{_k:_v}",
	"global{} routing{ fallback: direct } group{ g{ policy: min } } node{ 'x' } dns{ upstream{ u: 'udp://1.1.1.1:53' } }",
}

func spellVisible(toks []token) string {
	parts := make([]string, len(toks))
	for i, t := range toks {
		parts[i] = t.text
	}
	return strings.Join(parts, " ")
}
func spellAll(toks []token) string {
	var b strings.Builder
	for _, t := range toks {
		b.WriteString(t.text)
	}
	return b.String()
}

func mutateTokens(toks []token, emit func([]token)) {
	n := len(toks)
	for i := 0; i < n; i++ {
		del := append(append([]token{}, toks[:i]...), toks[i+1:]...)
		emit(del)
		dup := append(append(append([]token{}, toks[:i+1]...), toks[i]), toks[i+1:]...)
		emit(dup)
		if i+1 < n {
			sw := append([]token{}, toks...)
			sw[i], sw[i+1] = sw[i+1], sw[i]
			emit(sw)
		}
	}
}

func legNearMiss(c *shardCtx, thorough bool) {
	seeds := nearMissSeeds
	c.res.Base = int64(len(seeds))
	for _, seed := range seeds {
		vis, all, err := refLex(seed)
		if err != nil {
			c.harn["harness: seed does not lex: "+seed] = &shardViol{Sig: "harness: seed does not lex: " + seed, Input: seed, Count: 1}
			continue
		}
		if _, err := refParse(seed); err != nil {
			c.harn["harness: seed is not valid: "+seed] = &shardViol{Sig: "harness: seed is not valid: " + seed, Input: seed, Detail: err.Error(), Count: 1}
			continue
		}
		c.eval(seed, "")
		c.eval(spellVisible(vis), "")
		// every mutant is tried twice: alone, and after a valid leading section (the production parser decides
		// the first section with unbounded look-ahead and later ones with error recovery — different code paths)
		mutateTokens(vis, func(m []token) { c.eval(spellVisible(m), ""); c.eval("x{}\n"+spellVisible(m), "") })
		mutateTokens(all, func(m []token) { c.eval(spellAll(m), ""); c.eval("x{}\n"+spellAll(m), "") })
		if thorough {
			// second order on the visible tokens: every pair of single mutations (delete/duplicate/swap) applied in sequence
			mutateTokens(vis, func(m []token) {
				m2 := append([]token{}, m...)
				mutateTokens(m2, func(mm []token) { c.eval("x{}\n"+spellVisible(mm), "") })
			})
		}
	}
}
