package main

// Explicit-state BFS over event sequences on the real C program (kdrv), level-synchronous, de-duplicated on
// (canonical kernel state, model state). A state is rebuilt by replaying its event path from the boot snapshot; all
// successors of a state are produced from one kdrv snapshot of it.

import (
	"bytes"
	"crypto/sha256"
	"encoding/binary"
	"encoding/hex"
	"fmt"
	"net/netip"
	"sort"
	"strings"
	"sync"
	"sync/atomic"

	"github.com/daeuniverse/dae/common/consts"
	"github.com/daeuniverse/dae/control"
	"github.com/daeuniverse/dae/verifx/vkern"
)

const (
	evFrame = iota
	evTick
	evSwap
	evDomain
	evFlip
	evFull
)

const (
	hookRouted = iota // LAN ingress (LAN scenario) / WAN egress (WAN scenario)
	hookWanIn
	hookLanOut
)

type event struct {
	name        string
	kind        int
	hook        int
	conv        int
	flags       uint8
	flavour     int
	truncate    int
	dt          uint64
	udp         bool
	otherFamily bool
	hiGroup     bool // evFlip: the high-id proxy group instead of g1
	burst       bool // evFrame: the frame is sent twice back to back before dae reads either record
}

// malformed: no flow can be identified from the frame (a fragment that does not start a datagram, a truncated frame).
// The family does not matter for the classification: the same flavours are initial / non-initial for IPv4 and IPv6.
func (ev *event) malformed() bool {
	if ev.truncate > 0 {
		return true
	}
	if isFragFlavour(ev.flavour) {
		_, initial := fragField(ev.flavour, true)
		return !initial
	}
	return false
}

type scenario struct {
	name         string
	side         int
	v6           bool
	ext          bool
	l2           bool
	redirectPeer bool
	short        bool // frames without payload (< 128 bytes): the direct-access parser only runs with a lenient pull
	progA, progB int
	hiGroup      uint8 // id of the high-numbered proxy group the rule programs use (0: none)
	depth        int
	progs        []*ruleProgram
	addrs        addrSet
	convs        []conv
	events       []event
	decCache     map[[3]int]decision
}

func ap(a netip.Addr, p uint16) netip.AddrPort { return netip.AddrPortFrom(a, p) }

// buildScenario lays out conversations and the event alphabet (simplest first).
func buildScenario(progs []*ruleProgram, sp scenSpec) *scenario {
	side, v6, ext, l2, peer, short, a, b, depth, rich := sp.side, sp.v6, sp.ext, sp.l2, sp.peer, sp.short, sp.a, sp.b, sp.depth, sp.rich
	sc := &scenario{side: side, v6: v6, ext: ext, l2: l2, redirectPeer: peer, short: short, progA: progIndex(progs, a), progB: progIndex(progs, b), depth: depth,
		progs: progs, addrs: addrsFor(v6), decCache: map[[3]int]decision{}}
	fam := "v4"
	if v6 {
		fam = "v6"
		if ext {
			fam = "v6ext"
		}
	}
	link := "l2"
	if !l2 {
		link = "l3"
	}
	sd := "lan"
	if side == sideWAN {
		sd = "wan"
	}
	sc.name = fmt.Sprintf("%s/%s/%s/%s>%s", sd, fam, link, a, b)
	if peer {
		sc.name += "/peer"
	}
	if short {
		sc.name += "/short"
	}
	if sp.long {
		sc.name += "/long"
	}
	ad := sc.addrs
	src := ad.client
	var cookie uint64
	if side == sideWAN {
		src = ad.host
		cookie = cookieApp
	}
	addConv := func(c conv) int { sc.convs = append(sc.convs, c); return len(sc.convs) - 1 }
	T := addConv(conv{name: "T", kind: cvNormal, src: ap(src, 40000), dst: ap(ad.remote, 443), proto: ipTCP, cookie: cookie})
	U := addConv(conv{name: "U", kind: cvNormal, src: ap(src, 40001), dst: ap(ad.remote, 4000), proto: ipUDP, cookie: cookie})
	D := addConv(conv{name: "D", kind: cvDNS, src: ap(src, 40002), dst: ap(ad.remote, 53), proto: ipUDP, cookie: cookie})
	R := addConv(conv{name: "R", kind: cvReply, src: ap(src, 8080), dst: ap(ad.wanPeer, 50000), proto: ipTCP, cookie: cookie})
	// a TCP session to the DNS port (DNS over TCP: retry after a truncated answer, zone transfer, tcp:// resolver): a
	// tracked connection like T, with the port-53 treatment of D
	TD := addConv(conv{name: "TD", kind: cvNormal, src: ap(src, 40004), dst: ap(ad.remote, 53), proto: ipTCP, cookie: cookie})
	RU, L, SP, SPu, SM, SMu, FW := -1, -1, -1, -1, -1, -1, -1
	if rich {
		RU = addConv(conv{name: "RU", kind: cvReply, src: ap(src, 8081), dst: ap(ad.wanPeer, 50001), proto: ipUDP, cookie: cookie})
	}
	if side == sideLAN {
		if rich {
			L = addConv(conv{name: "L", kind: cvLocal, src: ap(src, 40003), dst: ap(ad.gw, localSvcPort), proto: ipUDP})
		}
	} else {
		SP = addConv(conv{name: "Spid", kind: cvSelfPid, src: ap(src, 41000), dst: ap(ad.remote, 443), proto: ipTCP, cookie: cookieDae})
		SMu = addConv(conv{name: "SmarkU", kind: cvSelfMark, src: ap(src, 41003), dst: ap(ad.remote, 4000), proto: ipUDP, skbMark: daeMark})
		if rich {
			SPu = addConv(conv{name: "SpidU", kind: cvSelfPid, src: ap(src, 41001), dst: ap(ad.remote, 4000), proto: ipUDP, cookie: cookieDae})
			SM = addConv(conv{name: "Smark", kind: cvSelfMark, src: ap(src, 41002), dst: ap(ad.remote, 443), proto: ipTCP, skbMark: daeMark})
			FW = addConv(conv{name: "FW", kind: cvForwarded, src: ap(ad.client, 40000), dst: ap(ad.remote, 443), proto: ipTCP})
		}
	}
	flav := ipPlain
	if ext {
		flav = ipExt
	}
	hk := "LI"
	if side == sideWAN {
		hk = "WE"
	}
	fr := func(hook int, ci int, kname string, flags uint8) {
		hn := hk
		if hook == hookWanIn {
			hn = "WI"
		} else if hook == hookLanOut {
			hn = "LE"
		}
		dir := ""
		if hook != hookRouted {
			dir = "~" // reverse direction of the conversation
		}
		sc.events = append(sc.events, event{name: hn + "." + sc.convs[ci].name + dir + "." + kname, kind: evFrame, hook: hook, conv: ci, flags: flags, flavour: flav})
	}
	if sp.long {
		// The long-lived-flows leg: few symbols, deep. Flows that stay ACTIVE across more than one idle timeout (every
		// gap between two packets of a flow is at most the timeout) must stay tracked: frames of a UDP flow in both
		// directions (the reverse one first makes it WAN-originated), of a TCP connection up to its FIN, of a WAN-opened
		// TCP connection and its replies; the clock steps that separate "refreshed by the last packet" from "as old as
		// the first packet" for the idle timeout (+2 s, +120 s) and for the timeout after FIN/RST (+2 s, +10 s); and the
		// rule swap that makes a re-routed flow visible.
		fr(hookRouted, U, "DGRAM", 0)
		fr(hookRouted, T, "SYN", fSYN)
		fr(hookRouted, T, "ACK", fACK|fPSH)
		sc.events = append(sc.events,
			event{name: "swap-rules", kind: evSwap},
			event{name: "tick+2s", kind: evTick, dt: 2 * sec},
			event{name: "tick+10s", kind: evTick, dt: 10 * sec},
			event{name: "tick+120s", kind: evTick, dt: 120 * sec},
		)
		fr(hookRouted, T, "FIN", fFIN|fACK)
		fr(hookWanIn, U, "DGRAM", 0)
		fr(hookWanIn, R, "SYN", fSYN)
		fr(hookRouted, R, "ACK", fACK|fPSH)
		if rich {
			// the steps next to the idle timeout, a learned domain, the reverse hook on the LAN side, the reverse
			// direction of the routed connection, a TCP session to the DNS port
			sc.events = append(sc.events,
				event{name: "tick+119s", kind: evTick, dt: 119 * sec},
				event{name: "tick+121s", kind: evTick, dt: 121 * sec},
				event{name: "learn-domain", kind: evDomain},
			)
			fr(hookLanOut, U, "DGRAM", 0)
			fr(hookWanIn, T, "ACK", fACK)
			fr(hookRouted, TD, "SYN", fSYN)
			fr(hookRouted, TD, "ACK", fACK|fPSH)
		}
		return sc
	}
	// simplest first
	fr(hookRouted, T, "SYN", fSYN)
	fr(hookRouted, T, "ACK", fACK|fPSH)
	fr(hookRouted, U, "DGRAM", 0)
	fr(hookRouted, D, "DGRAM", 0)
	sc.events = append(sc.events,
		event{name: "swap-rules", kind: evSwap},
		event{name: "learn-domain", kind: evDomain},
		event{name: "tick+2s", kind: evTick, dt: 2 * sec},
		event{name: "tick+10s", kind: evTick, dt: 10 * sec}, // exactly the FIN/RST timeout: not yet expired
		event{name: "tick+11s", kind: evTick, dt: 11 * sec},
		event{name: "tick+120s", kind: evTick, dt: 120 * sec}, // exactly the idle timeout: not yet expired
		event{name: "tick+121s", kind: evTick, dt: 121 * sec},
		event{name: "flip-g1-tcp", kind: evFlip},
		event{name: "flip-g1-udp", kind: evFlip, udp: true},
	)
	for _, pi := range []int{sc.progA, sc.progB} {
		if h := progs[pi].hi; h != 0 {
			if sc.hiGroup != 0 && sc.hiGroup != h {
				broken("scenario %s uses two high-id groups", sc.name)
			}
			sc.hiGroup = h
		}
	}
	if sc.hiGroup != 0 {
		sc.events = append(sc.events,
			event{name: fmt.Sprintf("flip-h%d-tcp", sc.hiGroup), kind: evFlip, hiGroup: true},
			event{name: fmt.Sprintf("flip-h%d-udp", sc.hiGroup), kind: evFlip, hiGroup: true, udp: true},
		)
	}
	// two datagrams of one flow pass the hook before dae has read the record of the first
	sc.events = append(sc.events,
		event{name: "twice." + hk + ".D.DGRAM", kind: evFrame, hook: hookRouted, conv: D, flavour: flav, burst: true},
		event{name: "twice." + hk + ".U.DGRAM", kind: evFrame, hook: hookRouted, conv: U, flavour: flav, burst: true},
	)
	fr(hookRouted, TD, "SYN", fSYN)
	fr(hookRouted, TD, "ACK", fACK|fPSH)
	fr(hookRouted, T, "FIN", fFIN|fACK)
	fr(hookRouted, T, "RST", fRST)
	fr(hookWanIn, T, "SYNACK", fSYN|fACK)
	fr(hookWanIn, T, "FIN", fFIN|fACK)
	fr(hookWanIn, U, "DGRAM", 0)
	fr(hookWanIn, R, "SYN", fSYN)
	fr(hookRouted, R, "SYNACK", fSYN|fACK)
	fr(hookRouted, R, "ACK", fACK|fPSH)
	// the 4-tuple of T used the other way round: the remote opens a connection towards the local port with a pure
	// SYN (seen by WAN ingress, and by LAN egress when forwarded), the local side answers SYN+ACK on the routed hook
	fr(hookWanIn, T, "SYN", fSYN)
	fr(hookLanOut, T, "SYN", fSYN)
	fr(hookRouted, T, "SYNACK", fSYN|fACK)
	if side == sideWAN {
		fr(hookRouted, SP, "SYN", fSYN)
		fr(hookRouted, SMu, "DGRAM", 0)
	}
	sc.events = append(sc.events, event{name: "connstate-full", kind: evFull})
	if rich {
		fr(hookWanIn, T, "ACK", fACK)
		fr(hookRouted, TD, "FIN", fFIN|fACK)
		fr(hookWanIn, TD, "SYNACK", fSYN|fACK)
		fr(hookRouted, R, "FIN", fFIN|fACK)
		fr(hookWanIn, RU, "DGRAM", 0)
		fr(hookRouted, RU, "DGRAM", 0)
		fr(hookLanOut, T, "FIN", fFIN|fACK)
		fr(hookLanOut, U, "DGRAM", 0)
		fr(hookLanOut, R, "SYN", fSYN)
		if side == sideLAN {
			fr(hookRouted, L, "DGRAM", 0)
		} else {
			fr(hookRouted, SPu, "DGRAM", 0)
			fr(hookRouted, SM, "SYN", fSYN)
			fr(hookRouted, SM, "ACK", fACK)
			fr(hookRouted, FW, "SYN", fSYN)
		}
		sc.events = append(sc.events,
			event{name: "tick+119s", kind: evTick, dt: 119 * sec},
			event{name: "flip-g1-tcp-otherfamily", kind: evFlip, otherFamily: true},
		)
	}
	// stateless variants: fragments and truncations of the TCP SYN and of the UDP datagram on the routed hook
	add := func(ci int, kname string, flags uint8, flavour int, trunc int, tag string) {
		name := hk + "." + sc.convs[ci].name + "." + kname + "." + tag
		if flavour == ipFragAtomic && trunc == 0 {
			// a whole datagram: named like the plain frame (prefix instead of suffix) so that recorded findings about
			// the flow's datagrams also match this spelling
			name = tag + "." + hk + "." + sc.convs[ci].name + "." + kname
		}
		sc.events = append(sc.events, event{name: name, kind: evFrame, hook: hookRouted, conv: ci, flags: flags, flavour: flavour, truncate: trunc})
	}
	// fragments, each through both parsers: middle, first (offset 0, M=1: still starts the datagram and is routed like
	// the whole packet), tails at byte offsets 256 and 1448/1480 (one byte of the offset field zero / both non-zero),
	// the atomic fragment (IPv6)
	add(T, "SYN", fSYN, ipFragNI, 0, "fragNI")
	add(U, "DGRAM", 0, ipFragNI, 0, "fragNI")
	add(T, "SYN", fSYN, ipFrag1, 0, "frag1st")
	add(U, "DGRAM", 0, ipFrag1, 0, "frag1st")
	add(T, "SYN", fSYN, ipFragT256, 0, "fragTail256")
	add(U, "DGRAM", 0, ipFragT256, 0, "fragTail256")
	add(U, "DGRAM", 0, ipFragTmtu, 0, "fragTailMtu")
	add(U, "DGRAM", 0, ipFragAtomic, 0, "fragAtomic")
	if rich {
		add(T, "SYN", fSYN, ipFragTmtu, 0, "fragTailMtu")
		add(T, "SYN", fSYN, ipFragAtomic, 0, "fragAtomic")
		add(D, "DGRAM", 0, ipFrag1, 0, "frag1st")
		add(D, "DGRAM", 0, ipFragT256, 0, "fragTail256")
		if v6 {
			// cut inside / right after the fragment header
			add(U, "DGRAM", 0, ipFrag1, sc.ipOffset()+40+4, "frag1st.cutInFragHdr")
			add(U, "DGRAM", 0, ipFrag1, sc.ipOffset()+40+8, "frag1st.cutAfterFragHdr")
		}
	}
	for _, ci := range []int{T, U} {
		fs := sc.frameSpecFor(&event{kind: evFrame, hook: hookRouted, conv: ci, flavour: flav})
		cuts := fs.headerBoundaries()
		if !rich {
			// quick: the IP-header boundary and the middle of the L4 header
			cuts = []int{cuts[len(cuts)-3], cuts[len(cuts)-2]}
		}
		kn, fl := "SYN", uint8(fSYN)
		if ci == U {
			kn, fl = "DGRAM", 0
		}
		for _, c := range cuts {
			add(ci, kn, fl, flav, c, fmt.Sprintf("cut%d", c))
		}
	}
	return sc
}

func (sc *scenario) ipOffset() int {
	if sc.l2 {
		return 14
	}
	return 0
}

func (sc *scenario) frameSpecFor(ev *event) *frameSpec {
	c := &sc.convs[ev.conv]
	fs := &frameSpec{l2: sc.l2, proto: c.proto, tcpFlags: ev.flags, flavour: ev.flavour, truncate: ev.truncate, short: sc.short}
	switch ev.hook {
	case hookRouted:
		fs.src, fs.dst = c.src, c.dst
		if sc.side == sideLAN {
			fs.smac, fs.dmac = macClient, macRouter
		} else {
			fs.smac, fs.dmac = macHost, macGw
		}
	case hookWanIn:
		fs.src, fs.dst = c.dst, c.src
		fs.smac, fs.dmac = macGw, macHost
	case hookLanOut:
		fs.src, fs.dst = c.dst, c.src
		fs.smac, fs.dmac = macRouter, macClient
	}
	return fs
}

func (sc *scenario) hookName(ev *event) string {
	s := ""
	switch ev.hook {
	case hookRouted:
		if sc.side == sideLAN {
			s = "tproxy_lan_ingress"
		} else {
			s = "tproxy_wan_egress"
		}
	case hookWanIn:
		s = "tproxy_wan_ingress"
	case hookLanOut:
		s = "tproxy_lan_egress"
	}
	if sc.l2 {
		return s + "_l2"
	}
	return s + "_l3"
}

func (sc *scenario) skbFor(ev *event) (*vkern.Skb, *frameSpec, int) {
	fs := sc.frameSpecFor(ev)
	b, et, ipOff := fs.build()
	c := &sc.convs[ev.conv]
	skb := &vkern.Skb{Protocol: et, Linear: ^uint32(0), Frame: b}
	switch ev.hook {
	case hookRouted:
		if sc.side == sideLAN {
			skb.Ifindex, skb.IngressIfindex = lanIfindex, lanIfindex
		} else {
			skb.Ifindex, skb.IngressIfindex = wanIfindex, 0
			skb.Cookie, skb.Mark = c.cookie, c.skbMark
			if c.kind == cvForwarded {
				skb.IngressIfindex = lanIfindex
			}
		}
	case hookWanIn:
		skb.Ifindex, skb.IngressIfindex = wanIfindex, wanIfindex
	case hookLanOut:
		skb.Ifindex, skb.IngressIfindex = lanIfindex, wanIfindex
	}
	return skb, fs, ipOff
}

// ---------------------------------------------------------------------------------------------------------------
// kernel state observation

// The maps the TC programs write. cookie_pid_map (written by the cgroup programs only; the TC programs merely refresh
// its stamps) and bpf_stats_map (monotonic overflow counters) are not part of the state key.
var dataMaps = []string{"conn_state_map", "routing_handoff_map", "redirect_track"}

type kstate struct {
	maps [3][]vkern.Entry // sorted by key
}

var (
	offConn, offHandoff, offRedirect uintptr
	handoffTimeoutNs                 uint64
)

func (s *script) observe(k *kc) *kstate {
	st := &kstate{}
	for i, m := range dataMaps {
		s.mapDump(k, m, false, &st.maps[i])
	}
	return st
}

func (st *kstate) sort() {
	for i := range st.maps {
		es := st.maps[i]
		sort.Slice(es, func(a, b int) bool { return bytes.Compare(es[a].Key, es[b].Key) < 0 })
	}
}

// canon: all map contents with last-seen stamps rewritten to ages relative to now. Ages are exact up to the largest
// threshold any reader compares them with (120 s for conn state, routingHandoffTimeout for hand-off records) and
// saturate above it (a bisimulation: larger ages behave identically for ever). The stamps of redirect_track are read
// by no code in scope (only the userspace janitor) and are left out.
func (st *kstate) canon(now uint64, b []byte) []byte {
	for i := range st.maps {
		b = append(b, byte(0xf0+i))
		for _, en := range st.maps[i] {
			b = append(b, en.Key...)
			v := append([]byte(nil), en.Value...)
			var off uintptr
			var sat uint64
			switch i {
			case 0:
				off, sat = offConn, ageSaturate
			case 1:
				off, sat = offHandoff, handoffTimeoutNs+1
			case 2:
				off, sat = offRedirect, 0
			}
			ls := binary.LittleEndian.Uint64(v[off:])
			age := now - ls
			if ls > now {
				age = ^uint64(0) // a stamp from the future: keep it visible
			} else if age > sat {
				age = sat
			}
			binary.LittleEndian.PutUint64(v[off:], age)
			b = append(b, v...)
		}
	}
	return b
}

func (st *kstate) keySet(i int) map[string]bool {
	s := map[string]bool{}
	for _, en := range st.maps[i] {
		s[string(en.Key)] = true
	}
	return s
}

func (st *kstate) lookup(m string, key []byte) []byte {
	for i, n := range dataMaps {
		if n != m {
			continue
		}
		for _, en := range st.maps[i] {
			if bytes.Equal(en.Key, key) {
				return en.Value
			}
		}
	}
	return nil
}

// ---------------------------------------------------------------------------------------------------------------
// applying events to kdrv

func (s *script) applyEnv(sc *scenario, m *model, ev *event) {
	// m is the model state BEFORE the event
	switch ev.kind {
	case evTick:
		s.setTime(m.now + ev.dt)
	case evSwap:
		nm := *m
		nm.progB = !m.progB
		p := sc.program(&nm)
		s.loadProgram(p)
		if m.learned {
			s.setDomain(p, sc.addrs.remote, true) // the reloaded control plane re-learns the domain against the new program
		}
	case evDomain:
		s.setDomain(sc.program(m), sc.addrs.remote, !m.learned)
	case evFlip:
		i := 0
		if ev.udp {
			i = 1
		}
		switch {
		case ev.otherFamily:
			// the other family's bit goes down and stays down: must never matter for this family's flows
			s.setAlive(groupG1, ev.udp, !sc.v6, false)
		case ev.hiGroup:
			s.setAlive(sc.hiGroup, ev.udp, sc.v6, m.dead[1][i])
		default:
			s.setAlive(groupG1, ev.udp, sc.v6, m.dead[0][i]) // dead -> alive, alive -> dead
		}
	case evFull:
		if m.full {
			s.mapFault("conn_state_map", 0)
		} else {
			s.mapFault("conn_state_map", -7) // -E2BIG: what a full hash map returns
		}
	}
}

const recoverDelayNs = 1000000 // 1 ms between the redirect and RetrieveRoutingResult

// one injected frame: verdict and the maps after it
type frameObs struct {
	v  *vkern.Verdict
	st *kstate
}

// one run of an event on one parsing path. A burst event injects its frame twice back to back (pre holds the first
// injection, v/st the last); the control plane reads the hand-over records only after the last frame.
type frameRun struct {
	v    *vkern.Verdict
	st   *kstate
	pre  []*frameObs
	mode uint32
}

func (r *frameRun) all() []*frameObs {
	return append(append([]*frameObs(nil), r.pre...), &frameObs{v: r.v, st: r.st})
}

// ---------------------------------------------------------------------------------------------------------------
// BFS

type node struct {
	path  []uint16
	model *model
}

type succ struct {
	ev    uint16
	key   [20]byte
	model *model
	bad   bool
}

type violRec struct {
	kind, sig string
	last      string // name of the last event
	detail    any
	plen      int
}

type explorer struct {
	sc      *scenario
	envs    []*kenv
	viol    []violRec
	violMu  sync.Mutex
	perKind map[string]int

	samples map[string]*sampleRec

	states, transitions, frames, fastRuns, slowRuns atomic.Int64
	outcomes                                        [5]atomic.Int64
	recFrom                                         [2]atomic.Int64
	firstPkts, stickyPkts, dae0peerRuns, altDrops   atomic.Int64
}

type sampleRec struct {
	path []uint16
	data map[string]any
}

func lessPath(a, b []uint16) bool {
	if len(a) != len(b) {
		return len(a) < len(b)
	}
	for i := range a {
		if a[i] != b[i] {
			return a[i] < b[i]
		}
	}
	return false
}

// sample keeps, per class, the smallest sequence of this run that exercised it (deterministic whatever the scheduling).
func (x *explorer) sample(class string, path []uint16, last int, data map[string]any) {
	full := append(append([]uint16(nil), path...), uint16(last))
	x.violMu.Lock()
	defer x.violMu.Unlock()
	if x.samples == nil {
		x.samples = map[string]*sampleRec{}
	}
	if cur := x.samples[class]; cur != nil && !lessPath(full, cur.path) {
		return
	}
	data["class"] = class
	data["scenario"] = x.sc.name
	data["sequence"] = x.pathString(path, last)
	x.samples[class] = &sampleRec{path: full, data: data}
}

func (x *explorer) pathString(path []uint16, last int) string {
	var parts []string
	for _, p := range path {
		parts = append(parts, x.sc.events[p].name)
	}
	if last >= 0 {
		parts = append(parts, x.sc.events[last].name)
	}
	return "[" + strings.Join(parts, ", ") + "]"
}

func (x *explorer) report(kind string, path []uint16, last int, msg string, detail map[string]any) {
	x.violMu.Lock()
	defer x.violMu.Unlock()
	if detail == nil {
		detail = map[string]any{}
	}
	detail["scenario"] = x.sc.name
	detail["program_A"] = x.sc.progs[x.sc.progA].text
	detail["program_B"] = x.sc.progs[x.sc.progB].text
	detail["sequence"] = x.pathString(path, last)
	lastName := ""
	if last >= 0 {
		lastName = x.sc.events[last].name
	}
	x.viol = append(x.viol, violRec{kind: kind, last: lastName, sig: fmt.Sprintf("C03 kind=%s scenario=%s seq=%s: %s", kind, x.sc.name, x.pathString(path, last), msg), detail: detail, plen: len(path) + 1})
}

func verdictString(v *vkern.Verdict) string {
	r := map[int32]string{vkern.TC_ACT_OK: "TC_ACT_OK", vkern.TC_ACT_SHOT: "TC_ACT_SHOT", vkern.TC_ACT_PIPE: "TC_ACT_PIPE", vkern.TC_ACT_REDIRECT: "TC_ACT_REDIRECT"}[v.Ret]
	if r == "" {
		r = fmt.Sprint(v.Ret)
	}
	if v.RedirectKind != 0 {
		r += fmt.Sprintf("(ifindex=%d,kind=%d,flags=%d)", v.RedirectIfindex, v.RedirectKind, v.RedirectFlags)
	}
	return fmt.Sprintf("%s mark=%#x", r, v.Mark)
}

func sameVerdict(a, b *vkern.Verdict) bool {
	return a.Ret == b.Ret && a.Mark == b.Mark && a.PktType == b.PktType && a.Cb == b.Cb && a.RedirectKind == b.RedirectKind && a.RedirectIfindex == b.RedirectIfindex &&
		a.RedirectFlags == b.RedirectFlags && a.AssignedSock == b.AssignedSock && bytes.Equal(a.Frame, b.Frame)
}

// one event applied to one state: everything needed to judge it once the responses are in
type trial struct {
	ei    int
	ev    *event
	m2    *model
	want  expect   // of the last frame
	wants []expect // per injected frame
	skb   *vkern.Skb
	fs    *frameSpec
	ipOff int
	runs  []*frameRun
	envSt *kstate
	bad   bool
	peer  []*peerTrial
}

type peerTrial struct {
	v        *vkern.Verdict // verdict of the redirecting hook
	pv       *vkern.Verdict // verdict of dae0peer ingress
	wantSock int32
	det      map[string]any
}

// expand produces all successors of one node on one kdrv: three pipelined scripts (rebuild + snapshot; every event
// on every parsing path from that snapshot; dae0peer ingress for every redirect).
func (x *explorer) expand(e *kenv, n *node) []succ {
	sc := x.sc
	k := e.k
	// script A: rebuild the state by replaying the path from the boot snapshot, snapshot it
	var sA script
	sA.restore(e.base)
	rm := x.initialModel()
	for _, p := range n.path {
		ev := &sc.events[p]
		if ev.kind == evFrame {
			skb, _, _ := sc.skbFor(ev)
			sA.inject(sc.hookName(ev), skb, nil)
			if ev.burst {
				sA.inject(sc.hookName(ev), skb, nil)
			}
		} else {
			sA.applyEnv(sc, rm, ev)
		}
		sc.stepAll(rm, ev)
	}
	var snap uint32
	sA.snapshot(&snap)
	before := sA.observe(k)
	k.run(&sA)
	before.sort()

	// script B: every event, every parsing path
	var sB script
	trials := make([]*trial, 0, len(sc.events))
	for ei := range sc.events {
		ev := &sc.events[ei]
		t := &trial{ei: ei, ev: ev, m2: n.model.clone()}
		trials = append(trials, t)
		x.transitions.Add(1)
		if ev.kind != evFrame {
			sB.restore(snap)
			sB.applyEnv(sc, n.model, ev)
			sc.step(t.m2, ev)
			t.envSt = sB.observe(k)
			continue
		}
		nframes := 1
		if ev.burst {
			nframes = 2
		}
		for i := 0; i < nframes; i++ {
			t.want = sc.step(t.m2, ev)
			t.wants = append(t.wants, t.want)
			x.frames.Add(1)
		}
		t.skb, t.fs, t.ipOff = sc.skbFor(ev)
		modes := []uint32{vkern.PullKernel, vkern.PullAlwaysFail}
		if len(t.skb.Frame) < 128 {
			modes = []uint32{vkern.PullLenient, vkern.PullKernel, vkern.PullAlwaysFail}
		}
		for _, mode := range modes {
			r := &frameRun{mode: mode}
			sB.restore(snap)
			if mode != vkern.PullKernel {
				sB.setKnobs(mode) // the snapshot carries PullKernel
			}
			for i := 1; i < nframes; i++ {
				o := &frameObs{}
				sB.inject(sc.hookName(ev), t.skb, &o.v)
				o.st = sB.observe(k)
				r.pre = append(r.pre, o)
			}
			sB.inject(sc.hookName(ev), t.skb, &r.v)
			r.st = sB.observe(k)
			t.runs = append(t.runs, r)
		}
	}
	sB.snapFree(snap)
	k.run(&sB)

	// judge; queue dae0peer ingress for every redirect that was otherwise right
	var sC script
	for _, t := range trials {
		if t.ev.kind != evFrame {
			t.envSt.sort()
			continue
		}
		ev, skb, want, m2 := t.ev, t.skb, t.want, t.m2
		for _, r := range t.runs {
			r.st.sort()
			for _, o := range r.pre {
				o.st.sort()
			}
			if r.v.LoadBytesCalls > 0 && r.v.PullFails > 0 {
				x.slowRuns.Add(1)
			} else {
				x.fastRuns.Add(1)
			}
		}
		// (1) no verdict depends on the header-parsing path
		a := t.runs[0]
		for _, b := range t.runs[1:] {
			oa, ob := a.all(), b.all()
			for fi := range oa {
				if !sameVerdict(oa[fi].v, ob[fi].v) || !bytes.Equal(oa[fi].st.canon(m2.now, nil), ob[fi].st.canon(m2.now, nil)) {
					t.bad = true
					x.report("parse-path", n.path, t.ei, fmt.Sprintf("the verdict or the resulting map state depends on the header-parsing path: pull mode %d (%s) -> %s ; pull mode %d (%s) -> %s%s",
						a.mode, pathName(oa[fi].v), verdictString(oa[fi].v), b.mode, pathName(ob[fi].v), verdictString(ob[fi].v), stateDiff(oa[fi].st, ob[fi].st)),
						map[string]any{"frame": hex.EncodeToString(skb.Frame), "hook": sc.hookName(ev), "maps_path_a": dumpState(oa[fi].st), "maps_path_b": dumpState(ob[fi].st), "statement": "no verdict depends on which of the two header-parsing paths handled the frame"})
					break
				}
			}
			if t.bad {
				break
			}
		}
		// (2) the statement, on every path
		for _, r := range t.runs {
			prev := before
			var handed []int
			var pts []*peerTrial
			var det map[string]any
			failed := false
			for fi, o := range r.all() {
				w := t.wants[fi]
				msg, d, pt := x.checkFrame(ev, skb, t.fs, t.ipOff, w, prev, o)
				det = d
				det["frame"] = hex.EncodeToString(skb.Frame)
				det["hook"] = sc.hookName(ev)
				det["parse_path"] = pathName(o.v)
				det["statement"] = w.why
				if len(t.wants) > 1 {
					det["frame_of_burst"] = fi + 1
				}
				if msg != "" {
					t.bad, failed = true, true
					det["maps_after"] = dumpState(o.st)
					x.report(xName[w.kind], n.path, t.ei, msg, det)
					break
				}
				if pt != nil {
					handed = append(handed, fi)
					pts = append(pts, pt)
				}
				prev = o.st
			}
			if failed {
				break
			}
			// the control plane recovers the decision once per redirected frame, after the last frame of the event:
			// the REAL RetrieveRoutingResult on the entries the kernel program left in the two maps
			if len(handed) > 0 {
				if msg := x.recoverAll(e, r.st, t, handed, det); msg != "" {
					t.bad = true
					det["maps_after"] = dumpState(r.st)
					x.report("handover", n.path, t.ei, msg, det)
					break
				}
			}
			if r == t.runs[0] && len(n.path) >= 2 && !want.first && len(t.wants) == 1 {
				switch want.kind {
				case xHandover:
					if len(handed) > 0 {
						x.sample("later packet of a tracked flow handed over with its first packet's decision", n.path, t.ei, map[string]any{"verdict": verdictString(r.v), "recovered_by_control_plane": det["recovered"], "statement": want.why})
					}
				case xPass:
					if !want.noCreate {
						x.sample("later packet of a tracked flow let through", n.path, t.ei, map[string]any{"verdict": verdictString(r.v), "statement": want.why})
					}
				case xDrop:
					x.sample("later packet of a tracked flow dropped", n.path, t.ei, map[string]any{"verdict": verdictString(r.v), "statement": want.why})
				}
			}
			for _, pt := range pts {
				pt.det = det
				t.peer = append(t.peer, pt)
				sC.inject("tproxy_dae0peer_ingress", &vkern.Skb{Ifindex: peerIfindex, IngressIfindex: peerIfindex, Protocol: skb.Protocol, Cb: pt.v.Cb, PktType: 3, Linear: ^uint32(0), Frame: pt.v.Frame}, &pt.pv)
			}
		}
		for _, o := range t.runs[0].all() {
			if o.v.SkRefBalance != 0 {
				t.bad = true
				x.report("sk-ref", n.path, t.ei, fmt.Sprintf("socket reference balance %d after the program", o.v.SkRefBalance), nil)
			}
		}
		for _, w := range t.wants {
			x.outcomes[w.kind].Add(1)
			if w.first {
				x.firstPkts.Add(1)
			} else if w.kind != xUnspec && w.kind != xObserver && !w.noCreate {
				x.stickyPkts.Add(1)
			}
		}
	}
	if len(sC.handlers) > 0 {
		k.run(&sC)
	}
	var out []succ
	for _, t := range trials {
		if t.ev.kind != evFrame {
			out = append(out, succ{ev: uint16(t.ei), key: x.key(t.envSt, t.m2), model: t.m2})
			continue
		}
		c := &sc.convs[t.ev.conv]
		for _, pt := range t.peer {
			x.dae0peerRuns.Add(1)
			pv := pt.pv
			if pv.Ret != vkern.TC_ACT_OK || pv.Mark != consts.TproxyMark || pv.PktType != 0 || pv.AssignedSock != pt.wantSock || !bytes.Equal(pv.Frame, pt.v.Frame) || pv.SkRefBalance != 0 {
				t.bad = true
				x.report("handover", n.path, t.ei, fmt.Sprintf("%s redirected, but dae0peer ingress does not deliver it to dae's listener: verdict %s pkt_type=%d assigned socket %d (want %d, TproxyMark %#x)", c.name, verdictString(pv), pv.PktType, pv.AssignedSock, pt.wantSock, consts.TproxyMark), pt.det)
				break
			}
		}
		if !t.bad {
			out = append(out, succ{ev: uint16(t.ei), key: x.key(t.runs[0].st, t.m2), model: t.m2})
		}
	}
	return out
}

// stateDiff names the first map whose contents differ between two runs of the same frame.
func stateDiff(a, b *kstate) string {
	for i, m := range dataMaps {
		ea, eb := a.maps[i], b.maps[i]
		if len(ea) != len(eb) {
			return fmt.Sprintf(" ; %s holds %d entries after the first, %d after the second", m, len(ea), len(eb))
		}
		for j := range ea {
			if !bytes.Equal(ea[j].Key, eb[j].Key) {
				return fmt.Sprintf(" ; %s keys differ: %x vs %x", m, ea[j].Key, eb[j].Key)
			}
			if !bytes.Equal(ea[j].Value, eb[j].Value) {
				return fmt.Sprintf(" ; %s[%x] = %x vs %x", m, ea[j].Key, ea[j].Value, eb[j].Value)
			}
		}
	}
	return ""
}

func pathName(v *vkern.Verdict) string {
	if v.LoadBytesCalls > 0 && v.PullFails > 0 {
		return "byte-load"
	}
	return "direct-access"
}

func dumpState(st *kstate) map[string][]string {
	out := map[string][]string{}
	for i, m := range dataMaps {
		for _, en := range st.maps[i] {
			out[m] = append(out[m], hex.EncodeToString(en.Key)+" => "+hex.EncodeToString(en.Value))
		}
	}
	return out
}

func (x *explorer) key(st *kstate, m *model) [20]byte {
	b := st.canon(m.now, make([]byte, 0, 512))
	b = append(b, 0xff)
	b = m.canon(b)
	h := sha256.Sum256(b)
	var k [20]byte
	copy(k[:], h[:20])
	return k
}

func (x *explorer) initialModel() *model {
	return &model{now: baseTimeNs, flows: make([]mflow, len(x.sc.convs))}
}

// checkFrame compares one run of one frame with what the statement demands. Returns "" when it holds.
func (x *explorer) checkFrame(ev *event, skb *vkern.Skb, fs *frameSpec, ipOff int, want expect, before *kstate, r *frameObs) (string, map[string]any, *peerTrial) {
	sc := x.sc
	v := r.v
	c := &sc.convs[ev.conv]
	det := map[string]any{"expected": xName[want.kind], "got": verdictString(v)}
	unchanged := bytes.Equal(v.Frame, skb.Frame)
	created := func() string {
		for i := 0; i < 3; i++ {
			old := before.keySet(i)
			for _, en := range r.st.maps[i] {
				if !old[string(en.Key)] {
					return fmt.Sprintf("%s gained key %s", dataMaps[i], hex.EncodeToString(en.Key))
				}
			}
		}
		return ""
	}
	if want.noCreate {
		if s := created(); s != "" {
			return fmt.Sprintf("%s frame of %s must create nothing, but %s (verdict %s)", xName[want.kind], c.name, s, verdictString(v)), det, nil
		}
	}
	kind := want.kind
	if want.altDrop && v.Ret == vkern.TC_ACT_SHOT {
		x.altDrops.Add(1)
		kind = xDrop
	}
	switch kind {
	case xPass:
		if v.Ret != vkern.TC_ACT_OK || v.RedirectKind != 0 {
			return fmt.Sprintf("%s must be let through (TC_ACT_OK), got %s", c.name, verdictString(v)), det, nil
		}
		if !unchanged {
			return fmt.Sprintf("%s must be let through unmodified, the frame bytes changed", c.name), det, nil
		}
		if v.Mark != want.mark {
			return fmt.Sprintf("%s let through with skb mark %#x, the statement gives %#x", c.name, v.Mark, want.mark), det, nil
		}
		if v.AssignedSock != -1 {
			return fmt.Sprintf("%s let through but a socket (%d) was assigned", c.name, v.AssignedSock), det, nil
		}
	case xDrop:
		if v.Ret != vkern.TC_ACT_SHOT {
			return fmt.Sprintf("%s must be dropped (TC_ACT_SHOT), got %s", c.name, verdictString(v)), det, nil
		}
	case xUnspec:
		if (v.Ret != vkern.TC_ACT_OK && v.Ret != vkern.TC_ACT_SHOT) || v.RedirectKind != 0 {
			return fmt.Sprintf("%s: a frame that belongs to no tracked flow and starts none may pass or be dropped, never be redirected; got %s", c.name, verdictString(v)), det, nil
		}
		if v.Ret == vkern.TC_ACT_OK && !unchanged {
			return fmt.Sprintf("%s passed but the frame bytes changed", c.name), det, nil
		}
	case xObserver:
		if (v.Ret != vkern.TC_ACT_OK && v.Ret != vkern.TC_ACT_PIPE) || v.RedirectKind != 0 || !unchanged {
			return fmt.Sprintf("%s~ at an observing hook must continue unmodified, got %s (unchanged=%v)", c.name, verdictString(v), unchanged), det, nil
		}
	case xHandover:
		wantKind := uint8(1)
		if sc.redirectPeer && sc.side == sideLAN {
			wantKind = 2
		}
		if v.Ret != vkern.TC_ACT_REDIRECT || v.RedirectIfindex != daeIfindex || v.RedirectKind != wantKind || v.RedirectFlags != 0 {
			return fmt.Sprintf("%s must be redirected to dae0 (ifindex %d), got %s", c.name, daeIfindex, verdictString(v)), det, nil
		}
		// the IP packet itself must reach dae unchanged
		wantIP := skb.Frame[ipOff:]
		gotOff := ipOff
		rewritten := !(sc.redirectPeer && sc.side == sideLAN)
		if !sc.l2 && rewritten {
			gotOff = 14
		}
		if len(v.Frame) < gotOff || !bytes.Equal(v.Frame[gotOff:], wantIP) {
			return fmt.Sprintf("%s redirected to dae0 but the IP packet was altered", c.name), det, nil
		}
		if rewritten && (len(v.Frame) < 14 || !bytes.Equal(v.Frame[:6], macPeer[:])) {
			return fmt.Sprintf("%s redirected to dae0 with destination MAC %x, dae0peer has %x", c.name, v.Frame[:6], macPeer), det, nil
		}
		// dae0peer ingress completes the hand-over (run afterwards, in one script)
		wantSock := int32(-1)
		if c.proto == ipUDP {
			wantSock = sockUDP
		} else if ev.flags&fSYN != 0 && ev.flags&fACK == 0 {
			wantSock = sockTCP4
			if sc.v6 {
				wantSock = sockTCP6
			}
		}
		return "", det, &peerTrial{v: v, wantSock: wantSock}
	}
	return "", det, nil
}

// recoverAll: after the last frame of the event the control plane handles the redirected frames one after the other;
// for each of them the production RetrieveRoutingResult must give exactly the decision that frame was redirected with.
func (x *explorer) recoverAll(e *kenv, st *kstate, t *trial, handed []int, det map[string]any) string {
	sc := x.sc
	c := &sc.convs[t.ev.conv]
	fs := t.fs
	var ck, cv, hk, hv [][]byte
	for _, en := range st.maps[0] {
		ck, cv = append(ck, en.Key), append(cv, en.Value)
	}
	for _, en := range st.maps[1] {
		hk, hv = append(hk, en.Key), append(hv, en.Value)
	}
	if err := e.mir.Load(ck, cv, hk, hv, t.m2.now+recoverDelayNs); err != nil {
		broken("loading the control plane's maps: %v", err)
	}
	det["go_lookup_key"] = hex.EncodeToString(control.VerifC03TuplesKey(fs.src, fs.dst, c.proto))
	for n, fi := range handed {
		want := t.wants[fi]
		which := ""
		if len(t.wants) > 1 {
			which = fmt.Sprintf(" (datagram #%d of %d redirected back to back, read #%d)", fi+1, len(t.wants), n+1)
		}
		got, found, err := e.mir.Retrieve(fs.src, fs.dst, c.proto)
		if err != nil {
			return fmt.Sprintf("%s handed over%s but RetrieveRoutingResult fails: %v", c.name, which, err)
		}
		if !found {
			return fmt.Sprintf("%s handed over%s but RetrieveRoutingResult finds no record (ErrKeyNotExist): the control plane cannot recover the kernel's decision", c.name, which)
		}
		from := got.From
		got.From = ""
		det["recovered"] = fmt.Sprintf("%+v (from %s)", got, from)
		det["kernel_decision"] = fmt.Sprintf("%+v", want.rec)
		if got != want.rec {
			return fmt.Sprintf("%s handed over%s; the control plane recovers outbound=%d mark=%#x must=%d dscp=%d mac=%x pid=%d pname=%q from %s, the decision was outbound=%d mark=%#x must=%d dscp=%d mac=%x pid=%d pname=%q",
				c.name, which, got.Outbound, got.Mark, got.Must, got.Dscp, got.Mac, got.Pid, cstr(got.Pname), from,
				want.rec.Outbound, want.rec.Mark, want.rec.Must, want.rec.Dscp, want.rec.Mac, want.rec.Pid, cstr(want.rec.Pname))
		}
		if from == "conn_state_map" {
			x.recFrom[0].Add(1)
		} else {
			x.recFrom[1].Add(1)
		}
	}
	return ""
}

func cstr(b [16]uint8) string {
	n := bytes.IndexByte(b[:], 0)
	if n < 0 {
		n = 16
	}
	return string(b[:n])
}

// run explores the scenario breadth-first to its depth.
func (x *explorer) run(budgetLeft func() bool) (capped bool) {
	sc := x.sc
	for _, e := range x.envs {
		e.boot(sc)
	}
	root := &node{model: x.initialModel()}
	visited := map[[20]byte]struct{}{}
	{
		e := x.envs[0]
		var s0 script
		s0.restore(e.base)
		st := s0.observe(e.k)
		e.k.run(&s0)
		st.sort()
		visited[x.key(st, root.model)] = struct{}{}
	}
	frontier := []*node{root}
	for d := 0; d < sc.depth && len(frontier) > 0; d++ {
		last := d == sc.depth-1
		results := make([][]succ, len(frontier))
		var next atomic.Int64
		var wg sync.WaitGroup
		var stop atomic.Bool
		for w := range x.envs {
			wg.Add(1)
			go func(e *kenv) {
				defer wg.Done()
				for {
					i := int(next.Add(1) - 1)
					if i >= len(frontier) {
						return
					}
					if !budgetLeft() {
						stop.Store(true)
						return
					}
					results[i] = x.expand(e, frontier[i])
				}
			}(x.envs[w])
		}
		wg.Wait()
		if stop.Load() {
			return true
		}
		var nf []*node
		for i, rs := range results {
			for _, s := range rs {
				if _, ok := visited[s.key]; ok {
					continue
				}
				visited[s.key] = struct{}{}
				if last {
					continue
				}
				p := make([]uint16, len(frontier[i].path)+1)
				copy(p, frontier[i].path)
				p[len(p)-1] = s.ev
				nf = append(nf, &node{path: p, model: s.model})
			}
		}
		frontier = nf
	}
	x.states.Store(int64(len(visited)))
	return false
}
