//go:build verif

package control

import (
	"context"
	"fmt"
	"net"
	"net/netip"
	"sort"
	"strings"
	"sync"
	"sync/atomic"
	"time"

	"github.com/daeuniverse/dae/common/consts"
	"github.com/daeuniverse/dae/component/dns"
	"github.com/daeuniverse/dae/config"
	"github.com/daeuniverse/dae/pkg/config_parser"
	"github.com/daeuniverse/dae/verifx/vsched"
	"github.com/daeuniverse/dae/verifx/vtime"
	dnsmessage "github.com/miekg/dns"
	"github.com/sirupsen/logrus"
)

// dnsctl_api — shared harness of C08 / C10: a REAL DnsController built by NewDnsController from the option
// object that the production method ControlPlane.dnsControllerOption() returns for a ControlPlane literal
// (so the callbacks, the NewCache closure and FixedDomainTtl are the production closures themselves, bound to
// a real controlPlaneCore and a real routing matcher). Only two things are substituted, both through seams
// that exist in the code base: BestDialerChooser (needs outbound groups) and the package variable
// dnsForwarderFactory (scripted, network-free upstream). Everything runs on the virtual clock of engine S
// when the files listed under "instrument" in check.json are rewritten; this file is NOT rewritten and
// uses vtime explicitly.

// ---- scripted upstream ---------------------------------------------------------------------------------

// VerifExchange is one query that reached the scripted upstream.
type VerifExchange struct {
	Upstream   string // upstream.String() of the forwarder that was asked
	Name       string // question name exactly as sent
	Qtype      uint16
	StartNs    int64 // virtual time the query was sent
	DoneNs     int64 // virtual time the answer was handed back (0 while in flight)
	Addrs      []netip.Addr
	Ttl        uint32
	Failed     bool
	Background bool // not started from inside a client question of the same thread (i.e. a refresh)
	Thread     int
}

// VerifScript decides what the upstream answers. ok=false => the exchange fails (transport error).
type VerifScript func(upstream, name string, qtype uint16) (addrs []netip.Addr, ttl uint32, ok bool)

type VerifDnsOpts struct {
	Optimistic      bool
	OptimisticTtl   int
	MaxCacheSize    int
	FixedDomainTtl  []string      // as written in the configuration, e.g. "a: 5" (parsed by the production ParseFixedDomainTtl)
	Matcher         *VerifRouting // real routing matcher whose domain matcher feeds DomainBitmap (required)
	WithKernelTable bool          // bind the production callbacks to a core that has (empty) bpf objects so that the tracker runs
	Latency         time.Duration // virtual time one upstream exchange takes
}

type VerifDnsCtl struct {
	id     uint32
	Ctrl   *DnsController
	opt    *DnsControllerOption
	cp     *ControlPlane
	core   *controlPlaneCore
	opts   VerifDnsOpts
	script VerifScript

	mu        sync.Mutex
	exchanges []*VerifExchange
	inflight  map[string]int
	maxInfl   map[string]int // all exchanges
	maxBg     map[string]int // background (refresh) exchanges only
	bgInfl    map[string]int
	asking    map[int]int // managed thread id -> nesting depth of Ask
	createdNs int64
	// environment fault: the next N calls of the routing-sync callback (CacheAccessCallback, production:
	// BatchUpdateDomainRouting writing the kernel map) fail, as a kernel map update can
	failAccess     int
	AccessFailures int
}

var (
	verifCtls     sync.Map // uint32 -> *VerifDnsCtl
	verifCtlSeq   atomic.Uint32
	verifFwdOnce  sync.Once
	verifRoutings sync.Map // scope -> *dns.Dns
)

type verifScriptedForwarder struct {
	ctl *VerifDnsCtl
	up  string
}

func (f *verifScriptedForwarder) ForwardDNS(ctx context.Context, data []byte) (*dnsmessage.Msg, error) {
	var q dnsmessage.Msg
	if err := q.Unpack(data); err != nil {
		return nil, fmt.Errorf("scripted upstream: cannot unpack query: %w", err)
	}
	if len(q.Question) == 0 {
		return nil, fmt.Errorf("scripted upstream: no question")
	}
	name, qtype := q.Question[0].Name, q.Question[0].Qtype
	c := f.ctl
	tid := vsched.ThreadID()
	ex := &VerifExchange{Upstream: f.up, Name: name, Qtype: qtype, StartNs: vtime.Now().UnixNano(), Thread: tid}
	fk := f.up + "|" + strings.ToLower(name) + "|" + fmt.Sprint(qtype)
	c.mu.Lock()
	ex.Background = c.asking[tid] == 0
	c.exchanges = append(c.exchanges, ex)
	c.inflight[fk]++
	if c.inflight[fk] > c.maxInfl[fk] {
		c.maxInfl[fk] = c.inflight[fk]
	}
	if ex.Background {
		c.bgInfl[fk]++
		if c.bgInfl[fk] > c.maxBg[fk] {
			c.maxBg[fk] = c.bgInfl[fk]
		}
	}
	script := c.script
	c.mu.Unlock()
	if c.opts.Latency > 0 {
		vtime.Sleep(c.opts.Latency)
	}
	addrs, ttl, ok := script(f.up, name, qtype)
	c.mu.Lock()
	c.inflight[fk]--
	if ex.Background {
		c.bgInfl[fk]--
	}
	ex.DoneNs = vtime.Now().UnixNano()
	ex.Addrs, ex.Ttl, ex.Failed = addrs, ttl, !ok
	c.mu.Unlock()
	if !ok {
		return nil, fmt.Errorf("scripted upstream %s: exchange failed", f.up)
	}
	resp := new(dnsmessage.Msg)
	resp.SetReply(&q)
	resp.RecursionAvailable = true
	for _, a := range addrs {
		switch {
		case qtype != dnsmessage.TypeA && qtype != dnsmessage.TypeAAAA:
			// a question for another record type is answered with a record of exactly that type whose payload
			// carries the identifying address as a tag
			if rr := verifTagRR(name, qtype, ttl, a); rr != nil {
				resp.Answer = append(resp.Answer, rr)
			}
		case a.Is4():
			resp.Answer = append(resp.Answer, &dnsmessage.A{Hdr: dnsmessage.RR_Header{Name: name, Rrtype: dnsmessage.TypeA, Class: dnsmessage.ClassINET, Ttl: ttl}, A: net.IP(a.AsSlice())})
		default:
			resp.Answer = append(resp.Answer, &dnsmessage.AAAA{Hdr: dnsmessage.RR_Header{Name: name, Rrtype: dnsmessage.TypeAAAA, Class: dnsmessage.ClassINET, Ttl: ttl}, AAAA: net.IP(a.AsSlice())})
		}
	}
	return resp, nil
}

// verifTagRR builds a record of type qtype (SOA, TXT, SVCB, HTTPS, CAA) tagged with addr.
func verifTagRR(name string, qtype uint16, ttl uint32, addr netip.Addr) dnsmessage.RR {
	tag := "t-" + strings.NewReplacer(".", "-", ":", "-").Replace(addr.String()) + ".verif."
	hdr := dnsmessage.RR_Header{Name: name, Rrtype: qtype, Class: dnsmessage.ClassINET, Ttl: ttl}
	switch qtype {
	case dnsmessage.TypeSOA:
		return &dnsmessage.SOA{Hdr: hdr, Ns: tag, Mbox: "h.verif.", Serial: 1, Refresh: 2, Retry: 3, Expire: 4, Minttl: 5}
	case dnsmessage.TypeTXT:
		return &dnsmessage.TXT{Hdr: hdr, Txt: []string{tag}}
	case dnsmessage.TypeSVCB:
		return &dnsmessage.SVCB{Hdr: hdr, Priority: 1, Target: tag}
	case dnsmessage.TypeHTTPS:
		return &dnsmessage.HTTPS{SVCB: dnsmessage.SVCB{Hdr: hdr, Priority: 1, Target: tag}}
	case dnsmessage.TypeCAA:
		return &dnsmessage.CAA{Hdr: hdr, Flag: 0, Tag: "issue", Value: tag}
	}
	return nil
}

// verifRRIdent returns the identifying address of an answer record: the address of an A/AAAA record, the tag of a
// record built by verifTagRR.
func verifRRIdent(rr dnsmessage.RR) (netip.Addr, bool) {
	if a, ok := dnsAnswerIP(rr); ok {
		return a.Unmap(), true
	}
	tag := ""
	switch b := rr.(type) {
	case *dnsmessage.SOA:
		tag = b.Ns
	case *dnsmessage.TXT:
		if len(b.Txt) > 0 {
			tag = b.Txt[0]
		}
	case *dnsmessage.SVCB:
		tag = b.Target
	case *dnsmessage.HTTPS:
		tag = b.Target
	case *dnsmessage.CAA:
		tag = b.Value
	}
	if !strings.HasPrefix(tag, "t-") || !strings.HasSuffix(tag, ".verif.") {
		return netip.Addr{}, false
	}
	body := strings.TrimSuffix(strings.TrimPrefix(tag, "t-"), ".verif.")
	if a, err := netip.ParseAddr(strings.ReplaceAll(body, "-", ".")); err == nil {
		return a, true
	}
	if a, err := netip.ParseAddr(strings.ReplaceAll(body, "-", ":")); err == nil {
		return a, true
	}
	return netip.Addr{}, false
}

func (f *verifScriptedForwarder) Close() error { return nil }

func verifInstallScriptedUpstream() {
	verifFwdOnce.Do(func() {
		dnsForwarderFactory = func(upstream *dns.Upstream, dialArg dialArgument, _ *logrus.Logger) (DnsForwarder, error) {
			v, ok := verifCtls.Load(dialArg.mark)
			if !ok {
				return nil, fmt.Errorf("scripted factory: unknown controller %d", dialArg.mark)
			}
			return &verifScriptedForwarder{ctl: v.(*VerifDnsCtl), up: upstream.String()}, nil
		}
	})
}

// ---- DNS routing programs: one per upstream scope (text -> parser -> config.New -> dns.New) ------------

// Scopes: "u1", "u2" (two configured upstreams), "asis" (ask the server the client addressed), "reject".
const (
	VerifUpstream1 = "udp://192.0.2.1:53"
	VerifUpstream2 = "udp://192.0.2.2:53"
)

func verifDnsRoutingFor(scope string) (*dns.Dns, error) {
	if v, ok := verifRoutings.Load(scope); ok {
		return v.(*dns.Dns), nil
	}
	text := "global{}\nrouting{ fallback: direct }\ndns {\n  upstream {\n    u1: '" + VerifUpstream1 + "'\n    u2: '" + VerifUpstream2 + "'\n  }\n" +
		"  routing {\n    request {\n      fallback: " + scope + "\n    }\n    response {\n      fallback: accept\n    }\n  }\n}\n"
	sections, err := config_parser.Parse(text)
	if err != nil {
		return nil, fmt.Errorf("parse: %w", err)
	}
	conf, err := config.New(sections)
	if err != nil {
		return nil, fmt.Errorf("config.New: %w", err)
	}
	d, err := dns.New(&conf.Dns, &dns.NewOption{
		Logger:                  VerifQuietLogger(),
		UpstreamReadyCallback:   func(*dns.Upstream) error { return nil },
		UpstreamResolverNetwork: "udp",
	})
	if err != nil {
		return nil, fmt.Errorf("dns.New: %w", err)
	}
	verifRoutings.Store(scope, d)
	return d, nil
}

// VerifPrepareDnsRoutings builds the four routing programs outside the scheduler (they are immutable afterwards).
func VerifPrepareDnsRoutings() error {
	for _, s := range []string{"u1", "u2", "asis", "reject"} {
		d, err := verifDnsRoutingFor(s)
		if err != nil {
			return fmt.Errorf("scope %s: %w", s, err)
		}
		if s == "u1" || s == "u2" {
			// force the lazy upstream initialisation now (IP literal: no resolver, no network)
			if _, _, err := d.RequestSelect(context.Background(), "warm.", dnsmessage.TypeA); err != nil {
				return fmt.Errorf("scope %s warm-up: %w", s, err)
			}
		}
	}
	return nil
}

// ---- controller construction ---------------------------------------------------------------------------

func VerifNewDnsCtl(o VerifDnsOpts, script VerifScript) (*VerifDnsCtl, error) {
	verifInstallScriptedUpstream()
	if o.Matcher == nil || o.Matcher.Matcher == nil {
		return nil, fmt.Errorf("a compiled routing matcher is required")
	}
	fixed, err := ParseFixedDomainTtl(verifKeyable(o.FixedDomainTtl))
	if err != nil {
		return nil, err
	}
	e := &VerifDnsCtl{id: verifCtlSeq.Add(1), opts: o, script: script, inflight: map[string]int{}, maxInfl: map[string]int{}, maxBg: map[string]int{}, bgInfl: map[string]int{}, asking: map[int]int{}}
	log := VerifQuietLogger()
	e.core = &controlPlaneCore{log: log, domainRouting: newDomainRoutingTracker()}
	if o.WithKernelTable {
		// bpf objects with a nil DomainRoutingMap: BatchUpdate/RemoveDomainRouting run the tracker, the
		// batches are observed through the verif observer (see C10)
		e.core.bpf.Store(&bpfObjects{})
	}
	e.cp = &ControlPlane{log: log, core: e.core, ctx: context.Background()}
	e.cp.routingMatcher = o.Matcher.Matcher
	e.cp.dnsFixedDomainTtl = fixed
	// ---- exactly what NewControlPlane does with the option object (control_plane.go "Dns controller") ----
	opt := e.cp.dnsControllerOption()
	opt.OptimisticCache = o.Optimistic
	opt.OptimisticCacheTtl = o.OptimisticTtl
	opt.MaxCacheSize = o.MaxCacheSize
	opt.IpVersionPrefer = 0
	// ---- the one substituted closure: no outbound groups in the harness ----
	opt.BestDialerChooser = func(ctx context.Context, req *udpRequest, upstream *dns.Upstream) (*dialArgument, error) {
		var tgt netip.AddrPort
		if upstream.Ip46 != nil && upstream.Ip4.IsValid() {
			tgt = netip.AddrPortFrom(upstream.Ip4, upstream.Port)
		}
		return &dialArgument{l4proto: consts.L4ProtoStr_UDP, ipversion: consts.IpVersionStr_4, bestTarget: tgt, mark: e.id}, nil
	}
	opt.TimeoutExceedCallback = func(*dialArgument, error) {}
	// fault seam around the PRODUCTION access callback (default: passes straight through)
	prodAccess := opt.CacheAccessCallback
	opt.CacheAccessCallback = func(cache *DnsCache) error {
		e.mu.Lock()
		fail := e.failAccess > 0
		if fail {
			e.failAccess--
			e.AccessFailures++
		}
		e.mu.Unlock()
		if fail {
			return fmt.Errorf("BatchUpdateDomainRouting: injected kernel map update failure")
		}
		return prodAccess(cache)
	}
	e.opt = opt
	r0, err := verifDnsRoutingFor("u1")
	if err != nil {
		return nil, err
	}
	c, err := NewDnsController(r0, opt)
	if err != nil {
		return nil, err
	}
	e.Ctrl = c
	e.cp.dnsController = c
	e.createdNs = vtime.Now().UnixNano()
	verifCtls.Store(e.id, e)
	return e, nil
}

func verifKeyable(ss []string) []config.KeyableString {
	out := make([]config.KeyableString, len(ss))
	for i, s := range ss {
		out[i] = config.KeyableString(s)
	}
	return out
}

func (e *VerifDnsCtl) Close() {
	verifCtls.Delete(e.id)
	_ = e.Ctrl.Close()
}

// FailNextAccessCallbacks arms the fault: the next n routing-sync callbacks return an error.
func (e *VerifDnsCtl) FailNextAccessCallbacks(n int) {
	e.mu.Lock()
	e.failAccess = n
	e.mu.Unlock()
}

func (e *VerifDnsCtl) ArmedAccessFailures() int {
	e.mu.Lock()
	defer e.mu.Unlock()
	return e.failAccess
}

func (e *VerifDnsCtl) SetScript(s VerifScript) {
	e.mu.Lock()
	e.script = s
	e.mu.Unlock()
}

// Exchanges returns a snapshot of every upstream exchange so far.
func (e *VerifDnsCtl) Exchanges() []VerifExchange {
	e.mu.Lock()
	defer e.mu.Unlock()
	out := make([]VerifExchange, len(e.exchanges))
	for i, x := range e.exchanges {
		out[i] = *x
	}
	return out
}

// MaxConcurrentExchanges: per (upstream|lower name|qtype) the largest number of exchanges that were in flight at once.
func (e *VerifDnsCtl) MaxConcurrentExchanges() map[string]int {
	e.mu.Lock()
	defer e.mu.Unlock()
	out := map[string]int{}
	for k, v := range e.maxInfl {
		out[k] = v
	}
	return out
}

// MaxConcurrentRefreshes: like MaxConcurrentExchanges, counting only exchanges that were not started from
// inside a client question (background refreshes).
func (e *VerifDnsCtl) MaxConcurrentRefreshes() map[string]int {
	e.mu.Lock()
	defer e.mu.Unlock()
	out := map[string]int{}
	for k, v := range e.maxBg {
		out[k] = v
	}
	return out
}

// RefreshesInFlight: background exchanges currently in flight per (upstream|lower name|qtype).
func (e *VerifDnsCtl) RefreshesInFlight() map[string]int {
	e.mu.Lock()
	defer e.mu.Unlock()
	out := map[string]int{}
	for k, v := range e.bgInfl {
		if v != 0 {
			out[k] = v
		}
	}
	return out
}

func (e *VerifDnsCtl) InFlight() int {
	e.mu.Lock()
	defer e.mu.Unlock()
	n := 0
	for _, v := range e.inflight {
		n += v
	}
	return n
}

// setScope publishes the routing program of the scope the way a reload does (TryUpdateRuntime swaps the
// generation-local runtime; the cache store is untouched).
func (e *VerifDnsCtl) setScope(scope string) error {
	d, err := verifDnsRoutingFor(scope)
	if err != nil {
		return err
	}
	if rt := e.Ctrl.runtime(); rt != nil && rt.routing == d {
		return nil
	}
	return e.Ctrl.TryUpdateRuntime(e.opt, d)
}

// ---- capture ResponseWriter -----------------------------------------------------------------------------

type verifCaptureWriter struct {
	msgs []*dnsmessage.Msg
	atNs []int64
}

func (w *verifCaptureWriter) LocalAddr() net.Addr  { return nil }
func (w *verifCaptureWriter) RemoteAddr() net.Addr { return nil }
func (w *verifCaptureWriter) WriteMsg(m *dnsmessage.Msg) error {
	w.msgs = append(w.msgs, m.Copy())
	w.atNs = append(w.atNs, vtime.Now().UnixNano())
	return nil
}
func (w *verifCaptureWriter) Write(b []byte) (int, error) {
	var m dnsmessage.Msg
	if err := m.Unpack(b); err != nil {
		return 0, err
	}
	w.msgs = append(w.msgs, &m)
	w.atNs = append(w.atNs, vtime.Now().UnixNano())
	return len(b), nil
}
func (w *verifCaptureWriter) Close() error        { return nil }
func (w *verifCaptureWriter) TsigStatus() error   { return nil }
func (w *verifCaptureWriter) TsigTimersOnly(bool) {}
func (w *verifCaptureWriter) Hijack()             {}

// VerifReply is what one client question produced.
type VerifReply struct {
	Err       string
	Replies   int   // messages written to the client
	ReplyAtNs int64 // virtual time of the (first) reply
	StartNs   int64
	EndNs     int64
	Id        uint16
	Rcode     int
	QName     string
	QType     uint16
	Addrs     []netip.Addr    // identifying address of every answer record (A/AAAA address, or the tag of another type), in order
	RRTypes   []uint16        // type of every record of the answer section
	Ttls      []uint32        // their TTL fields
	Sync      []VerifExchange // upstream exchanges that started during the call (in the calling thread or not)
	Panic     string
}

func verifReq(realDst netip.AddrPort) *udpRequest {
	return &udpRequest{
		realSrc:       netip.MustParseAddrPort("192.168.7.7:40000"),
		realDst:       realDst,
		src:           netip.MustParseAddrPort("192.168.7.7:40000"),
		routingResult: &bpfRoutingResult{},
	}
}

// Ask sends one client question through HandleWithResponseWriter_ (the path the DNS listener and DNS-over-TCP
// use) under the routing program of scope.
func (e *VerifDnsCtl) Ask(scope, name string, qtype uint16, realDst netip.AddrPort, id uint16) (out VerifReply) {
	out.StartNs = vtime.Now().UnixNano()
	out.Id = id
	tid := vsched.ThreadID()
	e.mu.Lock()
	e.asking[tid]++
	e.mu.Unlock()
	defer func() {
		e.mu.Lock()
		e.asking[tid]--
		e.mu.Unlock()
	}()
	if err := e.setScope(scope); err != nil {
		out.Err = "setScope: " + err.Error()
		return
	}
	q := new(dnsmessage.Msg)
	q.Id = id
	q.RecursionDesired = true
	q.Question = []dnsmessage.Question{{Name: name, Qtype: qtype, Qclass: dnsmessage.ClassINET}}
	e.mu.Lock()
	n0 := len(e.exchanges)
	e.mu.Unlock()
	w := &verifCaptureWriter{}
	err := e.Ctrl.HandleWithResponseWriter_(context.Background(), q, verifReq(realDst), w)
	out.EndNs = vtime.Now().UnixNano()
	if err != nil {
		out.Err = err.Error()
	}
	e.mu.Lock()
	for _, x := range e.exchanges[n0:] {
		out.Sync = append(out.Sync, *x)
	}
	e.mu.Unlock()
	out.Replies = len(w.msgs)
	if len(w.msgs) > 0 {
		m := w.msgs[0]
		out.ReplyAtNs = w.atNs[0]
		out.Rcode = m.Rcode
		if m.Id != id {
			out.Err += fmt.Sprintf(" [reply id %#x != request id %#x]", m.Id, id)
		}
		if len(m.Question) > 0 {
			out.QName, out.QType = m.Question[0].Name, m.Question[0].Qtype
		}
		for _, rr := range m.Answer {
			out.RRTypes = append(out.RRTypes, rr.Header().Rrtype)
			if a, ok := verifRRIdent(rr); ok {
				out.Addrs = append(out.Addrs, a)
				out.Ttls = append(out.Ttls, rr.Header().Ttl)
			}
		}
	}
	return
}

// ---- cache-level entry points the controller itself uses ---------------------------------------------------

// ResponseKey computes the cache key exactly as HandleWithResponseWriter_ does: production RequestSelect of
// the scope's routing program, production cacheKey and responseCacheKey.
func (e *VerifDnsCtl) ResponseKey(scope, name string, qtype uint16, realDst netip.AddrPort) (string, error) {
	d, err := verifDnsRoutingFor(scope)
	if err != nil {
		return "", err
	}
	idx, up, err := d.RequestSelect(context.Background(), name, qtype)
	if err != nil {
		return "", err
	}
	return e.Ctrl.responseCacheKey(e.Ctrl.cacheKey(name, qtype), verifReq(realDst), idx, up), nil
}

// InsertRaw stores an upstream answer through NormalizeAndCacheDnsResp_ (what dialSend calls when a reply arrives).
func (e *VerifDnsCtl) InsertRaw(scope, name string, qtype uint16, realDst netip.AddrPort, addrs []netip.Addr, ttl uint32) error {
	key, err := e.ResponseKey(scope, name, qtype, realDst)
	if err != nil {
		return err
	}
	m := new(dnsmessage.Msg)
	m.Response = true
	m.Rcode = dnsmessage.RcodeSuccess
	m.Question = []dnsmessage.Question{{Name: name, Qtype: qtype, Qclass: dnsmessage.ClassINET}}
	for _, a := range addrs {
		if a.Is4() {
			m.Answer = append(m.Answer, &dnsmessage.A{Hdr: dnsmessage.RR_Header{Name: name, Rrtype: dnsmessage.TypeA, Class: dnsmessage.ClassINET, Ttl: ttl}, A: net.IP(a.AsSlice())})
		} else {
			m.Answer = append(m.Answer, &dnsmessage.AAAA{Hdr: dnsmessage.RR_Header{Name: name, Rrtype: dnsmessage.TypeAAAA, Class: dnsmessage.ClassINET, Ttl: ttl}, AAAA: net.IP(a.AsSlice())})
		}
	}
	return e.Ctrl.NormalizeAndCacheDnsResp_(m, key)
}

// LookupRaw probes LookupDnsRespCache_ (the lookup HandleWithResponseWriter_ performs) without any upstream.
func (e *VerifDnsCtl) LookupRaw(scope, name string, qtype uint16, realDst netip.AddrPort) (addrs []netip.Addr, ttls []uint32, needRefresh bool, hit bool, err error) {
	key, err := e.ResponseKey(scope, name, qtype, realDst)
	if err != nil {
		return nil, nil, false, false, err
	}
	q := new(dnsmessage.Msg)
	q.RecursionDesired = true
	q.Question = []dnsmessage.Question{{Name: name, Qtype: qtype, Qclass: dnsmessage.ClassINET}}
	resp, need := e.Ctrl.LookupDnsRespCache_(q, key, false)
	if resp == nil {
		return nil, nil, need, false, nil
	}
	var m dnsmessage.Msg
	if err := m.Unpack(resp); err != nil {
		return nil, nil, need, true, err
	}
	for _, rr := range m.Answer {
		if a, ok := dnsAnswerIP(rr); ok {
			addrs = append(addrs, a.Unmap())
			ttls = append(ttls, rr.Header().Ttl)
		}
	}
	return addrs, ttls, need, true, nil
}

// Janitor runs the janitor body once, as its ticker would (evictExpiredDnsCache(now)).
func (e *VerifDnsCtl) Janitor() { e.Ctrl.evictExpiredDnsCache(vtime.Now()) }

// RemoveKey removes one exact cache entry through RemoveDnsRespCache.
func (e *VerifDnsCtl) RemoveKey(key string) { e.Ctrl.RemoveDnsRespCache(key) }

// ReloadClone performs the cache hand-over of a configuration reload: CloneCacheForReload on this controller,
// a fresh controller (fresh core/tracker) built from the same options, RestoreReloadCache with the new matcher's
// bitmap function, exactly as ControlPlane.replayDnsReloadCache does. The old controller is closed.
func (e *VerifDnsCtl) ReloadClone() (*VerifDnsCtl, error) {
	entries := e.Ctrl.CloneCacheForReload()
	e.mu.Lock()
	script := e.script
	e.mu.Unlock()
	n, err := VerifNewDnsCtl(e.opts, script)
	if err != nil {
		return nil, err
	}
	// carry the exchange log over so that the harness keeps one history
	e.mu.Lock()
	n.exchanges = append(n.exchanges, e.exchanges...)
	for k, v := range e.maxInfl {
		n.maxInfl[k] = v
	}
	for k, v := range e.maxBg {
		n.maxBg[k] = v
	}
	n.failAccess = e.failAccess
	e.mu.Unlock()
	n.cp.pendingDnsReloadCache = entries
	n.cp.replayDnsReloadCache()
	e.Close()
	return n, nil
}

// ---- canonical private-state dump (read-only) ---------------------------------------------------------------

type VerifCacheEntryDump struct {
	Key           string
	Addrs         []netip.Addr
	DeadlineRel   int64 // Deadline - now (ns)
	OrigRel       int64 // OriginalDeadline - now
	DeadlineNano  int64 // deadlineNano - now, or -1<<62 when the field is 0 (never set)
	PackedTtl     uint32
	PackedRel     int64 // packedResponseCreatedAt - now (0 field => -1<<62)
	HasPacked     bool
	Refreshing    bool
	LastAccessRel int64 // lastAccessNano - now (0 field => -1<<62)
	RouteSyncRel  int64
	Bitmap        []uint32
	Owner         string
}

const verifNever = int64(-1) << 62

func verifRel(v, now int64) int64 {
	if v == 0 {
		return verifNever
	}
	return v - now
}

func (e *VerifDnsCtl) DumpCache() []VerifCacheEntryDump {
	now := vtime.Now().UnixNano()
	var out []VerifCacheEntryDump
	e.Ctrl.dnsCache.Range(func(k, v any) bool {
		ks, ok1 := k.(string)
		c, ok2 := v.(*DnsCache)
		if !ok1 || !ok2 {
			out = append(out, VerifCacheEntryDump{Key: fmt.Sprintf("BAD-TYPE %T/%T", k, v)})
			return true
		}
		d := VerifCacheEntryDump{Key: ks, DeadlineRel: c.Deadline.UnixNano() - now, OrigRel: c.OriginalDeadline.UnixNano() - now,
			DeadlineNano: verifRel(c.deadlineNano.Load(), now), PackedTtl: c.packedResponseTTL.Load(),
			PackedRel: verifRel(c.packedResponseCreatedAt.Load(), now), HasPacked: c.GetPackedResponse() != nil,
			Refreshing: c.refreshing.Load(), LastAccessRel: verifRel(c.lastAccessNano.Load(), now),
			RouteSyncRel: verifRel(c.lastRouteSyncNano.Load(), now), Owner: c.RouteOwnerKey}
		for _, rr := range c.Answer {
			if a, ok := verifRRIdent(rr); ok {
				d.Addrs = append(d.Addrs, a)
			}
		}
		nz := false
		for _, w := range c.DomainBitmap {
			if w != 0 {
				nz = true
			}
		}
		if nz {
			d.Bitmap = append([]uint32(nil), c.DomainBitmap...)
		}
		out = append(out, d)
		return true
	})
	sort.Slice(out, func(i, j int) bool { return out[i].Key < out[j].Key })
	return out
}

// DumpString: exact canonical rendering of the cache + knowledge table + janitor phase, all relative to now.
func (e *VerifDnsCtl) DumpString() string {
	now := vtime.Now().UnixNano()
	var sb strings.Builder
	for _, d := range e.DumpCache() {
		fmt.Fprintf(&sb, "%s=%v d%d o%d n%d p%d@%d/%v r%v a%d s%d b%v;", d.Key, d.Addrs, d.DeadlineRel, d.OrigRel, d.DeadlineNano, d.PackedTtl, d.PackedRel, d.HasPacked, d.Refreshing, d.LastAccessRel, d.RouteSyncRel, len(d.Bitmap) > 0)
	}
	var kn []string
	e.Ctrl.dnsKnowledge.Range(func(k, v any) bool {
		if exp, ok := v.(int64); ok {
			kn = append(kn, fmt.Sprintf("%v:%d", k, exp-now))
		}
		return true
	})
	sort.Strings(kn)
	var pend []string
	e.mu.Lock()
	for _, x := range e.exchanges {
		if x.DoneNs == 0 {
			pend = append(pend, fmt.Sprintf("%s|%s|%d@%d", x.Upstream, strings.ToLower(x.Name), x.Qtype, x.StartNs-now))
		}
	}
	e.mu.Unlock()
	sort.Strings(pend)
	fmt.Fprintf(&sb, "|kn=%v|phase=%d|pend=%v", kn, (now-e.createdNs)%int64(dnsCacheJanitorInterval), pend)
	return sb.String()
}

func (e *VerifDnsCtl) CacheKeys() []string {
	var out []string
	e.Ctrl.dnsCache.Range(func(k, v any) bool {
		out = append(out, fmt.Sprint(k))
		return true
	})
	sort.Strings(out)
	return out
}

// VerifDnsConstants exposes the thresholds the harness aims its clock at (read from the code, not used by the oracle).
func VerifDnsConstants() (janitorInterval time.Duration, ttlRefreshThreshold int, minBpf, maxBpf time.Duration) {
	return dnsCacheJanitorInterval, ttlRefreshThresholdSeconds, MinBpfUpdateInterval, MaxBpfUpdateInterval
}
