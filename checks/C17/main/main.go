// C17 — configuration text becomes exactly the configuration it spells, or a clean error.
// Bounded-exhaustive exploration of the real parser, typed-config builder, rule-program compilers and
// include merger against an independent reference reader (ref.go) written from the grammar.
//
//	leg grammar   every derivation within stated bounds x trivia at every token boundary   (shard processes)
//	leg nearmiss  every single-token deletion / duplication / adjacent swap of valid seeds (shard processes)
//	leg bytes     every byte string up to a length over a 21-symbol alphabet, in 4 contexts (shard processes)
//	leg typed     config.New structure matrix, rule-function matrix, size-limit programs    (stream workers:
//	              the optimizers spawn goroutines whose panics kill the process)
//	leg include   every include graph on 3 files + path-spelling/permission matrix           (in-process, inotify)
package main

import (
	"bufio"
	"bytes"
	"encoding/json"
	"flag"
	"fmt"
	"os"
	"os/exec"
	"sort"
	"strconv"
	"strings"
	"sync"
	"time"

	"github.com/daeuniverse/dae/verifx/vlib"
)

var (
	fProbe  = flag.Bool("c17probe", false, "read Go-quoted texts on stdin, print verdicts")
	fShard  = flag.String("c17shard", "", "internal: run one shard: leg,index,of")
	fStream = flag.Bool("c17stream", false, "internal: stream worker (cases on stdin, verdicts on stdout)")
	fLegs   = flag.String("c17legs", "grammar,nearmiss,bytes,typed,include", "legs to run")
)

func main() {
	flag.Parse()
	switch {
	case *fProbe:
		sc := bufio.NewScanner(os.Stdin)
		for sc.Scan() {
			t, err := strconv.Unquote(sc.Text())
			if err != nil {
				t = sc.Text()
			}
			v := checkText(t, "")
			fmt.Printf("%q accept=%v kind=%q sig=%q\n   canon=%s\n   detail=%s\n", t, v.Accept, v.Kind, v.Sig, v.Canon, v.Detail)
		}
		return
	case *fShard != "":
		parts := strings.Split(*fShard, ",")
		i, _ := strconv.Atoi(parts[1])
		n, _ := strconv.Atoi(parts[2])
		secs, _ := strconv.Atoi(parts[4])
		runShard(parts[0], i, n, parts[3] == "thorough", time.Duration(secs)*time.Second)
		return
	case *fStream:
		runStreamWorker()
		return
	}

	r := vlib.Start("C17", "exploration")
	if r.ReplayArg != "" {
		replayFile(r.ReplayArg)
	}
	thorough := r.Thorough()
	r.Rule("grammar: every derivation within: sections<=2 (3 thorough), items per section<=2, params per function/annotation<=2, '&&' chains<=2 (3), value lists<=2 (3), nesting depth<=3; literal styles bare ID / bare NON_ID / '..' / \"..\"; with/without key, '!', annotation, outbound bare or function — the full product per single item (quick: members of a 2-chain take one parameter from {bare,'..'}x{keyed,plain}x{!,plain}); two-item sections = every item shape x 4 (10) representative neighbours in both orders; nested and multi-section programs over 10 representative items. Each derivation is spelled compactly and fully spaced, and single-item/nested/multi-section ones additionally with each of 6 (8) kinds of white space / comment inserted at every token boundary, one at a time (thorough: also at the junction of two-item sections). nearmiss: every single-token delete / duplicate / adjacent swap of " + strconv.Itoa(len(nearMissSeeds)) + " valid seeds, on the visible tokens (re-spaced) and on all tokens incl. white space and comments (concatenated), each mutant alone and after a valid leading section; thorough adds all pairs of such mutations on visible tokens (after a valid leading section). bytes: every string of length<=4 (5) over 21 symbols bare and <=4 inside the body of a section that follows a valid one, <=3 (4) in six inner contexts (first-section body; after a valid section: rule parameter list, declaration value, outbound parameter list, annotation, outbound position). typed: config.New structure matrix, rule function(16) x key(11) x value(12/27) x negation matrix through the production optimizer chain into the traffic, DNS-request and DNS-response compilers, outbound/fallback variants, programs of 1022..1026 and 2048 match sets in 5 shapes (+DNS). include: all 4096 ordered include graphs on 3 files; path spelling as a graph dimension — the full per-edge product of 6 spellings (relative, ./relative, absolute, absolute with /./, with //, with sub/../) on 9 canonical cyclic / repeated-inclusion / chain shapes (thorough: all 4096 graphs again in each non-plain spelling); every Merge runs in a child process under a non-termination guard (a file opened > 64 times during one Merge); + 97-case path-spelling / file-kind / permission matrix on a real directory tree. A case is one distinct text (duplicates are dropped before evaluation) or one file tree / configuration; a text case is NON-TRIVIAL when it is lexically well-formed and has at least two parser-visible tokens (it gets past the lexer and gives parser and walker something to do); typed and include cases are all distinct by construction and non-trivial; distinct_nontrivial is the measured count of such cases, evaluations counts every executed case incl. lexically broken texts.")
	legs := map[string]bool{}
	for _, l := range strings.Split(*fLegs, ",") {
		legs[l] = true
	}
	evals := r.Counter("evaluations")
	var distinct int64
	harnessBroken := false

	for _, leg := range []string{"grammar", "nearmiss", "bytes", "include"} {
		if !legs[leg] {
			continue
		}
		legStart := time.Now()
		results, crashes := runShards(r, leg, thorough)
		r.Set(leg+"_wall_s", int(time.Since(legStart).Seconds()))
		var acc, rej, base, shapes, ev, dist int64
		merged := map[string]*shardViol{}
		summed := map[string]int64{}
		for _, res := range results {
			ev += res.Evaluations
			dist += res.Distinct
			acc += res.Accepted
			rej += res.Rejected
			shapes += res.Shapes
			if res.Base > base {
				base = res.Base
			}
			for _, h := range res.Harness {
				harnessBroken = true
				fmt.Fprintf(os.Stderr, "HARNESS ERROR leg=%s: %s\n  input=%q\n  %s\n", leg, h.Sig, h.Input, h.Detail)
			}
			for i := range res.Viol {
				v := res.Viol[i]
				e := merged[v.Sig]
				if e == nil {
					merged[v.Sig] = &v
					continue
				}
				e.Count += v.Count
				if better(v.Input, e.Input) {
					e.Input, e.Detail = v.Input, v.Detail
				}
			}
			if res.Capped {
				r.CapHit("leg " + leg + " stopped at its internal deadline (machine too slow/loaded): not all enumerated cases were evaluated")
			}
			if res.Extra["inotify_unavailable"] != 0 {
				r.CapHit("inotify unavailable: 'never opened' was only checked through merged content (decoy markers)")
			}
			for _, s := range res.Samples {
				// a few written-out cases per leg (the evidence keeps six in total)
				if (leg == "grammar" && res.Shard == 0) || leg == "include" || ((leg == "nearmiss" || leg == "bytes") && res.Shard == 0 && s == res.Samples[0]) {
					r.Sample(map[string]any{"leg": leg, "text": s})
				}
			}
			if res.Extra["merge_guard_stalls"] != 0 {
				r.CapHit("include leg: a Merge() neither finished nor met the non-termination criterion within the 10 min hang guard (no verdict for that case)")
			}
			for k, v := range res.Extra {
				if k == "merge_guard_stalls" || k == "repeated_inclusion_rejected" { // per-shard counts: summed
					summed[k] += v
					continue
				}
				r.Set(leg+"_"+k, v)
			}
		}
		for k, v := range summed {
			r.Set(leg+"_"+k, v)
		}
		evals.Add(ev)
		distinct += dist
		r.Set(leg+"_texts", ev)
		r.Set(leg+"_nontrivial", dist)
		r.Set(leg+"_accepted", acc)
		r.Set(leg+"_rejected", rej)
		r.Set(leg+"_base_cases", base)
		r.Set(leg+"_distinct_trees_upper", shapes)
		for _, cr := range crashes {
			r.Violation("worker process died leg="+leg+" "+cr.site, map[string]any{"leg": leg, "shard": cr.shard, "stderr_tail": cr.tail})
		}
		sigs := make([]string, 0, len(merged))
		for s := range merged {
			sigs = append(sigs, s)
		}
		sort.Strings(sigs)
		for _, s := range sigs {
			v := merged[s]
			r.Violation(v.Sig+" leg="+leg, map[string]any{"leg": leg, "minimal_input": v.Input, "inputs_with_this_signature": v.Count, "detail": v.Detail})
		}
	}
	if harnessBroken {
		fmt.Fprintln(os.Stderr, "C17: the harness contradicts itself (see HARNESS ERROR lines); the check cannot decide")
		os.Exit(2)
	}
	if legs["typed"] {
		legStart := time.Now()
		n := legTyped(r, thorough)
		distinct += n
		r.Set("typed_wall_s", int(time.Since(legStart).Seconds()))
	}
	includeAssumptions(r)
	r.Set("distinct_nontrivial", distinct)
	r.Assume("the reference reader (ref.go) is written from the published grammar: lexer rules were recovered from the serialized ATN shipped in module dae-config-dist (no .g4 in the module cache), parser rules from the generated parser's rule functions; maximal munch with first-rule tie-break, non-greedy string/comment bodies as ANTLR defines them")
	r.Assume("a value list 'k: a, b' is represented by the data model as one string joined with ',' (Param.Val); the reference accepts that representation, so a quoted comma is indistinguishable from a separator at this layer")
	r.Assume("an empty parameter list f() / empty annotation [] must be rejected (it has no representation in the result); this is what the production walker intends ('empty parameter list')")
	r.Assume("parse-only legs run one parser per OS process (never two goroutines in the ANTLR runtime at once), as production does")
	r.Finish()
}

// legBudget: internal deadline of one sharded leg (a cap, never an oracle). -budget scales all of them.
func legBudget(r *vlib.Run, leg string) time.Duration {
	q, t := 300*time.Second, 600*time.Second
	if leg == "grammar" {
		t = 1500 * time.Second
	}
	if leg == "bytes" {
		t = 900 * time.Second
	}
	return r.Budget(q, t)
}

type crash struct {
	shard int
	site  string
	tail  string
}

func runShards(r *vlib.Run, leg string, thorough bool) ([]*shardResult, []crash) {
	n := r.Workers
	results := make([]*shardResult, n)
	var crashes []crash
	var mu sync.Mutex
	var wg sync.WaitGroup
	tier := "quick"
	if thorough {
		tier = "thorough"
	}
	for i := 0; i < n; i++ {
		wg.Add(1)
		go func(i int) {
			defer wg.Done()
			cmd := exec.Command(os.Args[0], "-c17shard", fmt.Sprintf("%s,%d,%d,%s,%d", leg, i, n, tier, int(legBudget(r, leg).Seconds())))
			var out, errb bytes.Buffer
			cmd.Stdout, cmd.Stderr = &out, &errb
			err := cmd.Run()
			var res shardResult
			if err == nil {
				err = json.Unmarshal(bytes.TrimSpace(out.Bytes()), &res)
			}
			mu.Lock()
			defer mu.Unlock()
			if err != nil {
				tail := errb.String()
				site := vlib.PanicSite(tail)
				if len(tail) > 4000 {
					tail = tail[:2000] + "\n...\n" + tail[len(tail)-2000:]
				}
				crashes = append(crashes, crash{i, "site=" + site, err.Error() + "\n" + tail})
				results[i] = &shardResult{}
				return
			}
			results[i] = &res
		}(i)
	}
	wg.Wait()
	sort.Slice(crashes, func(a, b int) bool { return crashes[a].shard < crashes[b].shard })
	return results, crashes
}
