// C19 — kernel and control plane agree on every shared structure, constant and map key.
// Finite space, enumerated completely (level: exploration, exhaustive): see layout.go, consts.go, keys.go.
// Engine K (kdrv: tproxy.c compiled natively, /verif/kshim) supplies the C compiler's layout and executes the C
// key computations; package control (real-mode build) supplies the Go side.
package main

import (
	"fmt"
	"os"
	"path/filepath"
	"strings"

	"github.com/daeuniverse/dae/verifx/vkern"
	"github.com/daeuniverse/dae/verifx/vlib"
)

type checker struct {
	r    *vlib.Run
	lay  *vkern.Layout
	repo string
	work string
	perLeg map[string]int
	mirrored map[string]bool // C records seen through a Go counterpart (directly or nested)
}

func (c *checker) item(key, outcome string) {
	c.r.Counter("evaluations").Add(1)
	if i := strings.IndexByte(key, ':'); i > 0 {
		c.r.Counter("items_" + key[:i]).Add(1)
	}
	c.r.Distinct(key)
	_ = outcome
}

func (c *checker) viol(leg, sig string, detail any) {
	c.perLeg[leg]++
	c.r.Violation(sig, detail)
}

// broken: the check itself cannot decide (engine missing, protocol failure) -> exit 2, never a verdict.
func (c *checker) broken(f string, a ...any) {
	fmt.Fprintf(os.Stderr, "C19: check broken: "+f+"\n", a...)
	os.Exit(2)
}

func main() {
	r := vlib.Start("C19", "exploration")
	c := &checker{r: r, perLeg: map[string]int{}, mirrored: map[string]bool{}}
	c.repo = os.Getenv("VERIF_REPO")
	if c.repo == "" {
		c.repo = "/repo"
	}
	c.work = os.Getenv("VERIF_WORKDIR")
	if c.work == "" {
		c.work = "/verif/.work/C19"
	}
	kdrv := vkern.KdrvPath()
	if _, err := os.Stat(kdrv); err != nil {
		c.broken("kdrv not built (%s): run through /verif/run so that checks/C19/prebuild runs", kdrv)
	}
	if _, err := os.Stat(filepath.Join(c.work, "gen_ebpf_sync")); err != nil {
		c.broken("generator binary missing in %s", c.work)
	}
	lay, err := vkern.ReadLayout(kdrv)
	if err != nil {
		c.broken("%v", err)
	}
	c.lay = lay
	if lay.ABI.Pointer != 8 || lay.ABI.Int != 4 || lay.ABI.LittleEndian != 1 {
		c.broken("unexpected host ABI %+v: the native build no longer matches the bpfel ABI assumptions", lay.ABI)
	}
	r.Rule("finite space enumerated completely: (1) every C struct/union reachable from a map key/value, the load-time constant or defined in tproxy.c/ebpf_sync_defs.h (found from the clang AST) x every Go bpf* data struct of package control (found from go/ast; compiled, stub-shadowed and the PARAM literal) compared field by field (offset,size,element size,padding) + every ebpf tag + every map size assumption; " +
		"(2) every constant of ebpf_sync_spec.json x ebpf_generated.go x ebpf_sync_defs.h + shared limits + byte-for-byte regeneration; " +
		"(3) key constructors: 8 address pairs x 16 port pairs x tcp/udp x 4 hooks x 2 parse paths x Go input forms; reply-direction tuple keys (copy_reversed_tuples): 4 address pairs x 16 port pairs x tcp/udp x 4 reply hooks x 2 parse paths, entry creation and refresh of a forward flow; 256 outbounds x 3 domains x 2 families; 21 prefixes x boundary probes x src/dst; 9 addresses x 5 rule bits; 4 listener slots; lpm_array_map keys: 7 programs (mac/dip/sip alone, mixed, AND) x ring cursors {0,1,5,Max/2,Max-1,Max-2,Max-count,Max-count+1} x every LPM-backed rule index + real route() on 4 MACs x 8 address pairs; process-name field (pid_pname.pname / match_set.pname, limit TASK_COMM_LEN): every name length 1..LIMIT+4 and 2*LIMIT-1..2*LIMIT+1 (thorough 1..4*LIMIT) + 7 real names x 4 (thorough 6) ways the process was started x argv / comm source: bytes the real sock_create program records vs bytes the production builder writes for pname(N) vs the first LIMIT bytes of N, then real route() and the userspace matcher on N and 4 neighbours of N. " +
		"A case is one compared item (field, constant, key); distinct_nontrivial counts distinct item identities")
	r.Assume("the C side is tproxy.c compiled natively for x86-64 (LP64, little-endian, natural alignment, 4-byte enums, 1-byte packed enum): identical to the bpfel ABI for every type involved; no verifier/JIT")
	r.Assume("the real bpf2go output (bpf_bpfel.go) does not exist in this tree; its role is played by control/bpf_stub.go (+ bpf_utils.go in the real-mode build), which is what this tree compiles")
	r.Assume("map size assumptions of the control plane are the table VerifC19MapAssumptions (sizes taken by the Go compiler from the types/functions the production code uses; code sites listed per row)")

	c.legLayout()
	c.legConsts()

	k, err := vkern.Start()
	if err != nil {
		c.broken("%v", err)
	}
	c.legTuples(k)
	c.legReply(k)
	c.legSlots(k)
	c.legPrefixes(k)
	c.legDomains(k)
	c.legListeners(k)
	c.legRing(k)
	c.legPname(k)
	if err := k.Close(); err != nil {
		c.broken("kdrv exited abnormally: %v\n%s", err, k.Stderr())
	}
	for _, leg := range []string{"layout", "consts", "tuples", "reply", "slots", "prefixes", "domains", "listeners", "ring", "pname"} {
		r.Set("violations_"+leg, c.perLeg[leg])
	}
	r.Sample(map[string]any{"leg": "layout", "example": "struct conn_state <-> bpfConnState", "c_size": lay.Record("struct conn_state").Size})
	r.Sample(map[string]any{"leg": "consts", "example": "OUTBOUND_LOGICAL_MASK", "c": lay.Defines["OUTBOUND_LOGICAL_MASK"].Value})
	r.Finish()
}
