package main

// A pipelined client of kdrv (engine K) speaking the wire protocol documented in /verif/kshim/README.md.
// lib/vkern is strictly request/response; under load one pipe round trip costs milliseconds of scheduling latency and
// this check needs ~10^7 operations, so whole scripts of requests are written at once and the responses read back in
// order (kdrv serves requests sequentially from its stdin, so the semantics are exactly those of vkern).

import (
	"bufio"
	"bytes"
	"encoding/binary"
	"fmt"
	"io"
	"os/exec"

	"github.com/daeuniverse/dae/verifx/vkern"
)

const (
	opHello     = 0x01
	opReset     = 0x02
	opMapUpdate = 0x03
	opMapDelete = 0x05
	opMapDump   = 0x06
	opMapFault  = 0x0b
	opParamSet  = 0x10
	opSetTime   = 0x12
	opSetTask   = 0x13
	opSetSocks  = 0x14
	opSetKnobs  = 0x15
	opInject    = 0x21
	opSnapshot  = 0x30
	opRestore   = 0x31
	opSnapFree  = 0x32
)

type wb struct{ b []byte }

func (w *wb) u8(v uint8)    { w.b = append(w.b, v) }
func (w *wb) u16(v uint16)  { w.b = binary.LittleEndian.AppendUint16(w.b, v) }
func (w *wb) u32(v uint32)  { w.b = binary.LittleEndian.AppendUint32(w.b, v) }
func (w *wb) u64(v uint64)  { w.b = binary.LittleEndian.AppendUint64(w.b, v) }
func (w *wb) str(s string)  { w.u16(uint16(len(s))); w.b = append(w.b, s...) }
func (w *wb) raw(p []byte)  { w.b = append(w.b, p...) }
func (w *wb) blob(p []byte) { w.u32(uint32(len(p))); w.b = append(w.b, p...) }

type rb struct {
	b   []byte
	bad bool
}

func (r *rb) take(n int) []byte {
	if n < 0 || n > len(r.b) {
		r.bad = true
		r.b = nil
		return make([]byte, n&0xffff)
	}
	p := r.b[:n]
	r.b = r.b[n:]
	return p
}
func (r *rb) u8() uint8          { return r.take(1)[0] }
func (r *rb) u16() uint16        { return binary.LittleEndian.Uint16(r.take(2)) }
func (r *rb) u32() uint32        { return binary.LittleEndian.Uint32(r.take(4)) }
func (r *rb) i32() int32         { return int32(r.u32()) }
func (r *rb) u64() uint64        { return binary.LittleEndian.Uint64(r.take(8)) }
func (r *rb) str() string        { return string(r.take(int(r.u16()))) }
func (r *rb) blob() []byte       { return append([]byte(nil), r.take(int(r.u32()))...) }
func (r *rb) bytes(n int) []byte { return append([]byte(nil), r.take(n)...) }

type mapSize struct{ key, val int }

type kc struct {
	cmd    *exec.Cmd
	in     io.WriteCloser
	out    *bufio.Reader
	stderr bytes.Buffer
	sizes  map[string]mapSize
}

// script: a list of requests with one response handler each.
type script struct {
	buf      []byte
	handlers []func(status int32, r *rb)
	what     []string
}

func (s *script) add(op uint8, body []byte, what string, h func(status int32, r *rb)) {
	s.buf = binary.LittleEndian.AppendUint32(s.buf, uint32(1+len(body)))
	s.buf = append(s.buf, op)
	s.buf = append(s.buf, body...)
	s.handlers = append(s.handlers, h)
	s.what = append(s.what, what)
}

func startKdrv(path string) (*kc, error) {
	k := &kc{cmd: exec.Command(path), sizes: map[string]mapSize{}}
	k.cmd.Stderr = &k.stderr
	in, err := k.cmd.StdinPipe()
	if err != nil {
		return nil, err
	}
	out, err := k.cmd.StdoutPipe()
	if err != nil {
		return nil, err
	}
	if err := k.cmd.Start(); err != nil {
		return nil, fmt.Errorf("start %s: %w", path, err)
	}
	k.in = in
	k.out = bufio.NewReaderSize(out, 1<<20)
	var s script
	s.add(opHello, nil, "hello", func(st int32, r *rb) {
		if v := r.u32(); v != 1 {
			broken("kdrv protocol version %d", v)
		}
		n := int(r.u32())
		for i := 0; i < n; i++ {
			name := r.str()
			r.u32() // id
			r.u32() // type
			ks, vs := r.u32(), r.u32()
			r.take(4 * 3)
			r.take(4 * 5)
			k.sizes[name] = mapSize{int(ks), int(vs)}
		}
	})
	k.run(&s)
	return k, nil
}

func (k *kc) close() error {
	k.in.Close()
	return k.cmd.Wait()
}

// run writes the whole script and reads the responses in order. A non-zero status is fatal unless the handler
// accepts a status (handlers get it).
func (k *kc) run(s *script) {
	errc := make(chan error, 1)
	go func() {
		_, err := k.in.Write(s.buf)
		errc <- err
	}()
	var hdr [8]byte
	for i, h := range s.handlers {
		if _, err := io.ReadFull(k.out, hdr[:]); err != nil {
			k.cmd.Wait()
			broken("kdrv died (%v) during %q; stderr:\n%s", err, s.what[i], k.stderr.String())
		}
		n := binary.LittleEndian.Uint32(hdr[:4])
		st := int32(binary.LittleEndian.Uint32(hdr[4:]))
		if n < 4 {
			broken("kdrv: short response")
		}
		body := make([]byte, n-4)
		if _, err := io.ReadFull(k.out, body); err != nil {
			broken("kdrv died (%v) during %q; stderr:\n%s", err, s.what[i], k.stderr.String())
		}
		r := &rb{b: body}
		if st != 0 {
			msg := r.str()
			if h == nil {
				broken("kdrv: %s failed: %s (code %d)", s.what[i], msg, st)
			}
			h(st, &rb{b: []byte(msg)})
			continue
		}
		if h != nil {
			h(0, r)
			if r.bad {
				broken("kdrv: malformed response to %s", s.what[i])
			}
		}
	}
	if err := <-errc; err != nil {
		broken("kdrv: write failed: %v\n%s", err, k.stderr.String())
	}
}

// ---- request builders -------------------------------------------------------------------------------------------

func (s *script) reset() { s.add(opReset, nil, "reset", nil) }

func (s *script) mapUpdate(m string, keys, vals [][]byte) {
	var w wb
	w.str(m)
	w.u64(vkern.BPF_ANY)
	w.u32(uint32(len(keys)))
	for i := range keys {
		w.raw(keys[i])
		w.raw(vals[i])
	}
	n := len(keys)
	s.add(opMapUpdate, w.b, "update "+m, func(st int32, r *rb) {
		if st != 0 {
			broken("map %s: update failed: %s", m, string(r.b))
		}
		for i := 0; i < n; i++ {
			if rc := r.i32(); rc != 0 {
				broken("map %s rejects entry %d written by the harness: rc=%d", m, i, rc)
			}
		}
	})
}

func (s *script) mapDelete(m string, key []byte) {
	var w wb
	w.str(m)
	w.u32(1)
	w.raw(key)
	s.add(opMapDelete, w.b, "delete "+m, func(st int32, r *rb) {
		if st != 0 {
			broken("map %s: delete failed: %s", m, string(r.b))
		}
		r.i32() // -ENOENT is fine
	})
}

func (s *script) mapFault(m string, errno int32) {
	var w wb
	w.str(m)
	w.u32(uint32(errno))
	s.add(opMapFault, w.b, "fault "+m, nil)
}

func (s *script) mapDump(k *kc, m string, nonzero bool, out *[]vkern.Entry) {
	var w wb
	w.str(m)
	if nonzero {
		w.u8(1)
	} else {
		w.u8(0)
	}
	sz, ok := k.sizes[m]
	if !ok {
		broken("kdrv has no map %s", m)
	}
	s.add(opMapDump, w.b, "dump "+m, func(st int32, r *rb) {
		if st != 0 {
			broken("map %s: dump failed: %s", m, string(r.b))
		}
		n := int(r.u32())
		es := make([]vkern.Entry, 0, n)
		for i := 0; i < n; i++ {
			es = append(es, vkern.Entry{Key: r.bytes(sz.key), Value: r.bytes(sz.val)})
		}
		*out = es
	})
}

func (s *script) setParam(b []byte, onErr func(msg string)) {
	var w wb
	w.blob(b)
	s.add(opParamSet, w.b, "set PARAM", func(st int32, r *rb) {
		if st != 0 {
			onErr(string(r.b))
		}
	})
}

func (s *script) setTime(now uint64) {
	var w wb
	w.u64(now)
	w.u64(0)
	s.add(opSetTime, w.b, "set time", nil)
}

func (s *script) setTask(pidTgid uint64, comm [16]byte, args string) {
	var w wb
	w.u64(pidTgid)
	w.raw(comm[:])
	w.str(args)
	w.u32(0)
	s.add(opSetTask, w.b, "set task", nil)
}

func (s *script) setSocks(socks []vkern.Sock) {
	var w wb
	w.u32(uint32(len(socks)))
	for _, x := range socks {
		w.u32(x.ID)
		w.u8(x.Family)
		w.u8(x.Proto)
		w.u8(x.State)
		w.u8(x.Flags)
		w.raw(x.Local[:])
		w.raw(x.Remote[:])
		w.u16(x.LPort)
		w.u16(x.RPort)
		w.u32(x.Mark)
		w.u32(x.Netns)
		w.u64(x.Cookie)
	}
	s.add(opSetSocks, w.b, "set socks", nil)
}

func (s *script) setKnobs(pullMode uint32) {
	var w wb
	w.u32(pullMode)
	w.u32(0)
	w.u32(0)
	w.u32(daeNetns)
	s.add(opSetKnobs, w.b, "set knobs", nil)
}

func (s *script) inject(hook string, skb *vkern.Skb, out **vkern.Verdict) {
	var w wb
	w.str(hook)
	w.u32(skb.Ifindex)
	w.u32(skb.IngressIfindex)
	w.u32(skb.Mark)
	w.u32(uint32(skb.Protocol))
	w.u32(skb.PktType)
	for _, c := range skb.Cb {
		w.u32(c)
	}
	w.u64(skb.Cookie)
	w.u32(skb.Linear)
	w.blob(skb.Frame)
	s.add(opInject, w.b, "inject "+hook, func(st int32, r *rb) {
		if st != 0 {
			broken("inject %s failed: %s", hook, string(r.b))
		}
		v := &vkern.Verdict{}
		v.Ret = r.i32()
		v.Mark = r.u32()
		v.PktType = r.u32()
		for i := range v.Cb {
			v.Cb[i] = r.u32()
		}
		v.RedirectKind = r.u8()
		v.RedirectIfindex = r.u32()
		v.RedirectFlags = r.u64()
		v.AssignedSock = r.i32()
		v.SkRefBalance = r.i32()
		v.Pulls = r.u32()
		v.PullFails = r.u32()
		v.LoadBytesCalls = r.u32()
		v.Linear = r.u32()
		v.Frame = r.blob()
		if out != nil {
			*out = v
		}
	})
}

func (s *script) snapshot(out *uint32) {
	s.add(opSnapshot, nil, "snapshot", func(st int32, r *rb) {
		if st != 0 {
			broken("snapshot failed: %s", string(r.b))
		}
		*out = r.u32()
	})
}

func (s *script) restore(id uint32) {
	var w wb
	w.u32(id)
	s.add(opRestore, w.b, "restore", nil)
}

func (s *script) snapFree(id uint32) {
	var w wb
	w.u32(id)
	s.add(opSnapFree, w.b, "snapfree", nil)
}
