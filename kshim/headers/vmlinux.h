/* kshim: stand-in for the bpftool-generated vmlinux.h. The uapi structures come from
 * /usr/include/linux (the same definitions a BPF build sees); only what uapi lacks is added. */
#ifndef KSHIM_VMLINUX_H
#define KSHIM_VMLINUX_H
#include <stddef.h>
#include <stdbool.h>
#include <linux/types.h>
#include <linux/bpf.h>
#include <linux/if_ether.h>
#include <linux/ip.h>
#include <linux/ipv6.h>
#include <linux/tcp.h>
#include <linux/udp.h>
#include <linux/icmpv6.h>
#include <linux/in.h>
#include <linux/in6.h>
#include <linux/pkt_cls.h>

typedef __u8 u8;
typedef __u16 u16;
typedef __u32 u32;
typedef __u64 u64;
typedef __s8 s8;
typedef __s16 s16;
typedef __s32 s32;
typedef __s64 s64;

/* include/net/ipv6.h (kernel internal, identical layout) */
struct frag_hdr {
	__u8 nexthdr;
	__u8 reserved;
	__be16 frag_off;
	__be32 identification;
};

/* Only the members tproxy.c reaches through BPF_CORE_READ(task, mm, arg_start). */
struct mm_struct {
	unsigned long arg_start;
};
struct task_struct {
	struct mm_struct *mm;
};
#endif
