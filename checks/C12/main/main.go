// C12 — address sets match by CIDR containment, in userspace and in kernel key form.
// Bounded-exhaustive enumeration (engine Q): every prefix set of size <= K over a closed pool of
// boundary prefixes x every boundary probe derived from the set itself, decided four ways:
//
//	ref   : containment written from the property text (v4 as v4-mapped)
//	trie  : pkg/trie  NewTrieFromPrefixes + HasPrefix(Prefix2bin128(addr/full))
//	kern  : Linux LPM-trie lookup semantics over the bytes cidrToBpfLpmKey emits (real-mode encoder)
//	route : rule text -> parser -> config.New -> builder -> BuildUserspace -> ControlPlane.Route
//
// plus the storage-sharing clause on rule pairs.
package main

import (
	"encoding/binary"
	"fmt"
	"net/netip"
	"sort"
	"strings"

	"github.com/daeuniverse/dae/common/consts"
	"github.com/daeuniverse/dae/component/routing"
	"github.com/daeuniverse/dae/control"
	"github.com/daeuniverse/dae/pkg/config_parser"
	"github.com/daeuniverse/dae/pkg/trie"
	"github.com/daeuniverse/dae/verifx/vlib"
)

var pool = []string{
	"0.0.0.0/0", "0.0.0.0/1", "128.0.0.0/1", "10.0.0.0/8", "10.1.2.0/24", "10.1.2.77/24", "10.1.2.2/31", "10.1.2.3/32",
	"255.255.255.255/32", "10.1.3.0/24",
	"::/0", "::/1", "8000::/1", "2001:db8::/64", "2001:db8::/127", "2001:db8::1/128", "2001:db8:0:1::/64",
	"::ffff:10.1.2.0/120", "::ffff:0:0/96", "ffff:ffff:ffff:ffff:ffff:ffff:ffff:ffff/128", "::/128", "::ffff:10.1.2.3/128",
}

func to16(p netip.Prefix) (a [16]byte, bits int) {
	bits = p.Bits()
	if p.Addr().Is4() {
		bits += 96
	}
	return p.Addr().As16(), bits
}

func leadingEqual(a, b [16]byte, bits int) bool {
	for i := 0; i < bits; i++ {
		if (a[i/8]>>(7-uint(i%8)))&1 != (b[i/8]>>(7-uint(i%8)))&1 {
			return false
		}
	}
	return true
}

// refContains: the property text — set matches iff some prefix contains the address, v4 as v4-mapped.
func refContains(set []netip.Prefix, addr [16]byte) bool {
	for _, p := range set {
		a, bits := to16(p)
		if leadingEqual(a, addr, bits) {
			return true
		}
	}
	return false
}

// kernLookup: Linux BPF_MAP_TYPE_LPM_TRIE semantics over raw key bytes: a lookup key with prefixlen 128
// and data = address in network byte order matches iff a stored key's first prefixlen bits of data
// (byte order in memory, MSB first) equal the lookup's.
func kernLookup(keys [][]byte, addr [16]byte) bool {
	for _, k := range keys {
		if len(k) != 20 {
			return false
		}
		plen := int(binary.LittleEndian.Uint32(k[:4])) // host order u32 on x86-64 / bpfel
		if plen > 128 {
			continue // kernel rejects such a key at update time: never matches
		}
		var d [16]byte
		copy(d[:], k[4:])
		if leadingEqual(d, addr, plen) {
			return true
		}
	}
	return false
}

func addDelta(a [16]byte, d int) ([16]byte, bool) {
	// +1 / -1 on the 128-bit big-endian integer; ok=false on wrap
	if d > 0 {
		for i := 15; i >= 0; i-- {
			a[i]++
			if a[i] != 0 {
				return a, true
			}
		}
		return a, false
	}
	for i := 15; i >= 0; i-- {
		a[i]--
		if a[i] != 0xff {
			return a, true
		}
	}
	return a, false
}

func firstLast(p netip.Prefix) (first, last [16]byte) {
	a, bits := to16(p)
	first, last = a, a
	for i := bits; i < 128; i++ {
		first[i/8] &^= 1 << (7 - uint(i%8))
		last[i/8] |= 1 << (7 - uint(i%8))
	}
	return
}

func probesFor(set []netip.Prefix) [][16]byte {
	seen := map[[16]byte]bool{}
	var out [][16]byte
	add := func(a [16]byte) {
		if !seen[a] {
			seen[a] = true
			out = append(out, a)
		}
	}
	for _, p := range set {
		f, l := firstLast(p)
		add(f)
		add(l)
		if b, ok := addDelta(f, -1); ok {
			add(b)
		}
		if b, ok := addDelta(l, +1); ok {
			add(b)
		}
		a, _ := to16(p)
		add(a)
	}
	// fixed probes present for every set (so /0 sets and empty intersections are exercised)
	for _, s := range []string{"2001:db8::1", "::ffff:1.1.1.1", "::", "fe80::1", "::ffff:10.1.2.3", "::1:0:0"} {
		add(netip.MustParseAddr(s).As16())
	}
	return out
}

func parseSet(ss []string) []netip.Prefix {
	var out []netip.Prefix
	for _, s := range ss {
		out = append(out, netip.MustParsePrefix(s))
	}
	return out
}

func subsets(n, maxK int, fn func(idx []int)) {
	var rec func(start int, cur []int)
	rec = func(start int, cur []int) {
		if len(cur) > 0 {
			fn(append([]int(nil), cur...))
		}
		if len(cur) == maxK {
			return
		}
		for i := start; i < n; i++ {
			rec(i+1, append(cur, i))
		}
	}
	rec(0, nil)
}

func addrForms(a [16]byte) []netip.Addr {
	ad := netip.AddrFrom16(a)
	out := []netip.Addr{ad}
	if ad.Is4In6() {
		out = append(out, ad.Unmap())
	}
	return out
}

func confText(routing string) string {
	return "global{}\ngroup{ g1{policy:min} g2{policy:min} }\nrouting{\n" + routing + "\nfallback: direct\n}\n"
}

func main() {
	r := vlib.Start("C12", "exploration")
	maxK := 3
	if r.Thorough() {
		maxK = 4
	}
	r.Rule("every subset of size<=K of a closed pool of boundary prefixes (v4 /0,/1,/8,/24,/31,/32, unmasked; v6 /0,/1,/64,/127,/128; v4-mapped /96,/120,/128) x probes = first/last inside and both neighbours outside every prefix of the set (plus fixed probes) in 16-byte, and for v4-mapped also 4-byte, form; a case is (set, probe); distinct_nontrivial counts distinct (set,probe,expected) with a non-empty set")
	var sets [][]string
	subsets(len(pool), maxK, func(idx []int) {
		var s []string
		for _, i := range idx {
			s = append(s, pool[i])
		}
		sets = append(sets, s)
	})
	// duplicated entries and order permutations of a few sets
	sets = append(sets, []string{"10.1.2.0/24", "10.1.2.0/24"}, []string{"10.1.2.3/32", "10.1.2.0/24", "10.1.2.3/32"},
		[]string{"2001:db8::/64", "10.0.0.0/8", "2001:db8::/64"}, []string{"::/0", "0.0.0.0/0"})
	evals := r.Counter("evaluations")
	posHits := r.Counter("positive_expected")
	r.Set("sets", len(sets))
	r.Set("K", maxK)

	// Leg 1+2+3: ref vs trie vs kernel-key form
	r.ParallelFor(len(sets), func(i int) {
		ss := sets[i]
		set := parseSet(ss)
		var t *trie.Trie
		var terr error
		if p, msg := vlib.Try(func() { t, terr = trie.NewTrieFromPrefixes(set) }); p {
			r.Violation(fmt.Sprintf("leg=trie-build panic set=%v", ss), msg)
			return
		}
		if terr != nil {
			r.Violation(fmt.Sprintf("leg=trie-build error set=%v", ss), terr.Error())
			return
		}
		var keys [][]byte
		for _, p := range set {
			keys = append(keys, control.VerifLpmKeyBytes(p))
		}
		nviol := 0
		for _, pr := range probesFor(set) {
			want := refContains(set, pr)
			if want {
				posHits.Add(1)
			}
			r.Distinct(fmt.Sprintf("%v|%x|%v", ss, pr, want))
			for _, form := range addrForms(pr) {
				evals.Add(1)
				var got bool
				if p, msg := vlib.Try(func() {
					got = t.HasPrefix(trie.Prefix2bin128(netip.PrefixFrom(form, form.BitLen())))
				}); p {
					r.Violation(fmt.Sprintf("leg=trie panic set=%v probe=%v", ss, form), msg)
					continue
				}
				if got != want && nviol < 3 {
					nviol++
					r.Violation(fmt.Sprintf("leg=trie set=%v probe=%v want=%v got=%v", ss, form, want, got),
						map[string]any{"set": ss, "probe": form.String(), "want": want, "got": got, "leg": "userspace trie vs reference containment"})
				}
			}
			evals.Add(1)
			if got := kernLookup(keys, pr); got != want && nviol < 6 {
				nviol++
				r.Violation(fmt.Sprintf("leg=kernkey set=%v probe=%v want=%v got=%v", ss, netip.AddrFrom16(pr), want, got),
					map[string]any{"set": ss, "probe": netip.AddrFrom16(pr).String(), "want": want, "got": got, "keys": fmt.Sprintf("%x", keys)})
			}
		}
		if i%997 == 0 {
			r.Sample(map[string]any{"set": ss, "probes": len(probesFor(set))})
		}
	})

	// Leg 4: through the production pipeline, and the sharing clause, on rule pairs.
	maxPair := 2
	var small [][]string
	subsets(len(pool), maxPair, func(idx []int) {
		var s []string
		for _, i := range idx {
			s = append(s, pool[i])
		}
		small = append(small, s)
	})
	// permuted/duplicated variants must canonicalise to the same storage
	small = append(small, []string{"10.1.2.0/24", "10.0.0.0/8"}, []string{"10.0.0.0/8", "10.0.0.0/8", "10.1.2.0/24"})
	type pair struct{ a, b int }
	var pairs []pair
	// spelling twins: a v4 prefix a.b.c.d/N and the v6 prefix written ::ffff:a.b.c.d/N (same N<=32, i.e. ::/N) have
	// the same 16 address bytes and the same number but are different sets; each must keep its own storage, in both rule orders.
	for _, ps := range pool {
		p := netip.MustParsePrefix(ps)
		if !p.Addr().Is4() {
			continue
		}
		twin := fmt.Sprintf("::ffff:%s/%d", p.Addr(), p.Bits())
		small = append(small, []string{ps}, []string{twin})
		pairs = append(pairs, pair{len(small) - 2, len(small) - 1}, pair{len(small) - 1, len(small) - 2})
	}
	r.Set("twin_pairs", len(pairs))
	step := 1
	if !r.Thorough() {
		step = 7 // quick: every set as first rule x every 7th as second (rotating offset) — still a full product over a sub-lattice
	}
	for a := range small {
		for b := (a % step); b < len(small); b += step {
			pairs = append(pairs, pair{a, b})
		}
	}
	r.Set("rule_pairs", len(pairs))
	shared := r.Counter("pairs_sharing_storage")
	src := netip.MustParseAddrPort("192.0.2.9:40000")
	r.ParallelFor(len(pairs), func(i int) {
		pa, pb := small[pairs[i].a], small[pairs[i].b]
		text := confText(fmt.Sprintf("dip(%s) -> g1\nsip(%s) -> g2", quoteAll(pa), quoteAll(pb)))
		var v *control.VerifRouting
		var err error
		if p, msg := vlib.Try(func() {
			v, err = control.VerifCompileRouting(text, []string{"g1", "g2"}, []routing.RulesOptimizer{&routing.AliasOptimizer{}})
		}); p {
			r.Violation(fmt.Sprintf("leg=route-build panic dip=%v sip=%v", pa, pb), msg)
			return
		}
		if err != nil {
			r.Violation(fmt.Sprintf("leg=route-build error dip=%v sip=%v", pa, pb), err.Error())
			return
		}
		rules := v.KernRules()
		if len(rules) != 3 {
			r.Violation(fmt.Sprintf("leg=route-build shape dip=%v sip=%v", pa, pb), rules)
			return
		}
		ia := binary.LittleEndian.Uint32(rules[0].Value[:4])
		ib := binary.LittleEndian.Uint32(rules[1].Value[:4])
		sa, sb := parseSet(pa), parseSet(pb)
		if ia == ib {
			shared.Add(1)
			if !sameSet(sa, sb) {
				r.Violation(fmt.Sprintf("leg=sharing dip=%v sip=%v share index %d", pa, pb, ia), "two rules share an LPM slot although their prefix sets differ")
			}
		}
		// the stored set for each rule must be equivalent to the written set (checked semantically below)
		nviol := 0
		probes := probesFor(append(append([]netip.Prefix{}, sa...), sb...))
		for _, pr := range probes {
			for _, form := range addrForms(pr) {
				// (1) packet to dst=probe from a source outside every pool prefix? there is none (/0 in pool), so compute reference fully
				dst := netip.AddrPortFrom(form, 443)
				evals.Add(1)
				want := refRoute(sa, sb, form, src.Addr())
				ob, _, _, rerr := v.Route(src, dst, "", consts.L4ProtoType_TCP, [16]uint8{}, [6]uint8{}, 0)
				if (rerr != nil || ob != want) && nviol < 3 {
					nviol++
					r.Violation(fmt.Sprintf("leg=route dip=%v sip=%v dst=%v src=%v want=%d got=%d err=%v", pa, pb, form, src.Addr(), want, ob, rerr), text)
				}
				// (2) same address as source, fixed destination
				dst2 := netip.MustParseAddrPort("198.51.100.7:443")
				if form.Is6() && !form.Is4In6() {
					dst2 = netip.MustParseAddrPort("[2001:db9::7]:443")
				}
				evals.Add(1)
				want2 := refRoute(sa, sb, dst2.Addr(), form)
				ob2, _, _, rerr2 := v.Route(netip.AddrPortFrom(form, 40000), dst2, "", consts.L4ProtoType_TCP, [16]uint8{}, [6]uint8{}, 0)
				if (rerr2 != nil || ob2 != want2) && nviol < 6 {
					nviol++
					r.Violation(fmt.Sprintf("leg=route dip=%v sip=%v dst=%v src=%v want=%d got=%d err=%v", pa, pb, dst2.Addr(), form, want2, ob2, rerr2), text)
				}
			}
		}
	})

	// Leg 4b: values written WITHOUT a prefix length (bare literals) through the pipeline: a bare literal is a host
	// route (v4 => /32, i.e. the v4-mapped /128; v6 => /128; a v4-mapped literal in either spelling is that v4 host).
	// The reference is computed from the literal text, never from the parsed prefix.
	bare := []string{"10.1.2.3", "2001:db8::1", "::ffff:10.1.2.3", "::ffff:a01:203", "255.255.255.255", "::", "0.0.0.0", "::1"}
	var bareSets [][]string
	subsets(len(bare), 2, func(idx []int) {
		var s []string
		for _, i := range idx {
			s = append(s, bare[i])
		}
		bareSets = append(bareSets, s)
	})
	// mixed with an explicit prefix
	for _, b := range bare {
		bareSets = append(bareSets, []string{b, "10.1.3.0/24"}, []string{"2001:db8:0:1::/64", b})
	}
	hostOf := func(lit string) netip.Prefix {
		if strings.Contains(lit, "/") {
			return netip.MustParsePrefix(lit)
		}
		a := netip.MustParseAddr(lit)
		return netip.PrefixFrom(netip.AddrFrom16(a.As16()), 128) // the address itself, in 16-byte form
	}
	r.ParallelFor(len(bareSets), func(i int) {
		ss := bareSets[i]
		for _, fn := range []string{"dip", "sip"} {
			text := confText(fmt.Sprintf("%s(%s) -> g1", fn, quoteAll(ss)))
			var v *control.VerifRouting
			var err error
			if p, msg := vlib.Try(func() {
				v, err = control.VerifCompileRouting(text, []string{"g1", "g2"}, []routing.RulesOptimizer{&routing.AliasOptimizer{}})
			}); p {
				r.Violation(fmt.Sprintf("leg=bare-build panic %s=%v", fn, ss), msg)
				return
			}
			if err != nil {
				r.Violation(fmt.Sprintf("leg=bare-build error %s=%v", fn, ss), err.Error())
				return
			}
			var set []netip.Prefix
			for _, lit := range ss {
				set = append(set, hostOf(lit))
			}
			nviol := 0
			probes := probesFor(set)
			for _, lit := range []string{"10.1.2.4", "8.8.8.8", "::ffff:10.1.2.2"} {
				probes = append(probes, netip.MustParseAddr(lit).As16())
			}
			for _, pr := range probes {
				for _, form := range addrForms(pr) {
					evals.Add(1)
					want := uint8(consts.OutboundDirect)
					if refContains(set, pr) {
						want = uint8(consts.OutboundUserDefinedMin)
						posHits.Add(1)
					}
					r.Distinct(fmt.Sprintf("bare|%s|%v|%x", fn, ss, pr))
					var s, d netip.AddrPort
					other := netip.MustParseAddr("198.51.100.200")
					if form.Is6() && !form.Is4In6() {
						other = netip.MustParseAddr("2001:db9::200")
					}
					if fn == "dip" {
						s, d = netip.AddrPortFrom(other, 40000), netip.AddrPortFrom(form, 443)
					} else {
						s, d = netip.AddrPortFrom(form, 40000), netip.AddrPortFrom(other, 443)
					}
					ob, _, _, rerr := v.Route(s, d, "", consts.L4ProtoType_TCP, [16]uint8{}, [6]uint8{}, 0)
					if (rerr != nil || ob != want) && nviol < 3 {
						nviol++
						r.Violation(fmt.Sprintf("leg=bare %s=%v probe=%v want=%d got=%d err=%v", fn, ss, form, want, ob, rerr), text)
					}
				}
			}
		}
	})
	r.Set("bare_literal_sets", len(bareSets))

	// Leg 6: the prefix sets the control plane would write for the kernel, taken in BOTH production build orders —
	// cold start (kernel material read before BuildUserspace) and staged reload / rollback (builder.KernspaceSnapshot()
	// first, BuildUserspace() next, then the snapshot is installed) — for programs with 1..7 sets (BuildUserspace builds
	// more than 4 tries in parallel). For every rule the set stored at the rule's LPM index, in kernel key form under
	// Linux LPM lookup, must contain exactly the addresses the written set contains, and the userspace matcher too.
	type orderCase struct {
		n      int
		reload bool
		rot    int
	}
	var ocs []orderCase
	for _, n := range []int{1, 2, 4, 5, 7} {
		for _, reload := range []bool{false, true} {
			for rot := 0; rot < 3; rot++ {
				ocs = append(ocs, orderCase{n, reload, rot})
			}
		}
	}
	r.Set("build_order_programs", len(ocs))
	r.ParallelFor(len(ocs), func(i int) {
		oc := ocs[i]
		var lines []string
		var written [][]netip.Prefix
		groups := []string{"g1", "g2"}
		for k := 0; k < oc.n; k++ {
			a, b := pool[(oc.rot*5+k*3)%len(pool)], pool[(oc.rot*5+k*3+7)%len(pool)]
			fn := "dip"
			if k%2 == 1 {
				fn = "sip"
			}
			lines = append(lines, fmt.Sprintf("%s(%s) -> %s", fn, quoteAll([]string{a, b}), groups[k%2]))
			written = append(written, parseSet([]string{a, b}))
		}
		text := confText(strings.Join(lines, "\n"))
		sections, perr := config_parser.Parse(text)
		if perr != nil {
			r.Violation(fmt.Sprintf("leg=order-build parse n=%d", oc.n), perr.Error())
			return
		}
		var v *control.VerifRouting
		var err error
		if p, msg := vlib.Try(func() {
			v, err = control.VerifCompileRoutingSectionsOrder(sections, groups, []routing.RulesOptimizer{&routing.AliasOptimizer{}}, oc.reload)
		}); p {
			r.Violation(fmt.Sprintf("leg=order-build panic n=%d reload=%v", oc.n, oc.reload), msg)
			return
		}
		if err != nil {
			r.Violation(fmt.Sprintf("leg=order-build error n=%d reload=%v", oc.n, oc.reload), err.Error())
			return
		}
		rules, sets := v.KernRules(), v.LpmSets()
		if len(rules) != oc.n+1 {
			r.Violation(fmt.Sprintf("leg=order-build shape n=%d reload=%v rules=%d", oc.n, oc.reload, len(rules)), text)
			return
		}
		nviol := 0
		for k := 0; k < oc.n; k++ {
			idx := int(binary.LittleEndian.Uint32(rules[k].Value[:4]))
			if idx >= len(sets) {
				r.Violation(fmt.Sprintf("leg=order n=%d reload=%v rule=%d: LPM index %d beyond the %d sets to install", oc.n, oc.reload, k, idx, len(sets)), text)
				continue
			}
			var keys [][]byte
			for _, p := range sets[idx] {
				keys = append(keys, control.VerifLpmKeyBytes(p))
			}
			for _, pr := range probesFor(written[k]) {
				evals.Add(1)
				want := refContains(written[k], pr)
				if got := kernLookup(keys, pr); got != want && nviol < 4 {
					nviol++
					r.Violation(fmt.Sprintf("leg=order n=%d reload=%v rule=%d set=%v probe=%v: kernel-side set (as installed in this build order, %d keys) says %v, the written set says %v",
						oc.n, oc.reload, k, written[k], netip.AddrFrom16(pr), len(keys), got, want), text)
				}
			}
		}
	})

	// Leg 5: MAC sets (exact match) through the pipeline
	macs := []string{"00:00:00:00:00:01", "02:42:ac:11:00:02", "ff:ff:ff:ff:ff:ff", "02:42:ac:11:00:03"}
	var macSets [][]string
	subsets(len(macs), 3, func(idx []int) {
		var s []string
		for _, i := range idx {
			s = append(s, macs[i])
		}
		macSets = append(macSets, s)
	})
	probeMacs := append([]string{"00:00:00:00:00:02", "02:42:ac:11:00:01", "ff:ff:ff:ff:ff:fe", "00:42:ac:11:00:02"}, macs...)
	r.ParallelFor(len(macSets), func(i int) {
		ms := macSets[i]
		text := confText(fmt.Sprintf("mac(%s) -> g1", quoteAll(ms)))
		v, err := control.VerifCompileRouting(text, []string{"g1", "g2"}, []routing.RulesOptimizer{&routing.AliasOptimizer{}})
		if err != nil {
			r.Violation(fmt.Sprintf("leg=mac-build macs=%v", ms), err.Error())
			return
		}
		for _, pm := range probeMacs {
			var m [6]byte
			fmt.Sscanf(pm, "%02x:%02x:%02x:%02x:%02x:%02x", &m[0], &m[1], &m[2], &m[3], &m[4], &m[5])
			want := uint8(consts.OutboundDirect)
			for _, s := range ms {
				if s == pm {
					want = v.Name2Id["g1"]
				}
			}
			evals.Add(1)
			r.Distinct(fmt.Sprintf("mac|%v|%s", ms, pm))
			ob, _, _, rerr := v.Route(src, netip.MustParseAddrPort("198.51.100.7:443"), "", consts.L4ProtoType_TCP, [16]uint8{}, m, 0)
			if rerr != nil || ob != want {
				r.Violation(fmt.Sprintf("leg=mac macs=%v probe=%s want=%d got=%d err=%v", ms, pm, want, ob, rerr), text)
			}
		}
	})
	r.Assume("kernel LPM-trie lookup semantics are emulated in Go over the exact bytes cidrToBpfLpmKey emits (longest-prefix match on big-endian bit order); C02 runs the real C route() over the same bytes")
	r.Assume("real-mode build: bpf_utils.go encoders are compiled (no dae_stub_ebpf tag)")
	r.Finish()
}

func quoteAll(ms []string) string {
	var q []string
	for _, m := range ms {
		q = append(q, "'"+m+"'")
	}
	return strings.Join(q, ", ")
}

func refRoute(dipSet, sipSet []netip.Prefix, dst, src netip.Addr) uint8 {
	if refContains(dipSet, dst.As16()) {
		return uint8(consts.OutboundUserDefinedMin)
	}
	if refContains(sipSet, src.As16()) {
		return uint8(consts.OutboundUserDefinedMin) + 1
	}
	return uint8(consts.OutboundDirect)
}

func sameSet(a, b []netip.Prefix) bool {
	norm := func(ps []netip.Prefix) []string {
		m := map[string]bool{}
		for _, p := range ps {
			ad, bits := to16(p)
			// identical = same (address bytes as written incl. family, length); the property allows sharing only for truly identical sets
			m[fmt.Sprintf("%x/%d/%v", ad, bits, p.Addr().Is4())] = true
		}
		var out []string
		for k := range m {
			out = append(out, k)
		}
		sort.Strings(out)
		return out
	}
	x, y := norm(a), norm(b)
	if len(x) != len(y) {
		return false
	}
	for i := range x {
		if x[i] != y[i] {
			return false
		}
	}
	return true
}
