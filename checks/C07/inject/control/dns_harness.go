//go:build verif

package control

import (
	"context"
	"fmt"
	"io"
	"net"
	"net/netip"
	"strings"
	"sync"
	"sync/atomic"
	"time"

	"github.com/daeuniverse/dae/common/consts"
	"github.com/daeuniverse/dae/component/dns"
	dnsmessage "github.com/miekg/dns"
	"github.com/sirupsen/logrus"
)

// C07 harness: the real DnsController driven through HandleWithResponseWriter_ with a scripted,
// network-free upstream. Only the package variable dnsForwarderFactory is replaced; everything from
// request routing to the reply written to the client is production code.

type VerifRR struct {
	Kind string // "A", "AAAA", "CNAME"
	Addr netip.Addr
	Tgt  string
}

type VerifDnsEnv struct {
	id      uint32
	mu      sync.Mutex
	table   map[string][]VerifRR // upstream.String() -> answer section the fake upstream returns
	trace   []string             // upstream.String() of every exchange, in order
	ctrl    *DnsController
	option  *DnsControllerOption
	realDst netip.AddrPort
}

var (
	verifEnvs   sync.Map // uint32 -> *VerifDnsEnv
	verifEnvSeq atomic.Uint32
	verifOnce   sync.Once
)

type verifForwarder struct {
	env *VerifDnsEnv
	up  string
}

func (f *verifForwarder) ForwardDNS(ctx context.Context, data []byte) (*dnsmessage.Msg, error) {
	var q dnsmessage.Msg
	if err := q.Unpack(data); err != nil {
		return nil, fmt.Errorf("fake upstream: cannot unpack query: %w", err)
	}
	f.env.mu.Lock()
	f.env.trace = append(f.env.trace, f.up)
	ans, ok := f.env.table[f.up]
	f.env.mu.Unlock()
	if !ok {
		return nil, fmt.Errorf("fake upstream %s: not in the scripted table", f.up)
	}
	resp := new(dnsmessage.Msg)
	resp.SetReply(&q)
	resp.RecursionAvailable = true
	name := ""
	if len(q.Question) > 0 {
		name = q.Question[0].Name
	}
	for _, a := range ans {
		switch a.Kind {
		case "A":
			resp.Answer = append(resp.Answer, &dnsmessage.A{Hdr: dnsmessage.RR_Header{Name: name, Rrtype: dnsmessage.TypeA, Class: dnsmessage.ClassINET, Ttl: 300}, A: net.IP(a.Addr.AsSlice())})
		case "AAAA":
			resp.Answer = append(resp.Answer, &dnsmessage.AAAA{Hdr: dnsmessage.RR_Header{Name: name, Rrtype: dnsmessage.TypeAAAA, Class: dnsmessage.ClassINET, Ttl: 300}, AAAA: net.IP(a.Addr.AsSlice())})
		case "CNAME":
			resp.Answer = append(resp.Answer, &dnsmessage.CNAME{Hdr: dnsmessage.RR_Header{Name: name, Rrtype: dnsmessage.TypeCNAME, Class: dnsmessage.ClassINET, Ttl: 300}, Target: a.Tgt})
		}
	}
	return resp, nil
}

func (f *verifForwarder) Close() error { return nil }

// VerifInstallDnsFakes replaces the forwarder factory (a package variable that exists as a test seam).
func VerifInstallDnsFakes() {
	verifOnce.Do(func() {
		dnsForwarderFactory = func(upstream *dns.Upstream, dialArg dialArgument, _ *logrus.Logger) (DnsForwarder, error) {
			v, ok := verifEnvs.Load(dialArg.mark)
			if !ok {
				return nil, fmt.Errorf("fake factory: unknown env %d", dialArg.mark)
			}
			return &verifForwarder{env: v.(*VerifDnsEnv), up: upstream.String()}, nil
		}
	})
}

func verifQuietLogger() *logrus.Logger {
	l := logrus.New()
	l.SetOutput(io.Discard)
	l.SetLevel(logrus.PanicLevel)
	return l
}

// VerifNewDnsEnv builds a real DnsController over routing with the production option shape
// (ControlPlane.dnsControllerOption) minus the bpf side effects.
func VerifNewDnsEnv(routing *dns.Dns, asisServer netip.AddrPort) (*VerifDnsEnv, error) {
	VerifInstallDnsFakes()
	e := &VerifDnsEnv{id: verifEnvSeq.Add(1), realDst: asisServer, table: map[string][]VerifRR{}}
	e.option = &DnsControllerOption{
		Log:                 verifQuietLogger(),
		LifecycleContext:    context.Background(),
		ConcurrencyLimit:    0,
		CacheAccessCallback: func(cache *DnsCache) error { return nil },
		CacheDeleteCallback: func(cacheKey string, cache *DnsCache) error { return nil },
		NewCache: func(fqdn string, answers, ns, extra []dnsmessage.RR, deadline time.Time, originalDeadline time.Time) (*DnsCache, error) {
			return &DnsCache{NS: ns, Extra: extra, Answer: answers, Deadline: deadline, OriginalDeadline: originalDeadline}, nil
		},
		BestDialerChooser: func(ctx context.Context, req *udpRequest, upstream *dns.Upstream) (*dialArgument, error) {
			// Same shape as ControlPlane.chooseBestDnsDialer with every dialer healthy and at latency 0: the first
			// (ip version, l4 protocol) pair the upstream supports, target = that family's address + the upstream port.
			l4 := consts.L4ProtoStr_UDP
			ver := consts.IpVersionStr_4
			var tgt netip.AddrPort
			if upstream.Ip46 != nil {
				vers, l4s := upstream.SupportedNetworks()
				if len(l4s) > 0 {
					l4 = l4s[0]
				}
				if len(vers) > 0 {
					ver = vers[0]
				}
				switch {
				case ver == consts.IpVersionStr_4 && upstream.Ip4.IsValid():
					tgt = netip.AddrPortFrom(upstream.Ip4, upstream.Port)
				case ver == consts.IpVersionStr_6 && upstream.Ip6.IsValid():
					tgt = netip.AddrPortFrom(upstream.Ip6, upstream.Port)
				}
			}
			return &dialArgument{l4proto: l4, ipversion: ver, bestTarget: tgt, mark: e.id}, nil
		},
		TimeoutExceedCallback: func(*dialArgument, error) {},
		IpVersionPrefer:       0,
		OptimisticCache:       true,
		OptimisticCacheTtl:    60,
	}
	c, err := NewDnsController(routing, e.option)
	if err != nil {
		return nil, err
	}
	e.ctrl = c
	verifEnvs.Store(e.id, e)
	return e, nil
}

// Reload swaps the routing the way a configuration reload does (ReuseForReload: the new generation
// shares the cache store of the old one).
func (e *VerifDnsEnv) Reload(routing *dns.Dns) error {
	c2, err := e.ctrl.ReuseForReload(e.option, routing)
	if err != nil {
		return err
	}
	e.ctrl = c2
	return nil
}

func (e *VerifDnsEnv) SetTable(t map[string][]VerifRR) {
	e.mu.Lock()
	e.table = t
	e.mu.Unlock()
}

func (e *VerifDnsEnv) Close() {
	verifEnvs.Delete(e.id)
	_ = e.ctrl.Close()
}

type verifWriter struct {
	msgs []*dnsmessage.Msg
}

func (w *verifWriter) LocalAddr() net.Addr  { return nil }
func (w *verifWriter) RemoteAddr() net.Addr { return nil }
func (w *verifWriter) WriteMsg(m *dnsmessage.Msg) error {
	w.msgs = append(w.msgs, m.Copy())
	return nil
}
func (w *verifWriter) Write(b []byte) (int, error) {
	var m dnsmessage.Msg
	if err := m.Unpack(b); err != nil {
		return 0, err
	}
	w.msgs = append(w.msgs, &m)
	return len(b), nil
}
func (w *verifWriter) Close() error        { return nil }
func (w *verifWriter) TsigStatus() error   { return nil }
func (w *verifWriter) TsigTimersOnly(bool) {}
func (w *verifWriter) Hijack()             {}

type VerifAsk struct {
	Trace   []string          // upstream URL of every exchange caused by this client question
	Replies []*dnsmessage.Msg // what was written to the client
	Err     error
}

// Ask sends one client question through HandleWithResponseWriter_ (the path DNS-over-TCP and the DNS
// listener use) and reports who was asked and what the client got.
func (e *VerifDnsEnv) Ask(name string, qtype uint16, id uint16) VerifAsk {
	q := new(dnsmessage.Msg)
	q.Id = id
	q.RecursionDesired = true
	q.Question = []dnsmessage.Question{{Name: name, Qtype: qtype, Qclass: dnsmessage.ClassINET}}
	req := &udpRequest{
		realSrc:       netip.MustParseAddrPort("192.168.7.7:40000"),
		realDst:       e.realDst,
		src:           netip.MustParseAddrPort("192.168.7.7:40000"),
		routingResult: &bpfRoutingResult{},
	}
	e.mu.Lock()
	e.trace = nil
	e.mu.Unlock()
	w := &verifWriter{}
	err := e.ctrl.HandleWithResponseWriter_(context.Background(), q, req, w)
	e.mu.Lock()
	tr := append([]string(nil), e.trace...)
	e.mu.Unlock()
	return VerifAsk{Trace: tr, Replies: w.msgs, Err: err}
}

// CachedAnswers returns, for every cache entry of the (name,qtype) family, its key and the number of
// answer records it holds (so the harness can show that "a cached answer exists" really was the case).
func (e *VerifDnsEnv) CachedAnswers(name string, qtype uint16) map[string]int {
	base := e.ctrl.cacheKey(name, qtype)
	out := map[string]int{}
	e.ctrl.dnsCache.Range(func(k, v any) bool {
		ks, ok := k.(string)
		if !ok || !(ks == base || strings.HasPrefix(ks, base+"|")) {
			return true
		}
		if c, ok := v.(*DnsCache); ok {
			out[ks] = len(c.Answer)
		}
		return true
	})
	return out
}
