package vsched

import (
	"crypto/sha256"
	"encoding/json"
	"fmt"
	"time"
)

// Scenario is one closed harness: Body builds a FRESH instance of the code under test and drives it (as thread 0);
// Check inspects the finished execution (the harness keeps its own observation record) and returns a non-empty
// signature for a violation. Outcome returns a canonical string of the final observation (for distinct-outcome counting).
type Scenario struct {
	Name      string
	Body      func()
	Check     func(r *Result) (sig string, detail any)
	Outcome   func(r *Result) string
	MaxSteps  int
	HorizonNs int64
	// CostedSwitch: when the running thread blocks or exits, continuing with the lowest-numbered runnable thread is
	// the free default and picking any other runnable thread costs one preemption unit (deviation from the default
	// scheduler). Default (false) is the CHESS rule: non-preempting context switches are free.
	CostedSwitch bool
}

type Bound struct{ Preempt, Dev int }

type Violation struct {
	Scenario string `json:"scenario"`
	Sig      string `json:"signature"`
	Detail   any    `json:"detail"`
	Schedule []int  `json:"schedule"`
	Bound    Bound  `json:"bound"`
	Trace    []string `json:"trace,omitempty"`
}

type Stats struct {
	Scenario       string            `json:"scenario"`
	Executions     int64             `json:"executions"`
	Steps          int64             `json:"steps"`
	MaxDepth       int               `json:"max_depth"`
	BoundCompleted *Bound            `json:"bound_completed"`
	BoundsTried    []Bound           `json:"bounds_tried"`
	Exhaustive     bool              `json:"exhaustive"`
	Horizon        int64             `json:"horizon_hits"`
	Leaked         int64             `json:"leaked_threads"`
	Outcomes       map[string]int64  `json:"-"`
	OutcomeHashes  []string          `json:"outcome_hashes"`
	Violations     []Violation       `json:"violations"`
	Diverged       int64             `json:"diverged"`
	SampleSchedule []int             `json:"sample_schedule"`
	WallS          float64           `json:"wall_s"`
}

type Explorer struct {
	Sc        *Scenario
	Bounds    []Bound // explored in order (iterative bounding); each level re-explores from the root
	Deadline  time.Time
	ShardI    int
	ShardN    int
	MaxViol   int
	st        *Stats
	level     Bound
	subtree   int
	seenViol  map[string]bool
	stop      bool
}

func stepCost(s Step, alt int) (p, d int) {
	if alt < 64 {
		if s.Pre&(1<<uint(alt)) != 0 {
			p = 1
		}
		if s.Dev&(1<<uint(alt)) != 0 {
			d = 1
		}
	}
	return
}

// Replay runs one schedule (with trace) and returns the result; used for confirmation and replay files.
func (e *Explorer) Replay(schedule []int, trace bool) *Result {
	return Run(e.Sc.Body, Options{Prefix: schedule, MaxSteps: e.Sc.MaxSteps, HorizonNs: e.Sc.HorizonNs, Trace: trace, CostedSwitch: e.Sc.CostedSwitch})
}

func (e *Explorer) Explore() *Stats {
	t0 := time.Now()
	e.st = &Stats{Scenario: e.Sc.Name, Outcomes: map[string]int64{}, Exhaustive: true}
	e.seenViol = map[string]bool{}
	if e.ShardN == 0 {
		e.ShardN = 1
	}
	if e.MaxViol == 0 {
		e.MaxViol = 5
	}
	for _, b := range e.Bounds {
		e.level = b
		e.subtree = 0
		e.st.BoundsTried = append(e.st.BoundsTried, b)
		e.explore(nil, 0, 0, 0)
		if e.stop {
			e.st.Exhaustive = false
			break
		}
		bb := b
		e.st.BoundCompleted = &bb
		if len(e.st.Violations) > 0 {
			break // the first counterexample has the fewest deviations: stop deepening
		}
	}
	for k := range e.st.Outcomes {
		e.st.OutcomeHashes = append(e.st.OutcomeHashes, k)
	}
	e.st.WallS = time.Since(t0).Seconds()
	return e.st
}

// explore runs the execution for prefix and recurses into every alternative within the bounds.
// depth = number of non-default decisions in prefix (tree depth), used for sharding at depth 2.
func (e *Explorer) explore(prefix []int, pUsed, dUsed, depth int) {
	if e.stop {
		return
	}
	if !e.Deadline.IsZero() && time.Now().After(e.Deadline) {
		e.stop = true
		return
	}
	mine := true
	if e.ShardN > 1 {
		if depth < 2 {
			mine = e.ShardI == 0 // shallow nodes are executed by everyone (needed to enumerate), accounted by shard 0
		}
	}
	r := Run(e.Sc.Body, Options{Prefix: prefix, MaxSteps: e.Sc.MaxSteps, HorizonNs: e.Sc.HorizonNs, CostedSwitch: e.Sc.CostedSwitch})
	if r.Status == StDiverged {
		e.st.Diverged++
		e.recordViolation("HARNESS-NONDETERMINISM: "+r.PanicMsg, nil, prefix, r)
		e.stop = true
		return
	}
	if mine {
		e.st.Executions++
		e.st.Steps += int64(len(r.Steps))
		if len(r.Steps) > e.st.MaxDepth {
			e.st.MaxDepth = len(r.Steps)
		}
		e.st.Leaked += int64(r.Leaked)
		if r.Status == StHorizon {
			e.st.Horizon++
		}
		if e.st.SampleSchedule == nil && len(r.Steps) > 0 {
			e.st.SampleSchedule = FormatSteps(r.Steps)
		}
		if e.Sc.Outcome != nil {
			h := sha256.Sum256([]byte(e.Sc.Outcome(r)))
			e.st.Outcomes[fmt.Sprintf("%x", h[:8])]++
		}
		if sig, detail := e.Sc.Check(r); sig != "" {
			e.recordViolation(sig, detail, FormatSteps(r.Steps), r)
		}
	}
	steps := r.Steps
	for i := len(prefix); i < len(steps); i++ {
		// cost of the defaults taken between len(prefix) and i is zero by construction (choice 0 is free)
		for alt := 1; alt < steps[i].N; alt++ {
			cp, cd := stepCost(steps[i], alt)
			if pUsed+cp > e.level.Preempt || dUsed+cd > e.level.Dev {
				continue
			}
			if e.ShardN > 1 && depth == 1 {
				// children of depth-1 nodes are the depth-2 subtrees that get distributed
				idx := e.subtree
				e.subtree++
				if idx%e.ShardN != e.ShardI {
					continue
				}
			}
			child := make([]int, i+1)
			for k := 0; k < i; k++ {
				child[k] = steps[k].Chosen
			}
			child[i] = alt
			e.explore(child, pUsed+cp, dUsed+cd, depth+1)
			if e.stop {
				return
			}
		}
	}
}

func (e *Explorer) recordViolation(sig string, detail any, schedule []int, r *Result) {
	if e.seenViol[sig] {
		return
	}
	e.seenViol[sig] = true
	if len(e.st.Violations) >= e.MaxViol {
		return
	}
	e.st.Violations = append(e.st.Violations, Violation{Scenario: e.Sc.Name, Sig: sig, Detail: detail, Schedule: schedule, Bound: e.level})
}

// Confirm replays a violating schedule n times and reports whether the same signature appeared every time.
func (e *Explorer) Confirm(v *Violation, n int) bool {
	for i := 0; i < n; i++ {
		r := e.Replay(v.Schedule, i == 0)
		if r.Status == StDiverged {
			return false
		}
		sig, _ := e.Sc.Check(r)
		if sig != v.Sig {
			return false
		}
		if i == 0 {
			for _, s := range r.Steps {
				v.Trace = append(v.Trace, fmt.Sprintf("T%d %s -> %d/%d [%s]", s.Tid, s.Op, s.Chosen, s.N, s.Desc))
			}
		}
	}
	return true
}

func (s *Stats) JSON() []byte {
	b, _ := json.Marshal(s)
	return b
}
