// Size of the hello x number of reads (the "however it is cut into reads" clause for hellos that do not fit the
// sniffer's first buffer).
//
// The generator of legTLS only makes hellos of a few hundred bytes and cuts them into <= 2 (3) reads, so nothing that
// depends on HOW MUCH is buffered or on HOW MANY reads it takes is ever reached there. A TLS record may be up to 2^14
// bytes long (RFC 8446 section 5.1) and real ClientHellos get big through exactly one bulky extension: RFC 7685 padding, a
// post-quantum key_share, a long ALPN list, a pre_shared_key ticket. This leg sizes such a hello so that its record
// length sits on / next to every power of two from 2^10 to the legal maximum 2^14 (and with the whole stream ending
// exactly at 4096, the size of the sniffer's initial buffer), and delivers it
//   - in one read, in every cutting into two reads (first read >= 5 bytes),
//   - in equal segments of EVERY size m, 5 <= m < L/2 (3 ... L/5 reads: every read count a fixed MSS can produce),
//   - as the bare record header followed by a trickle of m = 1..4 bytes per read (up to 2^14 reads),
//   - thorough: in every cutting into three reads at a grid of boundary offsets,
// each through the WriteTo and the TakeRelaySegments+Read route; the cuts of the boundary grid, the single read and the
// trickles also through the other two routes and with the last read running on into later data. Oracles as in legTLS: the name is found (the record
// header has arrived, the rest follows, no time passes), the relay receives the client's bytes exactly once.
package main

import (
	"fmt"
	"sort"
)

type sizeInst struct {
	h helloSpec
	s []byte // the record
	v verdict
	light bool
}

// sizeGrid: the boundary offsets of a stream of L bytes: around the record header and the fixed part of the hello, around
// every power of two from 2^9 (with and without the 5 header bytes), multiples of the usual segment sizes, the end.
func sizeGrid(L int) []int {
	set := map[int]bool{}
	for _, c := range []int{5, 6, 9, 43, 44, 100, L - 2, L - 1} {
		set[c] = true
	}
	for k := 9; k <= 14; k++ {
		for d := -1; d <= 1; d++ {
			set[1<<uint(k)+d] = true
			set[1<<uint(k)+5+d] = true
		}
	}
	for _, c := range []int{1400, 1448, 1460, 2800, 2896, 2920, 4200, 4344, 4380} {
		set[c] = true
	}
	var grid []int
	for c := range set {
		if c >= 5 && c < L {
			grid = append(grid, c)
		}
	}
	sort.Ints(grid)
	return grid
}

const (
	cutWhole = iota
	cutOne
	cutUniform
	cutTrickle
	cutTwo
	cutGrid
)

func legTLSSizes(thorough bool) {
	two := []sniEntry{{1, "xx"}, {0, "Big-Alpn.Example.ORG"}}
	shapes := []helloSpec{
		// SNI in front of the bulk: the name is complete long before the record is
		{ver: 13, sidLen: 32, nCS: 3, exts: []int{extSNI, extSV}, sni: []sniEntry{{0, "big-padding.example.com"}}, bulkKind: bulkPadding, bulkAt: 2},
		// the bulk in front of the SNI: the walk has to step over it
		{ver: 13, sidLen: 32, nCS: 2, exts: []int{extSV, extSNI}, sni: []sniEntry{{0, "big-keyshare.example.com"}}, bulkKind: bulkKeyShare, bulkAt: 0},
		{ver: 12, sidLen: 0, nCS: 1, exts: []int{extSNI}, sni: two, bulkKind: bulkALPN, bulkAt: 0},
	}
	if thorough {
		shapes = append(shapes,
			helloSpec{ver: 12, sidLen: 32, nCS: 1, exts: []int{extGREASE, extSNI, extALPN}, sni: []sniEntry{{0, "pad-first.example.com."}}, bulkKind: bulkPadding, bulkAt: 0},
			helloSpec{ver: 13, sidLen: 32, nCS: 3, exts: []int{extSNI, extALPN, extSV}, sni: []sniEntry{{0, "big-ticket.example.com"}}, bulkKind: bulkPSK, bulkAt: 3},
			helloSpec{ver: 13, sidLen: 0, nCS: 2, exts: []int{extSNI}, sni: []sniEntry{{0, "keyshare-last.example.com"}}, bulkKind: bulkKeyShare, bulkAt: 1},
		)
	}
	// record lengths. Full enumeration of cuttings: 2^k-1, 2^k, 2^k+1 for k = 10..12, 4091 (the record whose stream, 5-byte
	// header included, ends exactly at 4096), 2^13 and 2^14 (the largest legal record). Light (one read, the cuts of the
	// boundary grid, the trickles): 2^13+-1, 2^14-1 and 2^14+1 (not a legal record: safety only).
	var recLens []int
	light := map[int]bool{1<<13 - 1: true, 1<<13 + 1: true, 1<<14 - 1: true, 1<<14 + 1: true}
	for k := 10; k <= 14; k++ {
		recLens = append(recLens, 1<<uint(k)-1, 1<<uint(k), 1<<uint(k)+1)
	}
	recLens = append(recLens, 4091)
	sort.Ints(recLens)
	var insts []sizeInst
	required := 0
	for _, sh := range shapes {
		for _, rl := range recLens {
			h, ok := sizedHello(sh, rl)
			if !ok {
				report("tls-size", "harness", "0", fmt.Sprintf("cannot size {%s} to a record of %d bytes", sh.String(), rl), nil)
				continue
			}
			s := tlsRecord(h.ver, buildHello(h).hs)
			if len(s) != 5+rl {
				report("tls-size", "harness", "1", fmt.Sprintf("{%s}: record of %d bytes instead of %d", h.String(), len(s)-5, rl), nil)
				continue
			}
			v := refTLSStream(cat(s, later1, later2))
			if v.required {
				required++
			}
			if v.required != (rl <= 1<<14) {
				report("tls-size", "harness", "2", fmt.Sprintf("{%s}: reference says required=%v for a record of %d bytes", h.String(), v.required, rl), nil)
				continue
			}
			insts = append(insts, sizeInst{h, s, v, light[rl]})
		}
	}
	R.Set("tls_size_hellos", len(insts))
	R.Set("tls_size_hellos_with_required_name", required)
	R.Set("tls_size_record_lengths", recLens)
	R.Sample(map[string]any{"leg": "tls-size", "hello": insts[len(insts)-2].h.String(), "record_bytes": len(insts[len(insts)-2].s) - 5, "reference_name": insts[len(insts)-2].v.name,
		"cuttings": "whole; every 1 cut; equal segments of every size 5..L/2; header then 1..4 bytes per read; thorough: every 2 cuts over the boundary grid"})

	type job struct {
		ii, kind int
		lo, hi   int // parameter range [lo, hi)
		grid     []int
	}
	const blk = 192
	cheapRoutes := []int{1, 3} // WriteTo, TakeRelaySegments+Read: one copy each (Read with a 7-byte buffer costs L/7 calls)
	var jobs []job
	for ii, in := range insts {
		L := len(in.s)
		grid := sizeGrid(L)
		jobs = append(jobs, job{ii: ii, kind: cutWhole, lo: 0, hi: 1})
		jobs = append(jobs, job{ii: ii, kind: cutGrid, grid: grid})
		for m := 1; m <= 4; m++ {
			jobs = append(jobs, job{ii: ii, kind: cutTrickle, lo: m, hi: m + 1})
		}
		if !in.light {
			for lo := 5; lo < L; lo += blk {
				jobs = append(jobs, job{ii: ii, kind: cutOne, lo: lo, hi: min(lo+blk, L)})
			}
			for lo := 5; lo < (L+1)/2; lo += blk {
				jobs = append(jobs, job{ii: ii, kind: cutUniform, lo: lo, hi: min(lo+blk, (L+1)/2)})
			}
		}
		if thorough {
			for a := 0; a < len(grid); a++ {
				jobs = append(jobs, job{ii: ii, kind: cutTwo, lo: a, hi: a + 1, grid: grid})
			}
		}
	}
	R.Set("tls_size_jobs", len(jobs))
	cases := R.Counter("tls_size_cases")
	reads := R.Counter("tls_size_reads_scripted")
	R.ParallelFor(len(jobs), func(ji int) {
		j := jobs[ji]
		in := &insts[j.ii]
		s := in.s
		L := len(s)
		hdesc := in.h.String()
		// run: s cut at the given offsets; the last piece alone or running on into later data
		run := func(what string, cuts []int, runOn bool, routes []int) {
			chunks := make([][]byte, 0, len(cuts)+3)
			prev := 0
			for _, c := range cuts {
				chunks = append(chunks, s[prev:c])
				prev = c
			}
			if runOn {
				chunks = append(chunks, cat(s[prev:], later1), later2)
			} else {
				chunks = append(chunks, s[prev:], later1, later2)
			}
			reads.Add(int64(len(chunks)))
			if !(j.kind == cutGrid && !runOn && len(routes) == 2 && routes[0] == 0 && !in.light) { // the same cutting as in cutOne, other routes
				cases.Add(1)
				distinctExtra.Add(1)
			}
			runTCP(tcpOpts{leg: "tls-size",
				key:       func() string { return fmt.Sprintf("%03d|%-44s|%5v", j.ii, what, runOn) },
				desc:      func() string { return fmt.Sprintf("{%s} record=%d bytes, %s, runon=%v", hdesc, L-5, what, runOn) },
				recognise: true, routes: routes}, chunks, &in.v)
		}
		uniform := func(first, m int) []int {
			var cuts []int
			for c := first; c < L; c += m {
				cuts = append(cuts, c)
			}
			return cuts
		}
		switch j.kind {
		case cutWhole:
			run("one read", nil, false, allRoutes)
			run("one read", nil, true, allRoutes)
		case cutOne: // every cutting into two reads
			for c := j.lo; c < j.hi; c++ {
				run(fmt.Sprintf("cut@%05d", c), []int{c}, false, cheapRoutes)
			}
		case cutGrid: // the cuts of the boundary grid: the other two routes, and running on into later data
			for _, c := range j.grid {
				what := fmt.Sprintf("cut@%05d", c)
				if in.light {
					run(what, []int{c}, false, cheapRoutes)
				}
				run(what, []int{c}, false, []int{0, 2})
				run(what, []int{c}, true, allRoutes)
			}
		case cutUniform:
			for m := j.lo; m < j.hi; m++ {
				run(fmt.Sprintf("equal segments of %05d", m), uniform(m, m), false, cheapRoutes)
			}
		case cutTrickle:
			what := fmt.Sprintf("record header, then %d bytes per read", j.lo)
			run(what, uniform(5, j.lo), false, allRoutes)
			run(what, uniform(5, j.lo), true, cheapRoutes)
		case cutTwo:
			c1 := j.grid[j.lo]
			for _, c2 := range j.grid[j.lo+1:] {
				run(fmt.Sprintf("cuts@%05d,%05d", c1, c2), []int{c1, c2}, false, []int{1, 2})
			}
		}
	})
}
