module kshimgen

go 1.26
