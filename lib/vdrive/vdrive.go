// Package vdrive runs engine-S scenarios: a coordinator process shards every scenario over worker
// processes (the scheduler is a process-wide singleton; workers also isolate leaks and OOM), merges
// their statistics into the evidence file and turns confirmed counterexample schedules into violations.
package vdrive

import (
	"bytes"
	"encoding/json"
	"flag"
	"fmt"
	"os"
	"os/exec"
	"runtime"
	"sort"
	"strings"
	"sync"
	"time"

	"github.com/daeuniverse/dae/verifx/vlib"
	"github.com/daeuniverse/dae/verifx/vsched"
)

type Plan struct {
	Scenarios      []*vsched.Scenario
	QuickBounds    []vsched.Bound
	ThoroughBounds []vsched.Bound
	// PerScenarioBounds overrides the bounds for a scenario name (tier -> bounds).
	PerScenario map[string]map[string][]vsched.Bound
	BudgetQuick    time.Duration // total wall budget for exploration (internal deadline => exhaustive:false, exit 0)
	BudgetThorough time.Duration
	Shards         int
	// ManyScenarios: distribute whole scenarios over the worker processes (one worker explores a scenario
	// alone) instead of sharding every scenario over all workers. For plans with many small scenarios.
	ManyScenarios bool
	Finish        func(r *vlib.Run) // extra evidence / assumptions before Finish
}

var (
	fWorker   = flag.String("vsworker", "", "internal: scenario name")
	fShard    = flag.String("vsshard", "0/1", "internal: i/n")
	fBounds   = flag.String("vsbounds", "", "internal: json bounds")
	fDeadline = flag.Int64("vsdeadline", 0, "internal: unix deadline")
	fOnly     = flag.String("scenario", "", "run only this scenario")
)

func find(p *Plan, name string) *vsched.Scenario {
	for _, s := range p.Scenarios {
		if s.Name == name {
			return s
		}
	}
	return nil
}

type workerOut struct {
	Stats      *vsched.Stats `json:"stats"`
	Unconfirmed []string     `json:"unconfirmed"`
}

func boundsFor(p *Plan, name, tier string) []vsched.Bound {
	b := p.QuickBounds
	if tier == "thorough" {
		b = p.ThoroughBounds
	}
	if m, ok := p.PerScenario[name]; ok {
		if x, ok := m[tier]; ok {
			b = x
		}
	}
	return b
}

func exploreOne(sc *vsched.Scenario, bounds []vsched.Bound, i, n int, deadline time.Time) workerOut {
	e := &vsched.Explorer{Sc: sc, Bounds: bounds, ShardI: i, ShardN: n, Deadline: deadline}
	st := e.Explore()
	out := workerOut{Stats: st}
	var confirmed []vsched.Violation
	for k := range st.Violations {
		v := st.Violations[k]
		if strings.HasPrefix(v.Sig, "HARNESS-NONDETERMINISM") || !e.Confirm(&v, 5) {
			out.Unconfirmed = append(out.Unconfirmed, v.Sig)
			continue
		}
		confirmed = append(confirmed, v)
	}
	st.Violations = confirmed
	return out
}

func multiWorkerMain(p *Plan) {
	var i, n int
	fmt.Sscanf(*fShard, "%d/%d", &i, &n)
	tier := *fBounds // tier name is passed in the bounds flag
	var dl time.Time
	if *fDeadline > 0 {
		dl = time.Unix(*fDeadline, 0)
	}
	var outs []workerOut
	for k, sc := range p.Scenarios {
		if k%n != i {
			continue
		}
		if *fOnly != "" && sc.Name != *fOnly {
			continue
		}
		outs = append(outs, exploreOne(sc, boundsFor(p, sc.Name, tier), 0, 1, dl))
	}
	b, _ := json.Marshal(outs)
	os.Stdout.Write(b)
	os.Exit(0)
}

func workerMain(p *Plan) {
	if *fWorker == "@multi" {
		multiWorkerMain(p)
		return
	}
	sc := find(p, *fWorker)
	if sc == nil {
		fmt.Fprintln(os.Stderr, "no such scenario", *fWorker)
		os.Exit(2)
	}
	var bounds []vsched.Bound
	json.Unmarshal([]byte(*fBounds), &bounds)
	var i, n int
	fmt.Sscanf(*fShard, "%d/%d", &i, &n)
	e := &vsched.Explorer{Sc: sc, Bounds: bounds, ShardI: i, ShardN: n}
	if *fDeadline > 0 {
		e.Deadline = time.Unix(*fDeadline, 0)
	}
	st := e.Explore()
	out := workerOut{Stats: st}
	// trust rule: a failing schedule must fail identically 5 times before it is believed
	var confirmed []vsched.Violation
	for k := range st.Violations {
		v := st.Violations[k]
		if strings.HasPrefix(v.Sig, "HARNESS-NONDETERMINISM") || !e.Confirm(&v, 5) {
			out.Unconfirmed = append(out.Unconfirmed, v.Sig)
			continue
		}
		confirmed = append(confirmed, v)
	}
	st.Violations = confirmed
	b, _ := json.Marshal(out)
	os.Stdout.Write(b)
	os.Exit(0)
}

// Main is the entry point of an engine-S check binary.
func Main(id string, p *Plan) {
	flag.Parse()
	if *fWorker != "" {
		workerMain(p)
		return
	}
	r := vlib.Start(id, "model_checking")
	if r.ReplayArg != "" {
		replay(r, p)
		return
	}
	shards := p.Shards
	if shards == 0 {
		shards = runtime.NumCPU()
	}
	budget := r.Budget(p.BudgetQuick, p.BudgetThorough)
	deadline := time.Now().Add(budget)
	var totalExec, totalSteps, horizon, leaked int64
	maxDepth := 0
	outcomes := 0
	var perScenario []map[string]any
	broken := false
	scs := p.Scenarios
	if p.ManyScenarios {
		scs = nil
		outsAll := make([][]workerOut, shards)
		errs := make([]string, shards)
		var wg sync.WaitGroup
		for i := 0; i < shards; i++ {
			wg.Add(1)
			go func(i int) {
				defer wg.Done()
				args := []string{"-vsworker", "@multi", "-vsshard", fmt.Sprintf("%d/%d", i, shards), "-vsbounds", r.Tier(), "-vsdeadline", fmt.Sprint(deadline.Unix())}
				if *fOnly != "" {
					args = append(args, "-scenario", *fOnly)
				}
				cmd := exec.Command(os.Args[0], args...)
				cmd.Env = append(os.Environ(), "GOMAXPROCS=1")
				var so, se bytes.Buffer
				cmd.Stdout, cmd.Stderr = &so, &se
				if err := cmd.Run(); err != nil {
					errs[i] = fmt.Sprintf("worker %d: %v: %s", i, err, tail(se.String(), 1500))
					return
				}
				if err := json.Unmarshal(so.Bytes(), &outsAll[i]); err != nil {
					errs[i] = fmt.Sprintf("worker %d: bad output: %v: %s", i, err, tail(so.String()+se.String(), 800))
				}
			}(i)
		}
		wg.Wait()
		nsc := 0
		for i := range outsAll {
			if errs[i] != "" {
				fmt.Fprintln(os.Stderr, errs[i])
				broken = true
				continue
			}
			for _, wo := range outsAll[i] {
				st := wo.Stats
				nsc++
				totalExec += st.Executions
				totalSteps += st.Steps
				horizon += st.Horizon
				leaked += st.Leaked
				if st.MaxDepth > maxDepth {
					maxDepth = st.MaxDepth
				}
				outcomes += len(st.OutcomeHashes)
				if !st.Exhaustive {
					r.CapHit("time budget reached in scenario " + st.Scenario)
				}
				for _, u := range wo.Unconfirmed {
					fmt.Fprintf(os.Stderr, "%s: schedule did not reproduce identically (harness nondeterminism): %s\n", st.Scenario, tail(u, 300))
					broken = true
				}
				for _, v := range st.Violations {
					r.Violation(st.Scenario+": "+v.Sig, map[string]any{"scenario": st.Scenario, "schedule": v.Schedule, "bound": v.Bound, "detail": v.Detail, "trace": v.Trace})
				}
				if len(perScenario) < 40 {
					perScenario = append(perScenario, map[string]any{"scenario": st.Scenario, "executions": st.Executions, "decisions": st.Steps, "distinct_outcomes": len(st.OutcomeHashes), "bound_completed": st.BoundCompleted, "exhaustive_within_bounds": st.Exhaustive})
				}
				if nsc%37 == 1 && st.SampleSchedule != nil {
					r.Sample(map[string]any{"scenario": st.Scenario, "schedule": st.SampleSchedule})
				}
			}
		}
		r.Set("scenario_count", nsc)
	}
	for si, sc := range scs {
		if *fOnly != "" && sc.Name != *fOnly {
			continue
		}
		bounds := p.QuickBounds
		if r.Thorough() {
			bounds = p.ThoroughBounds
		}
		if m, ok := p.PerScenario[sc.Name]; ok {
			if b, ok := m[r.Tier()]; ok {
				bounds = b
			}
		}
		// every scenario gets an equal share of what is left
		left := time.Until(deadline)
		share := left / time.Duration(len(scs)-si)
		if share < 5*time.Second {
			share = 5 * time.Second
		}
		scDeadline := time.Now().Add(share)
		bj, _ := json.Marshal(bounds)
		outs := make([]*workerOut, shards)
		errs := make([]string, shards)
		var wg sync.WaitGroup
		for i := 0; i < shards; i++ {
			wg.Add(1)
			go func(i int) {
				defer wg.Done()
				cmd := exec.Command(os.Args[0], "-vsworker", sc.Name, "-vsshard", fmt.Sprintf("%d/%d", i, shards), "-vsbounds", string(bj), "-vsdeadline", fmt.Sprint(scDeadline.Unix()))
				cmd.Env = append(os.Environ(), "GOMAXPROCS=1")
				var so, se bytes.Buffer
				cmd.Stdout, cmd.Stderr = &so, &se
				if err := cmd.Run(); err != nil {
					errs[i] = fmt.Sprintf("worker %d: %v: %s", i, err, tail(se.String(), 1500))
					return
				}
				var wo workerOut
				if err := json.Unmarshal(so.Bytes(), &wo); err != nil {
					errs[i] = fmt.Sprintf("worker %d: bad output: %v: %s", i, err, tail(so.String()+se.String(), 800))
					return
				}
				outs[i] = &wo
			}(i)
		}
		wg.Wait()
		ocs := map[string]bool{}
		var scExec, scSteps int64
		exhaustive := true
		var completed *vsched.Bound
		for i, wo := range outs {
			if wo == nil {
				fmt.Fprintf(os.Stderr, "%s: %s\n", sc.Name, errs[i])
				broken = true
				continue
			}
			st := wo.Stats
			scExec += st.Executions
			scSteps += st.Steps
			horizon += st.Horizon
			leaked += st.Leaked
			if st.MaxDepth > maxDepth {
				maxDepth = st.MaxDepth
			}
			for _, h := range st.OutcomeHashes {
				ocs[h] = true
			}
			if !st.Exhaustive {
				exhaustive = false
			}
			if st.BoundCompleted != nil && (completed == nil || less(*st.BoundCompleted, *completed)) {
				completed = st.BoundCompleted
			} else if st.BoundCompleted == nil {
				completed = &vsched.Bound{Preempt: -1, Dev: -1}
			}
			for _, u := range wo.Unconfirmed {
				fmt.Fprintf(os.Stderr, "%s: schedule did not reproduce identically (harness nondeterminism): %s\n", sc.Name, tail(u, 300))
				broken = true
			}
			for _, v := range st.Violations {
				r.Violation(sc.Name+": "+v.Sig, map[string]any{"scenario": sc.Name, "schedule": v.Schedule, "bound": v.Bound, "detail": v.Detail, "trace": v.Trace})
			}
			if i == 0 && st.SampleSchedule != nil {
				r.Sample(map[string]any{"scenario": sc.Name, "schedule": st.SampleSchedule})
			}
		}
		if !exhaustive {
			r.CapHit("time budget reached in scenario " + sc.Name)
		}
		totalExec += scExec
		totalSteps += scSteps
		outcomes += len(ocs)
		perScenario = append(perScenario, map[string]any{"scenario": sc.Name, "executions": scExec, "decisions": scSteps, "distinct_outcomes": len(ocs), "bounds": bounds, "bound_completed": completed, "exhaustive_within_bounds": exhaustive})
		if len(ocs) <= 1 && scExec > 1 && sc.Outcome != nil {
			fmt.Fprintf(os.Stderr, "%s: only %d distinct outcome(s) over %d executions: the harness did not collide (vacuous)\n", sc.Name, len(ocs), scExec)
		}
	}
	if broken {
		fmt.Fprintln(os.Stderr, "check broken (worker failure or non-reproducible schedule): no verdict")
		os.Exit(2)
	}
	r.Set("states", totalExec)
	r.Set("transitions", totalSteps)
	r.Set("traces_validated_against_impl", totalExec)
	r.Set("executions", totalExec)
	r.Set("evaluations", totalExec)
	r.Set("distinct_nontrivial", outcomes)
	r.Set("distinct_outcomes", outcomes)
	r.Set("max_depth", maxDepth)
	r.Set("horizon_hits", horizon)
	r.Set("leaked_threads", leaked)
	r.Set("scenarios", perScenario)
	r.Rule("states = complete executions of the real code under the deterministic scheduler (each is one distinct schedule/fault choice sequence), transitions = scheduling/environment decisions taken; exploration = iterative preemption/deviation bounding (DFS over choice sequences, every execution run to completion); distinct_nontrivial = distinct final observations summed over scenarios")
	r.Assume("scheduling points at sync/atomic/channel/timer operations of the instrumented files only; plain unsynchronised memory accesses and Go memory-model reorderings are not modelled (sequential consistency)")
	if p.Finish != nil {
		p.Finish(r)
	}
	r.Finish()
}

func less(a, b vsched.Bound) bool {
	return a.Preempt+a.Dev < b.Preempt+b.Dev
}

func tail(s string, n int) string {
	if len(s) <= n {
		return s
	}
	return s[len(s)-n:]
}

func replay(r *vlib.Run, p *Plan) {
	b, err := os.ReadFile(r.ReplayArg)
	if err != nil {
		fmt.Fprintln(os.Stderr, err)
		os.Exit(2)
	}
	var f struct {
		Detail struct {
			Scenario string `json:"scenario"`
			Schedule []int  `json:"schedule"`
		} `json:"detail"`
	}
	json.Unmarshal(b, &f)
	sc := find(p, f.Detail.Scenario)
	if sc == nil {
		fmt.Fprintln(os.Stderr, "replay: unknown scenario")
		os.Exit(2)
	}
	e := &vsched.Explorer{Sc: sc}
	res := e.Replay(f.Detail.Schedule, true)
	for _, s := range res.Steps {
		fmt.Printf("T%d %-8s -> %d/%d [%s]\n", s.Tid, s.Op, s.Chosen, s.N, s.Desc)
	}
	sig, detail := sc.Check(res)
	fmt.Printf("status=%d blocked=%v\nverdict: %q\n%v\n", res.Status, res.Blocked, sig, detail)
	if sig != "" {
		fmt.Printf("VIOLATION property=%s replay=%s\n", r.ID, r.ReplayArg)
		os.Exit(1)
	}
	os.Exit(0)
}

var _ = sort.Strings
