#!/bin/bash
# Shared prebuild of C15/C16 (called by checks/<ID>/prebuild with the check's gen dir as $1):
# derive <gen>/alive_dialer_set.go from the CURRENT working tree of $VERIF_REPO: identical to
# component/outbound/dialer/alive_dialer_set.go except that its fastrand import points at verifx/fastrandx
# (hookable Intn, see shared_inject/dialer_api/verifx/fastrandx). check.json "replace" feeds the copy to vbuild,
# which instruments it like the original (Go refuses overlays inside GOMODCACHE, so fastrand itself cannot be
# replaced). The copy is shared by concurrent runs of the same check, so it is guarded by a lock that is held
# until vbuild of THIS run has consumed it (overlay.json written) or 5 minutes passed.
set -eu
GEN="$1"
SRC="$VERIF_REPO/component/outbound/dialer/alive_dialer_set.go"
mkdir -p "$GEN"
exec 9>"$GEN/.lock"
flock 9
grep -q '"github.com/daeuniverse/outbound/pkg/fastrand"' "$SRC" || { echo "prebuild: fastrand import not found in $SRC" >&2; exit 1; }
sed 's|"github.com/daeuniverse/outbound/pkg/fastrand"|fastrand "github.com/daeuniverse/dae/verifx/fastrandx"|' "$SRC" > "$GEN/alive_dialer_set.go.tmp"
mv "$GEN/alive_dialer_set.go.tmp" "$GEN/alive_dialer_set.go"
STAMP="$GEN/.stamp.$$"
touch "$STAMP"
( i=0; while [ $i -lt 600 ] && [ ! "$VERIF_WORKDIR/overlay.json" -nt "$STAMP" ]; do sleep 0.5; i=$((i+1)); done; rm -f "$STAMP" ) </dev/null >/dev/null 2>&1 &
exit 0
