// Package vsched is engine S: a cooperative deterministic scheduler for real Go code whose
// sync / atomic / time / context / channel operations were rewritten (by vbuild) onto shims that
// call Point before every visible operation. Exactly one managed thread runs at a time; every
// scheduling decision and every environment answer is a recorded choice, so an execution is a
// pure function of its choice sequence and can be replayed and systematically enumerated
// (explore.go: iterative preemption/deviation bounding).
package vsched

import (
	"fmt"
	"reflect"
	"runtime"
	"sort"
	"strings"
	"sync"
	"sync/atomic"
	"time"
	"unsafe"
)

// Goroutine identity: the runtime's per-goroutine profiler-label slot (pushed by the runtime via linkname for
// exactly this kind of use) holds the *Thread of a managed thread. Plain `go` statements in UNinstrumented code
// inherit the parent's label; such goroutines must not touch instrumented objects (stated limit).
//
//go:linkname runtime_getProfLabel runtime/pprof.runtime_getProfLabel
func runtime_getProfLabel() unsafe.Pointer

//go:linkname runtime_setProfLabel runtime/pprof.runtime_setProfLabel
func runtime_setProfLabel(labels unsafe.Pointer)

// ---- operations -------------------------------------------------------------------------------

type OpKind uint8

const (
	OpStart OpKind = iota
	OpLock
	OpUnlock
	OpRLock
	OpRUnlock
	OpAtomicLoad
	OpAtomicStore
	OpAtomicRMW
	OpSend
	OpRecv
	OpClose
	OpChanLen
	OpSelect
	OpWait
	OpWgAdd
	OpMapOp
	OpPool
	OpOnce
	OpCond
	OpSpawn
	OpTime
	OpTimerOp
	OpChoose
	OpYield
	OpCtx
	OpExit
	OpIO
)

var opNames = [...]string{"start", "lock", "unlock", "rlock", "runlock", "aload", "astore", "armw", "send", "recv", "close", "chanlen", "select", "wait", "wgadd", "mapop", "pool", "once", "cond", "spawn", "time", "timerop", "choose", "yield", "ctx", "exit", "io"}

func (k OpKind) String() string { return opNames[k] }

type Thread struct {
	ID      int
	Name    string
	wake    chan struct{}
	done    bool
	pred    func() bool
	op      OpKind
	obj     uintptr
	blocked bool // set while parked with a false predicate (for reports)
	fn      func()
	exited  chan struct{}
	daemon  bool
	selPick  int
	selArmed bool
}

type timerEnt struct {
	seq      int
	deadline int64
	fire     func()
	active   bool
	name     string
}

// Step is one recorded decision.
type Step struct {
	N      int    // number of alternatives
	Chosen int    // index taken
	Kind   uint8  // 0 = thread scheduling, 1 = Choose (environment), 2 = select-case choice
	Pre    uint64 // bitmask: alternative i costs one preemption
	Dev    uint64 // bitmask: alternative i costs one deviation
	Tid    int    // running thread at the decision
	Op     OpKind
	Desc   string // compact description of alternatives (debug/replay files)
}

type Status int

const (
	StQuiescent Status = iota // no enabled thread, no fireable timer
	StHorizon                 // step horizon exceeded
	StPanic                   // a managed thread panicked
	StDiverged                // replay prefix did not fit the execution (hidden nondeterminism): hard error
)

type Result struct {
	Status   Status
	Steps    []Step
	Blocked  []string // descriptions of threads still blocked at the end
	PanicMsg string
	Now      int64
	Leaked   int
	Threads  int
}

type Sched struct {
	threads  []*Thread
	cur      atomic.Pointer[Thread]
	timers   []*timerEnt
	timerSeq int
	now      int64
	prefix   []int
	steps    []Step
	maxSteps int
	horizon  int64 // virtual-time horizon (ns); timers beyond it never fire
	aborting atomic.Bool
	finished chan Status
	status   Status
	panicMsg string
	objIDs   map[uintptr]int
	lastTid  int
	mu       sync.Mutex // guards finished signalling only
	ended    bool
	Trace    bool
	traceBuf []string
	keep     []any // keeps identity-relevant objects alive during the execution
	costedSwitch bool
	picks        int
}

var active atomic.Pointer[Sched]

// Active reports whether the calling goroutine is a managed thread of a running execution.
func Active() bool { return curThread() != nil }

func curThread() *Thread {
	s := active.Load()
	if s == nil {
		return nil
	}
	t := s.cur.Load()
	if t == nil || unsafe.Pointer(t) != runtime_getProfLabel() {
		return nil
	}
	if s.aborting.Load() {
		return nil
	}
	return t
}

func curSched() (*Sched, *Thread) {
	t := curThread()
	if t == nil {
		return nil, nil
	}
	return active.Load(), t
}

// tearingDown reports whether the calling goroutine is a managed thread being unwound by teardown.
func tearingDown() bool {
	s := active.Load()
	if s == nil || !s.aborting.Load() {
		return false
	}
	t := s.cur.Load()
	return t != nil && unsafe.Pointer(t) == runtime_getProfLabel()
}

// TearingDown reports whether the calling goroutine is a managed thread being unwound by teardown (its deferred
// functions are running because the execution ended while it was parked). Shims use it to keep that unwinding
// from tripping over primitives whose state the parked operation had changed (a Cond waiter has released its lock).
func TearingDown() bool { return tearingDown() }

// Options of one execution.
type Options struct {
	Prefix     []int
	MaxSteps   int
	HorizonNs  int64
	StartNowNs int64
	Trace      bool
	CostedSwitch bool
}

var runMu sync.Mutex

// Run executes body as thread 0 under the scheduler, following opts.Prefix and taking choice 0 afterwards.
func Run(body func(), opts Options) *Result {
	runMu.Lock()
	defer runMu.Unlock()
	s := &Sched{prefix: opts.Prefix, maxSteps: opts.MaxSteps, horizon: opts.HorizonNs, now: opts.StartNowNs,
		finished: make(chan Status, 1), objIDs: map[uintptr]int{}, Trace: opts.Trace, costedSwitch: opts.CostedSwitch}
	if s.maxSteps == 0 {
		s.maxSteps = 20000
	}
	if s.horizon == 0 {
		s.horizon = int64(time.Hour)
	}
	if s.now == 0 {
		s.now = 1_700_000_000_000_000_000
	}
	s.horizon += s.now
	t0 := s.newThread("main", body)
	active.Store(s)
	s.cur.Store(t0)
	go s.threadMain(t0)
	t0.wake <- struct{}{}
	st := <-s.finished
	// teardown: resume every unfinished thread in abort mode (Goexit at its park point)
	s.aborting.Store(true)
	s.cur.Store(nil)
	leaked := 0
	var blocked []string
	for _, t := range s.threads {
		if !t.done {
			blocked = append(blocked, fmt.Sprintf("T%d(%s) at %s", t.ID, t.Name, t.op))
		}
	}
	for _, t := range s.threads {
		select {
		case <-t.exited:
			continue
		default:
		}
		s.cur.Store(t)
		select {
		case t.wake <- struct{}{}:
		default:
		}
		select {
		case <-t.exited:
		case <-time.After(2 * time.Second):
			leaked++
		}
		s.cur.Store(nil)
	}
	active.Store(nil)
	return &Result{Status: st, Steps: s.steps, Blocked: blocked, PanicMsg: s.panicMsg, Now: s.now, Leaked: leaked, Threads: len(s.threads)}
}

func (s *Sched) newThread(name string, fn func()) *Thread {
	t := &Thread{ID: len(s.threads), Name: name, wake: make(chan struct{}, 1), fn: fn, exited: make(chan struct{})}
	s.threads = append(s.threads, t)
	return t
}

type abortSignal struct{}

func (s *Sched) threadMain(t *Thread) {
	defer close(t.exited)
	runtime_setProfLabel(unsafe.Pointer(t))
	<-t.wake
	if s.aborting.Load() {
		return
	}
	normal := false
	defer func() {
		if normal {
			return
		}
		if s.aborting.Load() {
			// Goexit during teardown, or a panic provoked by teardown: swallow
			recover()
			return
		}
		if e := recover(); e != nil {
			buf := make([]byte, 8192)
			buf = buf[:runtime.Stack(buf, false)]
			s.panicMsg = fmt.Sprintf("T%d(%s): %v\n%s", t.ID, t.Name, e, buf)
			t.done = true
			s.end(StPanic)
			return
		}
		// runtime.Goexit called by the code under test (or t.FailNow-like): treat as thread exit
		t.done = true
		s.afterExit(t)
	}()
	t.fn()
	normal = true
	t.done = true
	s.afterExit(t)
}

// afterExit: the finished thread hands the baton to the next runnable entity.
func (s *Sched) afterExit(t *Thread) {
	t.op = OpExit
	next := s.pick(t)
	if next == nil {
		return // execution ended (signalled in pick)
	}
	s.cur.Store(next)
	next.wake <- struct{}{}
}

func (s *Sched) end(st Status) {
	s.mu.Lock()
	defer s.mu.Unlock()
	if s.ended {
		return
	}
	s.ended = true
	s.status = st
	s.finished <- st
}

// park blocks the calling thread until it is scheduled again (or the execution is torn down).
func (s *Sched) park(t *Thread) {
	<-t.wake
	if s.aborting.Load() {
		runtime.Goexit()
	}
}

func (s *Sched) objID(p uintptr) int {
	if p == 0 {
		return 0
	}
	id, ok := s.objIDs[p]
	if !ok {
		id = len(s.objIDs) + 1
		s.objIDs[p] = id
	}
	return id
}

// yield is the scheduling point: the calling thread announces its next visible operation (enabled iff
// pred is nil or true) and the scheduler decides who runs next.
func (s *Sched) yield(t *Thread, kind OpKind, obj uintptr, pred func() bool) {
	t.pred, t.op, t.obj = pred, kind, obj
	next := s.pick(t)
	if next == nil {
		// execution ended while we were the running thread: park until teardown
		s.park(t)
		return
	}
	if next != t {
		s.cur.Store(next)
		next.wake <- struct{}{}
		s.park(t)
	}
	t.pred = nil
}

type alt struct {
	t   *Thread
	tm  *timerEnt
	pre bool
	dev bool
}

// pick decides the next thread to run; fires timers on the way. Returns nil when the execution ended.
func (s *Sched) pick(cur *Thread) *Thread {
	for {
		s.picks++
		if len(s.steps) >= s.maxSteps || s.picks >= 50*s.maxSteps {
			s.end(StHorizon)
			return nil
		}
		var alts []alt
		curEnabled := false
		if cur != nil && !cur.done && (cur.pred == nil || cur.pred()) {
			curEnabled = true
			alts = append(alts, alt{t: cur})
		}
		anyThread := curEnabled
		for _, th := range s.threads {
			if th == cur || th.done {
				continue
			}
			if th.pred == nil || th.pred() {
				alts = append(alts, alt{t: th, pre: curEnabled || (s.costedSwitch && anyThread)})
				anyThread = true
			}
		}
		// fireable timers: all active timers sharing the minimum deadline (within the horizon)
		var minD int64 = -1
		for _, tm := range s.timers {
			if tm.active && tm.deadline <= s.horizon && (minD < 0 || tm.deadline < minD) {
				minD = tm.deadline
			}
		}
		if minD >= 0 {
			for _, tm := range s.timers {
				if tm.active && tm.deadline == minD {
					alts = append(alts, alt{tm: tm, dev: anyThread})
				}
			}
		}
		if len(alts) == 0 {
			for _, th := range s.threads {
				if !th.done {
					th.blocked = true
				}
			}
			s.end(StQuiescent)
			return nil
		}
		idx := 0
		if len(alts) > 1 || len(s.steps) < len(s.prefix) {
			// a decision is recorded only when there is more than one alternative (keeps schedules short),
			// except while replaying a prefix where positions must line up exactly.
		}
		if len(alts) > 1 {
			pos := len(s.steps)
			if pos < len(s.prefix) {
				idx = s.prefix[pos]
				if idx < 0 || idx >= len(alts) {
					s.panicMsg = fmt.Sprintf("replay divergence at step %d: choice %d of %d alternatives", pos, idx, len(alts))
					s.end(StDiverged)
					return nil
				}
			}
			st := Step{N: len(alts), Chosen: idx, Kind: 0}
			if cur != nil {
				st.Tid, st.Op = cur.ID, cur.op
			}
			for i, a := range alts {
				if i >= 64 {
					break
				}
				if a.pre {
					st.Pre |= 1 << uint(i)
				}
				if a.dev {
					st.Dev |= 1 << uint(i)
				}
			}
			if s.Trace {
				var sb strings.Builder
				for i, a := range alts {
					if i > 0 {
						sb.WriteByte(' ')
					}
					if a.t != nil {
						fmt.Fprintf(&sb, "T%d:%s#%d", a.t.ID, a.t.op, s.objID(a.t.obj))
					} else {
						fmt.Fprintf(&sb, "timer:%s@+%dms", a.tm.name, (a.tm.deadline-s.now)/1e6)
					}
				}
				st.Desc = sb.String()
			}
			s.steps = append(s.steps, st)
		}
		a := alts[idx]
		if a.tm != nil {
			a.tm.active = false
			if a.tm.deadline > s.now {
				s.now = a.tm.deadline
			}
			s.gcTimers()
			a.tm.fire()
			continue
		}
		return a.t
	}
}

func (s *Sched) gcTimers() {
	j := 0
	for _, tm := range s.timers {
		if tm.active {
			s.timers[j] = tm
			j++
		}
	}
	for k := j; k < len(s.timers); k++ {
		s.timers[k] = nil
	}
	s.timers = s.timers[:j]
}

// ---- API used by the shims --------------------------------------------------------------------

// Point is a scheduling point before a visible operation on obj that is always enabled.
func Point(kind OpKind, obj unsafe.Pointer) {
	if s, t := curSched(); t != nil {
		s.yield(t, kind, uintptr(obj), nil)
	}
}

// Block is a scheduling point before an operation that is enabled only when pred() holds.
// Returns false when the caller is not a managed thread (the shim then uses the real primitive).
func Block(kind OpKind, obj unsafe.Pointer, pred func() bool) bool {
	s, t := curSched()
	if t == nil {
		if tearingDown() {
			runtime.Goexit() // a blocking operation during teardown unwinding: keep unwinding
		}
		return false
	}
	s.yield(t, kind, uintptr(obj), pred)
	return true
}

// Go starts fn as a managed thread when called from a managed thread, else as a plain goroutine.
func Go(fn func()) {
	s, t := curSched()
	if t == nil {
		if tearingDown() {
			return
		}
		go fn()
		return
	}
	nt := s.newThread("go", fn)
	go s.threadMain(nt)
	s.yield(t, OpSpawn, 0, nil)
}

// GoNamed is Go with a thread name (harness use).
func GoNamed(name string, fn func()) {
	s, t := curSched()
	if t == nil {
		if tearingDown() {
			return
		}
		go fn()
		return
	}
	nt := s.newThread(name, fn)
	go s.threadMain(nt)
	s.yield(t, OpSpawn, 0, nil)
}

// Choose is an environment decision point with n outcomes; outcome 0 is the well-behaved default, any other
// outcome costs one deviation.
func Choose(n int, what string) int {
	s, t := curSched()
	if t == nil || n <= 1 {
		return 0
	}
	return s.choose(t, n, 1, what, ^uint64(1))
}

// ChooseFree is a decision point whose outcomes all cost nothing (e.g. Go's select among several ready cases).
func ChooseFree(n int, what string) int {
	s, t := curSched()
	if t == nil || n <= 1 {
		return 0
	}
	return s.choose(t, n, 2, what, 0)
}

func (s *Sched) choose(t *Thread, n int, kind uint8, what string, dev uint64) int {
	if len(s.steps) >= s.maxSteps {
		s.end(StHorizon)
		s.park(t)
		return 0
	}
	idx := 0
	pos := len(s.steps)
	if pos < len(s.prefix) {
		idx = s.prefix[pos]
		if idx < 0 || idx >= n {
			s.panicMsg = fmt.Sprintf("replay divergence at step %d (choose %s): choice %d of %d", pos, what, idx, n)
			s.end(StDiverged)
			s.park(t)
			return 0
		}
	}
	st := Step{N: n, Chosen: idx, Kind: kind, Tid: t.ID, Op: OpChoose, Dev: dev}
	if s.Trace {
		st.Desc = what
	}
	s.steps = append(s.steps, st)
	return idx
}

// Now returns the virtual time (ns since epoch) for a managed thread; ok=false otherwise.
func Now() (int64, bool) {
	s, t := curSched()
	if t == nil {
		return 0, false
	}
	return s.now, true
}

// TimerHandle identifies a virtual timer.
type TimerHandle struct{ e *timerEnt }

// AddTimer arms a virtual timer firing fn (in scheduler context: fn must not block; it may call SpawnFromTimer).
func AddTimer(d int64, name string, fn func()) (TimerHandle, bool) {
	s, t := curSched()
	if t == nil {
		return TimerHandle{}, false
	}
	if d < 0 {
		d = 0
	}
	s.timerSeq++
	e := &timerEnt{seq: s.timerSeq, deadline: s.now + d, fire: fn, active: true, name: name}
	s.timers = append(s.timers, e)
	return TimerHandle{e}, true
}

// Stop disarms; reports whether the timer was still armed.
func (h TimerHandle) Stop() bool {
	if h.e == nil {
		return false
	}
	was := h.e.active
	h.e.active = false
	return was
}

func (h TimerHandle) Active() bool { return h.e != nil && h.e.active }

// SpawnFromTimer creates a managed thread from within a timer callback (AfterFunc semantics).
func SpawnFromTimer(name string, fn func()) {
	s := active.Load()
	if s == nil {
		go fn()
		return
	}
	nt := s.newThread(name, fn)
	go s.threadMain(nt)
}

// Keep pins v for the duration of the execution (identity stability of addresses used as object keys).
func Keep(v any) {
	if s, t := curSched(); t != nil {
		s.keep = append(s.keep, v)
	}
}

// ---- channel helpers (native channels; readiness is computed from the runtime's own header) ----

type hchanHdr struct {
	qcount   uint
	dataqsiz uint
	buf      unsafe.Pointer
	elemsize uint16
	closed   uint32
}

func chanPtr(ch any) unsafe.Pointer {
	v := reflect.ValueOf(ch)
	if !v.IsValid() || v.Kind() != reflect.Chan || v.IsNil() {
		return nil
	}
	return v.UnsafePointer()
}

func chClosed(p unsafe.Pointer) bool { return atomic.LoadUint32(&(*hchanHdr)(p).closed) != 0 }
func chLen(p unsafe.Pointer) int {
	return int(atomic.LoadUintptr((*uintptr)(unsafe.Pointer(&(*hchanHdr)(p).qcount))))
}
func chCap(p unsafe.Pointer) int { return int((*hchanHdr)(p).dataqsiz) }

func init() {
	// self-test of the hchan layout assumption (go1.26): fail loudly if it does not hold
	c := make(chan int, 3)
	p := chanPtr(c)
	ok := chCap(p) == 3 && chLen(p) == 0 && !chClosed(p)
	c <- 1
	ok = ok && chLen(p) == 1
	close(c)
	ok = ok && chClosed(p)
	if !ok {
		panic("vsched: runtime hchan layout assumption does not hold for this Go version")
	}
}

func recvReady(p unsafe.Pointer) bool { return p != nil && (chLen(p) > 0 || chClosed(p)) }
func sendReady(p unsafe.Pointer) bool {
	return p != nil && (chLen(p) < chCap(p) || chClosed(p))
}

// Unbuffered rendezvous is not modelled: the instrumented code base uses unbuffered channels only as
// close-signals. A send on an unbuffered channel under the scheduler is a hard error of the check.
func unsupported(msg string) { panic("vsched: unsupported under the scheduler: " + msg) }

func Send[T any](ch chan<- T, v T) {
	_, t := curSched()
	if t == nil {
		ch <- v
		return
	}
	p := chanPtr(ch)
	if p == nil {
		Block(OpSend, nil, func() bool { return false })
		return
	}
	if chCap(p) == 0 && !chClosed(p) {
		unsupported("send on unbuffered channel")
	}
	Block(OpSend, p, func() bool { return sendReady(p) })
	ch <- v
}

func Recv[T any](ch <-chan T) T {
	_, t := curSched()
	if t == nil {
		return <-ch
	}
	p := chanPtr(ch)
	Block(OpRecv, p, func() bool { return recvReady(p) })
	return <-ch
}

func Recv2[T any](ch <-chan T) (T, bool) {
	_, t := curSched()
	if t == nil {
		v, ok := <-ch
		return v, ok
	}
	p := chanPtr(ch)
	Block(OpRecv, p, func() bool { return recvReady(p) })
	v, ok := <-ch
	return v, ok
}

func Close[T any](ch chan<- T) {
	Point(OpClose, chanPtr(ch))
	close(ch)
}

func Len[T any](ch chan T) int {
	Point(OpChanLen, chanPtr(ch))
	return len(ch)
}

// SelCase describes one communication case of a select statement.
type SelCase struct {
	p    unsafe.Pointer
	send bool
}

func R(ch any) SelCase { return SelCase{p: chanPtr(ch)} }
func S(ch any) SelCase {
	p := chanPtr(ch)
	return SelCase{p: p, send: true}
}

func (c SelCase) ready() bool {
	if c.send {
		return sendReady(c.p)
	}
	return recvReady(c.p)
}

// SelectWait is emitted before every rewritten select statement. Under the scheduler it blocks until a case
// is ready (unless the select has a default), picks one ready case (the choice among several ready cases is an
// explored, cost-free decision mirroring Go's uniform pick) and arms only that case: Arm/ArmS return the real
// channel for the picked index and nil for all others, so the following native select takes exactly the picked
// branch (or its default when nothing was ready). Outside the scheduler it does nothing and Arm is the identity.
func SelectWait(hasDefault bool, cases ...SelCase) {
	_, t := curSched()
	if t == nil {
		return
	}
	for _, c := range cases {
		if c.send && c.p != nil && chCap(c.p) == 0 && !chClosed(c.p) {
			unsupported("select send on unbuffered channel")
		}
	}
	if hasDefault {
		Point(OpSelect, nil)
	} else {
		Block(OpSelect, nil, func() bool {
			for _, c := range cases {
				if c.ready() {
					return true
				}
			}
			return false
		})
	}
	var ready []int
	for i, c := range cases {
		if c.ready() {
			ready = append(ready, i)
		}
	}
	t.selArmed = true
	switch len(ready) {
	case 0:
		t.selPick = -1
	case 1:
		t.selPick = ready[0]
	default:
		t.selPick = ready[ChooseFree(len(ready), "select")]
	}
}

func Arm[T any](i int, ch <-chan T) <-chan T {
	if t := curThread(); t != nil && t.selArmed && t.selPick != i {
		return nil
	}
	return ch
}

func ArmS[T any](i int, ch chan<- T) chan<- T {
	if t := curThread(); t != nil && t.selArmed && t.selPick != i {
		return nil
	}
	return ch
}

// SelectDone clears the arming (emitted as the first statement of every case body is not possible for empty
// bodies, so arming is simply overwritten by the next SelectWait of the same thread; nested selects inside a
// case body run their own SelectWait first).
func SelectDone() {
	if t := curThread(); t != nil {
		t.selArmed = false
	}
}

// Yield is an explicit scheduling point (spin loops, harness code).
func Yield() { Point(OpYield, nil) }

// WaitUntil blocks the managed thread until cond holds (harness helper; cond must only read state).
func WaitUntil(cond func() bool) {
	if !Block(OpWait, nil, cond) {
		for !cond() {
			runtime.Gosched()
		}
	}
}

// FormatSteps renders a schedule for replay files.
func FormatSteps(steps []Step) []int {
	out := make([]int, len(steps))
	for i, s := range steps {
		out[i] = s.Chosen
	}
	return out
}

func SortedKeysAny(m any) []reflect.Value {
	v := reflect.ValueOf(m)
	keys := v.MapKeys()
	sort.Slice(keys, func(i, j int) bool { return fmt.Sprint(keys[i].Interface()) < fmt.Sprint(keys[j].Interface()) })
	return keys
}

// MapKeys returns the keys of m in a canonical order (any order is a legal Go behaviour: refinement).
func MapKeys[M ~map[K]V, K comparable, V any](m M) []K {
	keys := make([]K, 0, len(m))
	for k := range m {
		keys = append(keys, k)
	}
	if len(keys) > 1 {
		strs := make([]string, len(keys))
		for i, k := range keys {
			strs[i] = fmt.Sprint(any(k))
		}
		idx := make([]int, len(keys))
		for i := range idx {
			idx[i] = i
		}
		sort.SliceStable(idx, func(a, b int) bool { return strs[idx[a]] < strs[idx[b]] })
		out := make([]K, len(keys))
		for i, j := range idx {
			out[i] = keys[j]
		}
		return out
	}
	return keys
}

// WaitSend blocks (under the scheduler) until a send on ch would not block; the rewritten code then performs
// the native send itself.
func WaitSend(ch any) {
	_, t := curSched()
	if t == nil {
		if tearingDown() {
			runtime.Goexit()
		}
		return
	}
	p := chanPtr(ch)
	if p == nil {
		Block(OpSend, nil, func() bool { return false })
		return
	}
	if chCap(p) == 0 && !chClosed(p) {
		unsupported("send on unbuffered channel")
	}
	Block(OpSend, p, func() bool { return sendReady(p) })
}

func LenAny(ch any) int {
	p := chanPtr(ch)
	Point(OpChanLen, p)
	if p == nil {
		return 0
	}
	return reflect.ValueOf(ch).Len()
}

// RangeCh is `for v := range ch` with a scheduling point per receive.
func RangeCh[T any](ch <-chan T) func(yield func(T) bool) {
	return func(yield func(T) bool) {
		for {
			v, ok := Recv2(ch)
			if !ok {
				return
			}
			if !yield(v) {
				return
			}
		}
	}
}

// RangeMap iterates a map in canonical key order (entries deleted during the loop are skipped, as in Go).
func RangeMap[M ~map[K]V, K comparable, V any](m M) func(yield func(K, V) bool) {
	return func(yield func(K, V) bool) {
		for _, k := range MapKeys(m) {
			v, ok := m[k]
			if !ok {
				continue
			}
			if !yield(k, v) {
				return
			}
		}
	}
}

// ThreadID returns the managed thread id of the caller (-1 outside the scheduler).
func ThreadID() int {
	if t := curThread(); t != nil {
		return t.ID
	}
	return -1
}

// Quiesce blocks the calling managed thread until no other thread is enabled (background workers have
// settled: all are done or waiting). Timers are not fired by this call unless nothing else can run.
func Quiesce() {
	s, t := curSched()
	if t == nil {
		return
	}
	s.yield(t, OpWait, 0, func() bool {
		for _, th := range s.threads {
			if th == t || th.done {
				continue
			}
			if th.pred == nil || th.pred() {
				return false
			}
		}
		return true
	})
}

// Blocked lists the other threads that are currently waiting (harness diagnostics).
func Blocked() []string {
	s, t := curSched()
	if t == nil {
		return nil
	}
	var out []string
	for _, th := range s.threads {
		if th != t && !th.done {
			out = append(out, fmt.Sprintf("T%d(%s)@%s", th.ID, th.Name, th.op))
		}
	}
	return out
}
