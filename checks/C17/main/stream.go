package main

import (
	"bufio"
	"bytes"
	"context"
	"encoding/json"
	"fmt"
	"io"
	"os"
	"os/exec"
	"path/filepath"
	"reflect"
	"runtime"
	"strings"
	"sync"
	"time"

	"github.com/daeuniverse/dae/common/assets"
	"github.com/daeuniverse/dae/component/dns"
	"github.com/daeuniverse/dae/component/routing"
	"github.com/daeuniverse/dae/config"
	"github.com/daeuniverse/dae/control"
	"github.com/daeuniverse/dae/pkg/config_parser"
	"github.com/daeuniverse/dae/verifx/vlib"
)

// Stream worker: one case per request line, one verdict per response line. Used for everything that
// reaches the optimizers / matcher builders: they spawn goroutines, and a panic in a goroutine cannot be
// recovered by the caller — the process dies, the coordinator sees EOF + a Go trace on stderr and blames
// the case in flight.

type sreq struct {
	ID     int      `json:"id"`
	Kind   string   `json:"kind"` // new | compile | dns | merge
	Text   string   `json:"text"` // configuration text; for kind merge: the entry path
	Groups []string `json:"groups,omitempty"`
	Chdir  string   `json:"chdir,omitempty"` // kind merge: working directory for this case
}

type sfield struct {
	Section    string `json:"section"`
	Key        string `json:"key"`
	HasDefault bool   `json:"has_default"`
	Default    string `json:"default"`
	Type       string `json:"type"`
	Value      string `json:"value"`
}

type sresp struct {
	ID        int      `json:"id"`
	Stage     string   `json:"stage"` // where it ended: parse | new | compile | dns | done
	Err       string   `json:"err,omitempty"`
	Panic     string   `json:"panic,omitempty"`
	Fields    []sfield `json:"fields,omitempty"`
	MatchSets int      `json:"match_sets,omitempty"`
	Groups    []string `json:"groups,omitempty"`
	Nodes     []string `json:"nodes,omitempty"`
	Filters   int      `json:"filters,omitempty"`
	Rules     int      `json:"rules,omitempty"`
	// kind merge: the merged sections, each rendered canonically, keyed by section name
	Sections   map[string]string `json:"sections,omitempty"`
	DupSection bool              `json:"dup_section,omitempty"`
}

func dumpStruct(section string, v any) []sfield {
	var out []sfield
	rv := reflect.ValueOf(v)
	rt := rv.Type()
	for i := 0; i < rt.NumField(); i++ {
		sf := rt.Field(i)
		key := sf.Tag.Get("mapstructure")
		if key == "" || key == "_" {
			continue
		}
		if sf.Type.Kind() == reflect.Struct {
			continue
		}
		def, has := sf.Tag.Lookup("default")
		out = append(out, sfield{Section: section, Key: key, HasDefault: has, Default: def, Type: sf.Type.String(), Value: fmt.Sprintf("%v", rv.Field(i).Interface())})
	}
	return out
}

func workerDatDir() string {
	d := filepath.Join(os.Getenv("VERIF_WORKDIR"), "c17-empty-dat")
	os.MkdirAll(d, 0o755)
	return d
}

func handle(req *sreq) *sresp {
	resp := &sresp{ID: req.ID, Stage: "parse"}
	log := control.VerifQuietLogger()
	finder := assets.NewLocationFinder([]string{workerDatDir()})
	p, msg := vlib.Try(func() {
		switch req.Kind {
		case "new", "dns":
			secs, err := config_parser.Parse(req.Text)
			if err != nil {
				resp.Err = err.Error()
				return
			}
			resp.Stage = "new"
			conf, err := config.New(secs)
			if err != nil {
				resp.Err = err.Error()
				return
			}
			resp.Fields = append(resp.Fields, dumpStruct("global", conf.Global)...)
			resp.Fields = append(resp.Fields, dumpStruct("dns", conf.Dns)...)
			resp.Fields = append(resp.Fields, dumpStruct("routing", conf.Routing)...)
			resp.Fields = append(resp.Fields, dumpStruct("dns.routing.request", conf.Dns.Routing.Request)...)
			resp.Fields = append(resp.Fields, dumpStruct("dns.routing.response", conf.Dns.Routing.Response)...)
			for _, g := range conf.Group {
				resp.Groups = append(resp.Groups, g.Name)
				resp.Filters += len(g.Filter)
			}
			for _, n := range conf.Node {
				resp.Nodes = append(resp.Nodes, string(n))
			}
			resp.Rules = len(conf.Routing.Rules)
			if req.Kind == "dns" {
				resp.Stage = "dns"
				_, err := dns.New(&conf.Dns, &dns.NewOption{
					Logger:                log,
					LocationFinder:        finder,
					UpstreamReadyCallback: func(*dns.Upstream) error { return nil },
				})
				if err != nil {
					resp.Err = err.Error()
					return
				}
			}
			resp.Stage = "done"
		case "merge":
			resp.Stage = "merge"
			if req.Chdir != "" {
				old, _ := os.Getwd()
				os.Chdir(req.Chdir)
				defer os.Chdir(old)
			}
			secs, _, err := config.NewMerger(req.Text).Merge()
			if err != nil {
				resp.Err = err.Error()
				if resp.Err == "" {
					resp.Err = "<empty error message>"
				}
				return
			}
			resp.Sections = map[string]string{}
			for _, s := range secs {
				if _, dup := resp.Sections[s.Name]; dup {
					resp.DupSection = true
				}
				var b strings.Builder
				canonSection(&b, fromImplSection(s))
				resp.Sections[s.Name] = b.String()
			}
			resp.Stage = "done"
		case "compile":
			resp.Stage = "compile"
			v, err := control.VerifCompileRouting(req.Text, req.Groups, []routing.RulesOptimizer{
				&routing.AliasOptimizer{},
				&routing.DatReaderOptimizer{Logger: log, LocationFinder: finder},
				&routing.MergeAndSortRulesOptimizer{},
				&routing.DeduplicateParamsOptimizer{},
			})
			if err != nil {
				resp.Err = err.Error()
				if resp.Err == "" {
					resp.Err = "<empty error message>"
				}
				return
			}
			resp.MatchSets = len(v.KernRules())
			resp.Stage = "done"
		default:
			resp.Err = "harness: unknown kind"
		}
	})
	if p {
		resp.Panic = msg
	}
	return resp
}

// drain waits until the goroutines the case spawned are gone. A goroutine that is panicking never
// finishes: the process dies while we wait, no verdict is written, and the coordinator blames THIS case
// (not the next one) and reads the real panic site from stderr. Bounded wait, used for attribution only.
func drain(baseline int) int {
	for i := 0; i < 20000; i++ {
		if runtime.NumGoroutine() <= baseline {
			return baseline
		}
		time.Sleep(100 * time.Microsecond)
	}
	return runtime.NumGoroutine() // something legitimately stays behind: accept the new level
}

func runStreamWorker() {
	in := bufio.NewReaderSize(os.Stdin, 1<<20)
	out := bufio.NewWriter(os.Stdout)
	baseline := runtime.NumGoroutine()
	for {
		line, err := in.ReadBytes('\n')
		if len(line) > 0 {
			var req sreq
			if json.Unmarshal(line, &req) == nil {
				resp := handle(&req)
				baseline = drain(baseline)
				b, _ := json.Marshal(resp)
				out.Write(append(b, '\n'))
				out.Flush()
			}
		}
		if err != nil {
			return
		}
	}
}

// ---- coordinator side ----

type sworker struct {
	cmd    *exec.Cmd
	in     io.WriteCloser
	out    *bufio.Reader
	stderr *bytes.Buffer
}

func startWorker() (*sworker, error) {
	cmd := exec.Command(os.Args[0], "-c17stream")
	in, err := cmd.StdinPipe()
	if err != nil {
		return nil, err
	}
	outp, err := cmd.StdoutPipe()
	if err != nil {
		return nil, err
	}
	w := &sworker{cmd: cmd, in: in, out: bufio.NewReaderSize(outp, 1<<20), stderr: &bytes.Buffer{}}
	cmd.Stderr = w.stderr
	if err := cmd.Start(); err != nil {
		return nil, err
	}
	return w, nil
}

func (w *sworker) stop() {
	w.in.Close()
	w.cmd.Wait()
}

type sresult struct {
	resp    *sresp
	crashed bool
	tail    string // stderr of the dead worker
	timeout bool
}

// runStream pushes all requests through n worker processes and returns results indexed like reqs.
func runStream(reqs []*sreq, n int) ([]sresult, error) {
	results := make([]sresult, len(reqs))
	var next int
	var mu sync.Mutex
	var wg sync.WaitGroup
	var firstErr error
	for k := 0; k < n; k++ {
		wg.Add(1)
		go func() {
			defer wg.Done()
			var w *sworker
			defer func() {
				if w != nil {
					w.stop()
				}
			}()
			for {
				mu.Lock()
				i := next
				next++
				mu.Unlock()
				if i >= len(reqs) {
					return
				}
				if w == nil {
					var err error
					if w, err = startWorker(); err != nil {
						mu.Lock()
						firstErr = err
						mu.Unlock()
						return
					}
				}
				reqs[i].ID = i
				b, _ := json.Marshal(reqs[i])
				_, werr := w.in.Write(append(b, '\n'))
				type rd struct {
					line []byte
					err  error
				}
				ch := make(chan rd, 1)
				go func(w *sworker) {
					line, err := w.out.ReadBytes('\n')
					ch <- rd{line, err}
				}(w)
				ctx, cancel := context.WithTimeout(context.Background(), 5*time.Minute)
				var got rd
				timedOut := false
				select {
				case got = <-ch:
				case <-ctx.Done():
					timedOut = true
					w.cmd.Process.Kill()
					got = <-ch
				}
				cancel()
				var resp sresp
				if !timedOut && werr == nil && got.err == nil && json.Unmarshal(got.line, &resp) == nil && resp.ID == i {
					results[i] = sresult{resp: &resp}
					continue
				}
				// the worker died (or hung) on this case
				w.in.Close()
				w.cmd.Wait()
				results[i] = sresult{crashed: !timedOut, timeout: timedOut, tail: w.stderr.String()}
				w = nil
			}
		}()
	}
	wg.Wait()
	return results, firstErr
}
