//go:build verif

package control

import (
	"context"
	"net/netip"

	"github.com/daeuniverse/dae/common/consts"
	"github.com/daeuniverse/dae/component/outbound"
	"github.com/daeuniverse/dae/component/outbound/dialer"
	"github.com/sirupsen/logrus"
)

// VerifGlue drives the REAL control-plane selection glue ControlPlane.chooseProxyDialer (control/dial.go: first
// selection for the flow's type, then the alternate-IP-family retry) on a control plane that consists of one
// user-defined outbound group only — the method touches nothing else for a non-reserved outbound without reroute.
type VerifGlue struct{ cp *ControlPlane }

func VerifNewGlue(g *outbound.DialerGroup, log *logrus.Logger) *VerifGlue {
	cp := &ControlPlane{log: log, soMarkFromDae: 0x100}
	cp.outbounds = make([]*outbound.DialerGroup, int(consts.OutboundUserDefinedMin)+1)
	cp.outbounds[consts.OutboundUserDefinedMin] = g
	// domain+ : a flow with a sniffed domain dials the domain (not an IP literal), which makes the first selection non-strict
	cp.dialMode = consts.DialMode_DomainPlus
	return &VerifGlue{cp}
}

// Choose performs the selection of one flow: network "tcp"/"udp", both endpoints of IP family v6 or v4, with a sniffed
// domain (first selection non-strict) or without (dial by IP: strict), excluding `excluded` like the UDP endpoint
// failover paths do.
func (v *VerifGlue) Choose(network string, v6 bool, withDomain bool, excluded *dialer.Dialer) (*dialer.Dialer, *dialer.NetworkType, error) {
	p := &proxyDialParam{
		Outbound: consts.OutboundUserDefinedMin,
		Src:      netip.MustParseAddrPort("192.0.2.10:40000"),
		Dest:     netip.MustParseAddrPort("198.51.100.7:443"),
		Network:  network,
		Excluded: excluded,
	}
	if v6 {
		p.Src = netip.MustParseAddrPort("[2001:db8::10]:40000")
		p.Dest = netip.MustParseAddrPort("[2606:4700:4700::1111]:443")
	}
	if withDomain {
		p.Domain = "example.com"
	}
	res, err := v.cp.chooseProxyDialer(context.Background(), p)
	if err != nil {
		return nil, nil, err
	}
	return res.Dialer, res.AdmissionNetworkTypeObj, nil
}
