package vroute

import (
	"fmt"
	"net/netip"
)

// SelfTest runs the reference interpreter on a table of hand-derived cases (expected values worked out by
// hand from the statement of C01 / C11 and docs/en/configuration/routing.md, not by running anything).
// Checks call it first: a failure means the harness is broken (exit 2), never a violation.
func SelfTest() error {
	type pk func(p *Packet)
	base := func() Packet {
		return Packet{Src: netip.MustParseAddrPort("192.0.2.9:40000"), Dst: netip.MustParseAddrPort("198.51.100.7:443"), L4: "tcp", Mac: DefMac}
	}
	dport := func(v uint16) pk { return func(p *Packet) { p.Dst = netip.AddrPortFrom(p.Dst.Addr(), v) } }
	dst := func(a string) pk {
		return func(p *Packet) { p.Dst = netip.AddrPortFrom(netip.MustParseAddr(a), p.Dst.Port()) }
	}
	src := func(a string) pk {
		return func(p *Packet) { p.Src = netip.AddrPortFrom(netip.MustParseAddr(a), p.Src.Port()) }
	}
	udp := func(p *Packet) { p.L4 = "udp" }
	dom := func(s string) pk { return func(p *Packet) { p.Domain = s } }
	pname := func(s string) pk { return func(p *Packet) { p.Pname = s } }
	mac := func(m [6]byte) pk { return func(p *Packet) { p.Mac = m } }
	dscp := func(v uint8) pk { return func(p *Packet) { p.Dscp = v } }
	D := func(ob string, mark uint32, must bool) Decision { return Decision{ob, mark, must} }
	macA := [6]byte{0x02, 0x42, 0xac, 0x11, 0x00, 0x02}
	cases := []struct {
		body string
		mods []pk
		want Decision
		rule int
	}{
		{"dport(80) -> g1\nfallback: direct\n", []pk{dport(80)}, D("g1", 0, false), 0},
		{"dport(80) -> g1\nfallback: direct\n", []pk{dport(81)}, D("direct", 0, false), -1},
		{"!dport(79-81) -> block\nfallback: g2\n", []pk{dport(81)}, D("g2", 0, false), -1},
		{"!dport(79-81) -> block\nfallback: g2\n", []pk{dport(82)}, D("block", 0, false), 0},
		{"!port(79-81) -> block\nfallback: g2\n", []pk{dport(78)}, D("block", 0, false), 0},
		{"sip(10.0.0.0/8) && l4proto(udp) -> g1(mark:0x10)\nfallback: direct\n", []pk{src("10.255.255.255"), udp}, D("g1", 0x10, false), 0},
		{"sip(10.0.0.0/8) && l4proto(udp) -> g1(mark:0x10)\nfallback: direct\n", []pk{src("10.255.255.255")}, D("direct", 0, false), -1},
		{"sip(10.0.0.0/8) && l4proto(udp) -> g1(mark:0x10)\nfallback: direct\n", []pk{src("11.0.0.0"), udp}, D("direct", 0, false), -1},
		{"pname(curl) -> must_rules\ndport(53) -> g1\nfallback: g2\n", []pk{pname("curl"), dport(53)}, D("g1", 0, true), 1},
		{"pname(curl) -> must_rules\ndport(53) -> g1\nfallback: g2\n", []pk{dport(53)}, D("g1", 0, false), 1},
		{"pname(curl) -> must_rules\ndport(53) -> g1\nfallback: g2\n", []pk{pname("curl"), dport(80)}, D("g2", 0, true), -1},
		{"pname(curl) -> must_rules\ndport(53) -> g1\nfallback: g2\n", []pk{pname("wget"), dport(80)}, D("g2", 0, false), -1},
		{"!mac('02:42:ac:11:00:02') -> g1\nfallback: direct\n", []pk{mac([6]byte{})}, D("direct", 0, false), -1},
		{"!mac('02:42:ac:11:00:02') -> g1\nfallback: direct\n", []pk{mac(OtherMac)}, D("g1", 0, false), 0},
		{"!mac('02:42:ac:11:00:02') -> g1\nfallback: direct\n", []pk{mac(macA)}, D("direct", 0, false), -1},
		{"mac('00:00:00:00:00:00') -> g1\nfallback: direct\n", []pk{mac([6]byte{})}, D("g1", 0, false), 0},
		{"mac('02:42:ac:11:00:02') -> g1\nfallback: direct\n", []pk{mac([6]byte{})}, D("direct", 0, false), -1},
		{"domain(suffix: example.com) -> g1\nfallback: direct\n", []pk{dom("EXAMPLE.com.")}, D("g1", 0, false), 0},
		{"domain(suffix: example.com) -> g1\nfallback: direct\n", []pk{dom("xexample.com")}, D("direct", 0, false), -1},
		{"domain(example.com) -> g1\nfallback: direct\n", []pk{dom("a.example.com")}, D("g1", 0, false), 0},
		{"domain(domain: example.com) -> g1\nfallback: direct\n", []pk{dom("")}, D("direct", 0, false), -1},
		{"domain(suffix: .example.com) -> g1\nfallback: direct\n", []pk{dom("example.com")}, D("direct", 0, false), -1},
		{"domain(suffix: .example.com) -> g1\nfallback: direct\n", []pk{dom("a.example.com")}, D("g1", 0, false), 0},
		{"domain(full: example.com) -> g1\nfallback: direct\n", []pk{dom("www.example.com")}, D("direct", 0, false), -1},
		{"domain(full: example.com) -> g1\nfallback: direct\n", []pk{dom("Example.Com")}, D("g1", 0, false), 0},
		{"domain(keyword: xampl, regex: '^www\\.') -> g1\nfallback: direct\n", []pk{dom("www.test.org")}, D("g1", 0, false), 0},
		{"domain(contains: xampl, regex: '^www\\.') -> g1\nfallback: direct\n", []pk{dom("example.com")}, D("g1", 0, false), 0},
		{"domain(keyword: xampl, regex: '^www\\.') -> g1\nfallback: direct\n", []pk{dom("test.org")}, D("direct", 0, false), -1},
		{"!domain(example.com) -> g1\nfallback: direct\n", []pk{dom("")}, D("g1", 0, false), 0},
		{"!domain(example.com) -> g1\nfallback: direct\n", []pk{dom("example.com")}, D("direct", 0, false), -1},
		{"dip(0.0.0.0/0) -> g1\nfallback: direct\n", []pk{dst("1.2.3.4")}, D("g1", 0, false), 0},
		{"dip(0.0.0.0/0) -> g1\nfallback: direct\n", []pk{dst("::ffff:1.2.3.4")}, D("g1", 0, false), 0},
		{"dip(0.0.0.0/0) -> g1\nfallback: direct\n", []pk{dst("2001:db8::1")}, D("direct", 0, false), -1},
		{"ip('::/0') -> g1\nfallback: direct\n", []pk{dst("1.2.3.4")}, D("g1", 0, false), 0},
		{"dip(10.1.2.77/24) -> g1\nfallback: direct\n", []pk{dst("10.1.2.1")}, D("g1", 0, false), 0},
		{"dip(10.1.2.2/31) -> g1\nfallback: direct\n", []pk{dst("10.1.2.4")}, D("direct", 0, false), -1},
		{"dip('2001:db8::/127') -> g1\nfallback: direct\n", []pk{dst("2001:db8::1")}, D("g1", 0, false), 0},
		{"dip('2001:db8::/127') -> g1\nfallback: direct\n", []pk{dst("2001:db8::2")}, D("direct", 0, false), -1},
		{"ipversion(6) -> g1\nfallback: direct\n", []pk{dst("2001:db8::1")}, D("g1", 0, false), 0},
		{"ipversion(6) -> g1\nfallback: direct\n", []pk{dst("::ffff:1.2.3.4")}, D("direct", 0, false), -1},
		{"pname(abcdefghijklmnopq) -> g1\nfallback: direct\n", []pk{pname("abcdefghijklmnop")}, D("g1", 0, false), 0},
		{"pname(abcdefghijklmnopq) -> g1\nfallback: direct\n", []pk{pname("abcdefghijklmno")}, D("direct", 0, false), -1},
		{"!pname(curl) -> g1\nfallback: direct\n", []pk{pname("")}, D("g1", 0, false), 0},
		{"!pname(curl) -> g1\nfallback: direct\n", []pk{pname("curl")}, D("direct", 0, false), -1},
		{"dscp(0x4) -> g1\nfallback: direct\n", []pk{dscp(4)}, D("g1", 0, false), 0},
		{"dscp(0x4) -> g1\nfallback: direct\n", []pk{dscp(5)}, D("direct", 0, false), -1},
		{"dport(80) -> must_g1\nfallback: direct\n", []pk{dport(80)}, D("g1", 0, true), 0},
		{"dport(80) -> g2(must)\nfallback: direct\n", []pk{dport(80)}, D("g2", 0, true), 0},
		{"dport(80) -> g2(mark: 0x12345678, must)\nfallback: direct\n", []pk{dport(80)}, D("g2", 0x12345678, true), 0},
		{"dport(80) -> g1\nfallback: must_g1\n", []pk{dport(81)}, D("g1", 0, true), -1},
		{"dport(80) -> g1\nfallback: g2(mark:0x9)\n", []pk{dport(81)}, D("g2", 9, false), -1},
		{"l4proto(tcp, udp) && !l4proto(udp) -> block\nfallback: direct\n", []pk{udp}, D("direct", 0, false), -1},
		{"l4proto(tcp, udp) && !l4proto(udp) -> block\nfallback: direct\n", nil, D("block", 0, false), 0},
		{"dport(1) -> g1\ndport(443) -> g2\ndport(443) -> block\nfallback: direct\n", nil, D("g2", 0, false), 1},
	}
	for i, c := range cases {
		ref, err := NewReferenceFromText(WrapRouting(c.body))
		if err != nil {
			return fmt.Errorf("vroute self-test %d: %v", i, err)
		}
		p := base()
		for _, m := range c.mods {
			m(&p)
		}
		got, hit := ref.Decide(&p)
		if got != c.want || hit.Rule != c.rule {
			return fmt.Errorf("vroute self-test %d: %q on %s: reference says %s (rule %d), hand-derived %s (rule %d)", i, c.body, p.Key(), got, hit.Rule, c.want, c.rule)
		}
	}
	// the generator and the packet product must be internally consistent
	for _, s := range []*Space{Tier1(), Tier2(1, true, Tier2Outbounds)} {
		for _, i := range []int{0, s.Len() / 2, s.Len() - 1} {
			p := s.At(i)
			if _, err := NewReferenceFromText(p.ConfigText()); err != nil {
				return fmt.Errorf("vroute self-test: generated program %s[%d] not understood: %v\n%s", s.Name, i, err, p.RoutingBody())
			}
			if len(PacketsFor(p, PacketOpts{})) == 0 {
				return fmt.Errorf("vroute self-test: no packets for %s[%d]", s.Name, i)
			}
		}
	}
	return nil
}
