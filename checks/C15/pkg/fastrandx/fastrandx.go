// Package fastrandx stands in for github.com/daeuniverse/outbound/pkg/fastrand in ONE file of the code under test
// (component/outbound/dialer/alive_dialer_set.go; the import line is redirected by checks/C15/prebuild on a copy
// of the CURRENT working tree — Go forbids overlaying files inside GOMODCACHE, so the original package cannot be
// replaced). Intn asks a hook; ForAll drives the hook through EVERY vector of answers (depth-first over the
// choice tree), so each random choice of AliveDialerSet.GetRandExcluded is enumerated exhaustively, not sampled.
package fastrandx

import "math/rand/v2"

var hook func(n int) int

func Intn(n int) int {
	if hook != nil {
		return hook(n)
	}
	return rand.IntN(n)
}

// ForAll runs fn once for every vector of Intn answers reachable while fn runs (fn must not change the state under
// test; selection does not). Returns the number of executions (= leaves of the choice tree).
func ForAll(fn func()) int {
	var script, ns []int
	runs := 0
	for {
		pos := 0
		ns = ns[:0]
		hook = func(n int) int {
			v := 0
			if pos < len(script) {
				v = script[pos]
			} else {
				script = append(script, 0)
			}
			if v >= n {
				v = n - 1
			}
			ns = append(ns, n)
			pos++
			return v
		}
		fn()
		runs++
		script = script[:pos]
		i := pos - 1
		for i >= 0 && script[i]+1 >= ns[i] {
			i--
		}
		if i < 0 {
			break
		}
		script = script[:i+1]
		script[i]++
	}
	hook = zero
	return runs
}

func zero(n int) int { return 0 }

func init() { hook = zero } // outside ForAll every random pick is outcome 0 (deterministic)
