#!/bin/bash
# HISTORICAL (the fixes are in /repo since bd2f378: use /verif/run-mutants C09). C09 fired on the unchanged tree (three genuine defects, see candidate-fixes.diff), so `/verif/run-mutants C09`
# reports DETECTED for every patch trivially. This script shows the mutant-specific detection: every mutant is
# applied ON TOP OF the candidate fixes (scratch worktree, /repo untouched); the fixed tree alone must be quiet.
#   usage: mutants-on-fixed.sh [patch ...]      (default: the fixed tree alone, then all mutants/C09-*.patch)
set -u
HERE="$(cd "$(dirname "$0")" && pwd)"; VERIF="$(cd "$HERE/../.." && pwd)"
FIX="$HERE/candidate-fixes.diff"
PATCHES=("$@"); [ ${#PATCHES[@]} -eq 0 ] && PATCHES=(NONE "$VERIF"/mutants/C09-*.patch)
MW="$VERIF/.work/mutfix-C09-$$"
rc=0
for P in "${PATCHES[@]}"; do
  WT="/var/tmp/verif-mutfix-$$-$RANDOM"
  git -C /repo worktree add -q --detach "$WT" HEAD || { rc=2; continue; }
  # the candidate fixes apply only while /repo does not carry them yet
  (cd "$WT" && git apply "$FIX" 2>/dev/null) || echo "note: candidate fixes do not apply (already in /repo?)"
  if [ "$P" != NONE ]; then
    (cd "$WT" && patch -s -p1 --fuzz=3 < "$P") || { echo "MUTANT $(basename "$P"): does not apply on the fixed tree"; git -C /repo worktree remove --force "$WT"; rc=2; continue; }
  fi
  OUT=$(VERIF_REPO="$WT" VERIF_WORK="$MW" VERIF_EVIDENCE_DIR="$MW/evidence" VERIF_REPLAY_DIR="$MW/replays" "$VERIF/run" C09 "${MUT_TIER:-quick}" 2>&1); ec=$?
  V=$(echo "$OUT" | grep -c '^VIOLATION')
  S=$(echo "$OUT" | grep -m1 'signature:' | cut -c1-330)
  if [ "$P" = NONE ]; then
    echo "FIXED TREE (no mutant): exit=$ec violations=$V  $(echo "$OUT" | tail -1 | cut -c1-160)"
    [ $ec -eq 0 ] || rc=1
  elif [ $ec -eq 1 ] && [ $V -gt 0 ]; then echo "MUTANT-ON-FIXED $(basename "$P"): DETECTED (violations=$V) $S"
  else echo "MUTANT-ON-FIXED $(basename "$P"): MISSED (exit=$ec)"; echo "$OUT" | tail -4; rc=1; fi
  git -C /repo worktree remove --force "$WT"
done
rm -rf "$MW"
exit $rc
