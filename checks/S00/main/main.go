// S00 — self-test of engine S (not a property): toy programs with known verdicts.
package main

import (
	"fmt"
	"os"
	"time"

	"context"
	"sync"
	"sync/atomic"

	"github.com/daeuniverse/dae/verifx/vsched"
)

type toy struct {
	name   string
	body   func(o *obs)
	expect bool // true: a violation must be found
	bounds []vsched.Bound
}

type obs struct {
	bad  string
	vals []int
}

var cur *obs

func main() {
	toys := []toy{
		{"lost-update (load;store without lock) must be found with 1 preemption", func(o *obs) {
			var x atomic.Int32
			var wg sync.WaitGroup
			for i := 0; i < 2; i++ {
				wg.Add(1)
				go func() { defer wg.Done(); v := x.Load(); x.Store(v + 1) }()
			}
			wg.Wait()
			if x.Load() != 2 {
				o.bad = fmt.Sprint("x=", x.Load())
			}
		}, true, []vsched.Bound{{0, 0}, {1, 0}}},
		{"locked update never loses", func(o *obs) {
			var mu sync.Mutex
			x := 0
			var wg sync.WaitGroup
			for i := 0; i < 3; i++ {
				wg.Add(1)
				go func() { defer wg.Done(); mu.Lock(); v := x; vsched.Yield(); x = v + 1; mu.Unlock() }()
			}
			wg.Wait()
			if x != 3 {
				o.bad = fmt.Sprint("x=", x)
			}
		}, false, []vsched.Bound{{0, 0}, {2, 0}}},
		{"timers fire in deadline order, virtual clock advances exactly", func(o *obs) {
			t0 := time.Now()
			a := time.NewTimer(30 * time.Millisecond)
			b := time.NewTimer(10 * time.Millisecond)
			select {
			case <-a.C:
				o.bad = "later timer fired first"
			case <-b.C:
			}
			if d := time.Since(t0); d != 10*time.Millisecond {
				o.bad = fmt.Sprint("elapsed ", d)
			}
			if !a.Stop() {
				o.bad = "Stop of pending timer returned false"
			}
		}, false, []vsched.Bound{{0, 0}, {2, 0}}},
		{"ctx timeout cancels; child cancelled with parent; Err is DeadlineExceeded", func(o *obs) {
			ctx, cancel := context.WithTimeout(context.Background(), 50*time.Millisecond)
			defer cancel()
			child, c2 := context.WithCancel(ctx)
			defer c2()
			t0 := time.Now()
			<-child.Done()
			if time.Since(t0) != 50*time.Millisecond || child.Err() != context.DeadlineExceeded {
				o.bad = fmt.Sprint("elapsed ", time.Since(t0), " err ", child.Err())
			}
		}, false, []vsched.Bound{{0, 0}, {2, 0}}},
		{"check-then-act on a channel with a timer: deviation finds the early timeout", func(o *obs) {
			ch := make(chan int, 1)
			go func() { ch <- 1 }()
			select {
			case <-ch:
			case <-time.After(time.Second):
				o.bad = "timeout before the value"
			}
		}, true, []vsched.Bound{{0, 0}, {0, 1}}},
		{"deadlock (lock order inversion) must be found", func(o *obs) {
			var a, b sync.Mutex
			var wg sync.WaitGroup
			wg.Add(2)
			go func() { defer wg.Done(); a.Lock(); b.Lock(); b.Unlock(); a.Unlock() }()
			go func() { defer wg.Done(); b.Lock(); a.Lock(); a.Unlock(); b.Unlock() }()
			wg.Wait()
			o.vals = append(o.vals, 1)
		}, true, []vsched.Bound{{0, 0}, {1, 0}}},
	}
	fail := 0
	for _, ty := range toys {
		ty := ty
		sc := &vsched.Scenario{Name: ty.name, MaxSteps: 2000,
			Body: func() { cur = &obs{}; ty.body(cur) },
			Check: func(r *vsched.Result) (string, any) {
				if r.Status == vsched.StPanic {
					return "panic " + r.PanicMsg, nil
				}
				if cur.bad != "" {
					return cur.bad, nil
				}
				if len(r.Blocked) > 0 {
					return fmt.Sprint("blocked ", r.Blocked), nil
				}
				return "", nil
			}}
		e := &vsched.Explorer{Sc: sc, Bounds: ty.bounds}
		st := e.Explore()
		found := len(st.Violations) > 0
		ok := found == ty.expect
		if found {
			v := st.Violations[0]
			ok = ok && e.Confirm(&v, 5)
		}
		fmt.Printf("%-5v %s: executions=%d found=%v\n", ok, ty.name, st.Executions, found)
		if !ok {
			fail++
			for _, v := range st.Violations {
				fmt.Println("   ", v.Sig, v.Schedule)
			}
		}
	}
	if fail > 0 {
		os.Exit(2)
	}
}
