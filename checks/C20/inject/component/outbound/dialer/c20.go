//go:build verif

package dialer

import (
	"time"
	"unsafe"
)

// C20 observation points of the reload-time muting of proxy-failure promotion (sticky_cache.go).
// The counter is read/reset through its memory (atomic.Int32 and the instrumented vatomic.Int32 both start with the
// int32 value) so that observing it is not a scheduling point; only one managed thread runs at a time.

func VerifC20SuppressionCount() int32 {
	return *(*int32)(unsafe.Pointer(&reloadProxyFailureSuppression))
}

// VerifC20Suppressed is the real predicate the dialers consult (counter > 0 or inside the quiesce window).
func VerifC20Suppressed() bool { return proxyFailureSuppressedForReload() }

func VerifC20QuiesceWindow() time.Duration { return reloadFailureQuiesce }

func VerifC20ResetSuppression() {
	*(*int32)(unsafe.Pointer(&reloadProxyFailureSuppression)) = 0
	*(*int64)(unsafe.Pointer(&reloadProxyFailureSuppressUntil)) = 0
}
