package vroute

import "fmt"

// Prefix spellings: the dimension "how a prefix is WRITTEN" x "where its length lies relative to the /96
// boundary of the IPv4-mapped range". A prefix set value reaches the control plane as a netip.Prefix kept
// verbatim, so the same address range has several spellings which every prefix-key encoder (userspace bit
// string, kernel LPM key) has to lift into the one 128-bit key space on its own:
//
//	plain IPv4      a.b.c.d/N          N counts on the 32-bit scale   (key length N+96)
//	IPv4-mapped     ::ffff:a.b.c.d/N   N counts on the 128-bit scale  (key length N), N <, =, > 96, = 128
//	IPv6            x::/N              incl. prefixes shorter than /96 that CONTAIN the IPv4-mapped range
//
// Lengths sit next to the byte boundaries (…/119 /120 /121…) and the range ends (/96 /97 /127 /128); some
// prefixes are written unmasked (host bits set). The tier-1 alphabet (t1IPVals) only has a /128 mapped host.

// PrefixSpellVals is the quick alphabet; PrefixSpellValsDeep adds further lengths on both scales.
var PrefixSpellVals = bare(
	// plain IPv4 (32-bit scale)
	"10.1.2.0/24", "10.1.2.128/25", "10.1.2.77/24",
	// IPv4-mapped (128-bit scale): the same ranges, then the ends of the mapped range
	"::ffff:10.1.2.0/120", "::ffff:10.1.2.128/121", "::ffff:10.1.2.77/120", "::ffff:10.1.0.0/112",
	"::ffff:10.1.2.2/127", "::ffff:10.1.2.3/128", "::ffff:128.0.0.0/97", "::ffff:0.0.0.0/96",
	// shorter than /96, written with a mapped address / as IPv6: contain all (or all and more than) IPv4
	"::ffff:0.0.0.0/95", "::/80",
	// IPv6 off the byte boundary
	"2001:db8::/33", "2001:db8:0:8000::/49",
)

var PrefixSpellValsDeep = append(append([]Param(nil), PrefixSpellVals...), bare(
	"10.1.2.0/23", "10.0.0.0/9", "10.1.2.76/30",
	"::ffff:10.1.2.0/119", "::ffff:10.1.0.0/111", "::ffff:10.1.0.0/113", "::ffff:10.0.0.0/104", "::ffff:10.0.0.0/103", "::ffff:10.128.0.0/105",
	"::ffff:10.1.2.76/126", "::ffff:0.0.0.0/97", "::fffe:0:0/96", "::/64", "::ffff:0.0.0.0/88",
	"2001:db8::/31", "2001:db8::/95", "2001:db8::/96", "2001:db8::ffff:0:0/97",
)...)

// PrefixOutbounds / PrefixFallbacks: the outbound alphabet of the prefix-spelling space.
var PrefixOutbounds = []string{"g1", "must_g2(mark:0x7)"}
var PrefixFallbacks = []string{"direct"}

// PrefixSpellings enumerates
//
//	(a) one rule, one condition [!]f(set): f in {dip, sip} x every 1- and 2-value set of the alphabet (a
//	    2-value set puts two spellings - nested, equal or disjoint ranges - into ONE trie), f = ip (alias)
//	    x every 1-value set; x PrefixOutbounds x PrefixFallbacks
//	(b) two rules "[!]sip(x) -> g1; [!]dip(y) -> g2(mark:0x7)" for every ordered pair (x, y) of the alphabet
//	    (two tries in one load, each spelling on either side), fallback direct
//
// deep selects PrefixSpellValsDeep.
func PrefixSpellings(deep bool) *Space {
	vals := PrefixSpellVals
	if deep {
		vals = PrefixSpellValsDeep
	}
	sets := singlesAndPairs(vals)
	var one []Cond
	for _, f := range []string{"dip", "sip"} {
		for _, set := range sets {
			for _, not := range []bool{false, true} {
				one = append(one, Cond{Func: f, Not: not, Params: set})
			}
		}
	}
	for _, v := range vals {
		for _, not := range []bool{false, true} {
			one = append(one, Cond{Func: "ip", Not: not, Params: []Param{v}})
		}
	}
	nOut, nFb := len(PrefixOutbounds), len(PrefixFallbacks)
	a := &Space{Name: "pfx/1rule", n: len(one) * nOut * nFb, at: func(i int) *Program {
		fb := i % nFb
		i /= nFb
		ob := i % nOut
		i /= nOut
		return &Program{Tier: 1, Label: "pfx/1rule", Fallback: PrefixFallbacks[fb],
			Rules: []Rule{{Conds: []Cond{one[i]}, Out: PrefixOutbounds[ob]}}}
	}}
	nv := len(vals)
	b := &Space{Name: "pfx/2rules", n: nv * nv * 4, at: func(i int) *Program {
		neg := i % 4
		i /= 4
		y := i % nv
		x := i / nv
		return &Program{Tier: 1, Label: "pfx/2rules", Fallback: "direct", Rules: []Rule{
			{Conds: []Cond{{Func: "sip", Not: neg&1 != 0, Params: []Param{vals[x]}}}, Out: "g1"},
			{Conds: []Cond{{Func: "dip", Not: neg&2 != 0, Params: []Param{vals[y]}}}, Out: "g2(mark:0x7)"},
		}}
	}}
	s := Concat("prefixes", a, b)
	s.Descr = fmt.Sprintf("prefix spellings (plain IPv4 / IPv4-mapped at lengths <96, 96, 97..127, 128 / IPv6 incl. prefixes containing the mapped range; masked and unmasked; %d values): %d one-condition forms ([!]dip|sip over all 1- and 2-value sets, [!]ip over 1-value sets) x %d outbounds x %d fallbacks + %d^2 x 4 two-rule programs [!]sip(x);[!]dip(y)", nv, len(one), nOut, nFb, nv)
	return s
}
