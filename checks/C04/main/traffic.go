package main

// Traffic-routing pipeline: rule list as written -> config text -> config_parser.Parse -> config.New ->
// routing.NewNormalizedProgram(<the optimizer chain wired in control/control_plane.go>) ->
// NewRoutingMatcherBuilderFromProgram -> BuildUserspace -> ControlPlane.Route, compared per packet with the
// vroute reference interpreter on the list as written (geodata references replaced by the listed values),
// and, as a differential second leg, with the matcher built from the same (expanded) list with AliasOptimizer only.

import (
	"fmt"
	"go/ast"
	"go/parser"
	"go/token"
	"hash/fnv"
	"net/netip"
	"os"
	"path/filepath"
	"strings"
	"sync"
	"sync/atomic"

	"github.com/daeuniverse/dae/common/assets"
	"github.com/daeuniverse/dae/common/consts"
	"github.com/daeuniverse/dae/component/routing"
	"github.com/daeuniverse/dae/control"
	"github.com/daeuniverse/dae/pkg/config_parser"
	"github.com/daeuniverse/dae/verifx/vlib"
	"github.com/daeuniverse/dae/verifx/vroute"
)

const trafficFallback = "block"

func vals(vs ...string) []vroute.Param {
	out := make([]vroute.Param, len(vs))
	for i, v := range vs {
		out[i] = vroute.Param{Val: v}
	}
	return out
}

func kvs(x ...string) []vroute.Param {
	var out []vroute.Param
	for i := 0; i+1 < len(x); i += 2 {
		out = append(out, vroute.Param{Key: x[i], Val: x[i+1]})
	}
	return out
}

func cond(fn string, ps []vroute.Param) vroute.Cond { return vroute.Cond{Func: fn, Params: ps} }
func ncond(fn string, ps []vroute.Param) vroute.Cond {
	return vroute.Cond{Func: fn, Not: true, Params: ps}
}
func rule(out string, cs ...vroute.Cond) vroute.Rule { return vroute.Rule{Conds: cs, Out: out} }

const (
	macA = "02:42:ac:11:00:02"
	macB = "02:42:ac:11:00:04"
)

// The alphabets. Every family is built around the optimizers' triggers: single-condition rules sharing
// function name, negation and outbound (merged); neighbours differing in exactly one of name / '!' /
// outbound / outbound parameters (must not be merged); repeated and overlapping values (dedup); alias
// spellings that only become equal after alias rewriting; v4/v6 values and keys that re-sort; conditions that
// re-sort by function name; must_rules; geodata references alone, negated and mixed with ordinary values.
// the first *Core symbols of each family are the core used for the longest lists
const (
	ipCore   = 16
	domCore  = 12
	miscCore = 12
)

func trafficFamilies() (ip, dom, misc, mix, emp []vroute.Rule) {
	ip = []vroute.Rule{
		rule("g1", cond("dip", vals("10.0.0.1"))),
		rule("g1", cond("dip", vals("10.0.0.2"))),
		rule("g1", ncond("dip", vals("10.0.0.1"))),
		rule("g1", ncond("dip", vals("10.0.0.2"))),
		rule("g1", cond("ip", vals("10.0.0.1"))),
		rule("g1", ncond("ip", vals("10.0.0.2"))),
		rule("g2", cond("dip", vals("10.0.0.2"))),
		rule("g1(mark:0x7)", cond("dip", vals("10.0.0.2"))),
		rule("must_g1", cond("dip", vals("10.0.0.2"))),
		rule("g2", ncond("dip", vals("10.0.0.1"))),
		rule("must_rules", cond("dip", vals("10.0.0.1"))),
		rule("must_rules", cond("dport", vals("80"))),
		rule("g1", cond("dip", kvs("geoip", "tiny"))),
		rule("g1", ncond("dip", kvs("geoip", "tiny"))),
		rule("g1", cond("sip", vals("192.168.0.1"))),
		rule("g1", ncond("sip", vals("192.168.0.1"))),
		// beyond the core
		rule("g1(must)", cond("dip", vals("10.0.0.3"))),
		rule("g1", cond("dip", vals("2001:db8::1", "10.0.0.3"))),
		rule("g1", cond("dip", vals("10.0.0.0/30", "10.0.0.1"))),
		rule("g2", cond("dip", vals("10.0.0.1", "10.0.0.1"))),
		rule("g1", ncond("sip", vals("192.168.0.2"))),
		rule("g2", cond("dip", append(append(kvs("geoip", "tiny"), vals("10.0.0.2", "10.0.0.1")...), kvs("geoip", "tiny")...))),
		rule("g1", cond("dip", kvs("ext", "c04ip:tiny"))),
		rule("g2", cond("sip", vals("192.168.0.1")), cond("dip", vals("10.0.0.1"))),
		rule("g2", cond("sip", vals("10.0.0.1")), cond("dip", vals("10.0.0.1"))),
	}
	dom = []vroute.Rule{
		rule("g1", cond("domain", kvs("suffix", "example.com"))),
		rule("g1", cond("domain", vals("example.com"))),
		rule("g1", cond("domain", kvs("domain", "test.org"))),
		rule("g1", cond("domain", kvs("full", "example.com"))),
		rule("g1", cond("domain", kvs("contains", "xampl"))),
		rule("g1", cond("domain", kvs("keyword", "xampl", "full", "www.test.org", "suffix", "tiny.org"))),
		rule("g1", ncond("domain", kvs("suffix", "example.com"))),
		rule("g1", ncond("domain", kvs("full", "www.test.org"))),
		rule("g1", ncond("domain", vals("test.org"))),
		rule("g1", cond("domain", kvs("geosite", "tiny"))),
		rule("g1", ncond("domain", kvs("geosite", "tiny"))),
		rule("g2", cond("domain", kvs("suffix", "example.com"))),
		// beyond the core
		rule("g2", cond("domain", kvs("regex", `^www\.`))),
		rule("g2", cond("domain", kvs("geosite", "tiny", "suffix", "example.com", "full", "www.test.org"))),
		rule("g2", cond("domain", kvs("geosite", "tiny@ads"))),
		rule("g1", cond("domain", kvs("ext", "c04site:tiny"))),
		rule("must_rules", cond("domain", kvs("suffix", "test.org"))),
		rule("g2", cond("dport", vals("80")), cond("domain", kvs("suffix", "example.com"))),
		rule("g2", cond("domain", kvs("full", "example.com", "suffix", "example.com"))),
	}
	misc = []vroute.Rule{
		rule("g1", cond("dport", vals("80"))),
		rule("g1", cond("port", vals("443"))),
		rule("g1", cond("dport", vals("80-90", "85"))),
		rule("g1", ncond("dport", vals("80"))),
		rule("g1", ncond("port", vals("443"))),
		rule("g1(mark:0x7)", cond("dport", vals("443"))),
		rule("g1", cond("l4proto", vals("tcp"))),
		rule("g1", cond("l4proto", vals("udp"))),
		rule("g1", ncond("l4proto", vals("tcp"))),
		rule("g1", ncond("l4proto", vals("udp"))),
		rule("g2", cond("sport", vals("40000")), ncond("dport", vals("80"))),
		rule("must_rules", cond("l4proto", vals("udp"))),
		// beyond the core
		rule("g2", cond("dport", vals("443", "80", "443"))),
		rule("g1", cond("pname", vals("wget", "curl"))),
		rule("g1", ncond("pname", vals("curl"))),
		rule("g1", ncond("pname", vals("wget"))),
		rule("g1", cond("mac", vals(macA))),
		rule("g1", ncond("mac", vals(macA))),
		rule("g1", ncond("mac", vals(macB))),
		rule("g1", cond("ipversion", vals("6"))),
		rule("g1", cond("ipversion", vals("4"))),
		rule("g1", cond("dscp", vals("4", "0x4", "8"))),
	}
	// conditions whose value list is empty after expansion, with the neighbours they interact with
	emp = []vroute.Rule{
		rule("g1", cond("domain", kvs("geosite", "tiny@nomatch"))),
		rule("g1", ncond("domain", kvs("geosite", "tiny@nomatch"))),
		rule("g2", cond("domain", kvs("geosite", "tiny@nomatch")), cond("dport", vals("80"))),
		rule("g2", cond("dport", vals("80")), cond("sip", kvs("geoip", "empty"))),
		rule("g2", ncond("dip", kvs("geoip", "empty")), cond("dport", vals("80"))),
		rule("g1", cond("dip", kvs("geoip", "empty"))),
		rule("g1", cond("domain", kvs("suffix", "example.com"))),
		rule("g1", cond("dip", vals("10.0.0.1"))),
		rule("g1", cond("dport", vals("80"))),
		rule("must_rules", cond("dport", vals("80"))),
		rule("g1", cond("dport", vals("443"))),
	}
	mix = []vroute.Rule{
		ip[0], ip[2], ip[3], ip[12], ip[23],
		dom[0], dom[6], dom[9], dom[10],
		misc[0], misc[3], ip[11], misc[7],
	}
	return
}

func unionRules(parts ...[]vroute.Rule) []vroute.Rule {
	seen := map[string]bool{}
	var out []vroute.Rule
	for _, p := range parts {
		for _, r := range p {
			if t := r.Text(); !seen[t] {
				seen[t] = true
				out = append(out, r)
			}
		}
	}
	return out
}

func ruleTexts(rs []vroute.Rule) []string {
	out := make([]string, len(rs))
	for i, r := range rs {
		out[i] = r.Text()
	}
	return out
}

// expandTraffic: the list as written with every geodata reference replaced by the values the harness wrote
// into the data files (that IS the meaning of `geosite:tiny` / `geoip:tiny`).
func expandTraffic(p *vroute.Program) (*vroute.Program, bool) {
	q, any, _, _ := expandTrafficX(p)
	return q, any
}

// expandTrafficX additionally folds conditions whose value list is EMPTY after expansion (geosite:tiny@nomatch,
// geoip:empty): the empty set contains nothing, so f() is never true and !f() is always true. A rule with a
// never-true condition can never fire and is left out; an always-true condition is left out of its rule; a
// rule whose conditions are all always-true fires for every packet and is written with the tautology
// l4proto(tcp, udp) (every packet of the model is tcp or udp). hasEmpty: some condition was empty;
// unconditional: some rule fires for every packet after expansion.
func expandTrafficX(p *vroute.Program) (q *vroute.Program, any, hasEmpty, unconditional bool) {
	q = &vroute.Program{Tier: p.Tier, Label: p.Label, Fallback: p.Fallback}
	for _, r := range p.Rules {
		nr := vroute.Rule{Out: r.Out}
		never := false
		for _, c := range r.Conds {
			in := make([]kv, len(c.Params))
			for i, x := range c.Params {
				in[i] = kv{x.Key, x.Val}
			}
			out, exp := expandGeo(c.Func == "domain", in)
			any = any || exp
			if len(out) == 0 {
				hasEmpty = true
				if !c.Not {
					never = true
				}
				continue
			}
			nc := vroute.Cond{Func: c.Func, Not: c.Not}
			for _, x := range out {
				nc.Params = append(nc.Params, vroute.Param{Key: x.Key, Val: x.Val})
			}
			nr.Conds = append(nr.Conds, nc)
		}
		if never {
			continue
		}
		if len(nr.Conds) == 0 {
			unconditional = true
			nr.Conds = []vroute.Cond{{Func: "l4proto", Params: vals("tcp", "udp")}}
		}
		q.Rules = append(q.Rules, nr)
	}
	return
}

func canonFunc(f string) string {
	switch f {
	case "dip":
		return "ip"
	case "dport":
		return "port"
	}
	return f
}

func canonOut(o string) string {
	if strings.HasPrefix(o, "must_") && o != "must_rules" {
		return strings.TrimPrefix(o, "must_") + "(must)"
	}
	return o
}

// mergedNegatedTraffic is a DIFFERENT program (adjacent negated single-condition rules with the same function
// and outbound fused into one negated condition). It only labels a mismatch (diag=merge-negated) when the
// implementation decides exactly like it; it never changes what is expected.
func mergedNegatedTraffic(p *vroute.Program) (*vroute.Program, bool) {
	if len(p.Rules) < 2 {
		return p, false
	}
	clone := func(r vroute.Rule) vroute.Rule {
		c := vroute.Rule{Out: r.Out}
		for _, cd := range r.Conds {
			c.Conds = append(c.Conds, vroute.Cond{Func: cd.Func, Not: cd.Not, Params: append([]vroute.Param(nil), cd.Params...)})
		}
		return c
	}
	changed := false
	out := &vroute.Program{Fallback: p.Fallback}
	cur := clone(p.Rules[0])
	for i := 1; i < len(p.Rules); i++ {
		n := p.Rules[i]
		if len(cur.Conds) == 1 && len(n.Conds) == 1 && canonFunc(cur.Conds[0].Func) == canonFunc(n.Conds[0].Func) &&
			cur.Conds[0].Not && n.Conds[0].Not && canonOut(cur.Out) == canonOut(n.Out) {
			cur.Conds[0].Params = append(cur.Conds[0].Params, n.Conds[0].Params...)
			changed = true
			continue
		}
		out.Rules = append(out.Rules, cur)
		cur = clone(n)
	}
	out.Rules = append(out.Rules, cur)
	return out, changed
}

// wiredTrafficChain reads the optimizer chain of the traffic pipeline from the source of the tree under test
// (control/control_plane.go: the arguments of routing.NewNormalizedProgram), so that the harness lowers the
// rules through the chain as it is wired there, in that order.
func wiredTrafficChain(repo string) ([]string, error) {
	fset := token.NewFileSet()
	f, err := parser.ParseFile(fset, filepath.Join(repo, "control", "control_plane.go"), nil, 0)
	if err != nil {
		return nil, err
	}
	var names []string
	found := 0
	ast.Inspect(f, func(n ast.Node) bool {
		call, ok := n.(*ast.CallExpr)
		if !ok {
			return true
		}
		sel, ok := call.Fun.(*ast.SelectorExpr)
		if !ok || sel.Sel.Name != "NewNormalizedProgram" {
			return true
		}
		if x, ok := sel.X.(*ast.Ident); !ok || x.Name != "routing" {
			return true
		}
		found++
		for _, a := range call.Args[2:] {
			u, ok := a.(*ast.UnaryExpr)
			if !ok {
				names = append(names, "?")
				continue
			}
			cl, ok := u.X.(*ast.CompositeLit)
			if !ok {
				names = append(names, "?")
				continue
			}
			if s, ok := cl.Type.(*ast.SelectorExpr); ok {
				names = append(names, s.Sel.Name)
			} else {
				names = append(names, "?")
			}
		}
		return true
	})
	if found != 1 {
		return nil, fmt.Errorf("expected exactly one routing.NewNormalizedProgram call in control_plane.go, found %d", found)
	}
	return names, nil
}

func buildChain(names []string, finder *assets.LocationFinder) ([]routing.RulesOptimizer, error) {
	var out []routing.RulesOptimizer
	for _, n := range names {
		switch n {
		case "AliasOptimizer":
			out = append(out, &routing.AliasOptimizer{})
		case "DatReaderOptimizer":
			out = append(out, &routing.DatReaderOptimizer{Logger: quietLogger(), LocationFinder: finder})
		case "MergeAndSortRulesOptimizer":
			out = append(out, &routing.MergeAndSortRulesOptimizer{})
		case "DeduplicateParamsOptimizer":
			out = append(out, &routing.DeduplicateParamsOptimizer{})
		default:
			return nil, fmt.Errorf("unknown optimizer %q in the traffic chain", n)
		}
	}
	return out, nil
}

type trafficLeg struct {
	r        *vlib.Run
	f        *findings
	finder   *assets.LocationFinder
	chain    []string
	id2name  []string
	deadline func() bool

	lists, evals, changed, nontrivial       *atomic.Int64
	merged, deduped, geo, reordered, byRule *atomic.Int64
	negMergeable                            *atomic.Int64
	outcomes                                hist
	dupSkipped, emptyExp, rejected          *atomic.Int64
	seenMu                                  sync.Mutex
	seen                                    map[uint64]struct{}
}

func newTrafficLeg(r *vlib.Run, f *findings, finder *assets.LocationFinder, chain []string) *trafficLeg {
	t := &trafficLeg{r: r, f: f, finder: finder, chain: chain,
		lists: r.Counter("traffic_lists"), evals: r.Counter("traffic_decisions"), changed: r.Counter("traffic_lists_changed_by_optimizers"),
		nontrivial: r.Counter("traffic_decisions_on_changed_lists"), merged: r.Counter("traffic_lists_with_merged_rules"),
		deduped: r.Counter("traffic_lists_with_removed_values"), geo: r.Counter("traffic_lists_with_geodata"),
		reordered: r.Counter("traffic_lists_only_reordered"), byRule: r.Counter("traffic_decisions_by_a_rule"),
		negMergeable: r.Counter("traffic_lists_with_adjacent_negated_same_function_same_outbound"),
		dupSkipped:   r.Counter("traffic_duplicate_lists_skipped"), seen: map[uint64]struct{}{},
		emptyExp: r.Counter("traffic_lists_with_empty_expansion"), rejected: r.Counter("traffic_lists_rejected_unconditional_after_expansion")}
	t.id2name = make([]string, int(consts.OutboundUserDefinedMin)+len(vroute.Groups))
	t.id2name[consts.OutboundDirect], t.id2name[consts.OutboundBlock] = "direct", "block"
	for i, g := range vroute.Groups {
		t.id2name[int(consts.OutboundUserDefinedMin)+i] = g
	}
	return t
}

func l4Of(s string) consts.L4ProtoType {
	if s == "udp" {
		return consts.L4ProtoType_UDP
	}
	return consts.L4ProtoType_TCP
}

func pname16(s string) (o [16]uint8) { copy(o[:], s); return }

func (t *trafficLeg) route(v *control.VerifRouting, p *vroute.Packet) (d vroute.Decision, err error) {
	if pn, msg := vlib.Try(func() {
		ob, mark, must, e := v.Route(p.Src, p.Dst, p.Domain, l4Of(p.L4), pname16(p.Pname), p.Mac, p.Dscp)
		if e != nil {
			err = e
			return
		}
		name := ""
		if int(ob) < len(t.id2name) {
			name = t.id2name[ob]
		}
		if name == "" {
			name = fmt.Sprintf("#%d", ob)
		}
		d = vroute.Decision{Outbound: name, Mark: mark, Must: must}
	}); pn {
		err = fmt.Errorf("panic at %s", vlib.PanicSite(msg))
	}
	return
}

type pktJSON struct {
	Src, Dst string
	L4       string
	Domain   string
	Pname    string
	Mac      string
	Dscp     uint8
}

func toJSON(p *vroute.Packet) pktJSON {
	return pktJSON{Src: p.Src.String(), Dst: p.Dst.String(), L4: p.L4, Domain: p.Domain, Pname: p.Pname,
		Mac: fmt.Sprintf("%02x:%02x:%02x:%02x:%02x:%02x", p.Mac[0], p.Mac[1], p.Mac[2], p.Mac[3], p.Mac[4], p.Mac[5]), Dscp: p.Dscp}
}

func fromJSON(j pktJSON) (vroute.Packet, error) {
	var p vroute.Packet
	var err error
	if p.Src, err = netip.ParseAddrPort(j.Src); err != nil {
		return p, err
	}
	if p.Dst, err = netip.ParseAddrPort(j.Dst); err != nil {
		return p, err
	}
	p.L4, p.Domain, p.Pname, p.Dscp = j.L4, j.Domain, j.Pname, j.Dscp
	_, err = fmt.Sscanf(j.Mac, "%02x:%02x:%02x:%02x:%02x:%02x", &p.Mac[0], &p.Mac[1], &p.Mac[2], &p.Mac[3], &p.Mac[4], &p.Mac[5])
	return p, err
}

type trafficDetail struct {
	Pipeline  string          `json:"pipeline"`
	Leg       string          `json:"leg"`
	Diag      string          `json:"diag"`
	Program   *vroute.Program `json:"program_as_written"`
	Config    string          `json:"config"`
	Packet    pktJSON         `json:"packet"`
	Want      string          `json:"want"`
	Got       string          `json:"got"`
	HitRule   int             `json:"reference_hit_rule"`
	Written   string          `json:"rules_after_alias_only"`
	Optimised string          `json:"rules_actually_lowered"`
	Chain     []string        `json:"optimizer_chain"`
}

func renderRules(rs []*config_parser.RoutingRule) string {
	p := vroute.FromAST(rs, nil)
	var out []string
	for _, r := range p.Rules {
		out = append(out, r.Text())
	}
	return strings.Join(out, " ; ")
}

func countParams(rs []*config_parser.RoutingRule) int {
	n := 0
	for _, r := range rs {
		for _, f := range r.AndFunctions {
			n += len(f.Params)
		}
	}
	return n
}

type compiledTraffic struct {
	prog, exp *vroute.Program
	expanded  bool
	text      string
	ref       *vroute.Reference
	opt, base *control.VerifRouting
	aliasText string // the written rules after alias rewriting only (geodata lists: of the expanded list)
	// hasEmpty: some condition has an empty value list after expansion; unconditional: some rule then fires always
	hasEmpty, unconditional bool
}

const rejectedUnconditional = "rejected: unconditional rule after expansion"

func fallbackFn(kind, fb string) *config_parser.Function {
	p := asts.parsedFallback(kind, fb)
	if len(p.AndFunctions) == 1 {
		return p.AndFunctions[0]
	}
	return &config_parser.Function{Name: p.Val}
}

// compileTraffic builds the deciders of one list. viaText: go through the complete configuration text
// (parser included); otherwise the parsed document is assembled from the once-parsed rules (astkit.go).
// A harness-side failure is returned as herr (exit 2).
func (t *trafficLeg) compileTraffic(prog *vroute.Program, viaText bool) (c *compiledTraffic, buildErr string, herr error) {
	c = &compiledTraffic{prog: prog}
	c.exp, c.expanded, c.hasEmpty, c.unconditional = expandTrafficX(prog)
	c.text = prog.ConfigText()
	wTexts, eTexts := ruleTexts(prog.Rules), ruleTexts(c.exp.Rules)
	var err error
	if c.ref, err = vroute.NewReference(rulesAST("traffic", eTexts), fallbackFn("traffic", prog.Fallback)); err != nil {
		return nil, "", fmt.Errorf("reference: %w (list %s)", err, prog.OneLine())
	}
	chain, err := buildChain(t.chain, t.finder)
	if err != nil {
		return nil, "", err
	}
	sections := func(texts []string, p *vroute.Program) ([]*config_parser.Section, error) {
		if viaText {
			return config_parser.Parse(p.ConfigText())
		}
		return trafficSections(texts, prog.Fallback), nil
	}
	if pn, msg := vlib.Try(func() {
		var secs []*config_parser.Section
		if secs, err = sections(wTexts, prog); err == nil {
			c.opt, err = control.VerifCompileRoutingSections(secs, vroute.Groups, chain)
		}
	}); pn {
		return c, "leg=optimised build panic at " + vlib.PanicSite(msg), nil
	}
	if err != nil {
		if c.unconditional {
			// a rule that fires for every packet after expansion (all its conditions are negations of empty
			// lists) may be refused with an explicit configuration error: then no program is compiled
			return c, rejectedUnconditional, nil
		}
		return c, "leg=optimised build error: " + err.Error(), nil
	}
	// the written rules after alias rewriting only (classification of "did the optimizers change the list";
	// never an oracle)
	if !c.expanded {
		al, aerr := routing.ApplyRulesOptimizers(c.opt.Rules, &routing.AliasOptimizer{})
		if aerr != nil {
			return nil, "", aerr
		}
		c.aliasText = renderRules(al)
		if c.aliasText == renderRules(c.opt.OptRules) && !viaText {
			// the chain lowered exactly the alias-only list: the alias-only matcher would be built from the
			// identical rule list by the same deterministic builder, so the second leg is skipped
			return c, "", nil
		}
	}
	if pn, msg := vlib.Try(func() {
		var secs []*config_parser.Section
		if secs, err = sections(eTexts, c.exp); err == nil {
			c.base, err = control.VerifCompileRoutingSections(secs, vroute.Groups, []routing.RulesOptimizer{&routing.AliasOptimizer{}})
		}
	}); pn {
		return c, "leg=alias-only build panic at " + vlib.PanicSite(msg), nil
	}
	if err != nil {
		return c, "leg=alias-only build error: " + err.Error(), nil
	}
	c.aliasText = renderRules(c.base.OptRules)
	return c, "", nil
}

func hasNegMergeable(p *vroute.Program) bool {
	_, ch := mergedNegatedTraffic(p)
	return ch
}

var legNames = []string{"optimised", "alias-only"}

// firstTime: a list reachable through two spaces (the cross-family alphabet shares symbols with the family
// alphabets) is evaluated once, in the earlier space.
func (t *trafficLeg) firstTime(prog *vroute.Program) bool {
	h := fnv.New64a()
	h.Write([]byte(prog.OneLine()))
	k := h.Sum64()
	t.seenMu.Lock()
	defer t.seenMu.Unlock()
	if _, dup := t.seen[k]; dup {
		return false
	}
	t.seen[k] = struct{}{}
	return true
}

func (t *trafficLeg) one(spaceOrd int, idx int, prog *vroute.Program, opts vroute.PacketOpts, viaText bool) {
	if !t.firstTime(prog) {
		t.dupSkipped.Add(1)
		return
	}
	c, berr, herr := t.compileTraffic(prog, viaText)
	if herr != nil {
		fmt.Fprintln(os.Stderr, "C04: harness error:", herr)
		os.Exit(2)
	}
	t.lists.Add(1)
	if c != nil && c.hasEmpty {
		t.emptyExp.Add(1)
	}
	if berr == rejectedUnconditional {
		t.rejected.Add(1)
		return
	}
	if berr != "" {
		cls := "build-error"
		if strings.Contains(berr, "panic") {
			cls = "build-panic"
		}
		t.f.add(&finding{class: "traffic|build|" + cls, length: len(prog.Rules), space: spaceOrd, index: idx,
			sig:    fmt.Sprintf("pipeline=traffic %s list=[%s]", berr, prog.OneLine()),
			detail: map[string]any{"pipeline": "traffic", "config": c.text, "program_as_written": prog, "error": berr}}, 1)
		return
	}
	optText := renderRules(c.opt.OptRules)
	baseText := c.aliasText
	changedVsBase := optText != baseText
	changed := changedVsBase || c.expanded
	if changed {
		t.changed.Add(1)
	}
	if c.expanded {
		t.geo.Add(1)
	}
	mergedRules := c.base != nil && len(c.opt.OptRules) < len(c.base.OptRules)
	dedup := c.base != nil && countParams(c.opt.OptRules) < countParams(c.base.OptRules)
	if mergedRules {
		t.merged.Add(1)
	}
	if dedup {
		t.deduped.Add(1)
	}
	if changedVsBase && !mergedRules && !dedup {
		t.reordered.Add(1)
	}
	if hasNegMergeable(c.exp) {
		t.negMergeable.Add(1)
	}
	pkts := vroute.PacketsFor(c.exp, opts)
	local := map[string]int64{}
	var nRule int64
	type mm struct {
		leg, diag string
		n         int64
		first     *trafficDetail
		sig       string
	}
	found := map[string]*mm{}
	for i := range pkts {
		p := &pkts[i]
		want, hit := c.ref.Decide(p)
		local[want.String()]++
		if hit.Rule >= 0 || hit.MustRules > 0 {
			nRule++
		}
		for li, v := range []*control.VerifRouting{c.opt, c.base} {
			if v == nil {
				continue
			}
			leg := legNames[li]
			got, rerr := t.route(v, p)
			if rerr == nil && got == want {
				continue
			}
			gs := got.String()
			if rerr != nil {
				gs = "error: " + rerr.Error()
			}
			diag := "other"
			if leg == "optimised" && rerr == nil && len(c.opt.OptRules) < len(prog.Rules) { // only when rules really were fused
				if m, ch := mergedNegatedTraffic(c.exp); ch {
					if mref, e := vroute.NewReferenceFromText(m.ConfigText()); e == nil {
						if d, _ := mref.Decide(p); d == got {
							diag = "merge-negated"
						}
					}
				}
			}
			k := leg + "|" + diag
			x := found[k]
			if x == nil {
				x = &mm{leg: leg, diag: diag}
				x.first = &trafficDetail{Pipeline: "traffic", Leg: leg, Diag: diag, Program: prog, Config: c.text, Packet: toJSON(p), Want: want.String(), Got: gs,
					HitRule: hit.Rule, Written: baseText, Optimised: optText, Chain: t.chain}
				x.sig = fmt.Sprintf("pipeline=traffic leg=%s diag=%s list=[%s] lowered=[%s] pkt=%s want=%s got=%s", leg, diag, prog.OneLine(), optText, p.Key(), want.String(), gs)
				found[k] = x
			}
			x.n++
		}
	}
	for _, x := range found {
		cls := "traffic|" + x.leg + "|" + x.diag
		if x.diag == "other" {
			cls += "|" + trafficShape(prog)
		}
		t.f.add(&finding{class: cls, length: len(prog.Rules), space: spaceOrd, index: idx, sig: x.sig, detail: x.first}, x.n)
	}
	n := int64(len(pkts))
	t.evals.Add(n)
	t.byRule.Add(nRule)
	if changed {
		t.nontrivial.Add(n)
	}
	t.outcomes.add(local)
	if len(pkts) > 0 && ((spaceOrd == 1 && idx == 1) || (spaceOrd == 2 && idx == 18)) { // fixed positions: the evidence is the same on every run
		d, hit := c.ref.Decide(&pkts[len(pkts)/2])
		t.r.Sample(map[string]any{"pipeline": "traffic", "list_as_written": prog.OneLine(), "lowered": optText, "packets": len(pkts),
			"one_packet": pkts[len(pkts)/2].Key(), "its_decision": d.String(), "by_rule": hit.Rule})
	}
}

// trafficShape: the set of (negation, canonical function) pairs and outbounds of a list — groups unnamed mismatches.
func trafficShape(p *vroute.Program) string {
	seen := map[string]bool{}
	var ks []string
	for _, r := range p.Rules {
		var cs []string
		for _, c := range r.Conds {
			n := ""
			if c.Not {
				n = "!"
			}
			geo := ""
			for _, x := range c.Params {
				if x.Key == "geosite" || x.Key == "geoip" || x.Key == "ext" {
					geo = "@geo"
				}
			}
			cs = append(cs, n+canonFunc(c.Func)+geo)
		}
		k := strings.Join(cs, "&")
		if !seen[k] {
			seen[k] = true
			ks = append(ks, k)
		}
	}
	return strings.Join(ks, ",")
}

func (t *trafficLeg) runSpace(ord int, name string, alpha []vroute.Rule, minLen, maxLen int, opts vroute.PacketOpts, viaText bool) {
	sp := &seqSpace{name: name, n: len(alpha), minLen: minLen, maxLen: maxLen}
	n := sp.count()
	l0, e0 := t.lists.Load(), t.evals.Load()
	t.r.ParallelFor(n, func(i int) {
		if t.deadline() {
			t.r.CapHit("internal time budget reached inside traffic space " + name)
			return
		}
		idx := sp.decode(i)
		prog := &vroute.Program{Label: name, Fallback: trafficFallback}
		for _, k := range idx {
			prog.Rules = append(prog.Rules, alpha[k])
		}
		t.one(ord, i, prog, opts, viaText)
	})
	t.r.Set("space_traffic_"+name+"_lists", int(t.lists.Load()-l0))
	t.r.Set("space_traffic_"+name+"_decisions", int(t.evals.Load()-e0))
	fmt.Printf("C04: traffic space %-12s alphabet=%d len=%d..%d lists=%d decisions=%d t=%.0fs\n", name, len(alpha), minLen, maxLen, t.lists.Load()-l0, t.evals.Load()-e0, t.r.Elapsed().Seconds())
}
