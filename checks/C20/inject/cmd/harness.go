//go:build verif

package cmd

// C20 harness (package cmd, injected): a closed system around ONE real reloadManager, constructed exactly as
// (*Runner).Run constructs it (c20NewManager is generated from those statements).
//
//   thread "signals"   delivers SIGUSR1/SIGUSR2 into the real `sigs` channel the way os/signal does (non-blocking send)
//   thread "mainloop"  the main signal loop of Run(): the real select on sigs / runStateChanges, then one GENERATED
//                      path of the loop body, executed through the real primitives (admission =
//                      reloadManager.queueReloadRequest -> tryQueueReloadRequest; waitReloadReadyOrSignal runs for real)
//   thread "worker"    `for req := range reloadManager.reloadReqs`: one GENERATED path of the worker body per request
//   threads "serve"    stand-ins for the `go func(){ ...c.Serve(readyChan, listener)...; notifyRunStateChange() }()` closures
//   real goroutines    startControlPlaneRetirement's retirement goroutine (runs for real on a zero control plane; how long
//                      closing the old generation takes is a scheduler/ChooseFree decision taken inside the real Close()) and
//                      releaseReloadPendingAfterRetirement's waiter goroutine
//
// The path sets (c20WorkerPaths / c20MainPaths) come from $WORK/pre/paths.go, regenerated from cmd/run.go on every run.
// Paths are taken lazily (a trie walk): where the remaining candidate paths differ in an OPAQUE decision the harness
// asks vsched.ChooseFree (cost-free alternative); where they differ in a REAL guard the guard is evaluated on the real
// manager at that very position.
//
// The oracle is written from the property statement only (see c20Check / admit / final()).

import (
	"encoding/json"
	"errors"
	"fmt"
	"io"
	"net/http"
	"os"
	"sort"
	"strings"
	"syscall"
	"unsafe"

	"github.com/daeuniverse/dae/common/consts"
	outbounddialer "github.com/daeuniverse/dae/component/outbound/dialer"
	"github.com/daeuniverse/dae/control"
	"github.com/daeuniverse/dae/verifx/vsched"
	"github.com/daeuniverse/dae/verifx/vtime"
	"github.com/sirupsen/logrus"
)

// ---- types shared with the generated file ----------------------------------------------------------

type c20Step struct {
	Guard bool
	N     string
	L     int
	Want  bool
	Do    func(h *c20H)
	Eval  func(h *c20H) bool
}

type c20Path struct {
	ID, Role, Exit, Decisions string
	Sites                     string // run.go lines of the last event of every CFG path merged into this projection
	Raw                       int
	Steps                     []c20Step
}

type c20Info struct {
	RunGoSHA, Function, Construction, RetirementSkeleton string
	RawWorker, RawMain, WorkerLine, MainLine             int
}

var c20ModelErr = errors.New("c20 model: stage failed")

// ---- scenario -----------------------------------------------------------------------------------------

type c20Scen struct {
	name    string
	signals []syscall.Signal
	// per accepted request (1st, 2nd, ...): the class of worker paths offered ("" = every class) and whether the
	// request is explored through ALL its alternatives or only through one canonical representative (the product of two
	// fully explored requests is mostly redundant: the system returns to nearly the same rest state in between).
	class []string
	canon []bool
	// offer the "Re-listening after reload" branch of the main loop (listener == nil while a hand-off is pending; the
	// worker always installs a listener before it begins a hand-off, so the branch only exists statically)
	relisten bool
}

func (sc *c20Scen) classOf(req int) string {
	if req >= 1 && req <= len(sc.class) {
		return sc.class[req-1]
	}
	return ""
}

func (sc *c20Scen) canonical(req int) bool {
	if req >= 1 && req <= len(sc.canon) {
		return sc.canon[req-1]
	}
	return true
}

type c20Retire struct {
	cancelled  bool // the retirement goroutine called oldCancel()
	gatePassed bool // the real ControlPlane.Close() of the old generation was entered and allowed to proceed: only from
	// this moment on may the old generation count as retired (Close then runs to its end for real)
	owner int
	by    string
}

type c20H struct {
	sc   *c20Scen
	m    *reloadManager
	sigs chan os.Signal
	log  *logrus.Logger

	// "real variables" of the generated code
	req        reloadRequest
	sig        os.Signal
	handoff    *stagedReloadHandoff
	reloadErr  error
	waitResult reloadReadyWaitResult
	termSig    os.Signal
	readyChan  chan bool
	selCase    int
	pprof      *http.Server
	mainSet    []*c20Path

	// the progress "file"
	code    byte
	content string

	// thread bookkeeping
	tidMain, tidWorker int
	workerAt, mainAt   string
	workerIdx          int // number of requests the worker has taken
	inEv               map[int]int
	activity           map[int]int
	activityAll        int
	retire             []*c20Retire
	retireInFlight     int
	serveStarted       int
	lateTails          []func(h *c20H)
	waitSeq            int
	lastServeReady     bool // the most recent hand-off saw its new generation become ready
	sigDone            bool
	stopping           bool
	exited             string
	bodyDone           bool

	// admission bookkeeping
	admActive      bool
	admTid         int
	admWrites      []byte
	admLastContent string
	admBegins      int
	admEnds        int
	accepted       int
	refused        int
	answered       []bool
	delivered      int
	dropped        int
	sigSeen        int
	strictChecked  int
	strictSkipped  int
	waitOutcomes   [4]int
	retireModes    [3]int
	pathsTaken     []string
	resets         int

	viol       []string
	violDetail []any
	trace      c20Trace
}

var c20Cur *c20H

func (h *c20H) bump() {
	tid := vsched.ThreadID()
	h.activity[tid]++
	h.activityAll++
}

func (h *c20H) violate(sig string, detail any) {
	if len(h.viol) < 4 {
		h.viol = append(h.viol, sig)
		h.violDetail = append(h.violDetail, detail)
	}
}

// the event trace (violation detail): step events are stored unformatted, the rare other events as text
type c20Ev struct{ role, name string }

type c20Trace []c20Ev

func (t c20Trace) MarshalJSON() ([]byte, error) { return json.Marshal(t.lines()) }

func (t c20Trace) lines() []string {
	out := make([]string, 0, len(t))
	for _, e := range t {
		if e.role == "" {
			out = append(out, e.name)
		} else {
			out = append(out, e.role+": "+e.name)
		}
	}
	return out
}

func (t c20Trace) String() string { return "\n  " + strings.Join(t.lines(), "\n  ") }

func (h *c20H) tr(f string, a ...any) {
	if len(h.trace) < 600 {
		h.trace = append(h.trace, c20Ev{"", fmt.Sprintf(f, a...)})
	}
}

// ---- silent observation (no scheduling point: exactly one managed thread runs at a time) -------------------------

func c20PeekBool(p unsafe.Pointer) bool { return *(*uint32)(p) != 0 }

type c20Snap struct {
	pending, active, reloading bool
	err                        error
	staged                     *stagedReloadHandoff
	retDone                    <-chan struct{}
	reqAt                      int64
	reqMono                    uint64
	lastCancel                 bool
	lenReqs, lenRun            int
	suppression                int32
}

func (h *c20H) snapshot() c20Snap {
	m := h.m
	return c20Snap{
		pending:     c20PeekBool(unsafe.Pointer(&m.reloadPending)),
		active:      c20PeekBool(unsafe.Pointer(&m.reloadActive)),
		reloading:   c20PeekBool(unsafe.Pointer(&m.reloading)),
		err:         m.reloadingErr,
		staged:      m.pendingStagedHandoff,
		retDone:     m.pendingRetirementDone,
		reqAt:       m.pendingReloadRequestedAt.UnixNano(),
		reqMono:     m.pendingReloadRequestedAtMono,
		lastCancel:  m.lastRetirementCancel != nil,
		lenReqs:     len(m.reloadReqs),
		lenRun:      len(m.runStateChanges),
		suppression: outbounddialer.VerifC20SuppressionCount(),
	}
}

func (a c20Snap) diff(b c20Snap) string {
	var d []string
	add := func(n string, x, y any) {
		if x != y {
			switch x.(type) {
			case bool, int, int32:
				d = append(d, fmt.Sprintf("%s %v->%v", n, x, y))
			default: // pointers, channels, errors, timestamps: keep the signature independent of addresses
				d = append(d, n+" changed")
			}
		}
	}
	add("reloadPending", a.pending, b.pending)
	add("reloadActive", a.active, b.active)
	add("reloading", a.reloading, b.reloading)
	add("reloadingErr", a.err, b.err)
	add("pendingStagedHandoff", a.staged, b.staged)
	add("pendingRetirementDone", a.retDone, b.retDone)
	add("pendingReloadRequestedAt", a.reqAt, b.reqAt)
	add("pendingReloadRequestedAtMono", a.reqMono, b.reqMono)
	add("lastRetirementCancel set", a.lastCancel, b.lastCancel)
	add("len(reloadReqs)", a.lenReqs, b.lenReqs)
	add("len(runStateChanges)", a.lenRun, b.lenRun)
	add("suppression counter", a.suppression, b.suppression)
	return strings.Join(d, ", ")
}

// ---- hooks on the package-variable seams of run.go ---------------------------------------------------------------

func (h *c20H) installHooks() {
	setRunSignalProgress = func(code byte, content string) error {
		// writing the progress file is a visible operation on shared state (an atomic rename in production)
		vsched.Yield()
		tid := vsched.ThreadID()
		h.bump()
		if h.admActive && tid == h.admTid {
			h.admWrites = append(h.admWrites, code)
			h.admLastContent = content
		}
		h.code, h.content = code, content
		h.tr("T%d progress:=%c %q", tid, code, content)
		if (code == consts.ReloadDone || code == consts.ReloadError) && content == "c20-model" {
			// an ANSWER written by the thread that processes the request
			for i := range h.answered {
				h.answered[i] = true
			}
		}
		return nil
	}
	getRunSignalProgress = func() (byte, string, error) {
		vsched.Yield()
		h.bump()
		return h.code, h.content, nil
	}
	beginReloadProxyFailureSuppression = func() {
		tid := vsched.ThreadID()
		h.bump()
		if h.admActive && tid == h.admTid {
			h.admBegins++
		}
		outbounddialer.BeginReloadProxyFailureSuppression()
	}
	endReloadProxyFailureSuppression = func() {
		tid := vsched.ThreadID()
		h.bump()
		if h.admActive && tid == h.admTid {
			h.admEnds++
		}
		if tid != h.tidMain && tid != h.tidWorker && tid != 0 && h.retireInFlight > 0 {
			// the waiter goroutine of releaseReloadPendingAfterRetirement reached its release
			h.retireInFlight--
		}
		outbounddialer.EndReloadProxyFailureSuppression()
		h.tr("T%d endSuppression -> %d", tid, outbounddialer.VerifC20SuppressionCount())
	}
	// resetting the sticky proxy-IP cache is unrelated to the property; the seam is replaced by a counter
	resetReloadProxyRuntimeState = func() { h.resets++ }
}

// ---- the trie walk over generated paths ---------------------------------------------------------------------------

// c20Class classifies a worker path by the events it contains (used to partition the exploration, never the oracle).
func c20Class(p *c20Path) string {
	cls := "fail"
	rollback := false
	for _, s := range p.Steps {
		switch {
		case s.N == "setReloadError(err)" && cls == "fail":
			rollback = true
		case s.N == "beginHandoff()" && cls == "fail":
			cls = "nonstaged"
		case strings.HasPrefix(s.N, "setPendingStagedHandoff"):
			cls = "staged"
		}
	}
	if cls == "nonstaged" && rollback {
		cls = "nonstaged-rollback"
	}
	return cls
}

func c20InClass(p *c20Path, classes string) bool {
	if classes == "" {
		return true
	}
	c := c20Class(p)
	for _, x := range strings.Split(classes, ",") {
		if x == c {
			return true
		}
	}
	return false
}

// c20Relisten: main-loop paths of the "Re-listening after reload" branch (`listener == nil` while reloading).
func c20Relisten(p *c20Path) bool {
	reloading := false
	for _, s := range p.Steps {
		if s.Guard && s.N == "reloadManager.reloading.Load()" && s.Want {
			reloading = true
		}
	}
	return reloading && strings.Contains(p.Decisions, "listener == nil=true")
}

func (h *c20H) step(role string, name string, f func()) {
	tid := vsched.ThreadID()
	h.inEv[tid]++
	h.bump()
	if len(h.trace) < 600 {
		h.trace = append(h.trace, c20Ev{role, name})
	}
	switch role {
	case "W":
		h.workerAt = name
	case "M":
		h.mainAt = name
	}
	f()
	h.inEv[tid]--
	h.bump()
}

// walk executes one iteration of a loop body: returns the path taken (nil on a model gap).
func (h *c20H) walk(role string, set []*c20Path, req int) *c20Path {
	type grp struct {
		key     string
		members []*c20Path
		allExit bool
	}
	cands := set
	for i := 0; ; i++ {
		var groups []*grp
		idx := map[string]*grp{}
		for _, p := range cands {
			key := "END"
			if i < len(p.Steps) {
				if p.Steps[i].Guard {
					key = "G:" + p.Steps[i].N
				} else {
					key = "E:" + p.Steps[i].N
				}
			} else if p.Exit != "" {
				key = "END-EXIT"
			}
			g := idx[key]
			if g == nil {
				g = &grp{key: key, allExit: true}
				idx[key] = g
				groups = append(groups, g)
			}
			g.members = append(g.members, p)
			if p.Exit == "" {
				g.allExit = false
			}
		}
		if len(groups) > 1 {
			// opaque decision. Alternatives that can only end in process exit are not behaviours of a living dae.
			var live []*grp
			for _, g := range groups {
				if !g.allExit {
					live = append(live, g)
				}
			}
			if len(live) > 0 {
				groups = live
			}
		}
		g := groups[0]
		if len(groups) > 1 {
			if h.sc.canonical(req) {
				// canonical representative: the alternative shared by most extracted paths (first one on a tie)
				for _, c := range groups[1:] {
					if len(c.members) > len(g.members) {
						g = c
					}
				}
			} else {
				g = groups[vsched.ChooseFree(len(groups), role+"-path")]
			}
		}
		switch {
		case strings.HasPrefix(g.key, "END"):
			return g.members[0]
		case strings.HasPrefix(g.key, "G:"):
			st := &g.members[0].Steps[i]
			var v bool
			h.step(role, "guard "+st.N, func() { v = st.Eval(h) })
			var next []*c20Path
			for _, p := range g.members {
				if p.Steps[i].Want == v {
					next = append(next, p)
				}
			}
			if len(next) == 0 {
				h.violate(fmt.Sprintf("MODEL-GAP: no extracted %s path for guard %q == %v (run.go:%d): extend the correlation rule of the generator", role, st.N, v, st.L), h.trace)
				return nil
			}
			cands = next
		default:
			st := &g.members[0].Steps[i]
			h.step(role, st.N, func() { st.Do(h) })
			cands = g.members
		}
	}
}

// ---- threads ---------------------------------------------------------------------------------------------------

func (h *c20H) workerLoop() {
	h.tidWorker = vsched.ThreadID()
	for {
		h.workerAt = "idle"
		req, ok := vsched.Recv2((<-chan reloadRequest)(h.m.reloadReqs)) // `for req := range reloadManager.reloadReqs`
		if !ok || h.stopping {
			h.workerAt = "stopped"
			return
		}
		h.req = req
		h.workerIdx++
		set := c20WorkerPaths
		if cls := h.sc.classOf(h.workerIdx); cls != "" {
			set = nil
			for _, p := range c20WorkerPaths {
				if p.Exit != "" || c20InClass(p, cls) {
					set = append(set, p)
				}
			}
		}
		p := h.walk("W", set, h.workerIdx)
		if p == nil {
			h.workerAt = "model-gap"
			return
		}
		h.pathsTaken = append(h.pathsTaken, p.ID)
		if p.Exit != "" {
			h.exited = "worker: " + p.Exit
			h.workerAt = "exited"
			return
		}
	}
}

func (h *c20H) mainLoop() {
	h.tidMain = vsched.ThreadID()
	for {
		h.mainAt = "idle"
		vsched.SelectWait(false, vsched.R(h.m.sigs), vsched.R(h.m.runStateChanges))
		select {
		case sig := <-vsched.Arm(0, h.m.sigs):
			h.selCase, h.sig = 0, sig
			h.sigSeen++
		case <-vsched.Arm(1, (<-chan struct{})(h.m.runStateChanges)):
			h.selCase = 1
		}
		if h.stopping {
			h.mainAt = "stopped"
			return
		}
		p := h.walk("M", h.mainSet, h.workerIdx)
		if p == nil {
			h.mainAt = "model-gap"
			return
		}
		h.pathsTaken = append(h.pathsTaken, p.ID)
		if p.Exit != "" {
			h.exited = "mainloop: " + p.Exit
			h.mainAt = "exited"
			return
		}
	}
}

func (h *c20H) signalThread() {
	for i, s := range h.sc.signals {
		if i > 0 {
			// the next signal is raised after the previous one was taken out of the channel (a signal raised while
			// the channel is still full is dropped by the runtime and is no request at all)
			vsched.WaitUntil(func() bool { return len(h.sigs) == 0 })
		}
		h.bump()
		select {
		case h.sigs <- s:
			h.delivered++
			h.tr("signal %v delivered", s)
		default:
			h.dropped++
		}
	}
	h.sigDone = true
}

// spawnServe stands for `go func(){ defer readyChan<-false; ...c.Serve(readyChan, listener)...; notifyRunStateChange() }()`.
// The outcome of the serve attempt is a cost-free environment choice taken at the spawn: ready / failed / never answers
// (the REAL timer in waitReloadReadyOrSignal then decides). tail = the events the generator found inside the closure
// (notifyRunStateChange): a failed attempt runs them at once (the closure runs to its end, then the deferred send reports
// the failure); a serving closure returns only when its listener is closed by a later generation or at shutdown, so its
// tail is kept and run once the system has come to rest (stale wake-up of the main loop).
func (h *c20H) spawnServe(tail func(h *c20H)) {
	rc := h.readyChan
	h.serveStarted++
	outcome := 0
	if !h.sc.canonical(h.workerIdx) {
		outcome = vsched.ChooseFree(3, "serve-outcome")
	}
	switch outcome {
	case 0:
		rc <- true
		h.lateTails = append(h.lateTails, tail)
	case 1:
		tail(h)
		select {
		case rc <- false:
		default:
		}
	case 2:
		h.lateTails = append(h.lateTails, tail)
	}
}

func (h *c20H) spawn(tail func(h *c20H)) {
	h.lateTails = append(h.lateTails, tail)
}

func (h *c20H) waitReady(f func() (reloadReadyWaitResult, os.Signal)) (reloadReadyWaitResult, os.Signal) {
	h.mainAt = "waitReloadReadyOrSignal"
	r, s := f()
	h.waitSeq++
	h.lastServeReady = r == reloadReadyWaitReady
	if int(r) < len(h.waitOutcomes) {
		h.waitOutcomes[r]++
	}
	return r, s
}

func (h *c20H) newHandoff() *stagedReloadHandoff { return &stagedReloadHandoff{} }

// startRetirement runs the REAL startControlPlaneRetirement on a zero control plane. The teardown of the old generation
// is observable: the real ControlPlane.Close() calls the plane's cancel function first, and that function is the gate at
// which the scheduler decides how long the teardown lasts. The old generation counts as retired only once Close() was
// entered and let through; whatever the real function does with its done channel is up to the real function.
func (h *c20H) startRetirement() {
	tid := vsched.ThreadID()
	rt := &c20Retire{owner: h.accepted, by: "mainloop"}
	if tid == h.tidWorker {
		rt.owner, rt.by = h.workerIdx, "worker"
		if h.accepted > rt.owner && h.lastServeReady {
			h.violate("after a successful reload a newer request was accepted before the previous generation even started to retire", h.trace)
		}
	}
	h.retire = append(h.retire, rt)
	// environment of the retirement (cost-free choice; the canonical representative is the first alternative):
	//  0  stale connections are aborted at once (no dialer overlap between the generations)
	//  1  graceful drain (dialer overlap, no abort file) while one session of the old generation never ends; the reload
	//     was fast, part of the retirement budget is left
	//  2  the same, but signal -> cut-over took longer than the whole retirement budget (slow subscription fetch, waiting
	//     for the network ...): the virtual clock is advanced past reloadTotalSwitchBudget before the retirement is
	//     registered, so remainingReloadRetirementBudget is exhausted
	mode := 0
	if !h.sc.canonical(rt.owner) {
		mode = vsched.ChooseFree(3, "retirement-environment")
	}
	if mode == 2 {
		vtime.Sleep(reloadTotalSwitchBudget + vtime.Second)
	}
	h.retireModes[mode]++
	old := control.VerifC20RetiringPlane(func() { h.retireGate(rt) }, mode != 0)
	h.m.startControlPlaneRetirement(h.log, old, nil, func() { rt.cancelled = true }, false, mode != 0)
}

func (h *c20H) retireGate(rt *c20Retire) {
	long := false // canonical representative: a short retirement, so that a later request can be accepted at all
	if !h.sc.canonical(rt.owner) {
		long = vsched.ChooseFree(2, "retirement-ends") == 0
	}
	if long {
		// long retirement: it lasts until every signal of the scenario was raised and taken
		vsched.WaitUntil(func() bool { return (h.sigDone && len(h.sigs) == 0) || h.stopping })
	}
	h.bump()
	rt.gatePassed = true
	h.retireInFlight++
	h.tr("old generation closed (retirement ends)")
}

// admit wraps the REAL admission (reloadManager.queueReloadRequest -> tryQueueReloadRequest) with the oracle.
func (h *c20H) admit(isSuspend bool, f func() bool) {
	tid := vsched.ThreadID()
	h.admActive, h.admTid, h.admWrites, h.admBegins, h.admEnds = true, tid, nil, 0, 0
	othersBusy := 0
	for t, n := range h.inEv {
		if t != tid {
			othersBusy += n
		}
	}
	strict := othersBusy == 0 && h.retireInFlight == 0
	act0 := h.activityAll - h.activity[tid]
	snap0 := h.snapshot()
	ok := f()
	snap1 := h.snapshot()
	act1 := h.activityAll - h.activity[tid]
	h.admActive = false
	if ok {
		h.tr("request #%d ACCEPTED (suspend=%v)", h.accepted+1, isSuspend)
		// at most one request in progress: the previous accepted request must have been answered ...
		for i, a := range h.answered {
			if !a {
				h.violate(fmt.Sprintf("second request accepted while accepted request #%d is still in progress (not answered yet)", i+1), h.trace)
			}
		}
		// ... and the generation it replaced must have retired
		// (after a reload whose new generation did not come up, dae deliberately accepts a retry at once)
		for _, rt := range h.retire {
			if !rt.gatePassed && h.lastServeReady {
				h.violate("request accepted after a successful reload while the previous generation is still retiring (retirement not finished)", h.trace)
				break
			}
		}
		if !snap1.pending && strict && act0 == act1 {
			h.violate("request accepted but the admission token (reloadPending) is not held", h.trace)
		}
		h.accepted++
		h.answered = append(h.answered, false)
		return
	}
	h.refused++
	h.tr("request REFUSED (suspend=%v) writes=%q", isSuspend, string(h.admWrites))
	// a refused request is reported busy and writes nothing but the busy report
	if len(h.admWrites) == 0 {
		h.violate("refused request was not reported busy (no progress report written)", h.trace)
	}
	// (the only other write tolerated is the withdrawal of its OWN busy report as the very last write: "done" with an
	// empty message, which is what clearRejectedReloadProgress produces)
	for i, c := range h.admWrites {
		if c == consts.ReloadBusy {
			continue
		}
		if c == consts.ReloadDone && i > 0 && i == len(h.admWrites)-1 && h.admLastContent == "" {
			continue
		}
		h.violate(fmt.Sprintf("refused request wrote progress code %q instead of only the busy report", string(c)), h.trace)
		break
	}
	// ... and changes nothing else
	if h.admBegins != h.admEnds {
		h.violate(fmt.Sprintf("refused request changed the muting counter (begin=%d end=%d)", h.admBegins, h.admEnds), h.trace)
	}
	if strict && act0 == act1 {
		h.strictChecked++
		if d := snap0.diff(snap1); d != "" {
			h.violate("refused request changed state: "+d, h.trace)
		}
	} else {
		h.strictSkipped++
	}
}

// ---- body -----------------------------------------------------------------------------------------------------

func (h *c20H) stable() (bool, string) {
	var why []string
	if h.workerAt != "idle" {
		why = append(why, "worker at "+h.workerAt)
	}
	if h.mainAt != "idle" {
		why = append(why, "main loop at "+h.mainAt)
	}
	if !h.sigDone {
		why = append(why, "a raised signal is never taken from the channel")
	}
	if len(h.sigs) != 0 || len(h.m.runStateChanges) != 0 || len(h.m.reloadReqs) != 0 {
		why = append(why, "channels not drained")
	}
	for _, rt := range h.retire {
		if !rt.gatePassed {
			why = append(why, fmt.Sprintf("retirement started by %s not finished", rt.by))
		}
	}
	return len(why) == 0, strings.Join(why, "; ")
}

func c20Body(sc *c20Scen) {
	h := &c20H{sc: sc, inEv: map[int]int{}, activity: map[int]int{}, tidMain: -1, tidWorker: -1}
	c20Cur = h
	h.log = logrus.New()
	h.log.SetOutput(io.Discard)
	outbounddialer.VerifC20ResetSuppression()
	h.installHooks()
	h.m, h.sigs = c20NewManager()
	h.mainSet = c20MainPaths
	if !sc.relisten {
		h.mainSet = nil
		for _, p := range c20MainPaths {
			if !c20Relisten(p) {
				h.mainSet = append(h.mainSet, p)
			}
		}
	}
	h.code, h.content = consts.ReloadDone, "" // Run() reports Done once the first generation serves

	// threads are started one by one (each parks at its first blocking operation before the next one starts), and the
	// harness body only ever waits for global quiescence: no schedule alternatives are spent on the harness itself
	vsched.GoNamed("worker", h.workerLoop)
	vsched.Quiesce()
	vsched.GoNamed("mainloop", h.mainLoop)
	vsched.Quiesce()
	vsched.GoNamed("signals", h.signalThread)
	why := ""
	ok := false
	for round := 0; round < 9 && !ok && h.exited == "" && len(h.viol) == 0; round++ {
		vsched.Quiesce()
		if ok, why = h.stable(); !ok {
			// a serve attempt that never answers is ended by the real 45 s timer of waitReloadReadyOrSignal
			vtime.Sleep(reloadReadyTimeout + vtime.Second)
		} else if len(h.lateTails) > 0 {
			// serve closures of replaced generations return now (their listeners are closed): stale wake-ups
			for _, t := range h.lateTails {
				t(h)
			}
			h.lateTails = nil
			ok = false
		}
	}
	if h.exited == "" && len(h.viol) == 0 {
		if !ok {
			h.violate("wedged: dae does not come to rest ("+why+")", map[string]any{"blocked": vsched.Blocked(), "trace": h.trace})
		} else {
			h.final()
		}
	}
	// shutdown of the harness threads
	h.stopping = true
	if h.workerAt == "idle" {
		select {
		case h.m.reloadReqs <- reloadRequest{}:
		default:
		}
	}
	notifyRunStateChange(h.m.runStateChanges)
	vsched.Quiesce()
	h.bodyDone = true
}

// final: the system is at rest (all threads idle, every retirement finished).
func (h *c20H) final() {
	s := h.snapshot()
	if s.pending {
		h.violate("at rest: reloadPending is still set (no new request can ever be accepted)", h.trace)
	}
	if s.active {
		h.violate("at rest: reloadActive is still set", h.trace)
	}
	if s.reloading {
		h.violate("at rest: reloading is still set", h.trace)
	}
	if s.suppression != 0 {
		h.violate("at rest: muting of node-failure reports not lifted (suppression counter is not back to 0)", map[string]any{"counter": s.suppression, "trace": h.trace})
	}
	for i, a := range h.answered {
		if !a {
			h.violate(fmt.Sprintf("at rest: accepted request #%d was never answered (no done/error report)", i+1), h.trace)
			break
		}
	}
	if h.code != consts.ReloadDone && h.code != consts.ReloadError {
		h.violate(fmt.Sprintf("at rest: progress code is %q (%s), not a final done/error: `dae reload` refuses to send a new request", string(h.code), c20CodeName(h.code)), h.trace)
	}
	// the muting window that follows the last release must expire
	vtime.Sleep(outbounddialer.VerifC20QuiesceWindow() + vtime.Second)
	if outbounddialer.VerifC20Suppressed() {
		h.violate("at rest: node-failure reports are still muted after the quiesce window", h.trace)
	}
	// a fresh request is accepted again (the worker is told to stop right after taking it)
	h.stopping = true
	okFresh := h.m.queueReloadRequest(h.log, reloadRequest{requestedAt: vtime.Now()})
	if !okFresh {
		h.violate("at rest: a fresh request is refused", h.trace)
	}
}

func c20CodeName(c byte) string {
	switch c {
	case consts.ReloadSend:
		return "send"
	case consts.ReloadProcessing:
		return "processing"
	case consts.ReloadDone:
		return "done"
	case consts.ReloadError:
		return "error"
	case consts.ReloadBusy:
		return "busy"
	}
	return "?"
}

func c20FirstLine(s string) string {
	if i := strings.IndexByte(s, '\n'); i >= 0 {
		return s[:i]
	}
	return s
}

func c20Check(r *vsched.Result) (string, any) {
	h := c20Cur
	if r.Status == vsched.StPanic {
		return "panic in managed thread: " + c20FirstLine(r.PanicMsg), r.PanicMsg
	}
	if r.Status == vsched.StHorizon {
		return "", nil
	}
	if len(h.viol) > 0 {
		return h.viol[0], map[string]any{"all": h.viol, "detail": h.violDetail[0], "paths": h.pathsTaken}
	}
	if h.exited != "" {
		return "MODEL-GAP: a process-exit path was selected by real guards: " + h.exited, h.trace
	}
	if !h.bodyDone {
		return "wedged: the system never came to rest (deadlock)", map[string]any{"blocked": r.Blocked, "trace": h.trace}
	}
	if len(r.Blocked) > 0 {
		var names []string
		for _, b := range r.Blocked {
			// "T5(go) at recv" -> "go at recv"
			if i := strings.Index(b, "("); i >= 0 {
				b = b[i+1:]
			}
			names = append(names, strings.Replace(b, ")", "", 1))
		}
		sort.Strings(names)
		return "goroutine left blocked forever after the system came to rest: " + strings.Join(names, ", "), map[string]any{"blocked": r.Blocked, "trace": h.trace}
	}
	return "", nil
}

func c20Outcome(r *vsched.Result) string {
	h := c20Cur
	return fmt.Sprintf("acc=%d ref=%d drop=%d swallowed=%d paths=%v code=%c wait=%v retire=%v", h.accepted, h.refused, h.dropped,
		h.delivered-h.sigSeen, h.pathsTaken, h.code, h.waitOutcomes, h.retireModes)
}

// ---- exported to main -----------------------------------------------------------------------------------------

const (
	c20R = syscall.SIGUSR1 // dae reload
	c20S = syscall.SIGUSR2 // dae suspend
)

func VerifC20Scenarios(thorough bool) []*vsched.Scenario {
	R, S := c20R, c20S
	sig := func(s ...syscall.Signal) []syscall.Signal { return s }
	// "X*" = request explored through every extracted alternative of class X, "x" = one canonical representative only;
	// "+relisten" = the statically possible `listener == nil` branch of the main loop is offered too.
	const NS = "nonstaged,nonstaged-rollback"
	scens := []*c20Scen{
		{name: "R,S: fail* then staged", signals: sig(R, S), class: []string{"fail", "staged"}, canon: []bool{false, true}},
		{name: "S,R: staged* then nonstaged", signals: sig(S, R), class: []string{"staged", "nonstaged"}, canon: []bool{false, true}},
		{name: "R,R: nonstaged* then fail", signals: sig(R, R), class: []string{"nonstaged", "fail"}, canon: []bool{false, true}},
		{name: "R,S: staged then any* +relisten", signals: sig(R, S), class: []string{"staged", ""}, canon: []bool{true, false}, relisten: true},
		{name: "S,R: nonstaged then any* +relisten", signals: sig(S, R), class: []string{"nonstaged", ""}, canon: []bool{true, false}, relisten: true},
	}
	if thorough {
		scens = append(scens,
			&c20Scen{name: "R,R: nonstaged+rollback* then fail +relisten", signals: sig(R, R), class: []string{NS, "fail"}, canon: []bool{false, true}, relisten: true},
			&c20Scen{name: "R,S: fail* then fail*", signals: sig(R, S), class: []string{"fail", "fail"}, canon: []bool{false, false}},
			&c20Scen{name: "R,R: fail then any*", signals: sig(R, R), class: []string{"fail", ""}, canon: []bool{true, false}, relisten: true},
			&c20Scen{name: "R,S,R: fail* staged fail", signals: sig(R, S, R), class: []string{"fail", "staged", "fail"}, canon: []bool{false, true, true}},
			&c20Scen{name: "S,R,R: staged* nonstaged staged", signals: sig(S, R, R), class: []string{"staged", "nonstaged", "staged"}, canon: []bool{false, true, true}},
			&c20Scen{name: "R,R,S: nonstaged* fail nonstaged", signals: sig(R, R, S), class: []string{"nonstaged", "fail", "nonstaged"}, canon: []bool{false, true, true}},
			&c20Scen{name: "R,S: staged* then staged* +relisten", signals: sig(R, S), class: []string{"staged", "staged"}, canon: []bool{false, false}, relisten: true},
		)
	}
	var out []*vsched.Scenario
	for _, sc := range scens {
		sc := sc
		out = append(out, &vsched.Scenario{
			Name:      sc.name,
			Body:      func() { c20Body(sc) },
			Check:     c20Check,
			Outcome:   c20Outcome,
			MaxSteps:  6000,
			HorizonNs: int64(30 * vtime.Minute),
		})
	}
	return out
}

// VerifC20ModelPaths describes the extracted path set for the evidence file.
func VerifC20ModelPaths() map[string]any {
	desc := func(ps []*c20Path) []map[string]any {
		var out []map[string]any
		for _, p := range ps {
			var steps []string
			for _, s := range p.Steps {
				if s.Guard {
					steps = append(steps, fmt.Sprintf("[%s]=%v", s.N, s.Want))
				} else {
					steps = append(steps, fmt.Sprintf("%s@%d", s.N, s.L))
				}
			}
			m := map[string]any{"id": p.ID, "merged_cfg_paths": p.Raw, "last_event_lines_of_merged_paths": p.Sites, "events": strings.Join(steps, " ; ")}
			if p.Exit != "" {
				m["process_exit"] = p.Exit
			} else if p.Role == "worker" {
				m["class"] = c20Class(p)
			}
			out = append(out, m)
		}
		return out
	}
	return map[string]any{
		"source":              fmt.Sprintf("cmd/run.go sha256=%s func %s (worker loop line %d, main loop line %d)", c20GenInfo.RunGoSHA, c20GenInfo.Function, c20GenInfo.WorkerLine, c20GenInfo.MainLine),
		"raw_acyclic_paths":   map[string]int{"worker": c20GenInfo.RawWorker, "mainloop": c20GenInfo.RawMain},
		"construction":        c20GenInfo.Construction,
		"retirement_skeleton": c20GenInfo.RetirementSkeleton,
		"worker":              desc(c20WorkerPaths),
		"mainloop":            desc(c20MainPaths),
	}
}
