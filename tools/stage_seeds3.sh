#!/bin/bash
# stage round-3 seeds from /tmp/seed3-<ID>/SEEDS into /verif/seeded/<ID>-seed{6,7,8}
for ID in "$@"; do
  S=/tmp/seed3-$ID/SEEDS
  [ -d "$S" ] || { echo "no $S"; continue; }
  for n in 1 2 3; do
    [ -f "$S/seed$n.diff" ] || continue
    D=/verif/seeded/$ID-seed$((n+5))
    mkdir -p "$D"
    cp "$S/seed$n.diff" "$D/patch.diff"
    [ -f "$S/seed$n.md" ] && cp "$S/seed$n.md" "$D/NOTE.md"
    [ -d "$S/seed${n}_demo" ] && { rm -rf "$D/demo"; cp -r "$S/seed${n}_demo" "$D/demo"; }
    echo staged $D
  done
done
