//go:build verif && linux

// C05 second leg: the same handleConn over REAL loopback TCP sockets, so that the kernel-facing copy paths
// (TIOCINQ pending-data probe + gather writev, splice fast path, bufio/prefix continuation on *net.TCPConn)
// execute. Timing here belongs to the kernel, so this leg is an enumeration of payload shapes, not of schedules;
// its oracle is byte equality only, which no timing can falsify spuriously.
package control

import (
	"bytes"
	"context"
	"fmt"
	"io"
	"net"
	"net/netip"
	"time"

	"github.com/bits-and-blooms/bloom/v3"
	"github.com/daeuniverse/dae/common/consts"
	ob "github.com/daeuniverse/dae/component/outbound"
	"github.com/daeuniverse/dae/component/outbound/dialer"
	"github.com/daeuniverse/dae/component/routing"
	D "github.com/daeuniverse/outbound/dialer"
	"github.com/daeuniverse/outbound/netproxy"
	"github.com/daeuniverse/outbound/pool"
	pbytes "github.com/daeuniverse/outbound/pool/bytes"
	dnsmessage "github.com/miekg/dns"
)

// lbConn is the accepted client socket as the tproxy listener sees it: LocalAddr is the ORIGINAL destination.
type lbConn struct {
	*net.TCPConn
	local *net.TCPAddr
}

func (c *lbConn) LocalAddr() net.Addr      { return c.local }
func (c *lbConn) UnderlyingConn() net.Conn { return c.TCPConn }

type lbDialer struct {
	dial func() (netproxy.Conn, error)
}

func (d *lbDialer) DialContext(context.Context, string, string) (netproxy.Conn, error) { return d.dial() }

func lbPair() (client, server *net.TCPConn, err error) {
	ln, err := net.ListenTCP("tcp", &net.TCPAddr{IP: net.IPv4(127, 0, 0, 1)})
	if err != nil {
		return nil, nil, err
	}
	defer ln.Close()
	type acc struct {
		c   *net.TCPConn
		err error
	}
	ch := make(chan acc, 1)
	go func() {
		c, err := ln.AcceptTCP()
		ch <- acc{c, err}
	}()
	client, err = net.DialTCP("tcp", nil, ln.Addr().(*net.TCPAddr))
	if err != nil {
		return nil, nil, err
	}
	a := <-ch
	return client, a.c, a.err
}

type C05LoopCase struct {
	Port       uint16
	Mode       string
	Chunk1     []byte // sent right after connect
	Chunk2     []byte // sent while the upstream dial is in progress (when HoldDial) or right after chunk1
	HoldDial   bool   // the fake dial returns only once chunk2 is pending in dae's socket
	ServerResp []byte
	Label      string // shape name used in signatures of the overlap leg
	atDial     func() // overlap leg: runs inside the upstream dial of this connection (after protocol detection, before the relay)
}

func lbIsTimeout(err error) bool {
	ne, ok := err.(net.Error)
	return ok && ne.Timeout()
}

func (tc *C05LoopCase) kind() string {
	if tc.Label == "" {
		return ""
	}
	return "/" + tc.Label
}

func headC05(b []byte) string {
	if len(b) > 48 {
		b = b[:48]
	}
	return fmt.Sprintf("%q", b)
}

// C05Loopback runs one case to completion and returns a violation signature ("" = held).
func C05Loopback(tc *C05LoopCase) (string, map[string]any) {
	client, accepted, err := lbPair()
	if err != nil {
		return "", map[string]any{"skipped": err.Error()}
	}
	defer client.Close()
	defer accepted.Close()
	daeSide, upstream, err := lbPair()
	if err != nil {
		return "", map[string]any{"skipped": err.Error()}
	}
	defer daeSide.Close()
	defer upstream.Close()

	if c05Routing == nil {
		conf := "global{}\ngroup{ g1{policy:fixed(0)} }\nrouting{\nfallback: g1\n}\n"
		v, err := VerifCompileRouting(conf, []string{"g1"}, []routing.RulesOptimizer{&routing.AliasOptimizer{}})
		if err != nil {
			return "harness: " + err.Error(), nil
		}
		c05Routing = v
	}
	log := VerifQuietLogger()
	gopt := &dialer.GlobalOption{Log: log, CheckInterval: time.Second}
	dm, _ := consts.ParseDialMode(tc.Mode)
	sent2 := make(chan struct{})
	dialStarted := make(chan struct{}, 3)
	mk := func(name string) *ob.DialerGroup {
		d := dialer.NewDialer(&lbDialer{dial: func() (netproxy.Conn, error) {
			dialStarted <- struct{}{}
			if tc.HoldDial && len(tc.Chunk2) > 0 {
				<-sent2
				deadline := time.Now().Add(2 * time.Second)
				for time.Now().Before(deadline) {
					if pending, err := tcpConnHasPendingReadData(accepted); err == nil && pending {
						break
					}
					time.Sleep(2 * time.Millisecond)
				}
				time.Sleep(20 * time.Millisecond)
			}
			if tc.atDial != nil {
				tc.atDial()
			}
			return daeSide, nil
		}}, gopt, dialer.InstanceOption{DisableCheck: true}, &dialer.Property{Property: D.Property{Name: "node-" + name, Address: "node.invalid:443", Protocol: "verif"}})
		return ob.NewDialerGroup(gopt, name, []*dialer.Dialer{d}, []*dialer.Annotation{{}},
			ob.DialerSelectionPolicy{Policy: consts.DialerSelectionPolicy_Fixed, FixedIndex: 0}, func(bool, *dialer.NetworkType, bool) {})
	}
	ctx, cancel := context.WithCancel(context.Background())
	defer cancel()
	cp := &ControlPlane{log: log, ctx: ctx, cancel: cancel, realDomainSet: bloom.NewWithEstimates(2048, 0.001), sniffingTimeout: 100 * time.Millisecond}
	cp.outbounds = []*ob.DialerGroup{mk("direct"), mk("block"), mk("g1")}
	cp.dialMode = dm
	cp.routingMatcher = c05Routing.Matcher
	cp.bootstrapResolvers = []netip.AddrPort{netip.MustParseAddrPort("192.0.2.53:53")}
	dc, err := NewDnsController(nil, &DnsControllerOption{Log: log, LifecycleContext: ctx,
		NewCache: func(fqdn string, answers, ns, extra []dnsmessage.RR, deadline time.Time, originalDeadline time.Time) (*DnsCache, error) {
			return &DnsCache{NS: ns, Extra: extra, Answer: answers, Deadline: deadline, OriginalDeadline: originalDeadline}, nil
		}})
	if err != nil {
		return "harness: " + err.Error(), nil
	}
	cp.dnsController = dc
	defer dc.Close()

	lc := &lbConn{TCPConn: accepted, local: &net.TCPAddr{IP: net.IPv4(198, 51, 100, 7), Port: int(tc.Port)}}
	handleDone := make(chan error, 1)
	go func() { handleDone <- cp.handleConn(context.Background(), lc) }()

	var serverGot, clientGot []byte
	var srvTimedOut bool
	srvDone := make(chan struct{})
	go func() {
		defer close(srvDone)
		upstream.SetReadDeadline(time.Now().Add(8 * time.Second))
		var rerr error
		serverGot, rerr = io.ReadAll(upstream)
		srvTimedOut = lbIsTimeout(rerr)
		upstream.Write(tc.ServerResp)
		upstream.CloseWrite()
	}()
	client.Write(tc.Chunk1)
	if tc.HoldDial {
		// the client keeps talking while dae is dialling: chunk2 must arrive AFTER protocol detection consumed chunk1
		select {
		case <-dialStarted:
		case <-time.After(8 * time.Second):
		}
	}
	if len(tc.Chunk2) > 0 {
		client.Write(tc.Chunk2)
	}
	close(sent2)
	client.CloseWrite()
	client.SetReadDeadline(time.Now().Add(8 * time.Second))
	var cerr error
	clientGot, cerr = io.ReadAll(client)
	<-srvDone
	select {
	case <-handleDone:
	case <-time.After(8 * time.Second):
		return "loopback: handleConn did not return", map[string]any{"timed_out": true}
	}
	want := append(append([]byte(nil), tc.Chunk1...), tc.Chunk2...)
	detail := map[string]any{"port": tc.Port, "mode": tc.Mode, "chunk1": len(tc.Chunk1), "chunk2": len(tc.Chunk2), "hold_dial": tc.HoldDial, "server_got": len(serverGot), "client_got": len(clientGot),
		"timed_out": srvTimedOut || lbIsTimeout(cerr)}
	if !bytes.Equal(serverGot, want) {
		off := 0
		for off < len(serverGot) && off < len(want) && serverGot[off] == want[off] {
			off++
		}
		detail["first_difference_at"] = off
		detail["server_got_head"], detail["client_sent_head"] = headC05(serverGot[off:]), headC05(want[off:])
		return fmt.Sprintf("loopback p%d/%s%s c1=%d c2=%d hold=%v: %s", tc.Port, tc.Mode, tc.kind(), len(tc.Chunk1), len(tc.Chunk2), tc.HoldDial, classify("client->upstream", want, serverGot)), detail
	}
	if !bytes.Equal(clientGot, tc.ServerResp) {
		return fmt.Sprintf("loopback p%d/%s%s c1=%d c2=%d hold=%v: %s", tc.Port, tc.Mode, tc.kind(), len(tc.Chunk1), len(tc.Chunk2), tc.HoldDial, classify("upstream->client", tc.ServerResp, clientGot)), detail
	}
	return "", detail
}

// ---- connection histories over real sockets ----------------------------------------------------------------
// C05History relays a SEQUENCE of independent connections in this process through RelayTCPContext (the relay
// core handleConn ends in) over real loopback TCP, so state the copy paths keep between connections (pooled
// splice pipes, pooled buffers) is carried from one connection to the next. Behaviours:
//   N  healthy 200 KiB up / 150 KiB down with half-close       n  healthy 100 B up / 50 B down
//   S  upstream never reads; the client uploads until it stalls; then the relay is cancelled
//   D  client never reads; the upstream sends until it stalls; then the relay is cancelled
//   R  upstream resets (SO_LINGER 0 close) while the client is uploading
// Oracle, per connection: what a peer received is exactly (healthy) or a prefix of (aborted) what ITS OWN other
// side sent. Timeouts are never violations (returned as inconclusive).
func C05History(hist []string, id int) (sig string, inconclusive bool, detail map[string]any) {
	detail = map[string]any{"history": fmt.Sprint(hist)}
	pat := func(tag string, n int) []byte {
		b := make([]byte, 0, n+64)
		for i := 0; len(b) < n; i++ {
			b = append(b, fmt.Sprintf("[%d.%s:%07d]", id, tag, i)...)
		}
		return b[:n]
	}
	isTimeout := func(err error) bool {
		ne, ok := err.(net.Error)
		return ok && ne.Timeout()
	}
	for step, beh := range hist {
		tag := fmt.Sprintf("%s%d", beh, step)
		client, left, err := lbPair()
		if err != nil {
			return "", true, detail
		}
		right, upstream, err := lbPair()
		if err != nil {
			client.Close()
			left.Close()
			return "", true, detail
		}
		closeAll := func() { client.Close(); left.Close(); right.Close(); upstream.Close() }
		ctx, cancel := context.WithCancel(context.Background())
		done := make(chan error, 1)
		go func() { done <- RelayTCPContext(ctx, left, right) }()
		waitDone := func() bool {
			select {
			case <-done:
				return true
			case <-time.After(20 * time.Second):
				return false
			}
		}
		where := fmt.Sprintf("history=%v step=%d(%s)", hist, step, beh)
		switch beh {
		case "N", "n":
			upN, downN := 200<<10, 150<<10
			if beh == "n" {
				upN, downN = 100, 50
			}
			up, down := pat(tag+"-up", upN), pat(tag+"-down", downN)
			type res struct {
				b   []byte
				err error
			}
			gotUp := make(chan res, 1)
			go func() {
				upstream.SetDeadline(time.Now().Add(30 * time.Second))
				b, err := io.ReadAll(upstream)
				gotUp <- res{b, err}
				upstream.Write(down)
				upstream.CloseWrite()
			}()
			client.SetDeadline(time.Now().Add(30 * time.Second))
			_, werr := client.Write(up)
			client.CloseWrite()
			gotDown, rerr := io.ReadAll(client)
			u := <-gotUp
			ok := waitDone()
			cancel()
			closeAll()
			if isTimeout(werr) || isTimeout(rerr) || isTimeout(u.err) || !ok {
				return "", true, detail
			}
			if !bytes.Equal(u.b, up) {
				return fmt.Sprintf("conn-history %s: %s", where, classify("client->upstream", up, u.b)), false, detail
			}
			if !bytes.Equal(gotDown, down) {
				return fmt.Sprintf("conn-history %s: %s", where, classify("upstream->client", down, gotDown)), false, detail
			}
		case "S", "D":
			src, sink := client, upstream
			if beh == "D" {
				src, sink = upstream, client
			}
			chunk := pat(tag+"-stall", 64<<10)
			var sent []byte
			for len(sent) < 64<<20 {
				src.SetWriteDeadline(time.Now().Add(300 * time.Millisecond))
				n, err := src.Write(chunk)
				sent = append(sent, chunk[:n]...)
				if err != nil {
					break
				}
			}
			cancel()
			ok := waitDone()
			src.Close()
			// whatever the sink can still read must be a prefix of what its own peer sent
			sink.SetReadDeadline(time.Now().Add(2 * time.Second))
			got, _ := io.ReadAll(io.LimitReader(sink, int64(len(sent))+1))
			closeAll()
			if !ok {
				return "", true, detail
			}
			if len(got) > len(sent) || !bytes.Equal(got, sent[:len(got)]) {
				return fmt.Sprintf("conn-history %s: aborted connection: the receiver got bytes that are not a prefix of what its peer sent", where), false, detail
			}
		case "R":
			chunk := pat(tag+"-rst", 64<<10)
			go func() {
				b := make([]byte, 4096)
				upstream.SetReadDeadline(time.Now().Add(5 * time.Second))
				upstream.Read(b)
				upstream.SetLinger(0)
				upstream.Close()
			}()
			for i := 0; i < 64; i++ {
				client.SetWriteDeadline(time.Now().Add(300 * time.Millisecond))
				if _, err := client.Write(chunk); err != nil {
					break
				}
			}
			client.CloseWrite()
			ok := waitDone()
			cancel()
			closeAll()
			if !ok {
				return "", true, detail
			}
		}
		cancel()
	}
	return "", false, detail
}

// ---- overlapping connections over real sockets ----------------------------------------------------------------
// Two connections A and B through the real handleConn share every process-global pool the relay path draws from
// (sniff buffers of outbound/pool, the prefetch buffer pool, the relay copy buffers). The property quantifies over
// schedules; this leg enumerates the coarse interleavings that real sockets let the harness control: connection B
// runs from accept to close INSIDE a window of A in which A still owes bytes to its upstream:
//   dial    B runs while A is dialling its upstream (A's early bytes sit in its prefix/sniff/bufio buffers)
//   gather  B runs between A's prefix hand-over + pending-data read and A's gather write
//           (the in-tree relayGatherWriteTestHook is exactly that point)
// A warm-up connection W of A's shape runs first on emptied pools, so A works on recycled pool elements.
// Oracle for W, A and B alike: byte equality in both directions (contents are tagged per connection).
// The caller runs this leg on ONE scheduler thread (GOMAXPROCS=1): sync.Pool then hands a released element to the
// next Get, which makes "released while still referenced" observable instead of dependent on P affinity.
type C05OverlapCase struct {
	Name         string
	Warm         *C05LoopCase
	A, B         *C05LoopCase
	Point        string // "dial" | "gather"
	Reached      bool   // out: B actually ran inside A's window
	Inconclusive bool   // out: a wall-clock deadline of the harness expired (never a violation in this leg)
}

func lbTimedOut(d map[string]any) bool {
	t, _ := d["timed_out"].(bool)
	return t
}

var c05Drained [][]*pbytes.Buffer

func c05DrainSharedPools() {
	// Empty the sniff-buffer pool of github.com/daeuniverse/outbound/pool (a sync.Pool outside the instrumented
	// files): the elements are kept referenced for the rest of the process, so nothing handed out later was ever
	// seen by an earlier case. The pools declared in the instrumented files are deterministic LIFO stacks already.
	var keep []*pbytes.Buffer
	for i := 0; i < 64; i++ {
		keep = append(keep, pool.GetBuffer())
	}
	c05Drained = append(c05Drained, keep)
	if len(c05Drained) > 4096 {
		c05Drained = c05Drained[1:]
	}
}

func C05Overlap(oc *C05OverlapCase) (sig string, detail map[string]any) {
	detail = map[string]any{"case": oc.Name}
	c05DrainSharedPools()
	if oc.Warm != nil {
		if s, d := C05Loopback(oc.Warm); s != "" {
			detail["warm"] = d
			if lbTimedOut(d) {
				oc.Inconclusive = true
				return "", detail
			}
			return fmt.Sprintf("overlap %s: warm-up connection: %s", oc.Name, s), detail
		}
	}
	var (
		ranB bool
		sigB string
		detB map[string]any
	)
	runB := func() {
		if ranB {
			return
		}
		ranB = true
		sigB, detB = C05Loopback(oc.B)
	}
	a := *oc.A
	switch oc.Point {
	case "dial":
		a.atDial = runB
	case "gather":
		relayGatherWriteTestHookMu.Lock()
		relayGatherWriteTestHook = func(int, int) { runB() } // the first relay to get here is A's; B's own calls find ranB set
		relayGatherWriteTestHookMu.Unlock()
		defer func() {
			relayGatherWriteTestHookMu.Lock()
			relayGatherWriteTestHook = nil
			relayGatherWriteTestHookMu.Unlock()
		}()
	}
	sigA, detA := C05Loopback(&a)
	oc.Reached = ranB
	detail["A"], detail["B"] = detA, detB
	if (sigA != "" && lbTimedOut(detA)) || (sigB != "" && lbTimedOut(detB)) {
		oc.Inconclusive = true
		return "", detail
	}
	if sigA != "" {
		return fmt.Sprintf("overlap %s: connection A (B ran inside A's %s window): %s", oc.Name, oc.Point, sigA), detail
	}
	if sigB != "" {
		return fmt.Sprintf("overlap %s: connection B (ran inside A's %s window): %s", oc.Name, oc.Point, sigB), detail
	}
	return "", detail
}
