// c19gen: generates, from the go/ast of the CURRENT <repo>/control tree, the file that check C19 injects (check.json
// "replace": control/zz_verif_c19_layout_gen.go -> $WORK/c19_layout_gen.go, written by the prebuild hook) into
// package control (//go:build verif). The generated file exports
//   VerifC19Types   one entry per bpf* data struct the real-mode build compiles (and, as renamed copies, the
//                   bpf_stub.go declarations that the real-mode build replaces by bpf_utils.go ones): unsafe.Sizeof,
//                   reflect.Type (for blank/padding fields) and an unsafe.Offsetof/Sizeof table of every named field
//   VerifC19Param   the same for the anonymous struct literal written to the load-time constant "PARAM"
//   VerifC19Tags    the `ebpf:"..."` tags of bpfMaps / bpfPrograms / bpfVariables
// so that the table follows edits of the Go declarations without a hand-written list.
package main

import (
	"bytes"
	"flag"
	"fmt"
	"go/ast"
	"go/build/constraint"
	"go/format"
	"go/parser"
	"go/printer"
	"go/token"
	"os"
	"path/filepath"
	"reflect"
	"regexp"
	"sort"
	"strings"
)

func die(f string, a ...any) {
	fmt.Fprintf(os.Stderr, "c19gen: "+f+"\n", a...)
	os.Exit(2)
}

var reBpfName = regexp.MustCompile(`^_?bpf[A-Z]\w*$`)

var builtinData = map[string]bool{
	"bool": true, "byte": true, "uint8": true, "uint16": true, "uint32": true, "uint64": true,
	"int8": true, "int16": true, "int32": true, "int64": true, "float32": true, "float64": true,
}

type decl struct {
	name string
	file string
	st   *ast.StructType
	stub bool
}

func buildOK(f *ast.File) bool {
	for _, cg := range f.Comments {
		if cg.Pos() >= f.Package {
			break
		}
		for _, c := range cg.List {
			if !constraint.IsGoBuild(c.Text) {
				continue
			}
			x, err := constraint.Parse(c.Text)
			if err != nil {
				return false
			}
			return x.Eval(func(tag string) bool {
				switch tag {
				case "linux", "amd64", "verif", "cgo", "unix":
					return true
				}
				return strings.HasPrefix(tag, "go1.")
			})
		}
	}
	return true
}

func main() {
	repo := flag.String("repo", "/repo", "repo working tree")
	out := flag.String("out", "", "output .go file")
	flag.Parse()
	dir := filepath.Join(*repo, "control")
	fset := token.NewFileSet()
	ents, err := os.ReadDir(dir)
	if err != nil {
		die("%v", err)
	}
	live := map[string]*decl{}
	stub := map[string]*decl{}
	var stubOrder []string
	var liveFiles []*ast.File
	for _, e := range ents {
		n := e.Name()
		if e.IsDir() || !strings.HasSuffix(n, ".go") || strings.HasSuffix(n, "_test.go") {
			continue
		}
		f, err := parser.ParseFile(fset, filepath.Join(dir, n), nil, parser.ParseComments)
		if err != nil {
			die("%v", err)
		}
		isStub := n == "bpf_stub.go"
		if !isStub && !buildOK(f) {
			continue
		}
		if !isStub {
			liveFiles = append(liveFiles, f)
		}
		for _, d := range f.Decls {
			gd, ok := d.(*ast.GenDecl)
			if !ok || gd.Tok != token.TYPE {
				continue
			}
			for _, s := range gd.Specs {
				ts := s.(*ast.TypeSpec)
				st, ok := ts.Type.(*ast.StructType)
				if !ok || ts.TypeParams != nil {
					continue
				}
				dd := &decl{name: ts.Name.Name, file: n, st: st, stub: isStub}
				if isStub {
					stub[dd.name] = dd
					stubOrder = append(stubOrder, dd.name)
				} else {
					live[dd.name] = dd
				}
			}
		}
	}
	if len(stub) == 0 {
		die("control/bpf_stub.go declares no struct types — layout of the bindings changed, update c19gen")
	}
	// what the real-mode build compiles: every non-stub declaration + the stub declarations not declared elsewhere
	compiled := map[string]*decl{}
	for n, d := range live {
		compiled[n] = d
	}
	var shadowed []*decl
	for _, n := range stubOrder {
		if _, ok := live[n]; ok {
			shadowed = append(shadowed, stub[n])
		} else {
			compiled[n] = stub[n]
		}
	}

	var isData func(e ast.Expr, depth int) bool
	isData = func(e ast.Expr, depth int) bool {
		if depth > 8 {
			return false
		}
		switch x := e.(type) {
		case *ast.Ident:
			if builtinData[x.Name] {
				return true
			}
			if d, ok := compiled[x.Name]; ok {
				return isData(d.st, depth+1)
			}
			return false
		case *ast.ArrayType:
			return x.Len != nil && isData(x.Elt, depth+1)
		case *ast.StructType:
			for _, f := range x.Fields.List {
				if !isData(f.Type, depth+1) {
					return false
				}
			}
			return true
		case *ast.SelectorExpr:
			if id, ok := x.X.(*ast.Ident); ok && id.Name == "structs" && x.Sel.Name == "HostLayout" {
				return true
			}
		}
		return false
	}

	type entry struct {
		name, goType, file, variant string
		st                          *ast.StructType
	}
	var entries []entry
	var names []string
	for n := range compiled {
		names = append(names, n)
	}
	sort.Strings(names)
	for _, n := range names {
		d := compiled[n]
		if !reBpfName.MatchString(n) || !isData(d.st, 0) {
			continue
		}
		entries = append(entries, entry{n, n, d.file, "compiled", d.st})
	}
	var copies bytes.Buffer
	ncopies := 0
	for _, d := range shadowed {
		if !reBpfName.MatchString(d.name) || !isData(d.st, 0) {
			continue
		}
		cn := "verifC19Stub_" + d.name
		var b bytes.Buffer
		if err := printer.Fprint(&b, fset, d.st); err != nil {
			die("%v", err)
		}
		fmt.Fprintf(&copies, "// copy of the bpf_stub.go declaration of %s (replaced by %s in the real-mode build)\ntype %s %s\n\n", d.name, live[d.name].file, cn, b.String())
		entries = append(entries, entry{d.name, cn, d.file, "stub-shadowed", d.st})
		ncopies++
	}
	if len(entries) < 5 {
		die("only %d bpf* data structs found — naming convention changed, update c19gen", len(entries))
	}

	// the PARAM literal
	var paramType *ast.StructType
	var paramFile string
	for _, f := range liveFiles {
		ast.Inspect(f, func(n ast.Node) bool {
			kv, ok := n.(*ast.KeyValueExpr)
			if !ok {
				return true
			}
			bl, ok := kv.Key.(*ast.BasicLit)
			if !ok || bl.Kind != token.STRING || bl.Value != `"PARAM"` {
				return true
			}
			if cl, ok := kv.Value.(*ast.CompositeLit); ok {
				if st, ok := cl.Type.(*ast.StructType); ok {
					paramType = st
					paramFile = filepath.Base(fset.Position(f.Pos()).Filename)
				}
			}
			return true
		})
	}
	if paramType == nil {
		die(`no map entry "PARAM": struct{...}{...} found in package control — the load-time constant is written elsewhere now; update c19gen`)
	}

	var w bytes.Buffer
	w.WriteString("//go:build verif\n\n// Code generated by /verif/checks/C19/gen (c19gen) from the AST of control/*.go. DO NOT EDIT.\n\npackage control\n\n")
	w.WriteString("import (\n\t\"reflect\"\n\t\"structs\"\n\t\"unsafe\"\n)\n\nvar _ structs.HostLayout\n\n")
	w.WriteString("type VerifC19Off struct {\n\tPath string\n\tOff, Size uintptr\n}\n\n")
	w.WriteString("type VerifC19Type struct {\n\tName, GoType, File, Variant string\n\tSize uintptr\n\tType reflect.Type\n\tOffs []VerifC19Off\n}\n\n")
	w.WriteString("type VerifC19Tag struct{ Container, Field, Tag string }\n\n")
	w.Write(copies.Bytes())
	var pb bytes.Buffer
	if err := printer.Fprint(&pb, fset, paramType); err != nil {
		die("%v", err)
	}
	fmt.Fprintf(&w, "// the anonymous struct type of the \"PARAM\" constant literal in %s\ntype verifC19ParamLit = %s\n\n", paramFile, pb.String())

	var offs func(b *bytes.Buffer, v string, st *ast.StructType, path string, chain string)
	offs = func(b *bytes.Buffer, v string, st *ast.StructType, path string, chain string) {
		for _, f := range st.Fields.List {
			for _, nm := range f.Names {
				if nm.Name == "_" {
					continue
				}
				p := path + nm.Name
				acc := v + "." + p
				ch := chain
				if ch != "" {
					ch += " + "
				}
				ch += "unsafe.Offsetof(" + acc + ")"
				fmt.Fprintf(b, "\t\t{%q, %s, unsafe.Sizeof(%s)},\n", p, ch, acc)
				if in, ok := f.Type.(*ast.StructType); ok {
					offs(b, v, in, p+".", ch)
				}
			}
		}
	}
	emit := func(varName string, e entry) {
		v := "verifC19v_" + e.goType
		fmt.Fprintf(&w, "var %s %s\n\n", v, e.goType)
		fmt.Fprintf(&w, "var %s = VerifC19Type{\n\tName: %q, GoType: %q, File: %q, Variant: %q,\n\tSize: unsafe.Sizeof(%s),\n\tType: reflect.TypeOf(%s),\n\tOffs: []VerifC19Off{\n", varName, e.name, e.goType, e.file, e.variant, v, v)
		offs(&w, v, e.st, "", "")
		w.WriteString("\t},\n}\n\n")
	}
	for i, e := range entries {
		emit(fmt.Sprintf("verifC19t%d", i), e)
	}
	emit("VerifC19Param", entry{"PARAM literal", "verifC19ParamLit", paramFile, "literal", paramType})
	w.WriteString("var VerifC19Types = []VerifC19Type{\n")
	for i := range entries {
		fmt.Fprintf(&w, "\tverifC19t%d,\n", i)
	}
	w.WriteString("}\n\n")

	// ebpf tags of the container structs
	w.WriteString("var VerifC19Tags = []VerifC19Tag{\n")
	for _, cn := range []string{"bpfMaps", "bpfPrograms", "bpfVariables", "bpfMapSpecs", "bpfProgramSpecs", "bpfVariableSpecs"} {
		d, ok := compiled[cn]
		if !ok {
			die("container struct %s not found in the bindings", cn)
		}
		for _, f := range d.st.Fields.List {
			if f.Tag == nil {
				continue
			}
			tag := reflect.StructTag(strings.Trim(f.Tag.Value, "`")).Get("ebpf")
			for _, nm := range f.Names {
				fmt.Fprintf(&w, "\t{%q, %q, %q},\n", cn, nm.Name, tag)
			}
		}
	}
	w.WriteString("}\n")

	src, err := format.Source(w.Bytes())
	if err != nil {
		os.WriteFile(*out+".broken", w.Bytes(), 0o644)
		die("generated file does not format: %v", err)
	}
	if err := os.MkdirAll(filepath.Dir(*out), 0o755); err != nil {
		die("%v", err)
	}
	tmp := *out + ".tmp"
	if err := os.WriteFile(tmp, src, 0o644); err != nil {
		die("%v", err)
	}
	if err := os.Rename(tmp, *out); err != nil {
		die("%v", err)
	}
	fmt.Printf("c19gen: %d struct entries (%d shadowed stub copies), PARAM literal from %s\n", len(entries), ncopies, paramFile)
}
