package main

// The reference model: the C03 statement, sentence by sentence, over a dict flow -> {decision, tcp state, last seen}.
// Nothing here is derived from tproxy.c; the routing DECISION of a first packet is asked from the real userspace
// matcher (ControlPlane.Route), as the property text prescribes (C02 ties the kernel's route() to it).

import (
	"encoding/binary"
	"fmt"
	"net/netip"

	"github.com/daeuniverse/dae/common/consts"
	"github.com/daeuniverse/dae/control"
)

const (
	sec = uint64(1000000000)
	// "the documented idle timeouts" (comments next to the constants in tproxy.c / docs): established TCP 120 s,
	// TCP after FIN/RST 10 s, UDP 120 s. Tracking ends when a flow has been idle for LONGER than the timeout.
	tcpEstablishedTimeout = 120 * sec
	tcpClosingTimeout     = 10 * sec
	udpTimeout            = 120 * sec
	ageSaturate           = 120*sec + 1 // ages above every threshold are indistinguishable
)

const (
	sideLAN = iota
	sideWAN
)

// conversation kinds
const (
	cvNormal    = iota // ordinary flow: routed
	cvDNS              // UDP datagrams to port 53: stateless
	cvLocal            // towards a local (non-dae) UDP socket of the host
	cvSelfPid          // sent by dae itself: socket cookie -> control-plane pid
	cvSelfMark         // sent by dae itself: skb mark = dae's socket mark
	cvReply            // x->y is the REPLY direction of a connection opened from the WAN side (y->x arrives at wan ingress)
	cvForwarded        // WAN egress only: a frame that is being forwarded (ingress_ifindex != 0), not locally originated
)

type conv struct {
	name     string
	kind     int
	src, dst netip.AddrPort // the direction that traverses the routed hook (LAN ingress / WAN egress)
	proto    uint8
	cookie   uint64
	skbMark  uint32
}

type decision struct {
	ob   uint8
	mark uint32
	must bool
}

func (d decision) String() string {
	name := consts.OutboundIndex(d.ob).String()
	if d.ob >= uint8(consts.OutboundUserDefinedMin) && d.ob <= uint8(consts.OutboundUserDefinedMax) {
		name = groupName(d.ob)
	}
	return fmt.Sprintf("%s/mark=%#x/must=%v", name, d.mark, d.must)
}

type mflow struct {
	tracked   bool
	wanOrigin bool
	closing   bool
	dec       decision
	last      uint64
}

type model struct {
	now     uint64
	progB   bool       // the second rule program is active
	learned bool       // the control plane learned that the remote address belongs to d.example
	dead    [2][2]bool // health bit down: [g1 | the high-id group][tcp | udp] for the scenario's family
	full    bool       // conn_state_map accepts no new flow
	flows   []mflow
}

func (m *model) clone() *model {
	n := *m
	n.flows = append([]mflow(nil), m.flows...)
	return &n
}

func satAge(now, last uint64) uint64 {
	a := now - last
	if a > ageSaturate {
		return ageSaturate
	}
	return a
}

func (m *model) canon(b []byte) []byte {
	fl := byte(0)
	if m.progB {
		fl |= 1
	}
	if m.learned {
		fl |= 2
	}
	if m.dead[0][0] {
		fl |= 4
	}
	if m.dead[0][1] {
		fl |= 8
	}
	if m.full {
		fl |= 16
	}
	if m.dead[1][0] {
		fl |= 32
	}
	if m.dead[1][1] {
		fl |= 64
	}
	b = append(b, fl)
	for i := range m.flows {
		f := &m.flows[i]
		if !f.tracked {
			b = append(b, 0)
			continue
		}
		x := byte(1)
		if f.wanOrigin {
			x |= 2
		}
		if f.closing {
			x |= 4
		}
		if f.dec.must {
			x |= 8
		}
		b = append(b, x, f.dec.ob)
		b = binary.LittleEndian.AppendUint32(b, f.dec.mark)
		b = binary.LittleEndian.AppendUint64(b, satAge(m.now, f.last))
	}
	return b
}

// what the statement demands of one frame
const (
	xPass     = iota // let through unmodified: TC_ACT_OK, same bytes, no redirect, skb mark = mark
	xDrop            // TC_ACT_SHOT
	xHandover        // redirected to dae0 + a record from which the control plane recovers rec
	xUnspec          // the statement fixes no verdict (mid-flow segment of an untracked TCP connection, fragment, truncated frame): pass or drop, never a redirect, and no record/flow entry is created
	xObserver        // a frame at WAN ingress / LAN egress: never dropped or redirected by these hooks, unmodified
)

var xName = []string{"pass", "drop", "handover", "unspecified", "observer-pass"}

type expect struct {
	kind     int
	mark     uint32
	rec      control.VerifC03Result
	altDrop  bool // conn_state_map exhausted and the decision is not plain direct: failing closed is acceptable
	noCreate bool // the frame must not create a flow entry, hand-over record or redirect entry
	first    bool // this frame is the first packet of its flow (a decision was taken now)
	why      string
}

func (sc *scenario) program(m *model) *ruleProgram {
	if m.progB {
		return sc.progs[sc.progB]
	}
	return sc.progs[sc.progA]
}

// decide = the decision the current rules give the first packet of conversation ci (table filled by warmDecisions).
func (sc *scenario) decide(m *model, ci int) decision {
	c := &sc.convs[ci]
	pi := sc.progA
	if m.progB {
		pi = sc.progB
	}
	key := [3]int{pi, ci, 0}
	if m.learned && c.dst.Addr() == sc.addrs.remote {
		key[2] = 1
	}
	d, ok := sc.decCache[key]
	if !ok {
		broken("decision table has no entry for %v", key)
	}
	return d
}

// warmDecisions asks the real userspace matcher (ControlPlane.Route, as handleConn / handlePkt call it) once per
// (rule program, conversation, domain learned or not).
func (sc *scenario) warmDecisions() {
	for _, pi := range []int{sc.progA, sc.progB} {
		for ci := range sc.convs {
			for learned := 0; learned < 2; learned++ {
				c := &sc.convs[ci]
				domain := ""
				if learned == 1 {
					if c.dst.Addr() != sc.addrs.remote {
						continue
					}
					domain = learnedDomain
				}
				l4 := consts.L4ProtoType_TCP
				if c.proto == ipUDP {
					l4 = consts.L4ProtoType_UDP
				}
				var pname [16]uint8
				var mac [6]uint8
				if sc.side == sideWAN && c.cookie == cookieApp {
					pname = appComm
				}
				if sc.l2 {
					mac = sc.fwdSrcMac()
				}
				ob, mark, must, err := sc.progs[pi].v.Route(c.src, c.dst, domain, l4, pname, mac, dscpVal)
				if err != nil {
					broken("userspace matcher failed on %s: %v", c.name, err)
				}
				d := decision{ob: ob, mark: mark, must: must}
				// docs/en/configuration/dns.md + routing.md: dae intercepts all UDP traffic to port 53 unless the matching
				// rule is a must rule; an intercepted query is handed to the control plane, which routes it itself.
				// DNS over TCP (a TCP session to port 53) is intercepted the same way: the control plane's connection
				// handler answers it through the DNS controller (control/tcp.go, "DNS-over-TCP traffic (port 53)").
				if c.dst.Port() == 53 && !must {
					d.ob = uint8(consts.OutboundControlPlaneRouting)
				}
				sc.decCache[[3]int{pi, ci, learned}] = d
			}
		}
	}
}

func (sc *scenario) fwdSrcMac() [6]byte {
	if sc.side == sideLAN {
		return macClient
	}
	return macHost
}

// outcome: what the statement says happens to a packet of conversation c whose flow's decision is d.
func (sc *scenario) outcome(m *model, c *conv, d decision) expect {
	rec := control.VerifC03Result{Outbound: d.ob, Mark: d.mark, Dscp: dscpVal}
	if d.must {
		rec.Must = 1
	}
	if sc.l2 {
		rec.Mac = sc.fwdSrcMac()
	}
	if sc.side == sideWAN && c.cookie == cookieApp {
		rec.Pid = appPid
		rec.Pname = appComm
	}
	switch {
	case d.ob == uint8(consts.OutboundControlPlaneRouting):
		return expect{kind: xHandover, rec: rec, why: "traffic to the DNS port (UDP datagram or TCP session to port 53) without a must rule is intercepted: handed to dae for control-plane routing, whatever the health bits say"}
	case d.ob == uint8(consts.OutboundDirect):
		if sc.side == sideLAN {
			return expect{kind: xPass, mark: d.mark, why: "traffic routed to direct is let through unmodified (a mark given on the rule is set on forwarded LAN traffic)"}
		}
		if d.mark == 0 {
			return expect{kind: xPass, why: "traffic routed to direct is let through unmodified"}
		}
		return expect{kind: xHandover, rec: rec, why: "locally originated traffic that needs a mark is handed to dae to apply it"}
	case d.ob == uint8(consts.OutboundBlock):
		return expect{kind: xDrop, why: "traffic routed to block is dropped"}
	}
	if g := sc.groupIndex(d.ob); g >= 0 && c.dst.Port() != 53 {
		i := 0
		if c.proto == ipUDP {
			i = 1
		}
		if m.dead[g][i] {
			return expect{kind: xDrop, why: "traffic routed to a proxy group whose health bit for that protocol and family is down is dropped"}
		}
	}
	return expect{kind: xHandover, rec: rec, why: "traffic routed to a proxy group is redirected to dae together with a per-flow record"}
}

// groupIndex: 0 for g1, 1 for the scenario's high-id group, -1 for groups whose health never changes here.
func (sc *scenario) groupIndex(ob uint8) int {
	switch {
	case ob == groupG1:
		return 0
	case sc.hiGroup != 0 && ob == sc.hiGroup:
		return 1
	}
	return -1
}

// stepAll applies an event as often as it injects its frame (a burst: twice).
func (sc *scenario) stepAll(m *model, ev *event) {
	sc.step(m, ev)
	if ev.kind == evFrame && ev.burst {
		sc.step(m, ev)
	}
}

func (m *model) expire(i int, proto uint8) {
	f := &m.flows[i]
	if !f.tracked {
		return
	}
	to := udpTimeout
	if proto == ipTCP {
		to = tcpEstablishedTimeout
		if f.closing {
			to = tcpClosingTimeout
		}
	}
	if m.now-f.last > to {
		*f = mflow{}
	}
}

// step applies one event to the model (in place) and returns what the statement demands of the frame.
func (sc *scenario) step(m *model, ev *event) expect {
	switch ev.kind {
	case evTick:
		m.now += ev.dt
		return expect{}
	case evSwap:
		m.progB = !m.progB
		return expect{}
	case evDomain:
		m.learned = !m.learned
		return expect{}
	case evFlip:
		if !ev.otherFamily {
			i, g := 0, 0
			if ev.udp {
				i = 1
			}
			if ev.hiGroup {
				g = 1
			}
			m.dead[g][i] = !m.dead[g][i]
		}
		return expect{}
	case evFull:
		m.full = !m.full
		return expect{}
	}
	c := &sc.convs[ev.conv]
	f := &m.flows[ev.conv]
	syn := c.proto == ipTCP && ev.flags&fSYN != 0 && ev.flags&fACK == 0
	finrst := c.proto == ipTCP && ev.flags&(fFIN|fRST) != 0

	if ev.hook == hookWanIn || ev.hook == hookLanOut {
		// frames in the opposite direction, seen by the hooks that only observe
		x := expect{kind: xObserver, why: "WAN-ingress / LAN-egress hooks only observe"}
		if ev.malformed() {
			x = expect{kind: xUnspec, noCreate: true, why: "fragment / truncated frame: no flow can be identified"}
			return x
		}
		if c.proto == ipUDP && (c.dst.Port() == 53 || c.src.Port() == 53) {
			x.noCreate = true
			return x
		}
		m.expire(ev.conv, c.proto)
		switch {
		case c.proto == ipTCP && syn:
			// a connection opened from the WAN side towards a local or LAN service
			*f = mflow{tracked: !m.full, wanOrigin: true, last: m.now}
		case c.proto == ipTCP:
			if f.tracked {
				f.last = m.now
				if finrst {
					f.closing = true
				}
			} else {
				x.noCreate = true
			}
		default: // UDP
			if f.tracked {
				f.last = m.now
			} else {
				*f = mflow{tracked: !m.full, wanOrigin: true, last: m.now}
			}
		}
		return x
	}

	// the routed hooks: LAN ingress / WAN egress
	if ev.malformed() {
		return expect{kind: xUnspec, noCreate: true, why: "fragment / truncated frame: no flow can be identified"}
	}
	switch c.kind {
	case cvForwarded:
		return expect{kind: xPass, noCreate: true, why: "the WAN-egress hook only captures locally originated traffic; forwarded frames were handled at LAN ingress"}
	case cvSelfPid, cvSelfMark:
		return expect{kind: xPass, mark: c.skbMark, noCreate: true, why: "packets sent by dae itself (its pid or its socket mark) are never captured again"}
	case cvLocal:
		return expect{kind: xPass, why: "traffic towards a service of the host itself (local non-dae socket) is not proxied"}
	case cvDNS:
		d := sc.decide(m, ev.conv)
		x := sc.outcome(m, c, d)
		x.first = true
		return x
	}
	m.expire(ev.conv, c.proto)
	if c.proto == ipTCP {
		if syn {
			d := sc.decide(m, ev.conv)
			*f = mflow{tracked: !m.full, dec: d, last: m.now}
			x := sc.outcome(m, c, d)
			x.first = true
			sc.relaxFull(m, &x)
			return x
		}
		if !f.tracked {
			return expect{kind: xUnspec, noCreate: true, why: "mid-flow TCP segment of a connection that is not tracked: tracking restarts only on a new SYN"}
		}
		f.last = m.now
		var x expect
		if f.wanOrigin {
			x = expect{kind: xPass, why: "replies belonging to connections opened from the WAN side towards a local or LAN service pass untouched"}
		} else {
			x = sc.outcome(m, c, f.dec)
			x.why = "while a flow is tracked its later packets follow the decision taken for its first packet (" + f.dec.String() + "): " + x.why
		}
		if finrst {
			f.closing = true
		}
		return x
	}
	// UDP
	if f.tracked {
		f.last = m.now
		if f.wanOrigin {
			return expect{kind: xPass, why: "replies belonging to connections opened from the WAN side towards a local or LAN service pass untouched"}
		}
		x := sc.outcome(m, c, f.dec)
		x.why = "while a flow is tracked its later packets follow the decision taken for its first packet (" + f.dec.String() + "): " + x.why
		return x
	}
	d := sc.decide(m, ev.conv)
	*f = mflow{tracked: !m.full, dec: d, last: m.now}
	x := sc.outcome(m, c, d)
	x.first = true
	sc.relaxFull(m, &x)
	return x
}

// relaxFull: the statement does not cover exhaustion of conn_state_map. Safety reading used here: a first packet that
// cannot be tracked still gets the verdict of its decision, or is dropped (fail closed) unless the decision is plain
// direct; it is never let through against the decision and never handed over without a recoverable record.
func (sc *scenario) relaxFull(m *model, x *expect) {
	if !m.full {
		return
	}
	if x.kind == xPass && x.mark == 0 {
		return
	}
	x.altDrop = true
}
