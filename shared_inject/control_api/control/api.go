//go:build verif

package control

import (
	"fmt"
	"io"
	"net/netip"
	"unsafe"

	"github.com/daeuniverse/dae/common/consts"
	"github.com/daeuniverse/dae/component/routing"
	"github.com/daeuniverse/dae/config"
	"github.com/daeuniverse/dae/pkg/config_parser"
	"github.com/sirupsen/logrus"
)

// VerifRouting is a compiled routing program reachable from the harness packages.
type VerifRouting struct {
	Builder *RoutingMatcherBuilder
	Matcher *RoutingMatcher
	CP      *ControlPlane
	Rules   []*config_parser.RoutingRule // rules as parsed (before optimizers), after patchMustOutbound
	OptRules []*config_parser.RoutingRule // rules actually lowered
	Fallback config.FunctionOrString
	Name2Id map[string]uint8
	kernRules []bpfMatchSet
	lpmSets   [][]netip.Prefix
	DomainSets []VerifDomainSet
}

type VerifDomainSet struct {
	Key       string
	RuleIndex int
	Domains   []string
}

func VerifQuietLogger() *logrus.Logger {
	l := logrus.New()
	l.SetOutput(io.Discard)
	l.SetLevel(logrus.PanicLevel)
	return l
}

// VerifCompileRouting parses a whole config text (global{} routing{...} and group names), patches it the
// way config.New does, and compiles the routing section through the production builder.
// optimize selects the production optimizer chain of control_plane.go (without DatReader when datFinder is nil).
func VerifCompileRouting(confText string, groups []string, optimizers []routing.RulesOptimizer) (*VerifRouting, error) {
	sections, err := config_parser.Parse(confText)
	if err != nil {
		return nil, fmt.Errorf("parse: %w", err)
	}
	return VerifCompileRoutingSections(sections, groups, optimizers)
}

// VerifCompileRoutingSections is VerifCompileRouting for a document already parsed by config_parser.Parse
// (so that a harness can parse once and hand the raw AST to its own reference first). NOTE: config.New
// patches the rules inside sections in place (must_ prefixes); read the AST before calling this.
func VerifCompileRoutingSections(sections []*config_parser.Section, groups []string, optimizers []routing.RulesOptimizer) (*VerifRouting, error) {
	conf, err := config.New(sections)
	if err != nil {
		return nil, fmt.Errorf("config.New: %w", err)
	}
	name2id := map[string]uint8{}
	name2id[consts.OutboundDirect.String()] = uint8(consts.OutboundDirect)
	name2id[consts.OutboundBlock.String()] = uint8(consts.OutboundBlock)
	for i, g := range groups {
		name2id[g] = uint8(int(consts.OutboundUserDefinedMin) + i)
	}
	v := &VerifRouting{Name2Id: name2id, Fallback: conf.Routing.Fallback}
	// keep a deep copy of the written rules: optimizers may mutate in place
	v.Rules = routing.DeepCloneRules(conf.Routing.Rules)
	log := VerifQuietLogger()
	program, err := routing.NewNormalizedProgram(conf.Routing.Rules, conf.Routing.Fallback, optimizers...)
	if err != nil {
		return nil, fmt.Errorf("normalize: %w", err)
	}
	v.OptRules = program.Rules
	b, err := NewRoutingMatcherBuilderFromProgram(log, program, name2id, nil)
	if err != nil {
		return nil, fmt.Errorf("builder: %w", err)
	}
	v.Builder = b
	v.kernRules = append([]bpfMatchSet(nil), b.rules...)
	v.lpmSets = append([][]netip.Prefix(nil), b.simulatedLpmTries...)
	for _, ds := range b.simulatedDomainSet {
		v.DomainSets = append(v.DomainSets, VerifDomainSet{Key: string(ds.Key), RuleIndex: ds.RuleIndex, Domains: append([]string(nil), ds.Domains...)})
	}
	m, err := b.BuildUserspace()
	if err != nil {
		return nil, fmt.Errorf("userspace: %w", err)
	}
	v.Matcher = m
	v.CP = &ControlPlane{log: log}
	v.CP.routingMatcher = m
	return v, nil
}

// Route goes through ControlPlane.Route exactly as handleConn / handlePkt do.
func (v *VerifRouting) Route(src, dst netip.AddrPort, domain string, l4 consts.L4ProtoType, pname [16]uint8, mac [6]uint8, dscp uint8) (uint8, uint32, bool, error) {
	rr := &bpfRoutingResult{Pname: pname, Mac: mac, Dscp: dscp}
	ob, mark, must, err := v.CP.Route(src, dst, domain, l4, rr)
	return uint8(ob), mark, must, err
}

// KernRule i as the raw bytes that would be written to routing_map.
func (v *VerifRouting) KernRuleBytes() [][]byte {
	out := make([][]byte, len(v.kernRules))
	for i := range v.kernRules {
		r := v.kernRules[i]
		out[i] = append([]byte(nil), unsafe.Slice((*byte)(unsafe.Pointer(&r)), unsafe.Sizeof(r))...)
	}
	return out
}

type VerifKernRule struct {
	Type, Not, Outbound, Must uint8
	Mark                      uint32
	Value                     [16]byte
}

func (v *VerifRouting) KernRules() []VerifKernRule {
	out := make([]VerifKernRule, len(v.kernRules))
	for i, r := range v.kernRules {
		out[i] = VerifKernRule{Type: r.Type, Not: r.Not, Outbound: r.Outbound, Must: r.Must, Mark: r.Mark, Value: r.Value}
	}
	return out
}

func (v *VerifRouting) LpmSets() [][]netip.Prefix { return v.lpmSets }

// VerifLpmKeyBytes returns the in-memory bytes of the LPM key the control plane writes for prefix p.
func VerifLpmKeyBytes(p netip.Prefix) []byte {
	k := cidrToBpfLpmKey(p)
	return append([]byte(nil), unsafe.Slice((*byte)(unsafe.Pointer(&k)), unsafe.Sizeof(k))...)
}

func VerifCanonicalizePrefixes(p []netip.Prefix) []netip.Prefix { return canonicalizePrefixes(p) }

// ---------------------------------------------------------------------------------------------------
// C02 accessors (additive): the LPM ring of the kernel-side build and the per-name domain bitmap.

// VerifLpmRingSet / VerifLpmRingGet write / read the process-wide ring cursor (globalNextLpmIndex).
// The cursor is process state: callers serialise reserve+rewrite themselves.
func VerifLpmRingSet(v uint32) { globalNextLpmIndex.Store(v) }
func VerifLpmRingGet() uint32  { return globalNextLpmIndex.Load() }

// VerifReserveLpmRingSlots is the production reserveLpmRingSlots (what buildRoutingKernspace calls once per load).
func VerifReserveLpmRingSlots(count uint32) (uint32, error) { return reserveLpmRingSlots(count) }

// LpmCount is the number of LPM sets of the program (len(simulatedLpmTries) at build time).
func (v *VerifRouting) LpmCount() uint32 { return uint32(len(v.lpmSets)) }

// KernRuleBytesAtRing returns the rule array exactly as buildRoutingKernspace writes it to routing_map for a load
// whose reserveLpmRingSlots call returned allocStartIdx: the production rewriteKernRulesWithRingLpmIndex applied to
// the builder's rules, as raw bytes.
func (v *VerifRouting) KernRuleBytesAtRing(allocStartIdx uint32) ([][]byte, error) {
	kern, err := rewriteKernRulesWithRingLpmIndex(v.kernRules, allocStartIdx, uint32(len(v.lpmSets)))
	if err != nil {
		return nil, err
	}
	out := make([][]byte, len(kern))
	for i := range kern {
		r := kern[i]
		out[i] = append([]byte(nil), unsafe.Slice((*byte)(unsafe.Pointer(&r)), unsafe.Sizeof(r))...)
	}
	return out, nil
}

// DomainBitmap is what the control plane stores in a DNS cache entry for a name (dnsControllerOption.NewCache):
// routingMatcher.domainMatcher.MatchDomainBitmap(name).
func (v *VerifRouting) DomainBitmap(name string) []uint32 {
	return v.Matcher.domainMatcher.MatchDomainBitmap(name)
}

// VerifCompileRoutingSectionsOrder is VerifCompileRoutingSections with the moment the kernel-side material
// (KernRuleBytes/KernRules/LpmSets) is taken made explicit. snapshotAfterUserspace=false is the cold-start order
// (what VerifCompileRoutingSections does: before BuildUserspace); true is the staged-reload / rollback order:
// builder.KernspaceSnapshot() first, then BuildUserspace(), then the snapshot's rules and prefix sets are read —
// what routingKernspaceSnapshot.BuildKernspace installs from CommitPreparedDatapath / RebuildReloadDatapath.
func VerifCompileRoutingSectionsOrder(sections []*config_parser.Section, groups []string, optimizers []routing.RulesOptimizer, snapshotAfterUserspace bool) (*VerifRouting, error) {
	if !snapshotAfterUserspace {
		return VerifCompileRoutingSections(sections, groups, optimizers)
	}
	conf, err := config.New(sections)
	if err != nil {
		return nil, fmt.Errorf("config.New: %w", err)
	}
	name2id := map[string]uint8{}
	name2id[consts.OutboundDirect.String()] = uint8(consts.OutboundDirect)
	name2id[consts.OutboundBlock.String()] = uint8(consts.OutboundBlock)
	for i, g := range groups {
		name2id[g] = uint8(int(consts.OutboundUserDefinedMin) + i)
	}
	v := &VerifRouting{Name2Id: name2id, Fallback: conf.Routing.Fallback}
	v.Rules = routing.DeepCloneRules(conf.Routing.Rules)
	log := VerifQuietLogger()
	program, err := routing.NewNormalizedProgram(conf.Routing.Rules, conf.Routing.Fallback, optimizers...)
	if err != nil {
		return nil, fmt.Errorf("normalize: %w", err)
	}
	v.OptRules = program.Rules
	b, err := NewRoutingMatcherBuilderFromProgram(log, program, name2id, nil)
	if err != nil {
		return nil, fmt.Errorf("builder: %w", err)
	}
	v.Builder = b
	for _, ds := range b.simulatedDomainSet {
		v.DomainSets = append(v.DomainSets, VerifDomainSet{Key: string(ds.Key), RuleIndex: ds.RuleIndex, Domains: append([]string(nil), ds.Domains...)})
	}
	snap := b.KernspaceSnapshot()
	m, err := b.BuildUserspace()
	if err != nil {
		return nil, fmt.Errorf("userspace: %w", err)
	}
	v.kernRules = append([]bpfMatchSet(nil), snap.rules...)
	v.lpmSets = make([][]netip.Prefix, len(snap.simulatedLpmTries))
	for i, set := range snap.simulatedLpmTries {
		v.lpmSets[i] = append([]netip.Prefix(nil), set...)
	}
	v.Matcher = m
	v.CP = &ControlPlane{log: log}
	v.CP.routingMatcher = m
	return v, nil
}
