// Package vtime mirrors package time on a virtual clock owned by the vsched scheduler. Outside a managed
// thread everything is the real package time.
package vtime

import (
	"sync"
	"time"

	"github.com/daeuniverse/dae/verifx/vsched"
)

type (
	Time       = time.Time
	Duration   = time.Duration
	Month      = time.Month
	Weekday    = time.Weekday
	Location   = time.Location
	ParseError = time.ParseError
)

const (
	Nanosecond  = time.Nanosecond
	Microsecond = time.Microsecond
	Millisecond = time.Millisecond
	Second      = time.Second
	Minute      = time.Minute
	Hour        = time.Hour

	Layout      = time.Layout
	ANSIC       = time.ANSIC
	UnixDate    = time.UnixDate
	RubyDate    = time.RubyDate
	RFC822      = time.RFC822
	RFC822Z     = time.RFC822Z
	RFC850      = time.RFC850
	RFC1123     = time.RFC1123
	RFC1123Z    = time.RFC1123Z
	RFC3339     = time.RFC3339
	RFC3339Nano = time.RFC3339Nano
	Kitchen     = time.Kitchen
	Stamp       = time.Stamp
	StampMilli  = time.StampMilli
	StampMicro  = time.StampMicro
	StampNano   = time.StampNano
	DateTime    = time.DateTime
	DateOnly    = time.DateOnly
	TimeOnly    = time.TimeOnly

	January   = time.January
	February  = time.February
	March     = time.March
	April     = time.April
	May       = time.May
	June      = time.June
	July      = time.July
	August    = time.August
	September = time.September
	October   = time.October
	November  = time.November
	December  = time.December
	Sunday    = time.Sunday
	Monday    = time.Monday
	Tuesday   = time.Tuesday
	Wednesday = time.Wednesday
	Thursday  = time.Thursday
	Friday    = time.Friday
	Saturday  = time.Saturday
)

var (
	UTC   = time.UTC
	Local = time.Local
)

func Unix(sec, nsec int64) Time                 { return time.Unix(sec, nsec) }
func UnixMilli(ms int64) Time                   { return time.UnixMilli(ms) }
func UnixMicro(us int64) Time                   { return time.UnixMicro(us) }
func Date(y int, m Month, d, h, mi, s, ns int, l *Location) Time {
	return time.Date(y, m, d, h, mi, s, ns, l)
}
func Parse(layout, value string) (Time, error)  { return time.Parse(layout, value) }
func ParseInLocation(layout, value string, loc *Location) (Time, error) {
	return time.ParseInLocation(layout, value, loc)
}
func ParseDuration(s string) (Duration, error)  { return time.ParseDuration(s) }
func LoadLocation(name string) (*Location, error) { return time.LoadLocation(name) }
func FixedZone(name string, offset int) *Location { return time.FixedZone(name, offset) }

// Now: the virtual clock for managed threads. The returned Time carries no monotonic reading, so Sub/Since
// are pure wall arithmetic on virtual values.
func Now() Time {
	if ns, ok := vsched.Now(); ok {
		return time.Unix(0, ns)
	}
	return time.Now()
}

func Since(t Time) Duration { return Now().Sub(t) }
func Until(t Time) Duration { return t.Sub(Now()) }

// ---- Timer ------------------------------------------------------------------------------------

type Timer struct {
	C    <-chan Time
	c    chan Time
	real *time.Timer
	h    vsched.TimerHandle
	f    func()
	mu   sync.Mutex
}

func (t *Timer) arm(d Duration) bool {
	fire := func() {
		if t.f != nil {
			vsched.SpawnFromTimer("afterfunc", t.f)
			return
		}
		select {
		case t.c <- Now0():
		default:
		}
	}
	h, ok := vsched.AddTimer(int64(d), "timer", fire)
	if ok {
		t.h = h
	}
	return ok
}

// Now0 is the virtual now as seen from scheduler context (timer callbacks run on the deciding thread).
func Now0() Time { return Now() }

func NewTimer(d Duration) *Timer {
	t := &Timer{}
	if vsched.Active() {
		vsched.Point(vsched.OpTimerOp, nil)
		t.c = make(chan Time, 1)
		t.C = t.c
		t.arm(d)
		return t
	}
	t.real = time.NewTimer(d)
	t.C = t.real.C
	return t
}

func AfterFunc(d Duration, f func()) *Timer {
	t := &Timer{f: f}
	if vsched.Active() {
		vsched.Point(vsched.OpTimerOp, nil)
		t.arm(d)
		return t
	}
	t.real = time.AfterFunc(d, f)
	return t
}

func (t *Timer) Stop() bool {
	if t.real != nil {
		return t.real.Stop()
	}
	vsched.Point(vsched.OpTimerOp, nil)
	was := t.h.Stop()
	// Go >= 1.23 semantics: no stale value is observable after Stop returns
	if t.c != nil {
		select {
		case <-t.c:
		default:
		}
	}
	return was
}

func (t *Timer) Reset(d Duration) bool {
	if t.real != nil {
		return t.real.Reset(d)
	}
	vsched.Point(vsched.OpTimerOp, nil)
	was := t.h.Stop()
	if t.c != nil {
		select {
		case <-t.c:
		default:
		}
	}
	if !t.arm(d) {
		// created under the scheduler, reset outside of it (teardown): nothing to do
	}
	return was
}

func After(d Duration) <-chan Time { return NewTimer(d).C }

func Sleep(d Duration) {
	if !vsched.Active() {
		time.Sleep(d)
		return
	}
	t := NewTimer(d)
	vsched.Recv(t.C)
}

// ---- Ticker -----------------------------------------------------------------------------------

type Ticker struct {
	C    <-chan Time
	c    chan Time
	real *time.Ticker
	h    vsched.TimerHandle
	d    Duration
	stop bool
}

func (t *Ticker) arm() {
	h, ok := vsched.AddTimer(int64(t.d), "ticker", func() {
		select {
		case t.c <- Now():
		default:
		}
		if !t.stop {
			t.arm()
		}
	})
	if ok {
		t.h = h
	}
}

func NewTicker(d Duration) *Ticker {
	if d <= 0 {
		panic("non-positive interval for NewTicker")
	}
	t := &Ticker{d: d}
	if vsched.Active() {
		vsched.Point(vsched.OpTimerOp, nil)
		t.c = make(chan Time, 1)
		t.C = t.c
		t.arm()
		return t
	}
	t.real = time.NewTicker(d)
	t.C = t.real.C
	return t
}

func (t *Ticker) Stop() {
	if t.real != nil {
		t.real.Stop()
		return
	}
	vsched.Point(vsched.OpTimerOp, nil)
	t.stop = true
	t.h.Stop()
}

func (t *Ticker) Reset(d Duration) {
	if t.real != nil {
		t.real.Reset(d)
		return
	}
	vsched.Point(vsched.OpTimerOp, nil)
	t.h.Stop()
	t.d = d
	t.stop = false
	t.arm()
}

func Tick(d Duration) <-chan Time {
	if d <= 0 {
		return nil
	}
	return NewTicker(d).C
}
