package vroute

import (
	"strings"
)

// Param is one value of a condition: `key: val` or a bare `val` (Key == "").
type Param struct {
	Key string `json:"k,omitempty"`
	Val string `json:"v"`
}

// Cond is one condition of a rule: [!]func(v1, v2, ...). Func is the name AS WRITTEN (aliases allowed).
type Cond struct {
	Func   string  `json:"f"`
	Not    bool    `json:"not,omitempty"`
	Params []Param `json:"p"`
}

// Rule is `c1 && c2 && ... -> Out`; Out is the outbound AS WRITTEN ("g1", "must_g1", "g1(mark:0x1)",
// "g2(must)", "must_rules", ...).
type Rule struct {
	Conds []Cond `json:"conds"`
	Out   string `json:"out"`
}

// Program is the structured description of one generated routing section.
type Program struct {
	Tier     int    `json:"tier"`
	Label    string `json:"label"` // which sub-space it belongs to, e.g. "t1/1cond", "t2/rot2/2rules"
	Rules    []Rule `json:"rules"`
	Fallback string `json:"fallback"`
}

// Groups are the user-defined outbound groups every generated program may reference, in id order
// (ids start at consts.OutboundUserDefinedMin in the implementation).
var Groups = []string{"g1", "g2"}

// needsQuote: the config grammar reads ':' as key/value separator and reserves brackets, commas,
// '&', '!', '#', quotes, blanks; regex meta characters are outside the bare-literal alphabet too.
func needsQuote(v string) bool {
	if v == "" {
		return true
	}
	for i := 0; i < len(v); i++ {
		c := v[i]
		switch {
		case c >= 'a' && c <= 'z', c >= 'A' && c <= 'Z', c >= '0' && c <= '9':
		case c == '.' || c == '/' || c == '-' || c == '_':
		default:
			return true
		}
	}
	return false
}

// Quote renders a value the way the grammar needs it: bare when possible, else '…'.
func Quote(v string) string {
	if needsQuote(v) {
		return "'" + v + "'"
	}
	return v
}

func (c Cond) Text() string {
	var b strings.Builder
	if c.Not {
		b.WriteByte('!')
	}
	b.WriteString(c.Func)
	b.WriteByte('(')
	for i, p := range c.Params {
		if i > 0 {
			b.WriteString(", ")
		}
		if p.Key != "" {
			b.WriteString(p.Key)
			b.WriteString(": ")
		}
		b.WriteString(Quote(p.Val))
	}
	b.WriteByte(')')
	return b.String()
}

func (r Rule) Text() string {
	var cs []string
	for _, c := range r.Conds {
		cs = append(cs, c.Text())
	}
	return strings.Join(cs, " && ") + " -> " + r.Out
}

// RoutingBody is the text between `routing {` and `}`.
func (p *Program) RoutingBody() string {
	var b strings.Builder
	for _, r := range p.Rules {
		b.WriteString(r.Text())
		b.WriteByte('\n')
	}
	b.WriteString("fallback: ")
	b.WriteString(p.Fallback)
	b.WriteByte('\n')
	return b.String()
}

// ConfigText is a complete minimal configuration document around the routing section
// (global{} + the two groups of Groups + routing{}), ready for config_parser.Parse / config.New.
func (p *Program) ConfigText() string {
	return WrapRouting(p.RoutingBody())
}

// WrapRouting wraps a routing body into a minimal complete configuration document.
func WrapRouting(body string) string {
	var g strings.Builder
	for _, n := range Groups {
		g.WriteString(" " + n + "{policy:min}")
	}
	return "global{}\ngroup{" + g.String() + " }\nrouting{\n" + body + "}\n"
}

// OneLine is a compact, stable rendering used in violation signatures.
func (p *Program) OneLine() string {
	var rs []string
	for _, r := range p.Rules {
		rs = append(rs, r.Text())
	}
	rs = append(rs, "fallback: "+p.Fallback)
	return strings.Join(rs, " ; ")
}
