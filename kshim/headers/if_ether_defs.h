/* kshim: provided by the uapi headers included from vmlinux.h */
