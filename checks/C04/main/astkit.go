package main

// The grammar parser (antlr) costs about a millisecond per configuration document. To keep the enumeration
// affordable every alphabet symbol (one rule text, one fallback) is parsed ONCE by the real
// config_parser.Parse, inside a minimal document of the section it belongs to, and the parsed AST of a whole
// list is assembled from deep copies of those parsed rules. Everything after the parser (config.New with its
// must_ patching, the optimizer chain, the builders, the matchers) runs per list exactly as in production.
// The single-rule spaces and --replay go through the complete text instead, and selfCheckAssembly compares
// both ways on every symbol.

import (
	"fmt"
	"strings"
	"sync"

	"github.com/daeuniverse/dae/pkg/config_parser"
	"github.com/daeuniverse/dae/verifx/vroute"
	"github.com/mohae/deepcopy"
)

type astCache struct {
	mu       sync.Mutex
	rules    map[string]*config_parser.RoutingRule // key: section kind + "\x00" + rule text
	fallback map[string]*config_parser.Param
	tmpl     map[string][]*config_parser.Section
}

var asts = &astCache{rules: map[string]*config_parser.RoutingRule{}, fallback: map[string]*config_parser.Param{}, tmpl: map[string][]*config_parser.Section{}}

// docFor returns a minimal complete document with body as the content of the section of the given kind
// ("traffic", "request", "response").
func docFor(kind, body string) string {
	switch kind {
	case "traffic":
		return "global{}\ngroup{ g1{policy:min} g2{policy:min} }\nrouting{\n" + body + "}\n"
	case "request":
		return dnsConfText(body, "fallback: accept\n")
	case "response":
		return dnsConfText("fallback: asis\n", body)
	}
	panic("bad kind")
}

func findSection(secs []*config_parser.Section, path ...string) *config_parser.Section {
	var cur *config_parser.Section
	for _, s := range secs {
		if s.Name == path[0] {
			cur = s
		}
	}
	for _, name := range path[1:] {
		if cur == nil {
			return nil
		}
		var next *config_parser.Section
		for _, it := range cur.Items {
			if s, ok := it.Value.(*config_parser.Section); ok && s.Name == name {
				next = s
			}
		}
		cur = next
	}
	return cur
}

func sectionPath(kind string) []string {
	switch kind {
	case "traffic":
		return []string{"routing"}
	case "request":
		return []string{"dns", "routing", "request"}
	case "response":
		return []string{"dns", "routing", "response"}
	}
	panic("bad kind")
}

func mustParse(text string) []*config_parser.Section {
	secs, err := config_parser.Parse(text)
	if err != nil {
		panic(fmt.Sprintf("harness: alphabet symbol does not parse: %v\n%s", err, text))
	}
	return secs
}

// parsedRule: the AST of one rule as config_parser.Parse produces it (cached, never handed out: callers clone).
func (a *astCache) parsedRule(kind, text string) *config_parser.RoutingRule {
	k := kind + "\x00" + text
	a.mu.Lock()
	defer a.mu.Unlock()
	if r, ok := a.rules[k]; ok {
		return r
	}
	fb := "fallback: block\n"
	if kind == "request" {
		fb = "fallback: asis\n"
	} else if kind == "response" {
		fb = "fallback: accept\n"
	}
	sec := findSection(mustParse(docFor(kind, text+"\n"+fb)), sectionPath(kind)...)
	var found *config_parser.RoutingRule
	n := 0
	for _, it := range sec.Items {
		if r, ok := it.Value.(*config_parser.RoutingRule); ok {
			found = r
			n++
		}
	}
	if n != 1 {
		panic(fmt.Sprintf("harness: %q parsed into %d rules", text, n))
	}
	a.rules[k] = found
	return found
}

func (a *astCache) parsedFallback(kind, fallback string) *config_parser.Param {
	k := kind + "\x00" + fallback
	a.mu.Lock()
	defer a.mu.Unlock()
	if p, ok := a.fallback[k]; ok {
		return p
	}
	sec := findSection(mustParse(docFor(kind, "fallback: "+fallback+"\n")), sectionPath(kind)...)
	var found *config_parser.Param
	for _, it := range sec.Items {
		if p, ok := it.Value.(*config_parser.Param); ok && p.Key == "fallback" {
			found = p
		}
	}
	if found == nil {
		panic("harness: no fallback parsed from " + fallback)
	}
	a.fallback[k] = found
	return found
}

func (a *astCache) template(kind string) []*config_parser.Section {
	a.mu.Lock()
	t, ok := a.tmpl[kind]
	if !ok {
		switch kind {
		case "traffic":
			t = mustParse(docFor("traffic", "fallback: block\n"))
		default:
			t = mustParse(dnsConfText("fallback: asis\n", "fallback: accept\n"))
		}
		a.tmpl[kind] = t
	}
	a.mu.Unlock()
	return deepcopy.Copy(t).([]*config_parser.Section)
}

func cloneRuleAST(r *config_parser.RoutingRule) *config_parser.RoutingRule {
	return deepcopy.Copy(r).(*config_parser.RoutingRule)
}

func setItems(sec *config_parser.Section, kind string, ruleTexts []string, fallback string) {
	sec.Items = sec.Items[:0]
	for _, t := range ruleTexts {
		sec.Items = append(sec.Items, config_parser.NewRoutingRuleItem(cloneRuleAST(asts.parsedRule(kind, t))))
	}
	fb := deepcopy.Copy(asts.parsedFallback(kind, fallback)).(*config_parser.Param)
	sec.Items = append(sec.Items, config_parser.NewParamItem(fb))
}

// trafficSections assembles the parsed document of a traffic rule list.
func trafficSections(ruleTexts []string, fallback string) []*config_parser.Section {
	secs := asts.template("traffic")
	setItems(findSection(secs, "routing"), "traffic", ruleTexts, fallback)
	return secs
}

// dnsSections assembles the parsed document carrying one request list and one response list.
func dnsSections(reqRules []string, reqFallback string, respRules []string, respFallback string) []*config_parser.Section {
	secs := asts.template("dns")
	setItems(findSection(secs, "dns", "routing", "request"), "request", reqRules, reqFallback)
	setItems(findSection(secs, "dns", "routing", "response"), "response", respRules, respFallback)
	return secs
}

// rulesAST returns fresh copies of the parsed rules (for the reference interpreter / the unoptimised builders).
func rulesAST(kind string, ruleTexts []string) []*config_parser.RoutingRule {
	out := make([]*config_parser.RoutingRule, len(ruleTexts))
	for i, t := range ruleTexts {
		out[i] = cloneRuleAST(asts.parsedRule(kind, t))
	}
	return out
}

// sectionsText renders an AST for comparison (selfCheckAssembly).
func sectionsText(secs []*config_parser.Section) string {
	s := ""
	for _, x := range secs {
		s += x.String(false, true) + "\n"
	}
	return s
}

// selfCheckAssembly: for every alphabet symbol, paired with another one, the document assembled from the
// once-parsed rules must be identical to what config_parser.Parse produces for the complete text.
// A difference means the harness shortcut is wrong (exit 2), never a violation.
func selfCheckAssembly(all []vroute.Rule, d *dnsLeg) error {
	for i := range all {
		prog := &vroute.Program{Fallback: trafficFallback, Rules: []vroute.Rule{all[i], all[(i+7)%len(all)]}}
		parsed, err := config_parser.Parse(prog.ConfigText())
		if err != nil {
			return fmt.Errorf("traffic list does not parse: %v: %s", err, prog.OneLine())
		}
		if a, b := sectionsText(parsed), sectionsText(trafficSections(ruleTexts(prog.Rules), prog.Fallback)); a != b {
			return fmt.Errorf("assembled traffic document differs from the parsed one for %s:\n%s\n---\n%s", prog.OneLine(), a, b)
		}
	}
	block := func(ts []string, fb string) string {
		var b strings.Builder
		for _, t := range ts {
			b.WriteString("      " + t + "\n")
		}
		b.WriteString("      fallback: " + fb + "\n")
		return b.String()
	}
	n := max(len(d.req), len(d.resp))
	for i := 0; i < n; i++ {
		rq := []string{d.req[i%len(d.req)].text, d.req[(i+3)%len(d.req)].text}
		rp := []string{d.resp[i%len(d.resp)].text, d.resp[(i+5)%len(d.resp)].text}
		parsed, err := config_parser.Parse(dnsConfText(block(rq, reqFallback), block(rp, respFallback)))
		if err != nil {
			return fmt.Errorf("dns lists do not parse: %v: %v / %v", err, rq, rp)
		}
		if a, b := sectionsText(parsed), sectionsText(dnsSections(rq, reqFallback, rp, respFallback)); a != b {
			return fmt.Errorf("assembled dns document differs from the parsed one for %v / %v:\n%s\n---\n%s", rq, rp, a, b)
		}
	}
	return nil
}
