package vroute

import (
	"net/netip"
	"strconv"
	"strings"

	"github.com/daeuniverse/dae/pkg/config_parser"
)

// PacketOpts tunes PacketsFor. The zero value gives the full boundary product.
type PacketOpts struct {
	// MappedForms: additionally emit every IPv4 packet with both addresses as IPv4-mapped 16-byte netip.Addr.
	MappedForms bool
	// Compact: per constant only one inside value (first address / range start / the listed value) and one
	// outside neighbour (last+1, else first-1) instead of all four boundary points; domains: per pattern one
	// matching name, plus "", one upper-case+trailing-dot form and one foreign name. The special values
	// (no domain, no process name, zero MAC) are always kept.
	Compact bool
	// ExtraDports are added to the destination-port dimension (C02 adds 53).
	ExtraDports []uint16
	// Interior: per written prefix shorter than /128 additionally probe addresses strictly inside it that are
	// not its network address: first+1, the first address of its upper half (top host bit set) and - also in
	// Compact mode - the last address. An encoder that makes the key too long (up to a host key) loses them.
	Interior bool
}

// Defaults used for a dimension on which the program has no constant.
var (
	DefDst4  = netip.MustParseAddr("198.51.100.7")
	DefDst6  = netip.MustParseAddr("2001:db9::7")
	DefSrc4  = netip.MustParseAddr("192.0.2.9")
	DefSrc6  = netip.MustParseAddr("2001:db9::9")
	DefDport = uint16(443)
	DefSport = uint16(40000)
	DefMac   = [6]byte{0x02, 0, 0, 0, 0, 0x09}
	OtherMac = [6]byte{0x02, 0, 0, 0, 0, 0x99}
)

type consts struct {
	dip, sip     []string
	dport, sport []string
	l4, ipver    bool
	mac          []string
	pname        []string
	dscp         []string
	dom          []Param
}

func collect(p *Program) consts {
	var c consts
	for _, r := range p.Rules {
		for _, cd := range r.Conds {
			for _, pa := range cd.Params {
				switch cd.Func {
				case "dip", "ip":
					c.dip = append(c.dip, pa.Val)
				case "sip":
					c.sip = append(c.sip, pa.Val)
				case "dport", "port":
					c.dport = append(c.dport, pa.Val)
				case "sport":
					c.sport = append(c.sport, pa.Val)
				case "l4proto":
					c.l4 = true
				case "ipversion":
					c.ipver = true
				case "mac":
					c.mac = append(c.mac, pa.Val)
				case "pname":
					c.pname = append(c.pname, pa.Val)
				case "dscp":
					c.dscp = append(c.dscp, pa.Val)
				case "domain":
					c.dom = append(c.dom, pa)
				}
			}
		}
	}
	return c
}

func add128(a [16]byte, d int) ([16]byte, bool) {
	if d > 0 {
		for i := 15; i >= 0; i-- {
			a[i]++
			if a[i] != 0 {
				return a, true
			}
		}
		return a, false
	}
	for i := 15; i >= 0; i-- {
		a[i]--
		if a[i] != 0xff {
			return a, true
		}
	}
	return a, false
}

// addrProbes: boundary addresses of the written prefixes, split by family (IPv4 = inside ::ffff:0:0/96,
// returned as 4-byte addresses). An empty family gets its default.
func addrProbes(prefixes []string, compact, interior bool, def4, def6 netip.Addr) (v4, v6 []netip.Addr) {
	seen := map[[16]byte]bool{}
	add := func(a [16]byte) {
		if seen[a] {
			return
		}
		seen[a] = true
		ad := netip.AddrFrom16(a)
		if ad.Is4In6() {
			v4 = append(v4, ad.Unmap())
		} else {
			v6 = append(v6, ad)
		}
	}
	var inner [][16]byte // Interior probes: appended after the boundary points of all prefixes (existing order kept)
	for _, s := range prefixes {
		p, err := parsePfx(s)
		if err != nil {
			continue
		}
		first, last := p.addr, p.addr
		for i := p.bits; i < 128; i++ {
			first[i/8] &^= 1 << (7 - uint(i%8))
			last[i/8] |= 1 << (7 - uint(i%8))
		}
		before, okB := add128(first, -1)
		after, okA := add128(last, +1)
		if interior && p.bits < 128 {
			next, _ := add128(first, +1)
			mid := first
			mid[p.bits/8] |= 1 << (7 - uint(p.bits%8))
			inner = append(inner, next, mid, last)
		}
		if compact {
			add(first)
			if okA {
				add(after)
			} else if okB {
				add(before)
			}
			continue
		}
		add(first)
		add(last)
		if okB {
			add(before)
		}
		if okA {
			add(after)
		}
		add(p.addr) // the address as written (differs from first for an unmasked prefix)
	}
	for _, a := range inner {
		add(a)
	}
	if len(v4) == 0 {
		v4 = []netip.Addr{def4}
	}
	if len(v6) == 0 {
		v6 = []netip.Addr{def6}
	}
	return
}

func portProbes(ranges []string, compact bool, def uint16, extra []uint16) []uint16 {
	seen := map[uint16]bool{}
	var out []uint16
	add := func(v int) {
		if v < 0 || v > 65535 || seen[uint16(v)] {
			return
		}
		seen[uint16(v)] = true
		out = append(out, uint16(v))
	}
	for _, s := range ranges {
		r, err := parsePort(s)
		if err != nil {
			continue
		}
		a, b := int(r[0]), int(r[1])
		if compact {
			add(a)
			if b < 65535 {
				add(b + 1)
			} else {
				add(a - 1)
			}
			continue
		}
		add(a)
		add(b)
		add(a - 1)
		add(b + 1)
	}
	if len(out) == 0 {
		add(int(def))
	}
	for _, e := range extra {
		add(int(e))
	}
	return out
}

func domainProbes(pats []Param, compact bool) []string {
	if len(pats) == 0 {
		return []string{""}
	}
	seen := map[string]bool{}
	var out []string
	add := func(s string) {
		if !seen[s] {
			seen[s] = true
			out = append(out, s)
		}
	}
	add("") // no domain known
	firstMatch := ""
	for _, p := range pats {
		var names []string
		switch p.Key {
		case "", "domain", "suffix":
			b := strings.TrimPrefix(p.Val, ".")
			names = []string{"www." + b, b, "x" + b}
		case "full":
			names = []string{p.Val, "www." + p.Val}
		case "keyword", "contains":
			names = []string{"a" + p.Val + "b.net", p.Val}
		}
		if len(names) > 0 && firstMatch == "" {
			firstMatch = names[0]
		}
		if compact && len(names) > 1 {
			names = names[:1]
		}
		for _, n := range names {
			add(n)
		}
		if !compact && len(names) > 0 {
			add(strings.ToUpper(names[0]) + ".")
			add(names[0] + ".")
		}
	}
	if compact {
		if firstMatch == "" {
			firstMatch = "www.example.com" // regex-only programs: the alphabets' regexes are written around this name
			add(firstMatch)
		}
		add(strings.ToUpper(firstMatch) + ".")
		add("other.net")
		return out
	}
	for _, n := range []string{"example.com", "www.example.com", "WWW.Example.COM.", "xexample.com", "www.test.org", "other.net"} {
		add(n)
	}
	return out
}

func pnameProbes(vals []string, compact bool) []string {
	if len(vals) == 0 {
		return []string{""}
	}
	seen := map[string]bool{}
	var out []string
	add := func(s string) {
		if len(s) > 16 {
			s = s[:16]
		}
		if !seen[s] {
			seen[s] = true
			out = append(out, s)
		}
	}
	add("") // no process known
	for _, v := range vals {
		add(v) // first 16 bytes of the listed name
		if compact {
			continue
		}
		if len(v) >= 16 {
			add(v[:15]) // one byte shorter than what is compared
		} else {
			add(v + "x") // one byte longer
		}
	}
	add("other")
	return out
}

func macProbes(vals []string, compact bool) [][6]byte {
	if len(vals) == 0 {
		return [][6]byte{DefMac}
	}
	seen := map[[6]byte]bool{}
	var out [][6]byte
	add := func(m [6]byte) {
		if !seen[m] {
			seen[m] = true
			out = append(out, m)
		}
	}
	add([6]byte{}) // frame without a MAC
	for _, v := range vals {
		m, err := parseMac(v)
		if err != nil {
			continue
		}
		add(m)
		if !compact {
			n := m
			n[5] ^= 1
			add(n)
		}
	}
	add(OtherMac)
	return out
}

func dscpProbes(vals []string, compact bool) []uint8 {
	if len(vals) == 0 {
		return []uint8{0}
	}
	seen := map[int]bool{}
	var out []uint8
	add := func(v int) {
		if v < 0 || v > 63 || seen[v] {
			return
		}
		seen[v] = true
		out = append(out, uint8(v))
	}
	for _, s := range vals {
		u, err := strconv.ParseUint(s, 0, 8)
		if err != nil {
			continue
		}
		v := int(u)
		add(v)
		if v < 63 {
			add(v + 1)
		} else {
			add(v - 1)
		}
		if !compact {
			add(v - 1)
		}
	}
	return out
}

// PacketsFor returns, for one program, the full product over the packet dimensions of the boundary values
// of the program's OWN constants:
//
//	addresses : per written prefix first/last inside, first-1/last+1 outside (128-bit arithmetic, so the
//	            neighbours of 0.0.0.0/0 are IPv6 addresses), the address as written; per family a default
//	            when the family has no probe. Packets are family-consistent (src and dst both IPv4 or both IPv6);
//	            both families are produced iff the program mentions an address or ipversion.
//	ports     : range ends and ends±1;  l4: tcp (and udp iff l4proto occurs)
//	domain    : "", per pattern matching / sub-name / glued-prefix names, upper case + trailing dot, foreign names
//	pname     : "", the listed names cut to 16 bytes, one byte shorter/longer, a foreign name
//	mac       : zero, listed, listed^1, foreign;   dscp: listed, ±1
//
// A dimension without constants contributes its single default.
func PacketsFor(p *Program, o PacketOpts) []Packet {
	c := collect(p)
	dst4, dst6 := addrProbes(c.dip, o.Compact, o.Interior, DefDst4, DefDst6)
	src4, src6 := addrProbes(c.sip, o.Compact, o.Interior, DefSrc4, DefSrc6)
	both := len(c.dip) > 0 || len(c.sip) > 0 || c.ipver
	dports := portProbes(c.dport, o.Compact, DefDport, o.ExtraDports)
	sports := portProbes(c.sport, o.Compact, DefSport, nil)
	l4s := []string{"tcp"}
	if c.l4 {
		l4s = []string{"tcp", "udp"}
	}
	doms := domainProbes(c.dom, o.Compact)
	pnames := pnameProbes(c.pname, o.Compact)
	macs := macProbes(c.mac, o.Compact)
	dscps := dscpProbes(c.dscp, o.Compact)

	type fam struct {
		dst, src []netip.Addr
		mapped   bool
	}
	fams := []fam{{dst4, src4, false}}
	if o.MappedForms {
		fams = append(fams, fam{dst4, src4, true})
	}
	if both {
		fams = append(fams, fam{dst6, src6, false})
	}
	var out []Packet
	for _, f := range fams {
		for _, d := range f.dst {
			for _, s := range f.src {
				if f.mapped {
					d, s = netip.AddrFrom16(d.As16()), netip.AddrFrom16(s.As16())
				}
				for _, dp := range dports {
					for _, sp := range sports {
						for _, l4 := range l4s {
							for _, dom := range doms {
								for _, pn := range pnames {
									for _, mac := range macs {
										for _, ds := range dscps {
											out = append(out, Packet{Src: netip.AddrPortFrom(s, sp), Dst: netip.AddrPortFrom(d, dp),
												L4: l4, Domain: dom, Pname: pn, Mac: mac, Dscp: ds})
										}
									}
								}
							}
						}
					}
				}
			}
		}
	}
	return out
}

// FromAST converts a parsed rule list back into the structured description (for callers that start from
// rule text or from an optimised AST and need PacketsFor on it).
func FromAST(rules []*config_parser.RoutingRule, fallback *config_parser.Function) *Program {
	p := &Program{Label: "ast"}
	fn := func(f *config_parser.Function) string {
		if len(f.Params) == 0 {
			return f.Name
		}
		var ps []string
		for _, x := range f.Params {
			if x.Key != "" {
				ps = append(ps, x.Key+": "+Quote(x.Val))
			} else {
				ps = append(ps, Quote(x.Val))
			}
		}
		return f.Name + "(" + strings.Join(ps, ", ") + ")"
	}
	for _, r := range rules {
		var rule Rule
		for _, f := range r.AndFunctions {
			c := Cond{Func: f.Name, Not: f.Not}
			for _, x := range f.Params {
				c.Params = append(c.Params, Param{Key: x.Key, Val: x.Val})
			}
			rule.Conds = append(rule.Conds, c)
		}
		rule.Out = fn(&r.Outbound)
		p.Rules = append(p.Rules, rule)
	}
	if fallback != nil {
		p.Fallback = fn(fallback)
	}
	return p
}
