// Independent QUIC Initial encoder and reference decoder: RFC 9000 §16/§17.2/§19 (varints, long header, frames),
// RFC 9001 §5 (initial secrets, AEAD, header protection), RFC 9369 (QUIC v2: version, salt, labels, packet type
// code). Only the Go standard library is used (crypto/hkdf, crypto/aes, crypto/cipher).
package main

import (
	"bytes"
	"crypto/aes"
	"crypto/cipher"
	"crypto/hkdf"
	"crypto/sha256"
	"encoding/hex"
	"fmt"
)

type qver struct {
	name        string
	ver         uint32
	salt        []byte
	keyL        string
	ivL         string
	hpL         string
	initialType byte // long packet type code of Initial
}

func unhex(s string) []byte {
	b, err := hex.DecodeString(s)
	if err != nil {
		panic(err)
	}
	return b
}

var (
	quicV1 = qver{"v1", 0x00000001, unhex("38762cf7f55934b34d179ae6a4c80cadccbb7f0a"), "quic key", "quic iv", "quic hp", 0}
	quicV2 = qver{"v2", 0x6b3343cf, unhex("0dede3def700a6db819381be6e269dcbf9bd2ed9"), "quicv2 key", "quicv2 iv", "quicv2 hp", 1}
)

func qverOf(v uint32) (qver, bool) {
	switch v {
	case quicV1.ver:
		return quicV1, true
	case quicV2.ver:
		return quicV2, true
	}
	return qver{}, false
}

func hkdfExpandLabel(secret []byte, label string, n int) []byte {
	full := "tls13 " + label
	info := []byte{byte(n >> 8), byte(n), byte(len(full))}
	info = append(info, full...)
	info = append(info, 0)
	out, err := hkdf.Expand(sha256.New, secret, string(info), n)
	if err != nil {
		panic(err)
	}
	return out
}

type qkeys struct{ secret, key, iv, hp []byte }

func clientInitialKeys(v qver, dcid []byte) qkeys {
	initial, err := hkdf.Extract(sha256.New, dcid, v.salt)
	if err != nil {
		panic(err)
	}
	var k qkeys
	k.secret = hkdfExpandLabel(initial, "client in", 32) // RFC 9369 §3.3.2 keeps "client in" for v2
	k.key = hkdfExpandLabel(k.secret, v.keyL, 16)
	k.iv = hkdfExpandLabel(k.secret, v.ivL, 12)
	k.hp = hkdfExpandLabel(k.secret, v.hpL, 16)
	return k
}

func varint(v uint64) []byte {
	switch {
	case v < 1<<6:
		return []byte{byte(v)}
	case v < 1<<14:
		return []byte{0x40 | byte(v>>8), byte(v)}
	case v < 1<<30:
		return []byte{0x80 | byte(v>>24), byte(v >> 16), byte(v >> 8), byte(v)}
	default:
		return []byte{0xc0 | byte(v>>56), byte(v >> 48), byte(v >> 40), byte(v >> 32), byte(v >> 24), byte(v >> 16), byte(v >> 8), byte(v)}
	}
}

func varint2(v int) []byte { return []byte{0x40 | byte(v>>8), byte(v)} }

func readVarint(b []byte) (v uint64, n int, ok bool) {
	if len(b) == 0 {
		return 0, 0, false
	}
	n = 1 << (b[0] >> 6)
	if len(b) < n {
		return 0, 0, false
	}
	v = uint64(b[0] & 0x3f)
	for i := 1; i < n; i++ {
		v = v<<8 | uint64(b[i])
	}
	return v, n, true
}

type pktSpec struct {
	v       qver
	dcid    []byte
	scid    []byte
	token   []byte
	pn      uint32
	pnLen   int
	payload []byte
}

func aeadFor(key []byte) cipher.AEAD {
	blk, err := aes.NewCipher(key)
	if err != nil {
		panic(err)
	}
	a, err := cipher.NewGCM(blk)
	if err != nil {
		panic(err)
	}
	return a
}

func nonceFor(iv []byte, pn uint64) []byte {
	n := append([]byte(nil), iv...)
	for i := 0; i < 8; i++ {
		n[len(n)-1-i] ^= byte(pn >> (8 * uint(i)))
	}
	return n
}

// encodeInitial builds one protected Initial packet (RFC 9000 §17.2.2, RFC 9001 §5.3/§5.4).
func encodeInitial(p pktSpec) []byte {
	k := clientInitialKeys(p.v, p.dcid)
	first := byte(0xc0) | p.v.initialType<<4 | byte(p.pnLen-1)
	hdr := []byte{first, byte(p.v.ver >> 24), byte(p.v.ver >> 16), byte(p.v.ver >> 8), byte(p.v.ver)}
	hdr = append(hdr, byte(len(p.dcid)))
	hdr = append(hdr, p.dcid...)
	hdr = append(hdr, byte(len(p.scid)))
	hdr = append(hdr, p.scid...)
	hdr = append(hdr, varint(uint64(len(p.token)))...)
	hdr = append(hdr, p.token...)
	hdr = append(hdr, varint2(p.pnLen+len(p.payload)+16)...)
	pnOff := len(hdr)
	for i := p.pnLen - 1; i >= 0; i-- {
		hdr = append(hdr, byte(p.pn>>(8*uint(i))))
	}
	if p.pnLen+len(p.payload) < 4 {
		panic("payload too short for header protection sample")
	}
	sealed := aeadFor(k.key).Seal(nil, nonceFor(k.iv, uint64(p.pn)), p.payload, hdr)
	pkt := append(hdr, sealed...)
	blk, _ := aes.NewCipher(k.hp)
	mask := make([]byte, 16)
	blk.Encrypt(mask, pkt[pnOff+4:pnOff+20])
	pkt[0] ^= mask[0] & 0x0f
	for i := 0; i < p.pnLen; i++ {
		pkt[pnOff+i] ^= mask[1+i]
	}
	return pkt
}

func frCrypto(off int, data []byte) []byte {
	f := []byte{0x06}
	f = append(f, varint(uint64(off))...)
	f = append(f, varint(uint64(len(data)))...)
	return append(f, data...)
}

// ---- reference decoder --------------------------------------------------------------------------

type cseg struct {
	off  int
	data []byte
}

type refPkt struct {
	initial   bool
	decrypted bool
	strict    bool // header reserved bits zero, frames all legal for Initial and well-formed
	segs      []cseg
	closed    bool
}

// refParseDatagram walks the coalesced packets of one datagram (RFC 9000 §12.2) and opens every Initial.
func refParseDatagram(d []byte) (pkts []refPkt) {
	for len(d) > 0 {
		var p refPkt
		if d[0]&0x80 == 0 || len(d) < 7 {
			return append(pkts, p) // short header / junk: rest of the datagram is opaque
		}
		ver := uint32(d[1])<<24 | uint32(d[2])<<16 | uint32(d[3])<<8 | uint32(d[4])
		v, known := qverOf(ver)
		pos := 5
		dl := int(d[pos])
		pos++
		if dl > 20 || len(d) < pos+dl+1 {
			return append(pkts, p)
		}
		dcid := d[pos : pos+dl]
		pos += dl
		sl := int(d[pos])
		pos++
		if sl > 20 || len(d) < pos+sl {
			return append(pkts, p)
		}
		pos += sl
		if !known {
			return append(pkts, p)
		}
		typ := (d[0] >> 4) & 3
		if typ != v.initialType {
			// other long-header packet: 0-RTT / Handshake carry a Length and can be skipped, Retry cannot
			retry := (v.initialType + 3) & 3
			if typ == retry {
				return append(pkts, p)
			}
			ln, n, ok := readVarint(d[pos:])
			if !ok || uint64(len(d)-pos-n) < ln {
				return append(pkts, p)
			}
			pkts = append(pkts, p)
			d = d[pos+n+int(ln):]
			continue
		}
		p.initial = true
		tl, n, ok := readVarint(d[pos:])
		if !ok || uint64(len(d)-pos-n) < tl {
			return append(pkts, p)
		}
		pos += n + int(tl)
		ln, n, ok := readVarint(d[pos:])
		if !ok || uint64(len(d)-pos-n) < ln {
			return append(pkts, p)
		}
		pos += n
		pnOff := pos
		end := pos + int(ln)
		if int(ln) < 4+16 {
			pkts = append(pkts, p)
			d = d[end:]
			continue
		}
		k := clientInitialKeys(v, dcid)
		blk, _ := aes.NewCipher(k.hp)
		mask := make([]byte, 16)
		blk.Encrypt(mask, d[pnOff+4:pnOff+20])
		first := d[0] ^ mask[0]&0x0f
		pnLen := int(first&3) + 1
		hdr := append([]byte(nil), d[:pnOff+pnLen]...)
		hdr[0] = first
		var pn uint64
		for i := 0; i < pnLen; i++ {
			hdr[pnOff+i] ^= mask[1+i]
			pn = pn<<8 | uint64(hdr[pnOff+i])
		}
		pt, err := aeadFor(k.key).Open(nil, nonceFor(k.iv, pn), d[pnOff+pnLen:end], hdr)
		if err == nil {
			p.decrypted = true
			p.strict = first&0x0c == 0 && first&0x40 != 0
			segs, closed, fine := refParseFrames(pt)
			p.segs, p.closed = segs, closed
			p.strict = p.strict && fine && len(pt) > 0
		}
		pkts = append(pkts, p)
		d = d[end:]
	}
	return pkts
}

// refParseFrames: frames permitted in Initial packets (RFC 9000 §12.4 table 3): PADDING, PING, ACK, CRYPTO,
// CONNECTION_CLOSE(0x1c). Returns the CRYPTO segments parsed before the first error.
func refParseFrames(b []byte) (segs []cseg, closed bool, fine bool) {
	for len(b) > 0 {
		t, n, ok := readVarint(b)
		if !ok {
			return segs, closed, false
		}
		b = b[n:]
		vi := func() (uint64, bool) {
			v, n, ok := readVarint(b)
			if ok {
				b = b[n:]
			}
			return v, ok
		}
		switch t {
		case 0x00, 0x01:
		case 0x02, 0x03:
			var rc uint64
			for i := 0; i < 4; i++ {
				v, ok := vi()
				if !ok {
					return segs, closed, false
				}
				if i == 2 {
					rc = v
				}
			}
			for i := uint64(0); i < rc; i++ {
				if _, ok := vi(); !ok {
					return segs, closed, false
				}
				if _, ok := vi(); !ok {
					return segs, closed, false
				}
			}
			if t == 0x03 {
				for i := 0; i < 3; i++ {
					if _, ok := vi(); !ok {
						return segs, closed, false
					}
				}
			}
		case 0x06:
			off, ok1 := vi()
			ln, ok2 := vi()
			if !ok1 || !ok2 || uint64(len(b)) < ln || off+ln >= 1<<62 {
				return segs, closed, false
			}
			segs = append(segs, cseg{int(off), b[:ln]})
			b = b[ln:]
		case 0x1c:
			_, ok1 := vi()
			_, ok2 := vi()
			rl, ok3 := vi()
			if !ok1 || !ok2 || !ok3 || uint64(len(b)) < rl {
				return segs, closed, false
			}
			b = b[rl:]
			closed = true
		default:
			return segs, closed, false
		}
	}
	return segs, closed, true
}

// refQuicSequence: the name carried by the CRYPTO stream of all Initial packets of a datagram sequence.
func refQuicSequence(dgrams [][]byte) verdict {
	var v verdict
	strict := true
	var segs []cseg
	any := false
	for _, d := range dgrams {
		pkts := refParseDatagram(d)
		for i, p := range pkts {
			if p.initial && p.decrypted {
				any = true
				segs = append(segs, p.segs...)
				if !p.strict || p.closed {
					strict = false
				}
			} else if i == 0 || p.initial {
				strict = false // first packet of a datagram undecodable, or an Initial that does not open
			}
		}
	}
	if !any {
		return v
	}
	// reassemble by offset
	total := 0
	for _, s := range segs {
		if s.off+len(s.data) > total {
			total = s.off + len(s.data)
		}
	}
	if total > 1<<20 {
		return v
	}
	// two reassembly policies where frames disagree about a byte (RFC 9000 §19.6 lets a receiver treat that as an error
	// or keep either copy): first copy wins / last copy wins — a name found under either is "carried"
	build := func(lastWins bool) []byte {
		stream := make([]byte, total)
		have := make([]bool, total)
		for _, s := range segs {
			for i, x := range s.data {
				if have[s.off+i] {
					if stream[s.off+i] != x {
						strict = false
						if lastWins {
							stream[s.off+i] = x
						}
					}
					continue
				}
				stream[s.off+i], have[s.off+i] = x, true
			}
		}
		contig := 0
		for contig < total && have[contig] {
			contig++
		}
		if contig != total {
			strict = false
		}
		return stream[:contig]
	}
	pre := build(false)
	v.carried = carriedHello(pre)
	v.carried = append(v.carried, carriedHello(build(true))...)
	if strict {
		if ok, name, has := strictHello(pre); ok && has {
			v.required, v.name = true, normName(name)
			v.carried = append(v.carried, name)
		}
	}
	return v
}

// selfTestQuic checks the encoder against RFC 9001 Appendix A (v1) and RFC 9369 Appendix A (v2 keys);
// a failure means the harness is wrong: exit 2.
func selfTestQuic() error {
	dcid := unhex("8394c8f03e515708")
	k := clientInitialKeys(quicV1, dcid)
	if hex.EncodeToString(k.secret) != "c00cf151ca5be075ed0ebfb5c80323c42d6b7db67881289af4008f1f6c357aea" ||
		hex.EncodeToString(k.key) != "1f369613dd76d5467730efcbe3b1a22d" || hex.EncodeToString(k.iv) != "fa044b2f42a3fd3b46fb255c" ||
		hex.EncodeToString(k.hp) != "9f50449e04a0e810283a1e9933adedd2" {
		return fmt.Errorf("v1 initial keys differ from RFC 9001 A.1")
	}
	k2 := clientInitialKeys(quicV2, dcid)
	if hex.EncodeToString(k2.secret) != "14ec9d6eb9fd7af83bf5a668bc17a7e283766aade7ecd0891f70f9ff7f4bf47b" ||
		hex.EncodeToString(k2.key) != "8b1a0bc121284290a29e0971b5cd045d" || hex.EncodeToString(k2.iv) != "91f73e2351d8fa91660e909f" ||
		hex.EncodeToString(k2.hp) != "45b95e15235d6f45a6b19cbcb0294ba9" {
		return fmt.Errorf("v2 initial keys differ from RFC 9369 A.1")
	}
	// RFC 9001 A.2 client Initial: CRYPTO frame with the ClientHello, padded to 1162 bytes, pn=2 in 4 bytes.
	ch := unhex("060040f1010000ed0303ebf8fa56f12939b9584a3896472ec40bb863cfd3e86804fe3a47f06a2b69484c" +
		"00000413011302010000c000000010000e00000b6578616d706c652e636f6dff01000100000a00080006001d0017001800100007000504616c706e" +
		"000500050100000000003300260024001d00209370b2c9caa47fbabaf4559fedba753de171fa71f50f1ce15d43e994ec74d748" +
		"002b0003020304000d0010000e0403050306030203080408050806002d00020101001c00024001003900320408ffffffffffffffff" +
		"05048000ffff07048000ffff0801100104800075300901100f088394c8f03e51570806048000ffff")
	payload := make([]byte, 1162)
	copy(payload, ch)
	pkt := encodeInitial(pktSpec{v: quicV1, dcid: dcid, pn: 2, pnLen: 4, payload: payload})
	if len(pkt) != 1200 {
		return fmt.Errorf("RFC 9001 A.2: packet length %d != 1200", len(pkt))
	}
	if hex.EncodeToString(pkt[:22]) != "c000000001088394c8f03e5157080000449e7b9aec34" {
		return fmt.Errorf("RFC 9001 A.2: protected header %x", pkt[:22])
	}
	if hex.EncodeToString(pkt[22:38]) != "d1b1c98dd7689fb8ec11d242b123dc9b" {
		return fmt.Errorf("RFC 9001 A.2: first ciphertext block (= header protection sample) %x", pkt[22:38])
	}
	if hex.EncodeToString(pkt[1184:]) != "e221af44860018ab0856972e194cd934" {
		return fmt.Errorf("RFC 9001 A.2: tag %x", pkt[1184:])
	}
	// decoder agrees with encoder, and the A.2 hello carries example.com
	v := refQuicSequence([][]byte{pkt})
	if !v.required || v.name != "example.com" {
		return fmt.Errorf("reference decoder on RFC 9001 A.2: %+v", v)
	}
	for _, qv := range []qver{quicV1, quicV2} {
		for pl := 1; pl <= 4; pl++ {
			p := encodeInitial(pktSpec{v: qv, dcid: dcid, scid: []byte{1, 2, 3}, token: []byte{9}, pn: 1, pnLen: pl, payload: ch})
			w := refQuicSequence([][]byte{p})
			if !w.required || w.name != "example.com" {
				return fmt.Errorf("encoder/decoder round trip %s pnlen=%d: %+v", qv.name, pl, w)
			}
			q := append([]byte(nil), p...)
			q[len(q)-1] ^= 1
			if w := refQuicSequence([][]byte{q}); w.required || len(w.carried) != 0 {
				return fmt.Errorf("decoder accepted a forged tag")
			}
		}
	}
	_ = bytes.Equal
	return nil
}

// ---- packets of other types coalesced with Initials (RFC 9000 section 12.2) --------------------------------------------
//
// A client may put packets of other encryption levels behind its Initial in the same datagram (Initial + 0-RTT is the
// usual form of a resuming client, and one of the two ways section 14.1 names to bring the datagram to 1200 bytes);
// an observer without the keys sees them as opaque bytes and, for long headers, a Length it can step over.

const (
	trNone = iota
	trZeroRTT
	trHandshake
	trShort
	trZeros
	nTrailerKinds
)

var trailerName = [...]string{"none", "0rtt", "handshake", "short", "zeros"}

// otherPacket: a packet that is not an Initial, as it looks on the wire (protected bits and payload are opaque).
func otherPacket(v qver, kind int, dcid, scid []byte) []byte {
	switch kind {
	case trZeroRTT, trHandshake:
		k := byte(1) // 0-RTT is the type code behind Initial, Handshake the one behind that, in v1 and in v2
		n := 41
		if kind == trHandshake {
			k, n = 2, 29
		}
		code := (v.initialType + k) & 3
		p := []byte{0xc0 | code<<4 | 0x0b, byte(v.ver >> 24), byte(v.ver >> 16), byte(v.ver >> 8), byte(v.ver)}
		p = append(p, byte(len(dcid)))
		p = append(p, dcid...)
		p = append(p, byte(len(scid)))
		p = append(p, scid...)
		p = append(p, varint2(n)...)
		return append(p, patternBytes(n, 0x5a+kind)...)
	case trShort: // 1-RTT: header form 0, fixed bit 1, destination connection id, opaque
		p := []byte{0x40 | 0x1d}
		p = append(p, dcid...)
		return append(p, patternBytes(33, 0x33)...)
	case trZeros: // bytes behind the last packet that are no packet at all
		return []byte{0, 0, 0}
	}
	return nil
}
