//go:build verif

package sniffing

import (
	"time"

	"github.com/daeuniverse/outbound/pool/bytes"
)

// VerifGuardedSniffer returns a packet-mode sniffer whose buffer is an exactly-sized slice (cap == len), so that
// any access of the parsers beyond the received bytes — which a Locator-based `l[i:j]` reslice silently allows while
// j <= cap — hits the slice bound and panics. Do not Close() it (the odd-sized buffer must not enter the pool).
func VerifGuardedSniffer(data []byte) *Sniffer {
	b := make([]byte, len(data))
	copy(b, data)
	buf := bytes.NewBuffer(b[:len(b):len(b)])
	return &Sniffer{
		stream:    false,
		buf:       buf,
		data:      [][]byte{buf.Bytes()},
		dataReady: make(chan struct{}),
		deadline:  time.Now().Add(time.Hour),
	}
}

// VerifBufCap reports len/cap of the internal buffer (diagnostics in replay files).
func (s *Sniffer) VerifBufCap() (int, int) { return s.buf.Len(), s.buf.Cap() }

// VerifReadWouldBlock reports whether the data-ready gate is shut, i.e. whether Read / TakeRelayPrefix called now would
// wait for somebody to open it. After SniffTcp has returned on the read-deadline path (no goroutine of the sniffer is
// left) nobody ever will: the relay would hang for ever.
func (s *Sniffer) VerifReadWouldBlock() bool {
	select {
	case <-s.dataReady:
		return false
	default:
		return true
	}
}
