// C09 — every DNS client gets an answer to its own question under its own ID (engine S).
package main

import (
	"fmt"
	"os"
	"time"

	"github.com/daeuniverse/dae/control"
	"github.com/daeuniverse/dae/verifx/vdrive"
	"github.com/daeuniverse/dae/verifx/vlib"
	"github.com/daeuniverse/dae/verifx/vsched"
)

const (
	tA    = 1
	tAAAA = 28
)

func q(name string, qtype uint16, id uint16) control.C09Query {
	return control.C09Query{Name: name, Qtype: qtype, ID: id}
}

func cl(qs ...control.C09Query) control.C09Client { return control.C09Client{Queries: qs} }

func main() {
	if err := control.VerifC09Prepare(); err != nil {
		fmt.Fprintln(os.Stderr, "C09: prepare:", err)
		os.Exit(2)
	}
	a, b, c := "a.c9.test.", "b.c9.test.", "c.c9.test."
	_ = c
	var scs []*vsched.Scenario
	add := func(p *control.C09Params) {
		if p.MaxSteps == 0 {
			p.MaxSteps = 6000
		}
		scs = append(scs, control.C09Scenario(p))
	}
	add(&control.C09Params{Name: "L1/same-name", Layer: 1, Clients: []control.C09Client{cl(q(a, tA, 0x1001)), cl(q(a, tA, 0x2002))}})
	add(&control.C09Params{Name: "L1/diff-names-same-id", Layer: 1, Clients: []control.C09Client{cl(q(a, tA, 0x3003)), cl(q(b, tA, 0x3003))}})
	add(&control.C09Params{Name: "L2/udp-reuse-same-id", Layer: 2, Clients: []control.C09Client{cl(q(a, tA, 0x4004), q(b, tA, 0x4004))}})
	add(&control.C09Params{Name: "L3/tcp-2clients", Layer: 3, Clients: []control.C09Client{cl(q(a, tA, 0x5005)), cl(q(b, tA, 0x5005))}})
	p := &vdrive.Plan{
		Scenarios:      scs,
		QuickBounds:    []vsched.Bound{{0, 0}},
		ThoroughBounds: []vsched.Bound{{0, 0}, {1, 1}},
		BudgetQuick:    150 * time.Second,
		BudgetThorough: 25 * time.Minute,
		Finish: func(r *vlib.Run) {
		},
	}
	vdrive.Main("C09", p)
}
