// C11 — domain patterns match exactly the names their kind describes.
// Bounded-exhaustive enumeration (engine Q) of the real matcher
// (domain_matcher.AhocorasickSlimtrie -> pkg/trie -> common/bitlist -> pkg/anybuffer, ahocorasick, regexp):
//
//	single   : every pattern set of size <= K over a closed pool of mutually prefix/suffix-related patterns
//	           x every bit index of {0,31,32,1023} x every name of <= L labels over a closed label pool in
//	           lower/UPPER/mixed case, with and without a trailing dot; whole bitmap compared
//	multi    : several sets at once at different indices (ordered pairs of sets of size <= 2, triples of
//	           singletons): bit i must depend on set i only
//	allidx   : four sets rotated over every one of the 1024 bit indices; one matcher with all 1024 indices set
//	badchar  : patterns with a character outside the alphabet must be skipped without affecting the rest
//	scale    : one geosite-scale corpus (5*10^4 / 2*10^5 generated patterns) queried with every pattern,
//	           sub-/non-sub-names of every pattern and every name within edit distance 1 of evenly spaced bases
//	trie     : pkg/trie alone: every key set of <= 4 (5) strings over a two-letter alphabet, length <= 4,
//	           x every word of length <= 6, against brute-force "some key is a prefix of the word"
//	bitlist  : CompactBitList Append/Get round trip for every unit width 1..31 (what the trie stores in it)
//
// The reference is written from the property text only: full <=> equal; suffix <=> equal or ends with "."+p
// (leading-dot pattern: proper sub-names only); keyword <=> contains; regex <=> Go regexp on the lower-cased
// name; set matches iff one of its patterns does; bit i depends on set i only. The name is compared
// case-insensitively and without its (single) trailing dot.
package main

import (
	"encoding/json"
	"fmt"
	"io"
	"os"
	"regexp"
	"runtime"
	"sort"
	"strconv"
	"strings"
	"sync"
	"sync/atomic"
	"time"

	"github.com/daeuniverse/dae/common/bitlist"
	"github.com/daeuniverse/dae/common/consts"
	"github.com/daeuniverse/dae/component/routing/domain_matcher"
	"github.com/daeuniverse/dae/pkg/trie"
	"github.com/daeuniverse/dae/verifx/vlib"
	"github.com/sirupsen/logrus"
)

// ---------------------------------------------------------------------------------------------
// pattern / set model

type pat struct {
	Kind string `json:"kind"` // full | suffix | keyword | regex
	S    string `json:"s"`
}

// String is used in signatures: bytes outside printable ASCII (and the space) are shown escaped.
func (p pat) String() string {
	for i := 0; i < len(p.S); i++ {
		if p.S[i] <= ' ' || p.S[i] > '~' {
			return p.Kind + ":" + strconv.QuoteToASCII(p.S)
		}
	}
	return p.Kind + ":" + p.S
}

type setSpec struct {
	Idx  int   `json:"idx"`
	Pats []pat `json:"patterns"`
}

func specsString(specs []setSpec) string {
	var sb strings.Builder
	for i, s := range specs {
		if i > 0 {
			sb.WriteByte(' ')
		}
		fmt.Fprintf(&sb, "@%d[", s.Idx)
		for j, p := range s.Pats {
			if j > 0 {
				sb.WriteByte(' ')
			}
			sb.WriteString(p.String())
		}
		sb.WriteByte(']')
	}
	return sb.String()
}

var kindOrder = []string{"full", "suffix", "keyword", "regex"}

var quietLog = func() *logrus.Logger {
	l := logrus.New()
	l.SetOutput(io.Discard)
	l.SetLevel(logrus.PanicLevel)
	return l
}()

// build feeds the real matcher the way the production builders do: one AddSet per (index, kind).
func build(specs []setSpec) (m *domain_matcher.AhocorasickSlimtrie, err error) {
	m = domain_matcher.NewAhocorasickSlimtrie(quietLog, consts.MaxMatchSetLen)
	for _, s := range specs {
		for _, k := range kindOrder {
			var ps []string
			for _, p := range s.Pats {
				if p.Kind == k {
					ps = append(ps, p.S)
				}
			}
			if len(ps) > 0 {
				m.AddSet(s.Idx, ps, consts.RoutingDomainKey(k))
			}
		}
	}
	return m, m.Build()
}

// ---------------------------------------------------------------------------------------------
// reference, from the property statement

// canon: the statement quantifies over names "in any letter case and with or without a trailing dot":
// the identity of a name is its lower-cased text without the trailing dot.
func canon(name string) string { return strings.ToLower(strings.TrimSuffix(name, ".")) }

var reCache sync.Map

func refRegexp(s string) *regexp.Regexp {
	if v, ok := reCache.Load(s); ok {
		return v.(*regexp.Regexp)
	}
	re := regexp.MustCompile(s)
	reCache.Store(s, re)
	return re
}

func refMatch(p pat, cn string) bool {
	switch p.Kind {
	case "full":
		return cn == p.S
	case "suffix":
		if strings.HasPrefix(p.S, ".") {
			// proper sub-names only
			return cn != p.S[1:] && strings.HasSuffix(cn, p.S)
		}
		return cn == p.S || strings.HasSuffix(cn, "."+p.S)
	case "keyword":
		return strings.Contains(cn, p.S)
	case "regex":
		return refRegexp(p.S).MatchString(cn)
	}
	panic("bad kind " + p.Kind)
}

func bitmapWords() int { return (consts.MaxMatchSetLen + 31) / 32 }

func refBitmap(specs []setSpec, cn string) []uint32 {
	bm := make([]uint32, bitmapWords())
	for _, s := range specs {
		for _, p := range s.Pats {
			if refMatch(p, cn) {
				bm[s.Idx/32] |= 1 << (uint(s.Idx) % 32)
				break
			}
		}
	}
	return bm
}

func sameBitmap(a, b []uint32) bool {
	if len(a) != len(b) {
		return false
	}
	for i := range a {
		if a[i] != b[i] {
			return false
		}
	}
	return true
}

func bitsOf(bm []uint32) []int {
	out := []int{}
	for w, v := range bm {
		for b := 0; b < 32; b++ {
			if v&(1<<uint(b)) != 0 {
				out = append(out, w*32+b)
			}
		}
	}
	return out
}

// ---------------------------------------------------------------------------------------------
// name space

type nameCase struct {
	canon string
	forms []string // every spelling of canon that is queried
}

func isLetter(c byte) bool { return (c >= 'a' && c <= 'z') || (c >= 'A' && c <= 'Z') }

func alternating(s string, phase int) string {
	b := []byte(s)
	n := phase
	for i, c := range b {
		if !isLetter(c) {
			continue
		}
		if n%2 == 0 {
			b[i] = strings.ToUpper(string(c))[0]
		} else {
			b[i] = strings.ToLower(string(c))[0]
		}
		n++
	}
	return string(b)
}

// spellings: lower, UPPER, two mixed spellings, each with and without a trailing dot.
func spellings(cn string) []string {
	seen := map[string]bool{}
	var out []string
	for _, s := range []string{cn, strings.ToUpper(cn), alternating(cn, 0), alternating(cn, 1)} {
		for _, f := range []string{s, s + "."} {
			if !seen[f] {
				seen[f] = true
				out = append(out, f)
			}
		}
	}
	return out
}

var labelPool = []string{"a", "b", "ab", "bb", "a-b", "a_b", "1"}

// namesUpTo: every name of 1..maxLabels labels over labelPool. Names of at most fullSpell labels are queried
// in all spellings, longer ones in two (lower case without dot, mixed case with dot).
func namesUpTo(maxLabels, fullSpell int) []nameCase {
	var out []nameCase
	seen := map[string]bool{}
	var rec func(prefix string, depth int)
	rec = func(prefix string, depth int) {
		for _, l := range labelPool {
			n := l
			if prefix != "" {
				n = prefix + "." + l
			}
			if depth == 1 {
				if !seen[n] {
					seen[n] = true
					if strings.Count(n, ".")+1 <= fullSpell {
						out = append(out, nameCase{canon: n, forms: spellings(n)})
					} else {
						out = append(out, nameCase{canon: n, forms: []string{n, alternating(n, 0) + "."}})
					}
				}
				continue
			}
			rec(n, depth-1)
		}
	}
	for d := 1; d <= maxLabels; d++ {
		rec("", d)
	}
	return out
}

// ---------------------------------------------------------------------------------------------
// closed pattern pool (simplest first). Every entry is a prefix, suffix, label-wise or character-wise
// neighbour of another one; the last is outside the alphabet and must be skipped.

var pool = []pat{
	{"full", "a.b"},
	{"suffix", "b"},
	{"suffix", ".b"},
	{"suffix", "a.b"},
	{"suffix", "ab"},
	{"full", "b"},
	{"full", "a-b.b"},
	{"suffix", "a_b"},
	{"suffix", "1.b"},
	{"suffix", "bb"},
	{"suffix", ".a.b"},
	{"keyword", "a"},
	{"keyword", "-b"},
	{"keyword", "b.a"},
	{"regex", `^a\.`},
	{"regex", `b$`},
	{"regex", `^1$|[A-Z]`},
	{"suffix", "a*b"},
}

func subsets(n, maxK int, fn func(idx []int)) {
	var rec func(start int, cur []int)
	rec = func(start int, cur []int) {
		if len(cur) > 0 {
			fn(append([]int(nil), cur...))
		}
		if len(cur) == maxK {
			return
		}
		for i := start; i < n; i++ {
			rec(i+1, append(cur, i))
		}
	}
	rec(0, nil)
}

func poolSet(idx []int) []pat {
	out := make([]pat, len(idx))
	for i, k := range idx {
		out[i] = pool[k]
	}
	return out
}

// ---------------------------------------------------------------------------------------------
// harness

type harness struct {
	r         *vlib.Run
	evals     *atomic.Int64
	pos       *atomic.Int64
	neg       *atomic.Int64
	distinct  *atomic.Int64
	violMu    sync.Mutex
	pending   map[string][]pendingViol
	cfgSeen   sync.Map // config key -> struct{}
	outcomeMu sync.Mutex
	outcomes  map[string]struct{}
	lapStart  time.Time
}

const maxViolPerLeg = 12

type pendingViol struct {
	sig    string
	detail map[string]any
}

func violLess(a, b string) bool {
	if len(a) != len(b) {
		return len(a) < len(b)
	}
	return a < b
}

// violation keeps, per leg, the maxViolPerLeg smallest signatures (shortest first, then lexicographic), so
// that what is reported does not depend on the order in which the workers reach the failing cases.
func (h *harness) violation(leg, sig string, detail map[string]any) {
	sig = "leg=" + leg + " " + sig
	detail["leg"] = leg
	h.violMu.Lock()
	defer h.violMu.Unlock()
	l := h.pending[leg]
	if len(l) == maxViolPerLeg && !violLess(sig, l[len(l)-1].sig) {
		return
	}
	for _, x := range l {
		if x.sig == sig {
			return
		}
	}
	l = append(l, pendingViol{sig, detail})
	sort.Slice(l, func(i, j int) bool { return violLess(l[i].sig, l[j].sig) })
	if len(l) > maxViolPerLeg {
		l = l[:maxViolPerLeg]
	}
	h.pending[leg] = l
}

func (h *harness) flushViolations() {
	h.violMu.Lock()
	defer h.violMu.Unlock()
	legs := make([]string, 0, len(h.pending))
	for leg := range h.pending {
		legs = append(legs, leg)
	}
	sort.Strings(legs)
	for _, leg := range legs {
		for _, v := range h.pending[leg] {
			h.r.Violation(v.sig, v.detail)
		}
	}
	h.pending = map[string][]pendingViol{}
}

// lap records the wall time a leg took (reporting only, never an oracle).
func (h *harness) lap(leg string) {
	now := time.Now()
	h.r.Set("wall_ms_"+leg, int(now.Sub(h.lapStart).Milliseconds()))
	h.lapStart = now
}

func (h *harness) over(leg string) bool {
	if h.r.OverBudget(150*time.Second, 14*time.Minute) {
		h.r.CapHit("time budget reached in leg " + leg)
		return true
	}
	return false
}

// checkConfig builds the real matcher for specs and compares the whole bitmap of every spelling of every
// name with want(nameIndex). wantBuildOK=false is never used: every configuration of the legs must build.
func (h *harness) checkConfig(leg string, specs []setSpec, names []nameCase, want func(ni int) []uint32) {
	key := leg + "|" + specsString(specs)
	_, dup := h.cfgSeen.LoadOrStore(key, struct{}{})
	var m *domain_matcher.AhocorasickSlimtrie
	var err error
	if p, msg := vlib.Try(func() { m, err = build(specs) }); p {
		h.violation(leg, fmt.Sprintf("build-panic sets=%s site=%s", specsString(specs), vlib.PanicSite(msg)),
			map[string]any{"sets": specs, "panic": msg})
		return
	}
	if err != nil {
		h.violation(leg, fmt.Sprintf("build-error sets=%s err=%q", specsString(specs), err.Error()),
			map[string]any{"sets": specs, "error": err.Error(),
				"why": "every configuration of this leg consists of well-formed patterns plus, at most, patterns with a character outside the alphabet, which must be skipped without affecting the rest"})
		return
	}
	nviol := 0
	var cur string
	var sig strings.Builder
	var nEval, nPos, nNeg int64
	p, msg := vlib.Try(func() {
		for ni := range names {
			w := want(ni)
			hit := false
			for _, x := range w {
				if x != 0 {
					hit = true
					break
				}
			}
			if hit {
				nPos++
				sig.WriteByte('1')
			} else {
				nNeg++
				sig.WriteByte('0')
			}
			for _, f := range names[ni].forms {
				cur = f
				nEval++
				got := m.MatchDomainBitmap(f)
				if !sameBitmap(got, w) && nviol < 2 {
					nviol++
					h.violation(leg, fmt.Sprintf("sets=%s name=%q want_bits=%v got_bits=%v", specsString(specs), f, bitsOf(w), bitsOf(got)),
						map[string]any{"sets": specs, "name": f, "want_bits": bitsOf(w), "got_bits": bitsOf(got), "got_words": len(got)})
				}
			}
		}
	})
	h.evals.Add(nEval)
	h.pos.Add(nPos)
	h.neg.Add(nNeg)
	if !dup {
		h.distinct.Add(nPos + nNeg)
	}
	if p {
		h.violation(leg, fmt.Sprintf("match-panic sets=%s name=%q site=%s", specsString(specs), cur, vlib.PanicSite(msg)),
			map[string]any{"sets": specs, "name": cur, "panic": msg})
	}
	if len(names) <= 4096 {
		h.outcomeMu.Lock()
		h.outcomes[sig.String()] = struct{}{}
		h.outcomeMu.Unlock()
	}
}

// truth table of the pool over a name list (reference values, computed once)
func poolTable(names []nameCase) [][]bool {
	tbl := make([][]bool, len(pool))
	for pi, p := range pool {
		tbl[pi] = make([]bool, len(names))
		for ni, n := range names {
			tbl[pi][ni] = refMatch(p, n.canon)
		}
	}
	return tbl
}

type idxSet struct {
	idx  int   // bit index
	pats []int // pool indices
}

func wantFromTable(tbl [][]bool, sets []idxSet) func(ni int) []uint32 {
	bm := make([]uint32, bitmapWords()) // one buffer per configuration; a configuration is checked by one goroutine
	return func(ni int) []uint32 {
		clear(bm)
		for _, s := range sets {
			for _, pi := range s.pats {
				if tbl[pi][ni] {
					bm[s.idx/32] |= 1 << (uint(s.idx) % 32)
					break
				}
			}
		}
		return bm
	}
}

func toSpecs(sets []idxSet) []setSpec {
	out := make([]setSpec, len(sets))
	for i, s := range sets {
		out[i] = setSpec{Idx: s.idx, Pats: poolSet(s.pats)}
	}
	return out
}

var bitIdx = []int{0, 31, 32, 1023}

func main() {
	// The matcher allocates a bitmap and a few strings per query while the live heap of this harness is
	// tiny, which makes the collector cycle every few MB. A small ballast spaces the cycles out; a large one
	// is counter-productive here (first touch of fresh memory is very expensive in this VM).
	ballast := make([]byte, 32<<20)
	defer runtime.KeepAlive(ballast)
	r := vlib.Start("C11", "exploration")
	h := &harness{r: r, evals: r.Counter("evaluations"), pos: r.Counter("positive_expected"), neg: r.Counter("negative_expected"),
		distinct: new(atomic.Int64), outcomes: map[string]struct{}{}, lapStart: time.Now(), pending: map[string][]pendingViol{}}
	if consts.MaxMatchSetLen != 1024 {
		r.Violation("harness: consts.MaxMatchSetLen != 1024", consts.MaxMatchSetLen)
		r.Finish()
	}
	if r.ReplayArg != "" {
		replay(r, h)
		return
	}
	K, L, scaleN, scaleBases, trieK := 3, 3, 50000, 200, 4
	if r.Thorough() {
		K, L, scaleN, scaleBases, trieK = 4, 4, 200000, 600, 5
	}
	r.Set("K", K)
	r.Set("name_labels_max", L)
	r.Rule(fmt.Sprintf("single: every subset of size<=%d of an 18-pattern closed pool (full/suffix/leading-dot suffix/keyword/regex, mutual prefixes and suffixes, shared labels, digits, '_' and '-', one out-of-alphabet pattern) x bit index in {0,31,32,1023} x every name of <=%d labels over {a,b,ab,bb,a-b,a_b,1} in 4 letter-case spellings x with/without trailing dot (names of 4 labels: lower case without dot and mixed case with dot only); multi: every ordered pair of subsets of size<=2 and every triple of singletons at distinct indices (names of <=3 labels; quick: one index assignment, 2 spellings per name; thorough: 4 resp. 2 index assignments, all spellings for <=2 labels and 2 spellings for 3 labels); allidx: 4 sets rotated over all 1024 indices and one matcher with all 1024 indices populated; badchar: 10 out-of-alphabet bytes x 3 positions x {full,suffix,keyword} alone and beside every pool pattern; scale: %d generated patterns in one matcher, every pattern, its sub-/non-sub-names and every name within edit distance 1 of %d evenly spaced bases; trie: every key set of size<=%d over {x,y}^<=4 for 3 two-letter alphabets x every word of length<=6; bitlist: unit widths 1..31. A case is (configuration, canonical name) resp. (key set, word); distinct_nontrivial counts cases of pairwise distinct configurations (checked by a map over configuration keys) x pairwise distinct names (de-duplicated at generation), evaluations counts every spelling queried", K, L, scaleN, scaleBases, trieK))

	names := namesUpTo(L, 3)
	names3 := names
	if L > 3 {
		names3 = namesUpTo(3, 3)
	}
	names2 := namesUpTo(2, 2)
	nforms := 0
	for _, n := range names {
		nforms += len(n.forms)
	}
	r.Set("names", len(names))
	r.Set("name_spellings", nforms)
	tbl := poolTable(names)
	tbl3 := poolTable(names3)
	tbl2 := poolTable(names2)

	var subs [][]int
	subsets(len(pool), K, func(idx []int) { subs = append(subs, idx) })
	r.Set("pattern_sets", len(subs))

	// ---- leg single
	r.ParallelFor(len(subs)*len(bitIdx), func(i int) {
		if h.over("single") {
			return
		}
		s := []idxSet{{bitIdx[i%len(bitIdx)], subs[i/len(bitIdx)]}}
		h.checkConfig("single", toSpecs(s), names, wantFromTable(tbl, s))
		if i%4099 == 7 {
			r.Sample(map[string]any{"leg": "single", "sets": specsString(toSpecs(s)), "names": len(names), "first_names": []string{names[0].forms[1], names[9].forms[3], names[len(names)-1].forms[len(names[len(names)-1].forms)-1]}})
		}
	})

	h.lap("single")
	// ---- leg allidx
	r.ParallelFor(1024, func(i int) {
		if h.over("allidx") {
			return
		}
		s := []idxSet{{i, []int{1}}, {(i + 1) % 1024, []int{0}}, {(i + 33) % 1024, []int{12}}, {(i + 511) % 1024, []int{14}}}
		h.checkConfig("allidx", toSpecs(s), names2, wantFromTable(tbl2, s))
	})
	{
		var s []idxSet
		for i := 0; i < 1024; i++ {
			s = append(s, idxSet{i, subs[(i*37)%len(subs)]})
		}
		h.checkConfig("fullhouse", toSpecs(s), names3, wantFromTable(tbl3, s))
	}

	h.lap("allidx")
	// ---- leg badchar
	legBadChar(h, names3)
	h.lap("badchar")

	// ---- marker characters (informational, see Assume below)
	legMarkers(h, names2)

	// ---- layers below the matcher
	legBitlist(h)
	legTrie(h, trieK)
	h.lap("trie_bitlist")

	// ---- leg scale
	legScale(h, scaleN, scaleBases)
	h.lap("scale")

	// ---- leg multi (independence of sets)
	namesM := namesUpTo(3, 0)
	if r.Thorough() {
		namesM = namesUpTo(3, 2)
	}
	idxTriples := [][3]int{{0, 31, 32}, {1023, 32, 31}}
	perTriple := 1
	if r.Thorough() {
		perTriple = 2
	}
	np := len(pool)
	r.ParallelFor(np*np*np*perTriple, func(i int) {
		if h.over("multi3") {
			return
		}
		c := i / perTriple
		it := idxTriples[i%perTriple]
		s := []idxSet{{it[0], []int{c / (np * np)}}, {it[1], []int{(c / np) % np}}, {it[2], []int{c % np}}}
		h.checkConfig("multi3", toSpecs(s), namesM, wantFromTable(tbl3, s))
	})
	h.lap("multi3")
	var small [][]int
	subsets(len(pool), 2, func(idx []int) { small = append(small, idx) })
	idxPairs := [][2]int{{0, 31}, {31, 32}, {32, 1023}, {1023, 0}}
	nPairCfg := len(small) * len(small)
	perPair := 1
	if r.Thorough() {
		perPair = len(idxPairs)
	}
	r.Set("multi_pair_configs", nPairCfg*perPair)
	r.ParallelFor(nPairCfg*perPair, func(i int) {
		if h.over("multi") {
			return
		}
		c := i / perPair
		a, b := c/len(small), c%len(small)
		ip := idxPairs[(a+b+i%perPair)%len(idxPairs)]
		s := []idxSet{{ip[0], small[a]}, {ip[1], small[b]}}
		h.checkConfig("multi", toSpecs(s), namesM, wantFromTable(tbl3, s))
		if i == 12345 {
			r.Sample(map[string]any{"leg": "multi", "sets": specsString(toSpecs(s))})
		}
	})

	h.lap("multi")
	r.Set("distinct_nontrivial", int(h.distinct.Load()))
	r.Set("distinct_outcome_vectors", len(h.outcomes))
	h.flushViolations()
	r.Assume("patterns are written in lower case (the statement quantifies letter case over names only; no caller normalises patterns, an upper-case letter in a full/suffix pattern is treated as out-of-alphabet and the pattern is skipped)")
	r.Assume("the marker bytes '^' and '$' are not used inside full/suffix/keyword patterns of the deciding legs: the keyword automaton sees \"^name$\", so keyword:^a / keyword:b$ act as anchors (counted in marker_divergences, not a violation)")
	r.Assume("names have no empty label; a name with a trailing dot denotes the same name without it (one dot), letter case of a name is irrelevant")
	r.Assume("several AddSet calls on one bit index (one per kind) form one pattern set, as the DNS and routing builders may produce")
	r.Finish()
}

// ---------------------------------------------------------------------------------------------
// badchar: a pattern with a byte outside the alphabet must be skipped without affecting the rest

var badBytes = []string{"*", "!", " ", "/", ":", "%", "@", "~", "\x00", "\xc3\xa9"}

func legBadChar(h *harness, names []nameCase) {
	type cfg struct {
		kind  string
		specs []setSpec
	}
	var cfgs []cfg
	for _, kind := range []string{"full", "suffix", "keyword"} {
		for _, c := range badBytes {
			for pos, s := range []string{c + "a.b", "a" + c + ".b", "a.b" + c} {
				_ = pos
				bad := pat{kind, s}
				// alone (an empty set after skipping), with an untouched neighbour set
				cfgs = append(cfgs, cfg{kind, []setSpec{{Idx: 31, Pats: []pat{bad}}, {Idx: 32, Pats: []pat{{"suffix", "b"}}}}})
				// beside every well-formed pool pattern in the same set
				for _, g := range pool[:len(pool)-1] {
					cfgs = append(cfgs, cfg{kind, []setSpec{{Idx: 0, Pats: []pat{bad, g}}}})
					cfgs = append(cfgs, cfg{kind, []setSpec{{Idx: 1023, Pats: []pat{g, bad}}, {Idx: 0, Pats: []pat{{"full", "a.b"}}}}})
				}
			}
		}
	}
	h.r.Set("badchar_configs", len(cfgs))
	h.r.ParallelFor(len(cfgs), func(i int) {
		if h.over("badchar") {
			return
		}
		specs := cfgs[i].specs
		leg := "badchar"
		if cfgs[i].kind == "keyword" {
			leg = "badchar-keyword"
		}
		h.checkConfig(leg, specs, names, func(ni int) []uint32 { return refBitmap(specs, names[ni].canon) })
		if i == 100 {
			h.r.Sample(map[string]any{"leg": "badchar", "sets": specsString(specs)})
		}
	})
}

// legMarkers: '^' and '$' are outside the name alphabet, so by the letter of the statement a pattern
// containing them describes no name. The matcher uses both as internal markers. Counted, not decided.
func legMarkers(h *harness, names []nameCase) {
	div := h.r.Counter("marker_divergences")
	var examples []string
	var mu sync.Mutex
	var ps []pat
	for _, kind := range []string{"full", "suffix", "keyword"} {
		for _, s := range []string{"^a", "^a.b", "b$", "a.b$", "a^", "$b", "^", "$"} {
			ps = append(ps, pat{kind, s})
		}
	}
	for _, p := range ps {
		specs := []setSpec{{Idx: 5, Pats: []pat{p}}, {Idx: 6, Pats: []pat{{"suffix", "b"}}}}
		var m *domain_matcher.AhocorasickSlimtrie
		var err error
		if pn, _ := vlib.Try(func() { m, err = build(specs) }); pn || err != nil {
			div.Add(1)
			mu.Lock()
			examples = append(examples, fmt.Sprintf("%s: build fails (%v)", p, err))
			mu.Unlock()
			continue
		}
		first := true
		for _, n := range names {
			w := refBitmap(specs, n.canon)
			var got []uint32
			if pn, _ := vlib.Try(func() { got = m.MatchDomainBitmap(n.canon) }); pn || !sameBitmap(got, w) {
				div.Add(1)
				if first {
					first = false
					mu.Lock()
					examples = append(examples, fmt.Sprintf("%s on %q: statement %v, matcher %v", p, n.canon, bitsOf(w), bitsOf(got)))
					mu.Unlock()
				}
			}
		}
	}
	sort.Strings(examples)
	h.r.Set("marker_divergence_examples", examples)
}

// ---------------------------------------------------------------------------------------------
// scale

type lcg uint64

func (l *lcg) next() uint32 {
	*l = *l*6364136223846793005 + 1442695040888963407
	return uint32(*l >> 33)
}

const labChars = "abcdefghijklmnopqrstuvwxyz0123456789-_"
const nameChars = labChars + "."

type corpus struct {
	pats      []pat // unique
	witnesses []string
}

func genCorpus(n int) corpus {
	g := lcg(0x9E3779B97F4A7C15)
	tlds := []string{"com", "net", "org", "cn", "io", "co.uk", "com.cn", "b", "xn--p1ai", "1", "dev-1", "a_b", "app"}
	label := func(minL, maxL int) string {
		l := minL + int(g.next())%(maxL-minL+1)
		b := make([]byte, l)
		for i := range b {
			b[i] = labChars[int(g.next())%len(labChars)]
		}
		return string(b)
	}
	var c corpus
	seen := map[pat]bool{}
	add := func(p pat) {
		if !seen[p] {
			seen[p] = true
			c.pats = append(c.pats, p)
		}
	}
	for _, s := range []string{`^[a-c]{3}\.dev-1$`, `(^|\.)x[0-9]+\.1$`, `_tcp\.`} {
		add(pat{"regex", s})
	}
	c.witnesses = append(c.witnesses, "abc.dev-1", "abcd.dev-1", "x42.1", "y.x7.1", "ax7.1", "a._tcp.b", "_tcpx")
	prev := ""
	for i := 0; len(c.pats) < n; i++ {
		var name string
		switch {
		case i%9 == 4 && prev != "":
			d := strings.IndexByte(prev, '.')
			name = prev[:d] + "1" + prev[d:]
		case i%11 == 6 && prev != "":
			name = label(1, 3) + "." + prev
		case i%13 == 7 && prev != "":
			name = "1" + prev
		default:
			name = label(1, 10) + "." + tlds[int(g.next())%len(tlds)]
		}
		prev = name
		switch {
		case i%50 == 0:
			kw := label(4, 7)
			add(pat{"keyword", kw})
			c.witnesses = append(c.witnesses, kw, "a"+kw+"b.com", kw[1:]+".com", "x."+kw)
		case i%2500 == 1:
			lb := label(3, 6)
			d := strings.IndexByte(name, '.')
			add(pat{"regex", "^" + regexp.QuoteMeta(lb) + `[0-9]*\.` + regexp.QuoteMeta(name[d+1:]) + "$"})
			c.witnesses = append(c.witnesses, lb+name[d:], lb+"42"+name[d:], "x"+lb+name[d:], lb+"4a"+name[d:])
		case i%14 == 3:
			add(pat{"full", name})
		case i%23 == 5:
			add(pat{"suffix", "." + name})
		default:
			add(pat{"suffix", name})
		}
	}
	return c
}

const (
	scSuffix, scFull, scKeyword, scRegex, scAll = 5, 37, 70, 1000, 64
)

func scaleSpecs(c corpus) []setSpec {
	by := map[string][]pat{}
	for _, p := range c.pats {
		by[p.Kind] = append(by[p.Kind], p)
	}
	return []setSpec{{scSuffix, by["suffix"]}, {scFull, by["full"]}, {scKeyword, by["keyword"]}, {scRegex, by["regex"]}, {scAll, c.pats}}
}

// scaleRef: the statement, evaluated with hash lookups instead of a scan over 10^5 patterns:
// "cn equals p or ends with '.'+p" <=> p == cn or p == cn[i+1:] for a dot at position i.
type scaleRef struct {
	plain, dotted, full map[string]bool
	keywords            []string
	regexps             []*regexp.Regexp
}

func newScaleRef(c corpus) *scaleRef {
	s := &scaleRef{plain: map[string]bool{}, dotted: map[string]bool{}, full: map[string]bool{}}
	for _, p := range c.pats {
		switch p.Kind {
		case "suffix":
			if strings.HasPrefix(p.S, ".") {
				s.dotted[p.S[1:]] = true
			} else {
				s.plain[p.S] = true
			}
		case "full":
			s.full[p.S] = true
		case "keyword":
			s.keywords = append(s.keywords, p.S)
		case "regex":
			s.regexps = append(s.regexps, regexp.MustCompile(p.S))
		}
	}
	return s
}

func (s *scaleRef) bitmap(cn string) []uint32 {
	bm := make([]uint32, bitmapWords())
	set := func(i int) { bm[i/32] |= 1 << (uint(i) % 32) }
	suf := s.plain[cn]
	for i := 0; i < len(cn) && !suf; i++ {
		if cn[i] == '.' {
			rest := cn[i+1:]
			suf = s.plain[rest] || s.dotted[rest]
		}
	}
	full := s.full[cn]
	kw := false
	for _, k := range s.keywords {
		if strings.Contains(cn, k) {
			kw = true
			break
		}
	}
	re := false
	for _, x := range s.regexps {
		if x.MatchString(cn) {
			re = true
			break
		}
	}
	if suf {
		set(scSuffix)
	}
	if full {
		set(scFull)
	}
	if kw {
		set(scKeyword)
	}
	if re {
		set(scRegex)
	}
	if suf || full || kw || re {
		set(scAll)
	}
	return bm
}

func hostShaped(s string) bool {
	return s != "" && s[0] != '.' && s[len(s)-1] != '.' && !strings.Contains(s, "..")
}

func edit1(s string, fn func(string)) {
	b := []byte(s)
	for i := 0; i < len(b); i++ { // substitutions
		for j := 0; j < len(nameChars); j++ {
			if nameChars[j] != b[i] {
				fn(string(b[:i]) + string(nameChars[j]) + string(b[i+1:]))
			}
		}
	}
	for i := 0; i <= len(b); i++ { // insertions
		for j := 0; j < len(nameChars); j++ {
			fn(string(b[:i]) + string(nameChars[j]) + string(b[i:]))
		}
	}
	for i := 0; i < len(b); i++ { // deletions
		fn(string(b[:i]) + string(b[i+1:]))
	}
}

func legScale(h *harness, n, nBases int) {
	if h.over("scale") {
		return
	}
	c := genCorpus(n)
	specs := scaleSpecs(c)
	h.r.Set("scale_patterns", len(c.pats))
	var m *domain_matcher.AhocorasickSlimtrie
	var err error
	if p, msg := vlib.Try(func() { m, err = build(specs) }); p {
		h.violation("scale", fmt.Sprintf("build-panic n=%d site=%s", n, vlib.PanicSite(msg)), map[string]any{"scale_n": n, "panic": msg})
		return
	}
	if err != nil {
		h.violation("scale", fmt.Sprintf("build-error n=%d err=%q", n, err.Error()), map[string]any{"scale_n": n, "error": err.Error()})
		return
	}
	ref := newScaleRef(c)
	// queries (canonical, de-duplicated, generation order)
	seen := map[string]bool{}
	var qs []string
	add := func(s string) {
		if hostShaped(s) && !seen[s] {
			seen[s] = true
			qs = append(qs, s)
		}
	}
	baseOf := func(p pat) string {
		switch p.Kind {
		case "suffix", "full":
			return strings.TrimPrefix(p.S, ".")
		case "keyword":
			return "a" + p.S + ".com"
		}
		return ""
	}
	for _, p := range c.pats {
		b := baseOf(p)
		if b == "" {
			continue
		}
		add(b)
		add("x." + b)
		add("x" + b)
		add(b[1:])
	}
	for _, w := range c.witnesses {
		add(w)
	}
	nb := 0
	for k := 0; k < nBases; k++ {
		b := baseOf(c.pats[k*len(c.pats)/nBases])
		if b == "" {
			b = c.witnesses[k%len(c.witnesses)]
		}
		nb++
		edit1(b, add)
	}
	h.r.Set("scale_bases", nb)
	h.r.Set("scale_queries", len(qs))
	h.r.Sample(map[string]any{"leg": "scale", "patterns": []string{c.pats[3].String(), c.pats[4].String(), c.pats[len(c.pats)/2].String(), c.pats[len(c.pats)-1].String()},
		"queries": []string{qs[0], qs[1], qs[len(qs)/2], qs[len(qs)-1]}})
	perBit := [5]*atomic.Int64{h.r.Counter("scale_pos_suffix"), h.r.Counter("scale_pos_full"), h.r.Counter("scale_pos_keyword"), h.r.Counter("scale_pos_regex"), h.r.Counter("scale_neg_all")}
	const chunk = 512
	nChunks := (len(qs) + chunk - 1) / chunk
	h.r.ParallelFor(nChunks, func(ci int) {
		if h.over("scale") {
			return
		}
		hi := min((ci+1)*chunk, len(qs))
		for qi := ci * chunk; qi < hi; qi++ {
			cn := qs[qi]
			w := ref.bitmap(cn)
			for k, b := range []int{scSuffix, scFull, scKeyword, scRegex} {
				if w[b/32]&(1<<(uint(b)%32)) != 0 {
					perBit[k].Add(1)
				}
			}
			if w[scAll/32]&(1<<(uint(scAll)%32)) != 0 {
				h.pos.Add(1)
			} else {
				h.neg.Add(1)
				perBit[4].Add(1)
			}
			h.distinct.Add(1)
			forms := []string{cn}
			if qi%5 == 0 {
				forms = spellings(cn)
			}
			for _, f := range forms {
				h.evals.Add(1)
				var got []uint32
				if p, msg := vlib.Try(func() { got = m.MatchDomainBitmap(f) }); p {
					h.violation("scale", fmt.Sprintf("match-panic n=%d name=%q site=%s", n, f, vlib.PanicSite(msg)), map[string]any{"scale_n": n, "name": f, "panic": msg})
					continue
				}
				if !sameBitmap(got, w) {
					h.violation("scale", fmt.Sprintf("n=%d (suffix@%d full@%d keyword@%d regex@%d all@%d) name=%q want_bits=%v got_bits=%v", n, scSuffix, scFull, scKeyword, scRegex, scAll, f, bitsOf(w), bitsOf(got)),
						map[string]any{"scale_n": n, "name": f, "want_bits": bitsOf(w), "got_bits": bitsOf(got)})
				}
			}
		}
	})
}

// ---------------------------------------------------------------------------------------------
// trie layer

func stringsOver(a, b byte, maxLen int) []string {
	out := []string{""}
	for l, from := 1, 0; l <= maxLen; l++ {
		to := len(out)
		for _, s := range out[from:to] {
			out = append(out, s+string(a), s+string(b))
		}
		from = to
	}
	return out
}

func legTrie(h *harness, maxK int) {
	type alpha struct {
		name  string
		chars *trie.ValidChars
		a, b  byte
	}
	alphas := []alpha{
		{"cidr{0,1}", trie.ValidCidrChars, '0', '1'},
		{"domain{0,_}", domain_matcher.ValidDomainChars, '0', '_'},
		{"domain{.,^}", domain_matcher.ValidDomainChars, '.', '^'},
	}
	trieSets := h.r.Counter("trie_key_sets")
	triePos := h.r.Counter("trie_positive_expected")
	for _, al := range alphas {
		keysAll := stringsOver(al.a, al.b, 4)
		words := stringsOver(al.a, al.b, 6)
		for _, w := range stringsOver(al.a, al.b, 3) {
			words = append(words, w+"#", w+"#"+string(al.a)) // a byte outside the alphabet inside the word
		}
		var sets [][]int
		subsets(len(keysAll), maxK, func(idx []int) { sets = append(sets, idx) })
		h.r.ParallelFor(len(sets), func(i int) {
			if i%256 == 0 && h.over("trie") {
				return
			}
			keys := make([]string, 0, len(sets[i])+1)
			for j := len(sets[i]) - 1; j >= 0; j-- { // unsorted on purpose
				keys = append(keys, keysAll[sets[i][j]])
			}
			if i%3 == 0 {
				keys = append(keys, keys[0]) // duplicate
			}
			orig := append([]string(nil), keys...)
			var t *trie.Trie
			var err error
			if p, msg := vlib.Try(func() { t, err = trie.NewTrie(keys, al.chars) }); p || err != nil {
				h.violation("trie", fmt.Sprintf("build alphabet=%s keys=%q err=%v panic=%v", al.name, orig, err, p), map[string]any{"alphabet": al.name, "keys": orig, "panic": msg})
				return
			}
			trieSets.Add(1)
			nviol := 0
			for _, w := range words {
				want := false
				for _, k := range orig {
					if strings.HasPrefix(w, k) {
						want = true
						break
					}
				}
				if want {
					triePos.Add(1)
				}
				h.evals.Add(1)
				h.distinct.Add(1)
				var got bool
				if p, msg := vlib.Try(func() { got = t.HasPrefix(w) }); p {
					h.violation("trie", fmt.Sprintf("panic alphabet=%s keys=%q word=%q site=%s", al.name, orig, w, vlib.PanicSite(msg)), map[string]any{"alphabet": al.name, "keys": orig, "word": w, "panic": msg})
					return
				}
				if got != want && nviol < 2 {
					nviol++
					h.violation("trie", fmt.Sprintf("alphabet=%s keys=%q word=%q want=%v got=%v", al.name, orig, w, want, got), map[string]any{"alphabet": al.name, "keys": orig, "word": w, "want": want, "got": got})
				}
			}
		})
	}
	h.r.Sample(map[string]any{"leg": "trie", "alphabet": "cidr{0,1}", "keys": []string{"0", "01", "0110"}, "words": []string{"", "011", "011010", "01#0"}})
}

// ---------------------------------------------------------------------------------------------
// bitlist layer: the trie keeps labels (6-bit), rank and select samples (width = bit length of the largest
// value, <= 31 as they are int32) in CompactBitList by Append and reads them by Get.

func legBitlist(h *harness) {
	cells := h.r.Counter("bitlist_cells")
	h.r.ParallelFor(31, func(wi int) {
		width := wi + 1
		max := uint64(1)<<uint(width) - 1
		var vals []uint64
		for k := 0; k < 211; k++ {
			var v uint64
			switch k % 8 {
			case 0:
				v = 0
			case 1:
				v = max
			case 2:
				v = 1
			case 3:
				v = max - 1
			case 4:
				v = 0xAAAAAAAAAAAAAAAA & max
			case 5:
				v = 0x5555555555555555 & max
			case 6:
				v = uint64(k) & max
			case 7:
				v = (uint64(k) * 2654435761) & max
			}
			vals = append(vals, v)
		}
		var bl *bitlist.CompactBitList
		if p, msg := vlib.Try(func() {
			bl = bitlist.NewCompactBitList(width)
			for _, v := range vals {
				bl.Append(v)
			}
		}); p {
			h.violation("bitlist", fmt.Sprintf("append-panic width=%d site=%s", width, vlib.PanicSite(msg)), map[string]any{"width": width, "panic": msg})
			return
		}
		for pass := 0; pass < 2; pass++ {
			nviol := 0
			for i, v := range vals {
				h.evals.Add(1)
				cells.Add(1)
				var got uint64
				if p, msg := vlib.Try(func() { got = bl.Get(i) }); p {
					h.violation("bitlist", fmt.Sprintf("get-panic width=%d i=%d site=%s", width, i, vlib.PanicSite(msg)), map[string]any{"width": width, "i": i, "panic": msg})
					return
				}
				if got != v && nviol < 2 {
					nviol++
					h.violation("bitlist", fmt.Sprintf("width=%d i=%d tightened=%v appended=%#x got=%#x", width, i, pass == 1, v, got), map[string]any{"width": width, "i": i, "want": v, "got": got})
				}
			}
			bl.Tighten()
		}
		h.distinct.Add(1)
	})
}

// ---------------------------------------------------------------------------------------------
// replay of one recorded violation

func replay(r *vlib.Run, h *harness) {
	b, err := os.ReadFile(r.ReplayArg)
	if err != nil {
		fmt.Fprintln(os.Stderr, "replay:", err)
		os.Exit(2)
	}
	var f struct {
		Signature string `json:"signature"`
		Detail    struct {
			Leg      string    `json:"leg"`
			Sets     []setSpec `json:"sets"`
			Name     string    `json:"name"`
			ScaleN   int       `json:"scale_n"`
			Alphabet string    `json:"alphabet"`
			Keys     []string  `json:"keys"`
			Word     string    `json:"word"`
		} `json:"detail"`
	}
	if err := json.Unmarshal(b, &f); err != nil {
		fmt.Fprintln(os.Stderr, "replay:", err)
		os.Exit(2)
	}
	d := f.Detail
	switch {
	case d.Leg == "trie":
		chars := trie.ValidCidrChars
		if strings.HasPrefix(d.Alphabet, "domain") {
			chars = domain_matcher.ValidDomainChars
		}
		want := false
		for _, k := range d.Keys {
			want = want || strings.HasPrefix(d.Word, k)
		}
		var got bool
		p, msg := vlib.Try(func() {
			t, err := trie.NewTrie(append([]string(nil), d.Keys...), chars)
			if err != nil {
				panic(err)
			}
			got = t.HasPrefix(d.Word)
		})
		fmt.Printf("replay trie keys=%q word=%q want=%v got=%v panic=%v\n", d.Keys, d.Word, want, got, p)
		h.evals.Add(1)
		if p || got != want {
			r.Violation(f.Signature, map[string]any{"replayed": true, "panic": msg})
		}
	case d.Leg == "bitlist":
		fmt.Println("replay: bitlist cases are re-run as a whole")
		legBitlist(h)
	default:
		specs := d.Sets
		if d.ScaleN > 0 {
			specs = scaleSpecs(genCorpus(d.ScaleN))
		}
		var got []uint32
		var berr error
		p, msg := vlib.Try(func() {
			m, err := build(specs)
			if err != nil {
				berr = err
				return
			}
			got = m.MatchDomainBitmap(d.Name)
		})
		want := refBitmap(specs, canon(d.Name))
		h.evals.Add(1)
		fmt.Printf("replay leg=%s name=%q want_bits=%v got_bits=%v build_err=%v panic=%v\n", d.Leg, d.Name, bitsOf(want), bitsOf(got), berr, p)
		if p || berr != nil || !sameBitmap(got, want) {
			r.Violation(f.Signature, map[string]any{"replayed": true, "panic": msg, "build_err": fmt.Sprint(berr)})
		}
	}
	// a replay decides one case and leaves the evidence file of the last full run untouched
	h.flushViolations()
	if r.ViolationCount() > 0 {
		fmt.Printf("VIOLATION property=C11 replay=%s\n  signature: %s\n", r.ReplayArg, f.Signature)
		os.Exit(1)
	}
	fmt.Println("replay: case holds")
	os.Exit(0)
}
