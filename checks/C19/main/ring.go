package main

// Leg "ring": the lpm_array_map key. The kernel finds the trie of a mac()/dip()/sip() rule with
// bpf_map_lookup_elem(&lpm_array_map, &match_set->index); the control plane files trie #i of a load under
// lpm_array_map[(allocStartIdx+i) % MaxMatchSetLen] (buildRoutingKernspace) and must write that very key into
// match_set.index of every LPM-backed rule (rewriteKernRulesWithRingLpmIndex). allocStartIdx is the process-wide ring
// cursor: 0 on the first load, non-zero from the first reload on.
//
// Enumerated completely: programs {mac alone, dip alone, sip alone, mixed orders, AND of mac and dip} x ring cursors
// {0, 1, 5, MaxMatchSetLen/2, wrap-around positions near MaxMatchSetLen}. Per (program, cursor):
//   static : for every rule whose C match type is LPM-backed, the index the KERNEL reads (decoded with the C layout of
//            struct match_set from the production rule bytes) == the slot the trie of that set is installed at
//   dynamic: maps filled the way buildRoutingKernspace does (production rule bytes, production LPM key bytes, slots by
//            the formula above), then the real C route() on MAC x destination x source probes == the reference decision
//            (first rule whose conditions hold, by plain MAC equality / prefix containment) == userspace Route.
// The only transcribed production line is the slot formula of buildRoutingKernspace (it needs real BPF objects).

import (
	"encoding/binary"
	"fmt"
	"net/netip"
	"strings"

	"github.com/daeuniverse/dae/common/consts"
	"github.com/daeuniverse/dae/component/routing"
	"github.com/daeuniverse/dae/control"
	"github.com/daeuniverse/dae/verifx/vkern"
)

type ringCond struct {
	fn    string // mac | dip | sip
	items []string
}

type ringRule struct {
	conds []ringCond
	group string
}

type ringProg struct {
	name  string
	rules []ringRule
}

const (
	macA = "02:42:ac:11:00:01"
	macB = "02:42:ac:11:00:02"
	macC = "02:42:ac:11:00:09"
	macZ = "0e:00:00:00:00:7f" // in no set
)

var ringProgs = []ringProg{
	{"mac-alone", []ringRule{{[]ringCond{{"mac", []string{macA, macB}}}, "g1"}}},
	{"dip-alone", []ringRule{{[]ringCond{{"dip", []string{"10.1.2.0/24", "2001:db8::/64"}}}, "g1"}}},
	{"sip-alone", []ringRule{{[]ringCond{{"sip", []string{"192.168.7.0/24", "2001:db8:7::/64"}}}, "g2"}}},
	{"mixed-ip-first", []ringRule{
		{[]ringCond{{"dip", []string{"10.1.2.0/24"}}}, "g1"},
		{[]ringCond{{"mac", []string{macA}}}, "g2"},
		{[]ringCond{{"sip", []string{"192.168.7.0/24", "2001:db8:7::/64"}}}, "g3"},
		{[]ringCond{{"mac", []string{macC}}}, "g1"},
		{[]ringCond{{"dip", []string{"2001:db8::/64"}}}, "g2"},
	}},
	{"mixed-mac-first", []ringRule{
		{[]ringCond{{"mac", []string{macB}}}, "g3"},
		{[]ringCond{{"sip", []string{"192.168.7.0/24"}}}, "g2"},
		{[]ringCond{{"dip", []string{"10.1.2.0/24", "2001:db8::/64"}}}, "g1"},
	}},
	{"mac-and-dip", []ringRule{
		{[]ringCond{{"mac", []string{macA}}, {"dip", []string{"10.1.2.0/24"}}}, "g1"},
		{[]ringCond{{"mac", []string{macA, macC}}}, "g2"},
	}},
	{"two-mac-sets", []ringRule{
		{[]ringCond{{"mac", []string{macA}}}, "g1"},
		{[]ringCond{{"mac", []string{macC}}}, "g2"},
	}},
}

func (p ringProg) text() string {
	var sb strings.Builder
	sb.WriteString("global{}\ngroup{ g1{policy:min} g2{policy:min} g3{policy:min} }\nrouting{\n")
	for _, r := range p.rules {
		var cs []string
		for _, c := range r.conds {
			var q []string
			for _, it := range c.items {
				q = append(q, "'"+it+"'")
			}
			cs = append(cs, c.fn+"("+strings.Join(q, ", ")+")")
		}
		sb.WriteString(strings.Join(cs, " && ") + " -> " + r.group + "\n")
	}
	sb.WriteString("fallback: direct\n}\n")
	return sb.String()
}

func parseMAC(s string) (m [6]byte) {
	fmt.Sscanf(s, "%02x:%02x:%02x:%02x:%02x:%02x", &m[0], &m[1], &m[2], &m[3], &m[4], &m[5])
	return
}

// refDecide: the statement's meaning of the program — first rule all of whose conditions hold.
func (p ringProg) refDecide(mac string, src, dst netip.Addr) string {
	for _, r := range p.rules {
		all := true
		for _, c := range r.conds {
			hit := false
			for _, it := range c.items {
				switch c.fn {
				case "mac":
					hit = hit || it == mac
				case "dip":
					hit = hit || netip.MustParsePrefix(it).Contains(dst)
				case "sip":
					hit = hit || netip.MustParsePrefix(it).Contains(src)
				}
			}
			all = all && hit
		}
		if all {
			return r.group
		}
	}
	return "direct"
}

func (c *checker) legRing(k *vkern.K) {
	nviol := 0
	report := func(sig string, d any) {
		if nviol < 8 {
			c.viol("ring", sig, d)
		}
		nviol++
	}
	ms := c.lay.Record("struct match_set")
	mt := c.lay.Enum("MatchType")
	if ms == nil || mt == nil {
		c.broken("struct match_set / enum MatchType missing from the C layout")
	}
	var offType, offIndex = -1, -1
	var walk func(fs []*vkern.LField)
	walk = func(fs []*vkern.LField) {
		for _, f := range fs {
			if f.Anon || len(f.Fields) > 0 {
				walk(f.Fields)
				continue
			}
			switch f.Name {
			case "type":
				offType = f.Offset
			case "index":
				if f.Size == 4 {
					offIndex = f.Offset
				}
			}
		}
	}
	walk(ms.Fields)
	if offType < 0 || offIndex < 0 {
		c.broken("struct match_set has no `type` / 4-byte `index` member any more (C layout changed; update the ring leg)")
	}
	// the match types for which route_eval_match() goes through lpm_array_map[match_set->index]
	lpmTypes := map[uint8]string{}
	for _, n := range []string{"MatchType_Mac", "MatchType_IpSet", "MatchType_SourceIpSet"} {
		v, ok := mt.Values[n]
		if !ok {
			c.broken("C enum MatchType lacks %s", n)
		}
		lpmTypes[uint8(v)] = n
	}
	max := uint32(consts.MaxMatchSetLen)
	groups := []string{"g1", "g2", "g3"}
	macs := []string{macA, macB, macC, macZ}
	type ipPair struct{ src, dst string }
	ips := []ipPair{
		{"192.168.7.9", "10.1.2.3"}, {"192.168.8.9", "10.1.2.3"}, {"192.168.7.9", "10.1.3.3"}, {"192.168.8.9", "10.1.3.3"},
		{"2001:db8:7::9", "2001:db8::5"}, {"2001:db8:8::9", "2001:db8::5"}, {"2001:db8:7::9", "2001:db9::5"}, {"2001:db8:8::9", "2001:db9::5"},
	}
	savedCursor := control.VerifLpmRingGet()
	defer control.VerifLpmRingSet(savedCursor)
	for _, p := range ringProgs {
		v, err := control.VerifCompileRouting(p.text(), groups, []routing.RulesOptimizer{&routing.AliasOptimizer{}})
		if err != nil {
			report(fmt.Sprintf("ring: program %s does not compile: %v", p.name, err), p.text())
			continue
		}
		count := v.LpmCount()
		local := v.KernRuleBytes()
		sets := v.LpmSets()
		cursors := []uint32{0, 1, 5, max / 2, max - 1, max - 2}
		if count > 0 && count < max {
			cursors = append(cursors, max-count, max-count+1)
		}
		seenCur := map[uint32]bool{}
		for _, cur := range cursors {
			if seenCur[cur] {
				continue
			}
			seenCur[cur] = true
			control.VerifLpmRingSet(cur)
			start, err := control.VerifReserveLpmRingSlots(count)
			id := fmt.Sprintf("%s cursor=%d", p.name, cur)
			c.item("ring:reserve:"+id, fmt.Sprint(start))
			if err != nil || start != cur || control.VerifLpmRingGet() != (cur+count)%max {
				report(fmt.Sprintf("ring: reserveLpmRingSlots(%d) at cursor %d returned start=%d err=%v and left the cursor at %d; a load must get [cursor, cursor+count) mod %d", count, cur, start, err, control.VerifLpmRingGet(), max), nil)
				continue
			}
			kern, err := v.KernRuleBytesAtRing(start)
			if err != nil || len(kern) != len(local) {
				report(fmt.Sprintf("ring: rewriteKernRulesWithRingLpmIndex fails for %s: %v", id, err), nil)
				continue
			}
			// slot of set i, as buildRoutingKernspace installs it
			slot := func(i uint32) uint32 { return (start + i) % max }
			// ---- static: kernel's key (match_set->index of the rule bytes) == control plane's key (slot of that set)
			staticOK := true
			for ri := range kern {
				typ := kern[ri][offType]
				tn, isLpm := lpmTypes[typ]
				if !isLpm {
					continue
				}
				li := binary.LittleEndian.Uint32(local[ri][offIndex:])
				ki := binary.LittleEndian.Uint32(kern[ri][offIndex:])
				c.item(fmt.Sprintf("ring:index:%s rule=%d %s", id, ri, tn), fmt.Sprint(ki))
				if li >= count {
					report(fmt.Sprintf("ring: %s rule %d (%s) refers to LPM set %d but the program has %d sets", id, ri, tn, li, count), nil)
					staticOK = false
					continue
				}
				if ki != slot(li) {
					staticOK = false
					report(fmt.Sprintf("ring: lpm_array_map key differs for a %s rule: program %s loaded at ring cursor %d: kernel rule %d carries match_set.index=%d, the control plane installs that rule's trie (set %d) at lpm_array_map[%d]",
						tn, p.name, cur, ri, ki, li, slot(li)), map[string]any{"program": p.text(), "rule_bytes": fmt.Sprintf("%x", kern[ri])})
				}
			}
			// ---- dynamic: fill the maps as buildRoutingKernspace does and run the real route()
			c.must(k.Reset())
			for i := range sets {
				idm, err := k.MapCreateInner("lpm_array_map")
				c.must(err)
				var keys, vals [][]byte
				for _, pf := range sets[i] {
					keys = append(keys, control.VerifLpmKeyBytes(pf))
					vals = append(vals, le32(1))
				}
				if len(keys) > 0 {
					rc, err := k.MapUpdate(vkern.InnerName(idm), vkern.BPF_ANY, keys, vals)
					c.must(err)
					for _, x := range rc {
						if x != 0 {
							report(fmt.Sprintf("ring: LPM trie rejects a key of set %d of %s (rc=%d)", i, p.name, x), nil)
						}
					}
				}
				c.must(k.MapSetInner("lpm_array_map", slot(uint32(i)), idm))
			}
			c.loadRules(k, kern...)
			var args []vkern.RouteArg
			type probe struct {
				mac      string
				src, dst netip.Addr
			}
			var probes []probe
			for _, m := range macs {
				for _, ip := range ips {
					pr := probe{m, netip.MustParseAddr(ip.src), netip.MustParseAddr(ip.dst)}
					probes = append(probes, pr)
					var a vkern.RouteArg
					a.Flag[0] = uint32(consts.L4ProtoType_TCP)
					a.Flag[1] = uint32(consts.IpVersion_4)
					if pr.dst.Is6() {
						a.Flag[1] = uint32(consts.IpVersion_6)
					}
					binary.BigEndian.PutUint16(a.L4Hdr[0:], 40000)
					binary.BigEndian.PutUint16(a.L4Hdr[2:], 443)
					a.Saddr, a.Daddr = pr.src.As16(), pr.dst.As16()
					mm := parseMAC(m)
					copy(a.Mac[10:], mm[:])
					args = append(args, a)
				}
			}
			res, err := k.Route(args)
			c.must(err)
			for i, pr := range probes {
				wantName := p.refDecide(pr.mac, pr.src, pr.dst)
				want := uint8(consts.OutboundDirect)
				if wantName != "direct" {
					want = v.Name2Id[wantName]
				}
				pid := fmt.Sprintf("%s mac=%s %s->%s", id, pr.mac, pr.src, pr.dst)
				c.item("ring:route:"+pid, fmt.Sprint(want))
				uo, um, umust, uerr := v.Route(netip.AddrPortFrom(pr.src, 40000), netip.AddrPortFrom(pr.dst, 443), "", consts.L4ProtoType_TCP, [16]uint8{}, parseMAC(pr.mac), 0)
				if uerr != nil || uo != want || um != 0 || umust {
					report(fmt.Sprintf("ring: userspace Route of %s for mac=%s %s->%s gives outbound=%d mark=%d must=%v err=%v; the program says %s (outbound %d)", p.name, pr.mac, pr.src, pr.dst, uo, um, umust, uerr, wantName, want), p.text())
					continue
				}
				kr := res[i]
				if kr < 0 || uint8(kr&0xff) != want || uint32(kr>>8) != 0 || (kr>>40)&1 != 0 {
					why := ""
					if staticOK {
						why = " (rule indices looked consistent: the maps were filled from the same slots)"
					}
					report(fmt.Sprintf("ring: kernel route() after a load at ring cursor %d: program %s, mac=%s %s->%s: kernel result %d (outbound %d), the program and the userspace matcher say %s (outbound %d)%s",
						cur, p.name, pr.mac, pr.src, pr.dst, kr, uint8(kr&0xff), wantName, want, why), map[string]any{"program": p.text()})
				}
			}
		}
	}
	c.r.Set("ring_violations_total", nviol)
	c.r.Sample(map[string]any{"leg": "ring", "program": ringProgs[3].text(), "cursors": "0,1,5,Max/2,Max-1,Max-2,Max-count,Max-count+1"})
}
