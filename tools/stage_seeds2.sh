#!/bin/bash
# stage round-2 seeds from /tmp/seed2-<ID>/SEEDS into /verif/seeded/<ID>-seed{3,4}
for ID in "$@"; do
  S=/tmp/seed2-$ID/SEEDS
  [ -d "$S" ] || { echo "no $S"; continue; }
  for n in 1 2; do
    [ -f "$S/seed$n.diff" ] || continue
    D=/verif/seeded/$ID-seed$((n+2))
    mkdir -p "$D"
    cp "$S/seed$n.diff" "$D/patch.diff"
    [ -f "$S/seed$n.md" ] && cp "$S/seed$n.md" "$D/NOTE.md"
    [ -d "$S/seed${n}_demo" ] && { rm -rf "$D/demo"; cp -r "$S/seed${n}_demo" "$D/demo"; }
    echo staged $D
  done
done
