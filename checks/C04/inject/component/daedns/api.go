//go:build verif

package daedns

import (
	"context"
	"errors"
)

// VerifSelect exposes the request-routing decision the router takes for one of dae's own lookups
// (no explicit upstream name): the URL of the selected upstream, or passthrough (asis/reject).
func (r *Router) VerifSelect(host string, qtype uint16) (upstream string, passthrough bool, err error) {
	u, err := r.selectUpstream(context.Background(), "", host, qtype)
	if errors.Is(err, errPassthroughToBaseResolver) {
		return "", true, nil
	}
	if err != nil {
		return "", false, err
	}
	return u.String(), false, nil
}
