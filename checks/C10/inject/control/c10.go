//go:build verif

package control

import (
	"encoding/binary"
	"fmt"
	"net"
	"net/netip"
	"sort"
	"strings"

	dnsmessage "github.com/miekg/dns"
)

// C10 harness. The kernel table (domain_routing_map) is represented by a SHADOW map that folds every
// (update keys, values, delete keys) batch domainRoutingTracker.syncOwner issues, in issue order — the batches
// are seen through the verif observer placed in front of the map write (see checks/C10/prebuild).

type VerifKernelTable struct {
	M       map[netip.Addr][32]uint32
	Batches int
	Updates int
	Deletes int
}

func verifKeyToAddr(k [4]uint32) netip.Addr {
	// inverse of common.Ipv6ByteSliceToUint32Array (native-endian words over the 16 address bytes)
	var a [16]byte
	for j := 0; j < 4; j++ {
		binary.NativeEndian.PutUint32(a[j*4:], k[j])
	}
	return netip.AddrFrom16(a).Unmap()
}

// VerifObserveKernelTable installs the observer; the returned table is updated by every later batch.
func VerifObserveKernelTable() *VerifKernelTable {
	t := &VerifKernelTable{M: map[netip.Addr][32]uint32{}}
	VerifDomainRoutingBatchObserver = func(update [][4]uint32, values []bpfDomainRouting, del [][4]uint32) {
		if len(update) > 0 || len(del) > 0 {
			t.Batches++
		}
		// same order as syncOwner: batch update first, then batch delete
		for i, k := range update {
			t.M[verifKeyToAddr(k)] = values[i].Bitmap
			t.Updates++
		}
		for _, k := range del {
			delete(t.M, verifKeyToAddr(k))
			t.Deletes++
		}
	}
	return t
}

// Clear models clearReloadDomainRoutingMap (BpfMapBatchDeleteAll on reload).
func (t *VerifKernelTable) Clear() {
	for k := range t.M {
		delete(t.M, k)
	}
}

func (t *VerifKernelTable) String() string {
	var ks []netip.Addr
	for k := range t.M {
		ks = append(ks, k)
	}
	sort.Slice(ks, func(i, j int) bool { return ks[i].Less(ks[j]) })
	var sb strings.Builder
	for _, k := range ks {
		v := t.M[k]
		fmt.Fprintf(&sb, "%s=%s;", k, VerifBitmapString(v[:]))
	}
	return sb.String()
}

func VerifBitmapString(b []uint32) string {
	var bits []string
	for i, w := range b {
		for j := 0; j < 32; j++ {
			if w&(1<<uint(j)) != 0 {
				bits = append(bits, fmt.Sprint(i*32+j))
			}
		}
	}
	if len(bits) == 0 {
		return "{}"
	}
	return "{" + strings.Join(bits, ",") + "}"
}

// ---- layer (a): the tracker through the production entry points of controlPlaneCore -----------------------------

type VerifTrackerEnv struct {
	core  *controlPlaneCore
	Table *VerifKernelTable
}

func VerifNewTrackerEnv() *VerifTrackerEnv {
	e := &VerifTrackerEnv{core: &controlPlaneCore{log: VerifQuietLogger(), domainRouting: newDomainRoutingTracker()}}
	e.core.bpf.Store(&bpfObjects{}) // objects "loaded", DomainRoutingMap nil: the tracker runs, nothing is written
	e.Table = VerifObserveKernelTable()
	return e
}

func verifAnswerRRs(name string, addrs []netip.Addr) []dnsmessage.RR {
	var rrs []dnsmessage.RR
	for _, a := range addrs {
		if a.Is4() {
			rrs = append(rrs, &dnsmessage.A{Hdr: dnsmessage.RR_Header{Name: name, Rrtype: dnsmessage.TypeA, Class: dnsmessage.ClassINET, Ttl: 60}, A: net.IP(a.AsSlice())})
		} else {
			rrs = append(rrs, &dnsmessage.AAAA{Hdr: dnsmessage.RR_Header{Name: name, Rrtype: dnsmessage.TypeAAAA, Class: dnsmessage.ClassINET, Ttl: 60}, AAAA: net.IP(a.AsSlice())})
		}
	}
	return rrs
}

// Sync = CacheAccessCallback of the production option: BatchUpdateDomainRouting(cache entry of owner).
func (e *VerifTrackerEnv) Sync(owner string, bitmap [32]uint32, addrs []netip.Addr) error {
	c := &DnsCache{RouteOwnerKey: owner, DomainBitmap: append([]uint32(nil), bitmap[:]...), Answer: verifAnswerRRs("x.", addrs)}
	return e.core.BatchUpdateDomainRouting(c)
}

// Remove = CacheDeleteCallback of the production option: BatchRemoveDomainRouting(cache entry of owner).
func (e *VerifTrackerEnv) Remove(owner string, bitmap [32]uint32, addrs []netip.Addr) error {
	c := &DnsCache{RouteOwnerKey: owner, DomainBitmap: append([]uint32(nil), bitmap[:]...), Answer: verifAnswerRRs("x.", addrs)}
	return e.core.BatchRemoveDomainRouting(c)
}

func (e *VerifTrackerEnv) Dump() string { return verifTrackerDump(e.core.domainRouting) }

// verifTrackerDump renders owners and ips of the tracker exactly (canonical order).
func verifTrackerDump(t *domainRoutingTracker) string {
	if t == nil {
		return "nil"
	}
	t.mu.Lock()
	defer t.mu.Unlock()
	var sb strings.Builder
	var os []string
	for o := range t.owners {
		os = append(os, o)
	}
	sort.Strings(os)
	for _, o := range os {
		s := t.owners[o]
		var ips []string
		for k := range s.ips {
			ips = append(ips, verifKeyToAddr(k).String())
		}
		sort.Strings(ips)
		fmt.Fprintf(&sb, "O[%s]=%s%v;", o, VerifBitmapString(s.bitmap.Bitmap[:]), ips)
	}
	var ks []string
	byS := map[string][4]uint32{}
	for k := range t.ips {
		s := verifKeyToAddr(k).String()
		ks = append(ks, s)
		byS[s] = k
	}
	sort.Strings(ks)
	for _, s := range ks {
		st := t.ips[byS[s]]
		var ow []string
		for o, b := range st.owners {
			ow = append(ow, o+":"+VerifBitmapString(b.Bitmap[:]))
		}
		sort.Strings(ow)
		fmt.Fprintf(&sb, "I[%s]=%s%v;", s, VerifBitmapString(st.merged.Bitmap[:]), ow)
	}
	return sb.String()
}

// ---- layer (b): the tracker behind the real DnsController -----------------------------------------------------------

// TrackerDump of the core the controller's production callbacks are bound to.
func (e *VerifDnsCtl) TrackerDump() string { return verifTrackerDump(e.core.domainRouting) }

// VerifLiveEntry is one entry of the live DNS cache as the oracle needs it.
type VerifLiveEntry struct {
	Key    string
	Addrs  []netip.Addr
	Bitmap [32]uint32
}

func (e *VerifDnsCtl) LiveEntries() []VerifLiveEntry {
	var out []VerifLiveEntry
	e.Ctrl.dnsCache.Range(func(k, v any) bool {
		c, ok := v.(*DnsCache)
		if !ok {
			return true
		}
		le := VerifLiveEntry{Key: fmt.Sprint(k)}
		copy(le.Bitmap[:], c.DomainBitmap)
		for _, rr := range c.Answer {
			if a, ok := dnsAnswerIP(rr); ok {
				le.Addrs = append(le.Addrs, a.Unmap())
			}
		}
		out = append(out, le)
		return true
	})
	sort.Slice(out, func(i, j int) bool { return out[i].Key < out[j].Key })
	return out
}
