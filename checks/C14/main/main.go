// C14 — a group contains exactly the nodes its filters select, each with its annotation.
// Bounded-exhaustive enumeration (engine Q): every node pool of <= P nodes over a closed alphabet of
// node kinds (name x subscription tag, duplicates by repetition) x every group definition of a bounded
// grammar (<= 2 filter lines, <= 2 conditions per line, <= 2 values per condition, negation, annotation,
// policy), driven through the production path
//
//	group text -> config_parser.Parse -> config.New -> config.Group
//	-> outbound.NewDialerSelectionPolicyFromGroupParam(&group)
//	-> DialerSet.FilterAndAnnotate(group.Filter, group.FilterAnnotation)      (calls dialer.NewAnnotation)
//
// wired exactly as the group loop of control/control_plane.go wires them, and compared with a reference
// written from the property statement (plain Go predicates per value; never the implementation).
package main

import (
	"encoding/json"
	"fmt"
	"os"
	"path/filepath"
	"regexp"
	"strings"
	"time"

	"github.com/daeuniverse/dae/component/outbound"
	"github.com/daeuniverse/dae/component/outbound/dialer"
	"github.com/daeuniverse/dae/config"
	"github.com/daeuniverse/dae/pkg/config_parser"
	"github.com/daeuniverse/dae/verifx/vlib"
	"github.com/daeuniverse/outbound/netproxy"
	"github.com/sirupsen/logrus"

	"context"
	"errors"
	"io"
)

// ---------------------------------------------------------------------------------------------
// node pools
// ---------------------------------------------------------------------------------------------

type nodeKind struct{ name, tag string }

// simplest first; duplicates arise from repetition inside a pool
var names = []string{"hk1", "HK1", "sg", "", "a(b"}
var tags = []string{"s1", "s2"}
var kinds []nodeKind

type pool struct {
	kinds []int // indices into kinds, in pool order
	set   *outbound.DialerSet
	ds    []*dialer.Dialer
}

func (p *pool) String() string {
	var s []string
	for _, k := range p.kinds {
		s = append(s, fmt.Sprintf("%q/%s", kinds[k].name, kinds[k].tag))
	}
	return "[" + strings.Join(s, " ") + "]"
}

type noopDialer struct{}

func (noopDialer) DialContext(context.Context, string, string) (netproxy.Conn, error) {
	return nil, errors.New("not implemented")
}

// buildPools: every ordered pool of <= maxN nodes over the node kinds kinds[lo:hi].
func buildPools(lo, hi, maxN int, log *logrus.Logger) []*pool {
	opt := &dialer.GlobalOption{Log: log, CheckInterval: 30 * time.Second}
	var out []*pool
	var rec func(cur []int, n int)
	mk := func(cur []int) {
		p := &pool{kinds: append([]int(nil), cur...)}
		var tg []string
		for i, k := range cur {
			d := dialer.NewDialer(noopDialer{}, opt, dialer.InstanceOption{DisableCheck: true}, &dialer.Property{
				SubscriptionTag: kinds[k].tag,
			})
			d.Property().Name = kinds[k].name
			d.Property().Address = fmt.Sprintf("192.0.2.%d:1080", i+1)
			d.Property().Protocol = "noop"
			p.ds = append(p.ds, d)
			tg = append(tg, kinds[k].tag)
		}
		p.set = outbound.VerifNewDialerSet(log, p.ds, tg)
		out = append(out, p)
	}
	// by size, then lexicographic in kind order => simplest first
	for n := 0; n <= maxN; n++ {
		rec = func(cur []int, left int) {
			if left == 0 {
				mk(cur)
				return
			}
			for k := lo; k < hi; k++ {
				rec(append(cur, k), left-1)
			}
		}
		rec(nil, n)
	}
	return out
}

// ---------------------------------------------------------------------------------------------
// group-definition grammar + reference semantics (from the statement)
// ---------------------------------------------------------------------------------------------

// invalidity kinds, in the statement's words
const (
	kUnknownInput  = "unknown-input"
	kUnknownKey    = "unknown-key"
	kBadRegex      = "bad-regex"
	kAnnoUnknown   = "anno-unknown"
	kAnnoMalformed = "anno-malformed"
	kPolicy        = "policy-invalid"
	kFixedNeg      = "fixed-negative"
	kFixedBeyond   = "fixed-beyond-size"
)

var kindBit = map[string]uint64{kUnknownInput: 1, kUnknownKey: 2, kBadRegex: 4, kAnnoUnknown: 8, kAnnoMalformed: 16, kPolicy: 32, kFixedNeg: 64, kFixedBeyond: 128}

type value struct {
	text    string            // as written inside name(...)/subtag(...)
	pred    func(string) bool // reference meaning on the inspected field (nil when invalid)
	invalid string            // "" or the invalidity kind
	re2     string            // when non-empty: an RE2 pattern with the same meaning (startup cross-check of pred)
}

func has(sub string) func(string) bool {
	return func(s string) bool { return strings.Contains(s, sub) }
}
func eq(x string) func(string) bool { return func(s string) bool { return s == x } }

// name(...) values: exact, keyword:, regex: (incl. one regexp2-only construct and one invalid pattern), unknown key
var nameVals = []value{
	{text: "hk1", pred: eq("hk1")},
	{text: "HK1", pred: eq("HK1")},
	{text: "sg", pred: eq("sg")},
	{text: "''", pred: eq("")},
	{text: "'a(b'", pred: eq("a(b")},
	{text: "zz", pred: eq("zz")},
	{text: "keyword: hk", pred: has("hk")},
	{text: "keyword: '('", pred: has("(")},
	{text: "keyword: ''", pred: func(string) bool { return true }},
	{text: "regex: '^hk'", pred: func(s string) bool { return strings.HasPrefix(s, "hk") }, re2: "^hk"},
	{text: "regex: '(?i)^hk1$'", pred: func(s string) bool { return strings.EqualFold(s, "hk1") }, re2: "(?i)^hk1$"},
	// regexp2-only (RE2 has no lookahead): "does not start with hk"
	{text: "regex: '^(?!hk)'", pred: func(s string) bool { return !strings.HasPrefix(s, "hk") }},
	{text: "regex: '('", invalid: kBadRegex},
	{text: "foo: x", invalid: kUnknownKey},
}

// subtag(...) values: exact, regex:; "keyword:" is not a key of subtag (config/desc.go: "Available keys in subtag function: regex")
var tagVals = []value{
	{text: "s1", pred: eq("s1")},
	{text: "s2", pred: eq("s2")},
	{text: "s", pred: eq("s")},
	{text: "regex: '^s'", pred: func(s string) bool { return strings.HasPrefix(s, "s") }, re2: "^s"},
	// regexp2-only: s followed by 2
	{text: "regex: 's(?=2)'", pred: has("s2")},
	{text: "regex: '['", invalid: kBadRegex},
	{text: "keyword: s", invalid: kUnknownKey},
}

func nv(t string) *value {
	for i := range nameVals {
		if nameVals[i].text == t {
			return &nameVals[i]
		}
	}
	panic("no name value " + t)
}

func tv(t string) *value {
	for i := range tagVals {
		if tagVals[i].text == t {
			return &tagVals[i]
		}
	}
	panic("no subtag value " + t)
}

type cond struct {
	input string // name | subtag | link
	not   bool
	vals  []*value
}

func (c *cond) text() string {
	var v []string
	for _, x := range c.vals {
		v = append(v, x.text)
	}
	s := c.input + "(" + strings.Join(v, ", ") + ")"
	if c.not {
		s = "!" + s
	}
	return s
}

type anno struct {
	text    string
	invalid string
	latency time.Duration
}

var annos = []*anno{
	{text: ""},
	{text: " [add_latency: 5ms]", latency: 5 * time.Millisecond},
	{text: " [add_latency: x]", invalid: kAnnoMalformed},
	{text: " [foo: 1]", invalid: kAnnoUnknown},
	{text: " [add_latency: -500ms]", latency: -500 * time.Millisecond}, // the example.dae form; thorough only
	// two-item lists, both orders: every item is validated wherever it stands
	{text: " [add_latency: 5ms, foo: 1]", invalid: kAnnoUnknown},
	{text: " [foo: 1, add_latency: 5ms]", invalid: kAnnoUnknown},
	{text: " [add_latency: 5ms, add_latency: x]", invalid: kAnnoMalformed},
	{text: " [add_latency: x, add_latency: 5ms]", invalid: kAnnoMalformed},
	// valid pair: the statement does not say which offset applies; annotation.go documents
	// "Only the first setting is valid", which is what the reference takes (see r.Assume)
	{text: " [add_latency: 5ms, add_latency: 9ms]", latency: 5 * time.Millisecond},
}

// annosBasic: the single-item alphabet (+ the negative offset in thorough); annosAll adds the two-item lists.
func annosBasic(thorough bool) []*anno {
	if thorough {
		return annos[:5]
	}
	return annos[:4]
}

func annosAll(thorough bool) []*anno {
	out := append([]*anno{}, annos[:4]...)
	out = append(out, annos[5:]...)
	if thorough {
		out = append(out, annos[4])
	}
	return out
}

type line struct {
	conds []*cond
	anno  *anno
}

func (l *line) text() string {
	var c []string
	for _, x := range l.conds {
		c = append(c, x.text())
	}
	return "filter: " + strings.Join(c, " && ") + l.anno.text
}

type policy struct {
	text    string
	invalid bool
	name    string
	fixed   int
	isFixed bool
}

var policies = []*policy{
	{text: "min", name: "min"},
	{text: "random", name: "random"},
	{text: "min_avg10", name: "min_avg10"},
	{text: "min_moving_avg", name: "min_moving_avg"},
	{text: "fixed(0)", name: "fixed", isFixed: true, fixed: 0},
	{text: "fixed(1)", name: "fixed", isFixed: true, fixed: 1},
	{text: "fixed(2)", name: "fixed", isFixed: true, fixed: 2},
	{text: "fixed(3)", name: "fixed", isFixed: true, fixed: 3},
	{text: "fixed(4)", name: "fixed", isFixed: true, fixed: 4},
	{text: "fixed(-1)", name: "fixed", isFixed: true, fixed: -1},
	{text: "fixed(x)", invalid: true},
	{text: "fixed", invalid: true},
	{text: "bogus", invalid: true},
	{text: "fixed(0, 1)", invalid: true},
	{text: "fixed(k: 0)", invalid: true},
	{text: "!fixed(0)", invalid: true},
}

type def struct {
	lines  []*line
	pol    *policy
	family string
	static uint64   // bitmask of static invalidity kinds
	kindsS []string // same, text order
}

func (d *def) body() string {
	var b strings.Builder
	for _, l := range d.lines {
		b.WriteString(l.text())
		b.WriteString("\n")
	}
	b.WriteString("policy: " + d.pol.text + "\n")
	return b.String()
}

func (d *def) oneLine() string {
	return "{" + strings.ReplaceAll(strings.TrimSpace(d.body()), "\n", "; ") + "}"
}

func confText(body string) string {
	return "global{}\ngroup{\ng{\n" + body + "}\n}\nrouting{ fallback: direct }\n"
}

func (d *def) computeStatic() {
	add := func(k string) {
		if d.static&kindBit[k] == 0 {
			d.static |= kindBit[k]
			d.kindsS = append(d.kindsS, k)
		}
	}
	for _, l := range d.lines {
		for _, c := range l.conds {
			if c.input != "name" && c.input != "subtag" {
				add(kUnknownInput)
				continue
			}
			for _, v := range c.vals {
				if v.invalid != "" {
					add(v.invalid)
				}
			}
		}
		if l.anno.invalid != "" {
			add(l.anno.invalid)
		}
	}
	if d.pol.invalid {
		add(kPolicy)
	}
	if d.pol.isFixed && d.pol.fixed < 0 {
		add(kFixedNeg)
	}
}

// refCond: the values are alternatives; '!' negates the condition.
func refCond(c *cond, k nodeKind) bool {
	field := k.name
	if c.input == "subtag" {
		field = k.tag
	}
	hit := false
	for _, v := range c.vals {
		if v.pred(field) {
			hit = true
		}
	}
	return hit != c.not
}

// refLine: a line is the conjunction of its conditions.
func refLine(l *line, k nodeKind) bool {
	for _, c := range l.conds {
		if !refCond(c, k) {
			return false
		}
	}
	return true
}

// refGroup (only for statically valid definitions): members = nodes satisfying >= 1 line, each once, in
// pool order, with the annotation of the FIRST line satisfied; no filter lines => every node, no offset.
// lineOf[i] = index of that line (-1 when the group has no filters).
func refGroup(d *def, p *pool, members *[8]int, lineOf *[8]int) (n int) {
	for i, k := range p.kinds {
		if len(d.lines) == 0 {
			members[n], lineOf[n] = i, -1
			n++
			continue
		}
		for j, l := range d.lines {
			if refLine(l, kinds[k]) {
				members[n], lineOf[n] = i, j
				n++
				break
			}
		}
	}
	return n
}

// ---------------------------------------------------------------------------------------------
// enumeration of definitions (simplest first)
// ---------------------------------------------------------------------------------------------

func condsFull() []*cond {
	var out []*cond
	for _, in := range []struct {
		name string
		vals []value
	}{{"name", nameVals}, {"subtag", tagVals}} {
		for _, not := range []bool{false, true} {
			for i := range in.vals {
				out = append(out, &cond{input: in.name, not: not, vals: []*value{&in.vals[i]}})
			}
		}
		for _, not := range []bool{false, true} {
			for i := range in.vals {
				for j := range in.vals {
					out = append(out, &cond{input: in.name, not: not, vals: []*value{&in.vals[i], &in.vals[j]}})
				}
			}
		}
	}
	lx := value{text: "x", invalid: kUnknownInput}
	out = append(out, &cond{input: "link", vals: []*value{&lx}}, &cond{input: "link", not: true, vals: []*value{&lx}})
	return out
}

// reduced condition alphabet for 2-condition lines and 2-line groups: every single value, both polarities,
// plus a few 2-value conditions (a valid alternative before an invalid one; two exact alternatives)
func condsReduced() []*cond {
	var out []*cond
	for _, not := range []bool{false, true} {
		for i := range nameVals {
			out = append(out, &cond{input: "name", not: not, vals: []*value{&nameVals[i]}})
		}
		for i := range tagVals {
			out = append(out, &cond{input: "subtag", not: not, vals: []*value{&tagVals[i]}})
		}
	}
	out = append(out,
		&cond{input: "name", vals: []*value{nv("HK1"), nv("sg")}},
		&cond{input: "name", not: true, vals: []*value{nv("hk1"), nv("''")}},
		&cond{input: "name", vals: []*value{nv("hk1"), nv("regex: '('")}},
		&cond{input: "subtag", vals: []*value{tv("s1"), tv("regex: '['")}},
	)
	lx := value{text: "x", invalid: kUnknownInput}
	out = append(out, &cond{input: "link", vals: []*value{&lx}})
	return out
}

func enumerate(thorough bool) []*def {
	var defs []*def
	seen := map[string]bool{}
	add := func(family string, pol *policy, lines ...*line) {
		d := &def{lines: lines, pol: pol, family: family}
		t := d.body()
		if seen[t] {
			return
		}
		seen[t] = true
		d.computeStatic()
		defs = append(defs, d)
	}
	polMin := policies[0]
	full := condsFull()
	red := condsReduced()

	// F0: no filter x every policy
	for _, p := range policies {
		add("F0:nofilter*policy", p)
	}
	// F1: one line, one condition (full value alphabet, <=2 values) x annotation
	for _, c := range full {
		for _, a := range annosAll(thorough) {
			add("F1:1line-1cond", polMin, &line{conds: []*cond{c}, anno: a})
		}
	}
	// FP: every policy x a few filter shapes (group sizes 0..n for fixed(i) in/out of range)
	one := func(c *cond, a *anno) *line { return &line{conds: []*cond{c}, anno: a} }
	shapes := [][]*line{
		{one(&cond{input: "name", vals: []*value{nv("hk1")}}, annos[0])},
		{one(&cond{input: "name", not: true, vals: []*value{nv("hk1")}}, annos[0])},
		{one(&cond{input: "subtag", vals: []*value{tv("s1")}}, annos[1])},
		{one(&cond{input: "name", vals: []*value{nv("zz")}}, annos[0])},          // empty group
		{one(&cond{input: "name", vals: []*value{nv("keyword: ''")}}, annos[0])}, // every node
		{one(&cond{input: "name", vals: []*value{nv("hk1")}}, annos[0]), one(&cond{input: "name", vals: []*value{nv("sg")}}, annos[1])},
	}
	for _, p := range policies {
		for _, sh := range shapes {
			add("FP:policy*shape", p, sh...)
		}
	}
	// F2: one line, two conditions over the reduced alphabet x annotation
	var lines2 []*line
	for _, c1 := range red {
		for _, c2 := range red {
			for ai, a := range annosBasic(thorough) {
				l := &line{conds: []*cond{c1, c2}, anno: a}
				add("F2:1line-2cond", polMin, l)
				if ai < 2 {
					lines2 = append(lines2, l)
				}
			}
		}
	}
	// F3: two lines; line alphabet = every 1-condition line over the reduced alphabet x annotation,
	// plus (thorough: every, quick: a fixed sub-lattice of) 2-condition lines with annotation none / 5ms
	var la []*line
	for _, c := range red {
		for _, a := range annos[:4] {
			la = append(la, &line{conds: []*cond{c}, anno: a})
		}
	}
	step := 37 // coprime with the alphabet size: spreads over first/second conditions and both annotations
	if thorough {
		step = 17
	}
	for i := 0; i < len(lines2); i += step {
		la = append(la, lines2[i])
	}
	for _, l1 := range la {
		for _, l2 := range la {
			add("F3:2lines", polMin, l1, l2)
		}
	}
	// FA: two lines over a small condition alphabet x the FULL annotation alphabet (two-item lists on the
	// line that supplies the annotation, on a line shadowed by the first one, on a line selecting nothing)
	smallConds := []*cond{
		{input: "name", vals: []*value{nv("hk1")}},
		{input: "name", not: true, vals: []*value{nv("hk1")}},
		{input: "name", vals: []*value{nv("sg")}},
		{input: "subtag", vals: []*value{tv("s1")}},
		{input: "name", vals: []*value{nv("keyword: ''")}},
		{input: "name", vals: []*value{nv("zz")}},
	}
	var lb []*line
	for _, c := range smallConds {
		for _, a := range annosAll(thorough) {
			lb = append(lb, &line{conds: []*cond{c}, anno: a})
		}
	}
	for _, l1 := range lb {
		for _, l2 := range lb {
			add("FA:2lines*annolists", polMin, l1, l2)
		}
	}
	// FL: long value lists. Conditions with 6 and 7 alternatives that share their first five (so lines
	// differ only from the 6th / 7th parameter on), lines that differ only in a later '&&' conjunct, x
	// annotation {none, 5ms}; every single line and every ordered pair of lines.
	p5 := []*value{nv("zz"), nv("'a(b'"), nv("zz"), nv("keyword: '('"), nv("zz")} // matches only the name a(b
	t5 := []*value{tv("s"), tv("s"), tv("s"), tv("s"), tv("s")}                   // matches no subtag
	with := func(pre []*value, more ...*value) []*value { return append(append([]*value{}, pre...), more...) }
	tailAll := []*value{nv("hk1"), nv("HK1"), nv("sg"), nv("keyword: hk"), nv("regex: '^hk'"), nv("regex: '('"), nv("foo: x")}
	tailValid := tailAll[:4]
	var longConds []*cond
	for _, not := range []bool{false, true} {
		for _, a := range tailAll {
			longConds = append(longConds, &cond{input: "name", not: not, vals: with(p5, a)})
		}
		for _, a := range tailValid {
			for _, b := range tailValid {
				longConds = append(longConds, &cond{input: "name", not: not, vals: with(p5, a, b)})
			}
		}
		for _, b := range tailAll[5:] {
			longConds = append(longConds, &cond{input: "name", not: not, vals: with(p5, nv("hk1"), b)})
		}
		for _, x := range []*value{tv("s1"), tv("s2")} {
			longConds = append(longConds, &cond{input: "subtag", not: not, vals: with(t5, x)}, &cond{input: "subtag", not: not, vals: with(t5, tv("s"), x)})
		}
	}
	var ll []*line
	for _, a := range annos[:2] {
		for _, c := range longConds {
			ll = append(ll, &line{conds: []*cond{c}, anno: a})
		}
		firsts := []*cond{
			{input: "name", vals: []*value{nv("keyword: ''")}},
			{input: "name", not: true, vals: []*value{nv("zz")}},
			{input: "subtag", vals: []*value{tv("s1")}},
		}
		seconds := []*cond{
			{input: "name", vals: []*value{nv("hk1")}},
			{input: "name", vals: []*value{nv("sg")}},
			{input: "subtag", vals: []*value{tv("s2")}},
			{input: "name", vals: with(p5, nv("hk1"))},
			{input: "name", vals: with(p5, nv("sg"))},
		}
		for _, c1 := range firsts {
			for _, c2 := range seconds {
				ll = append(ll, &line{conds: []*cond{c1, c2}, anno: a})
			}
		}
	}
	for _, l1 := range ll {
		add("FL:longlists", polMin, l1)
	}
	for _, l1 := range ll {
		for _, l2 := range ll {
			add("FL:longlists", polMin, l1, l2)
		}
	}
	// FU / FV: the regex dialect over names and subscription tags with non-ASCII characters (unicode.go)
	uEnumerate(thorough, add)
	return defs
}

// ---------------------------------------------------------------------------------------------
// the real path
// ---------------------------------------------------------------------------------------------

// parseGroup: group text -> config_parser.Parse -> config.New -> config.Group
func parseGroup(body string) (g *config.Group, stage string, err error) {
	secs, err := config_parser.Parse(confText(body))
	if err != nil {
		return nil, "config_parser.Parse", err
	}
	c, err := config.New(secs)
	if err != nil {
		return nil, "config.New", err
	}
	if len(c.Group) != 1 || c.Group[0].Name != "g" {
		return nil, "config.New", fmt.Errorf("expected exactly group g, got %d groups", len(c.Group))
	}
	return &c.Group[0], "", nil
}

type rangeValidator interface{ ValidateForGroup(n int) error }

// buildGroup replicates the group loop of control/control_plane.go (policy, then filter+annotate; the
// results go to outbound.NewDialerGroup unchanged). If the policy type offers ValidateForGroup(n) (the
// proposed additive fix for fixed(i) out of range), it is applied as the control plane would.
func buildGroup(set *outbound.DialerSet, group *config.Group) (pol *outbound.DialerSelectionPolicy, ds []*dialer.Dialer, an []*dialer.Annotation, err error) {
	pol, err = outbound.NewDialerSelectionPolicyFromGroupParam(group)
	if err != nil {
		return nil, nil, nil, fmt.Errorf("failed to create group %v: %w", group.Name, err)
	}
	ds, an, err = set.FilterAndAnnotate(group.Filter, group.FilterAnnotation)
	if err != nil {
		return nil, nil, nil, fmt.Errorf(`failed to create group "%v": %w`, group.Name, err)
	}
	if v, ok := any(pol).(rangeValidator); ok {
		if err = v.ValidateForGroup(len(ds)); err != nil {
			return nil, nil, nil, fmt.Errorf(`failed to create group "%v": %w`, group.Name, err)
		}
	}
	return pol, ds, an, nil
}

var wiringCalls = []string{
	"outbound.NewDialerSelectionPolicyFromGroupParam(&group)",
	"dialerSet.FilterAndAnnotate(group.Filter, group.FilterAnnotation)",
	"outbound.NewDialerGroup(finalOption, group.Name, dialers, annos, *policy,",
}

// checkWiring: the replica above is only meaningful while control_plane.go wires the same calls.
func checkWiring() error {
	repo := os.Getenv("VERIF_REPO")
	if repo == "" {
		repo = "/repo"
	}
	b, err := os.ReadFile(filepath.Join(repo, "control", "control_plane.go"))
	if err != nil {
		return err
	}
	src := string(b)
	at := 0
	for _, c := range wiringCalls {
		i := strings.Index(src[at:], c)
		if i < 0 {
			return fmt.Errorf("control/control_plane.go no longer contains (in order) %q: update buildGroup in checks/C14/main/main.go", c)
		}
		at += i
	}
	_, hasValidator := any(&outbound.DialerSelectionPolicy{}).(rangeValidator)
	if hasValidator && !strings.Contains(src, ".ValidateForGroup(len(dialers))") {
		return fmt.Errorf("DialerSelectionPolicy.ValidateForGroup exists but control/control_plane.go does not call it on len(dialers)")
	}
	return nil
}

// ---------------------------------------------------------------------------------------------
// main
// ---------------------------------------------------------------------------------------------

type viol struct {
	class, kind string
	poolIdx     int
	got         string
	want        string
}

type defResult struct {
	viols    []viol // first per (class, kind, pool empty?) for this definition, pools simplest first
	outcomes map[uint64]struct{}
}

func (dr *defResult) note(v viol, emptyPool bool) {
	for _, x := range dr.viols {
		if x.class == v.class && x.kind == v.kind && (len(poolsG[x.poolIdx].kinds) == 0) == emptyPool {
			return
		}
	}
	dr.viols = append(dr.viols, v)
}

var poolsG []*pool

func fmtMembers(p *pool, idx []int, lat []time.Duration) string {
	var s []string
	for i, m := range idx {
		if m < 0 {
			s = append(s, "#?(not a node of this pool)")
			continue
		}
		s = append(s, fmt.Sprintf("#%d(%q/%s)%+v", m, kinds[p.kinds[m]].name, kinds[p.kinds[m]].tag, lat[i]))
	}
	return "[" + strings.Join(s, " ") + "]"
}

func selfTest() error {
	// hand-written predicates of RE2-expressible patterns agree with Go's regexp on every field value in use
	fields := append(append([]string{}, names...), tags...)
	for _, vs := range [][]value{nameVals, tagVals} {
		for _, v := range vs {
			if v.re2 == "" {
				continue
			}
			re := regexp.MustCompile(v.re2)
			for _, f := range fields {
				if re.MatchString(f) != v.pred(f) {
					return fmt.Errorf("reference predicate of %q disagrees with RE2 on %q", v.text, f)
				}
			}
		}
	}
	return nil
}

func main() {
	r := vlib.Start("C14", "exploration")
	for _, n := range names {
		for _, t := range tags {
			kinds = append(kinds, nodeKind{n, t})
		}
	}
	// order kinds simplest first: tag s1 before s2 inside each name is what the loops give
	if err := selfTest(); err != nil {
		fmt.Fprintln(os.Stderr, "C14: reference self-test failed:", err)
		os.Exit(2)
	}
	if err := checkWiring(); err != nil {
		fmt.Fprintln(os.Stderr, "C14: wiring replica out of date:", err)
		os.Exit(2)
	}
	log := logrus.New()
	log.SetOutput(io.Discard)
	log.SetLevel(logrus.ErrorLevel)

	// pool size bound per family: the 2-line family is the big one
	maxPool := 3
	famPool := map[string]int{"F0": 3, "F1": 3, "FP": 3, "F2": 3, "F3": 2, "FA": 3, "FL": 2}
	if r.Thorough() {
		maxPool = 4
		famPool = map[string]int{"F0": 4, "F1": 4, "FP": 4, "F2": 3, "F3": 3, "FA": 3, "FL": 3}
	}
	nBaseKinds := len(kinds)
	for i, f := range uFields { // leg FU/FV: every field once as a name and once as a subscription tag
		kinds = append(kinds, nodeKind{f, uFields[(i+1)%len(uFields)]})
	}
	pools := buildPools(0, nBaseKinds, maxPool, log)
	nBasePools := len(pools)
	poolsUpTo := map[int]int{} // pools are ordered by size: the pools of <= k nodes are a prefix
	for i, p := range pools {
		poolsUpTo[len(p.kinds)] = i + 1
	}
	const maxPoolU = 2
	pools = append(pools, buildPools(nBaseKinds, len(kinds), maxPoolU, log)...)
	poolsG = pools
	// poolRange: the pools a definition is evaluated on (FU/FV: the pools over the unicode node kinds)
	poolRange := func(d *def) (lo, hi int) {
		if f := d.family[:2]; f == "FU" || f == "FV" {
			return nBasePools, len(pools)
		}
		return 0, poolsUpTo[famPool[d.family[:2]]]
	}
	defs := enumerate(r.Thorough())
	r.Set("pools", nBasePools)
	r.Set("pools_unicode", len(pools)-nBasePools)
	r.Set("regex_patterns_unicode_leg", len(uNameVals))
	r.Set("max_pool_nodes", maxPool)
	r.Set("group_definitions", len(defs))
	uRule := fmt.Sprintf("Leg FU/FV (regex dialect on arbitrary characters): every ordered pool of <=%d nodes over %d further node kinds (each of the %d strings %q once as name and once as subtag: CJK letters, full-width and Arabic-Indic digits, ASCII/ideographic/no-break space, NEL, ASCII and non-ASCII connector punctuation, dash, superscript and Roman numerals, a combining mark, a final and an inner newline, surrounding spaces) x every one-condition line name()/subtag(), '!' on/off, with one value out of %d regex values = every pattern [^] item [item] [$], item = atom x quantifier, atoms %q, + %d idiomatic whole patterns + %d patterns that are not valid in the dialect (%q: must be a configuration error), and out of %d exact/keyword values over the same characters (FU); the same conditions un-negated with [add_latency: 5ms] followed by a catch-all line (FV). Reference: the documented meaning of the regexp2-default (.NET) dialect written by hand (\\w=[L Mn Nd Pc], \\d=Nd, \\s=[\\f\\n\\r\\t\\v U+0085 Z], '.'=not \\n, $=end or before a final \\n) and evaluated by Go's regexp over Go's unicode tables. ", maxPoolU, len(uFields), len(uFields), uFields, len(uNameVals), uAtomTexts(), len(uExtras), len(uInvalid), uInvalid, len(uPlainName))
	r.Rule(fmt.Sprintf("every ordered node pool of <=%d nodes (<=%d for family F2, <=%d for family F3) over %d node kinds (names %q x subtags %q; duplicates by repetition) x every group definition of the families "+
		"F0 no filter x 16 policies; F1 one line, one condition name()/subtag()/link() with <=2 values over the full value alphabet (exact, keyword:, regex: incl. regexp2-only lookahead and an invalid pattern, unknown key), '!' on/off, x annotation {none, add_latency:5ms, add_latency:x, foo:1, and the two-item lists [5ms,foo:1] [foo:1,5ms] [5ms,x] [x,5ms] [5ms,9ms]}; "+
		"F2 one line, two conditions over a reduced condition alphabet x single-item annotation; F3 two lines over a reduced line alphabet (single-item annotations); FA two lines over 6 conditions x the full annotation alphabet incl. the two-item lists; FL single lines and ordered pairs of lines over conditions with 6 and 7 alternatives sharing their first five (differing only in the 6th/7th value, valid or invalid) and lines differing only in the second '&&' conjunct, x annotation {none, 5ms}, pools of <=%d nodes; FP every policy (5 names, fixed(i) i in -1..4, fixed(x), bare fixed, bogus, fixed(0,1), fixed(k:0), !fixed(0)) x 6 filter shapes. "+
		"%s"+
		"A case is (definition, pool). distinct_nontrivial = number of distinct (definition, reference outcome) pairs — outcome = set of expected error kinds, or ordered member kinds with the line supplying each annotation — over definitions with >=1 filter line or a non-'min' policy and non-empty pools", maxPool, famPool["F2"], famPool["F3"], nBaseKinds, names, tags, famPool["FL"], uRule))

	if r.ReplayArg != "" {
		replay(r, defs, pools)
		return
	}

	evals := r.Counter("evaluations")
	posExp := r.Counter("positive_expected")
	errExp := r.Counter("error_expected")
	okBoth := r.Counter("agree_members")
	errBoth := r.Counter("agree_error")
	parseRejected := r.Counter("definitions_rejected_by_parser")
	results := make([]defResult, len(defs))

	r.ParallelFor(len(defs), func(di int) {
		d := defs[di]
		dr := &results[di]
		dr.outcomes = map[uint64]struct{}{}
		nontrivialDef := len(d.lines) > 0 || d.pol != policies[0]
		body := d.body()
		var g *config.Group
		var stage string
		var perr error
		if p, msg := vlib.Try(func() { g, stage, perr = parseGroup(body) }); p {
			dr.note(viol{class: "panic", kind: "parse@" + vlib.PanicSite(msg), poolIdx: 0, got: msg}, true)
			return
		}
		if perr != nil {
			evals.Add(1)
			if d.static != 0 {
				parseRejected.Add(1)
				errBoth.Add(1)
				return
			}
			dr.note(viol{class: "unexpected-error", kind: stage, poolIdx: 0, got: perr.Error(), want: "a valid definition"}, true)
			return
		}
		var members, lineOf [8]int
		var cEval, cPos, cErrExp, cOk, cErrBoth int64
		defer func() {
			evals.Add(cEval)
			posExp.Add(cPos)
			errExp.Add(cErrExp)
			okBoth.Add(cOk)
			errBoth.Add(cErrBoth)
		}()
		pLo, pHi := poolRange(d)
		uLeg := pLo > 0
		for pi := pLo; pi < pHi; pi++ {
			p := pools[pi]
			cEval++
			empty := len(p.kinds) == 0
			// reference
			expKinds := d.static
			firstKind := ""
			if len(d.kindsS) == 1 {
				firstKind = d.kindsS[0]
			} else if len(d.kindsS) > 1 {
				firstKind = "several-invalid-items"
			}
			n := 0
			if d.static == 0 {
				n = refGroup(d, p, &members, &lineOf)
			}
			// An EMPTY group has no i-th node for any i: the statement's "fixed(i) out of range" clause is read as
			// relative to a non-empty group (an empty group selects nothing whatever the policy; nothing is silently changed).
			if d.static == 0 && d.pol.isFixed && n > 0 && d.pol.fixed >= n {
				expKinds |= kindBit[kFixedBeyond]
				firstKind = kFixedBeyond
			}
			var key uint64
			if expKinds != 0 {
				cErrExp++
				key = expKinds << 40
			} else {
				if n > 0 {
					cPos++
				}
				key = 1
				for i := 0; i < n; i++ {
					if uLeg {
						key = key*128 + uint64(p.kinds[members[i]]*3+lineOf[i]+1) + 1
					} else {
						key = key*32 + uint64(p.kinds[members[i]]*3+lineOf[i]+1) + 1
					}
				}
			}
			if nontrivialDef && !empty {
				dr.outcomes[key] = struct{}{}
			}
			// real code
			var pol *outbound.DialerSelectionPolicy
			var ds []*dialer.Dialer
			var an []*dialer.Annotation
			var err error
			if pn, msg := vlib.Try(func() { pol, ds, an, err = buildGroup(p.set, g) }); pn {
				dr.note(viol{class: "panic", kind: vlib.PanicSite(msg), poolIdx: pi, got: msg}, empty)
				continue
			}
			if expKinds != 0 {
				if err == nil {
					gi, gl := gotMembers(p, ds, an)
					if len(d.kindsS) == 1 && d.static&^(kindBit[kAnnoUnknown]|kindBit[kAnnoMalformed]) == 0 && expKinds == d.static {
						// only annotations are invalid: say whether a bad one would actually be carried by a member
						firstKind += annoUse(d, p)
					}
					dr.note(viol{class: "missing-error", kind: firstKind, poolIdx: pi,
						got: "accepted; members=" + fmtMembers(p, gi, gl) + " policy=" + fmt.Sprintf("%v/%d", pol.Policy, pol.FixedIndex), want: "a configuration error (" + kindsText(expKinds) + ")"}, empty)
				} else {
					cErrBoth++
				}
				continue
			}
			if err != nil {
				dr.note(viol{class: "unexpected-error", kind: "group-construction", poolIdx: pi, got: err.Error(), want: "a valid definition"}, empty)
				continue
			}
			// members: identity, order, multiplicity; annotations: that of the first satisfied line
			bad, badAnno := len(ds) != n || len(an) != len(ds), false
			if !bad {
				for i := 0; i < n; i++ {
					if ds[i] != p.ds[members[i]] {
						bad = true
						break
					}
					want := time.Duration(0)
					if lineOf[i] >= 0 {
						want = d.lines[lineOf[i]].anno.latency
					}
					if an[i] == nil || an[i].AddLatency != want {
						badAnno = true
					}
				}
			}
			if bad || badAnno {
				wl := make([]time.Duration, n)
				for i := 0; i < n; i++ {
					if lineOf[i] >= 0 {
						wl[i] = d.lines[lineOf[i]].anno.latency
					}
				}
				gi, gl := gotMembers(p, ds, an)
				cl := "members"
				if !bad {
					cl = "annotation"
				}
				dr.note(viol{class: cl, kind: d.family[:2], poolIdx: pi, got: fmtMembers(p, gi, gl), want: fmtMembers(p, members[:n], wl)}, empty)
				continue
			}
			if string(pol.Policy) != d.pol.name || (d.pol.isFixed && pol.FixedIndex != d.pol.fixed) {
				dr.note(viol{class: "policy", kind: d.pol.text, poolIdx: pi, got: fmt.Sprintf("%v/%d", pol.Policy, pol.FixedIndex), want: d.pol.text}, empty)
				continue
			}
			cOk++
		}
	})

	// merge deterministically: definitions simplest first; one violation per (class, kind, pool empty?)
	reported := map[string]int{}
	var distinct int64
	global := map[uint64]struct{}{}
	for di := range results {
		distinct += int64(len(results[di].outcomes))
		for k := range results[di].outcomes {
			global[k] = struct{}{}
		}
		for _, v := range results[di].viols {
			p := pools[v.poolIdx]
			ck := fmt.Sprintf("%s|%s|%v", v.class, v.kind, len(p.kinds) == 0)
			if reported[ck] >= 1 {
				continue
			}
			reported[ck]++
			d := defs[di]
			r.Violation(fmt.Sprintf("class=%s kind=%s pool=%s group=%s", v.class, v.kind, p.String(), d.oneLine()),
				map[string]any{"class": v.class, "kind": v.kind, "pool": p.String(), "group_body": d.body(), "config_text": confText(d.body()),
					"want": v.want, "got": v.got, "family": d.family})
		}
	}
	r.Set("distinct_nontrivial", distinct)
	r.Set("distinct_outcomes", len(global))
	for _, i := range []int{0, 1, len(defs) / 7, len(defs) / 3, len(defs) / 2, len(defs) - 1} {
		d := defs[i]
		p := pools[(i*7+5)%len(pools)]
		s := map[string]any{"group": d.oneLine(), "pool": p.String(), "family": d.family}
		if d.static != 0 {
			s["expected"] = "configuration error: " + kindsText(d.static)
		} else {
			var m, lo [8]int
			n := refGroup(d, p, &m, &lo)
			wl := make([]time.Duration, n)
			for j := 0; j < n; j++ {
				if lo[j] >= 0 {
					wl[j] = d.lines[lo[j]].anno.latency
				}
			}
			s["expected"] = fmtMembers(p, m[:n], wl)
		}
		r.Sample(s)
	}
	r.Assume("the three calls (NewDialerSelectionPolicyFromGroupParam, DialerSet.FilterAndAnnotate -> NewAnnotation, results handed unchanged to NewDialerGroup) are replicated from the group loop of control/control_plane.go; at start the check verifies textually that control_plane.go still contains these calls in this order (exit 2 otherwise); package control itself is not executed")
	r.Assume("the DialerSet is assembled by an injected helper in the state NewDialerSetFromLinksContext leaves it (dialers in pool order, nodeToTagMap = subscription tag) from dialer.NewDialer over a no-op netproxy.Dialer with DisableCheck; link parsing is not part of this property")
	r.Assume("for a valid annotation list with two add_latency items the statement does not fix which offset applies; the reference follows the comment in component/outbound/dialer/annotation.go ('Only the first setting is valid'): [add_latency: 5ms, add_latency: 9ms] means +5ms. Every item of a list is validated: an unknown key or malformed duration anywhere in the list is a configuration error")
	r.Assume("regexp2-only patterns are given their meaning by hand-written Go predicates; RE2-expressible ones are cross-checked against Go's regexp at start")
	r.Finish()
}

// annoUse (definitions whose conditions are all valid): "/line-used" when some node's first satisfied line
// carries an invalid annotation (a member would get it), "/line-unused" when no node of the pool does.
func annoUse(d *def, p *pool) string {
	var m, lo [8]int
	n := refGroup(d, p, &m, &lo)
	for i := 0; i < n; i++ {
		if lo[i] >= 0 && d.lines[lo[i]].anno.invalid != "" {
			return "/line-used"
		}
	}
	return "/line-unused"
}

func kindsText(m uint64) string {
	var s []string
	for _, k := range []string{kUnknownInput, kUnknownKey, kBadRegex, kAnnoUnknown, kAnnoMalformed, kPolicy, kFixedNeg, kFixedBeyond} {
		if m&kindBit[k] != 0 {
			s = append(s, k)
		}
	}
	return strings.Join(s, ",")
}

func gotMembers(p *pool, ds []*dialer.Dialer, an []*dialer.Annotation) (idx []int, lat []time.Duration) {
	for i, d := range ds {
		at := -1
		for j, x := range p.ds {
			if x == d {
				at = j
				break
			}
		}
		idx = append(idx, at)
		if i < len(an) && an[i] != nil {
			lat = append(lat, an[i].AddLatency)
		} else {
			lat = append(lat, -1)
		}
	}
	return
}

// replay re-runs one recorded violation (its definition body and pool) and prints both sides.
func replay(r *vlib.Run, defs []*def, pools []*pool) {
	b, err := os.ReadFile(r.ReplayArg)
	if err != nil {
		fmt.Fprintln(os.Stderr, err)
		os.Exit(2)
	}
	var f struct {
		Detail struct {
			Pool      string `json:"pool"`
			GroupBody string `json:"group_body"`
		} `json:"detail"`
	}
	if err := json.Unmarshal(b, &f); err != nil {
		fmt.Fprintln(os.Stderr, err)
		os.Exit(2)
	}
	var d *def
	for _, x := range defs {
		if x.body() == f.Detail.GroupBody {
			d = x
		}
	}
	var p *pool
	for _, x := range pools {
		if x.String() == f.Detail.Pool {
			p = x
		}
	}
	if d == nil || p == nil {
		fmt.Fprintln(os.Stderr, "replay: case not in this tier's enumeration")
		os.Exit(2)
	}
	fmt.Printf("replay: pool=%s\n%s", p, confText(d.body()))
	g, stage, perr := parseGroup(d.body())
	if perr != nil {
		fmt.Printf("real: %s error: %v\n", stage, perr)
	} else {
		var pol *outbound.DialerSelectionPolicy
		var ds []*dialer.Dialer
		var an []*dialer.Annotation
		var err error
		if pn, msg := vlib.Try(func() { pol, ds, an, err = buildGroup(p.set, g) }); pn {
			fmt.Printf("real: PANIC %s\n", msg)
		} else if err != nil {
			fmt.Printf("real: error: %v\n", err)
		} else {
			gi, gl := gotMembers(p, ds, an)
			fmt.Printf("real: accepted members=%s policy=%v/%d\n", fmtMembers(p, gi, gl), pol.Policy, pol.FixedIndex)
		}
	}
	exp := d.static
	var m, lo [8]int
	n := 0
	if d.static == 0 {
		n = refGroup(d, p, &m, &lo)
	}
	if d.static == 0 && d.pol.isFixed && n > 0 && d.pol.fixed >= n {
		exp |= kindBit[kFixedBeyond]
	}
	if exp != 0 {
		fmt.Printf("reference: configuration error (%s)\n", kindsText(exp))
	} else {
		wl := make([]time.Duration, n)
		for j := 0; j < n; j++ {
			if lo[j] >= 0 {
				wl[j] = d.lines[lo[j]].anno.latency
			}
		}
		fmt.Printf("reference: members=%s policy=%s\n", fmtMembers(p, m[:n], wl), d.pol.text)
	}
	os.Exit(0)
}
