// c20gen: generates the C20 worker / main-loop model FROM cmd/run.go of the current working tree.
//
// It builds the control-flow graph (golang.org/x/tools/go/cfg) of
//   - the reload worker closure of (*Runner).Run  (`for req := range reloadManager.reloadReqs { ... }`) and
//   - the main signal loop                         (`loop: for { select { case sig := <-sigs: ... case <-runStateChanges: ... } }`),
//
// enumerates ALL acyclic paths of one loop iteration and projects every path onto the sequence of PRIMITIVE
// EVENTS it contains (calls on the reloadManager, reloadActive/reloading stores, setRunSignalProgress,
// clearReloadPending, notifyRunStateChange, goroutine spawns, waitReloadReadyOrSignal, ...).
//
// Conditions are split into atoms with Go's short-circuit semantics. An atom is
//   - REAL   when it only mentions values the model owns for real (req, sig, handoff==nil, reloadErr, waitResult,
//     termSig, getters of the real reloadManager): it becomes a guard step evaluated at run time on the real
//     manager, at the position where the source evaluates it;
//   - OPAQUE otherwise (outcome of building control planes, listeners, config parsing ...): both outcomes are
//     explored. Correlation rule: an opaque, call-free atom evaluated twice on a path without an intervening
//     assignment to one of its identifiers must agree (x != y is normalised to !(x == y)).
//
// Paths whose projections coincide are merged. The output is Go source: one step list per projected path whose
// steps CALL THE REAL PRIMITIVES on the harness's real reloadManager.
//
// Binding guards (exit 2): any call on `reloadManager` that is not in the recognised table, any direct use of the
// lower-level primitives in Run(), any stray use of reloadManager / runStateChanges / reloadReqs outside a
// recognised event, an inner loop or a non-top-level select inside the extracted regions. Functions the harness
// executes for real (startControlPlaneRetirement, the admission/release primitives) are NOT structurally pinned.
package main

import (
	"bytes"
	"crypto/sha256"
	"flag"
	"fmt"
	"go/ast"
	"go/format"
	"go/parser"
	"go/printer"
	"go/token"
	"os"
	"path/filepath"
	"sort"
	"strconv"
	"strings"

	"golang.org/x/tools/go/cfg"
)

var fset = token.NewFileSet()

func die(f string, a ...any) {
	fmt.Fprintf(os.Stderr, "c20gen: "+f+"\n", a...)
	os.Exit(2)
}

func txt(n ast.Node) string {
	var b bytes.Buffer
	printer.Fprint(&b, fset, n)
	return strings.Join(strings.Fields(b.String()), " ")
}

func line(n ast.Node) int { return fset.Position(n.Pos()).Line }

// ---- step model --------------------------------------------------------------------------------

const (
	kEv    = "ev"
	kGuard = "guard"
)

type step struct {
	kind string
	name string // content identity (no line numbers): used for merging and for the run-time trie walk
	code string // Go statement(s) (kind ev) or boolean expression (kind guard) on receiver h
	want bool
	ln   int
}

func (s step) key() string {
	if s.kind == kGuard {
		return fmt.Sprintf("G[%s]=%v", s.name, s.want)
	}
	return "E[" + s.name + "]"
}

type path struct {
	steps []step
	exit  string   // "" = back to the loop head; otherwise why the process leaves the loop
	trace []string // opaque decisions taken (first representative)
	raw   int
	sites map[int]bool // source line of the last event of every CFG path merged into this projection
}

// ---- identifiers the model owns for real ---------------------------------------------------------

var realVarRename = map[string]string{
	"req":        "h.req",
	"sig":        "h.sig",
	"handoff":    "h.handoff",
	"reloadErr":  "h.reloadErr",
	"waitResult": "h.waitResult",
	"termSig":    "h.termSig",
}

var sensitive = map[string]bool{"reloadManager": true, "runStateChanges": true, "reloadReqs": true}

var getters = map[string]bool{
	"reloadManager.reloading.Load":              true,
	"reloadManager.reloadActive.Load":           true,
	"reloadManager.reloadPending.Load":          true,
	"reloadManager.currentPendingStagedHandoff": true,
	"reloadManager.reloadError":                 true,
}

var forbiddenDirect = map[string]bool{
	"tryQueueReloadRequest": true, "restoreRejectedReloadProgress": true, "clearRejectedReloadProgress": true,
	"releaseReloadPendingAfterRetirement": true, "beginReloadHandoff": true,
	"beginReloadProxyFailureSuppression": true, "endReloadProxyFailureSuppression": true,
}

type gen struct {
	file     *ast.File
	imports  map[string]bool // package names imported by run.go
	topLevel map[string]bool // package-level identifiers of package cmd
	commStmt map[ast.Node]bool
	caseOf   map[*ast.CaseClause]*ast.SwitchStmt
	topSel   *ast.SelectStmt
	role     string
}

// ---- recognisers ---------------------------------------------------------------------------------

type recog struct {
	st     step
	getter bool // pure read of the real manager (allowed inside guards)
}

func boolLit(e ast.Expr) (string, bool) {
	if id, ok := e.(*ast.Ident); ok && (id.Name == "true" || id.Name == "false") {
		return id.Name, true
	}
	return "", false
}

// recognise maps one call expression of Run() onto a model step. lhs = names assigned from the call (statement level).
func (g *gen) recognise(call *ast.CallExpr, lhs []string) (*recog, error) {
	fn := txt(call.Fun)
	ln := line(call)
	errf := func(f string, a ...any) (*recog, error) {
		return nil, fmt.Errorf("run.go:%d: %s: %s", ln, txt(call), fmt.Sprintf(f, a...))
	}
	ev := func(name, code string) (*recog, error) {
		return &recog{st: step{kind: kEv, name: name, code: code, ln: ln}}, nil
	}
	nargs := len(call.Args)
	if forbiddenDirect[fn] {
		return errf("direct use of a lower-level primitive inside Run(): the C20 model table must be extended")
	}
	switch fn {
	case "reloadManager.reloadActive.Store", "reloadManager.reloading.Store", "reloadManager.reloadPending.Store":
		if nargs != 1 {
			return errf("want 1 arg")
		}
		b, ok := boolLit(call.Args[0])
		if !ok {
			return errf("Store argument is not a boolean literal")
		}
		f := strings.TrimPrefix(strings.TrimSuffix(fn, ".Store"), "reloadManager.")
		return ev(f+".Store("+b+")", "h.m."+f+".Store("+b+")")
	case "reloadManager.reloading.Load", "reloadManager.reloadActive.Load", "reloadManager.reloadPending.Load":
		f := strings.TrimPrefix(strings.TrimSuffix(fn, ".Load"), "reloadManager.")
		return &recog{getter: true, st: step{kind: kEv, name: f + ".Load()", code: "_ = h.m." + f + ".Load()", ln: ln}}, nil
	case "reloadManager.coalesceReloadRequest":
		if nargs != 1 || txt(call.Args[0]) != "req" || len(lhs) != 1 || lhs[0] != "req" {
			return errf("expected `req = reloadManager.coalesceReloadRequest(req)`")
		}
		return ev("coalesceReloadRequest(req)", "h.req = h.m.coalesceReloadRequest(h.req)")
	case "reloadManager.setReloadError":
		if nargs != 1 {
			return errf("want 1 arg")
		}
		if txt(call.Args[0]) == "nil" {
			return ev("setReloadError(nil)", "h.m.setReloadError(nil)")
		}
		return ev("setReloadError(err)", "h.m.setReloadError(c20ModelErr)")
	case "reloadManager.reloadError":
		if len(lhs) == 1 && lhs[0] == "reloadErr" {
			return &recog{getter: true, st: step{kind: kEv, name: "reloadErr = reloadError()", code: "h.reloadErr = h.m.reloadError()", ln: ln}}, nil
		}
		return &recog{getter: true, st: step{kind: kEv, name: "reloadError()", code: "_ = h.m.reloadError()", ln: ln}}, nil
	case "reloadManager.currentPendingStagedHandoff":
		if len(lhs) == 1 && lhs[0] == "handoff" {
			return &recog{getter: true, st: step{kind: kEv, name: "handoff = currentPendingStagedHandoff()", code: "h.handoff = h.m.currentPendingStagedHandoff()", ln: ln}}, nil
		}
		return &recog{getter: true, st: step{kind: kEv, name: "currentPendingStagedHandoff()", code: "_ = h.m.currentPendingStagedHandoff()", ln: ln}}, nil
	case "reloadManager.setPendingStagedHandoff":
		if nargs != 3 || !strings.HasPrefix(txt(call.Args[0]), "&stagedReloadHandoff{") {
			return errf("expected (&stagedReloadHandoff{...}, requestedAt, requestedAtMono)")
		}
		return ev("setPendingStagedHandoff(&stagedReloadHandoff{...})", "h.m.setPendingStagedHandoff(h.newHandoff(), h.req.requestedAt, h.req.requestedAtMono)")
	case "reloadManager.setPendingReloadMetadata":
		if nargs != 2 {
			return errf("want 2 args")
		}
		return ev("setPendingReloadMetadata()", "h.m.setPendingReloadMetadata(h.req.requestedAt, h.req.requestedAtMono)")
	case "reloadManager.clearPendingStagedHandoff", "reloadManager.clearPendingRetirement", "reloadManager.beginHandoff",
		"reloadManager.finishReloadSuccess", "reloadManager.finishReloadFailure":
		if nargs != 0 {
			return errf("want 0 args")
		}
		m := strings.TrimPrefix(fn, "reloadManager.")
		return ev(m+"()", "h.m."+m+"()")
	case "reloadManager.takePendingRetirementDone":
		return errf("direct use of takePendingRetirementDone inside Run(): the C20 model table must be extended")
	case "reloadManager.startControlPlaneRetirement":
		if nargs != 6 {
			return errf("want 6 args")
		}
		return ev("startControlPlaneRetirement()", "h.startRetirement()")
	case "reloadManager.refreshPprofServer":
		return ev("refreshPprofServer()", "h.m.refreshPprofServer(h.log, &h.pprof, 0)")
	case "reloadManager.installPreparedDNSHandoffHooks":
		return ev("installPreparedDNSHandoffHooks()", "h.m.installPreparedDNSHandoffHooks(h.log, nil, nil)")
	case "reloadManager.pendingDNSHandoffActive":
		return ev("pendingDNSHandoffActive()", "_ = h.m.pendingDNSHandoffActive(nil)")
	case "reloadManager.buildShutdownHandoff":
		return ev("buildShutdownHandoff()", "_ = h.m.buildShutdownHandoff()")
	case "reloadManager.queueReloadRequest":
		if nargs != 2 || txt(call.Args[0]) != "log" {
			return errf("expected (log, reloadRequest{...})")
		}
		cl, ok := call.Args[1].(*ast.CompositeLit)
		if !ok || txt(cl.Type) != "reloadRequest" {
			return errf("second argument is not a reloadRequest literal")
		}
		susp := ""
		for _, el := range cl.Elts {
			kv, ok := el.(*ast.KeyValueExpr)
			if !ok {
				return errf("unkeyed reloadRequest literal")
			}
			switch txt(kv.Key) {
			case "isSuspend":
				b, ok := boolLit(kv.Value)
				if !ok {
					return errf("isSuspend is not a literal")
				}
				susp = b
			case "requestedAt":
				if txt(kv.Value) != "time.Now()" {
					return errf("requestedAt is not time.Now()")
				}
			case "requestedAtMono":
				if txt(kv.Value) != "monotonicNowNano()" {
					return errf("requestedAtMono is not monotonicNowNano()")
				}
			default:
				return errf("unknown reloadRequest field %s", txt(kv.Key))
			}
		}
		if susp == "" {
			susp = "false"
		}
		return ev("queueReloadRequest(isSuspend:"+susp+")",
			"h.admit("+susp+", func() bool { return h.m.queueReloadRequest(h.log, "+txt(cl)+") })")
	case "setRunSignalProgress":
		if nargs != 2 {
			return errf("want 2 args")
		}
		code := txt(call.Args[0])
		if !strings.HasPrefix(code, "consts.Reload") {
			return errf("progress code is not a consts.Reload* constant")
		}
		return ev("setRunSignalProgress("+strings.TrimPrefix(code, "consts.")+")", "_ = setRunSignalProgress("+code+", \"c20-model\")")
	case "clearReloadPending":
		if nargs != 1 || txt(call.Args[0]) != "&reloadManager.reloadPending" {
			return errf("expected (&reloadManager.reloadPending)")
		}
		return ev("clearReloadPending()", "clearReloadPending(&h.m.reloadPending)")
	case "notifyRunStateChange":
		if nargs != 1 || txt(call.Args[0]) != "runStateChanges" {
			return errf("expected (runStateChanges)")
		}
		return ev("notifyRunStateChange()", "notifyRunStateChange(h.m.runStateChanges)")
	case "resetReloadProxyRuntimeState":
		return ev("resetReloadProxyRuntimeState()", "resetReloadProxyRuntimeState()")
	case "waitReloadReadyOrSignal":
		if nargs != 4 || txt(call.Args[0]) != "log" || txt(call.Args[1]) != "sigs" || txt(call.Args[2]) != "readyChan" {
			return errf("expected (log, sigs, readyChan, timeout)")
		}
		if len(lhs) != 2 || lhs[0] != "waitResult" || lhs[1] != "termSig" {
			return errf("expected `waitResult, termSig := waitReloadReadyOrSignal(...)`")
		}
		return ev("waitResult, termSig = waitReloadReadyOrSignal()",
			"h.waitResult, h.termSig = h.waitReady(func() (reloadReadyWaitResult, os.Signal) { return waitReloadReadyOrSignal(h.log, h.m.sigs, h.readyChan, "+txt(call.Args[3])+") })")
	}
	if strings.HasPrefix(fn, "reloadManager.") {
		return errf("operation on the reloadManager that the C20 model table does not know")
	}
	return nil, nil
}

// ---- scanning a CFG node for events ---------------------------------------------------------------

type scanState struct {
	steps    []step
	consumed [][2]token.Pos
	kills    []string // identifiers assigned
}

func (g *gen) inConsumed(s *scanState, p token.Pos) bool {
	for _, r := range s.consumed {
		if p >= r[0] && p < r[1] {
			return true
		}
	}
	return false
}

// scanCalls walks n in evaluation (post-) order, recognising calls; FuncLits are not entered.
func (g *gen) scanCalls(n ast.Node, s *scanState, lhsFor *ast.CallExpr, lhs []string) error {
	var err error
	var walk func(n ast.Node)
	walk = func(n ast.Node) {
		if n == nil || err != nil {
			return
		}
		switch x := n.(type) {
		case *ast.FuncLit:
			// synchronous callbacks / deferred closures: must not touch the modelled state
			if e := g.strayCheck(x, &scanState{}); e != nil {
				err = fmt.Errorf("%v (inside a function literal that is not started with `go`)", e)
			}
			return
		case *ast.CallExpr:
			for _, a := range x.Args {
				walk(a)
			}
			walk(x.Fun)
			var l []string
			if x == lhsFor {
				l = lhs
			}
			r, e := g.recognise(x, l)
			if e != nil {
				err = e
				return
			}
			if r != nil {
				s.steps = append(s.steps, r.st)
				s.consumed = append(s.consumed, [2]token.Pos{x.Pos(), x.End()})
			}
			for _, a := range x.Args {
				if u, ok := a.(*ast.UnaryExpr); ok && u.Op == token.AND {
					if id := rootIdent(u.X); id != "" {
						s.kills = append(s.kills, id)
					}
				}
			}
			return
		}
		// generic traversal of children in source order
		ast.Inspect(n, func(c ast.Node) bool {
			if c == n || c == nil {
				return true
			}
			walk(c)
			return false
		})
	}
	walk(n)
	return err
}

func rootIdent(e ast.Expr) string {
	for {
		switch x := e.(type) {
		case *ast.Ident:
			return x.Name
		case *ast.SelectorExpr:
			e = x.X
		case *ast.ParenExpr:
			e = x.X
		case *ast.StarExpr:
			e = x.X
		case *ast.IndexExpr:
			e = x.X
		default:
			return ""
		}
	}
}

// strayCheck fails when a sensitive identifier is used outside every recognised event of the node.
func (g *gen) strayCheck(n ast.Node, s *scanState) error {
	var err error
	ast.Inspect(n, func(c ast.Node) bool {
		if id, ok := c.(*ast.Ident); ok && sensitive[id.Name] && err == nil && !g.inConsumed(s, id.Pos()) {
			err = fmt.Errorf("run.go:%d: use of %q outside every recognised reload primitive: the C20 model table must be extended (%s)", line(id), id.Name, txt(n))
		}
		return true
	})
	return err
}

func lhsNames(lhs []ast.Expr) []string {
	var out []string
	for _, e := range lhs {
		if id, ok := e.(*ast.Ident); ok {
			out = append(out, id.Name)
		} else {
			out = append(out, rootIdent(e))
		}
	}
	return out
}

// spawnStep models `go func() { ... }()`: the recognised events inside the literal (any depth, source order)
// become the tail of a harness thread.
func (g *gen) spawnStep(gs *ast.GoStmt) (step, error) {
	lit, ok := gs.Call.Fun.(*ast.FuncLit)
	if !ok {
		s := &scanState{}
		if err := g.strayCheck(gs, s); err != nil {
			return step{}, err
		}
		return step{}, nil
	}
	s := &scanState{}
	var err error
	ast.Inspect(lit.Body, func(c ast.Node) bool {
		if call, ok := c.(*ast.CallExpr); ok && err == nil {
			r, e := g.recognise(call, nil)
			if e != nil {
				err = e
				return false
			}
			if r != nil {
				s.steps = append(s.steps, r.st)
				s.consumed = append(s.consumed, [2]token.Pos{call.Pos(), call.End()})
			}
		}
		return true
	})
	if err != nil {
		return step{}, err
	}
	if err := g.strayCheck(lit, s); err != nil {
		return step{}, err
	}
	usesReady := false
	ast.Inspect(lit.Body, func(c ast.Node) bool {
		if id, ok := c.(*ast.Ident); ok && id.Name == "readyChan" {
			usesReady = true
		}
		return true
	})
	if len(s.steps) == 0 && !usesReady {
		return step{}, nil
	}
	var names, codes []string
	for _, st := range s.steps {
		names = append(names, st.name)
		codes = append(codes, st.code)
	}
	kind := "spawn"
	fn := "h.spawn"
	if usesReady {
		kind = "spawn-serve"
		fn = "h.spawnServe"
	}
	return step{kind: kEv, ln: line(gs), name: "go " + kind + "{" + strings.Join(names, "; ") + "}",
		code: fn + "(func(h *c20H) { " + strings.Join(codes, "; ") + " })"}, nil
}

// nodeSteps returns the steps and the killed identifiers of one non-condition CFG node.
func (g *gen) nodeSteps(n ast.Node) ([]step, []string, error) {
	if g.commStmt[n] {
		return nil, nil, nil // comm clause of the top-level select: performed by the harness main loop itself
	}
	s := &scanState{}
	switch x := n.(type) {
	case *ast.GoStmt:
		st, err := g.spawnStep(x)
		if err != nil {
			return nil, nil, err
		}
		if st.kind != "" {
			return []step{st}, nil, nil
		}
		return nil, nil, nil
	case *ast.AssignStmt:
		names := lhsNames(x.Lhs)
		s.kills = append(s.kills, names...)
		if len(x.Rhs) == 1 {
			if call, ok := x.Rhs[0].(*ast.CallExpr); ok {
				if err := g.scanCalls(call, s, call, names); err != nil {
					return nil, nil, err
				}
				break
			}
			// readyChan := make(chan bool, 1)
		}
		for _, r := range x.Rhs {
			if err := g.scanCalls(r, s, nil, nil); err != nil {
				return nil, nil, err
			}
		}
		for _, l := range x.Lhs {
			if _, ok := l.(*ast.Ident); !ok {
				if err := g.scanCalls(l, s, nil, nil); err != nil {
					return nil, nil, err
				}
			}
		}
	case *ast.ValueSpec:
		for _, id := range x.Names {
			s.kills = append(s.kills, id.Name)
		}
		for _, v := range x.Values {
			if err := g.scanCalls(v, s, nil, nil); err != nil {
				return nil, nil, err
			}
		}
	case *ast.IncDecStmt:
		s.kills = append(s.kills, rootIdent(x.X))
	case *ast.SendStmt:
		if err := g.scanCalls(x.Value, s, nil, nil); err != nil {
			return nil, nil, err
		}
	case *ast.ReturnStmt:
		for _, r := range x.Results {
			if err := g.scanCalls(r, s, nil, nil); err != nil {
				return nil, nil, err
			}
		}
	case *ast.DeferStmt:
		return nil, nil, fmt.Errorf("run.go:%d: defer inside an extracted loop region is not supported", line(x))
	default:
		if err := g.scanCalls(n, s, nil, nil); err != nil {
			return nil, nil, err
		}
	}
	if as, ok := n.(*ast.AssignStmt); ok && len(as.Lhs) == 1 && len(as.Rhs) == 1 && txt(as.Lhs[0]) == "readyChan" {
		if strings.HasPrefix(txt(as.Rhs[0]), "make(chan bool") {
			s.steps = append(s.steps, step{kind: kEv, ln: line(n), name: "readyChan = " + txt(as.Rhs[0]), code: "h.readyChan = " + txt(as.Rhs[0])})
		} else {
			return nil, nil, fmt.Errorf("run.go:%d: readyChan is not created by make(chan bool, n)", line(n))
		}
	}
	if err := g.strayCheck(n, s); err != nil {
		return nil, nil, err
	}
	return s.steps, s.kills, nil
}

// ---- conditions -----------------------------------------------------------------------------------

type atom struct {
	e    ast.Expr
	want bool
}

// branches expands "e evaluates to v" into alternatives of atom sequences with short-circuit order.
func branches(e ast.Expr, v bool) [][]atom {
	switch x := e.(type) {
	case *ast.ParenExpr:
		return branches(x.X, v)
	case *ast.UnaryExpr:
		if x.Op == token.NOT {
			return branches(x.X, !v)
		}
	case *ast.BinaryExpr:
		if x.Op == token.LAND || x.Op == token.LOR {
			and := x.Op == token.LAND
			// a && b == true : a,b true.  a && b == false : a false | a true, b false.   (|| is the dual)
			var out [][]atom
			if v == and {
				for _, A := range branches(x.X, and) {
					for _, B := range branches(x.Y, and) {
						out = append(out, append(append([]atom{}, A...), B...))
					}
				}
				return out
			}
			out = append(out, branches(x.X, !and)...)
			for _, A := range branches(x.X, and) {
				for _, B := range branches(x.Y, !and) {
					out = append(out, append(append([]atom{}, A...), B...))
				}
			}
			return out
		}
	}
	return [][]atom{{{e, v}}}
}

// normAtom returns the memo key and the possibly flipped value (x != y  ==  !(x == y)).
func normAtom(e ast.Expr, v bool) (string, bool) {
	if b, ok := e.(*ast.BinaryExpr); ok && b.Op == token.NEQ {
		return txt(b.X) + " == " + txt(b.Y), !v
	}
	return txt(e), v
}

func identsOf(e ast.Node) []string {
	var out []string
	ast.Inspect(e, func(c ast.Node) bool {
		if id, ok := c.(*ast.Ident); ok {
			out = append(out, id.Name)
		}
		return true
	})
	return out
}

func hasCallOrRecv(e ast.Node) bool {
	found := false
	ast.Inspect(e, func(c ast.Node) bool {
		switch x := c.(type) {
		case *ast.CallExpr:
			found = true
		case *ast.UnaryExpr:
			if x.Op == token.ARROW {
				found = true
			}
		}
		return !found
	})
	return found
}

// realGuard decides whether the atom can be evaluated on the real harness state; returns the Go expression.
func (g *gen) realGuard(e ast.Expr, real map[string]bool) (string, bool) {
	ok := true
	var render func(e ast.Expr) string
	render = func(e ast.Expr) string {
		switch x := e.(type) {
		case *ast.ParenExpr:
			return "(" + render(x.X) + ")"
		case *ast.BinaryExpr:
			return render(x.X) + " " + x.Op.String() + " " + render(x.Y)
		case *ast.UnaryExpr:
			if x.Op == token.ARROW {
				ok = false
				return ""
			}
			return x.Op.String() + render(x.X)
		case *ast.BasicLit:
			return x.Value
		case *ast.Ident:
			switch x.Name {
			case "nil", "true", "false":
				return x.Name
			}
			if r, isReal := realVarRename[x.Name]; isReal && real[x.Name] {
				return r
			}
			if g.topLevel[x.Name] {
				return x.Name
			}
			ok = false
			return ""
		case *ast.SelectorExpr:
			if id, isId := x.X.(*ast.Ident); isId {
				if g.imports[id.Name] {
					return id.Name + "." + x.Sel.Name
				}
				if id.Name == "req" && real["req"] {
					return "h.req." + x.Sel.Name // the request is the real value taken from the real channel
				}
			}
			ok = false // fields of the stand-in handoff etc. are not real
			return ""
		case *ast.CallExpr:
			fn := txt(x.Fun)
			if getters[fn] && len(x.Args) == 0 {
				return "h.m." + strings.TrimPrefix(fn, "reloadManager.") + "()"
			}
			ok = false
			return ""
		}
		ok = false
		return ""
	}
	s := render(e)
	return s, ok
}

// ---- path enumeration -----------------------------------------------------------------------------

type walker struct {
	g        *gen
	head     *cfg.Block // loop head: reaching it again ends the iteration
	paths    map[string]*path
	order    []string
	rawCount int
	err      error
}

type pstate struct {
	steps []step
	facts map[string]bool
	real  map[string]bool
	trace []string
	seen  map[int32]bool
}

func (p *pstate) clone() *pstate {
	q := &pstate{steps: append([]step{}, p.steps...), facts: map[string]bool{}, real: map[string]bool{}, trace: append([]string{}, p.trace...), seen: map[int32]bool{}}
	for k, v := range p.facts {
		q.facts[k] = v
	}
	for k, v := range p.real {
		q.real[k] = v
	}
	for k, v := range p.seen {
		q.seen[k] = v
	}
	return q
}

func (p *pstate) kill(names []string) {
	for _, n := range names {
		if n == "" || n == "_" {
			continue
		}
		for k := range p.facts {
			for _, id := range strings.FieldsFunc(k, func(r rune) bool {
				return !(r == '_' || r >= '0' && r <= '9' || r >= 'a' && r <= 'z' || r >= 'A' && r <= 'Z')
			}) {
				if id == n {
					delete(p.facts, k)
					break
				}
			}
		}
	}
}

func (w *walker) finish(p *pstate, exit string) {
	w.rawCount++
	var ks []string
	for _, s := range p.steps {
		ks = append(ks, s.key())
	}
	key := exit + "|" + strings.Join(ks, "|")
	last := 0
	for _, s := range p.steps {
		if s.kind == kEv {
			last = s.ln
		}
	}
	if q, ok := w.paths[key]; ok {
		q.raw++
		q.sites[last] = true
		return
	}
	w.paths[key] = &path{steps: p.steps, exit: exit, trace: p.trace, raw: 1, sites: map[int]bool{last: true}}
	w.order = append(w.order, key)
}

func exitKind(b *cfg.Block) string {
	// a block without successors: return, or a call that never returns (log.Fatal*, os.Exit, panic)
	if len(b.Nodes) > 0 {
		last := b.Nodes[len(b.Nodes)-1]
		if _, ok := last.(*ast.ReturnStmt); ok {
			return "return from Run (shutdown)"
		}
		if es, ok := last.(*ast.ExprStmt); ok {
			return "process exit: " + txt(es.X)
		}
	}
	return "end"
}

func mayReturn(call *ast.CallExpr) bool {
	fn := txt(call.Fun)
	if fn == "panic" || fn == "os.Exit" {
		return false
	}
	if i := strings.LastIndex(fn, "."); i >= 0 && strings.HasPrefix(fn[i+1:], "Fatal") {
		return false
	}
	return true
}

func (w *walker) visit(b *cfg.Block, p *pstate, first bool) {
	if w.err != nil {
		return
	}
	if b == w.head && !first {
		w.finish(p, "")
		return
	}
	if p.seen[b.Index] {
		w.err = fmt.Errorf("run.go:%d: inner loop inside an extracted loop region is not supported (block %s)", lineOfBlock(b), b.String())
		return
	}
	p.seen[b.Index] = true
	nodes := b.Nodes
	var cond ast.Expr
	condKind := ""
	if len(b.Succs) == 2 {
		switch b.Succs[0].Kind {
		case cfg.KindSelectCaseBody:
			condKind = "select"
		case cfg.KindRangeBody:
			condKind = "range"
		case cfg.KindSwitchCaseBody:
			condKind = "case"
			cond, _ = nodes[len(nodes)-1].(ast.Expr)
			nodes = nodes[:len(nodes)-1]
		default:
			condKind = "if"
			cond, _ = nodes[len(nodes)-1].(ast.Expr)
			nodes = nodes[:len(nodes)-1]
		}
	}
	for _, n := range nodes {
		steps, kills, err := w.g.nodeSteps(n)
		if err != nil {
			w.err = err
			return
		}
		// real-variable tracking: a recognised assignment makes the variable real, any other assignment opaque
		assignedReal := map[string]bool{}
		for _, s := range steps {
			for v, r := range realVarRename {
				if strings.HasPrefix(s.code, r+" = ") || strings.Contains(s.code, ", "+r+" = ") || strings.HasPrefix(s.code, r+", ") {
					assignedReal[v] = true
				}
			}
		}
		for _, k := range kills {
			if _, isRealVar := realVarRename[k]; isRealVar {
				p.real[k] = assignedReal[k]
			}
		}
		p.kill(kills)
		p.steps = append(p.steps, steps...)
	}
	switch len(b.Succs) {
	case 0:
		if b.Kind == cfg.KindSelectAfterCase {
			return // "no comm clause was taken": not a behaviour
		}
		w.finish(p, exitKind(b))
	case 1:
		w.visit(b.Succs[0], p, false)
	case 2:
		switch condKind {
		case "range":
			w.err = fmt.Errorf("run.go:%d: nested range loop in an extracted region is not supported", lineOfBlock(b))
		case "select":
			cc := b.Succs[0].Stmt.(*ast.CommClause)
			sel := w.g.topSel
			idx := -1
			if sel != nil {
				for i, c := range sel.Body.List {
					if c == ast.Stmt(cc) {
						idx = i
					}
				}
			}
			if idx < 0 {
				w.err = fmt.Errorf("run.go:%d: select statement other than the top-level select of the main loop is not supported", line(cc))
				return
			}
			name := "select: " + txt(cc.Comm)
			q := p.clone()
			q.steps = append(q.steps, step{kind: kGuard, name: name, code: fmt.Sprintf("h.selCase == %d", idx), want: true, ln: line(cc)})
			if as, ok := cc.Comm.(*ast.AssignStmt); ok {
				for _, n := range lhsNames(as.Lhs) {
					if _, isReal := realVarRename[n]; isReal {
						q.real[n] = true
					}
				}
			}
			w.visit(b.Succs[0], q, false)
			// not this clause: the same guard with the opposite outcome (keeps the dispatch a single real decision)
			nq := p.clone()
			nq.steps = append(nq.steps, step{kind: kGuard, name: name, code: fmt.Sprintf("h.selCase == %d", idx), want: false, ln: line(cc)})
			w.visit(b.Succs[1], nq, false)
		default:
			var ce ast.Expr = cond
			if condKind == "case" {
				cl := b.Succs[0].Stmt.(*ast.CaseClause)
				sw := w.g.caseOf[cl]
				if sw != nil && sw.Tag != nil {
					ce = &ast.BinaryExpr{X: sw.Tag, Op: token.EQL, Y: cond}
				}
			}
			if ce == nil {
				w.err = fmt.Errorf("run.go:%d: conditional block without a condition expression", lineOfBlock(b))
				return
			}
			for _, v := range []bool{true, false} {
				succ := b.Succs[0]
				if !v {
					succ = b.Succs[1]
				}
				for _, alt := range branches(ce, v) {
					q := p.clone()
					if w.assume(q, alt, line(condPos(ce, cond))) {
						w.visit(succ, q, false)
					}
				}
			}
		}
	}
}

func condPos(ce, cond ast.Expr) ast.Node {
	if cond != nil {
		return cond
	}
	return ce
}

func lineOfBlock(b *cfg.Block) int {
	if len(b.Nodes) > 0 {
		return line(b.Nodes[0])
	}
	if b.Stmt != nil {
		return line(b.Stmt)
	}
	return 0
}

// assume applies the atoms in order; false = the alternative contradicts what the path already knows.
func (w *walker) assume(p *pstate, alt []atom, ln int) bool {
	for _, a := range alt {
		if code, ok := w.g.realGuard(a.e, p.real); ok {
			key, want := normAtom(a.e, a.want)
			gcode := code
			if be, isB := a.e.(*ast.BinaryExpr); isB && be.Op == token.NEQ {
				// render the normalised form so that x != y and x == y share one guard name
				l, _ := w.g.realGuard(be.X, p.real)
				r, _ := w.g.realGuard(be.Y, p.real)
				gcode = l + " == " + r
			}
			// a call-free real atom already decided on this path must agree, and is not re-evaluated
			if !hasCallOrRecv(a.e) {
				if prev, seen := p.facts["real:"+key]; seen {
					if prev != want {
						return false
					}
					continue
				}
				p.facts["real:"+key] = want
			}
			p.steps = append(p.steps, step{kind: kGuard, name: key, code: gcode, want: want, ln: ln})
			continue
		}
		// opaque atom
		if err := w.g.strayCheck(a.e, &scanState{}); err != nil {
			w.err = fmt.Errorf("%v (inside a condition that the model cannot evaluate for real)", err)
			return false
		}
		key, want := normAtom(a.e, a.want)
		if !hasCallOrRecv(a.e) {
			if prev, seen := p.facts[key]; seen {
				if prev != want {
					return false // correlation rule: same expression, no intervening assignment, must agree
				}
				continue
			}
			p.facts[key] = want
		}
		p.trace = append(p.trace, fmt.Sprintf("L%d:%s=%v", ln, key, want))
	}
	return true
}

// ---- locating the regions --------------------------------------------------------------------------

func findRegions(f *ast.File) (fn *ast.FuncDecl, worker *ast.RangeStmt, mainLoop *ast.LabeledStmt) {
	for _, d := range f.Decls {
		fd, ok := d.(*ast.FuncDecl)
		if !ok || fd.Body == nil {
			continue
		}
		var w *ast.RangeStmt
		var m *ast.LabeledStmt
		ast.Inspect(fd.Body, func(n ast.Node) bool {
			switch x := n.(type) {
			case *ast.RangeStmt:
				if txt(x.X) == "reloadManager.reloadReqs" && w == nil {
					w = x
				}
			case *ast.LabeledStmt:
				if fs, ok := x.Stmt.(*ast.ForStmt); ok && fs.Cond == nil && m == nil {
					for _, s := range fs.Body.List {
						if sel, ok := s.(*ast.SelectStmt); ok {
							for _, c := range sel.Body.List {
								if cc := c.(*ast.CommClause); cc.Comm != nil && strings.Contains(txt(cc.Comm), "<-runStateChanges") {
									m = x
								}
							}
						}
					}
				}
			}
			return true
		})
		if w != nil && m != nil {
			return fd, w, m
		}
	}
	return nil, nil, nil
}

func (g *gen) index(root ast.Node) {
	ast.Inspect(root, func(n ast.Node) bool {
		switch x := n.(type) {
		case *ast.SwitchStmt:
			for _, c := range x.Body.List {
				g.caseOf[c.(*ast.CaseClause)] = x
			}
		}
		return true
	})
}

func (g *gen) extract(role string, root ast.Stmt, findHead func(c *cfg.CFG) (*cfg.Block, *cfg.Block)) ([]*path, int) {
	g.role = role
	c := cfg.New(&ast.BlockStmt{List: []ast.Stmt{root}}, mayReturn)
	head, start := findHead(c)
	if head == nil || start == nil {
		die("%s: cannot locate the loop head in the CFG", role)
	}
	w := &walker{g: g, head: head, paths: map[string]*path{}}
	p := &pstate{facts: map[string]bool{}, real: map[string]bool{}, seen: map[int32]bool{}}
	if role == "worker" {
		p.real["req"] = true // `for req := range reloadManager.reloadReqs`: the real value received from the real channel
	}
	w.visit(start, p, start == head)
	if w.err != nil {
		die("%v", w.err)
	}
	var out []*path
	for _, k := range w.order {
		out = append(out, w.paths[k])
	}
	return out, w.rawCount
}

// ---- construction statements of Run() ------------------------------------------------------------------

func constructionStmts(fn *ast.FuncDecl) []string {
	want := map[string]string{
		"sigs":            "make(chan os.Signal, ",
		"runStateChanges": "make(chan struct{}, ",
		"reloadReqs":      "make(chan reloadRequest, ",
		"reloadManager":   "newReloadManager(reloadReqs, runStateChanges, sigs)",
	}
	got := map[string]string{}
	for _, s := range fn.Body.List {
		as, ok := s.(*ast.AssignStmt)
		if !ok || as.Tok != token.DEFINE || len(as.Lhs) != 1 || len(as.Rhs) != 1 {
			continue
		}
		name := txt(as.Lhs[0])
		if pre, ok := want[name]; ok {
			if !strings.HasPrefix(txt(as.Rhs[0]), pre) {
				die("run.go:%d: %s is constructed as %q, expected %q…: the C20 harness constructor must be revisited", line(as), name, txt(as.Rhs[0]), pre)
			}
			got[name] = txt(as)
		}
	}
	var out []string
	for _, n := range []string{"sigs", "runStateChanges", "reloadReqs", "reloadManager"} {
		if got[n] == "" {
			die("run.go: construction of %s not found at the top level of %s", n, fn.Name.Name)
		}
		out = append(out, got[n])
	}
	return out
}

// retirementSkeleton describes reloadManager.startControlPlaneRetirement for the evidence file. The function itself is
// EXECUTED for real by the harness (on a zero control plane whose Close() is observable), so its inner structure is not
// pinned: reorderings inside it are decided by the check, not refused. Only what the harness cannot work without is
// required: the function exists with its six parameters.
func retirementSkeleton(repo string) string {
	f, err := parser.ParseFile(fset, filepath.Join(repo, "cmd", "reload_manager.go"), nil, 0)
	if err != nil {
		die("%v", err)
	}
	for _, d := range f.Decls {
		fd, ok := d.(*ast.FuncDecl)
		if !ok || fd.Name.Name != "startControlPlaneRetirement" {
			continue
		}
		n := 0
		for _, p := range fd.Type.Params.List {
			n += len(p.Names)
		}
		if n != 6 {
			die("reload_manager.go: startControlPlaneRetirement has %d parameters, the C20 harness calls it with 6", n)
		}
		var sk []string
		ast.Inspect(fd.Body, func(n ast.Node) bool {
			switch x := n.(type) {
			case *ast.AssignStmt:
				t := txt(x)
				if strings.Contains(t, "pendingRetirementDone") || strings.HasPrefix(t, "retirementDone :=") {
					sk = append(sk, t)
				}
			case *ast.DeferStmt:
				if _, lit := x.Call.Fun.(*ast.FuncLit); lit {
					sk = append(sk, "defer func(){...}()")
				} else {
					sk = append(sk, txt(x))
				}
			case *ast.GoStmt:
				sk = append(sk, "go func(done)")
			case *ast.CallExpr:
				t := txt(x.Fun)
				if t == "oldCancel" || t == "oldControlPlane.Close" || t == "oldControlPlane.MarkRetired" || t == "successor.RunReloadRetirementCleanup" {
					sk = append(sk, t+"()")
				}
			}
			return true
		})
		return strings.Join(sk, " ; ")
	}
	die("reload_manager.go: startControlPlaneRetirement not found")
	return ""
}

// ---- emission ------------------------------------------------------------------------------------------

func emitPaths(b *bytes.Buffer, varName, role, prefix string, ps []*path) {
	fmt.Fprintf(b, "var %s = []*c20Path{\n", varName)
	for i, p := range ps {
		var sites []int
		for l := range p.sites {
			sites = append(sites, l)
		}
		sort.Ints(sites)
		fmt.Fprintf(b, "\t{ID: %q, Role: %q, Exit: %q, Raw: %d, Sites: %q, Decisions: %q, Steps: []c20Step{\n", fmt.Sprintf("%s%d", prefix, i+1), role, p.exit, p.raw, strings.Trim(fmt.Sprint(sites), "[]"), strings.Join(p.trace, " "))
		for _, s := range p.steps {
			if s.kind == kGuard {
				fmt.Fprintf(b, "\t\t{Guard: true, N: %q, L: %d, Want: %v, Eval: func(h *c20H) bool { return %s }},\n", s.name, s.ln, s.want, s.code)
			} else {
				fmt.Fprintf(b, "\t\t{N: %q, L: %d, Do: func(h *c20H) { %s }},\n", s.name, s.ln, s.code)
			}
		}
		fmt.Fprintf(b, "\t}},\n")
	}
	fmt.Fprintf(b, "}\n\n")
}

func main() {
	repo := flag.String("repo", "/repo", "repo working tree")
	out := flag.String("out", "", "output Go file")
	dump := flag.Bool("dump", false, "print the projected paths")
	flag.Parse()
	runGo := filepath.Join(*repo, "cmd", "run.go")
	src, err := os.ReadFile(runGo)
	if err != nil {
		die("%v", err)
	}
	f, err := parser.ParseFile(fset, runGo, src, 0)
	if err != nil {
		die("%v", err)
	}
	g := &gen{file: f, imports: map[string]bool{}, topLevel: map[string]bool{}, commStmt: map[ast.Node]bool{}, caseOf: map[*ast.CaseClause]*ast.SwitchStmt{}}
	for _, is := range f.Imports {
		p, _ := strconv.Unquote(is.Path.Value)
		name := p[strings.LastIndex(p, "/")+1:]
		if is.Name != nil {
			name = is.Name.Name
		}
		g.imports[name] = true
	}
	ents, _ := os.ReadDir(filepath.Join(*repo, "cmd"))
	for _, e := range ents {
		n := e.Name()
		if e.IsDir() || !strings.HasSuffix(n, ".go") || strings.HasSuffix(n, "_test.go") {
			continue
		}
		pf, err := parser.ParseFile(fset, filepath.Join(*repo, "cmd", n), nil, 0)
		if err != nil {
			die("%v", err)
		}
		for _, d := range pf.Decls {
			switch x := d.(type) {
			case *ast.FuncDecl:
				if x.Recv == nil {
					g.topLevel[x.Name.Name] = true
				}
			case *ast.GenDecl:
				for _, s := range x.Specs {
					switch sp := s.(type) {
					case *ast.ValueSpec:
						for _, id := range sp.Names {
							g.topLevel[id.Name] = true
						}
					case *ast.TypeSpec:
						g.topLevel[sp.Name.Name] = true
					}
				}
			}
		}
	}
	fn, workerRange, mainLabeled := findRegions(f)
	if fn == nil {
		die("run.go: cannot find the function holding both the reload worker (`for req := range reloadManager.reloadReqs`) and the main loop (`loop: for { select { ... case <-runStateChanges: } }`)")
	}
	g.index(fn.Body)
	if id, ok := workerRange.Key.(*ast.Ident); !ok || id.Name != "req" || workerRange.Value != nil {
		die("run.go:%d: the worker loop variable is not `req`", line(workerRange))
	}
	mainFor := mainLabeled.Stmt.(*ast.ForStmt)
	for _, s := range mainFor.Body.List {
		if sel, ok := s.(*ast.SelectStmt); ok {
			g.topSel = sel
		}
	}
	if g.topSel == nil || len(mainFor.Body.List) != 1 {
		die("run.go:%d: the main loop body is not a single select statement", line(mainFor))
	}
	var selComms []string
	for _, c := range g.topSel.Body.List {
		cc := c.(*ast.CommClause)
		if cc.Comm == nil {
			die("run.go:%d: the main select has a default clause", line(cc))
		}
		g.commStmt[cc.Comm] = true
		selComms = append(selComms, txt(cc.Comm))
	}
	if len(selComms) != 2 || selComms[0] != "sig := <-sigs" || selComms[1] != "<-runStateChanges" {
		die("run.go:%d: the main select is not {case sig := <-sigs; case <-runStateChanges}: %v", line(g.topSel), selComms)
	}

	workerPaths, rawW := g.extract("worker", workerRange, func(c *cfg.CFG) (*cfg.Block, *cfg.Block) {
		for _, b := range c.Blocks {
			if b.Kind == cfg.KindRangeLoop && b.Stmt == ast.Stmt(workerRange) && len(b.Succs) == 2 {
				return b, b.Succs[0]
			}
		}
		return nil, nil
	})
	mainPaths, rawM := g.extract("mainloop", mainLabeled, func(c *cfg.CFG) (*cfg.Block, *cfg.Block) {
		for _, b := range c.Blocks {
			if b.Kind == cfg.KindForBody && b.Stmt == ast.Stmt(mainFor) {
				return b, b
			}
		}
		return nil, nil
	})
	cons := constructionStmts(fn)
	retSk := retirementSkeleton(*repo)

	if *dump {
		for _, set := range []struct {
			n  string
			ps []*path
		}{{"worker", workerPaths}, {"mainloop", mainPaths}} {
			for i, p := range set.ps {
				fmt.Printf("%s #%d raw=%d exit=%q\n   decisions: %s\n", set.n, i+1, p.raw, p.exit, strings.Join(p.trace, " "))
				for _, s := range p.steps {
					if s.kind == kGuard {
						fmt.Printf("   L%-4d guard %s == %v\n", s.ln, s.name, s.want)
					} else {
						fmt.Printf("   L%-4d %s\n", s.ln, s.name)
					}
				}
			}
		}
		fmt.Printf("raw paths: worker=%d mainloop=%d ; projected: worker=%d mainloop=%d\n", rawW, rawM, len(workerPaths), len(mainPaths))
	}

	var b bytes.Buffer
	sum := sha256.Sum256(src)
	fmt.Fprintf(&b, "//go:build verif\n\n// Code generated by /verif/checks/C20/tool (c20gen) from cmd/run.go sha256=%x. DO NOT EDIT.\n\npackage cmd\n\n", sum[:8])
	b.WriteString("import (\n\t\"os\"\n\t\"syscall\"\n\n\t\"github.com/daeuniverse/dae/common/consts\"\n\ttime \"github.com/daeuniverse/dae/verifx/vtime\"\n)\n\n")
	b.WriteString("var _ = syscall.SIGUSR1\nvar _ = consts.ReloadDone\nvar _ = time.Now\nvar _ os.Signal\n\n")
	fmt.Fprintf(&b, "// c20NewManager: the construction statements of %s, verbatim.\nfunc c20NewManager() (*reloadManager, chan os.Signal) {\n", fn.Name.Name)
	for _, s := range cons {
		fmt.Fprintf(&b, "\t%s\n", s)
	}
	b.WriteString("\treturn reloadManager, sigs\n}\n\n")
	fmt.Fprintf(&b, "var c20GenInfo = c20Info{RunGoSHA: %q, RawWorker: %d, RawMain: %d, Function: %q, WorkerLine: %d, MainLine: %d, Construction: %q, RetirementSkeleton: %q}\n\n",
		fmt.Sprintf("%x", sum[:8]), rawW, rawM, fn.Name.Name, line(workerRange), line(mainLabeled), strings.Join(cons, " ; "), retSk)
	emitPaths(&b, "c20WorkerPaths", "worker", "W", workerPaths)
	emitPaths(&b, "c20MainPaths", "mainloop", "M", mainPaths)
	outSrc, err := format.Source(b.Bytes())
	if err != nil {
		os.WriteFile(*out+".broken", b.Bytes(), 0o644)
		die("generated source does not parse: %v (see %s.broken)", err, *out)
	}
	if *out != "" {
		os.MkdirAll(filepath.Dir(*out), 0o755)
		if err := os.WriteFile(*out, outSrc, 0o644); err != nil {
			die("%v", err)
		}
	}
	var exits int
	for _, p := range append(append([]*path{}, workerPaths...), mainPaths...) {
		if p.exit != "" {
			exits++
		}
	}
	fmt.Printf("c20gen: %s: raw acyclic paths worker=%d mainloop=%d -> projected worker=%d mainloop=%d (process-exit paths: %d)\n", fn.Name.Name, rawW, rawM, len(workerPaths), len(mainPaths), exits)
}
