package main

import "strings"

// ---- leg 1: bounded enumeration of grammar derivations ----
//
// A derivation is built together with the tree it spells (the expected result is known by
// construction; the reference reader is cross-checked against it on every base text).

type gLit struct{ raw, val string }

// every literal style: bare ID, bare NON_ID, single-quoted, double-quoted (quoted ones carry characters that
// are structural outside quotes, so a reader that does not treat them as opaque is caught)
var gLits = []gLit{{"b1", "b1"}, {"1.2/3", "1.2/3"}, {"'q:,1'", "q:,1"}, {"\"q #{2\"", "q #{2"}}

type gParam struct {
	toks []string
	p    *RParam
}
type gFunc struct {
	toks []string
	f    *RFunc
}
type gItem struct {
	toks []string
	it   *RItem
}
type gSection struct {
	toks []string
	s    *RSection
}

func cat(parts ...[]string) []string {
	var out []string
	for _, p := range parts {
		out = append(out, p...)
	}
	return out
}

func genParams() []gParam { // with/without key x literal style
	var out []gParam
	for _, l := range gLits {
		out = append(out, gParam{[]string{l.raw}, &RParam{Val: l.val}})
	}
	for _, l := range gLits {
		out = append(out, gParam{[]string{"k", ":", l.raw}, &RParam{Key: "k", Val: l.val}})
	}
	return out
}

type gPList struct {
	toks []string
	ps   []*RParam
}

func genParamLists(maxLen int) []gPList {
	ps := genParams()
	var out []gPList
	for _, a := range ps {
		out = append(out, gPList{a.toks, []*RParam{a.p}})
	}
	if maxLen >= 2 {
		for _, a := range ps {
			for _, b := range ps {
				out = append(out, gPList{cat(a.toks, []string{","}, b.toks), []*RParam{a.p, b.p}})
			}
		}
	}
	if maxLen >= 3 {
		for _, a := range ps[:2] {
			for _, b := range ps[4:6] {
				for _, c := range ps {
					out = append(out, gPList{cat(a.toks, []string{","}, b.toks, []string{","}, c.toks), []*RParam{a.p, b.p, c.p}})
				}
			}
		}
	}
	return out
}

func genFuncs(name string, maxParams int) []gFunc {
	var out []gFunc
	for _, not := range []bool{false, true} {
		for _, pl := range genParamLists(maxParams) {
			t := cat([]string{name, "("}, pl.toks, []string{")"})
			if not {
				t = cat([]string{"!"}, t)
			}
			out = append(out, gFunc{t, &RFunc{Name: name, Not: not, Params: pl.ps}})
		}
	}
	return out
}

type gFExpr struct {
	toks []string
	fs   []*RFunc
}

func genFuncExprs(thorough bool) []gFExpr {
	var out []gFExpr
	for _, f := range genFuncs("f", 2) {
		out = append(out, gFExpr{f.toks, []*RFunc{f.f}})
	}
	// chains of two: each member with one parameter (quick); thorough adds every chain in which one
	// member has up to two parameters and the other one
	one, two := genFuncs("f", 1), genFuncs("f", 2)
	oneG, twoG := genFuncs("g", 1), genFuncs("g", 2)
	// quick: chain members take their single parameter from {bare, single-quoted} x {keyed, plain} x {!, plain};
	// thorough: every pair of one-parameter members, plus every two-parameter member next to each such small member
	isSmall := func(f gFunc) bool { v := f.f.Params[0].Val; return v == "b1" || v == "q:,1" }
	for _, a := range one {
		for _, b := range oneG {
			if thorough || (isSmall(a) && isSmall(b)) {
				out = append(out, gFExpr{cat(a.toks, []string{"&&"}, b.toks), []*RFunc{a.f, b.f}})
			}
		}
	}
	if thorough {
		for _, a := range two {
			if len(a.f.Params) < 2 {
				continue
			}
			for _, b := range oneG {
				if isSmall(b) {
					out = append(out, gFExpr{cat(a.toks, []string{"&&"}, b.toks), []*RFunc{a.f, b.f}})
				}
			}
		}
		for _, a := range one {
			if !isSmall(a) {
				continue
			}
			for _, b := range twoG {
				if len(b.f.Params) == 2 {
					out = append(out, gFExpr{cat(a.toks, []string{"&&"}, b.toks), []*RFunc{a.f, b.f}})
				}
			}
		}
	}
	if thorough { // chains of three, one plain parameter each, every negation pattern
		for m := 0; m < 8; m++ {
			var toks []string
			var fs []*RFunc
			for i, nm := range []string{"f", "g", "h"} {
				if i > 0 {
					toks = append(toks, "&&")
				}
				not := m&(1<<i) != 0
				if not {
					toks = append(toks, "!")
				}
				toks = append(toks, nm, "(", "b1", ")")
				fs = append(fs, &RFunc{Name: nm, Not: not, Params: []*RParam{{Val: "b1"}}})
			}
			out = append(out, gFExpr{toks, fs})
		}
	}
	return out
}

func genOutbounds() []gFunc {
	out := []gFunc{
		{[]string{"ob"}, &RFunc{Name: "ob"}},
		{[]string{"0-x"}, &RFunc{Name: "0-x"}}, // NON_ID bare literal
	}
	out = append(out, genFuncs("ob", 2)...)
	return out
}

type gAnn struct {
	toks []string
	ps   []*RParam // nil = no annotation
}

func genAnnotations() []gAnn {
	out := []gAnn{{nil, nil}}
	for _, pl := range genParamLists(2) {
		out = append(out, gAnn{cat([]string{"["}, pl.toks, []string{"]"}), pl.ps})
	}
	return out
}

var simpleFExpr = gFExpr{[]string{"f", "(", "b1", ")"}, []*RFunc{{Name: "f", Params: []*RParam{{Val: "b1"}}}}}
var simpleAnn = gAnn{[]string{"[", "k", ":", "b1", "]"}, []*RParam{{Key: "k", Val: "b1"}}}
var simpleOutF = gFunc{[]string{"ob", "(", "k", ":", "b1", ")"}, &RFunc{Name: "ob", Params: []*RParam{{Key: "k", Val: "b1"}}}}

func ruleItem(fe gFExpr, ob gFunc) gItem {
	return gItem{cat(fe.toks, []string{"->"}, ob.toks), &RItem{R: &RRule{And: fe.fs, Out: ob.f}}}
}
func declFuncItem(fe gFExpr, an gAnn) gItem {
	return gItem{cat([]string{"key", ":"}, fe.toks, an.toks), &RItem{P: &RParam{Key: "key", Funcs: fe.fs, Ann: an.ps}}}
}

// every item shape (sections excluded)
func genItems(thorough bool) []gItem {
	var out []gItem
	// bare / quoted literal items
	for _, l := range gLits {
		out = append(out, gItem{[]string{l.raw}, &RItem{P: &RParam{Val: l.val}}})
	}
	// key: literal (, literal)? with every annotation on a fixed value and a fixed annotation on every value list
	anns := genAnnotations()
	type vl struct {
		toks []string
		val  string
	}
	var vals []vl
	for _, a := range gLits {
		vals = append(vals, vl{[]string{a.raw}, a.val})
	}
	for _, a := range gLits {
		for _, b := range gLits {
			vals = append(vals, vl{[]string{a.raw, ",", b.raw}, a.val + "," + b.val})
		}
	}
	if thorough {
		for _, a := range gLits {
			for _, b := range gLits {
				for _, c := range gLits {
					vals = append(vals, vl{[]string{a.raw, ",", b.raw, ",", c.raw}, a.val + "," + b.val + "," + c.val})
				}
			}
		}
	}
	for _, v := range vals {
		for _, an := range []gAnn{anns[0], simpleAnn} {
			out = append(out, gItem{cat([]string{"key", ":"}, v.toks, an.toks), &RItem{P: &RParam{Key: "key", Val: v.val, Ann: an.ps}}})
		}
	}
	for _, an := range anns[1:] {
		out = append(out, gItem{cat([]string{"key", ":", "b1"}, an.toks), &RItem{P: &RParam{Key: "key", Val: "b1", Ann: an.ps}}})
	}
	// key: function expression, annotations
	fes := genFuncExprs(thorough)
	for _, fe := range fes {
		out = append(out, declFuncItem(fe, anns[0]), declFuncItem(fe, simpleAnn))
	}
	for _, an := range anns[1:] {
		out = append(out, declFuncItem(simpleFExpr, an))
	}
	// rules
	obs := genOutbounds()
	for _, fe := range fes {
		for _, ob := range []gFunc{obs[0], obs[1], simpleOutF} {
			out = append(out, ruleItem(fe, ob))
		}
	}
	for _, ob := range obs {
		out = append(out, ruleItem(simpleFExpr, ob))
	}
	return out
}

// a small set of representative items used where full products would explode (pairs, nesting)
func repItems() []gItem {
	neg := gFExpr{[]string{"!", "f", "(", "k", ":", "'q:,1'", ")", "&&", "g", "(", "1.2/3", ")"},
		[]*RFunc{{Name: "f", Not: true, Params: []*RParam{{Key: "k", Val: "q:,1"}}}, {Name: "g", Params: []*RParam{{Val: "1.2/3"}}}}}
	return []gItem{
		{[]string{"b1"}, &RItem{P: &RParam{Val: "b1"}}},
		{[]string{"1.2/3"}, &RItem{P: &RParam{Val: "1.2/3"}}},
		{[]string{"'q:,1'"}, &RItem{P: &RParam{Val: "q:,1"}}},
		{[]string{"key", ":", "b1"}, &RItem{P: &RParam{Key: "key", Val: "b1"}}},
		{[]string{"key", ":", "\"q #{2\"", ",", "b1", "[", "b1", ",", "k", ":", "'q:,1'", "]"}, &RItem{P: &RParam{Key: "key", Val: "q #{2,b1", Ann: []*RParam{{Val: "b1"}, {Key: "k", Val: "q:,1"}}}}},
		declFuncItem(simpleFExpr, gAnn{}),
		declFuncItem(neg, simpleAnn),
		ruleItem(simpleFExpr, gFunc{[]string{"ob"}, &RFunc{Name: "ob"}}),
		ruleItem(neg, simpleOutF),
		ruleItem(simpleFExpr, gFunc{[]string{"!", "ob", "(", "b1", ")"}, &RFunc{Name: "ob", Not: true, Params: []*RParam{{Val: "b1"}}}}),
	}
}

func sectionOf(name string, items []gItem) gSection {
	toks := []string{name, "{"}
	s := &RSection{Name: name}
	for _, it := range items {
		toks = append(toks, it.toks...)
		s.Items = append(s.Items, it.it)
	}
	toks = append(toks, "}")
	return gSection{toks, s}
}
func sectionItem(s gSection) gItem { return gItem{s.toks, &RItem{S: s.s}} }

type gProgram struct {
	toks []string
	secs []*RSection
}

func progOf(ss ...gSection) gProgram {
	var p gProgram
	for _, s := range ss {
		p.toks = append(p.toks, s.toks...)
		p.secs = append(p.secs, s.s)
	}
	return p
}

// genPrograms: all base derivations of leg 1, streamed. mode says how much trivia the base gets:
//
//	trivAll  : insertion at every token boundary
//	trivJunc : insertion only around the junction between the two items (pos..pos+1 given by junc)
//	trivNone : compact and fully spaced spelling only
const (
	trivNone = iota
	trivJunc
	trivAll
)

func genPrograms(thorough bool, emit func(p gProgram, mode int, junc int)) {
	items := genItems(thorough)
	reps := repItems()
	// 0 sections, 1 section with 0 items
	emit(gProgram{}, trivAll, 0)
	emit(progOf(sectionOf("sec", nil)), trivAll, 0)
	// nested sections: inner section with 0..2 representative items, as only item / before / after a representative
	var inners []gSection
	inners = append(inners, sectionOf("in", nil))
	for _, a := range reps {
		inners = append(inners, sectionOf("in", []gItem{a}))
	}
	for _, a := range reps {
		for _, b := range reps {
			inners = append(inners, sectionOf("in", []gItem{a, b}))
		}
	}
	for _, in := range inners {
		emit(progOf(sectionOf("sec", []gItem{sectionItem(in)})), trivAll, 0)
	}
	for _, in := range inners[:1+len(reps)] {
		for _, r := range reps {
			emit(progOf(sectionOf("sec", []gItem{sectionItem(in), r})), trivAll, 0)
			emit(progOf(sectionOf("sec", []gItem{r, sectionItem(in)})), trivAll, 0)
		}
		// two nested sections side by side, and depth 3
		for _, in2 := range inners[:1+len(reps)] {
			emit(progOf(sectionOf("sec", []gItem{sectionItem(in), sectionItem(in2)})), trivAll, 0)
		}
		emit(progOf(sectionOf("sec", []gItem{sectionItem(sectionOf("mid", []gItem{sectionItem(in)}))})), trivAll, 0)
	}
	// 2 sections (and 3 in thorough): every pair of one-item sections over the representatives, plus empty ones
	var small []gSection
	small = append(small, sectionOf("s1", nil))
	for _, r := range reps {
		small = append(small, sectionOf("s1", []gItem{r}))
	}
	for _, a := range small {
		for _, b := range small {
			b2 := gSection{cat([]string{"s2"}, b.toks[1:]), &RSection{Name: "s2", Items: b.s.Items}}
			emit(progOf(a, b2), trivAll, 0)
			if thorough {
				for _, c := range small[:4] {
					c2 := gSection{cat([]string{"s3"}, c.toks[1:]), &RSection{Name: "s3", Items: c.s.Items}}
					emit(progOf(a, b2, c2), trivAll, 0)
				}
			}
		}
	}
	// (the large products come last, so that an internal deadline cuts only their tail)
	// 1 section, 1 item: every item shape
	for _, it := range items {
		emit(progOf(sectionOf("sec", []gItem{it})), trivAll, 0)
	}
	// 1 section, 2 items: every item shape with every representative neighbour, both orders
	pairMode := trivNone
	if thorough {
		pairMode = trivJunc
	}
	pairReps := reps
	if !thorough {
		pairReps = []gItem{reps[0], reps[4], reps[6], reps[8]} // one of each item kind
	}
	for _, it := range items {
		for _, r := range pairReps {
			emit(progOf(sectionOf("sec", []gItem{it, r})), pairMode, 2+len(it.toks))
			emit(progOf(sectionOf("sec", []gItem{r, it})), pairMode, 2+len(r.toks))
		}
	}
}

// wordLike: token that consists of SAFE characters (ID / NON_ID); two such neighbours need a separator,
// and so does a word followed by '!' (which is a SAFE character inside a word).
func wordLike(t string) bool {
	if t == "" {
		return false
	}
	c := rune(t[0])
	return (isIDHead(c) || isNonIDHead(c)) && t != "->"
}

// render: the most compact spelling — a single space only where two tokens would otherwise fuse.
func render(toks []string) string {
	var b strings.Builder
	for i, t := range toks {
		if i > 0 && wordLike(toks[i-1]) && (wordLike(t) || t == "!" || t == "->") {
			b.WriteByte(' ')
		}
		b.WriteString(t)
	}
	return b.String()
}

// renderInsert: compact spelling with ins placed at token boundary pos (0..len(toks)).
// The separator that the compact spelling needs at that boundary is kept (before the insertion).
func renderInsert(toks []string, pos int, ins string) string {
	var b strings.Builder
	for i, t := range toks {
		if i > 0 && wordLike(toks[i-1]) && (wordLike(t) || t == "!" || t == "->") {
			b.WriteByte(' ')
		}
		if i == pos {
			b.WriteString(ins)
		}
		b.WriteString(t)
	}
	if pos >= len(toks) {
		b.WriteString(ins)
	}
	return b.String()
}

// trivia inserted at every token boundary, one at a time. safe=true: the spelled tree cannot change
// (the insertion starts with white space), so the generator's tree is pinned; safe=false: the
// insertion may fuse with a neighbouring word (e.g. "b1/*c*/" is one bare literal) — the reference reader decides.
type triv struct {
	s    string
	safe bool
}

var triviaAll = []triv{
	{" ", true}, {"\r\n", true}, {" # c } \n", true}, {" /* c { */ ", true}, {"#c\n", false}, {"/*c*/", false},
	// thorough only (same lexer class as the first two)
	{"\n", true}, {"\t", true},
}

func triviaFor(thorough bool) []triv {
	if thorough {
		return triviaAll
	}
	return triviaAll[:6]
}
