// Replay of one recorded violation: `/verif/run C07 quick --replay <file>` re-evaluates exactly that case
// (same production path, same reference) and reports it again if it still deviates.
package main

import (
	"context"
	"encoding/json"
	"fmt"
	"os"
	"strings"

	"github.com/daeuniverse/dae/component/daedns"
	"github.com/daeuniverse/dae/component/dns"
	"github.com/daeuniverse/dae/config"
	"github.com/daeuniverse/dae/pkg/config_parser"
	"github.com/daeuniverse/dae/verifx/vlib"
)

type replayRec struct {
	Kind       string    `json:"kind"` // request | response | router | flow | twins
	NUp        int       `json:"nUp"`
	Program    *Program  `json:"program"`
	Interleave bool      `json:"interleave"`
	Input      *Input    `json:"input"`
	FromObject string    `json:"from_object"`
	Wide       bool      `json:"wide"`
	Case       *flowCase `json:"case"`
	Twins      *twinCase `json:"twins"`
}

func interleavedBlock(p *Program) string {
	var b strings.Builder
	b.WriteString("      node(name_keyword: hk) -> ua\n")
	for k, rl := range p.Rules {
		b.WriteString("      " + rl.Text() + "\n")
		if k%2 == 0 {
			b.WriteString("      sub(mysub) -> ub\n")
		} else {
			b.WriteString("      subnode(subtag: mysub) -> ua\n")
		}
	}
	b.WriteString("      fallback: " + p.Fallback + "\n")
	return b.String()
}

func routerBlock(p *Program) string {
	var b strings.Builder
	for k, rl := range p.Rules {
		if k == 1 {
			b.WriteString("      node(name_keyword: hk) -> ua\n")
		}
		b.WriteString("      " + rl.Text() + "\n")
	}
	b.WriteString("      sub(mysub) -> ub\n      fallback: " + p.Fallback + "\n")
	return b.String()
}

func buildRouter(text string) (*daedns.Router, error) {
	sections, err := config_parser.Parse(text)
	if err != nil {
		return nil, err
	}
	conf, err := config.New(sections)
	if err != nil {
		return nil, err
	}
	var rt *daedns.Router
	if pk, msg := vlib.Try(func() { rt, err = daedns.New(quietLogger(), &conf.Global, &conf.Dns) }); pk {
		return nil, fmt.Errorf("panic: %s", msg)
	}
	return rt, err
}

func routerOutcome(rt *daedns.Router, in *Input) string {
	got := ""
	if pk, msg := vlib.Try(func() {
		u, pass, e := rt.VerifSelect(in.Name, in.Qtype)
		switch {
		case e != nil:
			got = "error: " + e.Error()
		case pass:
			got = "passthrough"
		default:
			got = "<unknown " + u + ">"
			for j, url := range upURLs {
				if u == url {
					got = upTags[j]
				}
			}
		}
	}); pk {
		got = "panic at " + vlib.PanicSite(msg)
	}
	return got
}

func runReplay(r *vlib.Run, path string) {
	b, err := os.ReadFile(path)
	if err != nil {
		fmt.Fprintln(os.Stderr, "replay:", err)
		os.Exit(2)
	}
	var f struct {
		Signature string `json:"signature"`
		Detail    struct {
			Replay *replayRec `json:"replay"`
		} `json:"detail"`
	}
	if err := json.Unmarshal(b, &f); err != nil || f.Detail.Replay == nil {
		fmt.Fprintln(os.Stderr, "replay: file carries no replay record:", err)
		os.Exit(2)
	}
	rec := f.Detail.Replay
	r.Rule("replay of one recorded case: " + f.Signature)
	r.Counter("evaluations").Add(1)
	r.Distinct("replay")
	r.Distinct(f.Signature)
	r.Sample(rec)
	ctx := context.Background()
	switch rec.Kind {
	case "request":
		block := rec.Program.Block()
		if rec.Interleave {
			block = interleavedBlock(rec.Program)
		}
		text := confText(rec.NUp, block, "      fallback: accept\n")
		d, _, err := buildDns(text, quietLogger())
		if err != nil {
			r.Violation(fmt.Sprintf("leg=matchers build error request=[%s] err=%v", rec.Program.Text(), err), text)
			break
		}
		want, _ := refDecide(rec.Program, rec.Input)
		idx, up, rerr := d.RequestSelect(ctx, rec.Input.Name, rec.Input.Qtype)
		got := reqOutcome(idx, up, rerr)
		fmt.Printf("REPLAY request program=[%s] question=%s want=%s got=%s\n", rec.Program.Text(), rec.Input, want, got)
		if got != want {
			r.Violation(fmt.Sprintf("leg=request diag=%s program=[%s] question=%s want=%s got=%s", diagOf(rec.Program, rec.Input, got), rec.Program.Text(), rec.Input, want, got),
				map[string]any{"config": text, "replay": rec})
		}
	case "response":
		text := confText(rec.NUp, "      fallback: asis\n", rec.Program.Block())
		d, _, err := buildDns(text, quietLogger())
		if err != nil {
			r.Violation(fmt.Sprintf("leg=matchers build error response=[%s] err=%v", rec.Program.Text(), err), text)
			break
		}
		var from *dns.Upstream
		switch rec.FromObject {
		case "asis":
		case "foreign":
			from = &dns.Upstream{Scheme: "udp", Hostname: "198.51.100.9", Port: 53}
		default:
			for ui, tg := range upTags {
				if tg == rec.FromObject {
					from, _ = d.VerifUpstream(ui)
				}
			}
		}
		want, _ := refDecide(rec.Program, rec.Input)
		idx, up, rerr := d.ResponseSelect(ctx, mkMsg(rec.Input.Name, rec.Input.Qtype, rec.Input.Answers, rec.Wide), from)
		got := respOutcome(idx, up, rerr)
		fmt.Printf("REPLAY response program=[%s] input=%s(%s) want=%s got=%s\n", rec.Program.Text(), rec.Input, rec.FromObject, want, got)
		if got != want {
			r.Violation(fmt.Sprintf("leg=response diag=%s program=[%s] input=%s(%s) want=%s got=%s", diagOf(rec.Program, rec.Input, got), rec.Program.Text(), rec.Input, rec.FromObject, want, got),
				map[string]any{"config": text, "replay": rec})
		}
	case "router":
		text := confText(rec.NUp, routerBlock(rec.Program), "      fallback: accept\n")
		rt, err := buildRouter(text)
		if err != nil || rt == nil {
			r.Violation(fmt.Sprintf("leg=router build program=[%s] err=%v nil=%v", rec.Program.Text(), err, rt == nil), text)
			break
		}
		want, _ := refDecide(rec.Program, rec.Input)
		if want == "asis" || want == "reject" {
			want = "passthrough"
		}
		got := routerOutcome(rt, rec.Input)
		fmt.Printf("REPLAY router program=[%s] question=%s want=%s got=%s\n", rec.Program.Text(), rec.Input, want, got)
		if got != want {
			r.Violation(fmt.Sprintf("leg=router diag=other program=[%s] question=%s want=%s got=%s", rec.Program.Text(), rec.Input, want, got), map[string]any{"config": text, "replay": rec})
		}
	case "flow":
		replayFlow(r, rec.Case)
		leg2Assumes(r)
	case "twins":
		replayTwins(r, rec.Twins)
		leg3Assumes(r)
	default:
		fmt.Fprintln(os.Stderr, "replay: unknown kind", rec.Kind)
		os.Exit(2)
	}
	r.Finish()
}
