package main

// Leg 2: every shared constant. Three sources are compared pairwise:
//   spec  = common/consts/ebpf_sync_spec.json                    (read as JSON)
//   go    = common/consts/ebpf_generated.go (+ ebpf.go limits)   (constants evaluated by go/types from the current
//           tree, and the values compiled into this binary where a limit is a variable)
//   c     = control/kern/ebpf_sync_defs.h + tproxy.c             (values printed by the C compiler: kdrv --layout)
// and the generator cmd/generators/gen_ebpf_sync is re-run in scratch and must reproduce both generated files.
//
// Name mapping between the generated files (documented): C enum constant `MatchType_X` <-> Go `MatchType_X`;
// `L4ProtoType_X` <-> `L4ProtoType_X`; `IpVersionType_X` <-> `IpVersion_X`; `#define OUTBOUND_X_Y` <-> `OutboundXY`
// (norm() of both sides is equal). Go-only derived names: OutboundUserDefinedMin/Max, L4ProtoType_TCP_UDP.

import (
	"bytes"
	"encoding/json"
	"fmt"
	"go/ast"
	"go/constant"
	"go/importer"
	"go/parser"
	"go/token"
	"go/types"
	"os"
	"os/exec"
	"path/filepath"
	"sort"
	"strings"
	"unsafe"

	"github.com/daeuniverse/dae/common/consts"
	"github.com/daeuniverse/dae/control"
	"golang.org/x/sys/unix"
)

type namedValue struct {
	Name  string `json:"name"`
	Value int64  `json:"value"`
}

type syncSpec struct {
	MatchTypes []string     `json:"match_types"`
	L4Proto    []namedValue `json:"l4_proto"`
	IpVersion  []namedValue `json:"ip_version"`
	Outbound   []namedValue `json:"outbound"`
}

var goDerivedConsts = map[string]string{
	"OutboundUserDefinedMin": "derived: OutboundBlock + 1",
	"OutboundUserDefinedMax": "derived: OutboundMustRules - 1",
	"L4ProtoType_TCP_UDP":    "alias of L4ProtoType_X",
}

type goConst struct {
	typ string
	val int64
}

// goConstsOf type-checks one self-contained Go file and returns its integer constants.
func goConstsOf(path string) (map[string]goConst, error) {
	fset := token.NewFileSet()
	f, err := parser.ParseFile(fset, path, nil, 0)
	if err != nil {
		return nil, err
	}
	conf := types.Config{Importer: importer.Default(), Error: func(error) {}}
	pkg, _ := conf.Check("consts", fset, []*ast.File{f}, nil)
	out := map[string]goConst{}
	if pkg == nil {
		return out, fmt.Errorf("type check of %s produced nothing", path)
	}
	sc := pkg.Scope()
	for _, n := range sc.Names() {
		cn, ok := sc.Lookup(n).(*types.Const)
		if !ok || cn.Val().Kind() != constant.Int {
			continue
		}
		v, exact := constant.Int64Val(cn.Val())
		if !exact {
			continue
		}
		tn := cn.Type().String()
		if i := strings.LastIndex(tn, "."); i >= 0 {
			tn = tn[i+1:]
		}
		out[n] = goConst{tn, v}
	}
	return out, nil
}

func (c *checker) eq(leg, what string, pairs ...any) {
	// pairs: label1, value1, label2, value2, ...
	c.item("const:"+what, fmt.Sprint(pairs[1]))
	first := fmt.Sprint(pairs[1])
	for i := 2; i < len(pairs); i += 2 {
		if fmt.Sprint(pairs[i+1]) != first {
			var sb strings.Builder
			for j := 0; j < len(pairs); j += 2 {
				fmt.Fprintf(&sb, " %v=%v", pairs[j], pairs[j+1])
			}
			c.viol(leg, fmt.Sprintf("constant %s differs:%s", what, sb.String()), nil)
			return
		}
	}
}

func (c *checker) legConsts() {
	repo := c.repo
	lay := c.lay
	var spec syncSpec
	raw, err := os.ReadFile(filepath.Join(repo, "common/consts/ebpf_sync_spec.json"))
	if err != nil {
		c.broken("cannot read the sync spec: %v", err)
	}
	if err := json.Unmarshal(raw, &spec); err != nil {
		c.broken("sync spec does not parse: %v", err)
	}
	gen, err := goConstsOf(filepath.Join(repo, "common/consts/ebpf_generated.go"))
	if err != nil {
		c.broken("%v", err)
	}
	cEnum := func(name string) map[string]int64 {
		e := lay.Enum(name)
		if e == nil {
			c.viol("consts", "C enum "+name+" is not defined by the C program", nil)
			return map[string]int64{}
		}
		return e.Values
	}
	seenGo := map[string]bool{}
	seenC := map[string]bool{}
	three := func(what string, specV int64, goName string, cVals map[string]int64, cName string) {
		g, gok := gen[goName]
		cv, cok := cVals[cName]
		seenGo[goName] = true
		seenC[cName] = true
		if !gok {
			c.viol("consts", fmt.Sprintf("constant %s: Go constant %s missing from ebpf_generated.go (spec=%d)", what, goName, specV), nil)
			return
		}
		if !cok {
			c.viol("consts", fmt.Sprintf("constant %s: C constant %s missing from ebpf_sync_defs.h (spec=%d)", what, cName, specV), nil)
			return
		}
		c.eq("consts", what, "spec", specV, "go:"+goName, g.val, "c:"+cName, cv)
	}
	mt := cEnum("MatchType")
	for i, n := range spec.MatchTypes {
		three("MatchType_"+n, int64(i), "MatchType_"+n, mt, "MatchType_"+n)
	}
	l4 := cEnum("L4ProtoType")
	for _, nv := range spec.L4Proto {
		three("L4ProtoType_"+nv.Name, nv.Value, "L4ProtoType_"+nv.Name, l4, "L4ProtoType_"+nv.Name)
	}
	ipv := cEnum("IpVersionType")
	for _, nv := range spec.IpVersion {
		three("IpVersionType_"+nv.Name, nv.Value, "IpVersion_"+nv.Name, ipv, "IpVersionType_"+nv.Name)
	}
	cDef := map[string]int64{}
	for n, d := range lay.Defines {
		if d.File == "ebpf_sync_defs.h" {
			cDef[n] = d.Value
		}
	}
	goByNorm := map[string]string{}
	for n := range gen {
		goByNorm[norm(n)] = n
	}
	for _, nv := range spec.Outbound {
		cn := "OUTBOUND_" + nv.Name
		gn := goByNorm[norm(cn)]
		if gn == "" {
			gn = "Outbound<" + nv.Name + ">"
		}
		three(cn, nv.Value, gn, cDef, cn)
	}
	// completeness in the other directions: nothing in either generated file is left unpaired
	for n, g := range gen {
		c.item("const:go-generated:"+n, fmt.Sprint(g.val))
		if seenGo[n] {
			continue
		}
		if _, ok := goDerivedConsts[n]; ok {
			continue
		}
		c.viol("consts", fmt.Sprintf("constant %s (=%d) of ebpf_generated.go has no entry in the spec / C header", n, g.val), nil)
	}
	for _, en := range []struct {
		name string
		vals map[string]int64
	}{{"MatchType", mt}, {"L4ProtoType", l4}, {"IpVersionType", ipv}, {"#define", cDef}} {
		for n, v := range en.vals {
			c.item("const:c-generated:"+n, fmt.Sprint(v))
			if !seenC[n] {
				c.viol("consts", fmt.Sprintf("C constant %s (=%d, %s) of ebpf_sync_defs.h has no entry in the spec / Go constants", n, v, en.name), nil)
			}
		}
	}
	// derived Go constants keep their meaning w.r.t. the C values
	if g, ok := gen["OutboundUserDefinedMin"]; ok {
		c.eq("consts", "OutboundUserDefinedMin == OUTBOUND_BLOCK+1", "go", g.val, "c", cDef["OUTBOUND_BLOCK"]+1)
	}
	if g, ok := gen["OutboundUserDefinedMax"]; ok {
		c.eq("consts", "OutboundUserDefinedMax == OUTBOUND_MUST_RULES-1", "go", g.val, "c", cDef["OUTBOUND_MUST_RULES"]-1)
	}
	if g, ok := gen["L4ProtoType_TCP_UDP"]; ok {
		c.eq("consts", "L4ProtoType_TCP_UDP == L4ProtoType_TCP|L4ProtoType_UDP", "go", g.val, "c", l4["L4ProtoType_TCP"]|l4["L4ProtoType_UDP"])
	}
	// the generated values as compiled into this binary (guards against a stale source/binary split)
	c.eq("consts", "compiled consts.OutboundLogicalMask", "binary", int64(consts.OutboundLogicalMask), "source", gen["OutboundLogicalMask"].val)
	c.eq("consts", "compiled consts.MatchType_Fallback", "binary", int64(consts.MatchType_Fallback), "source", gen["MatchType_Fallback"].val)
	// enum storage widths the Go side relies on
	if e := lay.Enum("MatchType"); e != nil {
		c.eq("consts", "sizeof(enum MatchType) vs consts.MatchType", "c", e.Size, "go", unsafe.Sizeof(consts.MatchType(0)))
	}

	// ---- limits used on both sides (C value from the compiler; Go value from the compiled package)
	def := func(n string) any {
		d, ok := lay.Defines[n]
		if !ok {
			return "<undefined in C>"
		}
		return d.Value
	}
	c.eq("consts", "MAX_MATCH_SET_LEN vs consts.MaxMatchSetLen", "c", def("MAX_MATCH_SET_LEN"), "go", consts.MaxMatchSetLen)
	c.eq("consts", "TASK_COMM_LEN vs consts.TaskCommLen", "c", def("TASK_COMM_LEN"), "go", consts.TaskCommLen)
	c.eq("consts", "TPROXY_MARK vs consts.TproxyMark", "c", def("TPROXY_MARK"), "go", consts.TproxyMark)
	c.eq("consts", "MAX_CONN_STATE_NUM vs conn_state_map.max_entries", "c", def("MAX_CONN_STATE_NUM"), "map", lay.Map("conn_state_map").MaxEntries)
	if r := lay.Record("struct domain_routing"); r != nil && len(r.Fields) == 1 {
		words := r.Fields[0].Size / r.Fields[0].ElemSize
		c.eq("consts", "domain bitmap words", "c:bitmap[]", words, "c:MAX_MATCH_SET_LEN/32", lay.Defines["MAX_MATCH_SET_LEN"].Value/32, "go:consts.MaxMatchSetLen/32", consts.MaxMatchSetLen/32)
		c.eq("consts", "domain bitmap word width", "c", r.Fields[0].ElemSize, "go:uint32", 4)
	} else {
		c.viol("consts", "struct domain_routing is not a single bitmap array any more", nil)
	}
	per, perDomain, dTCP, dDNS, dData := control.VerifC19ConnectivitySlots()
	c.eq("consts", "connectivity slots: 256 outbounds x slots per outbound vs outbound_connectivity_map.max_entries", "go", 256*int64(per), "c", lay.Map("outbound_connectivity_map").MaxEntries)
	c.eq("consts", "connectivity slots per outbound = 3 domains x slots per domain", "go", per, "formula", 3*perDomain)
	c.eq("consts", "connectivity domain indices (tcp,dns-udp,data-udp)", "go", fmt.Sprint(dTCP, dDNS, dData), "c-comment-and-code", "0 1 2")
	c.eq("consts", "LinkHdrLen_Ethernet vs ETH_HLEN", "go", consts.LinkHdrLen_Ethernet, "c", 14)
	c.eq("consts", "IPPROTO_TCP", "go:consts", consts.IPPROTO_TCP, "unix", unix.IPPROTO_TCP)
	c.eq("consts", "IPPROTO_UDP", "go:consts", consts.IPPROTO_UDP, "unix", unix.IPPROTO_UDP)
	t4, u, t6 := control.VerifC19ListenKeys()
	c.eq("consts", "listen_socket_map slots (tcp4,udp,tcp6) vs zero_key/one_key/two_key use in assign_listener", "go", fmt.Sprint(t4, u, t6), "c", "0 1 2")
	if e := lay.Enum("bpf_stats_key"); e != nil {
		c.eq("consts", "bpf_stats_map keys (udp,tcp overflow) vs readBpfStatsCounter(m,0|1)", "c", fmt.Sprint(e.Values["BPF_STATS_UDP_CONN_OVERFLOW"], e.Values["BPF_STATS_TCP_CONN_OVERFLOW"]), "go", "0 1")
	}
	// reserved outbound ids as used by String()/IsReserved() on the Go side
	for _, p := range []struct {
		c string
		g consts.OutboundIndex
	}{{"OUTBOUND_DIRECT", consts.OutboundDirect}, {"OUTBOUND_BLOCK", consts.OutboundBlock}, {"OUTBOUND_MUST_RULES", consts.OutboundMustRules},
		{"OUTBOUND_CONTROL_PLANE_ROUTING", consts.OutboundControlPlaneRouting}, {"OUTBOUND_LOGICAL_OR", consts.OutboundLogicalOr},
		{"OUTBOUND_LOGICAL_AND", consts.OutboundLogicalAnd}, {"OUTBOUND_LOGICAL_MASK", consts.OutboundLogicalMask}} {
		c.eq("consts", "compiled "+p.c, "c", def(p.c), "go-binary", int64(p.g))
	}

	// ---- the generator reproduces both generated files byte for byte
	genBin := filepath.Join(c.work, "gen_ebpf_sync")
	scratch := filepath.Join(c.work, "gen_scratch")
	os.RemoveAll(scratch)
	for _, d := range []string{"common/consts", "control/kern"} {
		if err := os.MkdirAll(filepath.Join(scratch, d), 0o755); err != nil {
			c.broken("%v", err)
		}
	}
	os.WriteFile(filepath.Join(scratch, "go.mod"), []byte("module scratch\n"), 0o644)
	os.WriteFile(filepath.Join(scratch, "common/consts/ebpf_sync_spec.json"), raw, 0o644)
	cmd := exec.Command(genBin)
	cmd.Dir = scratch
	if out, err := cmd.CombinedOutput(); err != nil {
		c.viol("consts", fmt.Sprintf("generator cmd/generators/gen_ebpf_sync fails on the current spec: %v: %s", err, trunc(string(out), 300)), nil)
	} else {
		for _, f := range []string{"common/consts/ebpf_generated.go", "control/kern/ebpf_sync_defs.h"} {
			want, err1 := os.ReadFile(filepath.Join(scratch, f))
			have, err2 := os.ReadFile(filepath.Join(repo, f))
			c.item("const:regen:"+f, "")
			if err1 != nil || err2 != nil {
				c.viol("consts", fmt.Sprintf("generator did not produce %s (%v / %v)", f, err1, err2), nil)
				continue
			}
			if !bytes.Equal(want, have) {
				c.viol("consts", fmt.Sprintf("generated file %s is not what gen_ebpf_sync produces from ebpf_sync_spec.json: %s", f, firstDiff(have, want)), nil)
			}
		}
	}
	names := make([]string, 0, len(lay.Defines))
	for n := range lay.Defines {
		names = append(names, n)
	}
	sort.Strings(names)
	c.r.Set("c_integer_defines", len(names))
}

func firstDiff(have, want []byte) string {
	hl, wl := strings.Split(string(have), "\n"), strings.Split(string(want), "\n")
	for i := 0; i < len(hl) || i < len(wl); i++ {
		var h, w string
		if i < len(hl) {
			h = hl[i]
		}
		if i < len(wl) {
			w = wl[i]
		}
		if h != w {
			return fmt.Sprintf("line %d: tree has %q, generator gives %q", i+1, trunc(h, 80), trunc(w, 80))
		}
	}
	return "files differ"
}

func trunc(s string, n int) string {
	if len(s) > n {
		return s[:n] + "…"
	}
	return s
}
