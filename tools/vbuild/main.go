// vbuild: the build binder. Reads the CURRENT working tree of the repo and produces, under
// /verif/.work/<ID>/, a go build overlay that injects
//   - the synthesized "real mode" bindings for package control (bpf_stub.go minus everything
//     bpf_utils.go declares), when check.json asks for it,
//   - harness files into repo packages (checks/<ID>/inject/<repo-rel-dir>/*.go),
//   - the shared verification library packages (lib/<pkg>) as virtual packages verifx/<pkg>,
//   - the check's main package (checks/<ID>/main) as virtual package verifx/<id>,
//   - instrumented copies of repo files (engine S rewriting), when check.json lists them.
// It never writes inside the repo.
package main

import (
	"bytes"
	"encoding/json"
	"flag"
	"fmt"
	"go/ast"
	"go/format"
	"go/parser"
	"go/token"
	"os"
	"path/filepath"
	"sort"
	"strings"
)

type CheckConf struct {
	Realmode   bool              `json:"realmode"`
	Instrument []string          `json:"instrument"` // repo-relative files or dirs (non-test .go files)
	InstrumentSkip []string      `json:"instrument_skip"`
	Replace    map[string]string `json:"replace"`    // repo-relative path -> path relative to check dir
	ConstOverride map[string]map[string]string `json:"const_override"` // repo file -> const/var name -> new expr
	Tags       string            `json:"tags"`
	Libs       []string          `json:"libs"` // lib packages needed (default: all in /verif/lib)
	Kshim      bool              `json:"kshim"`
	Race       bool              `json:"race"`
	ShimContext bool             `json:"shim_context"`
	Shared     []string          `json:"shared"` // shared_inject/<name>/<repo-rel-dir>/*.go
}

func die(f string, a ...any) {
	fmt.Fprintf(os.Stderr, "vbuild: "+f+"\n", a...)
	os.Exit(2)
}

func main() {
	repo := flag.String("repo", "/repo", "repo working tree")
	verif := flag.String("verif", "/verif", "verif root")
	id := flag.String("id", "", "check id (directory under checks/)")
	out := flag.String("out", "", "work dir (default <verif>/.work/<id>)")
	flag.Parse()
	if *id == "" {
		die("need -id")
	}
	work := *out
	if work == "" {
		work = filepath.Join(*verif, ".work", *id)
	}
	gen := filepath.Join(work, "gen")
	os.RemoveAll(gen)
	if err := os.MkdirAll(gen, 0o755); err != nil {
		die("%v", err)
	}
	checkDir := filepath.Join(*verif, "checks", *id)
	var conf CheckConf
	if b, err := os.ReadFile(filepath.Join(checkDir, "check.json")); err == nil {
		if err := json.Unmarshal(b, &conf); err != nil {
			die("check.json: %v", err)
		}
	}
	overlay := map[string]string{}

	// 1. real-mode bindings
	if conf.Realmode {
		dst := filepath.Join(gen, "control_bindings.go")
		if err := synthBindings(filepath.Join(*repo, "control"), dst); err != nil {
			die("real-mode synthesis: %v", err)
		}
		overlay[filepath.Join(*repo, "control", "zz_verif_bindings.go")] = dst
	}

	// 2. lib packages -> verifx/<pkg>
	libRoot := filepath.Join(*verif, "lib")
	libs, _ := os.ReadDir(libRoot)
	for _, l := range libs {
		if !l.IsDir() {
			continue
		}
		if len(conf.Libs) > 0 && !contains(conf.Libs, l.Name()) {
			continue
		}
		addDir(overlay, filepath.Join(libRoot, l.Name()), filepath.Join(*repo, "verifx", l.Name()), "")
	}

	// 3. main package
	lid := strings.ToLower(*id)
	addDir(overlay, filepath.Join(checkDir, "main"), filepath.Join(*repo, "verifx", lid), "")
	// extra sub packages of the check: checks/<ID>/pkg/<name> -> verifx/<id>_<name>
	if subs, err := os.ReadDir(filepath.Join(checkDir, "pkg")); err == nil {
		for _, s := range subs {
			if s.IsDir() {
				addDir(overlay, filepath.Join(checkDir, "pkg", s.Name()), filepath.Join(*repo, "verifx", lid+"_"+s.Name()), "")
			}
		}
	}

	// 4. inject files into repo packages
	injRoot := filepath.Join(checkDir, "inject")
	filepath.Walk(injRoot, func(p string, info os.FileInfo, err error) error {
		if err != nil || info.IsDir() || !strings.HasSuffix(p, ".go") {
			return nil
		}
		rel, _ := filepath.Rel(injRoot, p)
		dir := filepath.Dir(rel)
		overlay[filepath.Join(*repo, dir, "zz_verif_"+lid+"_"+filepath.Base(p))] = p
		return nil
	})

	for _, sh := range conf.Shared {
		shRoot := filepath.Join(*verif, "shared_inject", sh)
		if _, err := os.Stat(shRoot); err != nil {
			die("shared inject %s: %v", sh, err)
		}
		filepath.Walk(shRoot, func(p string, info os.FileInfo, err error) error {
			if err != nil || info.IsDir() || !strings.HasSuffix(p, ".go") {
				return nil
			}
			rel, _ := filepath.Rel(shRoot, p)
			overlay[filepath.Join(*repo, filepath.Dir(rel), "zz_verif_sh_"+sh+"_"+filepath.Base(p))] = p
			return nil
		})
	}

	// 5. replacements
	for k, v := range conf.Replace {
		overlay[filepath.Join(*repo, k)] = filepath.Join(checkDir, v)
	}

	// 6. instrumentation (engine S)
	if len(conf.Instrument) > 0 || len(conf.ConstOverride) > 0 {
		files := expandInstrument(*repo, conf.Instrument, conf.InstrumentSkip, overlay)
		seen := map[string]bool{}
		for _, f := range files {
			seen[f] = true
		}
		for f := range conf.ConstOverride {
			if !seen[f] {
				files = append(files, f)
			}
		}
		sort.Strings(files)
		var jobs []instrJob
		for _, rel := range files {
			jobs = append(jobs, instrJob{rel: rel, rewrite: seen[rel], consts: conf.ConstOverride[rel]})
		}
		for _, f := range []string{"go.mod", "go.sum"} {
			data, err := os.ReadFile(filepath.Join(*repo, f))
			if err != nil {
				die("%v", err)
			}
			os.WriteFile(filepath.Join(work, f), data, 0o644)
		}
		tagsPre := "verif"
		if conf.Tags != "" {
			tagsPre += "," + conf.Tags
		}
		res, err := instrumentAll(*repo, work, overlay, tagsPre, jobs, !conf.ShimContext)
		if err != nil {
			die("instrument: %v", err)
		}
		for k, v := range res {
			overlay[k] = v
		}
	}

	// write overlay
	type ov struct {
		Replace map[string]string
	}
	b, _ := json.MarshalIndent(ov{overlay}, "", " ")
	if err := os.WriteFile(filepath.Join(work, "overlay.json"), b, 0o644); err != nil {
		die("%v", err)
	}
	// modfile copy so that the repo's go.mod/go.sum are never touched
	for _, f := range []string{"go.mod", "go.sum"} {
		data, err := os.ReadFile(filepath.Join(*repo, f))
		if err != nil {
			die("%v", err)
		}
		os.WriteFile(filepath.Join(work, f), data, 0o644)
	}
	tags := "verif"
	if conf.Tags != "" {
		tags += "," + conf.Tags
	}
	os.WriteFile(filepath.Join(work, "tags"), []byte(tags), 0o644)
	race := ""
	if conf.Race {
		race = "1"
	}
	os.WriteFile(filepath.Join(work, "race"), []byte(race), 0o644)
	fmt.Printf("vbuild: %s overlay entries=%d\n", *id, len(overlay))
}

func contains(s []string, x string) bool {
	for _, v := range s {
		if v == x {
			return true
		}
	}
	return false
}

func addDir(overlay map[string]string, src, dst, prefix string) {
	ents, err := os.ReadDir(src)
	if err != nil {
		return
	}
	for _, e := range ents {
		if e.IsDir() {
			addDir(overlay, filepath.Join(src, e.Name()), filepath.Join(dst, e.Name()), prefix)
			continue
		}
		n := e.Name()
		if strings.HasSuffix(n, ".go") || strings.HasSuffix(n, ".c") || strings.HasSuffix(n, ".h") || strings.HasSuffix(n, ".s") {
			overlay[filepath.Join(dst, prefix+n)] = filepath.Join(src, n)
		}
	}
}

func expandInstrument(repo string, items, skip []string, overlay map[string]string) []string {
	var out []string
	for _, it := range items {
		p := filepath.Join(repo, it)
		if _, virt := overlay[p]; virt {
			out = append(out, it)
			continue
		}
		st, err := os.Stat(p)
		if err != nil {
			die("instrument: %s: %v", it, err)
		}
		if !st.IsDir() {
			out = append(out, it)
			continue
		}
		ents, _ := os.ReadDir(p)
		for _, e := range ents {
			n := e.Name()
			if e.IsDir() || !strings.HasSuffix(n, ".go") || strings.HasSuffix(n, "_test.go") {
				continue
			}
			rel := filepath.Join(it, n)
			if contains(skip, rel) {
				continue
			}
			// honour simple build constraints: skip files that do not build on linux/amd64 w/o stub tag
			b, _ := os.ReadFile(filepath.Join(p, n))
			head := string(b)
			if i := strings.Index(head, "package "); i >= 0 {
				head = head[:i]
			}
			if strings.Contains(head, "//go:build !linux") || strings.Contains(head, "//go:build dae_stub_ebpf") || strings.Contains(head, "//go:build ignore") {
				continue
			}
			out = append(out, rel)
		}
	}
	sort.Strings(out)
	return out
}

// synthBindings writes bpf_stub.go minus every declaration bpf_utils.go also declares.
func synthBindings(controlDir, dst string) error {
	fset := token.NewFileSet()
	stub, err := parser.ParseFile(fset, filepath.Join(controlDir, "bpf_stub.go"), nil, parser.ParseComments)
	if err != nil {
		return err
	}
	// every other non-test, non-stub file of the package that builds without the stub tag
	declared := map[string]bool{}
	ents, _ := os.ReadDir(controlDir)
	for _, e := range ents {
		n := e.Name()
		if !strings.HasSuffix(n, ".go") || strings.HasSuffix(n, "_test.go") || n == "bpf_stub.go" {
			continue
		}
		f, err := parser.ParseFile(fset, filepath.Join(controlDir, n), nil, 0)
		if err != nil {
			return err
		}
		for _, d := range f.Decls {
			for _, k := range declKeys(d) {
				declared[k] = true
			}
		}
	}
	var kept []ast.Decl
	for _, d := range stub.Decls {
		switch x := d.(type) {
		case *ast.FuncDecl:
			if !declared[declKeys(x)[0]] {
				kept = append(kept, x)
			}
		case *ast.GenDecl:
			if x.Tok == token.IMPORT {
				kept = append(kept, x)
				continue
			}
			var specs []ast.Spec
			for _, s := range x.Specs {
				switch sp := s.(type) {
				case *ast.TypeSpec:
					if !declared["T:"+sp.Name.Name] {
						specs = append(specs, sp)
					}
				case *ast.ValueSpec:
					keep := false
					for _, n := range sp.Names {
						if !declared["V:"+n.Name] {
							keep = true
						}
					}
					if keep {
						specs = append(specs, sp)
					}
				}
			}
			if len(specs) > 0 {
				x.Specs = specs
				kept = append(kept, x)
			}
		}
	}
	stub.Decls = kept
	// strip build constraint comments
	var cgs []*ast.CommentGroup
	for _, cg := range stub.Comments {
		txt := cg.Text()
		if strings.Contains(cg.List[0].Text, "go:build") || strings.Contains(txt, "+build") {
			continue
		}
		cgs = append(cgs, cg)
	}
	stub.Comments = cgs
	pruneImports(stub)
	var buf bytes.Buffer
	buf.WriteString("// Code generated by vbuild (real-mode bindings). DO NOT EDIT.\n\n")
	if err := format.Node(&buf, fset, stub); err != nil {
		return err
	}
	return os.WriteFile(dst, buf.Bytes(), 0o644)
}

func declKeys(d ast.Decl) []string {
	switch x := d.(type) {
	case *ast.FuncDecl:
		if x.Recv != nil && len(x.Recv.List) > 0 {
			return []string{"M:" + recvName(x.Recv.List[0].Type) + "." + x.Name.Name}
		}
		return []string{"F:" + x.Name.Name}
	case *ast.GenDecl:
		var out []string
		for _, s := range x.Specs {
			switch sp := s.(type) {
			case *ast.TypeSpec:
				out = append(out, "T:"+sp.Name.Name)
			case *ast.ValueSpec:
				for _, n := range sp.Names {
					out = append(out, "V:"+n.Name)
				}
			}
		}
		return out
	}
	return nil
}

func recvName(e ast.Expr) string {
	switch x := e.(type) {
	case *ast.StarExpr:
		return recvName(x.X)
	case *ast.Ident:
		return x.Name
	case *ast.IndexExpr:
		return recvName(x.X)
	case *ast.IndexListExpr:
		return recvName(x.X)
	}
	return "?"
}

// pruneImports removes imports whose package name is never used as a selector base.
func pruneImports(f *ast.File) {
	used := map[string]bool{}
	ast.Inspect(f, func(n ast.Node) bool {
		if se, ok := n.(*ast.SelectorExpr); ok {
			if id, ok := se.X.(*ast.Ident); ok {
				used[id.Name] = true
			}
		}
		return true
	})
	for _, d := range f.Decls {
		gd, ok := d.(*ast.GenDecl)
		if !ok || gd.Tok != token.IMPORT {
			continue
		}
		var specs []ast.Spec
		for _, s := range gd.Specs {
			is := s.(*ast.ImportSpec)
			name := ""
			if is.Name != nil {
				name = is.Name.Name
			} else {
				p := strings.Trim(is.Path.Value, `"`)
				name = p[strings.LastIndex(p, "/")+1:]
			}
			if name == "_" || name == "." || used[name] {
				specs = append(specs, s)
			}
		}
		gd.Specs = specs
	}
	var imps []*ast.ImportSpec
	for _, d := range f.Decls {
		if gd, ok := d.(*ast.GenDecl); ok && gd.Tok == token.IMPORT {
			for _, s := range gd.Specs {
				imps = append(imps, s.(*ast.ImportSpec))
			}
		}
	}
	f.Imports = imps
}
