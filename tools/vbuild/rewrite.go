package main
