//go:build verif

// C18 harness inside package control: a ControlPlane literal that is sufficient for
// ChooseDialTarget / chooseProxyDialer / routeDial, a real DnsController, the production paths that make
// a name "known to be genuine" (NormalizeAndCacheDnsResp_ for answers learned by the DNS controller,
// probeAndUpdateRealDomain for the verification probe, with the package-level resolver seam stubbed),
// fake node dialers that record the string they are handed, and a recording wrapper around the
// routing.DomainMatcher interface that shows which name the flow is routed with.
package control

import (
	"context"
	"fmt"
	"net/netip"
	"sync"
	"time"

	"github.com/bits-and-blooms/bloom/v3"
	"github.com/daeuniverse/dae/common/consts"
	"github.com/daeuniverse/dae/common/netutils"
	ob "github.com/daeuniverse/dae/component/outbound"
	"github.com/daeuniverse/dae/component/outbound/dialer"
	"github.com/daeuniverse/dae/component/routing"
	"github.com/daeuniverse/dae/verifx/vsched"
	D "github.com/daeuniverse/outbound/dialer"
	"github.com/daeuniverse/outbound/netproxy"
	dnsmessage "github.com/miekg/dns"
)

// ---- resolver seam of the real-domain probe (package variable resolveIp46ForRealDomainProbe) ----

// Per-family outcome of the stubbed resolver.
const (
	VerifC18ProbeAddr   = 0 // the family answers with an address
	VerifC18ProbeNoData = 1 // the family answers, no record (no error)
	VerifC18ProbeErr    = 2 // the query of that family fails
)

var (
	verifC18ProbeMu      sync.RWMutex
	verifC18ProbeAnswers map[string][2]uint8 // name -> {A outcome, AAAA outcome}; absent: both families fail
	verifC18ProbeDynamic func(host string) ([2]uint8, bool)
	verifC18ProbeCalls   = map[string]int{}
	verifC18ProbeTotal   int // calls of the stubbed resolver made under the deterministic scheduler (deterministic count)
	verifC18ProbeLiteral int // those of them whose host was an IP literal (handed on to the real resolver's literal path)
)

// VerifC18InstallProbeResolver replaces the network resolver used by probeAndUpdateRealDomain with a
// per-family table (dynamic, when not nil, answers names the table does not hold; a host that is an IP literal is
// handed to the real netutils.ResolveIp46, which answers a literal with itself without any network) and lengthens the
// negative-cache TTL (a package variable, 10 s in production) so that a negative entry made through the
// production path outlives one run of the check. The stub fills Ip46 / err4 / err6 independently per
// family, like netutils.ResolveIp46 does.
func VerifC18InstallProbeResolver(answers map[string][2]uint8, dynamic func(host string) ([2]uint8, bool)) {
	verifC18ProbeMu.Lock()
	verifC18ProbeAnswers = answers
	verifC18ProbeDynamic = dynamic
	verifC18ProbeMu.Unlock()
	realDomainNegativeCacheTTL = time.Hour
	resolveIp46ForRealDomainProbe = func(ctx context.Context, d netproxy.Dialer, dns netip.AddrPort, host string, network string, race bool) (*netutils.Ip46, error, error) {
		_, litErr := netip.ParseAddr(host)
		managed := vsched.Active() // called from a thread of a deterministic-scheduler execution (legs F, H)
		verifC18ProbeMu.Lock()
		verifC18ProbeCalls[host]++
		if managed {
			verifC18ProbeTotal++
			if litErr == nil {
				verifC18ProbeLiteral++
			}
		}
		v, ok := verifC18ProbeAnswers[host]
		dyn := verifC18ProbeDynamic
		verifC18ProbeMu.Unlock()
		if litErr == nil {
			// A host that is an IP literal never reaches the network in production either: the real resolver
			// (netutils.ResolveIp46 -> resolve) answers it with itself. Keep exactly that behaviour by calling it.
			return netutils.ResolveIp46(ctx, d, dns, host, network, race)
		}
		if !ok && dyn != nil {
			v, ok = dyn(host)
		}
		if !ok {
			v = [2]uint8{VerifC18ProbeErr, VerifC18ProbeErr}
		}
		out := &netutils.Ip46{}
		var err4, err6 error
		switch v[0] {
		case VerifC18ProbeAddr:
			out.Ip4 = netip.MustParseAddr("203.0.113.7")
		case VerifC18ProbeErr:
			err4 = fmt.Errorf("verif: A query for %q failed", host)
		}
		switch v[1] {
		case VerifC18ProbeAddr:
			out.Ip6 = netip.MustParseAddr("2001:db8:7::7")
		case VerifC18ProbeErr:
			err6 = fmt.Errorf("verif: AAAA query for %q failed", host)
		}
		return out, err4, err6
	}
}

// VerifC18ProbeResolverTotals: (calls of the resolver seam made from managed threads of the deterministic
// scheduler, those of them whose host was an IP literal). Probes running as plain goroutines (legs A-E) are not
// counted here: their number at any moment depends on real scheduling.
func VerifC18ProbeResolverTotals() (int, int) {
	verifC18ProbeMu.RLock()
	defer verifC18ProbeMu.RUnlock()
	return verifC18ProbeTotal, verifC18ProbeLiteral
}

// VerifC18ProbeResolverCalls: how often the stubbed resolver was asked about host.
func VerifC18ProbeResolverCalls(host string) int {
	verifC18ProbeMu.RLock()
	defer verifC18ProbeMu.RUnlock()
	return verifC18ProbeCalls[host]
}

// WaitAsyncProbe waits for the verification probe that triggerRealDomainProbe started in the background for
// name: first until the stubbed resolver has been asked (the probe runs), then it joins the probe's
// singleflight slot, which returns only after probeAndUpdateRealDomain has finished updating the caches.
// false = no probe showed up within the (generous, synchronisation-only) timeout.
func (e *VerifC18Env) WaitAsyncProbe(name string, timeout time.Duration) bool {
	deadline := time.Now().Add(timeout)
	for VerifC18ProbeResolverCalls(name) == 0 {
		if time.Now().After(deadline) {
			return false
		}
		time.Sleep(50 * time.Microsecond)
	}
	_, _, _ = e.CP.realDomainProbeS.Do(name, func() (any, error) { return nil, nil })
	return true
}

// ---- recording domain matcher ----

type verifC18DomainRecorder struct {
	inner routing.DomainMatcher
	mu    sync.Mutex
	on    bool
	got   []string
}

func (r *verifC18DomainRecorder) AddSet(bitIndex int, patterns []string, typ consts.RoutingDomainKey) {
	r.inner.AddSet(bitIndex, patterns, typ)
}
func (r *verifC18DomainRecorder) Build() error { return r.inner.Build() }
func (r *verifC18DomainRecorder) MatchDomainBitmap(domain string) []uint32 {
	r.mu.Lock()
	if r.on {
		r.got = append(r.got, domain)
	}
	r.mu.Unlock()
	return r.inner.MatchDomainBitmap(domain)
}

// ---- fake node dialers ----

type VerifC18Dial struct {
	Group   string
	Network string
	Addr    string
}

type verifC18Conn struct{}

func (verifC18Conn) Read([]byte) (int, error)         { return 0, fmt.Errorf("verif: closed") }
func (verifC18Conn) Write(b []byte) (int, error)      { return len(b), nil }
func (verifC18Conn) Close() error                     { return nil }
func (verifC18Conn) SetDeadline(time.Time) error      { return nil }
func (verifC18Conn) SetReadDeadline(time.Time) error  { return nil }
func (verifC18Conn) SetWriteDeadline(time.Time) error { return nil }

type verifC18NodeDialer struct {
	group string
	env   *VerifC18Env
}

func (d *verifC18NodeDialer) DialContext(_ context.Context, network, addr string) (netproxy.Conn, error) {
	d.env.mu.Lock()
	d.env.dials = append(d.env.dials, VerifC18Dial{Group: d.group, Network: network, Addr: addr})
	d.env.mu.Unlock()
	return verifC18Conn{}, nil
}

// ---- environment ----

type VerifC18Env struct {
	CP     *ControlPlane
	Groups []string // index = outbound index
	rec    *verifC18DomainRecorder
	cancel context.CancelFunc
	mu     sync.Mutex
	dials  []VerifC18Dial
	// the DNS controller's store was handed to the next generation (ReuseForReload): Close must not close it
	dnsHandedOver bool
}

// VerifC18NewEnv builds the control plane literal. confText is a whole config (global/group/routing);
// userGroups are the names of the user groups in outbound-index order (first = OutboundUserDefinedMin).
func VerifC18NewEnv(mode string, confText string, userGroups []string) (*VerifC18Env, error) {
	return verifC18Build(mode, confText, userGroups, nil, "")
}

// Reload builds the next generation the way a configuration reload does: a brand-new ControlPlane (fresh
// real-domain set and negative cache, fresh outbounds and routing matcher) whose DNS state is carried over from
// this generation, and returns it; the receiver is closed.
//
//	how = "restore": the old controller's cache is cloned (controlPlaneDNSRuntime.cloneDnsCache ->
//	      DnsController.CloneCacheForReload), the new control plane gets a fresh DnsController and replays the
//	      carried cache (ControlPlane.replayDnsReloadCache -> DnsController.RestoreReloadCache)
//	how = "reuse":   DnsController.ReuseForReload: the long-lived store is shared, the new generation gets a new facade
func (e *VerifC18Env) Reload(mode string, confText string, userGroups []string, how string) (*VerifC18Env, error) {
	ne, err := verifC18Build(mode, confText, userGroups, e, how)
	if err != nil {
		return nil, err
	}
	e.Close()
	return ne, nil
}

func verifC18Build(mode string, confText string, userGroups []string, prev *VerifC18Env, how string) (*VerifC18Env, error) {
	dm, err := consts.ParseDialMode(mode)
	if err != nil {
		return nil, err
	}
	v, err := VerifCompileRouting(confText, userGroups, []routing.RulesOptimizer{&routing.AliasOptimizer{}})
	if err != nil {
		return nil, err
	}
	log := VerifQuietLogger()
	env := &VerifC18Env{}
	env.rec = &verifC18DomainRecorder{inner: v.Matcher.domainMatcher}
	v.Matcher.domainMatcher = env.rec

	gopt := &dialer.GlobalOption{Log: log, CheckInterval: time.Second}
	names := append([]string{consts.OutboundDirect.String(), consts.OutboundBlock.String()}, userGroups...)
	var outbounds []*ob.DialerGroup
	for _, name := range names {
		d := dialer.NewDialer(&verifC18NodeDialer{group: name, env: env}, gopt, dialer.InstanceOption{DisableCheck: true},
			&dialer.Property{Property: D.Property{Name: "node-" + name, Address: "node-" + name + ".invalid:443", Protocol: "verif"}})
		g := ob.NewDialerGroup(gopt, name, []*dialer.Dialer{d}, []*dialer.Annotation{{}},
			ob.DialerSelectionPolicy{Policy: consts.DialerSelectionPolicy_Fixed, FixedIndex: 0},
			func(bool, *dialer.NetworkType, bool) {})
		outbounds = append(outbounds, g)
	}
	env.Groups = names

	ctx, cancel := context.WithCancel(context.Background())
	env.cancel = cancel
	cp := &ControlPlane{
		log: log,
		controlPlaneGenerationState: controlPlaneGenerationState{
			outbounds:          outbounds,
			dialMode:           dm,
			routingMatcher:     v.Matcher,
			bootstrapResolvers: []netip.AddrPort{netip.MustParseAddrPort("192.0.2.53:53")},
		},
		ctx:           ctx,
		cancel:        cancel,
		realDomainSet: bloom.NewWithEstimates(2048, 0.001), // as in NewControlPlane
	}
	// The production option closure shape (ControlPlane.dnsControllerOption) minus the kernel-map callbacks.
	dcOption := &DnsControllerOption{
		Log:              log,
		LifecycleContext: ctx,
		NewCache: func(fqdn string, answers, ns, extra []dnsmessage.RR, deadline time.Time, originalDeadline time.Time) (*DnsCache, error) {
			return &DnsCache{
				DomainBitmap:     cp.routingMatcher.domainMatcher.MatchDomainBitmap(fqdn),
				NS:               ns,
				Extra:            extra,
				Answer:           answers,
				Deadline:         deadline,
				OriginalDeadline: originalDeadline,
			}, nil
		},
	}
	var dc *DnsController
	switch {
	case prev == nil || how == "restore":
		dc, err = NewDnsController(nil, dcOption)
	case how == "reuse":
		dc, err = prev.CP.dnsController.ReuseForReload(dcOption, nil)
		if err == nil {
			prev.dnsHandedOver = true
		}
	default:
		err = fmt.Errorf("verif: unknown reload kind %q", how)
	}
	if err != nil {
		cancel()
		return nil, err
	}
	cp.dnsController = dc
	env.CP = cp
	if prev != nil && how == "restore" {
		cp.pendingDnsReloadCache = prev.CP.cloneDnsCache()
		cp.replayDnsReloadCache()
	}
	return env, nil
}

func (e *VerifC18Env) Close() {
	e.cancel()
	if !e.dnsHandedOver {
		_ = e.CP.dnsController.Close()
	}
	for _, g := range e.CP.outbounds {
		_ = g.Close()
	}
}

// LearnDNS feeds one upstream response for (qname,qtype) with the given addresses (may be empty = NODATA)
// through DnsController.NormalizeAndCacheDnsResp_, the function the DNS path calls for every response it
// is about to hand to a client. scoped selects an as-is scoped response key ("key|asis@…") or the bare key.
func (e *VerifC18Env) LearnDNS(qname string, qtype uint16, addrs []string, ttl uint32, scoped bool) error {
	return e.LearnDNSResp(qname, qtype, VerifC18Resp{Addrs: addrs, TTL: ttl, Scoped: scoped})
}

// VerifC18Resp is the shape of one upstream message handed to NormalizeAndCacheDnsResp_ (dialSend hands it every
// message the upstream produced, whatever its response code).
type VerifC18Resp struct {
	NotResponse bool     // the QR bit is clear (a query echoed back)
	Rcode       int      // 0 NOERROR, 2 SERVFAIL, 3 NXDOMAIN, 5 REFUSED ...
	Addrs       []string // address records of the queried type (owner: qname, or Cname when set)
	Cname       string   // non-empty: the answer section starts with "qname CNAME Cname"
	SOA         bool     // authority section carries the zone's SOA (negative answers, RFC 2308)
	TTL         uint32
	Scoped      bool
}

func (e *VerifC18Env) LearnDNSResp(qname string, qtype uint16, r VerifC18Resp) error {
	fq := dnsmessage.Fqdn(qname)
	msg := &dnsmessage.Msg{}
	msg.Response = !r.NotResponse
	msg.Rcode = r.Rcode
	msg.Question = []dnsmessage.Question{{Name: fq, Qtype: qtype, Qclass: dnsmessage.ClassINET}}
	owner := fq
	if r.Cname != "" {
		owner = dnsmessage.Fqdn(r.Cname)
		msg.Answer = append(msg.Answer, &dnsmessage.CNAME{
			Hdr: dnsmessage.RR_Header{Name: fq, Rrtype: dnsmessage.TypeCNAME, Class: dnsmessage.ClassINET, Ttl: r.TTL}, Target: owner})
	}
	for _, a := range r.Addrs {
		ip := netip.MustParseAddr(a)
		hdr := dnsmessage.RR_Header{Name: owner, Rrtype: qtype, Class: dnsmessage.ClassINET, Ttl: r.TTL}
		if qtype == dnsmessage.TypeA {
			msg.Answer = append(msg.Answer, &dnsmessage.A{Hdr: hdr, A: ip.AsSlice()})
		} else {
			msg.Answer = append(msg.Answer, &dnsmessage.AAAA{Hdr: hdr, AAAA: ip.AsSlice()})
		}
	}
	if r.SOA {
		msg.Ns = append(msg.Ns, &dnsmessage.SOA{
			Hdr: dnsmessage.RR_Header{Name: "example.", Rrtype: dnsmessage.TypeSOA, Class: dnsmessage.ClassINET, Ttl: 300},
			Ns:  "ns.example.", Mbox: "hostmaster.example.", Serial: 1, Refresh: 7200, Retry: 3600, Expire: 1209600, Minttl: 300})
	}
	dc := e.CP.dnsController
	base := dc.cacheKey(fq, qtype)
	key := base
	if r.Scoped {
		key = dc.responseCacheKey(base, &udpRequest{realDst: netip.MustParseAddrPort("192.0.2.53:53")}, consts.DnsRequestOutboundIndex_AsIs, nil)
	}
	return dc.NormalizeAndCacheDnsResp_(msg, key)
}

// ProbeRealDomain runs the production verification probe synchronously (the body of the goroutine that
// triggerRealDomainProbe starts) against the stubbed resolver.
func (e *VerifC18Env) ProbeRealDomain(name string) bool { return e.CP.probeAndUpdateRealDomain(name) }

func (e *VerifC18Env) Choose(outbound uint8, dst netip.AddrPort, sniffed string) (string, bool, bool) {
	return e.CP.ChooseDialTarget(consts.OutboundIndex(outbound), dst, sniffed)
}

type VerifC18Obs struct {
	Err        string
	Dials      []VerifC18Dial // what the fake node dialers received (routeDial only)
	Routed     []string       // non-empty names the routing matcher was asked about during the call
	FinalGroup string         // group of the result
	DialTarget string         // proxyDialResult.DialTarget
	IsDialIp   bool
	NilResult  bool
}

func (e *VerifC18Env) param(outbound uint8, src, dst netip.AddrPort, sniffed, network string) *proxyDialParam {
	return &proxyDialParam{Outbound: consts.OutboundIndex(outbound), Domain: sniffed, Src: src, Dest: dst, Network: network,
		Mac: [6]uint8{2, 0, 0, 0, 0, 1}}
}

func (e *VerifC18Env) begin() {
	e.mu.Lock()
	e.dials = nil
	e.mu.Unlock()
	e.rec.mu.Lock()
	e.rec.got = nil
	e.rec.on = true
	e.rec.mu.Unlock()
}

func (e *VerifC18Env) end(o *VerifC18Obs, res *proxyDialResult, err error) {
	e.rec.mu.Lock()
	e.rec.on = false
	o.Routed = append([]string(nil), e.rec.got...)
	e.rec.mu.Unlock()
	e.mu.Lock()
	o.Dials = append([]VerifC18Dial(nil), e.dials...)
	e.mu.Unlock()
	if err != nil {
		o.Err = err.Error()
	}
	if res == nil {
		o.NilResult = true
		return
	}
	if res.Outbound != nil {
		o.FinalGroup = res.Outbound.Name
	}
	o.DialTarget = res.DialTarget
	o.IsDialIp = res.IsDialIp
}

// RouteDial drives the TCP path of handleConn from the proxyDialParam on: routeDial -> chooseProxyDialer ->
// (Route) -> ChooseDialTarget -> Dialer.DialContext of the selected node.
func (e *VerifC18Env) RouteDial(outbound uint8, src, dst netip.AddrPort, sniffed string) (o VerifC18Obs) {
	e.begin()
	conn, res, err := e.CP.routeDial(context.Background(), e.param(outbound, src, dst, sniffed, "tcp"))
	if conn != nil {
		_ = conn.Close()
	}
	e.end(&o, res, err)
	return o
}

// ChooseProxy drives chooseProxyDialer alone (what the UDP path calls before it dials by itself).
func (e *VerifC18Env) ChooseProxy(outbound uint8, src, dst netip.AddrPort, sniffed, network string) (o VerifC18Obs) {
	e.begin()
	res, err := e.CP.chooseProxyDialer(context.Background(), e.param(outbound, src, dst, sniffed, network))
	e.end(&o, res, err)
	return o
}
