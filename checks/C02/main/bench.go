package main

import (
	"fmt"
	"os"
	"time"

	"github.com/daeuniverse/dae/verifx/vkern"
	"github.com/daeuniverse/dae/verifx/vroute"
)

// development aid (C02_BENCH=1): per-operation cost of engine K in wall time; not part of the check.
func (c *checker) bench() {
	k := <-c.pool
	base := vroute.Tier1().At(3000)
	cp, err := c.compile(base, variantAt(7))
	if err != nil {
		broken("%v", err)
	}
	t0 := time.Now()
	for i := 0; i < 2000; i++ {
		k.Reset()
	}
	fmt.Printf("reset: %.1f us\n", float64(time.Since(t0).Microseconds())/2000)
	t0 = time.Now()
	for i := 0; i < 2000; i++ {
		c.load(k, cp)
	}
	fmt.Printf("load (%s; %d lpm): %.1f us\n", cp.prog.OneLine(), cp.v.LpmCount(), float64(time.Since(t0).Microseconds())/2000)
	pk := packetsOf(cp.prog, vroute.PacketOpts{MappedForms: true})
	var args []vkern.RouteArg
	for len(args) < 4000 {
		for i := range pk {
			args = append(args, c.routeArg(&pk[i], true))
		}
	}
	t0 = time.Now()
	for i := 0; i < 50; i++ {
		k.Route(args)
	}
	fmt.Printf("route: %.2f us/call (batch %d)\n", float64(time.Since(t0).Microseconds())/50/float64(len(args)), len(args))
	t0 = time.Now()
	for i := 0; i < 20000; i++ {
		k.Route(args[:10])
	}
	fmt.Printf("route batch of 10: %.2f us/batch\n", float64(time.Since(t0).Microseconds())/20000)
	t0 = time.Now()
	n := 0
	for i := 0; i < 200; i++ {
		for j := range pk {
			p := &pk[j]
			cp.v.Route(p.Src, p.Dst, p.Domain, l4Of(p.L4), pname16(p.Pname), p.Mac, p.Dscp)
			cp.ref.Decide(p)
			n++
		}
	}
	fmt.Printf("go route+ref: %.2f us/pkt\n", float64(time.Since(t0).Microseconds())/float64(n))
	t0 = time.Now()
	for i := 0; i < 300; i++ {
		c.compile(base, variantAt(i%60))
	}
	fmt.Printf("compile: %.1f us\n", float64(time.Since(t0).Microseconds())/300)
	os.Exit(0)
}
