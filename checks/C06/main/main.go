// C06 — sniffing finds the name that is there and never alters or withholds payload.
//
// Bounded-exhaustive enumeration (engine Q) of generated TLS ClientHellos x read cuttings, HTTP/1 heads, QUIC v1/v2
// Initial sequences from an independent encoder, and of negative families (truncations, bit flips, all short byte
// strings, malformed frame prefixes, length-field perturbations, all short extension blocks), every case decided
// against reference parsers written from the RFC field layouts; every TCP case drained through each relay route and
// compared byte for byte with what the client sent. The timing clause runs under engine S (virtual clock,
// deterministic goroutines, default schedule): timing.go.
package main

import (
	"bytes"
	"encoding/hex"
	"errors"
	"fmt"
	"io"
	"net"
	"os"
	"regexp"
	"sort"
	"strings"
	"sync"
	"sync/atomic"
	"time"

	"github.com/daeuniverse/dae/component/sniffing"
	"github.com/daeuniverse/dae/verifx/vlib"
)

var R *vlib.Run
var evals *atomic.Int64

// ---- violation store: per (leg,class) keep the 2 smallest cases (deterministic whatever the worker interleaving) ----

type vcase struct {
	key, sig string
	detail   any
}
type vclass struct {
	n    int64
	best []vcase
}

var (
	vmu     sync.Mutex
	vstore  = map[string]*vclass{}
	keepPer = 2
)

func less(a, b vcase) bool {
	if len(a.key) != len(b.key) {
		return len(a.key) < len(b.key)
	}
	return a.key < b.key
}

// report: key orders the cases of a class (shortest/smallest input first); sig is the stable signature.
func report(leg, class, key, sig string, detail any) {
	vmu.Lock()
	defer vmu.Unlock()
	id := leg + "/" + class
	c := vstore[id]
	if c == nil {
		c = &vclass{}
		vstore[id] = c
	}
	c.n++
	for _, b := range c.best {
		if b.key == key {
			return
		}
	}
	c.best = append(c.best, vcase{key, sig, detail})
	sort.Slice(c.best, func(i, j int) bool { return less(c.best[i], c.best[j]) })
	if len(c.best) > keepPer {
		c.best = c.best[:keepPer]
	}
}

func flushViolations() {
	ids := make([]string, 0, len(vstore))
	for id := range vstore {
		ids = append(ids, id)
	}
	sort.Strings(ids)
	classes := map[string]int64{}
	for _, id := range ids {
		c := vstore[id]
		classes[id] = c.n
		for _, b := range c.best {
			R.Violation(fmt.Sprintf("leg=%s %s", id, b.sig), map[string]any{"class": id, "cases_in_class": c.n, "detail": b.detail})
		}
	}
	R.Set("violation_classes", classes)
}

func hx(b []byte) string {
	if len(b) > 2400 {
		return hex.EncodeToString(b[:2400]) + "…"
	}
	return hex.EncodeToString(b)
}

func hxs(bs [][]byte) []string {
	var out []string
	for _, b := range bs {
		out = append(out, hx(b))
	}
	return out
}

func cat(bs ...[]byte) []byte {
	var out []byte
	for _, b := range bs {
		out = append(out, b...)
	}
	return out
}

func clone(b []byte) []byte { return append([]byte(nil), b...) }

// ---- scripted connection (sequential legs) --------------------------------------------------------------------------
//
// Delivers one chunk per Read (cut to the offered buffer), then end of stream. A real socket whose read deadline
// is armed answers ErrDeadlineExceeded once the deadline has passed even at end of stream; the sniffer re-reads at end
// of stream without pause, so "time passes" is modelled deterministically: the 4th consecutive end-of-stream read
// under an armed deadline returns the deadline error. With no deadline armed end of stream is io.EOF for ever.
type sconn struct {
	chunks   [][]byte
	i, off   int
	dlArmed  bool
	eofSpins int
	spinsMax int
	fill     func(n int) []byte // if set: the first Read fills the whole offered buffer with fill(len(p))
	sent     []byte              // everything handed out so far (what the client "sent" and the sniffer/relay consumed)
	all      []byte              // every byte the client sends over the life of the connection
}

func newSconn(chunks ...[]byte) *sconn {
	c := &sconn{chunks: chunks}
	c.all = cat(chunks...)
	return c
}

func (c *sconn) Read(p []byte) (int, error) {
	if len(p) == 0 {
		return 0, nil
	}
	if c.fill != nil {
		b := c.fill(len(p))
		c.fill = nil
		c.all = cat(b, c.all)
		return copy(p, b), nil
	}
	if c.i >= len(c.chunks) {
		if c.dlArmed {
			c.eofSpins++
			if c.eofSpins > c.spinsMax {
				c.spinsMax = c.eofSpins
			}
			if c.eofSpins > 3 {
				return 0, os.ErrDeadlineExceeded
			}
		}
		return 0, io.EOF
	}
	n := copy(p, c.chunks[c.i][c.off:])
	c.off += n
	if c.off >= len(c.chunks[c.i]) {
		c.i++
		c.off = 0
	}
	return n, nil
}
func (c *sconn) Write(p []byte) (int, error) { return len(p), nil }
func (c *sconn) Close() error                { return nil }
func (c *sconn) LocalAddr() net.Addr         { return &net.TCPAddr{IP: net.IPv4(127, 0, 0, 1), Port: 1} }
func (c *sconn) RemoteAddr() net.Addr        { return &net.TCPAddr{IP: net.IPv4(127, 0, 0, 1), Port: 2} }
func (c *sconn) SetDeadline(t time.Time) error {
	return c.SetReadDeadline(t)
}
func (c *sconn) SetReadDeadline(t time.Time) error {
	// the sniffer re-arms the same absolute deadline before every read: the count of end-of-stream reads runs on
	c.dlArmed = !t.IsZero()
	return nil
}
func (c *sconn) SetWriteDeadline(t time.Time) error { return nil }

var relayBufs = sync.Pool{New: func() any { b := make([]byte, 32<<10); return &b }}

type sink struct{ b *[]byte }

func (s sink) Write(p []byte) (int, error) { *s.b = append(*s.b, p...); return len(p), nil }

var routeNames = []string{"read7", "writeto", "prefix+remainder", "segments+read"}

// drainRoute hands the client's bytes to a relay the way a relay would take them; *out grows as the relay receives
// bytes; the returned error is what ended the relay (nil = clean end of stream).
func drainRoute(cs *sniffing.ConnSniffer, route int, limit int, out *[]byte) (err error) {
	readLoop := func(bufSize int) {
		bp := relayBufs.Get().(*[]byte)
		defer relayBufs.Put(bp)
		buf := (*bp)[:bufSize]
		for it := 0; it < limit+64; it++ {
			n, er := cs.Read(buf)
			*out = append(*out, buf[:n]...)
			if er == io.EOF {
				return
			}
			if er != nil {
				err = er
				return
			}
		}
		err = errors.New("relay read loop does not terminate")
	}
	switch route {
	case 0:
		readLoop(7)
	case 1:
		before := len(*out)
		n, er := cs.WriteTo(sink{out})
		err = er
		if er == nil && n != int64(len(*out)-before) {
			err = fmt.Errorf("WriteTo reports %d bytes, wrote %d", n, len(*out)-before)
		}
	case 2:
		*out = append(*out, cs.TakeRelayPrefix()...)
		bp := relayBufs.Get().(*[]byte)
		defer relayBufs.Put(bp)
		_, err = cs.CopyRelayRemainder(sink{out}, *bp)
	case 3:
		for _, s := range cs.TakeRelaySegments() {
			*out = append(*out, s...)
		}
		readLoop(4096)
	}
	return
}

type tcpOpts struct {
	leg       string
	key       func() string // ordering key of the case inside its class (built only when a violation is reported)
	desc      func() string
	recognise bool // the statement's arrival assumptions hold: a required name MUST be reported
	routes    []int
	fill      func(n int) []byte
}

var allRoutes = []int{0, 1, 2, 3}

type tcpStats struct {
	found, notFound, drains, errAfterAll, spins atomic.Int64
}

var tstat tcpStats

// runTCP: one byte stream in a given cutting through ConnSniffer.SniffTcp, then every relay route.
func runTCP(o tcpOpts, chunks [][]byte, v *verdict) {
	for _, route := range o.routes {
		conn := newSconn(chunks...)
		conn.fill = o.fill
		var cs *sniffing.ConnSniffer
		var name string
		var serr error
		evals.Add(1)
		if p, msg := vlib.Try(func() {
			cs = sniffing.NewConnSniffer(conn, time.Hour)
			name, serr = cs.SniffTcp()
		}); p {
			report(o.leg, "panic-sniff "+panicSite(msg), o.key(), fmt.Sprintf("panic in SniffTcp at %s input=%s", panicSite(msg), o.desc()),
				map[string]any{"chunks": hxs(chunks), "stream": hx(conn.all), "panic": msg})
			return
		}
		vv := v
		if vv == nil { // stream produced by the connection itself (fill): judge what was actually sent
			w := refStream(conn.all)
			vv = &w
		}
		if route == o.routes[0] {
			var firstRead []byte
			if len(chunks) > 0 {
				firstRead = chunks[0]
			}
			checkName(o.leg, o.key, o.desc, name, serr, vv, o.recognise, func() map[string]any { return map[string]any{"chunks": hxs(chunks), "stream": hx(conn.all)} }, firstRead)
			if serr == nil && name != "" {
				tstat.found.Add(1)
			} else {
				tstat.notFound.Add(1)
			}
		}
		// sequential leg, read-deadline path: no goroutine of the sniffer is left once SniffTcp has returned, so a gate that is
		// still shut stays shut and the relay's first Read / TakeRelayPrefix would never return (decided without waiting)
		if cs.VerifReadWouldBlock() {
			report(o.leg, "relay-stuck", o.key(), fmt.Sprintf("SniffTcp returned (%q, %s) but left the sniffer's data-ready gate shut: the relay's Read/TakeRelayPrefix blocks for ever, the connection is unusable input=%s", name, errClass(serr), o.desc()),
				map[string]any{"chunks": hxs(chunks), "sniff_error": fmt.Sprint(serr)})
			vlib.Try(func() { cs.Close() })
			return
		}
		got := make([]byte, 0, len(conn.all)+16)
		var derr error
		if p, msg := vlib.Try(func() { derr = drainRoute(cs, route, len(conn.all), &got) }); p {
			report(o.leg, "panic-drain "+routeNames[route]+" "+panicSite(msg), o.key(), fmt.Sprintf("panic while draining route=%s at %s input=%s", routeNames[route], panicSite(msg), o.desc()),
				map[string]any{"chunks": hxs(chunks), "panic": msg})
			return
		}
		tstat.drains.Add(1)
		if conn.spinsMax > 0 {
			tstat.spins.Add(1)
		}
		if !bytes.Equal(got, conn.all) {
			class := "relay-bytes-differ"
			if derr != nil {
				class = "relay-aborted"
			}
			report(o.leg, class+" "+routeNames[route], o.key(),
				fmt.Sprintf("route=%s relay got %d of %d client bytes (first difference at %d) relay error=%v sniff=(%q,%v) input=%s", routeNames[route], len(got), len(conn.all), firstDiff(got, conn.all), derr, name, errClass(serr), o.desc()),
				map[string]any{"chunks": hxs(chunks), "client_sent": hx(conn.all), "relay_got": hx(got), "relay_error": fmt.Sprint(derr), "sniff_error": fmt.Sprint(serr)})
		} else if derr != nil {
			tstat.errAfterAll.Add(1)
		}
		vlib.Try(func() { cs.Close() })
	}
}

var panicSiteRe = regexp.MustCompile(`(component/sniffing/[A-Za-z0-9_/]+\.go):(\d+)`)

// panicSite: innermost frame of the code under test (stable whatever directory the tree lives in).
func panicSite(msg string) string {
	for _, ln := range strings.Split(msg, "\n") {
		if strings.Contains(ln, "zz_verif") {
			continue
		}
		if m := panicSiteRe.FindStringSubmatch(ln); m != nil {
			return m[1] + ":" + m[2]
		}
	}
	return "unknown-site"
}

func firstDiff(a, b []byte) int {
	n := len(a)
	if len(b) < n {
		n = len(b)
	}
	for i := 0; i < n; i++ {
		if a[i] != b[i] {
			return i
		}
	}
	return n
}

func errClass(err error) string {
	switch {
	case err == nil:
		return "nil"
	case errors.Is(err, sniffing.ErrNeedMore) && errors.Is(err, sniffing.ErrNotApplicable):
		return "need-more+not-applicable"
	case errors.Is(err, sniffing.ErrNotApplicable):
		return "not-applicable"
	case errors.Is(err, sniffing.ErrNotFound):
		return "not-found"
	case errors.Is(err, sniffing.ErrNeedMore):
		return "need-more"
	}
	return "other:" + err.Error()
}

// checkName: the two name oracles. Safety: a reported name is DNS-equal to a carried one. Recognition: a required name
// is reported when the arrival assumptions of the statement hold.
// unterminatedHostDiag labels the one recorded, unrepaired finding (see known_findings.json): sniffHTTPHostHeader treats
// the last, UNTERMINATED line of the bytes it was given as a complete header. The label is attached only when the
// reported name is exactly what that behaviour yields — the normalised text after "Host:" on an unterminated last line of
// the bytes seen at sniff time — so any other wrong name keeps the plain class and is reported as a violation.
func unterminatedHostDiag(seen []byte, reported string) string {
	i := bytes.LastIndex(seen, []byte("\r\n"))
	if i < 0 || i+2 >= len(seen) {
		return ""
	}
	last := seen[i+2:]
	k, val, ok := bytes.Cut(last, []byte(":"))
	if !ok || !strings.EqualFold(strings.TrimSpace(string(k)), "host") {
		return ""
	}
	want := sniffing.NormalizeDomain(strings.TrimSpace(string(val)))
	if want != "" && (reported == want || sniffing.NormalizeDomain(reported) == want) {
		return " diag=unterminated-host-line"
	}
	return ""
}

func checkName(leg string, key, desc func() string, name string, err error, v *verdict, recognise bool, detailf func() map[string]any, seen ...[]byte) {
	if err == nil && name != "" && !v.allows(name) {
		detail := detailf()
		detail["reported"] = name
		detail["carried"] = v.carried
		diag := ""
		if len(seen) > 0 {
			diag = unterminatedHostDiag(seen[0], name)
		}
		report(leg, "wrong-name"+diag, key(), fmt.Sprintf("reported %q but the input carries %q input=%s", name, v.carried, desc()), detail)
		return
	}
	if recognise && v.required && (err != nil || normName(name) != v.name) {
		detail := detailf()
		detail["reported"] = name
		detail["error"] = fmt.Sprint(err)
		detail["expected"] = v.name
		report(leg, "not-recognised", key(), fmt.Sprintf("well-formed input carrying %q: sniffer says (%q, %s) input=%s", v.name, name, errClass(err), desc()), detail)
	}
}

// refStream: reference verdict for a TCP byte stream (TLS if it starts like a record, else HTTP).
func refStream(s []byte) verdict {
	if len(s) > 0 && s[0] == 22 {
		return refTLSStream(s)
	}
	return refHTTPStream(s)
}

// guarded: the same bytes in an exactly-sized buffer through the exported parsers; only panics (= reads beyond the
// received bytes, or any other crash) and wrong names are judged here.
func runGuardedTCP(leg, key, desc string, data []byte, v *verdict) {
	for _, which := range []string{"SniffTls", "SniffHttp"} {
		var name string
		var err error
		evals.Add(1)
		if p, msg := vlib.Try(func() {
			s := sniffing.VerifGuardedSniffer(data)
			if which == "SniffTls" {
				name, err = s.SniffTls()
			} else {
				name, err = s.SniffHttp()
			}
		}); p {
			report(leg, "out-of-bounds/panic "+which+" "+panicSite(msg), key, fmt.Sprintf("%s on an exactly-sized buffer panics at %s input=%s", which, panicSite(msg), desc),
				map[string]any{"input": hx(data), "panic": msg})
			continue
		}
		if err == nil && name != "" && !v.allows(sniffing.NormalizeDomain(name)) && !v.allows(name) {
			report(leg, "wrong-name-guarded"+unterminatedHostDiag(data, name), key, fmt.Sprintf("%s reported %q but the input carries %q input=%s", which, name, v.carried, desc), map[string]any{"input": hx(data)})
		}
	}
}

type udpStats struct{ found, notFound, seqs atomic.Int64 }

var ustat udpStats

// runUDP: a datagram sequence through the control plane's protocol (NewPacketSniffer(nil) ; AppendData ; SniffUdp per
// datagram). Oracles: names (safety at every step, recognition after the last datagram), Data() == ingress datagrams in
// order and byte-identical, caller's buffers untouched, no panic.
func runUDP(leg, key, desc string, dgrams [][]byte, v *verdict, recognise bool) {
	ustat.seqs.Add(1)
	var s *sniffing.Sniffer
	var name string
	var err error
	detail := func() map[string]any { return map[string]any{"datagrams": hxs(dgrams)} }
	for i, d := range dgrams {
		in := clone(d)
		evals.Add(1)
		if p, msg := vlib.Try(func() {
			if i == 0 {
				s = sniffing.NewPacketSniffer(nil, time.Hour)
			}
			s.AppendData(in)
			name, err = s.SniffUdp()
		}); p {
			dt := detail()
			dt["panic"] = msg
			report(leg, "panic-sniff "+panicSite(msg), key, fmt.Sprintf("panic in SniffUdp at %s (datagram %d) input=%s", panicSite(msg), i, desc), dt)
			return
		}
		if !bytes.Equal(in, d) {
			report(leg, "caller-buffer-modified", key, "AppendData/SniffUdp modified the caller's datagram input="+desc, detail())
		}
		for k := range in { // the caller's receive buffer is recycled for the next datagram (control/udp.go does so)
			in[k] = 0xEE
		}
		if err == nil && name != "" && !v.allows(name) {
			dt := detail()
			dt["reported"], dt["carried"], dt["step"] = name, v.carried, i
			report(leg, "wrong-name", key, fmt.Sprintf("reported %q after datagram %d but the sequence carries %q input=%s", name, i, v.carried, desc), dt)
			break
		}
		data := s.Data()
		ok := len(data) == i+2 && len(data[0]) == 0
		for j := 0; ok && j <= i; j++ {
			ok = bytes.Equal(data[j+1], dgrams[j])
		}
		if !ok {
			dt := detail()
			dt["data"] = hxs(data)
			dt["step"] = i
			report(leg, "data-differs", key, fmt.Sprintf("Sniffer.Data() after datagram %d is not the ingress datagrams in order (sniff=(%q,%s)) input=%s", i, name, errClass(err), desc), dt)
			break
		}
	}
	if err == nil && name != "" {
		ustat.found.Add(1)
	} else {
		ustat.notFound.Add(1)
	}
	if recognise && v.required && (err != nil || normName(name) != v.name) {
		dt := detail()
		dt["reported"], dt["error"], dt["expected"] = name, fmt.Sprint(err), v.name
		report(leg, "not-recognised", key, fmt.Sprintf("well-formed Initial sequence carrying %q: sniffer says (%q, %s) input=%s", v.name, name, errClass(err), desc), dt)
	}
	vlib.Try(func() { s.Close() })
}

// runUDPSingle: one datagram through the constructor form and through the exactly-sized buffer.
func runUDPSingle(leg, key, desc string, d []byte, v *verdict) {
	for _, form := range []string{"ctor", "guarded"} {
		var name string
		var err error
		var s *sniffing.Sniffer
		evals.Add(1)
		if p, msg := vlib.Try(func() {
			if form == "ctor" {
				s = sniffing.NewPacketSniffer(clone(d), time.Hour)
			} else {
				s = sniffing.VerifGuardedSniffer(d)
			}
			name, err = s.SniffUdp()
		}); p {
			report(leg, "out-of-bounds/panic SniffUdp("+form+") "+panicSite(msg), key, fmt.Sprintf("SniffUdp (%s buffer) panics at %s input=%s", form, panicSite(msg), desc),
				map[string]any{"datagram": hx(d), "panic": msg})
			continue
		}
		if err == nil && name != "" && !v.allows(name) {
			report(leg, "wrong-name", key, fmt.Sprintf("reported %q but the datagram carries %q input=%s", name, v.carried, desc), map[string]any{"datagram": hx(d)})
		}
		if data := s.Data(); len(data) != 1 || !bytes.Equal(data[0], d) {
			report(leg, "data-differs", key, "Sniffer.Data() differs from the datagram after SniffUdp ("+form+") input="+desc, map[string]any{"datagram": hx(d), "data": hxs(data)})
		}
		if form == "ctor" {
			vlib.Try(func() { s.Close() })
		}
	}
}

// ---- enumeration helpers ----------------------------------------------------------------------------------------------

func permsUpTo(n, k int) [][]int {
	var out [][]int
	var rec func(cur []int, used int)
	rec = func(cur []int, used int) {
		out = append(out, append([]int(nil), cur...))
		if len(cur) == k {
			return
		}
		for i := 0; i < n; i++ {
			if used&(1<<uint(i)) == 0 {
				rec(append(cur, i), used|1<<uint(i))
			}
		}
	}
	rec(nil, 0)
	return out
}

func permutations(n int) [][]int {
	var out [][]int
	for _, p := range permsUpTo(n, n) {
		if len(p) == n {
			out = append(out, p)
		}
	}
	return out
}

func allStrings(alpha []byte, maxLen int, fn func(s []byte)) {
	var rec func(cur []byte)
	rec = func(cur []byte) {
		fn(cur)
		if len(cur) == maxLen {
			return
		}
		for _, a := range alpha {
			rec(append(cur, a))
		}
	}
	rec(nil)
}

var later1 = []byte("LATER-DATA-ONE/")
var later2 = []byte("later-data-two")

func main() {
	R = vlib.Start("C06", "exploration")
	evals = R.Counter("evaluations")
	if err := selfTestQuic(); err != nil {
		fmt.Fprintln(os.Stderr, "C06: the harness's own QUIC encoder/decoder is wrong:", err)
		os.Exit(2)
	}
	if err := selfTestRefs(); err != nil {
		fmt.Fprintln(os.Stderr, "C06: reference self-test failed:", err)
		os.Exit(2)
	}
	thorough := R.Thorough()
	R.Rule("TLS: every generated ClientHello (2 versions x sid 0/32 x 1-3 suites x every ordered selection of <=4 of {SNI,ALPN,supported_versions,GREASE,padding} x 8 SNI-list shapes, plus the no-extensions forms) x every cutting into <=2 reads with first read >=5 bytes x {record alone, last read runs on into later data} x 4 relay routes (thorough adds every cutting into 3 reads for the hellos with empty session id and one suite); " +
		"TLS sizes: 3 (thorough 6) hellos whose one bulky extension {RFC 7685 padding, key_share, ALPN list, pre_shared_key; in front of / behind the SNI} sizes the record to 2^k-1, 2^k, 2^k+1 for k=10..14 and to 4091 (2^14+1: no legal record, safety only) x {one read, every cutting into 2 reads, equal segments of every size 5 <= m < L/2, record header then 1..4 bytes per read; thorough: every cutting into 3 reads over a grid of boundary offsets} x 2 relay routes, the cuts of the boundary grid x 4 routes x {alone, running on} (2^13+-1, 2^14+-1: grid cuts, one read and trickles only); " +
		"HTTP: every head of genHTTPHeads in one read x 4 routes, 7 heads x every 2-read cut; QUIC: 2 versions x 2 hellos x CRYPTO stream cut at boundary offsets (thorough: every offset) into <=3 frames (and into 2 overlapping frames) x every order x 5 PADDING/PING patterns x {1 packet, 2 coalesced, 2 datagrams} x every split point; " +
		"QUIC coalescing: 2 versions x 2 hellos x CRYPTO stream cut into <=3 frames at 5 cut sets (thorough: every pair of boundary offsets) x every order x 2 (thorough 5) PADDING/PING patterns x {1 packet, 2 coalesced, 2 datagrams, 3 datagrams, coalesced+datagram} x every assignment of {nothing, 0-RTT packet, Handshake packet, short-header packet, stray zero bytes} behind the Initial(s) of each datagram, plus each of the 4 in front of each datagram (safety only) and a 0-RTT/Handshake packet between two coalesced Initials; " +
		"negatives: every truncation and single-bit flip of one TLS/HTTP/QUIC instance (and of the hello inside QUIC), all strings of length <=4 (thorough <=6) over {16,03,01,'G',c0,00}, QUIC packets with every frame-byte string of length <=3 (thorough <=4) over {00,01,06,1c,02,40,ff} in 4 placements, every single and pairwise +-1/+-2 perturbation of the length fields, every extension block of length <=5 (thorough <=6) over {00,01,02,03,05,'a'}; " +
		"UDP histories: every sequence of length <=4 (thorough <=5) over {Initial with first part of the CRYPTO stream, Initial with the rest, whole hello, short PING/PADDING Initial, Initial that does not decrypt, non-QUIC datagram, CompactPacketState, first-part Initial + coalesced 0-RTT packet, short Initial + coalesced short-header packet} on ONE packet sniffer; TCP glue: every ordered pair of 7 connection kinds (one of them an 8 KiB ClientHello in 1400-byte segments) x every interleaving of their (probe, sniff, relay) steps through the real control.prefetchForTcpSniff x 2 relay routes each; " +
		"distinct_nontrivial = distinct (input bytes, cutting) pairs with a non-empty input, hashed")
	if k := os.Getenv("C06_KEEP"); k != "" { // development aid: keep more cases per violation class
		fmt.Sscan(k, &keepPer)
	}
	only := os.Getenv("C06_ONLY") // development aid: run a single leg
	if only == "" || only == "tls" {
		legTLS(thorough)
	}
	if only == "" || only == "size" {
		legTLSSizes(thorough)
	}
	if only == "" || only == "http" {
		legHTTP()
	}
	if only == "" || only == "quic" {
		legQUIC(thorough)
	}
	if only == "" || only == "coal" {
		legQUICCoalesce(thorough)
	}
	if only == "" || only == "neg" {
		legNegatives(thorough)
	}
	if only == "" || only == "timing" {
		legTiming(thorough)
	}
	if only == "" || only == "hist" {
		legUDPHistories(thorough)
		legTCPGlue()
	}

	R.Set("tcp_name_found", tstat.found.Load())
	R.Set("tcp_no_name", tstat.notFound.Load())
	R.Set("tcp_drains", tstat.drains.Load())
	R.Set("tcp_relay_error_after_all_bytes_delivered", tstat.errAfterAll.Load())
	R.Set("tcp_cases_with_end_of_stream_respin", tstat.spins.Load())
	R.Set("udp_sequences", ustat.seqs.Load())
	R.Set("udp_name_found", ustat.found.Load())
	R.Set("udp_no_name", ustat.notFound.Load())
	R.Set("distinct_nontrivial", distinctCount())
	R.Assume("scripted connection: one chunk per Read; at end of stream under an armed read deadline the 4th consecutive read returns os.ErrDeadlineExceeded (a real socket does so once the deadline has passed; the sniffer re-reads without pause, so wall time is replaced by a read count)")
	R.Assume("a reported name is compared with the carried name as DNS names (case-insensitive, one trailing dot ignored); for HTTP the carried name is the uri-host of Host (brackets and port removed)")
	R.Assume("recognition is demanded for single-record ClientHellos, for the nine RFC 9110 core methods, and for Initial packets holding only PADDING/PING/CRYPTO frames; for every other input only 'error or exactly a carried name' is demanded")
	R.Assume("packets coalesced with Initials (RFC 9000 section 12.2) are opaque to the reference; a 0-RTT/Handshake packet is stepped over by its Length, a short-header packet or stray bytes end the datagram. Recognition is demanded when every datagram STARTS with an Initial that opens (other packets behind or between Initials do not excuse anything); a datagram that starts with another packet: safety only")
	R.Assume("large hellos: the scripted connection cuts a chunk that is larger than the buffer the sniffer offers into several reads (as a socket does); how large that buffer is depends on the sniffer's buffer pool and is not controlled")
	R.Assume("out-of-bounds reads are detected through Go's bounds checks on an exactly-sized buffer (cap == len) for TLS/HTTP/QUIC header parsing; the decrypted QUIC payload lives in a pool buffer whose capacity the harness does not control")
	R.Assume("timing leg: engine S default schedule (no schedule exploration); virtual clock; a fake connection whose Read blocks until data, end of stream, or its read deadline")
	flushViolations()
	R.Finish()
}

// ---- distinct counting ------------------------------------------------------------------------------------------------

var (
	dmu   [64]sync.Mutex
	dsets [64]map[uint64]struct{}
)

func fnv(parts ...[]byte) uint64 {
	h := uint64(14695981039346656037)
	for _, p := range parts {
		for _, b := range p {
			h ^= uint64(b)
			h *= 1099511628211
		}
		h ^= 0xff
		h *= 1099511628211
	}
	return h
}

func distinct(h uint64) {
	i := h & 63
	dmu[i].Lock()
	if dsets[i] == nil {
		dsets[i] = map[uint64]struct{}{}
	}
	dsets[i][h] = struct{}{}
	dmu[i].Unlock()
}

var distinctExtra atomic.Int64 // cases distinct by construction (cuttings of a distinct stream), counted not hashed

func distinctCount() int64 {
	var n int64
	for i := range dsets {
		n += int64(len(dsets[i]))
	}
	return n + distinctExtra.Load()
}

// selfTestRefs: the reference parsers on hand-written inputs with known answers.
func selfTestRefs() error {
	h := buildHello(helloSpec{ver: 13, sidLen: 32, nCS: 3, exts: []int{extGREASE, extSNI, extALPN}, sni: []sniEntry{{0, "Www.Example.com."}}})
	v := refTLSStream(cat(tlsRecord(13, h.hs), later1))
	if !v.required || v.name != "www.example.com" || !v.allows("WWW.example.COM") || v.allows("example.com") {
		return fmt.Errorf("tls reference: %+v", v)
	}
	if w := refTLSStream(tlsRecord(13, h.hs)[:40]); w.required {
		return fmt.Errorf("tls reference accepts a truncated record")
	}
	two := buildHello(helloSpec{ver: 12, nCS: 1, exts: []int{extSNI}, sni: []sniEntry{{0, "a.example"}, {0, "b.example"}}})
	if w := refTLSStream(tlsRecord(12, two.hs)); w.required || !w.allows("a.example") || !w.allows("b.example") {
		return fmt.Errorf("tls reference on two host names: %+v", w)
	}
	hv := refHTTPStream([]byte("GET / HTTP/1.1\r\nX-A: b\r\n Host: decoy\r\nhost:  Example.COM:80 \r\n\r\nHost: body\r\n"))
	if !hv.required || hv.name != "example.com" || hv.allows("decoy") || hv.allows("body") {
		return fmt.Errorf("http reference: %+v", hv)
	}
	if hv := refHTTPStream([]byte("GET / HTTP/1.1\r\nHost: exam")); hv.required || len(hv.carried) != 0 {
		return fmt.Errorf("http reference on an unterminated Host line: %+v", hv)
	}
	return nil
}
