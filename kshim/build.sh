#!/bin/bash
# build.sh <repo> <outdir> [--san]
# Compiles engine K (kdrv) from the CURRENT <repo>/control/kern/tproxy.c: the file (and ebpf_sync_defs.h) is copied
# to <outdir>/kern, clang's JSON AST of it drives kshimgen (map registry + layout printer), then kdrv.c, which
# #includes the copy, is compiled natively. --san adds -fsanitize=address,undefined (slower, for small workloads).
# Any failure is LOUD: exit 2. Never writes into <repo>.
set -u
REPO="${1:?usage: build.sh <repo> <outdir> [--san]}"; OUT="${2:?usage: build.sh <repo> <outdir> [--san]}"; SAN="${3:-}"
HERE="$(cd "$(dirname "$0")" && pwd)"
export GOFLAGS=-mod=mod GOPROXY=off GOSUMDB=off GOTOOLCHAIN=local
export GOCACHE="${GOCACHE:-/root/.cache/go-build}"
export TMPDIR="${2}"   # compiler temporaries stay in the work dir, not /tmp
fail() { echo "kshim/build.sh: FAILED: $*" >&2; exit 2; }
CC="${KSHIM_CC:-clang}"
command -v "$CC" >/dev/null || fail "no $CC"
mkdir -p "$OUT/kern" || fail "mkdir $OUT"
SRC="$REPO/control/kern/tproxy.c"; DEFS="$REPO/control/kern/ebpf_sync_defs.h"
[ -f "$SRC" ] && [ -f "$DEFS" ] || fail "$SRC or $DEFS missing"
# content stamp: identical inputs (C sources of the repo, shim, generator, flags, compiler) => keep the binary
STAMP="$( { cat "$SRC" "$DEFS" "$HERE/kdrv.c" "$HERE"/headers/*.h "$HERE"/gen/*.go "$HERE/build.sh"; echo "$SAN $CC $("$CC" --version | head -1)"; } | sha256sum | cut -d' ' -f1)"
if [ -x "$OUT/kdrv" ] && [ -s "$OUT/layout.json" ] && [ "$(cat "$OUT/kdrv.stamp" 2>/dev/null)" = "$STAMP" ] \
   && cmp -s "$SRC" "$OUT/kern/tproxy.c" && cmp -s "$DEFS" "$OUT/kern/ebpf_sync_defs.h"; then
  cat "$OUT/kshimgen.log" 2>/dev/null; exit 0
fi
rm -f "$OUT/kdrv" "$OUT/kdrv_gen.h" "$OUT/layout.json" "$OUT/ast.json" "$OUT/kdrv.stamp"
cp "$SRC" "$OUT/kern/tproxy.c" && cp "$DEFS" "$OUT/kern/ebpf_sync_defs.h" || fail "copy sources"
INC=(-I"$HERE")
"$CC" "${INC[@]}" -x c -fsyntax-only -Xclang -ast-dump=json "$OUT/kern/tproxy.c" >"$OUT/ast.json" 2>"$OUT/ast.err" \
  || { head -40 "$OUT/ast.err" >&2; fail "tproxy.c does not compile natively against the shim headers (extend $HERE/headers)"; }
if [ ! -x "$OUT/kshimgen" ] || [ -n "$(find "$HERE/gen" -name '*.go' -newer "$OUT/kshimgen")" ]; then
  (cd "$HERE/gen" && go1.26 build -o "$OUT/kshimgen" .) || fail "cannot build kshimgen"
fi
"$OUT/kshimgen" -ast "$OUT/ast.json" -src "$OUT/kern/tproxy.c" -defs "$OUT/kern/ebpf_sync_defs.h" -out "$OUT/kdrv_gen.h" >"$OUT/kshimgen.log" 2>&1 \
  || { cat "$OUT/kshimgen.log" >&2; fail "kshimgen"; }
rm -f "$OUT/ast.json"
# Uninitialised automatic storage of the kernel program (padding included) must never happen to be zero in the native
# run: every uninitialised local is filled with 0xAA (deterministic), and kdrv additionally poisons the stack below the
# call site with 0xA5 before every program / route() / parse invocation.
INIT=(-ftrivial-auto-var-init=pattern)
FLAGS=(-O2 -g "${INIT[@]}")
[ "$SAN" = "--san" ] && FLAGS=(-O1 -g "${INIT[@]}" -fsanitize=address,undefined -fno-sanitize=alignment -fno-sanitize-recover=all -fno-omit-frame-pointer)
"$CC" "${FLAGS[@]}" -Wall -Wno-unused-function -Wno-unused-variable -Wno-unused-but-set-variable \
  "${INC[@]}" -I"$OUT" -DKSHIM_TPROXY_C="\"$OUT/kern/tproxy.c\"" "$HERE/kdrv.c" -o "$OUT/kdrv" >"$OUT/cc.log" 2>&1 \
  || { head -60 "$OUT/cc.log" >&2; fail "kdrv does not compile/link (new helper or construct in tproxy.c? extend $HERE/kdrv.c / headers)"; }
[ -s "$OUT/cc.log" ] && head -20 "$OUT/cc.log" >&2
"$OUT/kdrv" --layout >"$OUT/layout.json" 2>"$OUT/layout.err" || { cat "$OUT/layout.err" >&2; fail "kdrv --layout"; }
[ -s "$OUT/layout.json" ] || fail "empty layout"
echo "$STAMP" >"$OUT/kdrv.stamp"
cat "$OUT/kshimgen.log"
exit 0
