// Copyright 2013 The Go Authors. All rights reserved.
// Use of this source code is governed by a BSD-style
// license that can be found in the LICENSE file.

// Package singleflight provides a duplicate function call suppression
// mechanism.
package singleflight // import "golang.org/x/sync/singleflight"

import (
	"bytes"
	"errors"
	"fmt"
	"runtime"
	"runtime/debug"
	sync "github.com/daeuniverse/dae/verifx/vsync"
)

// errGoexit indicates the runtime.Goexit was called in
// the user given function.
var errGoexit = errors.New("runtime.Goexit was called")

// A panicError is an arbitrary value recovered from a panic
// with the stack trace during the execution of given function.
type panicError struct {
	value interface{}
	stack []byte
}

// Error implements error interface.
func (p *panicError) Error() string {
	return fmt.Sprintf("%v\n\n%s", p.value, p.stack)
}

func (p *panicError) Unwrap() error {
	err, ok := p.value.(error)
	if !ok {
		return nil
	}

	return err
}

func newPanicError(v interface{}) error {
	stack := debug.Stack()

	// The first line of the stack trace is of the form "goroutine N [status]:"
	// but by the time the panic reaches Do the goroutine may no longer exist
	// and its status will have changed. Trim out the misleading line.
	if line := bytes.IndexByte(stack[:], '\n'); line >= 0 {
		stack = stack[line+1:]
	}
	return &panicError{value: v, stack: stack}
}

// call is an in-flight or completed singleflight.Do call
type call struct {
	wg sync.WaitGroup

	// These fields are written once before the WaitGroup is done
	// and are only read after the WaitGroup is done.
	val interface{}
	err error

	// These fields are read and written with the singleflight
	// mutex held before the WaitGroup is done, and are read but
	// not written after the WaitGroup is done.
	dups  int
	chans []chan<- Result
}

// Group represents a class of work and forms a namespace in
// which units of work can be executed with duplicate suppression.
type Group struct {
	mu sync.Mutex       // protects m
	m  map[string]*call // lazily initialized
}

// Result holds the results of Do, so they can be passed
// on a channel.
type Result struct {
	Val    interface{}
	Err    error
	Shared bool
}

// Do executes and returns the results of the given function, making
// sure that only one execution is in-flight for a given key at a
// time. If a duplicate comes in, the duplicate caller waits for the
// original to complete and receives the same results.
// The return value shared indicates whether v was given to multiple callers.
func (g *Group) Do(key string, fn func() (interface{}, error)) (v interface{}, err error, shared bool) {
	g.mu.Lock()
	if g.m == nil {
		g.m = make(map[string]*call)
	}
	if c, ok := g.m[key]; ok {
		c.dups++
		g.mu.Unlock()
		c.wg.Wait()

		if e, ok := c.err.(*panicError); ok {
			panic(e)
		} else if c.err == errGoexit {
			runtime.Goexit()
		}
		return c.val, c.err, true
	}
	c := new(call)
	c.wg.Add(1)
	g.m[key] = c
	g.mu.Unlock()

	g.doCall(c, key, fn)
	return c.val, c.err, c.dups > 0
}

// DoChan is like Do but returns a channel that will receive the
// results when they are ready.
//
// The returned channel will not be closed.
func (g *Group) DoChan(key string, fn func() (interface{}, error)) <-chan Result {
	ch := make(chan Result, 1)
	g.mu.Lock()
	if g.m == nil {
		g.m = make(map[string]*call)
	}
	if c, ok := g.m[key]; ok {
		c.dups++
		c.chans = append(c.chans, ch)
		g.mu.Unlock()
		return ch
	}
	c := &call{chans: []chan<- Result{ch}}
	c.wg.Add(1)
	g.m[key] = c
	g.mu.Unlock()

	go g.doCall(c, key, fn)

	return ch
}

// doCall handles the single call for a key.
func (g *Group) doCall(c *call, key string, fn func() (interface{}, error)) {
	normalReturn := false
	recovered := false

	// use double-defer to distinguish panic from runtime.Goexit,
	// more details see https://golang.org/cl/134395
	defer func() {
		// the given function invoked runtime.Goexit
		if !normalReturn && !recovered {
			c.err = errGoexit
		}

		g.mu.Lock()
		defer g.mu.Unlock()
		c.wg.Done()
		if g.m[key] == c {
			delete(g.m, key)
		}

		if e, ok := c.err.(*panicError); ok {
			// In order to prevent the waiting channels from being blocked forever,
			// needs to ensure that this panic cannot be recovered.
			if len(c.chans) > 0 {
				go panic(e)
				select {} // Keep this goroutine around so that it will appear in the crash dump.
			} else {
				panic(e)
			}
		} else if c.err == errGoexit {
			// Already in the process of goexit, no need to call again
		} else {
			// Normal return
			for _, ch := range c.chans {
				ch <- Result{c.val, c.err, c.dups > 0}
			}
		}
	}()

	func() {
		defer func() {
			if !normalReturn {
				// Ideally, we would wait to take a stack trace until we've determined
				// whether this is a panic or a runtime.Goexit.
				//
				// Unfortunately, the only way we can distinguish the two is to see
				// whether the recover stopped the goroutine from terminating, and by
				// the time we know that, the part of the stack trace relevant to the
				// panic has been discarded.
				if r := recover(); r != nil {
					c.err = newPanicError(r)
				}
			}
		}()

		c.val, c.err = fn()
		normalReturn = true
	}()

	if !normalReturn {
		recovered = true
	}
}

// Forget tells the singleflight to forget about a key.  Future calls
// to Do for this key will call the function rather than waiting for
// an earlier call to complete.
func (g *Group) Forget(key string) {
	g.mu.Lock()
	delete(g.m, key)
	g.mu.Unlock()
}
