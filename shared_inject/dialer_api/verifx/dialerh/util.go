//go:build verif

package dialerh

import (
	"io"
	"time"

	"github.com/daeuniverse/dae/component/outbound/dialer"
	"github.com/sirupsen/logrus"
)

// QuietLogger: a logger that formats nothing (level panic, output discarded) — logging reads the real clock.
func QuietLogger() *logrus.Logger {
	l := logrus.New()
	l.SetOutput(io.Discard)
	l.SetLevel(logrus.PanicLevel)
	return l
}

func NewOption(log *logrus.Logger, checkInterval, tolerance time.Duration) *dialer.GlobalOption {
	return &dialer.GlobalOption{Log: log, CheckInterval: checkInterval, CheckTolerance: tolerance}
}

