//go:build verif

package control

import "github.com/daeuniverse/dae/component/outbound"

// VerifInheritDialerHealth runs the REAL reload inheritance ControlPlane.InheritDialerHealthFrom (per group:
// capture fallback, restore every member from the old generation's node of the same name, selection floor) on
// control planes that consist of their outbound groups only — the method touches nothing else.
func VerifInheritDialerHealth(newGroups, oldGroups []*outbound.DialerGroup) bool {
	nw, old := &ControlPlane{}, &ControlPlane{}
	nw.outbounds, old.outbounds = newGroups, oldGroups
	return nw.InheritDialerHealthFrom(old)
}
