package main

// Engine-S source rewriter: typed AST rewriting of repo files onto the vsched shims.
//   imports sync, sync/atomic, time, context  -> verifx/vsync, vatomic, vtime, vctx (same local name)
//   go f(x)                                   -> vsched.Go(func(){ f(x') })   (non-constant args evaluated at the go statement)
//   ch <- v ; <-ch ; v,ok := <-ch ; close(ch) ; len(ch) ; for range ch
//                                             -> vsched.WaitSend/Recv/Recv2/Close/LenAny/RangeCh
//   select { ... }                            -> vsched.SelectWait(...) ; select with Arm/ArmS on every channel
//   for k, v := range <map>                   -> range vsched.RangeMap(m)   (canonical key order)

import (
	"bytes"
	"encoding/json"
	"fmt"
	"go/ast"
	"go/format"
	"go/parser"
	"go/token"
	"go/types"
	"os"
	"path/filepath"
	"strconv"
	"strings"

	"golang.org/x/tools/go/ast/astutil"
	"golang.org/x/tools/go/packages"
)

const verifxPrefix = "github.com/daeuniverse/dae/verifx/"

var shimImports = map[string]string{
	"sync":        "vsync",
	"sync/atomic": "vatomic",
	"time":        "vtime",
	"context":     "vctx",
}

type instrJob struct {
	rel     string
	rewrite bool
	consts  map[string]string
}

// instrumentAll loads the packages containing the files (typed, through the overlay built so far) and rewrites them.
func instrumentAll(repo, work string, overlay map[string]string, tags string, jobs []instrJob, noCtx bool) (map[string]string, error) {
	out := map[string]string{}
	// write a provisional overlay for `go list`
	type ov struct{ Replace map[string]string }
	ovPath := filepath.Join(work, "overlay.pre.json")
	b, _ := json.Marshal(ov{overlay})
	if err := os.WriteFile(ovPath, b, 0o644); err != nil {
		return nil, err
	}
	cfgOverlay := map[string][]byte{}
	for dst, src := range overlay {
		data, err := os.ReadFile(src)
		if err != nil {
			return nil, err
		}
		cfgOverlay[dst] = data
	}
	dirs := map[string]bool{}
	for _, j := range jobs {
		dirs["./"+filepath.Dir(j.rel)] = true
	}
	var patterns []string
	for d := range dirs {
		patterns = append(patterns, d)
	}
	os.Setenv("PATH", "/opt/veriftools/go1.26.8/bin:"+os.Getenv("PATH"))
	env := os.Environ()
	env = append(env, "GOFLAGS=-mod=mod", "GOPROXY=off", "GOSUMDB=off", "GOTOOLCHAIN=local")
	cfg := &packages.Config{
		Mode: packages.NeedName | packages.NeedFiles | packages.NeedCompiledGoFiles | packages.NeedSyntax | packages.NeedTypes | packages.NeedTypesInfo | packages.NeedImports | packages.NeedDeps,
		Dir:  repo, Env: env, Overlay: cfgOverlay,
		BuildFlags: []string{"-tags", tags, "-overlay", ovPath, "-modfile", filepath.Join(work, "go.mod")},
	}
	pkgs, err := packages.Load(cfg, patterns...)
	if err != nil {
		return nil, fmt.Errorf("packages.Load: %w", err)
	}
	byFile := map[string]*packages.Package{}
	fileAst := map[string]*ast.File{}
	for _, p := range pkgs {
		if len(p.Errors) > 0 {
			return nil, fmt.Errorf("type errors in %s: %v", p.PkgPath, p.Errors[0])
		}
		for i, f := range p.CompiledGoFiles {
			if i < len(p.Syntax) {
				byFile[f] = p
				fileAst[f] = p.Syntax[i]
			}
		}
	}
	for _, j := range jobs {
		abs := filepath.Join(repo, j.rel)
		p := byFile[abs]
		if p == nil {
			return nil, fmt.Errorf("%s: not part of a loaded package (build constraints?)", j.rel)
		}
		f := fileAst[abs]
		rw := &rewriter{fset: p.Fset, info: p.TypesInfo, file: f, pkg: p.Types, noCtx: noCtx}
		if len(j.consts) > 0 {
			if err := rw.overrideConsts(j.consts); err != nil {
				return nil, fmt.Errorf("%s: %w", j.rel, err)
			}
		}
		if j.rewrite {
			if err := rw.run(); err != nil {
				return nil, fmt.Errorf("%s: %w", j.rel, err)
			}
		}
		var buf bytes.Buffer
		if err := format.Node(&buf, p.Fset, f); err != nil {
			return nil, fmt.Errorf("%s: print: %w", j.rel, err)
		}
		dst := filepath.Join(work, "gen", "instr", j.rel)
		os.MkdirAll(filepath.Dir(dst), 0o755)
		if err := os.WriteFile(dst, buf.Bytes(), 0o644); err != nil {
			return nil, err
		}
		out[abs] = dst
	}
	return out, nil
}

type rewriter struct {
	fset    *token.FileSet
	info    *types.Info
	file    *ast.File
	pkg     *types.Package
	tmpN    int
	needSch bool
	errs    []string
	noCtx   bool
}

func (r *rewriter) errf(n ast.Node, f string, a ...any) {
	r.errs = append(r.errs, fmt.Sprintf("%s: %s", r.fset.Position(n.Pos()), fmt.Sprintf(f, a...)))
}

func (r *rewriter) overrideConsts(m map[string]string) error {
	done := map[string]bool{}
	for _, d := range r.file.Decls {
		gd, ok := d.(*ast.GenDecl)
		if !ok || (gd.Tok != token.CONST && gd.Tok != token.VAR) {
			continue
		}
		for _, s := range gd.Specs {
			vs := s.(*ast.ValueSpec)
			for i, n := range vs.Names {
				if expr, ok := m[n.Name]; ok && i < len(vs.Values) {
					e, err := parseExpr(expr)
					if err != nil {
						return err
					}
					vs.Values[i] = e
					done[n.Name] = true
				}
			}
		}
	}
	for k := range m {
		if !done[k] {
			return fmt.Errorf("const_override: %s not found", k)
		}
	}
	return nil
}

func parseExpr(s string) (ast.Expr, error) {
	return parserParseExpr(s)
}

func (r *rewriter) tmp(prefix string) *ast.Ident {
	r.tmpN++
	return ast.NewIdent(fmt.Sprintf("vs_%s%d", prefix, r.tmpN))
}

func sel(pkg, name string) ast.Expr {
	return &ast.SelectorExpr{X: ast.NewIdent(pkg), Sel: ast.NewIdent(name)}
}

func call(fn ast.Expr, args ...ast.Expr) *ast.CallExpr { return &ast.CallExpr{Fun: fn, Args: args} }

func (r *rewriter) typeOf(e ast.Expr) types.Type {
	if tv, ok := r.info.Types[e]; ok {
		return tv.Type
	}
	return nil
}

func (r *rewriter) isChan(e ast.Expr) bool {
	t := r.typeOf(e)
	if t == nil {
		return false
	}
	_, ok := t.Underlying().(*types.Chan)
	if ok {
		return true
	}
	// type parameters with chan core type: not used in this code base
	return false
}

func (r *rewriter) isMap(e ast.Expr) bool {
	t := r.typeOf(e)
	if t == nil {
		return false
	}
	_, ok := t.Underlying().(*types.Map)
	return ok
}

func (r *rewriter) isBuiltin(id *ast.Ident, name string) bool {
	if id.Name != name {
		return false
	}
	_, ok := r.info.Uses[id].(*types.Builtin)
	return ok
}

func hasCall(e ast.Expr) bool {
	found := false
	ast.Inspect(e, func(n ast.Node) bool {
		switch n.(type) {
		case *ast.CallExpr:
			found = true
		case *ast.UnaryExpr:
			if n.(*ast.UnaryExpr).Op == token.ARROW {
				found = true
			}
		case *ast.FuncLit:
			return false
		}
		return !found
	})
	return found
}

func (r *rewriter) run() error {
	// 1. imports
	for _, is := range r.file.Imports {
		p, _ := strconv.Unquote(is.Path.Value)
		shim, ok := shimImports[p]
		if !ok || (p == "context" && r.noCtx) {
			continue
		}
		if is.Name == nil {
			base := p[strings.LastIndex(p, "/")+1:]
			is.Name = ast.NewIdent(base)
		}
		is.Path.Value = strconv.Quote(verifxPrefix + shim)
		is.EndPos = 0
	}
	// 2. statements and expressions
	astutil.Apply(r.file, r.pre, r.post)
	if len(r.errs) > 0 {
		return fmt.Errorf("rewriter cannot handle:\n  %s", strings.Join(r.errs, "\n  "))
	}
	for _, is := range r.file.Imports {
		if p, _ := strconv.Unquote(is.Path.Value); p == verifxPrefix+"vsched" && (is.Name == nil || is.Name.Name == "vsched") {
			r.needSch = false
		}
	}
	if r.needSch {
		astutil.AddNamedImport(r.fset, r.file, "vsched", verifxPrefix+"vsched")
	}
	return nil
}

// pre handles constructs that must be lowered before their children are visited (select: comm clauses).
func (r *rewriter) pre(c *astutil.Cursor) bool {
	switch n := c.Node().(type) {
	case *ast.LabeledStmt:
		if sl, ok := n.Stmt.(*ast.SelectStmt); ok && !selectDone[sl] {
			pre := r.buildSelect(sl)
			if pre == nil {
				return true
			}
			if !r.inStmtList(c) {
				r.errf(n, "labeled select outside a statement list")
				return true
			}
			c.Replace(&ast.BlockStmt{List: append(pre, n)})
		}
	case *ast.SelectStmt:
		if selectDone[n] {
			return true
		}
		pre := r.buildSelect(n)
		if pre == nil {
			return true
		}
		if !r.inStmtList(c) {
			r.errf(n, "select statement outside a statement list")
			return true
		}
		c.Replace(&ast.BlockStmt{List: append(pre, n)})
	}
	return true
}

var selectDone = map[*ast.SelectStmt]bool{}

var lowered = map[ast.Node]bool{} // comm statements of lowered selects: must not be rewritten again

func (r *rewriter) post(c *astutil.Cursor) bool {
	switch n := c.Node().(type) {
	case *ast.GoStmt:
		r.lowerGo(c, n)
	case *ast.SendStmt:
		if lowered[n] {
			return true
		}
		r.lowerSend(c, n)
	case *ast.UnaryExpr:
		if n.Op == token.ARROW && !lowered[n] {
			r.lowerRecv(c, n)
		}
	case *ast.CallExpr:
		if id, ok := n.Fun.(*ast.Ident); ok && len(n.Args) == 1 {
			if r.isBuiltin(id, "close") && r.isChan(n.Args[0]) {
				r.needSch = true
				n.Fun = sel("vsched", "Close")
			} else if r.isBuiltin(id, "len") && r.isChan(n.Args[0]) {
				r.needSch = true
				n.Fun = sel("vsched", "LenAny")
			}
		}
	case *ast.RangeStmt:
		if n.X != nil {
			if r.isChan(n.X) {
				r.needSch = true
				n.X = call(sel("vsched", "RangeCh"), n.X)
			} else if r.isMap(n.X) {
				r.needSch = true
				n.X = call(sel("vsched", "RangeMap"), n.X)
			}
		}
	}
	return true
}

func (r *rewriter) inStmtList(c *astutil.Cursor) bool {
	switch c.Parent().(type) {
	case *ast.BlockStmt, *ast.CaseClause, *ast.CommClause, *ast.LabeledStmt:
		return true
	}
	return false
}

func (r *rewriter) lowerGo(c *astutil.Cursor, n *ast.GoStmt) {
	r.needSch = true
	var pre []ast.Stmt
	callE := n.Call
	// function value: evaluate now unless it is a literal or a plain package-level func / method on an identifier
	if _, isLit := callE.Fun.(*ast.FuncLit); !isLit {
		if hasCall(callE.Fun) {
			t := r.tmp("f")
			pre = append(pre, &ast.AssignStmt{Lhs: []ast.Expr{t}, Tok: token.DEFINE, Rhs: []ast.Expr{callE.Fun}})
			callE.Fun = t
		} else if se, ok := callE.Fun.(*ast.SelectorExpr); ok {
			// method value binds the receiver now (q.convoy): hoist unless it is a package-qualified function
			if _, isPkg := r.info.Uses[rootIdent(se.X)].(*types.PkgName); !(isPkg && isIdent(se.X)) {
				t := r.tmp("f")
				pre = append(pre, &ast.AssignStmt{Lhs: []ast.Expr{t}, Tok: token.DEFINE, Rhs: []ast.Expr{callE.Fun}})
				callE.Fun = t
			}
		}
	}
	for i, a := range callE.Args {
		tv, ok := r.info.Types[a]
		if ok && (tv.Value != nil || tv.IsNil()) {
			continue // constants and nil stay inline (keeps untyped conversion rules)
		}
		if _, isLit := a.(*ast.FuncLit); isLit {
			continue
		}
		if ok {
			if b, isBasic := tv.Type.(*types.Basic); isBasic && b.Info()&types.IsUntyped != 0 {
				continue
			}
		}
		t := r.tmp("a")
		pre = append(pre, &ast.AssignStmt{Lhs: []ast.Expr{t}, Tok: token.DEFINE, Rhs: []ast.Expr{a}})
		callE.Args[i] = t
	}
	var fn ast.Expr
	if lit, ok := callE.Fun.(*ast.FuncLit); ok && len(callE.Args) == 0 && lit.Type.Results == nil {
		fn = lit
	} else {
		fn = &ast.FuncLit{Type: &ast.FuncType{Params: &ast.FieldList{}}, Body: &ast.BlockStmt{List: []ast.Stmt{&ast.ExprStmt{X: callE}}}}
	}
	goCall := &ast.ExprStmt{X: call(sel("vsched", "Go"), fn)}
	if len(pre) == 0 {
		c.Replace(goCall)
		return
	}
	c.Replace(&ast.BlockStmt{List: append(pre, goCall)})
}

func isIdent(e ast.Expr) bool { _, ok := e.(*ast.Ident); return ok }

func rootIdent(e ast.Expr) *ast.Ident {
	for {
		switch x := e.(type) {
		case *ast.Ident:
			return x
		case *ast.SelectorExpr:
			e = x.X
		case *ast.ParenExpr:
			e = x.X
		case *ast.StarExpr:
			e = x.X
		case *ast.IndexExpr:
			e = x.X
		case *ast.CallExpr:
			e = x.Fun
		default:
			return ast.NewIdent("_")
		}
	}
}

func (r *rewriter) lowerSend(c *astutil.Cursor, n *ast.SendStmt) {
	r.needSch = true
	if !r.inStmtList(c) {
		r.errf(n, "send statement outside a statement list")
		return
	}
	var list []ast.Stmt
	ch := n.Chan
	if hasCall(ch) {
		t := r.tmp("c")
		list = append(list, &ast.AssignStmt{Lhs: []ast.Expr{t}, Tok: token.DEFINE, Rhs: []ast.Expr{ch}})
		ch = t
	}
	list = append(list, &ast.ExprStmt{X: call(sel("vsched", "WaitSend"), ch)})
	ns := &ast.SendStmt{Chan: ch, Value: n.Value}
	lowered[ns] = true
	list = append(list, ns)
	c.Replace(&ast.BlockStmt{List: list})
}

func (r *rewriter) lowerRecv(c *astutil.Cursor, n *ast.UnaryExpr) {
	r.needSch = true
	fn := "Recv"
	switch p := c.Parent().(type) {
	case *ast.AssignStmt:
		if len(p.Lhs) == 2 && len(p.Rhs) == 1 && p.Rhs[0] == ast.Expr(n) {
			fn = "Recv2"
		}
	case *ast.ValueSpec:
		if len(p.Names) == 2 && len(p.Values) == 1 && p.Values[0] == ast.Expr(n) {
			fn = "Recv2"
		}
	}
	c.Replace(call(sel("vsched", fn), n.X))
}

func (r *rewriter) buildSelect(n *ast.SelectStmt) []ast.Stmt {
	r.needSch = true
	selectDone[n] = true
	hasDefault := false
	var pre []ast.Stmt
	var cases []ast.Expr
	idx := 0
	for _, cl := range n.Body.List {
		cc := cl.(*ast.CommClause)
		if cc.Comm == nil {
			hasDefault = true
			continue
		}
		hoist := func(ch ast.Expr) ast.Expr {
			if hasCall(ch) {
				if hasRecv(ch) {
					r.errf(ch, "receive inside a select channel expression")
				}
				// the channel expression itself may contain receives/calls that the post-pass must still rewrite:
				// it is moved in front of the select where the normal rewriting applies.
				t := r.tmp("c")
				pre = append(pre, &ast.AssignStmt{Lhs: []ast.Expr{t}, Tok: token.DEFINE, Rhs: []ast.Expr{ch}})
				return t
			}
			return ch
		}
		switch s := cc.Comm.(type) {
		case *ast.SendStmt:
			ch := hoist(s.Chan)
			cases = append(cases, call(sel("vsched", "S"), ch))
			s.Chan = call(sel("vsched", "ArmS"), &ast.BasicLit{Kind: token.INT, Value: strconv.Itoa(idx)}, ch)
			lowered[s] = true
		case *ast.ExprStmt:
			u, ok := s.X.(*ast.UnaryExpr)
			if !ok || u.Op != token.ARROW {
				r.errf(s, "unexpected select comm")
				return nil
			}
			ch := hoist(u.X)
			cases = append(cases, call(sel("vsched", "R"), ch))
			u.X = call(sel("vsched", "Arm"), &ast.BasicLit{Kind: token.INT, Value: strconv.Itoa(idx)}, ch)
			lowered[u] = true
		case *ast.AssignStmt:
			u, ok := s.Rhs[0].(*ast.UnaryExpr)
			if !ok || u.Op != token.ARROW {
				r.errf(s, "unexpected select comm")
				return nil
			}
			ch := hoist(u.X)
			cases = append(cases, call(sel("vsched", "R"), ch))
			u.X = call(sel("vsched", "Arm"), &ast.BasicLit{Kind: token.INT, Value: strconv.Itoa(idx)}, ch)
			lowered[u] = true
		default:
			r.errf(s, "unexpected select comm")
			return nil
		}
		idx++
	}
	hd := "false"
	if hasDefault {
		hd = "true"
	}
	args := append([]ast.Expr{ast.NewIdent(hd)}, cases...)
	pre = append(pre, &ast.ExprStmt{X: call(sel("vsched", "SelectWait"), args...)})
	return pre
}

func hasRecv(e ast.Expr) bool {
	found := false
	ast.Inspect(e, func(n ast.Node) bool {
		if u, ok := n.(*ast.UnaryExpr); ok && u.Op == token.ARROW {
			found = true
		}
		if _, ok := n.(*ast.FuncLit); ok {
			return false
		}
		return !found
	})
	return found
}

func parserParseExpr(s string) (ast.Expr, error) {
	return parser.ParseExpr(s)
}
