package main

// Leg 1d: dae's own dual-stack lookups through the REAL daedns.Router.LookupIPAddr against loopback UDP upstream
// servers that record the questions they receive: every question (A and AAAA separately) must reach the upstream the
// first matching request rule names for ITS OWN name and query type, and a question routed to asis/reject must reach none.

import (
	"context"
	"fmt"
	"net"
	"sort"
	"strings"
	"sync"
	"time"

	"github.com/daeuniverse/dae/verifx/vlib"
	dnsmessage "github.com/miekg/dns"
)

type recServer struct {
	pc  net.PacketConn
	url string
	mu  sync.Mutex
	got []string
}

func newRecServer() (*recServer, error) {
	pc, err := net.ListenPacket("udp", "127.0.0.1:0")
	if err != nil {
		return nil, err
	}
	s := &recServer{pc: pc, url: "udp://" + pc.LocalAddr().String()}
	go func() {
		buf := make([]byte, 2048)
		for {
			n, from, err := pc.ReadFrom(buf)
			if err != nil {
				return
			}
			var q dnsmessage.Msg
			if q.Unpack(buf[:n]) != nil || len(q.Question) == 0 {
				continue
			}
			s.mu.Lock()
			s.got = append(s.got, fmt.Sprintf("%s/%d", strings.ToLower(q.Question[0].Name), q.Question[0].Qtype))
			s.mu.Unlock()
			resp := new(dnsmessage.Msg)
			resp.SetReply(&q)
			switch q.Question[0].Qtype {
			case dnsmessage.TypeA:
				resp.Answer = append(resp.Answer, &dnsmessage.A{Hdr: dnsmessage.RR_Header{Name: q.Question[0].Name, Rrtype: dnsmessage.TypeA, Class: dnsmessage.ClassINET, Ttl: 60}, A: net.IPv4(10, 9, 8, 7)})
			case dnsmessage.TypeAAAA:
				resp.Answer = append(resp.Answer, &dnsmessage.AAAA{Hdr: dnsmessage.RR_Header{Name: q.Question[0].Name, Rrtype: dnsmessage.TypeAAAA, Class: dnsmessage.ClassINET, Ttl: 60}, AAAA: net.ParseIP("2001:db8::7")})
			}
			b, _ := resp.Pack()
			pc.WriteTo(b, from)
		}
	}()
	return s, nil
}

func (s *recServer) take() []string {
	s.mu.Lock()
	defer s.mu.Unlock()
	g := s.got
	s.got = nil
	sort.Strings(g)
	return g
}

func confTextURLs(tags, urls []string, reqBlock, respBlock string) string {
	var b strings.Builder
	b.WriteString("global{}\nrouting{ fallback: direct }\ndns {\n  upstream {\n")
	for i := range tags {
		fmt.Fprintf(&b, "    %s: '%s'\n", tags[i], urls[i])
	}
	b.WriteString("  }\n  routing {\n    request {\n" + reqBlock + "    }\n    response {\n" + respBlock + "    }\n  }\n}\n")
	return b.String()
}

// runRouterLookupLeg: every request program of the space that contains a qtype condition (those are the ones where A
// and AAAA of one host may be routed differently) x every distinct host name of the input list.
func runRouterLookupLeg(r *vlib.Run, s *space) {
	const nUp = 2
	workers := 8
	lookups := r.Counter("router_lookup_calls")
	split := r.Counter("router_lookup_hosts_with_A_and_AAAA_routed_differently")
	var hosts []string
	seen := map[string]bool{}
	for k := range s.inputs {
		n := normName(s.inputs[k].Name)
		if n == "" || n == "." || seen[n] {
			continue
		}
		seen[n] = true
		hosts = append(hosts, n)
	}
	var idx []int
	for i := 0; i < s.count(); i++ {
		fb, rs := s.decode(i)
		p := progOf(fb, rs)
		if strings.Contains(p.Text(), "qtype(") {
			idx = append(idx, i)
		}
	}
	r.Set("router_lookup_programs", len(idx))
	var wg sync.WaitGroup
	for w := 0; w < workers; w++ {
		wg.Add(1)
		go func(w int) {
			defer wg.Done()
			var srv []*recServer
			var urls []string
			for i := 0; i < nUp; i++ {
				sv, err := newRecServer()
				if err != nil {
					r.CapHit("lookup leg: cannot open loopback UDP socket: " + err.Error())
					return
				}
				defer sv.pc.Close()
				srv = append(srv, sv)
				urls = append(urls, sv.url)
			}
			nv := 0
			for j := w; j < len(idx); j += workers {
				if overBudget() {
					r.CapHit("time budget share reached inside router lookup leg")
					return
				}
				fb, rs := s.decode(idx[j])
				p := progOf(fb, rs)
				usesThird := false
				for _, rl := range p.Rules {
					if rl.Out == upTags[2] {
						usesThird = true
					}
				}
				if usesThird || p.Fallback == upTags[2] {
					continue
				}
				text := confTextURLs(upTags[:nUp], urls, routerBlock(p), "      fallback: accept\n")
				rt, err := buildRouter(text)
				if err != nil || rt == nil {
					continue // counted by the selection leg
				}
				for _, h := range hosts {
					want := make([][]string, nUp)
					outs := map[uint16]string{}
					for _, qt := range []uint16{dnsmessage.TypeA, dnsmessage.TypeAAAA} {
						o, _ := refDecide(p, &Input{Name: h, Qtype: qt})
						outs[qt] = o
						for u := 0; u < nUp; u++ {
							if o == upTags[u] {
								want[u] = append(want[u], fmt.Sprintf("%s./%d", h, qt))
							}
						}
					}
					if outs[dnsmessage.TypeA] != outs[dnsmessage.TypeAAAA] {
						split.Add(1)
					}
					ctx, cancel := context.WithTimeout(context.Background(), 3*time.Second)
					_, _ = rt.LookupIPAddr(ctx, "", "udp", h)
					cancel()
					lookups.Add(1)
					for u := 0; u < nUp; u++ {
						got := srv[u].take()
						sort.Strings(want[u])
						if strings.Join(got, ",") != strings.Join(want[u], ",") && nv < 3 {
							nv++
							r.Violation(fmt.Sprintf("leg=router-lookup program=[%s] host=%s upstream=%s asked=%v want=%v", p.Text(), h, upTags[u], got, want[u]),
								map[string]any{"config": text, "host": h, "routes": map[string]string{"A": outs[dnsmessage.TypeA], "AAAA": outs[dnsmessage.TypeAAAA]}})
						}
					}
				}
			}
		}(w)
	}
	wg.Wait()
	r.Assume("Leg 1d (router lookups): loopback UDP sockets carry the exchange; the oracle only compares WHICH questions reach WHICH upstream (no timing)")
}
