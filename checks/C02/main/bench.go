package main

import (
	"fmt"
	"os"
	"time"

	"github.com/daeuniverse/dae/verifx/vroute"
)

// development aid (C02_BENCH=1): cost of one program in wall time; not part of the check.
func (c *checker) bench() {
	k := <-c.pool
	for _, idx := range []int{3000, 9000, 20000} {
		base := vroute.Tier1().At(idx)
		t0 := time.Now()
		var cp *compiled
		for i := 0; i < 200; i++ {
			cp, _ = c.compile(base, variantAt(i%60))
		}
		tc := float64(time.Since(t0).Microseconds()) / 200
		pk := packetsOf(cp.prog, vroute.PacketOpts{MappedForms: true}, true)
		e0 := c.evals.Load()
		t0 = time.Now()
		for i := 0; i < 200; i++ {
			c.run(k, cp, pk, "", false)
		}
		tr := float64(time.Since(t0).Microseconds()) / 200
		fmt.Printf("%s: compile %.0f us, run %.0f us for %d comparisons\n", cp.prog.OneLine(), tc, tr, (c.evals.Load()-e0)/200)
	}
	os.Exit(0)
}
