package main

// The "histories" leg: the per-address domain bitmaps are installed by the REAL domainRoutingTracker over
// histories of DNS answers, not by a single fresh write. Every history (depth <= 4, exhaustive) over three names
// that can share two addresses is driven through buildDomainRoutingOwnerSnapshot + domainRoutingTracker.syncOwner;
// the batches syncOwner sends to domain_routing_map (seen through the repository's hook
// VerifDomainRoutingBatchObserver) are replayed into a simulated kernel map. For every distinct resulting
// (live cache entries, simulated map) the real route() is run over that map and compared with ControlPlane.Route
//   - for each (name, address) whose live cache entry lists the address: packet to the address, domain = name;
//   - for each address no live entry lists: packet to the address without a known domain (nothing may be left behind).

import (
	"fmt"
	"net/netip"
	"os"
	"sort"
	"strings"

	"github.com/daeuniverse/dae/common/consts"
	"github.com/daeuniverse/dae/control"
	"github.com/daeuniverse/dae/verifx/vkern"
	"github.com/daeuniverse/dae/verifx/vroute"
)

const histDepth = 4

const histDescr = "3 programs with two domain rules (a-then-b, b-then-a, a-then-!b&&dport) x every history of 1..4 DNS-cache operations over 3 names (A matches domain rule a, B rules a and b, C rule b; thorough adds Z matching none: 16 operations, 69904 histories) and 2 addresses (X IPv4, Y IPv6); operation = name answers with a non-empty subset of {X,Y} (attach / rotate away / rotate back) or its entry is removed: 12 operations, 12+12^2+12^3+12^4 = 22620 histories per program, each run on a fresh real domainRoutingTracker (buildDomainRoutingOwnerSnapshot + syncOwner, batches taken from the repository hook VerifDomainRoutingBatchObserver and replayed into a simulated domain_routing_map); for every distinct (live entries, simulated map) reached, route() over that map vs ControlPlane.Route for each (name, address) a live entry lists, provided the union of the bitmaps of the live names listing the address is the name's own bitmap (the map is keyed by address alone: names sharing an address share the union), and a packet without a known name where that union is empty; dport 443 and 53, tcp/udp, LAN/WAN"

var (
	histAddrs    = []netip.Addr{netip.MustParseAddr("10.9.9.1"), netip.MustParseAddr("2001:db8:9::1")}
	histAddrName = []string{"X", "Y"}
	// A matches only domain rule a, B matches both a and b, C only b, Z none (zero bitmap; thorough tier only)
	histOwnersAll = []string{"www.a.test", "bb.a.test", "bb.other", "plain.other"}
	histOwnerTag  = []string{"A", "B", "C", "Z"}
	histOwners    = histOwnersAll[:3]
)

// an operation: owner o answers with address set s (bit i = histAddrs[i]); s == 0: the cache entry is removed
type histOp struct{ owner, set int }

func (o histOp) String() string {
	if o.set == 0 {
		return "remove(" + histOwnerTag[o.owner] + ")"
	}
	var as []string
	for i := range histAddrs {
		if o.set>>i&1 == 1 {
			as = append(as, histAddrName[i])
		}
	}
	return histOwnerTag[o.owner] + "->{" + strings.Join(as, ",") + "}"
}

func histOps() []histOp {
	var ops []histOp
	for o := range histOwners {
		for s := 1; s < 1<<len(histAddrs); s++ {
			ops = append(ops, histOp{o, s})
		}
		ops = append(ops, histOp{o, 0})
	}
	return ops
}

type histState struct {
	history []histOp
	live    []int // per owner: address set of its live cache entry (0 = none)
	ents    []control.VerifC02DomainEntry
	bitmaps [][]uint32 // per owner: MatchDomainBitmap(name)
}

func histPrograms() []*vroute.Program {
	a := vroute.Rule{Conds: []vroute.Cond{{Func: "domain", Params: []vroute.Param{{Key: "suffix", Val: "a.test"}}}}, Out: "g1"}
	b := vroute.Rule{Conds: []vroute.Cond{{Func: "domain", Params: []vroute.Param{{Key: "keyword", Val: "bb"}}}}, Out: "g2(mark:0x7)"}
	nb := vroute.Rule{Conds: []vroute.Cond{{Func: "domain", Not: true, Params: []vroute.Param{{Key: "keyword", Val: "bb"}}}, {Func: "dport", Params: []vroute.Param{{Val: "443"}}}}, Out: "must_g2"}
	return []*vroute.Program{
		{Label: "hist/a-then-b", Rules: []vroute.Rule{a, b}, Fallback: "direct"},
		{Label: "hist/b-then-a", Rules: []vroute.Rule{b, a}, Fallback: "block"},
		{Label: "hist/a-then-not-b", Rules: []vroute.Rule{a, nb}, Fallback: "direct"},
	}
}

func (c *checker) runHistories() {
	if only := os.Getenv("C02_ONLY"); only != "" && only != "histories" {
		return
	}
	if c.r.Thorough() {
		histOwners = histOwnersAll
	}
	ops := histOps()
	nHist, nShared, nRotBack := 0, 0, 0
	for pi, prog := range histPrograms() {
		cp, err := c.compile(prog, variant{})
		if err != nil {
			c.violate("leg=build error prog="+progSig(prog)+" err="+err.Error(), map[string]any{"program": prog})
			continue
		}
		bitmaps := make([][]uint32, len(histOwners))
		for o, name := range histOwners {
			bitmaps[o] = cp.v.DomainBitmap(name)
		}
		// all histories of length 1..histDepth, shortest first; each replayed on a fresh tracker
		states := map[string]*histState{}
		var order []string
		seq := make([]int, 0, histDepth)
		var enum func(depth int)
		run := func() {
			h := control.VerifC02NewDomainHistory()
			live := make([]int, len(histOwners))
			hist := make([]histOp, len(seq))
			shared, rotBack := false, false
			left := make([]int, len(histOwners)) // addresses an owner listed earlier and then dropped while another owner kept them
			for i, oi := range seq {
				op := ops[oi]
				hist[i] = op
				var err error
				if op.set == 0 {
					err = h.Remove(histOwners[op.owner])
				} else {
					var as []netip.Addr
					for j, a := range histAddrs {
						if op.set>>j&1 == 1 {
							as = append(as, a)
						}
					}
					err = h.Answer(histOwners[op.owner], as, bitmaps[op.owner])
				}
				if err != nil {
					c.violate(fmt.Sprintf("leg=domain-history prog=%s history=%v syncOwner error: %v", progSig(cp.prog), hist[:i+1], err), nil)
					return
				}
				others := 0
				for o2, s := range live {
					if o2 != op.owner {
						others |= s
					}
				}
				if op.set&left[op.owner]&others != 0 {
					rotBack = true
				}
				left[op.owner] |= live[op.owner] &^ op.set & others
				live[op.owner] = op.set
				if op.set&others != 0 {
					shared = true
				}
			}
			nHist++
			if shared {
				nShared++
			}
			if rotBack {
				nRotBack++
			}
			ents := h.Entries()
			var kb strings.Builder
			fmt.Fprint(&kb, live)
			for _, e := range ents {
				fmt.Fprintf(&kb, "|%x=%x", e.Key, e.Value)
			}
			if _, ok := states[kb.String()]; !ok {
				states[kb.String()] = &histState{history: hist, live: live, ents: ents, bitmaps: bitmaps}
				order = append(order, kb.String())
			}
		}
		for d := 1; d <= histDepth; d++ {
			enum = func(depth int) {
				if depth == d {
					run()
					return
				}
				for oi := range ops {
					seq = append(seq, oi)
					enum(depth + 1)
					seq = seq[:len(seq)-1]
				}
			}
			enum(0)
		}
		c.r.Set("histories_"+prog.Label+"_distinct_states", len(order))
		c.r.ParallelFor(len(order), func(i int) {
			if c.mism.Load() > maxRecorded {
				return
			}
			c.runHistState(cp, states[order[i]], pi == 0 && i == len(order)/2)
		})
		c.programs.Add(1)
	}
	c.r.Set("histories_enumerated", nHist)
	c.r.Set("histories_with_a_shared_address", nShared)
	c.r.Set("histories_where_an_owner_returns_to_an_address_another_owner_kept", nRotBack)
	fmt.Printf("C02: leg histories     histories=%d (with a shared address %d, with a return to a kept address %d) t=%.0fs\n", nHist, nShared, nRotBack, c.r.Elapsed().Seconds())
	if c.mism.Load() == 0 && (nShared == 0 || nRotBack == 0) {
		broken("vacuous histories leg: shared=%d rotate-back=%d", nShared, nRotBack)
	}
}

func (c *checker) runHistState(cp *compiled, st *histState, sample bool) {
	k := <-c.pool
	defer func() { c.pool <- k }()
	var s session
	s.reset()
	keys := make([][]byte, len(cp.kern))
	for i := range keys {
		keys[i] = le32(uint32(i))
	}
	s.update("routing_map", keys, cp.kern)
	s.update("routing_meta_map", [][]byte{le32(0)}, [][]byte{le32(uint32(len(cp.kern)))})
	updIdx := -1
	if len(st.ents) > 0 {
		ks, vs := make([][]byte, len(st.ents)), make([][]byte, len(st.ents))
		for i, e := range st.ents {
			ks[i], vs[i] = e.Key, e.Value
		}
		updIdx = len(s.kinds)
		s.update("domain_routing_map", ks, vs)
	}
	type hcase struct {
		p   vroute.Packet
		wan bool
	}
	var cases []hcase
	var args []vkern.RouteArg
	add := func(dst netip.Addr, name string) {
		src := vroute.DefSrc4
		if !dst.Is4() {
			src = vroute.DefSrc6
		}
		for _, dport := range []uint16{443, 53} {
			for _, l4 := range []string{"tcp", "udp"} {
				p := vroute.Packet{Src: netip.AddrPortFrom(src, 40000), Dst: netip.AddrPortFrom(dst, dport), L4: l4, Domain: name, Mac: vroute.DefMac}
				for _, wan := range []bool{false, true} {
					cases = append(cases, hcase{p, wan})
					args = append(args, c.routeArg(&p, wan))
				}
			}
		}
	}
	// domain_routing_map is keyed by the address alone: names that share an address share one bitmap, the union of
	// theirs ("one IP may have multiple domains", BatchUpdateDomainRouting). The kernel can be compared with the
	// userspace matcher for (name, address) exactly when that union IS the name's own bitmap; a packet without a
	// known name is comparable when the union is empty (in particular when no live entry lists the address).
	var nIncomparable int64
	for j, a := range histAddrs {
		union := make([]uint32, len(st.bitmaps[0]))
		for o, set := range st.live {
			if set>>j&1 == 1 {
				for w, x := range st.bitmaps[o] {
					union[w] |= x
				}
			}
		}
		eq := func(b []uint32) bool {
			for w := range union {
				var x uint32
				if b != nil {
					x = b[w]
				}
				if union[w] != x {
					return false
				}
			}
			return true
		}
		for o, set := range st.live {
			if set>>j&1 == 1 {
				if eq(st.bitmaps[o]) {
					add(a, histOwners[o])
				} else {
					nIncomparable++
				}
			}
		}
		if eq(nil) {
			add(a, "")
		}
	}
	c.histSkip.Add(nIncomparable)
	if len(args) == 0 {
		return
	}
	rtIdx := len(s.kinds)
	s.route(args)
	rs, err := k.exec(&s)
	if err != nil {
		broken("engine K: %v", err)
	}
	for _, i := range []int{1, 2, updIdx} {
		if i < 0 {
			continue
		}
		bad := rs[i].status != 0
		for _, x := range rs[i].rc {
			bad = bad || x != 0
		}
		if bad {
			c.violate(fmt.Sprintf("leg=domain-history prog=%s history=%v the kernel map refuses what the control plane writes (%s)", progSig(cp.prog), st.history, rs[i].msg), nil)
			return
		}
	}
	if rs[rtIdx].status != 0 {
		broken("engine K: route batch refused: %s", rs[rtIdx].msg)
	}
	local := map[int64]int64{}
	var nRule, nFb, nDns, nNamed int64
	nviol := 0
	for n, hc := range cases {
		p := &hc.p
		got := rs[rtIdx].res[n]
		local[got]++
		if p.Domain != "" {
			nNamed++
		}
		ob, mark, must, rerr := cp.v.Route(p.Src, p.Dst, p.Domain, l4Of(p.L4), pname16(p.Pname), p.Mac, p.Dscp)
		exp := triple{ob, mark, must}
		if p.Dst.Port() == 53 && !must {
			exp = triple{uint8(consts.OutboundControlPlaneRouting), mark, false}
			nDns++
		}
		want, hit := cp.ref.Decide(p)
		refT := triple{cp.name2id[want.Outbound], want.Mark, want.Must}
		if hit.Rule >= 0 {
			nRule++
		} else {
			nFb++
		}
		if (rerr != nil || got != exp.pack() || (triple{ob, mark, must}) != refT) && nviol < 2 {
			nviol++
			fl := "lan"
			if hc.wan {
				fl = "wan"
			}
			var tbl []string
			for _, e := range st.ents {
				tbl = append(tbl, fmt.Sprintf("%x=%x", e.Key, e.Value[:4]))
			}
			sort.Strings(tbl)
			c.violate(fmt.Sprintf("leg=domain-history prog=%s history=%v pkt=%s flavour=%s kernel=[%s] userspace=[%s err=%v] expected=[%s] reference=[%s] domain_routing_map(key=first bitmap word)=%v",
				progSig(cp.prog), st.history, p.Key(), fl, kernString(got), triple{ob, mark, must}, rerr, exp, refT, tbl),
				caseDetail{Program: cp.prog, Config: cp.text, Variant: cp.va, Packet: toJSON(p), Wan: hc.wan, Kernel: kernString(got), Userspace: triple{ob, mark, must}.String(), Expected: exp.String(), Reference: refT.String(), History: fmt.Sprint(st.history)})
		}
	}
	n := int64(len(cases))
	c.evals.Add(n)
	c.kcalls.Add(n)
	c.refCmp.Add(n)
	c.histDec.Add(n)
	c.byRule.Add(nRule)
	c.distinct.Add(nRule)
	c.byFb.Add(nFb)
	c.dnsCP.Add(nDns)
	c.domKnown.Add(nNamed)
	c.mu.Lock()
	for v, m := range local {
		c.outcomes[kernString(v)] += m
	}
	c.mu.Unlock()
	if sample {
		c.r.Sample(map[string]any{"leg": "histories", "routing": cp.prog.RoutingBody(), "history": fmt.Sprint(st.history), "live_entries(owner A,B,Z -> address set bits X=1,Y=2)": st.live,
			"domain_routing_map_entries": len(st.ents), "kernel_decisions": n})
	}
}
