package main

// Leg "pname": the 16-byte process-name field shared by struct pid_pname (cookie_pid_map value, written by the kernel),
// struct match_set.pname (routing_map value, written by the control plane) and flag[2..5] of route().
// The shared limit is TASK_COMM_LEN / consts.TaskCommLen; the kernel compares the full width (equal16), so the bytes
// the control plane stores for `pname(N)` must be byte-identical to the bytes the kernel records for a process whose
// executable base name is N - for every length around the limit, not only for short names.
//
// Enumerated completely: process names (every length 1..L plus real names around the limit) x ways the process was
// started (bare, absolute path, path + arguments, ./relative) x the two ways the kernel obtains the name
// (bpf_get_current_task + argv[0], or bpf_get_current_comm). Per case:
//   kernel : the REAL cgroup/sock_create program run on the task; cookie_pid_map[cookie] decoded with the C layout
//   go     : `pname(N) -> g1` compiled by the production builder; match_set.pname of the emitted rule, C layout
//   oracle : both == first min(len,LIMIT) bytes of N, zero padded to the C field width (written from the statement)
//   dynamic: the real route() (is_wan) and the userspace matcher fed with what the kernel recorded for N and for
//            neighbours of N (one byte shorter / longer, cut at LIMIT-1, byte LIMIT-1 changed): the rule matches iff
//            the reference bytes are equal.
// Plus one program holding a rule for every name (first match wins).

import (
	"encoding/binary"
	"fmt"
	"net/netip"
	"strings"

	"github.com/daeuniverse/dae/common/consts"
	"github.com/daeuniverse/dae/component/routing"
	"github.com/daeuniverse/dae/control"
	"github.com/daeuniverse/dae/verifx/vkern"
)

const pnameAlphabet = "abcdefghijklmnopqrstuvwxyz0123456789-_."

func netipAP(a string, p uint16) netip.AddrPort { return netip.AddrPortFrom(netip.MustParseAddr(a), p) }

func synthName(n int) string {
	b := make([]byte, n)
	for i := range b {
		b[i] = pnameAlphabet[(i*7+n)%len(pnameAlphabet)]
	}
	return string(b)
}

type pnameForm struct {
	name string
	mk   func(n string) string
}

func (c *checker) legPname(k *vkern.K) {
	nviol := 0
	report := func(sig string, d any) {
		if nviol < 8 {
			c.viol("pname", sig, d)
		}
		nviol++
	}
	// ---- the C side of the field: widths and offsets from the C compiler
	pp := c.lay.Record("struct pid_pname")
	ms := c.lay.Record("struct match_set")
	mt := c.lay.Enum("MatchType")
	if pp == nil || ms == nil || mt == nil {
		c.broken("struct pid_pname / struct match_set / enum MatchType missing from the C layout")
	}
	find := func(fs []*vkern.LField, name string) (off, size int) {
		off = -1
		var walk func(fs []*vkern.LField)
		walk = func(fs []*vkern.LField) {
			for _, f := range fs {
				if f.Anon || len(f.Fields) > 0 {
					walk(f.Fields)
					continue
				}
				if f.Name == name && off < 0 {
					off, size = f.Offset, f.Size
				}
			}
		}
		walk(fs)
		return
	}
	ppOff, ppSize := find(pp.Fields, "pname")
	pidOff, pidSize := find(pp.Fields, "pid")
	msOff, msSize := find(ms.Fields, "pname")
	typOff, _ := find(ms.Fields, "type")
	if ppOff < 0 || msOff < 0 || typOff < 0 || pidOff < 0 || pidSize != 4 {
		c.broken("pid_pname.pname / pid_pname.pid / match_set.pname / match_set.type not found in the C layout (update the pname leg)")
	}
	limDef, ok := c.lay.Defines["TASK_COMM_LEN"]
	if !ok {
		c.broken("TASK_COMM_LEN is no longer an integer #define of tproxy.c")
	}
	lim := int(limDef.Value)
	c.item("pname:width:pid_pname.pname", fmt.Sprint(ppSize))
	c.item("pname:width:match_set.pname", fmt.Sprint(msSize))
	c.item("pname:width:consts.TaskCommLen", fmt.Sprint(consts.TaskCommLen))
	if ppSize != lim || msSize != lim || int(consts.TaskCommLen) != lim {
		report(fmt.Sprintf("pname: field widths differ: TASK_COMM_LEN=%d sizeof(pid_pname.pname)=%d sizeof(match_set.pname)=%d consts.TaskCommLen=%d", lim, ppSize, msSize, consts.TaskCommLen), nil)
		c.r.Set("pname_violations_total", nviol)
		return
	}
	pnType, ok := mt.Values["MatchType_ProcessName"]
	if !ok {
		c.broken("C enum MatchType lacks MatchType_ProcessName")
	}
	ref := func(n string) []byte { // the statement: same width and limit on both sides, byte-identical
		b := make([]byte, lim)
		copy(b, n)
		return b
	}

	// ---- alphabet
	maxLen := lim + 4
	extra := []int{2*lim - 1, 2 * lim, 2*lim + 1}
	if c.r.Thorough() {
		maxLen = 4 * lim
		extra = nil
	}
	var names []string
	seenName := map[string]bool{}
	add := func(n string) {
		if !seenName[n] {
			seenName[n] = true
			names = append(names, n)
		}
	}
	for _, n := range []string{"curl", "NetworkManager", "qbittorrent-nox", "systemd-resolved", "systemd-timesyncd", "xdg-desktop-portal", "systemd-resolve"} {
		add(n)
	}
	for n := 1; n <= maxLen; n++ {
		add(synthName(n))
	}
	for _, n := range extra {
		add(synthName(n))
	}
	forms := []pnameForm{
		{"bare", func(n string) string { return n }},
		{"abs", func(n string) string { return "/usr/bin/" + n }},
		{"abs+args", func(n string) string { return "/usr/lib/x/" + n + " --socket /tmp/a-b" }},
		{"rel+args", func(n string) string { return "./" + n + " -v" }},
	}
	if c.r.Thorough() {
		forms = append(forms,
			pnameForm{"deep", func(n string) string { return "/a/b/c/d/e/f/g/" + n }},
			pnameForm{"trailing-space", func(n string) string { return n + " " }},
		)
	}

	// ---- kernel side: run the real sock_create program on a task, read cookie_pid_map back
	c.must(k.Reset())
	curMode := uint8(255)
	cookie := uint64(0x1000)
	type kkey struct {
		name, form string
		mode       uint8
	}
	kcache := map[kkey][]byte{}
	kern := func(name string, f pnameForm, mode uint8) []byte {
		key := kkey{name, f.name, mode}
		if b, ok := kcache[key]; ok {
			return b
		}
		if mode != curMode {
			if err := k.SetParam(c.goParamBytes(map[string]any{"hasbpfgetcurrenttask": mode, "controlplanepid": uint32(4242)})); err != nil {
				c.broken("PARAM: %v", err)
			}
			curMode = mode
		}
		cookie++
		pid := uint32(7000 + cookie&0xfff)
		var comm [16]byte
		args := f.mk(name)
		if mode == 0 {
			// Linux: task->comm holds at most 15 characters + NUL; argv must not be consulted on this path
			copy(comm[:15], name)
			args = "/usr/bin/not-this-one --x"
		} else {
			copy(comm[:15], "not-this-one")
		}
		c.must(k.SetTask(uint64(pid)<<32|uint64(pid+1), comm, args, 0))
		_, err := k.Inject("tproxy_wan_cg_sock_create", &vkern.Skb{Cookie: cookie})
		c.must(err)
		var ck [8]byte
		binary.LittleEndian.PutUint64(ck[:], cookie)
		vals, err := k.MapLookup("cookie_pid_map", [][]byte{ck[:]})
		c.must(err)
		v := vals[0]
		if v == nil || len(v) != pp.Size {
			report(fmt.Sprintf("pname: sock_create of process %q (started as %q, has_bpf_get_current_task=%d) leaves no struct pid_pname under its cookie", name, args, mode), nil)
			kcache[key] = nil
			return nil
		}
		if got := binary.LittleEndian.Uint32(v[pidOff:]); got != pid {
			report(fmt.Sprintf("pname: cookie_pid_map value of process %q carries pid %d, the task's tgid is %d", name, got, pid), nil)
		}
		b := append([]byte(nil), v[ppOff:ppOff+ppSize]...)
		kcache[key] = b
		return b
	}

	groups := []string{"g1", "g2", "g3"}
	progText := func(rules []string) string {
		return "global{}\ngroup{ g1{policy:min} g2{policy:min} g3{policy:min} }\nrouting{\n" + strings.Join(rules, "\n") + "\nfallback: direct\n}\n"
	}
	routeArg := func(pn []byte) vkern.RouteArg {
		var a vkern.RouteArg
		a.Flag[0] = uint32(consts.L4ProtoType_TCP)
		a.Flag[1] = uint32(consts.IpVersion_4)
		for i := 0; i < 4; i++ {
			a.Flag[2+i] = binary.LittleEndian.Uint32(pn[4*i:])
		}
		a.Flag[7] = 1 // is_wan: process names exist only for locally generated traffic
		binary.BigEndian.PutUint16(a.L4Hdr[0:], 40000)
		binary.BigEndian.PutUint16(a.L4Hdr[2:], 443)
		a.Saddr = [16]byte{10: 0xff, 11: 0xff, 12: 192, 13: 168, 14: 1, 15: 2}
		a.Daddr = [16]byte{10: 0xff, 11: 0xff, 12: 1, 13: 1, 14: 1, 15: 1}
		return a
	}
	// decide runs the kernel route() and the userspace matcher on recorded process names and compares with want[i]
	decide := func(id string, v *control.VerifRouting, rules [][]byte, procs []string, pns [][]byte, want []string, text string) {
		c.loadRules(k, rules...)
		args := make([]vkern.RouteArg, len(pns))
		for i := range pns {
			args[i] = routeArg(pns[i])
		}
		res, err := k.Route(args)
		c.must(err)
		for i := range pns {
			wantOb := uint8(consts.OutboundDirect)
			if want[i] != "direct" {
				wantOb = v.Name2Id[want[i]]
			}
			c.item(fmt.Sprintf("pname:route:%s proc=%s", id, procs[i]), want[i])
			kr := res[i]
			if kr < 0 || uint8(kr&0xff) != wantOb {
				report(fmt.Sprintf("pname: kernel route() of program %s for a process the kernel recorded as %q (base name %q): result %d (outbound %d); the program says %s (outbound %d)",
					id, pns[i], procs[i], kr, uint8(kr&0xff), want[i], wantOb), map[string]any{"program": text})
			}
			var pn16 [16]uint8
			copy(pn16[:], pns[i])
			uo, _, _, uerr := v.Route(netipAP("192.168.1.2", 40000), netipAP("1.1.1.1", 443), "", consts.L4ProtoType_TCP, pn16, [6]byte{}, 0)
			if uerr != nil || uo != wantOb {
				report(fmt.Sprintf("pname: userspace Route of program %s for a process the kernel recorded as %q (base name %q): outbound %d err=%v; the program says %s (outbound %d)",
					id, pns[i], procs[i], uo, uerr, want[i], wantOb), map[string]any{"program": text})
			}
		}
	}

	// ---- per name
	for _, n := range names {
		want := ref(n)
		// kernel records, every start form x both sources
		for _, f := range forms {
			kp := kern(n, f, 1)
			c.item(fmt.Sprintf("pname:kernel:task len=%d %s form=%s", len(n), n, f.name), fmt.Sprintf("%q", kp))
			if kp != nil && string(kp) != string(want) {
				report(fmt.Sprintf("pname: the kernel records %q for a process with base name %q (%d characters, started as %q); the %d-byte field holds the first %d bytes of the name: %q",
					kp, n, len(n), f.mk(n), lim, lim, want), nil)
			}
		}
		if len(n) < lim { // task->comm cannot hold more than LIMIT-1 characters: beyond that the two sources name different things
			kp := kern(n, forms[0], 0)
			c.item(fmt.Sprintf("pname:kernel:comm len=%d %s", len(n), n), fmt.Sprintf("%q", kp))
			if kp != nil && string(kp) != string(want) {
				report(fmt.Sprintf("pname: the kernel (bpf_get_current_comm path) records %q for a process with comm %q; expected %q", kp, n, want), nil)
			}
		}
		// control plane: the rule the production builder emits
		text := progText([]string{"pname('" + n + "') -> g1"})
		v, err := control.VerifCompileRouting(text, groups, []routing.RulesOptimizer{&routing.AliasOptimizer{}})
		if err != nil {
			report(fmt.Sprintf("pname: pname('%s') does not compile: %v", n, err), text)
			continue
		}
		rules := v.KernRuleBytes()
		var gp []byte
		for _, r := range rules {
			if len(r) != ms.Size {
				report(fmt.Sprintf("pname: routing_map value is %d bytes, struct match_set is %d", len(r), ms.Size), nil)
				break
			}
			if int64(r[typOff]) == pnType {
				gp = r[msOff : msOff+msSize]
				break
			}
		}
		c.item(fmt.Sprintf("pname:go:len=%d %s", len(n), n), fmt.Sprintf("%q", gp))
		if gp == nil {
			report(fmt.Sprintf("pname: the builder emits no MatchType_ProcessName rule for pname('%s')", n), text)
			continue
		}
		if string(gp) != string(want) {
			kp := kern(n, forms[1], 1)
			report(fmt.Sprintf("pname: routing_map value for pname('%s') (%d characters) carries match_set.pname=%q; the kernel records %q for that process and compares all %d bytes (equal16); expected %q",
				n, len(n), gp, kp, lim, want), map[string]any{"program": text})
		}
		// dynamic: N and its neighbours, as the kernel records them
		neigh := []string{n, n + "x"}
		if len(n) > 1 {
			neigh = append(neigh, n[:len(n)-1])
		}
		if len(n) >= lim {
			neigh = append(neigh, n[:lim-1], n[:lim-1]+"#"+n[lim:])
		}
		var procs, wants []string
		var pns [][]byte
		seenNeigh := map[string]bool{}
		for _, d := range neigh {
			if seenNeigh[d] {
				continue
			}
			seenNeigh[d] = true
			kp := kern(d, forms[1], 1)
			if kp == nil {
				continue
			}
			procs = append(procs, d)
			pns = append(pns, kp)
			if string(ref(d)) == string(want) {
				wants = append(wants, "g1")
			} else {
				wants = append(wants, "direct")
			}
		}
		decide("pname('"+n+"')", v, rules, procs, pns, wants, text)
	}

	// ---- one program with a rule per name (first match wins)
	{
		var rl []string
		for i, n := range names {
			rl = append(rl, fmt.Sprintf("pname('%s') -> %s", n, groups[i%3]))
		}
		text := progText(rl)
		v, err := control.VerifCompileRouting(text, groups, []routing.RulesOptimizer{&routing.AliasOptimizer{}})
		if err != nil {
			report(fmt.Sprintf("pname: the program with %d pname rules does not compile: %v", len(names), err), nil)
		} else {
			var procs, wants []string
			var pns [][]byte
			for _, n := range names {
				kp := kern(n, forms[2], 1)
				if kp == nil {
					continue
				}
				w := "direct"
				for i, m := range names {
					if string(ref(m)) == string(ref(n)) {
						w = groups[i%3]
						break
					}
				}
				procs, pns, wants = append(procs, n), append(pns, kp), append(wants, w)
			}
			decide("all-names", v, v.KernRuleBytes(), procs, pns, wants, "pname('<name i>') -> g{i%3+1} for every enumerated name")
		}
	}
	c.r.Set("pname_violations_total", nviol)
	c.r.Set("pname_names", len(names))
	c.r.Set("pname_start_forms", len(forms))
	c.r.Sample(map[string]any{"leg": "pname", "name": "systemd-resolved", "limit": lim, "reference": fmt.Sprintf("%q", ref("systemd-resolved"))})
}
