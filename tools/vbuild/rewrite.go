package main

import (
	"fmt"
)

// instrumentFile is replaced by the engine-S rewriter (rewrite_s.go).
func instrumentFile(src, dst string, rewrite bool, consts map[string]string) error {
	return rewriteFile(src, dst, rewrite, consts)
}

var _ = fmt.Sprintf
