#!/bin/bash
# Runs the thorough tier of every claimed check once (evidence into a scratch dir) and records exit code + summary line.
VERIF="$(cd "$(dirname "$0")/.." && pwd)"
OUT="${THOROUGH_RESULTS:-$VERIF/.work/thorough-results.txt}"
IDS="$@"; [ -z "$IDS" ] && IDS=$(cat "$VERIF/tools/claimed.txt")
for ID in $IDS; do
  t0=$(date +%s)
  o=$(VERIF_EVIDENCE_DIR="$VERIF/.work/thorough-ev" VERIF_REPLAY_DIR="$VERIF/.work/thorough-rp" "$VERIF/run" "$ID" thorough 2>&1); ec=$?
  t1=$(date +%s)
  echo "$ID exit=$ec real=$((t1-t0))s $(echo "$o" | grep -E "^$ID thorough:" | cut -c1-220)" >> "$OUT"
  [ $ec -ne 0 ] && echo "$o" | grep -E "VIOLATION|signature" | head -5 >> "$OUT"
done
