// C18 — the dial target follows dial_mode: IPs by default, names only when allowed.
// Bounded-exhaustive enumeration (engine Q) of
//
//	dial mode x outbound x destination (v4, v6, v4-mapped) x port x sniffed string
//
// where the sniffed strings are a named list (known / verified / unknown / negative-cached names, case and
// trailing-dot variants, names and literals with a port, bracketed literals, zone, garbage) plus EVERY string
// up to a length bound over the alphabet {a . : [ ] 1}. Two legs on the real code:
//
//	A: ControlPlane.ChooseDialTarget                      -> (target, shouldReroute, dialIp)
//	B: ControlPlane.routeDial / chooseProxyDialer         -> string handed to a fake node dialer, group it went
//	   to, and the name(s) the routing matcher was asked about (recording wrapper of routing.DomainMatcher)
//
// against a table written from the property statement. Names become "known to be genuine" only through the
// production insert paths (DnsController.NormalizeAndCacheDnsResp_, ControlPlane.probeAndUpdateRealDomain).
//
//	C..F: probe outcomes, sniffer in front, reload histories, time (see the legs)
//	G: histories of upstream response SHAPES (rcode x answer/authority form x QR bit x family x key) in front of
//	   domain mode: only an answer that resolved the name makes it "resolved through dae"
//	H: every string TWICE (flow 1 -> whatever background verification the code starts, run to completion under the
//	   deterministic scheduler -> flow 2) with a resolver seam that treats IP-literal hosts like the real resolver
package main

import (
	"fmt"
	"net"
	"net/netip"
	"os"
	"sort"
	"strconv"
	"strings"
	"sync"
	"time"

	"github.com/daeuniverse/dae/component/sniffing"
	"github.com/daeuniverse/dae/control"
	"github.com/daeuniverse/dae/verifx/vlib"
	"github.com/daeuniverse/dae/verifx/vsched"
	"github.com/daeuniverse/dae/verifx/vtime"
)

// ---------------------------------------------------------------------------------------------
// world: what the check itself made known, and how the routing text it wrote maps names to groups
// ---------------------------------------------------------------------------------------------

const (
	typeA    = 1
	typeAAAA = 28
)

var (
	dnsA     = map[string]bool{} // canonical name -> an A answer was learned by the DNS controller
	dnsAAAA  = map[string]bool{}
	verified = map[string]bool{} // verification probe succeeded
	nodata   = map[string]bool{} // only empty (NOERROR) answers were learned: the statement does not say whether this is "genuine"
)

// routing text written by the check; reference routing = exact-name table + fallback.
var routeTable = map[string]string{
	"known.example": "g2", "verified.example": "g2", "unknown.example": "g2", "neg.example": "g2",
	"name.com": "g2", "mixed.example": "g2", "direct.example": "direct", "blocked.example": "block",
}

const fallbackGroup = "g1"

func confText() string {
	var b strings.Builder
	b.WriteString("global{}\ngroup{ g1{policy:min} g2{policy:min} }\nrouting{\n")
	names := make([]string, 0, len(routeTable))
	for n := range routeTable {
		names = append(names, n)
	}
	sort.Strings(names)
	for _, n := range names {
		fmt.Fprintf(&b, "domain(full: %s) -> %s\n", n, routeTable[n])
	}
	b.WriteString("fallback: " + fallbackGroup + "\n}\n")
	return b.String()
}

// Verification probe: per-family outcome table of the stubbed resolver, {addr, nodata, error} x {addr, nodata, error}.
// One name per cell ("p" + A outcome + AAAA outcome: a = address, n = no record, e = query error), plus the two
// names of the first version of this check. Names of the form c<x><y>-<n>.example get the outcome <x><y> too
// (fresh names for the flow-1 / probe / flow-2 sequences of leg C).
var outcomeLetters = []byte{'a', 'n', 'e'} // index = control.VerifC18ProbeAddr / NoData / Err

var probeAnswers = map[string][2]uint8{
	"verified.example": {control.VerifC18ProbeAddr, control.VerifC18ProbeNoData},
	"neg.example":      {control.VerifC18ProbeNoData, control.VerifC18ProbeNoData},
}

var probeCellNames []string

func letterIdx(c byte) (uint8, bool) {
	for i, l := range outcomeLetters {
		if l == c {
			return uint8(i), true
		}
	}
	return 0, false
}

// dynamicProbeAnswer: c<x><y>-<digits>.example
func dynamicProbeAnswer(host string) ([2]uint8, bool) {
	if len(host) < 5 || host[0] != 'c' || host[3] != '-' || !strings.HasSuffix(host, ".example") {
		return [2]uint8{}, false
	}
	a, ok1 := letterIdx(host[1])
	b, ok2 := letterIdx(host[2])
	return [2]uint8{a, b}, ok1 && ok2
}

// probeFindsAddress: the reference reading of "verified": the probe found an address for the name on at least
// one family (an error or an empty answer on the other family does not take that away); no address at all =
// not verified, whatever mixture of empty answers and errors produced that.
func probeFindsAddress(o [2]uint8) bool {
	return o[0] == control.VerifC18ProbeAddr || o[1] == control.VerifC18ProbeAddr
}

// ---- upstream response shapes (leg G alphabet; a few of them also as named forms in every other leg) ----
//
// cls: what the message means for "the name was resolved through dae", read from the statement:
//
//	2 = it resolved the name: a response, NOERROR, carrying an address of the queried type for the name
//	    (directly or at the end of a CNAME chain)
//	1 = a NOERROR response without an address (NODATA, CNAME only): the statement does not settle it => open
//	0 = it did not resolve the name: any error rcode (NXDOMAIN with or without SOA / CNAME, SERVFAIL, REFUSED),
//	    or a message that is not a response at all
type respShape struct {
	name string
	cls  int
	mk   func(qtype uint16, scoped bool) control.VerifC18Resp
}

func shapeAddr(qtype uint16) []string {
	if qtype == typeA {
		return []string{"198.51.100.30"}
	}
	return []string{"2001:db8::30"}
}

var respShapes = []respShape{
	{"ok", 2, func(q uint16, sc bool) control.VerifC18Resp {
		return control.VerifC18Resp{Addrs: shapeAddr(q), TTL: 3600, Scoped: sc}
	}},
	{"ok-cname", 2, func(q uint16, sc bool) control.VerifC18Resp {
		return control.VerifC18Resp{Cname: "target.example", Addrs: shapeAddr(q), TTL: 3600, Scoped: sc}
	}},
	{"nodata", 1, func(q uint16, sc bool) control.VerifC18Resp {
		return control.VerifC18Resp{SOA: true, TTL: 3600, Scoped: sc}
	}},
	{"cname-only", 1, func(q uint16, sc bool) control.VerifC18Resp {
		return control.VerifC18Resp{Cname: "target.example", SOA: true, TTL: 3600, Scoped: sc}
	}},
	{"nxdomain+soa", 0, func(q uint16, sc bool) control.VerifC18Resp {
		return control.VerifC18Resp{Rcode: 3, SOA: true, TTL: 3600, Scoped: sc}
	}},
	{"nxdomain", 0, func(q uint16, sc bool) control.VerifC18Resp {
		return control.VerifC18Resp{Rcode: 3, TTL: 3600, Scoped: sc}
	}},
	{"nxdomain+cname", 0, func(q uint16, sc bool) control.VerifC18Resp {
		return control.VerifC18Resp{Rcode: 3, Cname: "target.example", SOA: true, TTL: 3600, Scoped: sc}
	}},
	{"servfail", 0, func(q uint16, sc bool) control.VerifC18Resp {
		return control.VerifC18Resp{Rcode: 2, TTL: 3600, Scoped: sc}
	}},
	{"refused", 0, func(q uint16, sc bool) control.VerifC18Resp {
		return control.VerifC18Resp{Rcode: 5, TTL: 3600, Scoped: sc}
	}},
	{"not-a-response", 0, func(q uint16, sc bool) control.VerifC18Resp {
		return control.VerifC18Resp{NotResponse: true, Addrs: shapeAddr(q), TTL: 3600, Scoped: sc}
	}},
}

func shapeByName(n string) respShape {
	for _, sh := range respShapes {
		if sh.name == n {
			return sh
		}
	}
	panic("C18: no response shape " + n)
}

// names that only ever got non-resolving messages: not known by any reading of the statement
var unresolvedNamed = []struct {
	name  string
	shape respShape
}{
	{"nx.example", shapeByName("nxdomain+soa")}, {"nxbare.example", shapeByName("nxdomain")},
	{"nxcname.example", shapeByName("nxdomain+cname")}, {"servfail.example", shapeByName("servfail")},
	{"refused.example", shapeByName("refused")}, {"notresp.example", shapeByName("not-a-response")},
}

func seed(env *control.VerifC18Env) error {
	both := []string{"known.example", "name.com", "direct.example", "blocked.example", "MiXed.Example"}
	for _, n := range both {
		if err := env.LearnDNS(n, typeA, []string{"198.51.100.10", "198.51.100.11"}, 3600, true); err != nil {
			return fmt.Errorf("learn A %s: %w", n, err)
		}
		if err := env.LearnDNS(n, typeAAAA, []string{"2001:db8::10"}, 3600, false); err != nil {
			return fmt.Errorf("learn AAAA %s: %w", n, err)
		}
	}
	if err := env.LearnDNS("a4only.example", typeA, []string{"198.51.100.12"}, 3600, false); err != nil {
		return err
	}
	if err := env.LearnDNS("nodata.example", typeA, nil, 3600, false); err != nil {
		return err
	}
	if err := env.LearnDNS("nodata.example", typeAAAA, nil, 3600, true); err != nil {
		return err
	}
	// names whose only upstream messages did NOT resolve them (every family, scoped and bare key alternating)
	for i, n := range unresolvedNamed {
		for _, qt := range []uint16{typeA, typeAAAA} {
			if err := env.LearnDNSResp(n.name, qt, n.shape.mk(qt, i%2 == 0)); err != nil {
				return fmt.Errorf("learn %s %s: %w", n.shape.name, n.name, err)
			}
		}
	}
	// a name resolved through a CNAME chain (answer: name CNAME target, target A/AAAA address)
	for _, qt := range []uint16{typeA, typeAAAA} {
		if err := env.LearnDNSResp("viacname.example", qt, shapeByName("ok-cname").mk(qt, true)); err != nil {
			return fmt.Errorf("learn viacname: %w", err)
		}
	}
	// the production probe body, once per name of the table; what it concluded is judged by the domain-mode
	// cells of these names (not by its return value)
	names := make([]string, 0, len(probeAnswers))
	for n := range probeAnswers {
		names = append(names, n)
	}
	sort.Strings(names)
	for _, n := range names {
		env.ProbeRealDomain(n)
	}
	return nil
}

func init() {
	for _, n := range []string{"known.example", "name.com", "direct.example", "blocked.example", "mixed.example"} {
		dnsA[n], dnsAAAA[n] = true, true
	}
	dnsA["a4only.example"] = true
	nodata["nodata.example"] = true
	dnsA["viacname.example"], dnsAAAA["viacname.example"] = true, true
	for _, n := range unresolvedNamed { // nothing enters dnsA / dnsAAAA / nodata for them: knowledge 0
		named = append(named, n.name)
	}
	named = append(named, "viacname.example", "Nx.Example", "nx.example.", "nx.example:443", "servfail.example:8443")
	for _, x := range outcomeLetters {
		for _, y := range outcomeLetters {
			xi, _ := letterIdx(x)
			yi, _ := letterIdx(y)
			n := "p" + string([]byte{x, y}) + ".example"
			probeAnswers[n] = [2]uint8{xi, yi}
			probeCellNames = append(probeCellNames, n)
		}
	}
	for n, o := range probeAnswers {
		if probeFindsAddress(o) {
			verified[n] = true
		}
	}
	named = append(named, probeCellNames...)
	named = append(named, "Pen.Example", "pne.example.", "pen.example:443", "pae.example:8443")
}

// ---------------------------------------------------------------------------------------------
// reference model, written from the statement
// ---------------------------------------------------------------------------------------------

type class int

const (
	clsEmpty    class = iota
	clsName           // no ':' '[' ']' '%' or blank: a host name as far as target building is concerned
	clsIPLit          // IP literal, bare or in brackets
	clsIPPort         // IP literal (bracketed or v4) that already carries a valid port
	clsNamePort       // host name that already carries a valid port
	clsGarbage        // anything else: the statement promises nothing about the shape of the target
)

var clsNames = []string{"empty", "name", "iplit", "ip+port", "name+port", "garbage"}

type parsed struct {
	cls  class
	host string     // name part (clsName, clsNamePort)
	ip   netip.Addr // clsIPLit, clsIPPort
	port uint16     // carried port
}

func plainName(s string) bool {
	return s != "" && !strings.ContainsAny(s, ":[]% \t\r\n")
}

func validPort(p string) (uint16, bool) {
	if p == "" || len(p) > 5 {
		return 0, false
	}
	for _, c := range p {
		if c < '0' || c > '9' {
			return 0, false
		}
	}
	n, err := strconv.Atoi(p)
	if err != nil || n < 1 || n > 65535 {
		return 0, false
	}
	return uint16(n), true
}

func classify(s string) parsed {
	if s == "" {
		return parsed{cls: clsEmpty}
	}
	if ip, err := netip.ParseAddr(s); err == nil {
		return parsed{cls: clsIPLit, ip: ip}
	}
	if len(s) > 2 && s[0] == '[' && s[len(s)-1] == ']' {
		if ip, err := netip.ParseAddr(s[1 : len(s)-1]); err == nil {
			return parsed{cls: clsIPLit, ip: ip}
		}
	}
	if plainName(s) {
		return parsed{cls: clsName, host: s}
	}
	if h, p, err := net.SplitHostPort(s); err == nil {
		if port, ok := validPort(p); ok {
			if ip, err := netip.ParseAddr(h); err == nil {
				return parsed{cls: clsIPPort, ip: ip, port: port}
			}
			if plainName(h) {
				return parsed{cls: clsNamePort, host: h, port: port}
			}
		}
	}
	return parsed{cls: clsGarbage}
}

func canon(name string) string { return strings.TrimSuffix(strings.ToLower(name), ".") }

// hist: what the history of the control plane did to the two kinds of knowledge (leg E).
//
//	dns: some seeding (names resolved through dae) happened; answers dae resolved are carried over a reload
//	     together with the response cache it keeps serving them from, so they stay "resolved through dae".
//	ver: 2 = the verification probes ran in the current generation; 1 = they ran only in an earlier generation
//	     (a reload starts a new control plane: the statement does not say whether a verification outlives it => open);
//	     0 = never.
type hist struct {
	dns bool
	ver int
}

var histNow = hist{dns: true, ver: 2}

// knowledge of a canonical name for a flow to dst: 2 = known by every reading of the statement,
// 1 = some knowledge exists but the statement does not settle it (other address family only, NODATA only, or
// verified before a reload only), 0 = none.
func knowledgeH(cn string, dst netip.Addr, h hist) int {
	a, aaaa, nd := h.dns && dnsA[cn], h.dns && dnsAAAA[cn], h.dns && nodata[cn]
	ver := 0
	if verified[cn] {
		ver = h.ver
	}
	if ver == 2 || (a && aaaa) {
		return 2
	}
	if dst.Is4() && a {
		return 2
	}
	if dst.Is6() && !dst.Is4In6() && aaaa {
		return 2
	}
	if a || aaaa || nd || ver == 1 {
		return 1
	}
	return 0
}

func builtin(ob uint8) bool { return ob <= 1 || ob >= 0xFC } // direct, block, must_rules, control-plane routing, logical or/and

type want int

const (
	wantIP want = iota
	wantName
	wantEither
)

// wantFor: the table of the statement. outbound = the outbound the flow finally uses.
func wantFor(mode string, isBuiltin bool, dst netip.Addr, s string) want {
	return wantForH(mode, isBuiltin, dst, s, histNow)
}

func wantForH(mode string, isBuiltin bool, dst netip.Addr, s string, h hist) want {
	return wantCore(mode, isBuiltin, s, func(cn string) int { return knowledgeH(cn, dst, h) })
}

// wantCore: the table of the statement over an arbitrary knowledge function (canonical name -> 2 known by every
// reading, 1 open, 0 not known).
func wantCore(mode string, isBuiltin bool, s string, know func(cn string) int) want {
	if mode == "ip" || s == "" || isBuiltin {
		return wantIP
	}
	if mode == "domain+" || mode == "domain++" {
		return wantName
	}
	p := classify(s)
	switch p.cls {
	case clsName:
		cn := canon(s)
		switch know(cn) {
		case 2:
			if s == cn {
				return wantName
			}
			return wantEither // case / trailing-dot variant of a known name: same DNS name, but falling back to the IP is the safe side
		case 1:
			return wantEither
		}
		return wantIP
	case clsNamePort:
		if know(canon(p.host)) > 0 {
			return wantEither
		}
		return wantIP
	}
	return wantIP // literals and garbage are not names known to be genuine
}

func checkIPTarget(dst netip.AddrPort, target string, dialIp bool) string {
	h, p, err := net.SplitHostPort(target)
	if err != nil {
		return "target is not host:port: " + err.Error()
	}
	ip, err := netip.ParseAddr(h)
	if err != nil {
		return "host is not the destination IP"
	}
	if ip.Unmap() != dst.Addr().Unmap() {
		return "host is a different IP than the original destination"
	}
	if p != strconv.Itoa(int(dst.Port())) {
		return "port is not the destination port"
	}
	if !dialIp {
		return "dialIp=false although the target is the destination IP"
	}
	return ""
}

func nameVariants(n string) map[string]bool {
	m := map[string]bool{n: true}
	l := strings.ToLower(n)
	m[l] = true
	if t := strings.TrimSuffix(l, "."); t != "" {
		m[t] = true
	}
	if t := strings.TrimSuffix(n, "."); t != "" {
		m[t] = true
	}
	return m
}

type nameObs struct {
	malformedGarbage bool
	ipHostFlagFalse  bool
}

// checkNameTarget: the target must be "the sniffed name" in normalised host:port form.
func checkNameTarget(dst netip.AddrPort, s, target string, dialIp bool) (string, nameObs) {
	var o nameObs
	p := classify(s)
	h, port, err := net.SplitHostPort(target)
	if p.cls == clsGarbage {
		// outside the guarantee of the statement (neither a name, nor a literal, nor host:port): record only
		if err != nil {
			o.malformedGarbage = true
		}
		return "", o
	}
	if err != nil {
		return "malformed target: " + err.Error(), o
	}
	if strings.ContainsAny(h, "[]") {
		return "bracket residue in host", o
	}
	dport := strconv.Itoa(int(dst.Port()))
	switch p.cls {
	case clsName:
		if !nameVariants(s)[h] {
			return "host is not the sniffed name", o
		}
		if port != dport {
			return "port is not the destination port", o
		}
		if dialIp {
			return "dialIp=true for a host name", o
		}
	case clsNamePort:
		if !nameVariants(p.host)[h] {
			return "host is not the sniffed name", o
		}
		if port != dport && port != strconv.Itoa(int(p.port)) {
			return "port is neither the destination port nor the carried one", o
		}
		if dialIp {
			return "dialIp=true for a host name", o
		}
	case clsIPLit:
		ip, err := netip.ParseAddr(h)
		if err != nil || ip != p.ip {
			return "host is not the sniffed IP literal", o
		}
		if port != dport {
			return "port is not the destination port", o
		}
		if !dialIp {
			return "dialIp=false for an IP-literal host", o
		}
	case clsIPPort:
		ip, err := netip.ParseAddr(h)
		if err != nil || ip != p.ip {
			return "host is not the sniffed IP literal", o
		}
		if port != dport && port != strconv.Itoa(int(p.port)) {
			return "port is neither the destination port nor the carried one", o
		}
		if !dialIp {
			o.ipHostFlagFalse = true // the statement is silent on the flag; recorded, reported, not a violation
		}
	}
	return "", o
}

// refRoute: groups the flow may end in when it is routed with name s under the routing text above.
func refRoute(s string) map[string]bool {
	if s == "" {
		return map[string]bool{fallbackGroup: true}
	}
	if g, ok := routeTable[s]; ok {
		return map[string]bool{g: true}
	}
	out := map[string]bool{fallbackGroup: true}
	// variants: whether the matcher folds case / trailing dot / port is C11's subject, not this one's
	p := classify(s)
	cands := []string{canon(s)}
	if p.cls == clsNamePort {
		cands = append(cands, canon(p.host))
	}
	for _, c := range cands {
		if g, ok := routeTable[c]; ok {
			out[g] = true
		}
	}
	return out
}

// ---------------------------------------------------------------------------------------------
// enumeration
// ---------------------------------------------------------------------------------------------

var alphabet = []byte{'a', '.', ':', '[', ']', '1'}

var named = []string{
	"", "known.example", "verified.example", "unknown.example", "neg.example", "a4only.example", "nodata.example",
	"mixed.example", "direct.example", "blocked.example", "name.com", "Name.COM", "name.com.", "NAME.COM.", "name.com:8443",
	"Known.Example", "known.example.", "known.example:443", "unknown.example:8443", "sub.known.example", "nown.example",
	"1.2.3.4", "1.2.3.4:80", "[1.2.3.4]", "[1.2.3.4]:80", "::1", "[::1]", "[::1]:443", "::ffff:1.2.3.4", "[::ffff:1.2.3.4]:8080",
	"2606:4700:20::681a:d1f", "[2606:4700:20::681a:d1f]", "[2606:4700:20::681a:d1f]:65535", "fe80::1%eth0", "[fe80::1%eth0]", "[fe80::1%eth0]:1",
	"[", "]", "[]", "a:b:c", "[known.example]", "[known.example]:443", "known.example:", ":443", "known.example:0", "known.example:65536",
	"known.example:http", "1.2.3.4.", "1.2.3", "256.1.1.1", "known.example ", " known.example", "xn--fiq228c.example",
	// IP literals over the whole hex alphabet / without any digit / shortest forms / upper case
	"::", "[::]", "[::]:443", "fd00::1", "FD00::1", "[fd00::1]", "[fd00::1]:443", "fe80::1", "ff02::1", "abcd:ef01::1", "[ABCD:EF01::1]",
	"::a", "a::", "a::a", "::ffff:a:a", "f::", "::f", "dead:beef::", "fd00::1:443", "1::", "::1:1",
}

func allStrings(maxLen int) []string {
	seen := map[string]bool{}
	var out []string
	add := func(s string) {
		if !seen[s] {
			seen[s] = true
			out = append(out, s)
		}
	}
	for _, s := range named {
		add(s)
	}
	var rec func(prefix []byte, n int)
	rec = func(prefix []byte, n int) {
		if len(prefix) == n {
			add(string(prefix))
			return
		}
		for _, c := range alphabet {
			rec(append(prefix, c), n)
		}
	}
	for n := 1; n <= maxLen; n++ {
		rec(nil, n)
	}
	return out
}

type dstKind struct {
	name string
	addr netip.Addr
	src  netip.AddrPort
}

var dsts = []dstKind{
	{"v4", netip.MustParseAddr("203.0.113.9"), netip.MustParseAddrPort("192.0.2.9:40000")},
	{"v6", netip.MustParseAddr("2001:db8:ffff::9"), netip.MustParseAddrPort("[2001:db8:1::9]:40000")},
	{"v4mapped", netip.MustParseAddr("::ffff:203.0.113.9"), netip.MustParseAddrPort("[::ffff:192.0.2.9]:40000")},
}

var modes = []string{"ip", "domain", "domain+", "domain++"}
var ports = []uint16{1, 443, 65535}

type limiter struct {
	mu sync.Mutex
	n  map[string]int
}

func (l *limiter) ok(kind string, max int) bool {
	l.mu.Lock()
	defer l.mu.Unlock()
	l.n[kind]++
	return l.n[kind] <= max
}

func main() {
	r := vlib.Start("C18", "exploration")
	lenA, lenB := 4, 2
	if r.Thorough() {
		lenA, lenB = 6, 4
	}
	control.VerifC18InstallProbeResolver(probeAnswers, dynamicProbeAnswer)
	stringsA := allStrings(lenA)
	stringsB := allStrings(lenB)
	conf := confText()
	r.Set("strings_leg_A", len(stringsA))
	r.Set("strings_leg_B", len(stringsB))
	r.Set("max_len_leg_A", lenA)
	r.Set("max_len_leg_B", lenB)
	r.Rule(fmt.Sprintf("full product of 4 dial modes x outbound index x dst {v4,v6,v4-mapped} x port {1,443,65535} x sniffed string, where the strings are a de-duplicated set of %d named forms plus every string of length<=%d (leg A: ChooseDialTarget) / <=%d (leg B: routeDial + chooseProxyDialer, tcp and udp) over {a . : [ ] 1}; leg A additionally sweeps all 256 outbound indices over the named forms; leg D sends every leg-A string as the Host field of an HTTP request through the real sniffer in front of ChooseDialTarget (2 outbounds); leg E runs the named forms after every history of length<=3 (quick) / <=4 (thorough) over {seed, reload-by-cache-replay, reload-by-store-reuse}; leg F runs every history of length<=3 (quick) / <=4 (thorough) over {resolve with TTL 10 s/60 s under a scoped/bare key, advance the virtual clock by 9.999 s / 2 ms / 55 s, reload by replay / by reuse} and then queries domain mode for the name, a case variant and another name on a v4 and a v6 destination; leg C runs, per (mode, outbound, dst, port), the 9 per-family probe outcomes {addr,nodata,error}^2 as flow 1 -> background verification probe -> flow 2 on a fresh name; leg G hands every history of length<=2 (quick) / <=3 (thorough) over {A,AAAA} x 10 upstream response shapes {address, CNAME+address, NODATA, CNAME only, NXDOMAIN with SOA / bare / with CNAME, SERVFAIL, REFUSED, QR bit clear} x {scoped, bare key} to NormalizeAndCacheDnsResp_ on a fresh control plane and then dials the name, a spelling variant, name:port and another name in domain mode (histories of length<=1 in all 4 modes) through ChooseDialTarget (user and built-in outbound) and routeDial on 3 destination kinds; leg H dials every leg-A string twice per (mode, 3 outbounds, 3 destination kinds) under the deterministic scheduler with the background verification run to completion in between (plus 9 fresh names per cell, one per probe outcome), the resolver seam answering IP-literal hosts through the real resolver. A case is (leg, history, mode, outbound, dst, port, network, string); it is non-trivial when the string is non-empty; distinct_nontrivial is counted from the de-duplicated string set per distinct (leg, mode, outbound, dst, port, network) cell (cells are checked for uniqueness)", len(named), lenA, lenB))

	evals := r.Counter("evaluations")
	distinct := r.Counter("distinct_nontrivial")
	cIP := r.Counter("outcome_target_is_destination_ip")
	cName := r.Counter("outcome_target_is_sniffed_name")
	cReroute := r.Counter("outcome_reroute_flag_true")
	cRerouted := r.Counter("outcome_legB_flow_routed_with_name")
	cGroupChanged := r.Counter("outcome_legB_group_changed_by_reroute")
	cStrictName := r.Counter("expected_name_strict")
	cEitherIP := r.Counter("undetermined_cells_impl_chose_ip")
	cEitherName := r.Counter("undetermined_cells_impl_chose_name")
	oMalformed := r.Counter("obs_garbage_sniff_gives_malformed_target")
	oFlag := r.Counter("obs_ip_literal_with_port_dialIp_false")
	oDomReroute := r.Counter("obs_domain_mode_known_name_rerouted")
	lim := &limiter{n: map[string]int{}}
	outcomeKinds := sync.Map{}
	cells := sync.Map{}
	obsMalformed, obsFlag := &sync.Map{}, &sync.Map{}

	// judge one (target, dialIp) against the table; returns "" or the reason
	var judgeW func(w want, mode string, dst netip.AddrPort, s, target string, dialIp bool) string
	judge := func(mode string, finalBuiltin bool, dst netip.AddrPort, s, target string, dialIp bool) string {
		return judgeW(wantFor(mode, finalBuiltin, dst.Addr(), s), mode, dst, s, target, dialIp)
	}
	judgeW = func(w want, mode string, dst netip.AddrPort, s, target string, dialIp bool) string {
		ipWhy := checkIPTarget(dst, target, dialIp)
		switch w {
		case wantIP:
			if ipWhy == "" {
				cIP.Add(1)
			}
			if ipWhy != "" {
				return "want original destination IP:port; " + ipWhy
			}
			return ""
		case wantName:
			cStrictName.Add(1)
			why, o := checkNameTarget(dst, s, target, dialIp)
			if why != "" {
				return "want the sniffed name; " + why
			}
			cName.Add(1)
			if o.malformedGarbage {
				oMalformed.Add(1)
				obsMalformed.LoadOrStore(s, fmt.Sprintf("mode=%s sniffed=%q -> target %q", mode, s, target))
			}
			if o.ipHostFlagFalse {
				oFlag.Add(1)
				obsFlag.LoadOrStore(s, fmt.Sprintf("mode=%s sniffed=%q -> target %q dialIp=false", mode, s, target))
			}
			return ""
		default:
			if ipWhy == "" {
				cEitherIP.Add(1)
				cIP.Add(1)
				return ""
			}
			why, _ := checkNameTarget(dst, s, target, dialIp)
			if why == "" {
				cEitherName.Add(1)
				cName.Add(1)
				return ""
			}
			return "want destination IP or the sniffed name; as IP: " + ipWhy + "; as name: " + why
		}
	}

	seedEnv := func(mode string) *control.VerifC18Env {
		env, err := control.VerifC18NewEnv(mode, conf, []string{"g1", "g2"})
		if err != nil {
			fmt.Println("C18: cannot build environment:", err)
			r.Violation("harness: environment build failed: "+err.Error(), err.Error())
			return nil
		}
		if err := seed(env); err != nil {
			r.Violation("harness/production insert path failed: "+err.Error(), err.Error())
			env.Close()
			return nil
		}
		return env
	}

	dump := os.Getenv("C18_DUMP") != ""
	// developer switch: C18_LEGS=FH runs only the named legs (the run is then marked as not exhaustive)
	onlyLegs := os.Getenv("C18_LEGS")
	if onlyLegs != "" {
		r.CapHit("C18_LEGS=" + onlyLegs + ": only the named legs were run")
	}
	legN := func(leg string, n int) int {
		if onlyLegs != "" && !strings.Contains(onlyLegs, leg) {
			return 0
		}
		return n
	}
	sampleA := map[string]bool{
		"domain|2|203.0.113.9:443|known.example":         true,
		"domain|2|203.0.113.9:443|unknown.example":       true,
		"domain+|251|[2001:db8:ffff::9]:65535|[::1]:443": true,
	}
	sampleB := map[string]bool{
		"domain++|2|203.0.113.9:443|tcp|known.example":           true,
		"domain++|3|[2001:db8:ffff::9]:443|tcp|direct.example":   true,
		"domain|253|[::ffff:203.0.113.9]:1|udp|verified.example": true,
	}

	// ---------------- leg A ----------------
	type chunkA struct {
		mode string
		ob   uint8
		dst  netip.AddrPort
		dk   string
		strs []string
	}
	var chunksA []chunkA
	mainObs := []uint8{0, 1, 0xFC, 0xFD, 0xFE, 0xFF, 2, 3, 0xFB}
	isMain := map[uint8]bool{}
	for _, o := range mainObs {
		isMain[o] = true
	}
	namedSet := allStrings(0)
	for _, m := range modes {
		for _, d := range dsts {
			for _, p := range ports {
				for _, o := range mainObs {
					chunksA = append(chunksA, chunkA{m, o, netip.AddrPortFrom(d.addr, p), d.name, stringsA})
				}
			}
			for o := 0; o < 256; o++ { // every outbound index over the named forms
				if !isMain[uint8(o)] {
					chunksA = append(chunksA, chunkA{m, uint8(o), netip.AddrPortFrom(d.addr, 443), d.name, namedSet})
				}
			}
		}
	}
	r.Set("cells_leg_A", len(chunksA))
	r.ParallelFor(legN("A", len(chunksA)), func(i int) {
		c := chunksA[i]
		if r.OverBudget(100*time.Second, 9*time.Minute) {
			r.CapHit("leg A time budget")
			return
		}
		cellKey := fmt.Sprintf("A|%s|%d|%v", c.mode, c.ob, c.dst)
		if _, dup := cells.LoadOrStore(cellKey, true); dup {
			r.Violation("harness: duplicate cell "+cellKey, nil)
			return
		}
		env := seedEnv(c.mode)
		if env == nil {
			return
		}
		defer env.Close()
		for _, s := range c.strs {
			evals.Add(1)
			if s != "" {
				distinct.Add(1)
			}
			var target string
			var reroute, dialIp bool
			if p, msg := vlib.Try(func() { target, reroute, dialIp = env.Choose(c.ob, c.dst, s) }); p {
				r.Violation(fmt.Sprintf("leg=A panic mode=%s ob=%d dst=%v sniffed=%q at %s", c.mode, c.ob, c.dst, s, vlib.PanicSite(msg)), msg)
				continue
			}
			if reroute {
				cReroute.Add(1)
			}
			outcomeKinds.Store(fmt.Sprintf("%s|builtin=%v|%s|%v|%v|tgtIsIP=%v", c.mode, builtin(c.ob), clsNames[classify(s).cls], reroute, dialIp, checkIPTarget(c.dst, target, true) == ""), true)
			if why := judge(c.mode, builtin(c.ob), c.dst, s, target, dialIp); why != "" && lim.ok("A-target|"+c.mode, 4) {
				r.Violation(fmt.Sprintf("leg=A mode=%s ob=%d dst=%v sniffed=%q got=%q dialIp=%v: %s", c.mode, c.ob, c.dst, s, target, dialIp, why),
					map[string]any{"mode": c.mode, "outbound": c.ob, "dst": c.dst.String(), "sniffed": s, "target": target, "reroute": reroute, "dialIp": dialIp, "why": why})
			}
			if c.mode == "domain++" && !builtin(c.ob) && s != "" && !reroute && lim.ok("A-reroute", 4) {
				r.Violation(fmt.Sprintf("leg=A mode=%s ob=%d dst=%v sniffed=%q: domain++ must ask for the flow to be routed again, shouldReroute=false", c.mode, c.ob, c.dst, s),
					map[string]any{"target": target})
			}
			if c.mode == "domain" && reroute {
				oDomReroute.Add(1)
			}
			if dump && c.ob == 2 && c.dst.Port() == 443 && len(s) > 3 {
				fmt.Printf("DUMP %-8s %-8s %-34q -> %-44q reroute=%-5v dialIp=%v\n", c.mode, c.dk, s, target, reroute, dialIp)
			}
			if sampleA[fmt.Sprintf("%s|%d|%v|%s", c.mode, c.ob, c.dst, s)] {
				r.Sample(map[string]any{"leg": "A", "mode": c.mode, "outbound": c.ob, "dst": c.dst.String(), "sniffed": s, "target": target, "shouldReroute": reroute, "dialIp": dialIp})
			}
		}
	})

	// ---------------- leg B ----------------
	type chunkB struct {
		mode    string
		ob      uint8
		d       dstKind
		port    uint16
		network string
	}
	var chunksB []chunkB
	for _, m := range modes {
		for _, o := range []uint8{0, 1, 0xFD, 2, 3} {
			for _, d := range dsts {
				for _, p := range ports {
					for _, nw := range []string{"tcp", "udp"} {
						chunksB = append(chunksB, chunkB{m, o, d, p, nw})
					}
				}
			}
		}
	}
	r.Set("cells_leg_B", len(chunksB))
	groupOf := map[uint8]string{0: "direct", 1: "block", 2: "g1", 3: "g2"}
	r.ParallelFor(legN("B", len(chunksB)), func(i int) {
		c := chunksB[i]
		if r.OverBudget(110*time.Second, 10*time.Minute) {
			r.CapHit("leg B time budget")
			return
		}
		cellKey := fmt.Sprintf("B|%s|%d|%s|%d|%s", c.mode, c.ob, c.d.name, c.port, c.network)
		if _, dup := cells.LoadOrStore(cellKey, true); dup {
			r.Violation("harness: duplicate cell "+cellKey, nil)
			return
		}
		env := seedEnv(c.mode)
		if env == nil {
			return
		}
		defer env.Close()
		dst := netip.AddrPortFrom(c.d.addr, c.port)
		for _, s := range stringsB {
			evals.Add(1)
			if s != "" {
				distinct.Add(1)
			}
			var o control.VerifC18Obs
			if p, msg := vlib.Try(func() {
				if c.network == "tcp" {
					o = env.RouteDial(c.ob, c.d.src, dst, s)
				} else {
					o = env.ChooseProxy(c.ob, c.d.src, dst, s, c.network)
				}
			}); p {
				r.Violation(fmt.Sprintf("leg=B panic mode=%s ob=%d dst=%v net=%s sniffed=%q at %s", c.mode, c.ob, dst, c.network, s, vlib.PanicSite(msg)), msg)
				continue
			}
			sig := fmt.Sprintf("leg=B mode=%s ob=%d dst=%v net=%s sniffed=%q", c.mode, c.ob, dst, c.network, s)
			if o.Err != "" || o.NilResult {
				if lim.ok("B-err", 4) {
					r.Violation(sig+": dial path failed: "+o.Err, o)
				}
				continue
			}
			if c.network == "tcp" {
				if len(o.Dials) != 1 || o.Dials[0].Addr != o.DialTarget || o.Dials[0].Group != o.FinalGroup {
					if lim.ok("B-dials", 4) {
						r.Violation(sig+fmt.Sprintf(": node dialer calls %v do not match the chosen target %q / group %q", o.Dials, o.DialTarget, o.FinalGroup), o)
					}
					continue
				}
			}
			target := o.DialTarget
			// which name was the flow routed with
			routedWithName := false
			for _, rn := range o.Routed {
				if rn == s {
					routedWithName = true
				} else if lim.ok("B-routedother", 4) {
					r.Violation(sig+fmt.Sprintf(": flow was routed with %q, which is not the sniffed value", rn), o)
				}
			}
			if routedWithName {
				cRerouted.Add(1)
			}
			// domain++: "the flow is routed again using that name" (a flow still waiting for control-plane routing
			// is routed then for the first time; the name must be used all the same)
			mustRoute := c.mode == "domain++" && s != "" && (!builtin(c.ob) || c.ob == 0xFD)
			allowed := map[string]bool{}
			if mustRoute {
				if !routedWithName && lim.ok("B-noreroute", 4) {
					r.Violation(sig+": the flow must be routed (again) using the sniffed name, but the routing matcher was never asked about it", o)
				}
				allowed = refRoute(s)
			} else {
				if c.ob == 0xFD {
					// first routing in userspace: whether it uses the name in the other modes is a routing property (C01), not this one
					allowed = refRoute("")
				} else {
					allowed[groupOf[c.ob]] = true
				}
				if routedWithName { // optional re-route (the statement only demands it for domain++)
					for g := range refRoute(s) {
						allowed[g] = true
					}
					if c.mode == "domain" && c.ob != 0xFD {
						oDomReroute.Add(1)
					}
				}
			}
			if !allowed[o.FinalGroup] {
				if lim.ok("B-group|"+c.mode, 4) {
					r.Violation(sig+fmt.Sprintf(": flow ended in group %q, reference allows %v (routed with %v)", o.FinalGroup, keys(allowed), o.Routed), o)
				}
				continue
			}
			if !builtin(c.ob) && o.FinalGroup != groupOf[c.ob] {
				cGroupChanged.Add(1)
			}
			finalBuiltin := o.FinalGroup == "direct" || o.FinalGroup == "block"
			outcomeKinds.Store(fmt.Sprintf("B|%s|%d|%s|%s|%v|tgtIsIP=%v", c.mode, c.ob, clsNames[classify(s).cls], o.FinalGroup, routedWithName, checkIPTarget(dst, target, true) == ""), true)
			if why := judge(c.mode, finalBuiltin, dst, s, target, o.IsDialIp); why != "" && lim.ok("B-target|"+c.mode, 4) {
				r.Violation(sig+fmt.Sprintf(" final=%s got=%q dialIp=%v: %s", o.FinalGroup, target, o.IsDialIp, why), o)
			}
			if sampleB[fmt.Sprintf("%s|%d|%v|%s|%s", c.mode, c.ob, dst, c.network, s)] {
				r.Sample(map[string]any{"leg": "B", "mode": c.mode, "outbound": c.ob, "dst": dst.String(), "net": c.network, "sniffed": s, "routed_with": o.Routed, "final_group": o.FinalGroup, "node_dialer_got": target})
			}
		}
	})

	// ---------------- leg C: flow 1 -> background verification probe -> flow 2 ----------------
	// Fresh names (one per cell of the per-family probe outcome table, unique per enumeration cell) that nobody
	// resolved through dae. Flow 1 sniffs the name (unknown => in domain mode the code starts the probe through
	// triggerRealDomainProbe in the background); the harness waits for that probe to finish; flow 2 sniffs the
	// same name. Reference: flow 1 = not known yet; flow 2 = verified iff the probe found an address.
	type chunkC struct {
		mode string
		ob   uint8
		d    dstKind
		port uint16
	}
	var chunksC []chunkC
	for _, m := range modes {
		for _, o := range []uint8{2, 3, 0xFB, 0, 0xFD} {
			for _, d := range dsts {
				for _, p := range ports {
					chunksC = append(chunksC, chunkC{m, o, d, p})
				}
			}
		}
	}
	r.Set("cells_leg_C", len(chunksC))
	cProbeRan := r.Counter("legC_background_probes_completed")
	cVerifiedAfter := r.Counter("legC_flow2_dialled_by_name_after_successful_probe")
	cRefusedAfter := r.Counter("legC_flow2_kept_ip_after_probe_without_address")
	r.ParallelFor(legN("C", len(chunksC)), func(i int) {
		c := chunksC[i]
		env := seedEnv(c.mode)
		if env == nil {
			return
		}
		defer env.Close()
		dst := netip.AddrPortFrom(c.d.addr, c.port)
		for _, x := range outcomeLetters {
			for _, y := range outcomeLetters {
				name := fmt.Sprintf("c%c%c-%d.example", x, y, i)
				outcome, _ := dynamicProbeAnswer(name)
				evals.Add(2)
				distinct.Add(2)
				sig := fmt.Sprintf("leg=C mode=%s ob=%d dst=%v sniffed=%q probe(A,AAAA)=(%c,%c)", c.mode, c.ob, dst, name, x, y)
				var t1, t2 string
				var ip1, ip2 bool
				if p, msg := vlib.Try(func() { t1, _, ip1 = env.Choose(c.ob, dst, name) }); p {
					r.Violation(sig+" flow=1 panic at "+vlib.PanicSite(msg), msg)
					continue
				}
				// flow 1: the name is not known by anybody yet
				w1 := wantFor(c.mode, builtin(c.ob), dst.Addr(), name)
				if why := judgeW(w1, c.mode, dst, name, t1, ip1); why != "" && lim.ok("C-flow1|"+c.mode, 4) {
					r.Violation(sig+fmt.Sprintf(" flow=1 got=%q dialIp=%v: %s", t1, ip1, why), nil)
				}
				probed := false
				if c.mode == "domain" && !builtin(c.ob) {
					probed = env.WaitAsyncProbe(name, 60*time.Second)
					if !probed {
						r.CapHit("leg C: background probe did not show up (flow 2 of that name not judged)")
						continue
					}
					cProbeRan.Add(1)
				}
				if p, msg := vlib.Try(func() { t2, _, ip2 = env.Choose(c.ob, dst, name) }); p {
					r.Violation(sig+" flow=2 panic at "+vlib.PanicSite(msg), msg)
					continue
				}
				w2 := w1
				if probed && probeFindsAddress(outcome) {
					w2 = wantName
				}
				why := judgeW(w2, c.mode, dst, name, t2, ip2)
				if why != "" && lim.ok("C-flow2|"+c.mode, 6) {
					r.Violation(sig+fmt.Sprintf(" flow=2 (after the verification probe) got=%q dialIp=%v: %s", t2, ip2, why),
						map[string]any{"mode": c.mode, "outbound": c.ob, "dst": dst.String(), "sniffed": name, "probe_A": string(x), "probe_AAAA": string(y), "flow1": t1, "flow2": t2, "why": why})
				}
				if probed && why == "" {
					if probeFindsAddress(outcome) {
						cVerifiedAfter.Add(1)
					} else {
						cRefusedAfter.Add(1)
					}
				}
				outcomeKinds.Store(fmt.Sprintf("C|%s|builtin=%v|%c%c|probed=%v|t1IsIP=%v|t2IsIP=%v", c.mode, builtin(c.ob), x, y, probed, checkIPTarget(dst, t1, true) == "", checkIPTarget(dst, t2, true) == ""), true)
			}
		}
	})

	// ---------------- leg D: the sniffer's output path in front of ChooseDialTarget ----------------
	// The value travels the way handleConn gets it: an HTTP request whose Host field is the raw value ->
	// sniffing.Sniffer.SniffTcp (sniffGroup -> NormalizeDomain) -> a sniff error means "no name" -> ChooseDialTarget.
	// Reference = the same table, applied to the value the client wrote (optional white space of the field removed).
	type chunkD struct {
		mode string
		ob   uint8
		dst  netip.AddrPort
	}
	var chunksD []chunkD
	for _, m := range modes {
		for _, o := range []uint8{2, 0} {
			for _, d := range dsts {
				for _, p := range ports {
					chunksD = append(chunksD, chunkD{m, o, netip.AddrPortFrom(d.addr, p)})
				}
			}
		}
	}
	r.Set("cells_leg_D", len(chunksD))
	cSniffed := r.Counter("legD_sniffer_returned_a_name")
	cSniffEmpty := r.Counter("legD_sniffer_returned_nothing")
	r.ParallelFor(legN("D", len(chunksD)), func(i int) {
		c := chunksD[i]
		if r.OverBudget(120*time.Second, 10*time.Minute) {
			r.CapHit("leg D time budget")
			return
		}
		env := seedEnv(c.mode)
		if env == nil {
			return
		}
		defer env.Close()
		for _, raw := range stringsA {
			if strings.ContainsAny(raw, "\r\n") {
				continue
			}
			evals.Add(1)
			value := strings.TrimSpace(raw) // OWS around an HTTP field value is not part of the value
			if value != "" {
				distinct.Add(1)
			}
			sig := fmt.Sprintf("leg=D mode=%s ob=%d dst=%v host-field=%q", c.mode, c.ob, c.dst, raw)
			var sniffed, target string
			var dialIp bool
			if p, msg := vlib.Try(func() {
				sn := sniffing.NewPacketSniffer([]byte("GET / HTTP/1.1\r\nHost: "+raw+"\r\nAccept: */*\r\n\r\n"), time.Minute)
				d, err := sn.SniffTcp()
				_ = sn.Close()
				if err != nil {
					d = "" // handleConn: a sniffing error means no name
				}
				sniffed = d
				target, _, dialIp = env.Choose(c.ob, c.dst, d)
			}); p {
				r.Violation(sig+" panic at "+vlib.PanicSite(msg), msg)
				continue
			}
			if sniffed == "" {
				cSniffEmpty.Add(1)
			} else {
				cSniffed.Add(1)
			}
			// Readings of "the sniffed value" that the statement allows here: the field value as written; the same
			// DNS name in normalised spelling (lower case, no trailing dot: "1.2.3.4." is the literal 1.2.3.4); and,
			// only when the written value is outside the classes the statement speaks about (not a name, not a
			// literal, not host:valid-port — e.g. "name:" or "[name]"), the clean value the sniffer extracted from it.
			cands := []string{value}
			if cv := canon(value); cv != value && classify(value).cls == clsName {
				cands = append(cands, cv)
			}
			if classify(value).cls == clsGarbage && sniffed != "" && classify(sniffed).cls != clsGarbage {
				cands = append(cands, sniffed)
			}
			firstWhy := ""
			for k, cand := range cands {
				w := wantFor(c.mode, builtin(c.ob), c.dst.Addr(), cand)
				if w == wantName && classify(cand).cls == clsName && canon(cand) == "" {
					w = wantEither // "." and the like: an empty name after normalisation is "no name"
				}
				why := judgeW(w, c.mode, c.dst, cand, target, dialIp)
				if why == "" {
					firstWhy = ""
					break
				}
				if k == 0 {
					firstWhy = why
				}
			}
			if firstWhy != "" && lim.ok("D-target|"+c.mode, 4) {
				r.Violation(sig+fmt.Sprintf(" sniffer-output=%q got=%q dialIp=%v: %s", sniffed, target, dialIp, firstWhy),
					map[string]any{"mode": c.mode, "outbound": c.ob, "dst": c.dst.String(), "host_field": raw, "sniffer_output": sniffed, "target": target, "dialIp": dialIp, "why": firstWhy})
			}
			outcomeKinds.Store(fmt.Sprintf("D|%s|builtin=%v|%s|sniffedEmpty=%v|tgtIsIP=%v", c.mode, builtin(c.ob), clsNames[classify(value).cls], sniffed == "", checkIPTarget(c.dst, target, true) == ""), true)
		}
	})

	// ---------------- leg E: histories with reloads ----------------
	// Every sequence of length <= maxHist over {S = names get resolved through dae / probed, Rr = reload that
	// replays the cloned DNS cache into a fresh controller, Ru = reload that reuses the controller's store},
	// then the named strings through ChooseDialTarget of the LAST generation.
	maxHist := 3
	if r.Thorough() {
		maxHist = 4
	}
	var histories [][]string
	var recH func(cur []string)
	recH = func(cur []string) {
		if len(cur) > 0 {
			histories = append(histories, append([]string(nil), cur...))
		}
		if len(cur) == maxHist {
			return
		}
		for _, op := range []string{"S", "Rr", "Ru"} {
			recH(append(cur, op))
		}
	}
	recH(nil)
	type chunkE struct {
		mode string
		ob   uint8
		dst  netip.AddrPort
		h    []string
	}
	var chunksE []chunkE
	for _, m := range modes {
		for _, o := range []uint8{2, 0xFB, 0} {
			for _, d := range dsts {
				for _, h := range histories {
					chunksE = append(chunksE, chunkE{m, o, netip.AddrPortFrom(d.addr, 443), h})
				}
			}
		}
	}
	r.Set("cells_leg_E", len(chunksE))
	r.Set("histories_leg_E", len(histories))
	cReloads := r.Counter("legE_reloads_performed")
	cKnownAfterReload := r.Counter("legE_name_dialled_because_resolved_before_a_reload")
	r.ParallelFor(legN("E", len(chunksE)), func(i int) {
		c := chunksE[i]
		if r.OverBudget(130*time.Second, 11*time.Minute) {
			r.CapHit("leg E time budget")
			return
		}
		env, err := control.VerifC18NewEnv(c.mode, conf, []string{"g1", "g2"})
		if err != nil {
			r.Violation("harness: environment build failed: "+err.Error(), err.Error())
			return
		}
		h := hist{}
		reloaded := false
		hs := strings.Join(c.h, ",")
		for _, op := range c.h {
			switch op {
			case "S":
				if err := seed(env); err != nil {
					r.Violation("harness/production insert path failed: "+err.Error(), err.Error())
					env.Close()
					return
				}
				h.dns, h.ver = true, 2
			default:
				how := "restore"
				if op == "Ru" {
					how = "reuse"
				}
				var ne *control.VerifC18Env
				var rerr error
				if p, msg := vlib.Try(func() { ne, rerr = env.Reload(c.mode, conf, []string{"g1", "g2"}, how) }); p {
					r.Violation(fmt.Sprintf("leg=E history=%s panic in reload (%s) at %s", hs, how, vlib.PanicSite(msg)), msg)
					return
				}
				if rerr != nil {
					r.Violation(fmt.Sprintf("leg=E history=%s reload (%s) failed: %v", hs, how, rerr), rerr.Error())
					env.Close()
					return
				}
				env = ne
				cReloads.Add(1)
				reloaded = true
				if h.ver == 2 {
					h.ver = 1
				}
			}
		}
		defer env.Close()
		for _, s := range namedSet {
			evals.Add(1)
			if s != "" {
				distinct.Add(1)
			}
			var target string
			var dialIp bool
			if p, msg := vlib.Try(func() { target, _, dialIp = env.Choose(c.ob, c.dst, s) }); p {
				r.Violation(fmt.Sprintf("leg=E history=%s mode=%s ob=%d dst=%v sniffed=%q panic at %s", hs, c.mode, c.ob, c.dst, s, vlib.PanicSite(msg)), msg)
				continue
			}
			w := wantForH(c.mode, builtin(c.ob), c.dst.Addr(), s, h)
			if why := judgeW(w, c.mode, c.dst, s, target, dialIp); why != "" && lim.ok("E-target|"+c.mode, 6) {
				r.Violation(fmt.Sprintf("leg=E history=%s mode=%s ob=%d dst=%v sniffed=%q got=%q dialIp=%v: %s", hs, c.mode, c.ob, c.dst, s, target, dialIp, why),
					map[string]any{"history": c.h, "mode": c.mode, "outbound": c.ob, "dst": c.dst.String(), "sniffed": s, "target": target, "dialIp": dialIp, "why": why})
			} else if why == "" && w == wantName && c.mode == "domain" && reloaded && c.h[len(c.h)-1] != "S" {
				cKnownAfterReload.Add(1)
			}
			outcomeKinds.Store(fmt.Sprintf("E|%s|%s|builtin=%v|want=%d|tgtIsIP=%v", hs, c.mode, builtin(c.ob), w, checkIPTarget(c.dst, target, true) == ""), true)
		}
	})

	// ---------------- leg F: histories with TIME (virtual clock) ----------------
	// control/dns_control.go, dns_cache.go and dns_control_optimistic.go are compiled with their clock, locks,
	// goroutines and timers on the virtual clock of vsched (check.json "instrument"); each history runs inside one
	// vsched.Run, where vtime.Sleep advances the clock (firing the controller's janitor/evictor tickers in order).
	// Ops: resolve the name through dae with TTL short/long under a scoped/bare response key, advance the clock by
	// one of three steps (to 1 ms before the short TTL would end, 2 ms more, 55 s), reload (replay / reuse).
	// Reference: the name is known at time t iff some resolution through dae has not expired at t (max over resolutions).
	const (
		ttlShort  = 10
		ttlLong   = 60
		timedName = "timed.example"
	)
	type opF struct {
		kind   string // "res", "adv", "Rr", "Ru"
		ttl    uint32
		scoped bool
		d      time.Duration
	}
	opsF := []opF{
		{kind: "res", ttl: ttlShort, scoped: true}, {kind: "res", ttl: ttlLong, scoped: true},
		{kind: "res", ttl: ttlShort, scoped: false}, {kind: "res", ttl: ttlLong, scoped: false},
		{kind: "adv", d: ttlShort*time.Second - time.Millisecond}, {kind: "adv", d: 2 * time.Millisecond}, {kind: "adv", d: 55 * time.Second},
		{kind: "Rr"}, {kind: "Ru"},
	}
	opName := func(o opF) string {
		switch o.kind {
		case "res":
			k := "bare"
			if o.scoped {
				k = "scoped"
			}
			return fmt.Sprintf("resolve(ttl=%ds,%s)", o.ttl, k)
		case "adv":
			return "+" + o.d.String()
		}
		return o.kind
	}
	maxF := 3
	if r.Thorough() {
		maxF = 4
	}
	var historiesF [][]opF
	var recF func(cur []opF)
	recF = func(cur []opF) {
		if len(cur) > 0 {
			historiesF = append(historiesF, append([]opF(nil), cur...))
		}
		if len(cur) == maxF {
			return
		}
		for _, o := range opsF {
			recF(append(cur, o))
		}
	}
	recF(nil)
	r.Set("histories_leg_F", len(historiesF))
	cKnownT := r.Counter("legF_known_at_query_time")
	cExpiredT := r.Counter("legF_resolved_but_expired_at_query_time")
	cRefreshWindow := r.Counter("legF_known_only_by_a_later_resolution")
	timedSniffs := []string{timedName, "Timed.Example.", "other.example"}
	timedDsts := []netip.AddrPort{netip.AddrPortFrom(dsts[0].addr, 443), netip.AddrPortFrom(dsts[1].addr, 443)}
	for hi, hF := range historiesF[:legN("F", len(historiesF))] {
		if r.OverBudget(150*time.Second, 12*time.Minute) {
			r.CapHit("leg F time budget")
			break
		}
		var names []string
		for _, o := range hF {
			names = append(names, opName(o))
		}
		hs := strings.Join(names, " ; ")
		type obsF struct {
			dst             netip.AddrPort
			s, target       string
			reroute, dialIp bool
		}
		var got []obsF
		var expiries []int64 // reference: end of validity of every resolution (virtual ns)
		var tQuery int64
		harnessErr := ""
		res := vsched.Run(func() {
			env, err := control.VerifC18NewEnv("domain", conf, []string{"g1", "g2"})
			if err != nil {
				harnessErr = err.Error()
				return
			}
			for _, o := range hF {
				switch o.kind {
				case "res":
					now := vtime.Now().UnixNano()
					if err := env.LearnDNS(timedName, typeA, []string{"198.51.100.20"}, o.ttl, o.scoped); err != nil {
						harnessErr = err.Error()
					}
					if err := env.LearnDNS(timedName, typeAAAA, []string{"2001:db8::20"}, o.ttl, o.scoped); err != nil {
						harnessErr = err.Error()
					}
					expiries = append(expiries, now+int64(o.ttl)*int64(time.Second))
				case "adv":
					vtime.Sleep(o.d)
				default:
					how := "restore"
					if o.kind == "Ru" {
						how = "reuse"
					}
					ne, err := env.Reload("domain", conf, []string{"g1", "g2"}, how)
					if err != nil {
						harnessErr = err.Error()
						env.Close()
						return
					}
					env = ne
				}
				vsched.Quiesce()
			}
			tQuery = vtime.Now().UnixNano()
			for _, d := range timedDsts {
				for _, sn := range timedSniffs {
					t, rr, di := env.Choose(2, d, sn)
					got = append(got, obsF{d, sn, t, rr, di})
				}
			}
			env.Close()
		}, vsched.Options{MaxSteps: 1 << 22, HorizonNs: int64(2 * time.Hour)})
		if harnessErr != "" {
			r.Violation("harness: leg F: "+harnessErr+" in history "+hs, nil)
			continue
		}
		switch res.Status {
		case vsched.StPanic:
			r.Violation(fmt.Sprintf("leg=F history=[%s] panic at %s", hs, vlib.PanicSite(res.PanicMsg)), res.PanicMsg)
			continue
		case vsched.StHorizon, vsched.StDiverged:
			fmt.Fprintf(os.Stderr, "C18: leg F execution did not finish (status %d) for [%s]\n", res.Status, hs)
			os.Exit(2)
		}
		known, knownByLater := false, false
		for k, e := range expiries {
			if e > tQuery {
				known = true
				if k > 0 && expiries[0] <= tQuery {
					knownByLater = true
				}
			}
		}
		if known {
			cKnownT.Add(1)
			if knownByLater {
				cRefreshWindow.Add(1)
			}
		} else if len(expiries) > 0 {
			cExpiredT.Add(1)
		}
		for _, g := range got {
			evals.Add(1)
			distinct.Add(1)
			w := wantIP
			if known && canon(g.s) == timedName {
				w = wantName
				if g.s != timedName {
					w = wantEither
				}
			}
			if why := judgeW(w, "domain", g.dst, g.s, g.target, g.dialIp); why != "" && lim.ok("F-target", 6) {
				r.Violation(fmt.Sprintf("leg=F history=[%s] query at +%v mode=domain ob=2 dst=%v sniffed=%q got=%q dialIp=%v: %s", hs, time.Duration(tQuery-1_700_000_000_000_000_000), g.dst, g.s, g.target, g.dialIp, why),
					map[string]any{"history": names, "query_at_ns": tQuery, "resolution_expiries_ns": expiries, "dst": g.dst.String(), "sniffed": g.s, "target": g.target, "why": why})
			}
			outcomeKinds.Store(fmt.Sprintf("F|known=%v|later=%v|%s|tgtIsIP=%v", known, knownByLater, g.s, checkIPTarget(g.dst, g.target, true) == ""), true)
		}
		_ = hi
	}

	// ---------------- leg G: histories of upstream response SHAPES ----------------
	// Every sequence of length <= maxG over {A, AAAA} x respShapes x {scoped key, bare key} is handed to
	// NormalizeAndCacheDnsResp_ (the function dialSend gives every upstream message to) on a fresh control plane;
	// then the name, a case/trailing-dot variant, the name with a port and another name are dialled in domain mode
	// (ChooseDialTarget with a user outbound and a built-in one, routeDial) on the three destination kinds.
	// Reference, per family: 2 (resolved) iff the LAST message of that family resolved the name; 1 (open) if an
	// earlier one did or some NOERROR answer without an address was seen; 0 otherwise — error rcodes and
	// non-responses never make a name "resolved through dae". Histories of length <= 1 also run the other 3 modes.
	const gName = "resp.example"
	type opG struct {
		qtype  uint16
		shape  respShape
		scoped bool
	}
	var opsG []opG
	for _, qt := range []uint16{typeA, typeAAAA} {
		for _, sh := range respShapes {
			for _, sc := range []bool{true, false} {
				opsG = append(opsG, opG{qt, sh, sc})
			}
		}
	}
	opGName := func(o opG) string {
		f, k := "A", "bare"
		if o.qtype == typeAAAA {
			f = "AAAA"
		}
		if o.scoped {
			k = "scoped"
		}
		return f + ":" + o.shape.name + "/" + k
	}
	maxG := 2
	if r.Thorough() {
		maxG = 3
	}
	var historiesG [][]opG
	var recG func(cur []opG)
	recG = func(cur []opG) {
		historiesG = append(historiesG, append([]opG(nil), cur...)) // the empty history is the base line: nothing known
		if len(cur) == maxG {
			return
		}
		for _, o := range opsG {
			recG(append(cur, o))
		}
	}
	recG(nil)
	type chunkG struct {
		mode string
		h    []opG
	}
	var chunksG []chunkG
	for _, h := range historiesG {
		chunksG = append(chunksG, chunkG{"domain", h})
		if len(h) <= 1 {
			for _, m := range []string{"ip", "domain+", "domain++"} {
				chunksG = append(chunksG, chunkG{m, h})
			}
		}
	}
	r.Set("ops_leg_G", len(opsG))
	r.Set("histories_leg_G", len(historiesG))
	r.Set("cells_leg_G", len(chunksG))
	cGKnown := r.Counter("legG_histories_name_resolved_for_some_family")
	cGNeg := r.Counter("legG_histories_with_only_non_resolving_messages")
	cGNegIP := r.Counter("legG_domain_mode_kept_ip_after_only_non_resolving_messages")
	cGName := r.Counter("legG_domain_mode_dialled_by_name_after_a_resolving_answer")
	sniffsG := []string{gName, "Resp.Example.", gName + ":443", "other.example"}
	r.ParallelFor(legN("G", len(chunksG)), func(i int) {
		c := chunksG[i]
		if r.OverBudget(160*time.Second, 14*time.Minute) {
			r.CapHit("leg G time budget")
			return
		}
		var names []string
		for _, o := range c.h {
			names = append(names, opGName(o))
		}
		hs := strings.Join(names, " ; ")
		env, err := control.VerifC18NewEnv(c.mode, conf, []string{"g1", "g2"})
		if err != nil {
			r.Violation("harness: environment build failed: "+err.Error(), err.Error())
			return
		}
		defer env.Close()
		// reference knowledge per family
		lv := map[uint16]int{}
		onlyNeg := len(c.h) > 0
		for _, o := range c.h {
			switch o.shape.cls {
			case 2:
				lv[o.qtype] = 2
			default:
				if lv[o.qtype] == 2 || o.shape.cls == 1 {
					lv[o.qtype] = 1
				}
			}
			if o.shape.cls != 0 {
				onlyNeg = false
			}
			failed := false
			if p, msg := vlib.Try(func() {
				if err := env.LearnDNSResp(gName, o.qtype, o.shape.mk(o.qtype, o.scoped)); err != nil {
					r.Violation(fmt.Sprintf("leg=G history=[%s]: NormalizeAndCacheDnsResp_ failed: %v", hs, err), err.Error())
					failed = true
				}
			}); p {
				r.Violation(fmt.Sprintf("leg=G history=[%s] panic in NormalizeAndCacheDnsResp_ at %s", hs, vlib.PanicSite(msg)), msg)
				return
			}
			if failed {
				return
			}
		}
		if c.mode == "domain" {
			if lv[typeA] == 2 || lv[typeAAAA] == 2 {
				cGKnown.Add(1)
			}
			if onlyNeg {
				cGNeg.Add(1)
			}
		}
		a, aaaa := lv[typeA], lv[typeAAAA]
		for _, d := range dsts {
			dst := netip.AddrPortFrom(d.addr, 443)
			know := func(cn string) int {
				if cn != gName {
					return 0
				}
				switch {
				case a == 2 && aaaa == 2, dst.Addr().Is4() && a == 2, dst.Addr().Is6() && !dst.Addr().Is4In6() && aaaa == 2:
					return 2
				case a > 0 || aaaa > 0:
					return 1
				}
				return 0
			}
			for _, s := range sniffsG {
				for _, via := range []string{"choose/2", "choose/0", "routeDial/3"} {
					evals.Add(1)
					distinct.Add(1)
					sig := fmt.Sprintf("leg=G history=[%s] mode=%s via=%s dst=%v sniffed=%q", hs, c.mode, via, dst, s)
					var target string
					var dialIp, isBuiltin bool
					switch via {
					case "routeDial/3":
						var o control.VerifC18Obs
						if p, msg := vlib.Try(func() { o = env.RouteDial(3, d.src, dst, s) }); p {
							r.Violation(sig+" panic at "+vlib.PanicSite(msg), msg)
							continue
						}
						if o.Err != "" || o.NilResult || len(o.Dials) != 1 || o.Dials[0].Addr != o.DialTarget {
							if lim.ok("G-dial", 4) {
								r.Violation(sig+fmt.Sprintf(": dial path failed or the node dialer got something else than the chosen target: err=%q dials=%v target=%q", o.Err, o.Dials, o.DialTarget), o)
							}
							continue
						}
						target, dialIp = o.DialTarget, o.IsDialIp
						isBuiltin = o.FinalGroup == "direct" || o.FinalGroup == "block"
					default:
						ob := uint8(2)
						if via == "choose/0" {
							ob = 0
						}
						isBuiltin = builtin(ob)
						if p, msg := vlib.Try(func() { target, _, dialIp = env.Choose(ob, dst, s) }); p {
							r.Violation(sig+" panic at "+vlib.PanicSite(msg), msg)
							continue
						}
					}
					w := wantCore(c.mode, isBuiltin, s, know)
					why := judgeW(w, c.mode, dst, s, target, dialIp)
					if why != "" && lim.ok("G-target|"+c.mode, 6) {
						r.Violation(sig+fmt.Sprintf(" got=%q dialIp=%v: %s", target, dialIp, why),
							map[string]any{"history": names, "mode": c.mode, "via": via, "dst": dst.String(), "sniffed": s, "target": target, "dialIp": dialIp,
								"reference_knowledge_A": a, "reference_knowledge_AAAA": aaaa, "why": why})
					}
					if why == "" && c.mode == "domain" && !isBuiltin && s == gName {
						if onlyNeg {
							cGNegIP.Add(1)
						} else if w == wantName {
							cGName.Add(1)
						}
					}
					outcomeKinds.Store(fmt.Sprintf("G|%s|%s|a=%d|aaaa=%d|%s|%s|tgtIsIP=%v", c.mode, via, a, aaaa, d.name, clsNames[classify(s).cls], checkIPTarget(dst, target, true) == ""), true)
				}
			}
		}
	})

	// ---------------- leg H: every string twice, background verification run to completion in between ----------------
	// control/control_plane.go is compiled with its goroutines, locks and clock on the deterministic scheduler
	// (check.json "instrument"), so the probe that ChooseDialTarget starts in the background (triggerRealDomainProbe ->
	// go probeAndUpdateRealDomain) is a managed thread and vsched.Quiesce() returns exactly when it has finished —
	// also when none was started. Per (mode, outbound, destination kind): flow 1, settle, flow 2 for every leg-A
	// string and for 9 fresh names (one per per-family probe outcome). The resolver seam hands a host that is an IP
	// literal to the real netutils.ResolveIp46 (which answers a literal with itself, no network), so a literal that
	// slips through the literal guards gets "verified" here exactly as it would in production.
	// Reference: the table; a second flow differs from the first only for a name whose probe found an address.
	type chunkH struct {
		mode string
		ob   uint8
		d    dstKind
		strs []string
		part int
	}
	const chunkLenH = 2048
	var chunksH []chunkH
	for _, m := range modes {
		for _, o := range []uint8{2, 0xFB, 0} {
			for _, d := range dsts {
				for k, part := 0, 0; k < len(stringsA); k, part = k+chunkLenH, part+1 {
					e := k + chunkLenH
					if e > len(stringsA) {
						e = len(stringsA)
					}
					chunksH = append(chunksH, chunkH{m, o, d, stringsA[k:e], part})
				}
			}
		}
	}
	r.Set("cells_leg_H", len(chunksH))
	cHProbeName := r.Counter("legH_flow2_dialled_by_name_after_successful_probe")
	cHProbeIP := r.Counter("legH_flow2_kept_ip_after_probe_without_address")
	cHLiteral := r.Counter("legH_ip_literal_strings_dialled_twice")
	cHSame := r.Counter("legH_flow2_equal_to_flow1")
	totalBefore, literalBefore := control.VerifC18ProbeResolverTotals()
	type obsH struct {
		s              string
		fresh          bool
		outcome        [2]uint8
		t1, t2         string
		rr1, rr2       bool
		ip1, ip2       bool
		panic1, panic2 string
	}
	for ci, c := range chunksH[:legN("H", len(chunksH))] {
		if r.OverBudget(175*time.Second, 17*time.Minute) {
			r.CapHit("leg H time budget")
			break
		}
		dst := netip.AddrPortFrom(c.d.addr, 443)
		cellKey := fmt.Sprintf("H|%s|%d|%s|%d", c.mode, c.ob, c.d.name, c.part)
		if _, dup := cells.LoadOrStore(cellKey, true); dup {
			r.Violation("harness: duplicate cell "+cellKey, nil)
			continue
		}
		var todo []obsH
		for _, s := range c.strs {
			todo = append(todo, obsH{s: s})
		}
		if c.part == 0 {
			for _, x := range outcomeLetters {
				for _, y := range outcomeLetters {
					n := fmt.Sprintf("c%c%c-h%d.example", x, y, ci)
					oc, _ := dynamicProbeAnswer(n)
					todo = append(todo, obsH{s: n, fresh: true, outcome: oc})
				}
			}
		}
		envFailed := false
		cur := ""
		res := vsched.Run(func() {
			env := seedEnv(c.mode)
			if env == nil {
				envFailed = true
				return
			}
			vsched.Quiesce()
			for k := range todo {
				o := &todo[k]
				cur = o.s
				if p, msg := vlib.Try(func() { o.t1, o.rr1, o.ip1 = env.Choose(c.ob, dst, o.s) }); p {
					o.panic1 = msg
					continue
				}
				vsched.Quiesce() // the background probe, if the code started one, runs to its end here
				if p, msg := vlib.Try(func() { o.t2, o.rr2, o.ip2 = env.Choose(c.ob, dst, o.s) }); p {
					o.panic2 = msg
				}
				vsched.Quiesce()
			}
			cur = "(closing)"
			env.Close()
		}, vsched.Options{MaxSteps: 1 << 24, HorizonNs: int64(2 * time.Hour)})
		if envFailed {
			continue
		}
		switch res.Status {
		case vsched.StPanic:
			r.Violation(fmt.Sprintf("leg=H mode=%s ob=%d dst=%v panic in a background thread while dialling %q at %s", c.mode, c.ob, dst, cur, vlib.PanicSite(res.PanicMsg)), res.PanicMsg)
			continue
		case vsched.StHorizon, vsched.StDiverged:
			fmt.Fprintf(os.Stderr, "C18: leg H execution did not finish (status %d) in cell %s at %q\n", res.Status, cellKey, cur)
			os.Exit(2)
		}
		for k := range todo {
			o := &todo[k]
			evals.Add(2)
			if o.s != "" {
				distinct.Add(2)
			}
			sig := fmt.Sprintf("leg=H mode=%s ob=%d dst=%v sniffed=%q", c.mode, c.ob, dst, o.s)
			if o.panic1 != "" || o.panic2 != "" {
				r.Violation(sig+" panic at "+vlib.PanicSite(o.panic1+o.panic2), o.panic1+o.panic2)
				continue
			}
			w1 := wantFor(c.mode, builtin(c.ob), dst.Addr(), o.s)
			if why := judgeW(w1, c.mode, dst, o.s, o.t1, o.ip1); why != "" && lim.ok("H-flow1|"+c.mode, 4) {
				r.Violation(sig+fmt.Sprintf(" flow=1 got=%q dialIp=%v: %s", o.t1, o.ip1, why),
					map[string]any{"mode": c.mode, "outbound": c.ob, "dst": dst.String(), "sniffed": o.s, "flow1": o.t1, "why": why})
			}
			w2 := w1
			probedFresh := o.fresh && c.mode == "domain" && !builtin(c.ob)
			if probedFresh && probeFindsAddress(o.outcome) {
				w2 = wantName
			}
			why := judgeW(w2, c.mode, dst, o.s, o.t2, o.ip2)
			if why != "" && lim.ok("H-flow2|"+c.mode, 6) {
				r.Violation(sig+fmt.Sprintf(" flow=2 (same value again, after the background verification the first flow started has finished) got=%q dialIp=%v (flow 1 got %q): %s", o.t2, o.ip2, o.t1, why),
					map[string]any{"mode": c.mode, "outbound": c.ob, "dst": dst.String(), "sniffed": o.s, "flow1": o.t1, "flow2": o.t2, "reroute2": o.rr2, "dialIp2": o.ip2, "why": why})
			}
			if c.mode == "domain++" && !builtin(c.ob) && o.s != "" && !o.rr2 && lim.ok("H-reroute", 4) {
				r.Violation(sig+" flow=2: domain++ must ask for the flow to be routed again, shouldReroute=false", nil)
			}
			if why == "" {
				if probedFresh {
					if probeFindsAddress(o.outcome) {
						cHProbeName.Add(1)
					} else {
						cHProbeIP.Add(1)
					}
				}
				if o.t1 == o.t2 {
					cHSame.Add(1)
				}
				if cl := classify(o.s).cls; cl == clsIPLit || cl == clsIPPort {
					cHLiteral.Add(1)
				}
			}
			outcomeKinds.Store(fmt.Sprintf("H|%s|builtin=%v|%s|fresh=%v|t1IsIP=%v|t2IsIP=%v", c.mode, builtin(c.ob), clsNames[classify(o.s).cls], o.fresh, checkIPTarget(dst, o.t1, true) == "", checkIPTarget(dst, o.t2, true) == ""), true)
		}
	}
	totalAfter, literalAfter := control.VerifC18ProbeResolverTotals()
	r.Set("legH_background_probes_that_reached_the_resolver", totalAfter-totalBefore)
	r.Set("obs_legH_probes_asked_about_an_ip_literal", literalAfter-literalBefore)

	nk := 0
	outcomeKinds.Range(func(_, _ any) bool { nk++; return true })
	r.Set("distinct_outcome_kinds", nk)
	shortest := func(m *sync.Map, n int) []string {
		var ks []string
		m.Range(func(k, _ any) bool { ks = append(ks, k.(string)); return true })
		sort.Slice(ks, func(i, j int) bool {
			if len(ks[i]) != len(ks[j]) {
				return len(ks[i]) < len(ks[j])
			}
			return ks[i] < ks[j]
		})
		if len(ks) > n {
			ks = ks[:n]
		}
		return ks
	}
	r.Set("obs_sniffed_values_giving_malformed_target", shortest(obsMalformed, 8))
	r.Set("obs_sniffed_values_with_ip_host_and_dialIp_false", shortest(obsFlag, 8))

	r.Assume("names become known only through DnsController.NormalizeAndCacheDnsResp_ (answer learned by the DNS path) and ControlPlane.probeAndUpdateRealDomain (verification probe); the probe's network resolver is replaced through the package variable resolveIp46ForRealDomainProbe by a table, and realDomainNegativeCacheTTL (10 s) is lengthened so a negative entry outlives the run")
	r.Assume("the statement demands re-routing only for domain++; it does not forbid it elsewhere, so a re-route in another mode (the code does it in domain mode for a known name) is counted (obs_domain_mode_known_name_rerouted) and the resulting group must then equal the reference route of that name, but it is not a violation")
	r.Assume("'verified' is read as: the verification probe found an address for the name on at least one family. The resolver stub returns every per-family combination {address, no record, error} x {address, no record, error}; address on one family + error or no record on the other counts as verified (an address was found); no address at all (both empty, both failed, or the half-failed mixes error+no record) is NOT verified and must give the destination IP in domain mode — both for names probed up front and for the sequence flow 1 -> background probe -> flow 2 (leg C)")
	r.Assume("leg C waits for the background probe by polling the stub's call counter and joining the probe's singleflight slot; the wall clock is used for that synchronisation only (a probe that never shows up within 60 s leaves flow 2 unjudged and clears 'exhaustive')")
	r.Assume("leg D feeds the value as the Host field of an HTTP request through sniffing.Sniffer.SniffTcp (packet sniffer, i.e. the whole request is available at once; sniffGroup -> NormalizeDomain) and treats a sniffing error as 'no name' like handleConn does; the reference is applied to the field value as the client wrote it (surrounding white space removed); a value that is empty after removing the trailing dot counts as 'no name or that name'")
	r.Assume("leg E: a reload is a new ControlPlane literal (fresh real-domain set and negative cache) whose DNS state is carried over either by cloneDnsCache + replayDnsReloadCache (RestoreReloadCache into a fresh DnsController) or by DnsController.ReuseForReload (shared store). Names resolved through dae before a reload remain 'resolved through dae' (dae keeps answering them from the carried cache): strict. Names only verified by the probe before a reload: open (both outcomes accepted)")
	r.Assume("leg G: 'resolved through dae' is read per address family from the messages handed to NormalizeAndCacheDnsResp_: a response (QR set) with rcode NOERROR carrying an address of the queried type for the name, directly or behind a CNAME, resolves it; an error rcode (NXDOMAIN with/without SOA or CNAME, SERVFAIL, REFUSED) or a message with the QR bit clear never does (strict: domain mode must keep the destination IP when nothing else is known); a NOERROR answer without an address (NODATA, CNAME only) and a resolving answer followed later by a non-resolving one for the same family are open (both outcomes accepted). Error-rcode messages that nevertheless carry address records are not in the alphabet")
	r.Assume("leg H: control/control_plane.go and dns_runtime.go are compiled onto vsched too, so the goroutine triggerRealDomainProbe starts is a managed thread and vsched.Quiesce() is an exact join (no polling, no wall clock). The resolver seam answers table names from the table, unknown names with an error on both families, and a host that parses as an IP literal by calling the real netutils.ResolveIp46 (its literal fast path returns the literal itself without touching the network) — the seam must not be kinder to the code than production is. The reference for flow 2 equals flow 1 except for a fresh name whose probe found an address; an IP literal is never a name known to be genuine")
	r.Assume("leg F: control/dns_control.go, dns_cache.go, dns_control_optimistic.go, control_plane.go and dns_runtime.go run on the virtual clock of vsched (overlay instrumentation), so the DNS knowledge and the real-domain negative cache read the same virtual clock. 'Resolved through dae' at time t = some answer for the name learned through NormalizeAndCacheDnsResp_ whose TTL has not run out at t (maximum over all resolutions, across reloads); no wall-clock reading enters the reference")
	r.Assume("cells the statement leaves open accept both outcomes and are counted separately: case/trailing-dot variants of a known name, a known name that already carries a port, a name known only for the other address family or only by an empty (NODATA) answer — all in domain mode")
	r.Assume("well-formedness of the target is demanded for sniffed values that are host names, IP literals (bare/bracketed) or host:port with a valid port; for other strings ('[', 'a]', 'a:', ':1' ...) only absence of panic and the IP cells are checked, malformed results are counted in obs_garbage_sniff_gives_malformed_target")
	r.Assume("dialIp must be true when the target is the destination IP or a normalised bare/bracketed IP literal and false for a host name; for an IP literal that already carries a port the statement says nothing about the flag: counted in obs_ip_literal_with_port_dialIp_false")
	r.Assume("the original destination is compared as an address (v4-mapped and plain v4 forms of the same address are the same destination)")
	r.Assume("leg B covers the TCP path up to the string handed to the node dialer and chooseProxyDialer for udp; the UDP datagram path of udp.go deliberately keeps the destination IP as target whatever chooseProxyDialer returns and is not driven here (needs sockets)")
	r.Assume("re-routing is observed through a recording wrapper of the routing.DomainMatcher interface inside the real RoutingMatcher; whether the matcher folds case, trailing dots or ports of the name is not judged here (C11)")
	r.Finish()
}

func keys(m map[string]bool) []string {
	var out []string
	for k := range m {
		out = append(out, k)
	}
	sort.Strings(out)
	return out
}
