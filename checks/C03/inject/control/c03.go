//go:build verif

// C03 harness inside package control: the Go half of the kernel -> control-plane hand-over, built only from the
// production pieces (bpfTuplesKeyFromAddrPorts, bpfConnState / bpfRoutingHandoffEntry, routingResultFromConnState,
// routingHandoffExpired, outboundConnectivityMapKey, buildDomainRoutingOwnerSnapshot, bpfDaeParam).
package control

import (
	"encoding/binary"
	stderrors "errors"
	"fmt"
	"net"
	"net/netip"
	"unsafe"

	"github.com/cilium/ebpf"
	"github.com/cilium/ebpf/rlimit"
	"golang.org/x/sys/unix"

	"github.com/daeuniverse/dae/common"
	"github.com/daeuniverse/dae/common/consts"
	"github.com/daeuniverse/dae/component/outbound/dialer"
	dnsmessage "github.com/miekg/dns"
)

func verifC03Bytes[T any](v *T) []byte {
	return append([]byte(nil), unsafe.Slice((*byte)(unsafe.Pointer(v)), unsafe.Sizeof(*v))...)
}

// VerifC03TuplesKey = bytes of bpfTuplesKeyFromAddrPorts(src, dst, l4proto): the key RetrieveRoutingResult looks up.
func VerifC03TuplesKey(src, dst netip.AddrPort, l4proto uint8) []byte {
	k := bpfTuplesKeyFromAddrPorts(src, dst, l4proto)
	return verifC03Bytes(&k)
}

// VerifC03Result is what the control plane recovers for a flow (the fields of bpfRoutingResult).
type VerifC03Result struct {
	Outbound uint8
	Mark     uint32
	Must     uint8
	Dscp     uint8
	Mac      [6]uint8
	Pid      uint32
	Pname    [16]uint8
	From     string // "conn_state_map" or "routing_handoff_map"
}

func verifC03FromRR(rr bpfRoutingResult, from string) VerifC03Result {
	return VerifC03Result{Outbound: rr.Outbound, Mark: rr.Mark, Must: rr.Must, Dscp: rr.Dscp, Mac: rr.Mac, Pid: rr.Pid, Pname: rr.Pname, From: from}
}

// VerifC03Mirror lets the REAL controlPlaneCore.RetrieveRoutingResult run on the bytes the kernel program wrote:
// two real BPF hash maps (same key/value sizes as the C maps) stand in for conn_state_map and routing_handoff_map of
// a controlPlaneCore; Load copies the entries kdrv holds into them verbatim (only the hand-over stamp is moved from
// the virtual clock onto CLOCK_MONOTONIC, keeping its age), Retrieve is the production call, side effects included
// (an entry the control plane deletes is gone for the next Retrieve until the next Load).
type VerifC03Mirror struct {
	core    *controlPlaneCore
	conn    *ebpf.Map
	handoff *ebpf.Map
	valSize [2]int
	loaded  [2]map[string]struct{}
}

func VerifC03NewMirror(keySize, connValueSize, handoffValueSize uint32) (*VerifC03Mirror, error) {
	if err := rlimit.RemoveMemlock(); err != nil {
		return nil, fmt.Errorf("RemoveMemlock: %w", err)
	}
	mk := func(name string, vs uint32) (*ebpf.Map, error) {
		return ebpf.NewMap(&ebpf.MapSpec{Name: name, Type: ebpf.Hash, KeySize: keySize, ValueSize: vs, MaxEntries: 1024, Flags: unix.BPF_F_NO_PREALLOC})
	}
	// The value size of a stand-in map is what cilium/ebpf marshals for the Go struct (encoding/binary size). bpf2go
	// output pads explicitly so that this equals the C sizeof; the stand-in structs of this tree leave the C tail
	// padding implicit, so the kernel's value may be longer by that padding (< 8 bytes), never shorter.
	goConn, goHandoff := binary.Size(bpfConnState{}), binary.Size(bpfRoutingHandoffEntry{})
	if goConn <= 0 || goHandoff <= 0 || goConn > int(connValueSize) || int(connValueSize)-goConn >= 8 || goHandoff > int(handoffValueSize) || int(handoffValueSize)-goHandoff >= 8 {
		return nil, fmt.Errorf("Go structs do not fit the C values: bpfConnState %d vs %d, bpfRoutingHandoffEntry %d vs %d", goConn, connValueSize, goHandoff, handoffValueSize)
	}
	if binary.Size(bpfTuplesKey{}) != int(keySize) {
		return nil, fmt.Errorf("bpfTuplesKey is %d bytes, struct tuples_key %d", binary.Size(bpfTuplesKey{}), keySize)
	}
	connValueSize, handoffValueSize = uint32(goConn), uint32(goHandoff)
	c, err := mk("c03_conn_state", connValueSize)
	if err != nil {
		return nil, fmt.Errorf("creating the conn_state_map stand-in (needs CAP_BPF): %w", err)
	}
	h, err := mk("c03_handoff", handoffValueSize)
	if err != nil {
		c.Close()
		return nil, fmt.Errorf("creating the routing_handoff_map stand-in (needs CAP_BPF): %w", err)
	}
	m := &VerifC03Mirror{core: &controlPlaneCore{}, conn: c, handoff: h, valSize: [2]int{goConn, goHandoff}}
	m.core.bpf.Store(&bpfObjects{bpfMaps: bpfMaps{ConnStateMap: c, RoutingHandoffMap: h}})
	m.loaded[0], m.loaded[1] = map[string]struct{}{}, map[string]struct{}{}
	return m, nil
}

func (m *VerifC03Mirror) Close() {
	m.conn.Close()
	m.handoff.Close()
}

// Load makes the two maps hold exactly the given entries. readAtNs is the virtual time at which the control plane
// will read; hand-over stamps keep their age relative to it.
func (m *VerifC03Mirror) Load(connKeys, connVals, handoffKeys, handoffVals [][]byte, readAtNs uint64) error {
	mono, err := monotonicNowNano()
	if err != nil {
		return err
	}
	var e bpfRoutingHandoffEntry
	off := unsafe.Offsetof(e.LastSeenNs)
	for i, mp := range []*ebpf.Map{m.conn, m.handoff} {
		keys, vals := connKeys, connVals
		if i == 1 {
			keys, vals = handoffKeys, handoffVals
		}
		want := map[string]struct{}{}
		for _, k := range keys {
			want[string(k)] = struct{}{}
		}
		for k := range m.loaded[i] {
			if _, ok := want[k]; !ok {
				if err := mp.Delete([]byte(k)); err != nil && !stderrors.Is(err, ebpf.ErrKeyNotExist) {
					return err
				}
			}
		}
		for j, k := range keys {
			v := vals[j]
			if len(v) < m.valSize[i] {
				return fmt.Errorf("kernel value of %d bytes is shorter than the Go struct (%d)", len(v), m.valSize[i])
			}
			for _, pad := range v[m.valSize[i]:] {
				if pad != 0 {
					return fmt.Errorf("kernel value has data beyond the Go struct: % x", v)
				}
			}
			v = v[:m.valSize[i]]
			if i == 1 && uintptr(len(v)) >= off+8 {
				v = append([]byte(nil), v...)
				ls := binary.LittleEndian.Uint64(v[off:])
				if ls != 0 && ls <= readAtNs {
					binary.LittleEndian.PutUint64(v[off:], mono-(readAtNs-ls))
				}
			}
			if err := mp.Update(k, v, ebpf.UpdateAny); err != nil {
				return err
			}
		}
		m.loaded[i] = want
	}
	return nil
}

// Retrieve = controlPlaneCore.RetrieveRoutingResult (production code, production side effects).
func (m *VerifC03Mirror) Retrieve(src, dst netip.AddrPort, l4proto uint8) (res VerifC03Result, found bool, err error) {
	rr, err := m.core.RetrieveRoutingResult(src, dst, l4proto)
	if err != nil {
		if stderrors.Is(err, ebpf.ErrKeyNotExist) {
			return res, false, nil
		}
		return res, false, err
	}
	from := "routing_handoff_map"
	key := bpfTuplesKeyFromAddrPorts(src, dst, l4proto)
	var cs bpfConnState
	if e := m.conn.Lookup(&key, &cs); e == nil && cs.Meta.Data.HasRouting != 0 {
		from = "conn_state_map"
	}
	return verifC03FromRR(*rr, from), true, nil
}

// VerifC03ConnState decodes a conn_state_map value with the Go struct (for state canonicalisation and diagnostics).
type VerifC03ConnStateView struct {
	WanIngress bool
	State      uint8
	LastSeenNs uint64
	HasRouting uint8
	Outbound   uint8
	Mark       uint32
	Must       uint8
	Dscp       uint8
	Mac        [6]uint8
	Pid        uint32
	Pname      [16]uint8
}

func VerifC03ConnState(b []byte) (v VerifC03ConnStateView, ok bool) {
	var cs bpfConnState
	if uintptr(len(b)) != unsafe.Sizeof(cs) {
		return v, false
	}
	copy(unsafe.Slice((*byte)(unsafe.Pointer(&cs)), unsafe.Sizeof(cs)), b)
	return VerifC03ConnStateView{WanIngress: cs.IsWanIngressDirection, State: cs.State, LastSeenNs: cs.LastSeenNs, HasRouting: cs.Meta.Data.HasRouting,
		Outbound: cs.Meta.Data.Outbound, Mark: cs.Meta.Data.Mark, Must: cs.Meta.Data.Must, Dscp: cs.Meta.Data.Dscp, Mac: cs.Mac, Pid: cs.Pid, Pname: cs.Pname}, true
}

// Offsets of the last-seen timestamps inside the Go mirror structs (used to rewrite them to ages in the state key).
func VerifC03LastSeenOffsets() (connState, handoff, redirect, pidPname uintptr) {
	var cs bpfConnState
	var h bpfRoutingHandoffEntry
	var r bpfRedirectEntry
	var p bpfPidPname
	return unsafe.Offsetof(cs.LastSeenNs), unsafe.Offsetof(h.LastSeenNs), unsafe.Offsetof(r.LastSeenNs), unsafe.Offsetof(p.LastSeenNs)
}

func VerifC03Sizes() (connState, handoff, redirect, pidPname, tuplesKey uintptr) {
	return unsafe.Sizeof(bpfConnState{}), unsafe.Sizeof(bpfRoutingHandoffEntry{}), unsafe.Sizeof(bpfRedirectEntry{}), unsafe.Sizeof(bpfPidPname{}), unsafe.Sizeof(bpfTuplesKey{})
}

// VerifC03HandoffTimeoutNs = routingHandoffTimeout (the control plane ignores older hand-off entries).
func VerifC03HandoffTimeoutNs() uint64 { return uint64(routingHandoffTimeout.Nanoseconds()) }

// VerifC03ConnectivityKey = outboundConnectivityMapKey for (outbound, tcp | data-udp, family) as the bytes
// ebpf.Map.Update marshals (uint32, host order).
func VerifC03ConnectivityKey(outbound uint8, udp bool, ipv6 bool) []byte {
	nt := &dialer.NetworkType{L4Proto: consts.L4ProtoStr_TCP, IpVersion: consts.IpVersionStr_4}
	if udp {
		nt.L4Proto = consts.L4ProtoStr_UDP
		nt.UdpHealthDomain = dialer.UdpHealthDomainData
	}
	if ipv6 {
		nt.IpVersion = consts.IpVersionStr_6
	}
	k := outboundConnectivityMapKey(outbound, nt)
	return verifC03Bytes(&k)
}

// VerifC03ConnectivityKeyDns = the DNS-UDP health slot of an outbound.
func VerifC03ConnectivityKeyDns(outbound uint8, ipv6 bool) []byte {
	nt := &dialer.NetworkType{L4Proto: consts.L4ProtoStr_UDP, IpVersion: consts.IpVersionStr_4, UdpHealthDomain: dialer.UdpHealthDomainDns, IsDns: true}
	if ipv6 {
		nt.IpVersion = consts.IpVersionStr_6
	}
	k := outboundConnectivityMapKey(outbound, nt)
	return verifC03Bytes(&k)
}

// VerifC03DomainRouting: the control plane learned that `domain` resolves to addrs. Bitmap = the active program's own
// domain matcher; keys/value = what buildDomainRoutingOwnerSnapshot (production) would put into domain_routing_map.
func VerifC03DomainRouting(v *VerifRouting, domain string, addrs []netip.Addr) (keys [][]byte, value []byte, nonzero bool, err error) {
	bitmap := v.Matcher.domainMatcher.MatchDomainBitmap(domain)
	cache := &DnsCache{DomainBitmap: bitmap}
	for _, a := range addrs {
		if a.Is4() {
			cache.Answer = append(cache.Answer, &dnsmessage.A{Hdr: dnsmessage.RR_Header{Name: dnsmessage.Fqdn(domain), Rrtype: dnsmessage.TypeA, Class: dnsmessage.ClassINET, Ttl: 60}, A: net.IP(a.AsSlice())})
		} else {
			cache.Answer = append(cache.Answer, &dnsmessage.AAAA{Hdr: dnsmessage.RR_Header{Name: dnsmessage.Fqdn(domain), Rrtype: dnsmessage.TypeAAAA, Class: dnsmessage.ClassINET, Ttl: 60}, AAAA: net.IP(a.AsSlice())})
		}
	}
	snap, err := buildDomainRoutingOwnerSnapshot(cache)
	if err != nil {
		return nil, nil, false, err
	}
	for _, ip := range extractIPsFromDnsCache(cache) {
		ip6 := ip.As16()
		k := common.Ipv6ByteSliceToUint32Array(ip6[:])
		if _, ok := snap.ips[k]; !ok {
			return nil, nil, false, fmt.Errorf("address %v missing from the domain routing snapshot", ip)
		}
		keys = append(keys, verifC03Bytes(&k))
	}
	return keys, verifC03Bytes(&snap.bitmap), !isZeroDomainRoutingBitmap(snap.bitmap), nil
}

// VerifC03Param = bytes of the load-time constant as the Go mirror struct bpfDaeParam lays it out.
func VerifC03Param(tproxyPort, controlPlanePid, dae0Ifindex, daeNetnsId uint32, peerMac [6]byte, useRedirectPeer, hasGetCurrentTask uint8, daeSocketMark uint32) []byte {
	p := bpfDaeParam{TproxyPort: tproxyPort, ControlPlanePid: controlPlanePid, Dae0Ifindex: dae0Ifindex, DaeNetnsId: daeNetnsId, Dae0peerMac: peerMac,
		UseRedirectPeer: useRedirectPeer, HasBpfGetCurrentTask: hasGetCurrentTask, DaeSocketMark: daeSocketMark}
	return verifC03Bytes(&p)
}

// VerifC03ListenKeys = the listen_socket_map slots the control plane writes (tcp4, udp, tcp6).
func VerifC03ListenKeys() (tcp4, udp, tcp6 uint32) {
	return uint32(consts.ZeroKey), uint32(consts.OneKey), uint32(consts.TwoKey)
}

// VerifC03SoMark = the socket mark dae puts on its own sockets by default.
func VerifC03SoMark() uint32 { return common.EffectiveSoMarkFromDae(0) }
